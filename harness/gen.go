package main

import (
	"fmt"

	sdk "github.com/cosmos/cosmos-sdk/types"
	stakingtypes "github.com/cosmos/cosmos-sdk/x/staking/types"
)

// splitmix64: every random choice of a run derives from one state seeded by VERIF_SEED.
type Rng struct{ s uint64 }

func (r *Rng) U64() uint64 {
	r.s += 0x9e3779b97f4a7c15
	z := r.s
	z = (z ^ (z >> 30)) * 0xbf58476d1ce4e5b9
	z = (z ^ (z >> 27)) * 0x94d049bb133111eb
	return z ^ (z >> 31)
}
func (r *Rng) N(n int) int {
	if n <= 0 {
		return 0
	}
	return int(r.U64() % uint64(n))
}
func (r *Rng) P(pct int) bool { return r.N(100) < pct }
func (r *Rng) Pick(xs []int) int {
	return xs[r.N(len(xs))]
}

// weighted choice
func (r *Rng) W(ws ...int) int {
	t := 0
	for _, w := range ws {
		t += w
	}
	x := r.N(t)
	for i, w := range ws {
		if x < w {
			return i
		}
		x -= w
	}
	return len(ws) - 1
}

type OpInfo struct {
	Exists  bool
	Status  int
	Jailed  bool
	Tokens  int64
	Last    int64 // -1: none
	Pending bool
}

type Snap struct {
	Ops      [NOPS]OpInfo
	Cached   uint64
	AbsCh    uint64
	MaxVals  uint32
	NBonded  int
	NRecords int
	MaxUbHeight int64 // largest unbonding height among validators still unbonding
}

func (n *Node) Snap() Snap {
	var s Snap
	ctx := n.Ctx()
	sk := n.App.StakingKeeper
	vals, _ := sk.GetAllValidators(ctx)
	s.NRecords = len(vals)
	for _, v := range vals {
		op := n.W.OpByVal(v.OperatorAddress)
		if op < 0 {
			continue
		}
		oi := &s.Ops[op]
		oi.Exists = true
		oi.Status = int(v.Status)
		oi.Jailed = v.Jailed
		if v.Tokens.IsInt64() {
			oi.Tokens = v.Tokens.Int64()
		} else {
			oi.Tokens = 1 << 62
		}
		oi.Last = -1
		va, _ := sdk.ValAddressFromBech32(v.OperatorAddress)
		if has, _ := hasLastPower(n, ctx, va); has {
			oi.Last, _ = sk.GetLastValidatorPower(ctx, va)
		}
		if v.Status == stakingtypes.Bonded && !v.Jailed {
			s.NBonded++
		}
		if v.Status == stakingtypes.Unbonding && v.UnbondingHeight > s.MaxUbHeight {
			s.MaxUbHeight = v.UnbondingHeight
		}
	}
	if pv, err := n.App.POAKeeper.GetPendingValidators(ctx); err == nil {
		for _, p := range pv.Validators {
			if op := n.W.OpByVal(p.OperatorAddress); op >= 0 {
				s.Ops[op].Pending = true
			}
		}
	}
	s.Cached, _ = n.App.POAKeeper.GetCachedBlockPower(ctx)
	s.AbsCh, _ = n.App.POAKeeper.GetAbsoluteChangedInBlockPower(ctx)
	if p, err := sk.GetParams(ctx); err == nil {
		s.MaxVals = p.MaxValidators
	}
	return s
}

type GenCfg struct {
	Mode      string // wild | envelope
	MaxBlocks int
	Restarts  bool
}

type Gen struct {
	R   *Rng
	Cfg GenCfg
	G   Genesis
	// generator-side memory
	everUpdated   [NOPS]bool // SetPower'ed on an existing validator at some point (stale home entry may exist)
	downKey       int        // key currently kept absent (-1 none)
	downLeft      int
	lastUnbondAt  int64 // height at which some validator last started unbonding / was removed (approx.)
	updatedInBlk  map[int]bool
	createdOnce   [NOPS]bool
	anteCfg       int
	queued        []Tx // follow-up transactions (the admin re-sending a rejected request with the unsafe flag)
}

func NewGen(seed uint64, cfg GenCfg) *Gen {
	return &Gen{R: &Rng{s: seed}, Cfg: cfg, downKey: -1, lastUnbondAt: -100}
}

func (g *Gen) Genesis() Genesis {
	r := g.R
	nv := 2 + r.N(5) // 2..6
	if g.Cfg.Mode == "guard" {
		nv = 2 + r.N(2) // small sets: the last-validator guard and its neighbours are in play
	}
	gen := Genesis{Window: 4, MinSigned: 2, MinSignedDec: "0.5", JailNs: 2_000_000_000, MinCommE18: 0}
	mv := r.N(3)
	if g.Cfg.Mode != "wild" && r.P(75) {
		mv = 2
	}
	if g.Cfg.Mode == "guard" {
		mv = 2
	}
	switch mv {
	case 0:
		gen.MaxVals = uint32(nv)
	case 1:
		gen.MaxVals = uint32(nv + 1)
	default:
		gen.MaxVals = 100
	}
	if r.P(70) {
		gen.UnbondNs = 8_000_000_000 // 8 blocks of 1s
	} else {
		gen.UnbondNs = 21 * 24 * 3600 * 1_000_000_000
	}
	if r.P(30) {
		gen.SlashDownE18 = 10_000_000_000_000_000 // 1%
	}
	if r.P(30) {
		gen.MinCommE18 = 50_000_000_000_000_000 // 5%
	}
	perm := []int{}
	for i := 0; i < NOPS; i++ {
		perm = append(perm, i)
	}
	for i := NOPS - 1; i > 0; i-- {
		j := r.N(i + 1)
		perm[i], perm[j] = perm[j], perm[i]
	}
	equal := r.P(40)
	base := int64(1+r.N(50)) * 1_000_000
	for i := 0; i < nv; i++ {
		tok := base
		if !equal {
			tok = int64(1+r.N(200)) * 1_000_000
			if r.P(30) {
				tok += int64(r.N(999_999))
			}
		}
		gen.Vals = append(gen.Vals, GVal{Op: perm[i], Key: perm[i], Tokens: tok})
	}
	if g.Cfg.Mode == "gov" {
		gen.GovAdmin = true // the default configuration: the admin is the x/gov account
	}
	g.G = gen
	return gen
}

func itoa(v interface{}) string { return fmt.Sprint(v) }

func (g *Gen) classOps(s Snap, pred func(OpInfo) bool) []int {
	var xs []int
	for i, o := range s.Ops {
		if pred(o) {
			xs = append(xs, i)
		}
	}
	return xs
}

func (g *Gen) pickTarget(s Snap) int {
	r := g.R
	bonded := g.classOps(s, func(o OpInfo) bool { return o.Exists && o.Status == 3 && !o.Jailed })
	jailed := g.classOps(s, func(o OpInfo) bool { return o.Exists && o.Jailed })
	unb := g.classOps(s, func(o OpInfo) bool { return o.Exists && o.Status != 3 && !o.Jailed })
	pend := g.classOps(s, func(o OpInfo) bool { return o.Pending })
	unk := g.classOps(s, func(o OpInfo) bool { return !o.Exists && !o.Pending })
	envelope := g.Cfg.Mode == "envelope" || g.Cfg.Mode == "calm" || g.Cfg.Mode == "gov"
	if !envelope && g.downKey >= 0 && g.downKey < NOPS && r.P(12) {
		// the validator that is being kept absent: admin operations around (and in the very block of) its jailing
		return g.downKey
	}
	for tries := 0; tries < 20; tries++ {
		var c int
		if envelope {
			c = r.W(50, 0, 0, 35, 10, 5)
		} else {
			c = r.W(45, 12, 10, 20, 8, 5)
		}
		switch c {
		case 0:
			if len(bonded) > 0 {
				return r.Pick(bonded)
			}
		case 1:
			if len(jailed) > 0 {
				return r.Pick(jailed)
			}
		case 2:
			if len(unb) > 0 {
				return r.Pick(unb)
			}
		case 3:
			if len(pend) > 0 {
				return r.Pick(pend)
			}
		case 4:
			if len(unk) > 0 {
				return r.Pick(unk)
			}
		case 5:
			return -1
		}
	}
	return r.N(NOPS)
}

func (g *Gen) pickPower(s Snap, t int) uint64 {
	r := g.R
	var cur int64 = 10_000_000
	if t >= 0 && s.Ops[t].Exists {
		cur = s.Ops[t].Tokens
	}
	if cur > 1<<40 {
		cur = 10_000_000
	}
	curP := cur / 1_000_000
	switch r.W(30, 10, 8, 8, 4, 4, 3, 3, 20, 10) {
	case 0: // small step around current
		d := int64(1 + r.N(3))
		if r.P(50) && curP-d >= 1 {
			return uint64((curP - d) * 1_000_000)
		}
		return uint64((curP + d) * 1_000_000)
	case 1: // same consensus power, different remainder
		return uint64(curP*1_000_000 + int64(r.N(999_999)))
	case 2:
		return 999_999
	case 3:
		return 1_000_000
	case 4:
		return 0
	case 5:
		return uint64(1+r.N(300))*1_000_000 + uint64(r.N(1_000_000))
	case 6:
		return []uint64{1<<63 - 1, 1 << 63, 1<<64 - 1, 1<<63 + 5_000_000}[r.N(4)]
	case 7:
		return uint64(1+r.N(1000)) * 1_000_000_000_000
	case 8: // percent boundary: |delta|*100/cached around 30 given what was already changed in this block
		if s.Cached > 0 {
			pct := []uint64{29, 30, 31, 10, 15}[r.N(5)]
			// smallest d with (abs+d)*100/cached >= pct
			need := (pct*s.Cached + 99) / 100
			var d uint64
			if need > s.AbsCh {
				d = need - s.AbsCh
			}
			if r.P(40) && d > 0 {
				d--
			}
			if d == 0 {
				d = 1
			}
			// half of the time with a sub-unit remainder: the voting-power change is the same, the token change is not
			rem := uint64(0)
			if r.P(50) {
				rem = uint64(r.N(1_000_000))
			}
			if r.P(35) && uint64(curP) > d {
				return (uint64(curP)-d)*1_000_000 + rem
			}
			return (uint64(curP)+d)*1_000_000 + rem
		}
		return uint64(curP+1) * 1_000_000
	default:
		return uint64(1+r.N(60)) * 1_000_000
	}
}

func (g *Gen) msgSetPower(s Snap, t int) Msg {
	p := g.pickPower(s, t)
	unsafe := "0"
	if g.R.P(45) {
		unsafe = "1"
	}
	return Msg{Kind: "SETPOWER", Args: []string{itoa(t), itoa(p), unsafe}}
}

func (g *Gen) msgCreate(op int, s Snap) Msg {
	r := g.R
	key := op
	if g.Cfg.Mode == "wild" {
		switch r.W(70, 10, 8, 6, 6) {
		case 1: // key of another operator (maybe in use), preferably one whose validator was removed and is unbonding
			key = r.N(NOPS)
			gone := g.classOps(s, func(o OpInfo) bool { return o.Exists && (o.Status != 3 || o.Tokens == 0) })
			if len(gone) > 0 && r.P(60) {
				key = r.Pick(gone)
			}
		case 2:
			key = 100 + op // secp256k1: not allowed by default consensus params
		case 3:
			key = -1
		case 4:
			key = 100 + r.N(NOPS)
		}
	}
	if g.Cfg.Mode != "calm" && op >= 0 && op < NOPS {
		// an operator applying again (after its first application was removed) often comes with a new key
		if g.createdOnce[op] && r.P(50) {
			key = (op + 1 + r.N(NOPS-1)) % NOPS
		}
		g.createdOnce[op] = true
	}
	if (g.Cfg.Mode == "envelope" || g.Cfg.Mode == "gov") && r.P(10) {
		// re-registering the consensus key of a validator that was removed and is still unbonding (refused)
		gone := g.classOps(s, func(o OpInfo) bool { return o.Exists && (o.Status != 3 || o.Tokens == 0) })
		if len(gone) > 0 {
			key = r.Pick(gone)
		}
	}
	lens := []int{1 + r.N(10), r.N(5), r.N(5), r.N(5), r.N(5)}
	limits := []int{70, 3000, 140, 140, 280}
	if r.P(12) {
		i := r.N(5)
		lens[i] = limits[i] + r.N(2) // at limit or one over
	}
	if r.P(4) {
		lens = []int{0, 0, 0, 0, 0}
	}
	e16 := int64(10_000_000_000_000_000)
	rate, maxRate, maxCh := 20*e16, 50*e16, 10*e16
	switch r.W(60, 8, 6, 6, 6, 6, 8) {
	case 1:
		rate = 10 * e16 // floor of the app's commission limiter
	case 2:
		rate = 9*e16 + e16 - 1 // just below floor
	case 3:
		rate, maxRate = 50*e16, 50*e16
	case 4:
		rate, maxRate = 51*e16, 60*e16 // above the limiter's ceiling
	case 5:
		maxCh = 60 * e16 // > maxRate
	case 6:
		rate = int64(r.N(60)) * e16
		maxRate = int64(r.N(110)) * e16
		maxCh = int64(r.N(60)) * e16
	}
	minSelf := []string{"1", "0", "1000000", "-5"}[r.W(70, 10, 10, 10)]
	return Msg{Kind: "CREATE", Args: []string{itoa(op), itoa(key), itoa(lens[0]), itoa(lens[1]), itoa(lens[2]), itoa(lens[3]), itoa(lens[4]),
		itoa(rate), itoa(maxRate), itoa(maxCh), minSelf}}
}

func (g *Gen) msgParams(s Snap) Msg {
	r := g.R
	unbond := g.G.UnbondNs
	maxVals := int64(s.MaxVals)
	maxEntries, hist := int64(7), int64(10000)
	denom := 0
	minComm := g.G.MinCommE18
	switch r.W(30, 20, 8, 8, 6, 6, 6, 6, 10) {
	case 0: // cut the cap
		if s.NBonded > 1 {
			maxVals = int64(1 + r.N(s.NBonded))
		}
	case 1:
		maxVals = int64(s.NBonded + r.N(3))
		if maxVals == 0 {
			maxVals = 1
		}
	case 2:
		maxVals = 0
	case 3:
		unbond = []int64{0, -1, -1_000_000_000}[r.N(3)] // invalid values only: a valid but tiny unbonding time lets a removed validator mature while CometBFT still reports its votes
	case 4:
		denom = []int{2, 2, 3, 4, 5, 6}[r.N(6)] // kind 1 (another valid denom) is never generated: x/staking permits the change and the chain stops working; outside the model
	case 5:
		minComm = []int64{-1, 1_000_000_000_000_000_001, 1_000_000_000_000_000_000, 150_000_000_000_000_000, 300_000_000_000_000_000, 300_000_000_000_000_000}[r.N(6)]
	case 6:
		maxEntries = int64(r.N(2))
	case 7:
		hist = int64(r.N(3))
	default:
		maxVals = int64(1 + r.N(8))
		unbond = int64(4+r.N(8)) * 1_000_000_000
	}
	return Msg{Kind: "PARAMS", Args: []string{itoa(unbond), itoa(maxVals), itoa(maxEntries), itoa(hist), itoa(denom), itoa(minComm)}}
}

func (g *Gen) wrap(m Msg) Msg {
	r := g.R
	depth := 1 + r.N(2)
	for i := 0; i < depth; i++ {
		sub := []Msg{m}
		if r.P(30) {
			sub = append([]Msg{{Kind: "OTHER"}}, sub...)
		}
		m = Msg{Kind: "EXEC", Sub: sub}
	}
	return m
}

// GenTx produces one transaction given the current snapshot.
func (g *Gen) GenTx(s Snap, height int64) Tx {
	r := g.R
	if len(g.queued) > 0 {
		tx := g.queued[0]
		g.queued = g.queued[1:]
		return tx
	}
	envelope := g.Cfg.Mode == "envelope" || g.Cfg.Mode == "calm" || g.Cfg.Mode == "gov"
	kind := r.W(34, 12, 6, 14, 6, 8, 3, 6, 3, 3, 5)
	if envelope {
		kind = r.W(40, 12, 6, 18, 6, 8, 2, 4, 2, 1, 1)
	}
	if g.Cfg.Mode == "guard" {
		kind = r.W(18, 40, 3, 12, 3, 12, 2, 3, 2, 1, 4)
	}
	if height == 1 && kind >= 5 {
		// block 1: the ante gates are open (gentx convention) and a real x/staking message would execute, which
		// the model does not follow; PoA's own messages and bank sends only
		kind = []int{0, 1, 2, 3, 4, 10}[r.N(6)]
	}
	switch kind {
	case 0: // SETPOWER
		if envelope {
			// steer away from the known triggers: only pending applicants or bonded validators that were
			// never updated before, increases only, one message per transaction
			var fresh []int
			for i, o := range s.Ops {
				if o.Pending && !o.Exists && !g.everUpdated[i] {
					fresh = append(fresh, i)
				}
			}
			for i, o := range s.Ops {
				if o.Exists && o.Status == 3 && !o.Jailed && !g.everUpdated[i] {
					fresh = append(fresh, i)
				}
			}
			if len(fresh) == 0 {
				return Tx{Signer: -1, Msgs: []Msg{{Kind: "OTHER"}}}
			}
			t := r.Pick(fresh)
			cur := s.Ops[t].Tokens / 1_000_000
			var p uint64
			switch r.W(50, 30, 20) {
			case 0:
				p = uint64(cur+1+int64(r.N(3))) * 1_000_000
			case 1:
				p = g.pickPower(s, t)
				if p < uint64(s.Ops[t].Tokens) || p >= 1<<62 {
					p = uint64(cur+2) * 1_000_000
				}
			default:
				p = uint64(cur+1)*1_000_000 + uint64(r.N(999_999))
			}
			if s.Ops[t].Exists {
				g.everUpdated[t] = true
			} else {
				g.everUpdated[t] = true // admitted: owns only a power-0 entry afterwards
			}
			unsafe := "0"
			if r.P(50) {
				unsafe = "1"
			}
			return Tx{Signer: -1, Msgs: []Msg{{Kind: "SETPOWER", Args: []string{itoa(t), itoa(p), unsafe}}}}
		}
		signer := -1
		if r.P(10) {
			signer = []int{-2, r.N(NOPS)}[r.N(2)]
		}
		t := g.pickTarget(s)
		m := g.msgSetPower(s, t)
		msgs := []Msg{m}
		if !envelope && signer == -1 && m.Args[2] == "0" && r.P(20) {
			// what an admin does after "unsafe power" errors: the same request again, with the flag
			g.queued = append(g.queued, Tx{Signer: -1, Msgs: []Msg{{Kind: "SETPOWER", Args: []string{m.Args[0], m.Args[1], "1"}}}})
		}
		if !envelope && r.P(15) { // second message in the same tx
			t2 := g.pickTarget(s)
			if r.P(40) {
				t2 = t
			}
			msgs = append(msgs, g.msgSetPower(s, t2))
		}
		if r.P(6) {
			msgs = []Msg{g.wrap(m)}
		}
		return Tx{Signer: signer, Msgs: msgs}
	case 1: // REMOVE
		t := g.pickTarget(s)
		if envelope {
			var cand []int
			for i, o := range s.Ops {
				if o.Exists && o.Status == 3 && !o.Jailed && !g.everUpdated[i] {
					cand = append(cand, i)
				}
			}
			if len(cand) == 0 {
				return Tx{Signer: -1, Msgs: []Msg{{Kind: "OTHER"}}}
			}
			t = r.Pick(cand)
			g.everUpdated[t] = true
		}
		signer := -1
		switch r.W(60, 25, 15) {
		case 1:
			if t >= 0 {
				signer = t
			}
		case 2:
			signer = []int{-2, r.N(NOPS)}[r.N(2)]
		}
		return Tx{Signer: signer, Msgs: []Msg{{Kind: "REMOVE", Args: []string{itoa(t)}}}}
	case 2: // RMPENDING
		t := g.pickTarget(s)
		pend := g.classOps(s, func(o OpInfo) bool { return o.Pending })
		if len(pend) > 0 && r.P(70) {
			t = r.Pick(pend)
		}
		signer := -1
		if r.P(20) {
			signer = []int{-2, r.N(NOPS)}[r.N(2)]
		}
		if signer == -1 && t >= 0 && t < NOPS && s.Ops[t].Pending && g.Cfg.Mode != "calm" && r.P(40) {
			// the refused applicant applies again, with another consensus key
			m := g.msgCreate(t, s)
			m.Args[1] = itoa((t + 1 + r.N(NOPS-1)) % NOPS)
			g.queued = append(g.queued, Tx{Signer: t, Msgs: []Msg{m}})
		}
		return Tx{Signer: signer, Msgs: []Msg{{Kind: "RMPENDING", Args: []string{itoa(t)}}}}
	case 3: // CREATE
		fresh := g.classOps(s, func(o OpInfo) bool { return !o.Exists && !o.Pending })
		op := r.N(NOPS)
		if len(fresh) > 0 && (envelope || r.P(75)) {
			op = r.Pick(fresh)
		}
		if !envelope && r.P(12) {
			// a validator that is out of the set (jailed, removed, displaced) applies again under its own operator address (refused)
			out := g.classOps(s, func(o OpInfo) bool { return o.Exists && (o.Jailed || o.Status != 3 || o.Tokens == 0) })
			if len(out) > 0 {
				op = r.Pick(out)
			}
		}
		return Tx{Signer: op, Msgs: []Msg{g.msgCreate(op, s)}}
	case 4: // PARAMS
		signer := -1
		if r.P(15) {
			signer = -2
		}
		return Tx{Signer: signer, Msgs: []Msg{g.msgParams(s)}}
	case 5: // UNJAIL
		jailed := g.classOps(s, func(o OpInfo) bool { return o.Exists && o.Jailed })
		op := r.N(NOPS)
		if len(jailed) > 0 && r.P(85) {
			op = r.Pick(jailed)
		}
		return Tx{Signer: op, Msgs: []Msg{{Kind: "UNJAIL", Args: []string{itoa(op)}}}}
	case 6: // EDIT
		op := r.N(NOPS)
		rate := "nil"
		if r.P(60) {
			rate = itoa(int64(5+r.N(50)) * 10_000_000_000_000_000)
		}
		return Tx{Signer: op, Msgs: []Msg{{Kind: "EDIT", Args: []string{itoa(op), rate}}}}
	case 7: // blocked staking msg, maybe wrapped, maybe next to a PoA msg
		signer := []int{-1, -2, r.N(NOPS)}[r.N(3)]
		k := r.N(6)
		if k == 5 || k == 0 {
			// CreateValidator / UpdateParams signer constraints are met by construction (signer-derived addresses)
		}
		m := Msg{Kind: "STAKING", Args: []string{itoa(k)}}
		if r.P(50) {
			m = g.wrap(m)
		}
		msgs := []Msg{m}
		if r.P(30) {
			msgs = append([]Msg{{Kind: "OTHER"}}, msgs...)
		}
		if signer == -1 && r.P(30) {
			t := g.pickTarget(s)
			msgs = append([]Msg{g.msgSetPower(s, t)}, msgs...)
		}
		return Tx{Signer: signer, Msgs: msgs}
	case 8: // WITHDRAW
		signer := []int{-1, -2, r.N(NOPS)}[r.N(3)]
		m := Msg{Kind: "WITHDRAW"}
		if r.P(50) {
			m = g.wrap(m)
		}
		return Tx{Signer: signer, Msgs: []Msg{m}}
	case 9: // proposal wrappers around blocked content
		signer := []int{-1, -2, r.N(NOPS)}[r.N(3)]
		inner := Msg{Kind: "STAKING", Args: []string{itoa(1 + r.N(4))}}
		if r.P(30) {
			inner = Msg{Kind: "WITHDRAW"}
		}
		k := []string{"GROUPPROP", "GOVPROP"}[r.N(2)]
		m := Msg{Kind: k, Sub: []Msg{inner}}
		if r.P(30) {
			m = Msg{Kind: "EXEC", Sub: []Msg{m}}
		}
		return Tx{Signer: signer, Msgs: []Msg{m}}
	default:
		signer := []int{-1, -2, r.N(NOPS)}[r.N(3)]
		return Tx{Signer: signer, Msgs: []Msg{{Kind: "OTHER"}}}
	}
}
