package main

import (
	"bufio"
	"fmt"
	"os"
	"sort"
	"strings"
)

// runQuiet executes a history, returning per block the tx classes, the RESP-relevant parts and the store hashes.
type blockRec struct {
	Classes []string
	Hashes  map[string]string
	Upd     string
	Halt    string
	AppHash string
}

func runRecorded(w *World, h History, restarts map[int]bool) []blockRec {
	discard := bufio.NewWriter(devNull{})
	r := &Runner{W: w, Out: discard}
	defer r.Close()
	h.G.MinSignedDec = minSignedDec(h.G)
	if err := r.Start(h.G); err != nil {
		return nil
	}
	var recs []blockRec
	for i, b := range h.Blocks {
		if r.Halt {
			break
		}
		if restarts != nil {
			b.Restart = restarts[i]
		}
		out := r.Step(b)
		rec := blockRec{Halt: out.Halt, Upd: r.N.updStr(out.Updates), AppHash: fmt.Sprintf("%x", out.AppHash)}
		for _, t := range out.Txs {
			rec.Classes = append(rec.Classes, t.Class())
		}
		if out.Halt == "" {
			rec.Hashes = r.N.StoreHashes()
		}
		recs = append(recs, rec)
	}
	return recs
}

type devNull struct{}

func (devNull) Write(p []byte) (int, error) { return len(p), nil }

var twinModules = []string{"poa", "staking", "slashing", "bank", "mint", "distribution"}

// twinMain: for failing transactions of stored histories, run the twin chain without that transaction and
// compare the per-module store hashes after the block.
func twinMain(w *World, args []string) {
	opsPath, outPath := "ops.txt", "twin.txt"
	maxPer, seed := 2, uint64(1)
	for i := 0; i+1 < len(args); i += 2 {
		switch args[i] {
		case "-ops":
			opsPath = args[i+1]
		case "-out":
			outPath = args[i+1]
		case "-per":
			fmt.Sscan(args[i+1], &maxPer)
		case "-seed":
			fmt.Sscan(args[i+1], &seed)
		}
	}
	f, err := os.Open(opsPath)
	if err != nil {
		panic(err)
	}
	hs, err := ReadHistories(f)
	if err != nil {
		panic(err)
	}
	of, _ := os.Create(outPath)
	defer of.Close()
	rng := &Rng{s: seed}
	twins, diffs := 0, 0
	classes := map[string]int{}
	for hi, h := range hs {
		a := runRecorded(w, h, nil)
		type cand struct{ b, t int }
		var cands []cand
		for bi, rec := range a {
			if rec.Halt != "" || bi >= len(h.Blocks) {
				continue
			}
			for ti, c := range rec.Classes {
				if c == "ok" {
					continue
				}
				// a tx rejected by the ante chain does not bump its signer's sequence, so the signer's later txs of
				// the block fail with "wrong sequence" (sdk:32) — and would succeed in the twin: not comparable.
				// Every other failing tx is a candidate, including ones followed by txs of the same signer.
				later := false
				for k, t2 := range h.Blocks[bi].Txs[ti+1:] {
					if t2.Signer == h.Blocks[bi].Txs[ti].Signer && ti+1+k < len(rec.Classes) && rec.Classes[ti+1+k] == "sdk:32" {
						later = true
					}
				}
				if c == "sdk:32" {
					later = true
				}
				if !later {
					cands = append(cands, cand{bi, ti})
				}
			}
		}
		for k := 0; k < maxPer && len(cands) > 0; k++ {
			ci := rng.N(len(cands))
			c := cands[ci]
			cands = append(cands[:ci], cands[ci+1:]...)
			// twin history: blocks up to c.b, tx c.t removed
			hb := History{G: h.G}
			for bi := 0; bi <= c.b; bi++ {
				blk := h.Blocks[bi]
				if bi == c.b {
					nb := blk
					nb.Txs = append(append([]Tx{}, blk.Txs[:c.t]...), blk.Txs[c.t+1:]...)
					blk = nb
				}
				hb.Blocks = append(hb.Blocks, blk)
			}
			b := runRecorded(w, hb, nil)
			twins++
			cls := a[c.b].Classes[c.t]
			classes[cls]++
			verdict := "equal"
			var bad []string
			if len(b) <= c.b || b[c.b].Halt != "" {
				verdict = "DIFF"
				bad = append(bad, "twin-halted")
			} else {
				for _, m := range twinModules {
					if a[c.b].Hashes[m] != b[c.b].Hashes[m] {
						bad = append(bad, m)
					}
				}
				if a[c.b].Upd != b[c.b].Upd {
					bad = append(bad, "updates")
				}
				if len(bad) > 0 {
					verdict = "DIFF"
				}
			}
			if verdict == "DIFF" {
				diffs++
			}
			var sb strings.Builder
			writeMsgs(&sb, h.Blocks[c.b].Txs[c.t])
			fmt.Fprintf(of, "TWIN hist=%d block=%d tx=%d class=%s %s %s | %s\n", hi, c.b+1, c.t, cls, verdict, strings.Join(bad, ","), sb.String())
		}
	}
	var ks []string
	for k := range classes {
		ks = append(ks, k)
	}
	sort.Strings(ks)
	var sb strings.Builder
	for _, k := range ks {
		fmt.Fprintf(&sb, " %s=%d", k, classes[k])
	}
	fmt.Fprintf(of, "TWINSUMMARY twins=%d diffs=%d classes:%s\n", twins, diffs, sb.String())
	if diffs > 0 {
		os.Exit(1)
	}
}

func writeMsgs(sb *strings.Builder, t Tx) {
	fmt.Fprintf(sb, "signer %d:", t.Signer)
	for _, m := range t.Msgs {
		fmt.Fprintf(sb, " %s(%s)", m.Kind, strings.Join(m.Args, ","))
		if len(m.Sub) > 0 {
			fmt.Fprintf(sb, "[%d nested]", m.count()-1)
		}
	}
}

// restartMain: re-run stored histories with restarts at chosen commit points (and on a second fresh
// instance without restarts); every FinalizeBlock response must be byte-identical to the reference run.
func restartMain(w *World, args []string) {
	opsPath, outPath := "ops.txt", "restart.txt"
	seed := uint64(1)
	subsets := 2
	every := false
	allOnly := false
	for i := 0; i+1 < len(args); i += 2 {
		switch args[i] {
		case "-ops":
			opsPath = args[i+1]
		case "-out":
			outPath = args[i+1]
		case "-seed":
			fmt.Sscan(args[i+1], &seed)
		case "-subsets":
			fmt.Sscan(args[i+1], &subsets)
		case "-every":
			every = args[i+1] == "1"
		case "-all":
			allOnly = args[i+1] == "1"
		}
	}
	f, err := os.Open(opsPath)
	if err != nil {
		panic(err)
	}
	hs, err := ReadHistories(f)
	if err != nil {
		panic(err)
	}
	of, _ := os.Create(outPath)
	defer of.Close()
	rng := &Rng{s: seed}
	runs, diffs, points := 0, 0, 0
	same := func(a, b []respRec) int {
		n := len(a)
		if len(b) != n {
			return min(len(a), len(b))
		}
		for i := range a {
			if a[i] != b[i] {
				return i
			}
		}
		return -1
	}
	for hi, h := range hs {
		ref := runResp(w, h, nil)
		// a second fresh instance
		second := runResp(w, h, nil)
		runs++
		if at := same(ref, second); at >= 0 {
			diffs++
			fmt.Fprintf(of, "RESTARTDIFF hist=%d kind=two-instances block=%d\n", hi, at+1)
		}
		var sets []map[int]bool
		for k := 0; k < subsets; k++ {
			s := map[int]bool{}
			for bi := 1; bi < len(h.Blocks); bi++ {
				if rng.P(30) {
					s[bi] = true
				}
			}
			sets = append(sets, s)
		}
		if every {
			all := map[int]bool{}
			for bi := 1; bi < len(h.Blocks); bi++ {
				all[bi] = true
				sets = append(sets, map[int]bool{bi: true})
			}
			sets = append(sets, all)
		}
		if allOnly && !every {
			// a restart before every block
			all := map[int]bool{}
			for bi := 1; bi < len(h.Blocks); bi++ {
				all[bi] = true
			}
			sets = append(sets, all)
		}
		for _, s := range sets {
			got := runResp(w, h, s)
			runs++
			points += len(s)
			if at := same(ref, got); at >= 0 {
				diffs++
				var pts []int
				for p := range s {
					pts = append(pts, p+1)
				}
				sort.Ints(pts)
				fmt.Fprintf(of, "RESTARTDIFF hist=%d kind=restart block=%d restarts-before-blocks=%v\n", hi, at+1, pts)
			}
		}
	}
	fmt.Fprintf(of, "RESTARTSUMMARY histories=%d runs=%d restart-points=%d diffs=%d\n", len(hs), runs, points, diffs)
	if diffs > 0 {
		os.Exit(1)
	}
}

type respRec struct{ resp, halt string }

func runResp(w *World, h History, restarts map[int]bool) []respRec {
	var sb strings.Builder
	r := &Runner{W: w, Out: &sb}
	defer r.Close()
	h.G.MinSignedDec = minSignedDec(h.G)
	if err := r.Start(h.G); err != nil {
		return nil
	}
	var recs []respRec
	for i, b := range h.Blocks {
		if r.Halt {
			break
		}
		b.Restart = restarts != nil && restarts[i]
		sb.Reset()
		out := r.Step(b)
		rec := respRec{halt: out.Halt}
		for _, l := range strings.Split(sb.String(), "\n") {
			if strings.HasPrefix(l, "RESP ") {
				rec.resp = l
			}
		}
		recs = append(recs, rec)
	}
	return recs
}
