package main

import (
	"bufio"
	"crypto/sha256"
	"flag"
	"fmt"
	"io"
	"os"
	"strings"

	abci "github.com/cometbft/cometbft/abci/types"
	cmttypes "github.com/cometbft/cometbft/types"
)

func cometErrKind(err error) string {
	s := err.Error()
	switch {
	case strings.Contains(s, "duplicate entry"):
		return "duplicate"
	case strings.Contains(s, "failed to find validator"):
		return "absent-removal"
	case strings.Contains(s, "can't be negative"), strings.Contains(s, "negative"):
		return "negative"
	case strings.Contains(s, "can't be higher than"):
		return "power-too-big"
	case strings.Contains(s, "exceeds max"):
		return "total-too-big"
	case strings.Contains(s, "empty set"):
		return "empty"
	}
	return "other"
}

// Runner executes a history on a node and writes observation lines.
type Runner struct {
	W    *World
	Out  io.Writer
	N    *Node
	Sets map[int64]*cmttypes.ValidatorSet // validator set per height
	Halt bool
}

func (r *Runner) emit(lines ...string) {
	for _, l := range lines {
		fmt.Fprintln(r.Out, l)
	}
}

func (r *Runner) Start(g Genesis) error {
	n, ups, err := NewNode(r.W, g)
	if err != nil {
		return err
	}
	r.N = n
	r.Sets = map[int64]*cmttypes.ValidatorSet{}
	r.emit("H 0")
	r.emit(n.updStr(ups))
	set, err := applyToCometSet(nil, ups)
	if err != nil {
		r.emit("HALT comet:" + cometErrKind(err))
		r.Halt = true
		return nil
	}
	r.Sets[1] = set
	r.Sets[2] = set
	r.emit(cometStr(r.W, set))
	return nil
}

// VotesFor builds the DecidedLastCommit of block h from the set that signed h-1.
func (r *Runner) VotesFor(h int64, absent map[int]bool) []Vote {
	if h < 2 {
		return nil
	}
	set := r.Sets[h-1]
	if set == nil {
		return nil
	}
	var vs []Vote
	for _, v := range set.Validators {
		k := r.W.KeyByConsAddr(v.Address)
		vs = append(vs, Vote{Key: k, Power: v.VotingPower, Absent: absent[k]})
	}
	return vs
}

func (r *Runner) Step(b Block) BlockOut {
	out := r.N.ExecBlock(b, nil)
	h := out.Height
	r.emit(fmt.Sprintf("H %d", h))
	if out.Halt != "" {
		r.emit("HALT " + out.Halt)
		fmt.Fprintf(diag, "halt at %d: %s\n", h, firstLine(out.HaltMsg))
		r.Halt = true
		return out
	}
	for i, t := range out.Txs {
		r.emit(fmt.Sprintf("TXR %d %s", i, t.Class()))
	}
	for i, g := range out.Gov {
		res := "govfail"
		if g.OK {
			res = "ok"
		}
		r.emit(fmt.Sprintf("TXR %d %s", len(out.Txs)+i, res))
	}
	if out.RawResp != nil {
		// the consensus-relevant part of the response: app hash, validator updates, consensus param
		// updates and, per tx, what CometBFT hashes into LastResultsHash (code, data, gas) plus the
		// codespace; logs, info strings and events are not part of consensus (a recovered panic puts a
		// stack trace with addresses into the log)
		hsh := sha256.New()
		hsh.Write(out.RawResp.AppHash)
		for _, tr := range out.RawResp.TxResults {
			fmt.Fprintf(hsh, "|%d|%x|%d|%d|%s", tr.Code, tr.Data, tr.GasWanted, tr.GasUsed, tr.Codespace)
		}
		for _, u := range out.RawResp.ValidatorUpdates {
			bz, _ := u.Marshal()
			fmt.Fprintf(hsh, "|u%x", bz)
		}
		if out.RawResp.ConsensusParamUpdates != nil {
			bz, _ := out.RawResp.ConsensusParamUpdates.Marshal()
			fmt.Fprintf(hsh, "|c%x", bz)
		}
		r.emit(fmt.Sprintf("RESP %x", hsh.Sum(nil)))
	}
	r.emit(r.N.updStr(out.Updates))
	prev := r.Sets[h+1]
	ns, err := applyToCometSet(prev, out.Updates)
	if err != nil {
		r.emit("HALT comet:" + cometErrKind(err))
		r.Halt = true
		return out
	}
	r.Sets[h+2] = ns
	r.emit(cometStr(r.W, ns))
	r.emit(r.N.Observe()...)
	return out
}

func firstLine(s string) string {
	if i := strings.Index(s, "\n"); i >= 0 {
		s = s[:i]
	}
	if len(s) > 300 {
		s = s[:300]
	}
	return s
}

func (r *Runner) Close() {
	if r.N != nil {
		r.N.Close()
	}
}

// runHistory replays a stored history.
func runHistory(w *World, h History, out io.Writer) {
	r := &Runner{W: w, Out: out}
	defer r.Close()
	h.G.MinSignedDec = minSignedDec(h.G)
	if err := r.Start(h.G); err != nil {
		fmt.Fprintln(out, "OBSERR "+err.Error())
		fmt.Fprintln(out, "END")
		return
	}
	for _, b := range h.Blocks {
		if r.Halt {
			break
		}
		r.Step(b)
	}
	fmt.Fprintln(out, "END")
}

func minSignedDec(g Genesis) string {
	// window 4 with minSigned 2 is the only configuration generated; kept as a function for replay files
	if g.Window == 4 && g.MinSigned == 2 {
		return "0.5"
	}
	return fmt.Sprintf("%d.0", 0) // unsupported combos fall back; checked by obs of SIG lines
}

// genHistory generates a history while executing it (state-aware generation).
func genHistory(w *World, seed uint64, cfg GenCfg, ops io.Writer, obs io.Writer) (blocks int, halted bool) {
	g := NewGen(seed, cfg)
	gen := g.Genesis()
	r := &Runner{W: w, Out: obs}
	defer r.Close()
	WriteGenesis(ops, gen)
	if err := r.Start(gen); err != nil {
		fmt.Fprintln(obs, "OBSERR "+err.Error())
		fmt.Fprintln(obs, "END")
		fmt.Fprintln(ops, "END")
		return 0, true
	}
	nblocks := 3 + g.R.N(cfg.MaxBlocks-2)
	for i := 0; i < nblocks && !r.Halt; i++ {
		h := r.N.Height + 1
		s := r.N.Snap()
		b := Block{DtNs: 1_000_000_000}
		// time jumps (never across an unbonding period while a validator that just left the set may
		// still be voting: x/slashing would meet a vote of a deleted record, which only an
		// unrealistically short unbonding time makes possible)
		if g.R.P(8) {
			b.DtNs = gen.JailNs + 1_000_000_000
		}
		if g.R.P(6) && h > s.MaxUbHeight+3 && h > g.lastUnbondAt+3 {
			b.DtNs = gen.UnbondNs + 1_000_000_000
			if gen.UnbondNs > 1_000_000_000_000 && !g.R.P(25) {
				b.DtNs = 1_000_000_000
			}
		}
		if cfg.Restarts && g.R.P(10) && h > 1 {
			b.Restart = true
		}
		// downtime plan (only while at least three validators are active, so that jailing never
		// empties the set by itself)
		absent := map[int]bool{}
		minActive, downPct := 3, 14
		if cfg.Mode == "guard" {
			minActive, downPct = 2, 30
		}
		if cfg.Mode != "calm" {
			if g.downLeft == 0 {
				g.downKey = -1
				if g.R.P(downPct) && s.NBonded >= minActive {
					if set := r.Sets[h-1]; set != nil && len(set.Validators) >= minActive {
						v := set.Validators[g.R.N(len(set.Validators))]
						g.downKey = w.KeyByConsAddr(v.Address)
						g.downLeft = 3 + g.R.N(3)
					}
				}
			}
			if g.downKey >= 0 {
				if s.NBonded >= minActive {
					absent[g.downKey] = true
				}
				g.downLeft--
			}
			if g.R.P(5) && s.NBonded >= 3 {
				if set := r.Sets[h-1]; set != nil && len(set.Validators) > 2 {
					absent[w.KeyByConsAddr(set.Validators[g.R.N(len(set.Validators))].Address)] = true
				}
			}
		}
		// a block exists only if more than two thirds of the voting power signed it: drop the absences
		// when they would add up to a third or more of the set
		if set := r.Sets[h-1]; set != nil && len(absent) > 0 {
			var tot, abs int64
			for _, v := range set.Validators {
				tot += v.VotingPower
				if absent[w.KeyByConsAddr(v.Address)] {
					abs += v.VotingPower
				}
			}
			if abs*3 >= tot {
				absent = map[int]bool{}
			}
		}
		b.Votes = r.VotesFor(h, absent)
		// double-sign evidence against a validator of the set that signed the previous block (never in calm histories, and
		// only while three validators are active, so that the tombstoning does not empty the set by itself)
		if cfg.Mode != "calm" && h > 2 && s.NBonded >= 3 && g.R.P(3) {
			if set := r.Sets[h-1]; set != nil && len(set.Validators) >= 3 {
				v := set.Validators[g.R.N(len(set.Validators))]
				b.Evid = append(b.Evid, Evid{Key: w.KeyByConsAddr(v.Address), Height: h - 1 - int64(g.R.N(2)), Power: v.VotingPower})
				g.lastUnbondAt = h
			}
		}
		ntx := g.R.W(25, 40, 20, 10, 5)
		wildSigner := map[int]bool{}
		for j := 0; j < ntx; j++ {
			tx := g.GenTx(s, h)
			tailPct := 8
			if len(tx.Msgs) == 1 && (tx.Msgs[0].Kind == "PARAMS" || tx.Msgs[0].Kind == "RMPENDING") {
				tailPct = 35 // rarer messages: exercise their rolled-back execution often enough to matter
			}
			if tx.Signer == -1 && cfg.Mode != "calm" && len(tx.Msgs) == 1 && g.R.P(tailPct) {
				// a transaction whose last message fails (power below the minimum) after the earlier ones ran: everything
				// the earlier messages did has to vanish with it
				orig := tx.Msgs[0]
				tx.Msgs = append(tx.Msgs, Msg{Kind: "SETPOWER", Args: []string{itoa(g.R.N(NOPS)), "999999", "1"}})
				if g.R.P(60) {
					// … and the admin sends the part that was fine again, on its own
					g.queued = append(g.queued, Tx{Signer: -1, Msgs: []Msg{orig}})
				}
			}
			if tx.Signer >= 0 && cfg.Mode != "calm" && len(tx.Msgs) == 1 && tx.Msgs[0].Kind == "CREATE" && g.R.P(15) {
				// an application inside a transaction whose last message fails (the applicant is not the admin): the
				// application vanishes with it; the applicant then applies again, on its own — and has to be accepted exactly
				// as if the first attempt had never been made
				orig := tx.Msgs[0]
				tx.Msgs = append(tx.Msgs, Msg{Kind: "SETPOWER", Args: []string{itoa(g.R.N(NOPS)), "5000000", "1"}})
				g.queued = append(g.queued, Tx{Signer: tx.Signer, Msgs: []Msg{orig}})
			}
			if wildSigner[tx.Signer] {
				continue // a signer whose earlier tx has an unmodelled outcome signs nothing more in this block
			}
			if hasKind(tx.Msgs, "EDIT") {
				wildSigner[tx.Signer] = true
			}
			b.Txs = append(b.Txs, tx)
			for _, m := range tx.Msgs {
				if m.Kind == "REMOVE" || m.Kind == "PARAMS" {
					g.lastUnbondAt = h
				}
			}
		}
		if anyAbsent(b.Votes) {
			g.lastUnbondAt = h
		}
		if cfg.Mode == "gov" {
			// the admin is the x/gov account: what the generator wrote as the admin's transactions becomes the message
			// list of proposals (two consecutive ones now and then merged into one proposal), submitted by an ordinary
			// account and voted on in the same block by the operators of the genesis validators (one in ten abstains);
			// x/gov tallies and executes them in the next block; which proposals it executed is read off the run
			next := r.N.NextProposalID()
			var txs []Tx
			var admin [][]Msg
			govKinds := func(ms []Msg) bool {
				for _, m := range ms {
					if m.Kind != "SETPOWER" && m.Kind != "REMOVE" && m.Kind != "RMPENDING" && m.Kind != "PARAMS" {
						return false // a proposal carries messages signed by the gov account only (x/gov refuses the submission otherwise)
					}
				}
				return true
			}
			for _, tx := range b.Txs {
				if tx.Signer == -1 && govKinds(tx.Msgs) {
					admin = append(admin, tx.Msgs)
				} else {
					txs = append(txs, tx)
				}
			}
			for i := 0; i < len(admin); i++ {
				ms := append([]Msg{}, admin[i]...)
				if i+1 < len(admin) && g.R.P(40) {
					ms = append(ms, admin[i+1]...)
					i++
				}
				txs = append(txs, Tx{Signer: -2, Msgs: []Msg{{Kind: "GOVSUB", Sub: ms}}})
				for _, gv := range gen.Vals {
					if !g.R.P(10) {
						txs = append(txs, Tx{Signer: gv.Op, Msgs: []Msg{{Kind: "VOTE", Args: []string{fmt.Sprint(next)}}}})
					}
				}
				next++
			}
			b.Txs = txs
			out := r.Step(b)
			for _, gr := range out.Gov {
				b.Gov = append(b.Gov, gr.Msgs)
			}
			WriteBlock(ops, b)
			blocks++
			continue
		}
		WriteBlock(ops, b)
		out := r.Step(b)
		_ = out
		blocks++
	}
	fmt.Fprintln(ops, "END")
	fmt.Fprintln(obs, "END")
	return blocks, r.Halt
}

func hasKindTxs(txs []Tx, k string) bool {
	for _, t := range txs {
		if hasKind(t.Msgs, k) {
			return true
		}
	}
	return false
}

func hasKind(ms []Msg, k string) bool {
	for _, m := range ms {
		if m.Kind == k || hasKind(m.Sub, k) {
			return true
		}
	}
	return false
}

func anyAbsent(vs []Vote) bool {
	for _, v := range vs {
		if v.Absent {
			return true
		}
	}
	return false
}

func main() {
	if len(os.Args) < 2 {
		fmt.Fprintln(diag, "usage: harness chain|replay ...")
		os.Exit(2)
	}
	// the PoA module logs to os.Stderr through its own logger: silence it, keep our own channel
	realStderr := os.Stderr
	if dn, err := os.OpenFile(os.DevNull, os.O_WRONLY, 0); err == nil {
		os.Stderr = dn
	}
	diag = realStderr
	w := NewWorld()
	switch os.Args[1] {
	case "chain":
		fs := flag.NewFlagSet("chain", flag.ExitOnError)
		seed := fs.Uint64("seed", 1, "seed")
		n := fs.Int("n", 10, "histories")
		maxBlocks := fs.Int("blocks", 25, "max blocks per history")
		mode := fs.String("mode", "wild", "wild|envelope|calm")
		restarts := fs.Bool("restarts", false, "restart the node before random blocks")
		opsPath := fs.String("ops", "ops.txt", "ops output")
		obsPath := fs.String("obs", "obs.txt", "obs output")
		first := fs.Int("first", 0, "index of first history")
		fs.Parse(os.Args[2:])
		of, _ := os.Create(*opsPath)
		bf, _ := os.Create(*obsPath)
		ow, bw := bufio.NewWriter(of), bufio.NewWriter(bf)
		tb, th := 0, 0
		for i := *first; i < *first+*n; i++ {
			fmt.Fprintf(ow, "# history %d seed %d mode %s\n", i, *seed, *mode)
			b, h := genHistory(w, *seed*1000003+uint64(i)*7919+modeSalt(*mode), GenCfg{Mode: *mode, MaxBlocks: *maxBlocks, Restarts: *restarts}, ow, bw)
			tb += b
			if h {
				th++
			}
		}
		ow.Flush()
		bw.Flush()
		fmt.Fprintf(diag, "histories=%d blocks=%d halted=%d\n", *n, tb, th)
	case "replay":
		fs := flag.NewFlagSet("replay", flag.ExitOnError)
		opsPath := fs.String("ops", "ops.txt", "ops input")
		obsPath := fs.String("obs", "-", "obs output")
		fs.Parse(os.Args[2:])
		f, err := os.Open(*opsPath)
		if err != nil {
			panic(err)
		}
		hs, err := ReadHistories(f)
		if err != nil {
			panic(err)
		}
		var out io.Writer = os.Stdout
		if *obsPath != "-" {
			bf, _ := os.Create(*obsPath)
			defer bf.Close()
			out = bf
		}
		bw := bufio.NewWriter(out)
		for _, h := range hs {
			runHistory(w, h, bw)
		}
		bw.Flush()
	case "script":
		// scripted histories: like replay, but the votes of every block are filled in from the tracked
		// CometBFT sets (ABSENT lines name the validators that miss the block); writes the completed ops file
		fs := flag.NewFlagSet("script", flag.ExitOnError)
		inPath := fs.String("in", "script.txt", "script input")
		opsPath := fs.String("ops", "ops.txt", "ops output")
		obsPath := fs.String("obs", "obs.txt", "obs output")
		fs.Parse(os.Args[2:])
		f, err := os.Open(*inPath)
		if err != nil {
			panic(err)
		}
		hs, err := ReadHistories(f)
		if err != nil {
			panic(err)
		}
		of, _ := os.Create(*opsPath)
		bf, _ := os.Create(*obsPath)
		ow, bw := bufio.NewWriter(of), bufio.NewWriter(bf)
		for _, h := range hs {
			r := &Runner{W: w, Out: bw}
			h.G.MinSignedDec = minSignedDec(h.G)
			WriteGenesis(ow, h.G)
			if err := r.Start(h.G); err != nil {
				panic(err)
			}
			for _, b := range h.Blocks {
				if r.Halt {
					break
				}
				abs := map[int]bool{}
				for _, k := range b.Absent {
					abs[k] = true
				}
				b.Votes = r.VotesFor(r.N.Height+1, abs)
				// governance: every proposal a script submits (GOVSUB) is voted on at once by the operators of the genesis
				// validators (unless the script carries its own VOTE lines); which proposals x/gov executes in a block is read
				// off the run and written into the completed ops file (GOV sections)
				if !hasKindTxs(b.Txs, "VOTE") {
					next := r.N.NextProposalID()
					var withVotes []Tx
					for _, tx := range b.Txs {
						withVotes = append(withVotes, tx)
						for _, m := range tx.Msgs {
							if m.Kind == "GOVSUB" {
								for _, gv := range h.G.Vals {
									withVotes = append(withVotes, Tx{Signer: gv.Op, Msgs: []Msg{{Kind: "VOTE", Args: []string{fmt.Sprint(next)}}}})
								}
								next++
							}
						}
					}
					b.Txs = withVotes
				}
				b.Gov = nil
				out := r.Step(b)
				for _, g := range out.Gov {
					b.Gov = append(b.Gov, g.Msgs)
				}
				WriteBlock(ow, b)
			}
			fmt.Fprintln(ow, "END")
			fmt.Fprintln(bw, "END")
			r.Close()
		}
		ow.Flush()
		bw.Flush()
	case "twin":
		twinMain(w, os.Args[2:])
	case "restart":
		restartMain(w, os.Args[2:])
	case "ante", "validate", "convert":
		pureMain(w, os.Args[1:])
	default:
		fmt.Fprintln(diag, "unknown subcommand")
		os.Exit(2)
	}
}

func modeSalt(m string) uint64 {
	if m == "envelope" {
		return 500009
	}
	if m == "calm" {
		return 700001
	}
	if m == "guard" {
		return 900007
	}
	if m == "gov" {
		return 1100009
	}
	return 0
}

var _ = abci.ValidatorUpdate{}

var diag io.Writer = os.Stderr
