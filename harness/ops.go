package main

import (
	"bufio"
	"fmt"
	"io"
	"strconv"
	"strings"
)

// ---- operation lines (Tie B protocol) ----

type Msg struct {
	Kind string
	Args []string
	Sub  []Msg
}

type Tx struct {
	Signer int // -1 admin, -2 user, k>=0 operator k
	Msgs   []Msg
}

type Vote struct {
	Key    int
	Power  int64
	Absent bool
}

// Evid: double-sign evidence delivered with a block: consensus key id, infraction height, the validator's power then
type Evid struct {
	Key    int
	Height int64
	Power  int64
}

type Block struct {
	DtNs    int64
	Votes   []Vote
	Evid    []Evid
	Txs     []Tx
	Gov     [][]Msg // message lists of the proposals x/gov's EndBlocker executed in this block (filled in from the run)
	Admin   string  // "" or "gov" / "env": the node is restarted before this block with this admin configuration
	Restart bool // implementation only: restart the node before this block
	Absent  []int // script mode only: keys to mark absent; votes are then filled in from the tracked sets
}

type History struct {
	G      Genesis
	Blocks []Block
}

func (m Msg) count() int {
	c := 1
	for _, s := range m.Sub {
		c += s.count()
	}
	return c
}

func writeMsg(w io.Writer, m Msg) {
	if len(m.Sub) > 0 || m.Kind == "EXEC" || m.Kind == "GROUPPROP" || m.Kind == "GOVPROP" || m.Kind == "GOVSUB" {
		fmt.Fprintf(w, "M %s %d\n", m.Kind, len(m.Sub))
		for _, s := range m.Sub {
			writeMsg(w, s)
		}
		return
	}
	if len(m.Args) == 0 {
		fmt.Fprintf(w, "M %s\n", m.Kind)
	} else {
		fmt.Fprintf(w, "M %s %s\n", m.Kind, strings.Join(m.Args, " "))
	}
}

func WriteGenesis(w io.Writer, g Genesis) {
	fmt.Fprintf(w, "GENESIS %d %d %d %d %d %d %d %d\n", g.MaxVals, g.UnbondNs, g.Window, g.MinSigned, g.JailNs, g.SlashDownE18, g.MinCommE18, len(g.Vals))
	for _, v := range g.Vals {
		fmt.Fprintf(w, "GVAL %d %d %d\n", v.Op, v.Key, v.Tokens)
	}
	if g.GovAdmin {
		fmt.Fprintf(w, "ADMIN gov\n")
	}
}

func WriteBlock(w io.Writer, b Block) {
	if b.Admin != "" {
		fmt.Fprintf(w, "ADMIN %s\n", b.Admin)
	}
	if b.Restart {
		fmt.Fprintf(w, "RESTART\n")
	}
	if len(b.Gov) > 0 {
		fmt.Fprintf(w, "BLOCK %d %d %d %d %d\n", b.DtNs, len(b.Votes), len(b.Txs), len(b.Evid), len(b.Gov))
	} else if len(b.Evid) > 0 {
		fmt.Fprintf(w, "BLOCK %d %d %d %d\n", b.DtNs, len(b.Votes), len(b.Txs), len(b.Evid))
	} else {
		fmt.Fprintf(w, "BLOCK %d %d %d\n", b.DtNs, len(b.Votes), len(b.Txs))
	}
	for _, v := range b.Votes {
		a := 0
		if v.Absent {
			a = 1
		}
		fmt.Fprintf(w, "VOTE %d %d %d\n", v.Key, v.Power, a)
	}
	for _, e := range b.Evid {
		fmt.Fprintf(w, "EVID %d %d %d\n", e.Key, e.Height, e.Power)
	}
	for _, t := range b.Txs {
		fmt.Fprintf(w, "TX %d %d\n", t.Signer, len(t.Msgs))
		for _, m := range t.Msgs {
			writeMsg(w, m)
		}
	}
	for _, g := range b.Gov {
		fmt.Fprintf(w, "GOV %d\n", len(g))
		for _, m := range g {
			writeMsg(w, m)
		}
	}
	fmt.Fprintf(w, "ENDBLOCK\n")
}

func WriteHistory(w io.Writer, h History) {
	WriteGenesis(w, h.G)
	for _, b := range h.Blocks {
		WriteBlock(w, b)
	}
	fmt.Fprintf(w, "END\n")
}

type lineReader struct {
	sc   *bufio.Scanner
	peek []string
	line int
}

func (r *lineReader) next() ([]string, error) {
	for r.sc.Scan() {
		r.line++
		t := strings.TrimSpace(r.sc.Text())
		if t == "" || strings.HasPrefix(t, "#") {
			continue
		}
		return strings.Fields(t), nil
	}
	return nil, io.EOF
}

func atoi(s string) int {
	v, err := strconv.Atoi(s)
	if err != nil {
		panic(fmt.Sprintf("bad int %q", s))
	}
	return v
}
func atoi64(s string) int64 {
	v, err := strconv.ParseInt(s, 10, 64)
	if err != nil {
		panic(fmt.Sprintf("bad int64 %q", s))
	}
	return v
}

func readMsg(r *lineReader) (Msg, error) {
	f, err := r.next()
	if err != nil {
		return Msg{}, err
	}
	if f[0] != "M" {
		return Msg{}, fmt.Errorf("line %d: expected M, got %v", r.line, f)
	}
	m := Msg{Kind: f[1]}
	switch m.Kind {
	case "EXEC", "GROUPPROP", "GOVPROP", "GOVSUB":
		n := atoi(f[2])
		for i := 0; i < n; i++ {
			s, err := readMsg(r)
			if err != nil {
				return m, err
			}
			m.Sub = append(m.Sub, s)
		}
	default:
		m.Args = f[2:]
	}
	return m, nil
}

// ReadHistories parses a file holding one or more histories.
func ReadHistories(rd io.Reader) ([]History, error) {
	sc := bufio.NewScanner(rd)
	sc.Buffer(make([]byte, 1<<20), 1<<24)
	r := &lineReader{sc: sc}
	var hs []History
	var cur *History
	restart := false
	pendingAdmin := ""
	var pendingAbsent []int
	for {
		f, err := r.next()
		if err == io.EOF {
			break
		}
		switch f[0] {
		case "GENESIS":
			cur = &History{}
			cur.G = Genesis{MaxVals: uint32(atoi(f[1])), UnbondNs: atoi64(f[2]), Window: atoi64(f[3]), MinSigned: atoi64(f[4]),
				JailNs: atoi64(f[5]), SlashDownE18: atoi64(f[6]), MinCommE18: atoi64(f[7])}
			n := atoi(f[8])
			for i := 0; i < n; i++ {
				g, err := r.next()
				if err != nil || g[0] != "GVAL" {
					return nil, fmt.Errorf("line %d: expected GVAL", r.line)
				}
				cur.G.Vals = append(cur.G.Vals, GVal{Op: atoi(g[1]), Key: atoi(g[2]), Tokens: atoi64(g[3])})
			}
		case "ADMIN":
			if len(cur.Blocks) == 0 && pendingAdmin == "" && !restart {
				cur.G.GovAdmin = len(f) > 1 && f[1] == "gov"
			}
			if len(cur.Blocks) > 0 {
				pendingAdmin = f[1]
			}
		case "RESTART":
			restart = true
		case "ABSENT":
			for _, a := range f[1:] {
				pendingAbsent = append(pendingAbsent, atoi(a))
			}
		case "BLOCK":
			b := Block{DtNs: atoi64(f[1]), Restart: restart, Absent: pendingAbsent, Admin: pendingAdmin}
			restart = false
			pendingAdmin = ""
			pendingAbsent = nil
			nv, nt := atoi(f[2]), atoi(f[3])
			for i := 0; i < nv; i++ {
				v, err := r.next()
				if err != nil || v[0] != "VOTE" {
					return nil, fmt.Errorf("line %d: expected VOTE", r.line)
				}
				b.Votes = append(b.Votes, Vote{Key: atoi(v[1]), Power: atoi64(v[2]), Absent: v[3] == "1"})
			}
			if len(f) > 4 {
				for i := 0; i < atoi(f[4]); i++ {
					e, err := r.next()
					if err != nil || e[0] != "EVID" {
						return nil, fmt.Errorf("line %d: expected EVID", r.line)
					}
					b.Evid = append(b.Evid, Evid{Key: atoi(e[1]), Height: atoi64(e[2]), Power: atoi64(e[3])})
				}
			}
			for i := 0; i < nt; i++ {
				t, err := r.next()
				if err != nil || t[0] != "TX" {
					return nil, fmt.Errorf("line %d: expected TX", r.line)
				}
				tx := Tx{Signer: atoi(t[1])}
				nm := atoi(t[2])
				for j := 0; j < nm; j++ {
					m, err := readMsg(r)
					if err != nil {
						return nil, err
					}
					tx.Msgs = append(tx.Msgs, m)
				}
				b.Txs = append(b.Txs, tx)
			}
			if len(f) > 5 {
				for i := 0; i < atoi(f[5]); i++ {
					gl, err := r.next()
					if err != nil || gl[0] != "GOV" {
						return nil, fmt.Errorf("line %d: expected GOV", r.line)
					}
					var ms []Msg
					for j := 0; j < atoi(gl[1]); j++ {
						m, err := readMsg(r)
						if err != nil {
							return nil, err
						}
						ms = append(ms, m)
					}
					b.Gov = append(b.Gov, ms)
				}
			}
			e, err := r.next()
			if err != nil || e[0] != "ENDBLOCK" {
				return nil, fmt.Errorf("line %d: expected ENDBLOCK", r.line)
			}
			cur.Blocks = append(cur.Blocks, b)
		case "END":
			hs = append(hs, *cur)
			cur = nil
		default:
			return nil, fmt.Errorf("line %d: unexpected %v", r.line, f)
		}
	}
	return hs, nil
}
