package main

import (
	cmted "github.com/cometbft/cometbft/crypto/ed25519"
	cmtsecp "github.com/cometbft/cometbft/crypto/secp256k1"
)

func cmtEdAddr(b []byte) []byte   { return cmted.PubKey(b).Address() }
func cmtSecpAddr(b []byte) []byte { return cmtsecp.PubKey(b).Address() }
