module poaverif/harness

go 1.21
