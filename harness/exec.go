package main

import (
	"context"
	"encoding/binary"
	"fmt"
	"math/rand"
	"os"
	"sort"
	"strconv"
	"strings"
	"time"

	abci "github.com/cometbft/cometbft/abci/types"
	cmtproto "github.com/cometbft/cometbft/proto/tendermint/types"
	cmttypes "github.com/cometbft/cometbft/types"
	gogoproto "github.com/cosmos/gogoproto/proto"

	errorsmod "cosmossdk.io/errors"
	sdkmath "cosmossdk.io/math"

	simtestutil "github.com/cosmos/cosmos-sdk/testutil/sims"
	sdk "github.com/cosmos/cosmos-sdk/types"
	authtypes "github.com/cosmos/cosmos-sdk/x/auth/types"
	"github.com/cosmos/cosmos-sdk/x/authz"
	banktypes "github.com/cosmos/cosmos-sdk/x/bank/types"
	distrtypes "github.com/cosmos/cosmos-sdk/x/distribution/types"
	govv1 "github.com/cosmos/cosmos-sdk/x/gov/types/v1"
	"github.com/cosmos/cosmos-sdk/x/group"
	slashingtypes "github.com/cosmos/cosmos-sdk/x/slashing/types"
	stakingtypes "github.com/cosmos/cosmos-sdk/x/staking/types"

	"github.com/strangelove-ventures/poa"
)

const Malformed = "not-a-bech32-address"

// valStrArg: an operator address argument; "<n>U" is the upper-case spelling of operator n's address
func (w *World) valStrArg(s string) string {
	if strings.HasSuffix(s, "U") {
		return strings.ToUpper(w.valStr(atoi(strings.TrimSuffix(s, "U"))))
	}
	return w.valStr(atoi(s))
}

func (w *World) signerAcct(s int) Acct {
	switch {
	case s == -1:
		return w.Admin
	case s == -2:
		return w.User
	default:
		return w.Ops[s].Acct
	}
}

// genesisAccNum: account numbers assigned by x/auth's InitGenesis (the same for every genesis of this World: the
// account list is fixed), read once from a scratch node.
func (w *World) genesisAccNum(g Genesis, addr sdk.AccAddress) uint64 {
	if w.accNums == nil {
		sc, _, err := NewNode(w, g)
		if err != nil {
			panic(fmt.Sprintf("calibration node: %v", err))
		}
		sc.ExecBlock(Block{DtNs: 1_000_000_000}, nil)
		w.accNums = map[string]uint64{}
		all := []Acct{w.Admin, w.User}
		for _, o := range w.Ops {
			all = append(all, o.Acct)
		}
		for _, a := range all {
			acc := sc.App.AccountKeeper.GetAccount(sc.Ctx(), a.Addr)
			if acc == nil {
				panic("calibration: account missing")
			}
			w.accNums[a.Addr.String()] = acc.GetAccountNumber()
		}
		sc.Close()
	}
	return w.accNums[addr.String()]
}

// denomOf: bond-denom kinds of the line protocol: 0 the chain's denom, 1 another valid denom, 2.. strings x/staking refuses
func denomOf(k string) string {
	switch k {
	case "0":
		return BondDenom
	case "1":
		return "otherdenom"
	case "3":
		return BondDenom + " "
	case "4":
		return " " + BondDenom
	case "5":
		return ""
	case "6":
		return "st"
	default:
		return "1 bad denom!"
	}
}

func (w *World) valStr(t int) string {
	if t < 0 {
		return Malformed
	}
	return w.Ops[t].Val.String()
}

// strOf: a string of exactly n BYTES (x/staking's limits count bytes).  Unless n is a multiple of five it is made of
// two-byte characters (plus one ASCII letter for odd n), so that byte length and character count differ — in
// particular for lengths one above the (even, multiple-of-five) limits.
func strOf(n int) string {
	if n < 2 || n%5 == 0 {
		return strings.Repeat("a", n)
	}
	if n%2 == 1 {
		return "a" + strings.Repeat("é", (n-1)/2)
	}
	return strings.Repeat("é", n/2)
}

func decArg(s string) sdkmath.LegacyDec {
	if s == "nil" {
		return sdkmath.LegacyDec{}
	}
	v, ok := sdkmath.NewIntFromString(s)
	if !ok {
		panic("bad dec " + s)
	}
	return sdkmath.LegacyNewDecFromIntWithPrec(v, 18)
}

// BuildMsg turns a protocol message into the real sdk.Msg sent by `signer`.
func (w *World) BuildMsg(signer int, m Msg) (sdk.Msg, error) {
	sa := w.signerAcct(signer)
	sender := sa.Addr.String()
	if w.senderOverride != "" {
		sender = w.senderOverride
	}
	a := m.Args
	switch m.Kind {
	case "VOTE":
		return govv1.NewMsgVote(sa.Addr, uint64(atoi64(a[0])), govv1.OptionYes, ""), nil
	case "GOVSUB":
		// a governance proposal whose messages are sent by the gov account itself (as x/gov requires): what a chain with
		// the default PoA admin uses for every admin operation
		w.senderOverride = authtypes.NewModuleAddress("gov").String()
		var inner []sdk.Msg
		var berr error
		for _, s := range m.Sub {
			im, err := w.BuildMsg(signer, s)
			if err != nil {
				berr = err
				break
			}
			inner = append(inner, im)
		}
		w.senderOverride = ""
		if berr != nil {
			return nil, berr
		}
		return govv1.NewMsgSubmitProposal(inner, sdk.NewCoins(sdk.NewCoin(BondDenom, sdkmath.NewInt(1))), sa.Addr.String(), "", "t", "s", false)
	case "SETPOWER":
		p, err := strconv.ParseUint(a[1], 10, 64)
		if err != nil {
			return nil, err
		}
		return &poa.MsgSetPower{Sender: sender, ValidatorAddress: w.valStrArg(a[0]), Power: p, Unsafe: a[2] == "1"}, nil
	case "REMOVE":
		return &poa.MsgRemoveValidator{Sender: sender, ValidatorAddress: w.valStr(atoi(a[0]))}, nil
	case "RMPENDING":
		return &poa.MsgRemovePending{Sender: sender, ValidatorAddress: w.valStr(atoi(a[0]))}, nil
	case "CREATE":
		// target key lenMon lenId lenWeb lenSec lenDet rate maxRate maxChange minSelf
		// (a target written "<n>U" spells the operator address in upper case — bech32 allows it; used by the genesis round
		// trips only)
		if strings.HasSuffix(a[0], "U") {
			b := append([]string{}, a...)
			b[0] = strings.TrimSuffix(a[0], "U")
			mm, err := w.BuildMsg(signer, Msg{Kind: "CREATE", Args: b})
			if err != nil {
				return nil, err
			}
			cv := mm.(*poa.MsgCreateValidator)
			cv.ValidatorAddress = strings.ToUpper(cv.ValidatorAddress)
			return cv, nil
		}
		key := atoi(a[1])
		desc := poa.NewDescription(strOf(atoi(a[2])), strOf(atoi(a[3])), strOf(atoi(a[4])), strOf(atoi(a[5])), strOf(atoi(a[6])))
		comm := poa.NewCommissionRates(decArg(a[7]), decArg(a[8]), decArg(a[9]))
		ms, ok := sdkmath.NewIntFromString(a[10])
		if !ok {
			return nil, fmt.Errorf("bad minself")
		}
		if key < 0 {
			return poa.NewMsgCreateValidator(w.valStr(atoi(a[0])), nil, desc, comm, ms)
		}
		return poa.NewMsgCreateValidator(w.valStr(atoi(a[0])), w.PubKey(key), desc, comm, ms)
	case "PARAMS":
		// unbondNs maxVals maxEntries hist denomKind minComm
		denom := denomOf(a[4])
		return &poa.MsgUpdateStakingParams{Sender: sender, Params: poa.StakingParams{
			UnbondingTime: time.Duration(atoi64(a[0])), MaxValidators: uint32(atoi64(a[1])), MaxEntries: uint32(atoi64(a[2])),
			HistoricalEntries: uint32(atoi64(a[3])), BondDenom: denom, MinCommissionRate: decArg(a[5]),
		}}, nil
	case "UNJAIL":
		return slashingtypes.NewMsgUnjail(w.valStr(atoi(a[0]))), nil
	case "EDIT":
		var rate *sdkmath.LegacyDec
		if a[1] != "nil" {
			r := decArg(a[1])
			rate = &r
		}
		return stakingtypes.NewMsgEditValidator(w.valStr(atoi(a[0])), stakingtypes.NewDescription("[do-not-modify]", "[do-not-modify]", "[do-not-modify]", "[do-not-modify]", "[do-not-modify]"), rate, nil), nil
	case "STAKING":
		coin := sdk.NewCoin(BondDenom, sdkmath.NewInt(1_000_000))
		v0, v1 := w.Ops[0].Val.String(), w.Ops[1].Val.String()
		switch a[0] {
		case "0":
			return stakingtypes.NewMsgCreateValidator(sdk.ValAddress(sa.Addr).String(), w.Ops[NOPS-1].ConsSecp.PubKey(), coin,
				stakingtypes.NewDescription("m", "", "", "", ""), stakingtypes.NewCommissionRates(sdkmath.LegacyNewDecWithPrec(2, 1), sdkmath.LegacyNewDecWithPrec(5, 1), sdkmath.LegacyNewDecWithPrec(1, 1)), sdkmath.OneInt())
		case "1":
			return stakingtypes.NewMsgDelegate(sender, v0, coin), nil
		case "2":
			return stakingtypes.NewMsgUndelegate(sender, v0, coin), nil
		case "3":
			return stakingtypes.NewMsgBeginRedelegate(sender, v0, v1, coin), nil
		case "4":
			return stakingtypes.NewMsgCancelUnbondingDelegation(sender, v0, 1, coin), nil
		case "5":
			return &stakingtypes.MsgUpdateParams{Authority: sender, Params: stakingtypes.DefaultParams()}, nil
		}
		return nil, fmt.Errorf("bad staking kind")
	case "WITHDRAW":
		return distrtypes.NewMsgWithdrawDelegatorReward(sender, w.Ops[0].Val.String()), nil
	case "OTHER":
		return banktypes.NewMsgSend(sa.Addr, w.User.Addr, sdk.NewCoins(sdk.NewCoin(BondDenom, sdkmath.NewInt(1)))), nil
	case "EXEC", "GROUPPROP", "GOVPROP":
		var inner []sdk.Msg
		for _, s := range m.Sub {
			im, err := w.BuildMsg(signer, s)
			if err != nil {
				return nil, err
			}
			inner = append(inner, im)
		}
		switch m.Kind {
		case "EXEC":
			e := authz.NewMsgExec(sa.Addr, inner)
			return &e, nil
		case "GROUPPROP":
			// both execution modes occur (the wrapper is a wrapper either way): try-at-once for an odd number of inner
			// messages, submit-only for an even one
			ex := group.Exec_EXEC_TRY
			if len(inner)%2 == 0 {
				ex = group.Exec_EXEC_UNSPECIFIED
			}
			p := &group.MsgSubmitProposal{GroupPolicyAddress: authtypes.NewModuleAddress("nopolicy").String(), Proposers: []string{sender}, Exec: ex, Title: "t", Summary: "s"}
			if err := p.SetMsgs(inner); err != nil {
				return nil, err
			}
			return p, nil
		default:
			return govv1.NewMsgSubmitProposal(inner, sdk.NewCoins(sdk.NewCoin(BondDenom, sdkmath.NewInt(1))), sender, "", "t", "s", len(inner)%2 == 0)
		}
	}
	return nil, fmt.Errorf("unknown msg kind %s", m.Kind)
}

type TxResult struct {
	Codespace string
	Code      uint32
	Log       string
}

func (r TxResult) Class() string {
	if r.Code == 0 {
		return "ok"
	}
	return fmt.Sprintf("%s:%d", r.Codespace, r.Code)
}

// GovRes: a proposal x/gov's EndBlocker executed in the block (its messages ran, all or nothing)
type GovRes struct {
	ID   uint64
	Msgs []Msg
	OK   bool
}

type BlockOut struct {
	Gov     []GovRes
	Height  int64
	Txs     []TxResult
	Updates []abci.ValidatorUpdate
	Halt    string // "" or kind
	HaltMsg string
	AppHash []byte
	RawResp *abci.ResponseFinalizeBlock
}

func (n *Node) signTx(r *rand.Rand, t Tx) ([]byte, error) {
	var msgs []sdk.Msg
	for _, m := range t.Msgs {
		sm, err := n.W.BuildMsg(t.Signer, m)
		if err != nil {
			return nil, err
		}
		msgs = append(msgs, sm)
	}
	sa := n.W.signerAcct(t.Signer)
	acc := n.App.AccountKeeper.GetAccount(n.Ctx(), sa.Addr)
	if acc == nil {
		return nil, fmt.Errorf("no account for signer %d", t.Signer)
	}
	txc := n.App.TxConfig()
	tx, err := simtestutil.GenSignedMockTx(r, txc, msgs, sdk.NewCoins(), 5_000_000, ChainID, []uint64{acc.GetAccountNumber()}, []uint64{acc.GetSequence()}, sa.Priv)
	if err != nil {
		return nil, err
	}
	return txc.TxEncoder()(tx)
}

// ExecBlock runs one block through the real application.
func (n *Node) ExecBlock(b Block, seqBump map[int]uint64) (out BlockOut) {
	if b.Admin != "" {
		// the operator restarts the node with another admin configuration (environment override added or dropped)
		n.G.GovAdmin = b.Admin == "gov"
		n.Restart()
	} else if b.Restart {
		n.Restart()
	}
	h := n.Height + 1
	t := n.Time.Add(time.Duration(b.DtNs))
	out.Height = h
	nextProp := n.NextProposalID()
	r := rand.New(rand.NewSource(h*7919 + 13))
	var txs [][]byte
	// several txs by one signer in one block need consecutive sequences
	used := map[int]uint64{}
	for _, tx := range b.Txs {
		sa := n.W.signerAcct(tx.Signer)
		var accNum, accSeq uint64
		if n.Height == 0 {
			// nothing is committed before block 1: the account numbers InitGenesis assigned are read off a
			// scratch node with the same genesis that has executed an empty first block
			accNum = n.W.genesisAccNum(n.G, sa.Addr)
		} else {
			acc := n.App.AccountKeeper.GetAccount(n.Ctx(), sa.Addr)
			accNum, accSeq = acc.GetAccountNumber(), acc.GetSequence()
		}
		var msgs []sdk.Msg
		bad := false
		for _, m := range tx.Msgs {
			sm, err := n.W.BuildMsg(tx.Signer, m)
			if err != nil {
				panic(fmt.Sprintf("cannot build msg %v: %v", m, err))
			}
			msgs = append(msgs, sm)
		}
		_ = bad
		seq := accSeq + used[tx.Signer]
		used[tx.Signer]++
		txc := n.App.TxConfig()
		stx, err := simtestutil.GenSignedMockTx(r, txc, msgs, sdk.NewCoins(), 10_000_000, ChainID, []uint64{accNum}, []uint64{seq}, sa.Priv)
		if err != nil {
			panic(fmt.Sprintf("cannot sign: %v", err))
		}
		bz, err := txc.TxEncoder()(stx)
		if err != nil {
			panic(fmt.Sprintf("cannot encode: %v", err))
		}
		txs = append(txs, bz)
	}
	var votes []abci.VoteInfo
	for _, v := range b.Votes {
		flag := cmtproto.BlockIDFlagCommit
		if v.Absent {
			flag = cmtproto.BlockIDFlagAbsent
		}
		votes = append(votes, abci.VoteInfo{Validator: abci.Validator{Address: n.W.PubKey(v.Key).Address(), Power: v.Power}, BlockIdFlag: flag})
	}
	var misb []abci.Misbehavior
	for _, e := range b.Evid {
		// the infraction happened at an earlier height of this chain: one second per block back from now is close enough for
		// the age check (the evidence is always fresh)
		misb = append(misb, abci.Misbehavior{Type: abci.MisbehaviorType_DUPLICATE_VOTE,
			Validator: abci.Validator{Address: n.W.PubKey(e.Key).Address(), Power: e.Power},
			Height:    e.Height, Time: t.Add(-time.Duration(h-e.Height) * time.Second), TotalVotingPower: e.Power})
	}
	req := &abci.RequestFinalizeBlock{
		Height:            h,
		Time:              t,
		Txs:               txs,
		DecidedLastCommit: abci.CommitInfo{Round: 0, Votes: votes},
		Misbehavior:       misb,
		Hash:              []byte(fmt.Sprintf("blockhash-%d", h)),
	}
	// every transaction first goes through CheckTx, as it does on a node's way into the mempool (the check state sits at
	// the last committed height); the verdict is not used — a proposer may include what it likes
	for _, bz := range txs {
		func() {
			defer func() { _ = recover() }()
			_, _ = n.App.CheckTx(&abci.RequestCheckTx{Tx: bz, Type: abci.CheckTxType_New})
		}()
	}
	func() {
		defer func() {
			if e := recover(); e != nil {
				out.Halt = "panic"
				out.HaltMsg = fmt.Sprint(e)
			}
		}()
		resp, err := n.App.FinalizeBlock(req)
		if err != nil {
			out.Halt = "error"
			out.HaltMsg = err.Error()
			return
		}
		out.RawResp = resp
		if os.Getenv("POAVERIF_DEBUG_EVENTS") != "" {
			for _, ev := range resp.Events {
				var as []string
				for _, a := range ev.Attributes {
					as = append(as, a.Key+"="+a.Value)
				}
				fmt.Fprintf(os.Stderr, "EVENT h=%d %s %v\n", h, ev.Type, as)
			}
		}
		for _, tr := range resp.TxResults {
			out.Txs = append(out.Txs, TxResult{Codespace: tr.Codespace, Code: tr.Code, Log: tr.Log})
		}
		out.Updates = resp.ValidatorUpdates
		out.AppHash = resp.AppHash
		if _, err := n.App.Commit(); err != nil {
			out.Halt = "error"
			out.HaltMsg = "commit: " + err.Error()
		}
	}()
	if out.Halt == "" {
		n.Height = h
		n.Time = t
		// proposals: remember the ones this block's transactions submitted (ids are handed out in order), then see which of
		// the open ones x/gov's EndBlocker has brought to an end
		for i, tx := range b.Txs {
			if i < len(out.Txs) && out.Txs[i].Code == 0 {
				for _, m := range tx.Msgs {
					if m.Kind == "GOVSUB" {
						n.props[nextProp] = m.Sub
						nextProp++
					}
				}
			}
		}
		var ids []uint64
		for id := range n.props {
			ids = append(ids, id)
		}
		sort.Slice(ids, func(i, j int) bool { return ids[i] < ids[j] })
		ctx := n.Ctx()
		for _, id := range ids {
			p, err := n.App.GovKeeper.Proposals.Get(ctx, id)
			if err != nil {
				delete(n.props, id) // rejected proposals are deleted together with their votes
				continue
			}
			switch p.Status {
			case govv1.StatusPassed:
				out.Gov = append(out.Gov, GovRes{ID: id, Msgs: n.props[id], OK: true})
				delete(n.props, id)
			case govv1.StatusFailed:
				out.Gov = append(out.Gov, GovRes{ID: id, Msgs: n.props[id], OK: false})
				delete(n.props, id)
			case govv1.StatusRejected:
				delete(n.props, id)
			}
		}
	}
	return out
}

// NextProposalID: the id x/gov will give to the next proposal
func (n *Node) NextProposalID() uint64 {
	if n.Height == 0 {
		return 1
	}
	id, err := n.App.GovKeeper.ProposalID.Peek(n.Ctx())
	if err != nil {
		return 1
	}
	return id
}

// ---- observations ----

func (n *Node) updStr(ups []abci.ValidatorUpdate) string {
	var sb strings.Builder
	sb.WriteString("UPD")
	for _, u := range ups {
		pk, err := cryptoPubFromProto(u)
		key := -1
		if err == nil {
			key = n.W.KeyByConsAddr(pk)
		}
		fmt.Fprintf(&sb, " %d:%d", key, u.Power)
	}
	return sb.String()
}

func cryptoPubFromProto(u abci.ValidatorUpdate) ([]byte, error) {
	vs, err := cmttypes.PB2TM.ValidatorUpdates([]abci.ValidatorUpdate{u})
	if err != nil {
		// negative power etc: derive address from the key directly
		if ed := u.PubKey.GetEd25519(); ed != nil {
			return cmtEdAddr(ed), nil
		}
		if sp := u.PubKey.GetSecp256K1(); sp != nil {
			return cmtSecpAddr(sp), nil
		}
		return nil, err
	}
	return vs[0].Address, nil
}

func cometStr(w *World, set *cmttypes.ValidatorSet) string {
	type kv struct {
		k int
		p int64
	}
	var l []kv
	if set != nil {
		for _, v := range set.Validators {
			l = append(l, kv{w.KeyByConsAddr(v.Address), v.VotingPower})
		}
	}
	sort.Slice(l, func(i, j int) bool { return l[i].k < l[j].k })
	var sb strings.Builder
	sb.WriteString("COMET")
	for _, e := range l {
		fmt.Fprintf(&sb, " %d:%d", e.k, e.p)
	}
	return sb.String()
}

// Observe prints the canonical state lines after a block.
func (n *Node) Observe() []string {
	var out []string
	var vcomLine string
	ctx := n.Ctx()
	sk := n.App.StakingKeeper
	w := n.W
	vals, err := sk.GetAllValidators(ctx)
	if err != nil {
		return []string{"OBSERR " + err.Error()}
	}
	type vrow struct {
		op  int
		row string
	}
	var rows []vrow
	var sigKeys []int
	for _, v := range vals {
		op := w.OpByVal(v.OperatorAddress)
		key := -1
		if ca, err := v.GetConsAddr(); err == nil {
			key = w.KeyByConsAddr(ca)
		}
		valAddr, _ := sdk.ValAddressFromBech32(v.OperatorAddress)
		last := "-"
		if has, _ := hasLastPower(n, ctx, valAddr); has {
			lp, _ := sk.GetLastValidatorPower(ctx, valAddr)
			last = fmt.Sprint(lp)
		}
		self := "-"
		if d, err := sk.GetDelegation(ctx, sdk.AccAddress(valAddr), valAddr); err == nil {
			self = decStr(d.Shares)
		}
		j := 0
		if v.Jailed {
			j = 1
		}
		rows = append(rows, vrow{op, fmt.Sprintf("VAL %d %d %d %d %s %s %s %s %d %d", op, key, int(v.Status), j, v.Tokens.String(), decStr(v.DelegatorShares), self, last, n.relTime(v.UnbondingTime), v.UnbondingHeight)})
		sigKeys = append(sigKeys, key)
	}
	sort.Slice(rows, func(i, j int) bool { return rows[i].op < rows[j].op })
	{
		// commission rates and minimum self-delegation of every validator record (not modelled: read by the oracles)
		type crow struct {
			op  int
			row string
		}
		var cs []crow
		for _, v := range vals {
			c := v.Commission.CommissionRates
			cs = append(cs, crow{w.OpByVal(v.OperatorAddress), fmt.Sprintf("%d:%s:%s:%s:%s", w.OpByVal(v.OperatorAddress), decStr(c.Rate), decStr(c.MaxRate), decStr(c.MaxChangeRate), v.MinSelfDelegation.String())})
		}
		sort.Slice(cs, func(i, j int) bool { return cs[i].op < cs[j].op })
		var sb strings.Builder
		sb.WriteString("VCOM")
		for _, c := range cs {
			sb.WriteString(" " + c.row)
		}
		vcomLine = sb.String()
	}
	for _, r := range rows {
		out = append(out, r.row)
	}
	// totals
	lt, _ := sk.GetLastTotalPower(ctx)
	cached, _ := n.App.POAKeeper.GetCachedBlockPower(ctx)
	absch, _ := n.App.POAKeeper.GetAbsoluteChangedInBlockPower(ctx)
	out = append(out, fmt.Sprintf("TOT %s %d %d", lt.String(), cached, absch))
	// power index in iteration order
	{
		it, err := sk.ValidatorsPowerStoreIterator(ctx)
		if err == nil {
			var sb strings.Builder
			sb.WriteString("IDX")
			for ; it.Valid(); it.Next() {
				k := it.Key()
				p := binary.BigEndian.Uint64(k[1:9])
				op := w.OpByVal(sdk.ValAddress(stakingtypes.ParseValidatorPowerRankKey(k)).String())
				fmt.Fprintf(&sb, " %d:%d", p, op)
			}
			it.Close()
			out = append(out, sb.String())
		}
	}
	// unbonding queue
	{
		far := n.Time.Add(100 * 365 * 24 * time.Hour)
		it, err := sk.ValidatorQueueIterator(ctx, far, 1<<60)
		if err == nil {
			var sb strings.Builder
			sb.WriteString("UBQ")
			for ; it.Valid(); it.Next() {
				kt, kh, err := stakingtypes.ParseValidatorQueueKey(it.Key())
				if err != nil {
					continue
				}
				addrs := stakingtypes.ValAddresses{}
				n.App.AppCodec().MustUnmarshal(it.Value(), &addrs)
				var ops []string
				for _, a := range addrs.Addresses {
					ops = append(ops, fmt.Sprint(w.OpByVal(a)))
				}
				fmt.Fprintf(&sb, " %d,%d:%s", n.relTime(kt), kh, strings.Join(ops, "+"))
			}
			it.Close()
			out = append(out, sb.String())
		}
	}
	// pending list
	{
		pv, err := n.App.POAKeeper.GetPendingValidators(ctx)
		var sb strings.Builder
		sb.WriteString("PEND")
		if err == nil {
			for _, p := range pv.Validators {
				key := -1
				if err := p.UnpackInterfaces(n.App.AppCodec()); err == nil {
					sv := poa.ConvertPOAToStaking(p)
					if ca, err := sv.GetConsAddr(); err == nil {
						key = w.KeyByConsAddr(ca)
					}
				}
				d, c := p.Description, p.Commission.CommissionRates
				fmt.Fprintf(&sb, " %d:%d:%s:%s:%d,%d,%d,%d,%d,%s,%s,%s", w.OpByVal(p.OperatorAddress), key, p.Tokens.String(), p.MinSelfDelegation.String(),
					len(d.Moniker), len(d.Identity), len(d.Website), len(d.SecurityContact), len(d.Details), decStr(c.Rate), decStr(c.MaxRate), decStr(c.MaxChangeRate))
			}
		} else {
			sb.WriteString(" ERR")
		}
		out = append(out, sb.String())
	}
	// updated-validators cache
	{
		var ops []int
		it, err := n.App.POAKeeper.UpdatedValidatorsCache.Iterate(ctx, nil)
		if err == nil {
			for ; it.Valid(); it.Next() {
				k, _ := it.Key()
				ops = append(ops, w.OpByVal(k))
			}
			it.Close()
		}
		sort.Ints(ops)
		var sb strings.Builder
		sb.WriteString("UPDC")
		for _, o := range ops {
			fmt.Fprintf(&sb, " %d", o)
		}
		out = append(out, sb.String())
	}
	// pools and supply
	{
		bk := n.App.BankKeeper
		b := bk.GetBalance(ctx, authtypes.NewModuleAddress(stakingtypes.BondedPoolName), BondDenom).Amount
		nb := bk.GetBalance(ctx, authtypes.NewModuleAddress(stakingtypes.NotBondedPoolName), BondDenom).Amount
		sup := bk.GetSupply(ctx, BondDenom).Amount
		base := sdkmath.NewInt(1_000_000_000_000).MulRaw(int64(NOPS + 2))
		out = append(out, fmt.Sprintf("POOL %s %s %s", b.String(), nb.String(), sup.Sub(base).String()))
	}
	// params
	{
		p, err := sk.GetParams(ctx)
		if err == nil {
			dk := 0
			if sdk.ValidateDenom(p.BondDenom) != nil {
				dk = 2
			} else if p.BondDenom != BondDenom {
				dk = 1
			}
			out = append(out, fmt.Sprintf("PAR %d %d %d %d %d %s", int64(p.UnbondingTime), p.MaxValidators, p.MaxEntries, p.HistoricalEntries, dk, decStr(p.MinCommissionRate)))
		}
	}
	// signing infos of every known consensus key
	{
		for _, base := range []int{0, 100} {
			for k := 0; k < NOPS; k++ {
				key := base + k
				cons := sdk.ConsAddress(w.PubKey(key).Address())
				si, err := n.App.SlashingKeeper.GetValidatorSigningInfo(ctx, cons)
				if err != nil {
					continue
				}
				tomb := 0
				if si.Tombstoned {
					tomb = 1
				}
				out = append(out, fmt.Sprintf("SIG %d %d %d %d %d %d", key, si.StartHeight, si.IndexOffset, si.MissedBlocksCounter, n.relTime(si.JailedUntil), tomb))
			}
		}
	}
	// authority query
	{
		a := 0
		var res poa.QueryPoaAuthorityResponse
		if err := n.routedQuery("/strangelove_ventures.poa.v1.Query/PoaAuthority", &poa.QueryPoaAuthorityRequest{}, &res); err == nil && res.Authority == w.AdminAddr(n.G).String() {
			a = 1
		}
		out = append(out, fmt.Sprintf("AUTH %d", a))
	}
	// probes: the four admin-gated messages handed to the message router with senders that cannot sign a transaction —
	// module accounts (this is how x/gov, x/group and x/authz deliver messages) and a fresh address — on a branch of the
	// committed state that is thrown away.  The admin of this harness is an ordinary account (environment override), so
	// every one of them must be refused as "not an authority".
	{
		var sb strings.Builder
		sb.WriteString("PROBE")
		senders := []struct {
			name string
			addr sdk.AccAddress
		}{
			{"gov", func() sdk.AccAddress {
				if n.G.GovAdmin {
					return w.Admin.Addr // here the gov account is the admin; the account of the environment override is nobody
				}
				return authtypes.NewModuleAddress("gov")
			}()},
			{"distribution", authtypes.NewModuleAddress("distribution")},
			{"bonded", authtypes.NewModuleAddress("bonded_tokens_pool")},
			{"fresh", sdk.AccAddress([]byte("probe-fresh-address-xx"))},
		}
		target := -1
		for _, v := range vals {
			if op := w.OpByVal(v.OperatorAddress); op >= 0 && (target < 0 || op < target) {
				target = op
			}
		}
		if target < 0 {
			target = 0
		}
		sp, _ := sk.GetParams(ctx)
		for _, s := range senders {
			msgs := []struct {
				kind string
				msg  sdk.Msg
			}{
				{"SETPOWER", &poa.MsgSetPower{Sender: s.addr.String(), ValidatorAddress: w.valStr(target), Power: 5_000_000, Unsafe: true}},
				{"REMOVE", &poa.MsgRemoveValidator{Sender: s.addr.String(), ValidatorAddress: w.valStr(target)}},
				{"RMPENDING", &poa.MsgRemovePending{Sender: s.addr.String(), ValidatorAddress: w.valStr(target)}},
				{"PARAMS", &poa.MsgUpdateStakingParams{Sender: s.addr.String(), Params: poa.StakingParams{
					UnbondingTime: sp.UnbondingTime, MaxValidators: sp.MaxValidators, MaxEntries: sp.MaxEntries,
					HistoricalEntries: sp.HistoricalEntries, BondDenom: sp.BondDenom, MinCommissionRate: sp.MinCommissionRate}}},
			}
			for _, m := range msgs {
				res := probeMsg(n, ctx, m.msg)
				fmt.Fprintf(&sb, " %s:%s=%s", s.name, m.kind, res)
			}
		}
		out = append(out, sb.String())
	}
	// queries
	{
		var sb strings.Builder
		sb.WriteString("QRY")
		for op := -1; op < NOPS; op++ {
			var res poa.QueryConsensusPowerResponse
			err := n.routedQuery("/strangelove_ventures.poa.v1.Query/ConsensusPower", &poa.QueryConsensusPowerRequest{ValidatorAddress: w.valStr(op)}, &res)
			if err != nil {
				fmt.Fprintf(&sb, " %d:err", op)
			} else {
				fmt.Fprintf(&sb, " %d:%d", op, res.ConsensusPower)
			}
		}
		out = append(out, sb.String())
	}
	// malformed arguments of the power query: the bytes of every operator under the account and the consensus prefix, the
	// empty string, garbage, a truncated address — every one of them is an error, whoever the bytes belong to
	{
		bad := 0
		first := "-"
		try := func(label, a string) {
			var res poa.QueryConsensusPowerResponse
			if err := n.routedQuery("/strangelove_ventures.poa.v1.Query/ConsensusPower", &poa.QueryConsensusPowerRequest{ValidatorAddress: a}, &res); err == nil {
				bad++
				if first == "-" {
					first = label
				}
			}
		}
		for op := 0; op < NOPS; op++ {
			bz := []byte(w.Ops[op].Val)
			try(fmt.Sprintf("acc-prefix-op%d", op), sdk.AccAddress(bz).String())
			try(fmt.Sprintf("cons-prefix-op%d", op), sdk.ConsAddress(bz).String())
			v := w.valStr(op)
			try(fmt.Sprintf("truncated-op%d", op), v[:len(v)-3])
		}
		try("empty", "")
		try("garbage", "not-an-address")
		out = append(out, fmt.Sprintf("QMAL %d %s", bad, first))
	}
	// the pending-validators query, through the query server (what clients see), each consensus key unpacked
	{
		var sb strings.Builder
		sb.WriteString("PQRY")
		var res poa.PendingValidatorsResponse
		err := n.routedQuery("/strangelove_ventures.poa.v1.Query/PendingValidators", &poa.QueryPendingValidatorsRequest{}, &res)
		if err == nil {
			for _, p := range res.Pending {
				key := -1
				if err := p.UnpackInterfaces(n.App.AppCodec()); err == nil {
					sv := poa.ConvertPOAToStaking(p)
					if ca, err := sv.GetConsAddr(); err == nil {
						key = w.KeyByConsAddr(ca)
					}
				}
				d, c := p.Description, p.Commission.CommissionRates
				fmt.Fprintf(&sb, " %d:%d:%s:%s:%d,%d,%d,%d,%d,%s,%s,%s", w.OpByVal(p.OperatorAddress), key, p.Tokens.String(), p.MinSelfDelegation.String(),
					len(d.Moniker), len(d.Identity), len(d.Website), len(d.SecurityContact), len(d.Details), decStr(c.Rate), decStr(c.MaxRate), decStr(c.MaxChangeRate))
			}
		} else {
			sb.WriteString(" ERR")
		}
		out = append(out, sb.String())
	}
	out = append(out, vcomLine)
	return out
}

// probeMsg hands one message to the application's message router on a cache-wrapped context (discarded afterwards)
// and returns the result class, as for transactions.
func probeMsg(n *Node, ctx sdk.Context, msg sdk.Msg) (res string) {
	defer func() {
		if r := recover(); r != nil {
			res = "panic"
		}
	}()
	h := n.App.MsgServiceRouter().Handler(msg)
	if h == nil {
		return "noroute"
	}
	cctx, _ := ctx.CacheContext()
	if _, err := h(cctx, msg); err != nil {
		cs, code, _ := errorsmod.ABCIInfo(err, false)
		return fmt.Sprintf("%s:%d", cs, code)
	}
	return "ok"
}

// routedQuery sends a query through the application's own gRPC query router (BaseApp.Query), i.e. to the query server
// the module registered — what a client of the node reaches — and decodes the answer.
func (n *Node) routedQuery(path string, req, resp gogoproto.Message) error {
	bz, err := gogoproto.Marshal(req)
	if err != nil {
		return err
	}
	res, err := n.App.Query(context.Background(), &abci.RequestQuery{Path: path, Data: bz})
	if err != nil {
		return err
	}
	if res.Code != 0 {
		return fmt.Errorf("query %s: code %d: %s", path, res.Code, res.Log)
	}
	return gogoproto.Unmarshal(res.Value, resp)
}

func hasLastPower(n *Node, ctx sdk.Context, addr sdk.ValAddress) (bool, error) {
	found := false
	err := n.App.StakingKeeper.IterateLastValidatorPowers(ctx, func(op sdk.ValAddress, power int64) bool {
		if op.Equals(addr) {
			found = true
			return true
		}
		return false
	})
	return found, err
}

// decStr prints a LegacyDec as an integer scaled by 10^18 ("nil" for the zero value).
func decStr(d sdkmath.LegacyDec) string {
	if d.IsNil() {
		return "nil"
	}
	return d.BigInt().String()
}

// StoreHashes returns the last committed hash of every module store the PoA properties talk about.
func (n *Node) StoreHashes() map[string]string {
	out := map[string]string{}
	for _, name := range []string{"poa", "staking", "slashing", "bank", "mint", "distribution", "acc", "gov", "authz", "group"} {
		k := n.App.GetKey(name)
		if k == nil {
			continue
		}
		st := n.App.CommitMultiStore().GetCommitKVStore(k)
		if st == nil {
			continue
		}
		out[name] = fmt.Sprintf("%x", st.LastCommitID().Hash)
	}
	return out
}
