package main

import (
	"bytes"
	"encoding/json"
	"fmt"
	"os"
	"sort"
	"time"

	abci "github.com/cometbft/cometbft/abci/types"
	cmtproto "github.com/cometbft/cometbft/proto/tendermint/types"
	cmttypes "github.com/cometbft/cometbft/types"
	dbm "github.com/cosmos/cosmos-db"

	"cosmossdk.io/log"
	sdkmath "cosmossdk.io/math"

	"github.com/cosmos/cosmos-sdk/baseapp"
	"github.com/cosmos/cosmos-sdk/client/flags"
	codectypes "github.com/cosmos/cosmos-sdk/codec/types"
	"github.com/cosmos/cosmos-sdk/crypto/keys/ed25519"
	"github.com/cosmos/cosmos-sdk/crypto/keys/secp256k1"
	cryptotypes "github.com/cosmos/cosmos-sdk/crypto/types"
	simtestutil "github.com/cosmos/cosmos-sdk/testutil/sims"
	sdk "github.com/cosmos/cosmos-sdk/types"
	authtypes "github.com/cosmos/cosmos-sdk/x/auth/types"
	banktypes "github.com/cosmos/cosmos-sdk/x/bank/types"
	govv1 "github.com/cosmos/cosmos-sdk/x/gov/types/v1"
	minttypes "github.com/cosmos/cosmos-sdk/x/mint/types"
	slashingtypes "github.com/cosmos/cosmos-sdk/x/slashing/types"
	stakingtypes "github.com/cosmos/cosmos-sdk/x/staking/types"

	"github.com/strangelove-ventures/poa/simapp"
)

const (
	NOPS      = 10
	ChainID   = "poaverif-1"
	BondDenom = "stake"
)

type Acct struct {
	Priv cryptotypes.PrivKey
	Addr sdk.AccAddress
}

type Op struct {
	Acct
	Val      sdk.ValAddress
	Cons     cryptotypes.PrivKey // ed25519 consensus key (key id == op id)
	ConsSecp cryptotypes.PrivKey // secp256k1 consensus key (key id == 100+op id)
}

// World holds the fixed cast of accounts (identical for every history).
type World struct {
	Admin Acct
	User  Acct
	Ops   []Op // sorted by address bytes: op id == rank

	accNums map[string]uint64 // account numbers assigned at genesis (see genesisAccNum)
	senderOverride string     // while set, BuildMsg uses it as the sender of the messages it builds (proposal contents)
}

func mkAcct(secret string) Acct {
	p := secp256k1.GenPrivKeyFromSecret([]byte(secret))
	return Acct{Priv: p, Addr: sdk.AccAddress(p.PubKey().Address())}
}

func NewWorld() *World {
	w := &World{Admin: mkAcct("poaverif-admin"), User: mkAcct("poaverif-user")}
	for i := 0; i < NOPS; i++ {
		a := mkAcct(fmt.Sprintf("poaverif-op-%d", i))
		w.Ops = append(w.Ops, Op{
			Acct:     a,
			Val:      sdk.ValAddress(a.Addr),
			Cons:     ed25519.GenPrivKeyFromSecret([]byte(fmt.Sprintf("poaverif-cons-%d", i))),
			ConsSecp: secp256k1.GenPrivKeyFromSecret([]byte(fmt.Sprintf("poaverif-cons-secp-%d", i))),
		})
	}
	sort.Slice(w.Ops, func(i, j int) bool { return bytes.Compare(w.Ops[i].Addr, w.Ops[j].Addr) < 0 })
	return w
}

func (w *World) OpByVal(s string) int {
	for i, o := range w.Ops {
		if o.Val.String() == s {
			return i
		}
	}
	return -1
}

// key ids: 0..NOPS-1 ed25519 of op i; 100+i secp of op i
func (w *World) PubKey(key int) cryptotypes.PubKey {
	if key >= 100 {
		return w.Ops[key-100].ConsSecp.PubKey()
	}
	return w.Ops[key].Cons.PubKey()
}

func (w *World) KeyByConsAddr(addr []byte) int {
	for i, o := range w.Ops {
		if bytes.Equal(o.Cons.PubKey().Address(), addr) {
			return i
		}
		if bytes.Equal(o.ConsSecp.PubKey().Address(), addr) {
			return 100 + i
		}
	}
	return -1
}

type GVal struct {
	Op, Key int
	Tokens  int64
}

type Genesis struct {
	MaxVals      uint32
	UnbondNs     int64
	Window       int64
	MinSigned    int64 // MinSignedPerWindow as absolute number (computed from the fraction by the SDK's own formula)
	MinSignedDec string
	JailNs       int64
	SlashDownE18 int64
	MinCommE18   int64
	Vals         []GVal
	PoaGenesis   []byte // optional: raw x/poa genesis JSON (genesis round-trip checks)
	GovAdmin     bool   // the PoA admin is the x/gov account (the default configuration): no environment override
	ForeignDel   bool   // probes only: the ordinary account holds a delegation of one unit to the first genesis validator (a PoS-style genesis)
}

// Node is one running SimApp instance.
type Node struct {
	props   map[uint64][]Msg // governance proposals submitted on this node and not yet final: id -> inner messages
	W       *World
	App     *simapp.SimApp
	DB      dbm.DB
	G       Genesis
	Genesis time.Time
	Height  int64
	Time    time.Time
	Home    string
}

func newApp(db dbm.DB, home string) *simapp.SimApp {
	appOptions := make(simtestutil.AppOptionsMap, 0)
	appOptions[flags.FlagHome] = home
	return simapp.NewSimApp(log.NewNopLogger(), db, nil, true, appOptions, baseapp.SetChainID(ChainID))
}

// consensusParamsFor: the SDK's test defaults, except that every other genesis (by its number of validators) runs with an
// unlimited block gas (`max_gas = -1`, CometBFT's own genesis default — BaseApp then installs an infinite block gas meter)
func consensusParamsFor(g Genesis) *cmtproto.ConsensusParams {
	cp := *simtestutil.DefaultConsensusParams
	blk := *cp.Block
	if len(g.Vals)%2 == 0 {
		blk.MaxGas = -1
	}
	cp.Block = &blk
	return &cp
}

func decE18(v int64) sdkmath.LegacyDec { return sdkmath.LegacyNewDecWithPrec(v, 18) }

// NewNode builds the genesis, runs InitChain and returns the node plus the InitChain validator updates.
func setAdminEnv(w *World, g Genesis) {
	if g.GovAdmin {
		os.Unsetenv("POA_ADMIN_ADDRESS")
	} else {
		os.Setenv("POA_ADMIN_ADDRESS", w.Admin.Addr.String())
	}
}

// AdminAddr: the address that holds the PoA authority on a node with this genesis
func (w *World) AdminAddr(g Genesis) sdk.AccAddress {
	if g.GovAdmin {
		return authtypes.NewModuleAddress("gov")
	}
	return w.Admin.Addr
}

func NewNode(w *World, g Genesis) (*Node, []abci.ValidatorUpdate, error) {
	setAdminEnv(w, g)
	home, err := os.MkdirTemp("", "poaverif-home")
	if err != nil {
		return nil, nil, err
	}
	db := dbm.NewMemDB()
	app := newApp(db, home)
	n := &Node{W: w, App: app, DB: db, G: g, Home: home, props: map[uint64][]Msg{}}
	n.Genesis = time.Date(2030, 1, 1, 0, 0, 0, 0, time.UTC)
	n.Time = n.Genesis

	gs := app.DefaultGenesis()
	cdc := app.AppCodec()

	// accounts + balances
	var accs []authtypes.GenesisAccount
	var bals []banktypes.Balance
	rich := sdk.NewCoins(sdk.NewCoin(BondDenom, sdkmath.NewInt(1_000_000_000_000)))
	add := func(a Acct) {
		accs = append(accs, authtypes.NewBaseAccount(a.Addr, a.Priv.PubKey(), 0, 0))
		bals = append(bals, banktypes.Balance{Address: a.Addr.String(), Coins: rich})
	}
	add(w.Admin)
	add(w.User)
	for _, o := range w.Ops {
		add(o.Acct)
	}
	authGen := authtypes.NewGenesisState(authtypes.DefaultParams(), accs)
	gs[authtypes.ModuleName] = cdc.MustMarshalJSON(authGen)

	// staking
	sp := stakingtypes.DefaultParams()
	sp.MaxValidators = g.MaxVals
	sp.UnbondingTime = time.Duration(g.UnbondNs)
	sp.BondDenom = BondDenom
	sp.MinCommissionRate = decE18(g.MinCommE18)
	var vals []stakingtypes.Validator
	var dels []stakingtypes.Delegation
	var infos []slashingtypes.SigningInfo
	total := sdkmath.ZeroInt()
	for _, gv := range g.Vals {
		o := w.Ops[gv.Op]
		pk := w.PubKey(gv.Key)
		pkAny, err := codectypes.NewAnyWithValue(pk)
		if err != nil {
			return nil, nil, err
		}
		tok := sdkmath.NewInt(gv.Tokens)
		v := stakingtypes.Validator{
			OperatorAddress:   o.Val.String(),
			ConsensusPubkey:   pkAny,
			Jailed:            false,
			Status:            stakingtypes.Bonded,
			Tokens:            tok,
			DelegatorShares:   sdkmath.LegacyNewDecFromInt(tok),
			Description:       stakingtypes.Description{Moniker: fmt.Sprintf("gen-%d", gv.Op)},
			UnbondingHeight:   0,
			UnbondingTime:     time.Unix(0, 0).UTC(),
			Commission:        stakingtypes.NewCommission(sdkmath.LegacyNewDecWithPrec(2, 1), sdkmath.LegacyNewDecWithPrec(5, 1), sdkmath.LegacyNewDecWithPrec(1, 1)),
			MinSelfDelegation: sdkmath.OneInt(),
		}
		dels = append(dels, stakingtypes.NewDelegation(o.Addr.String(), o.Val.String(), sdkmath.LegacyNewDecFromInt(tok)))
		if g.ForeignDel && len(vals) == 0 {
			extra := sdkmath.NewInt(1_000_000)
			v.Tokens = v.Tokens.Add(extra)
			v.DelegatorShares = v.DelegatorShares.Add(sdkmath.LegacyNewDecFromInt(extra))
			dels = append(dels, stakingtypes.NewDelegation(w.User.Addr.String(), o.Val.String(), sdkmath.LegacyNewDecFromInt(extra)))
			total = total.Add(extra)
		}
		vals = append(vals, v)
		total = total.Add(tok)
		cons := sdk.ConsAddress(pk.Address())
		infos = append(infos, slashingtypes.SigningInfo{
			Address:              cons.String(),
			ValidatorSigningInfo: slashingtypes.NewValidatorSigningInfo(cons, 0, 0, time.Unix(0, 0).UTC(), false, 0),
		})
	}
	stGen := stakingtypes.NewGenesisState(sp, vals, dels)
	gs[stakingtypes.ModuleName] = cdc.MustMarshalJSON(stGen)

	// bank: accounts + bonded pool
	bals = append(bals, banktypes.Balance{
		Address: authtypes.NewModuleAddress(stakingtypes.BondedPoolName).String(),
		Coins:   sdk.NewCoins(sdk.NewCoin(BondDenom, total)),
	})
	supply := sdk.NewCoins()
	for _, b := range bals {
		supply = supply.Add(b.Coins...)
	}
	bankGen := banktypes.NewGenesisState(banktypes.DefaultGenesisState().Params, bals, supply, []banktypes.Metadata{}, []banktypes.SendEnabled{})
	gs[banktypes.ModuleName] = cdc.MustMarshalJSON(bankGen)

	// slashing
	slp := slashingtypes.DefaultParams()
	slp.SignedBlocksWindow = g.Window
	slp.MinSignedPerWindow = sdkmath.LegacyMustNewDecFromStr(g.MinSignedDec)
	slp.DowntimeJailDuration = time.Duration(g.JailNs)
	slp.SlashFractionDowntime = decE18(g.SlashDownE18)
	slGen := slashingtypes.NewGenesisState(slp, infos, nil)
	gs[slashingtypes.ModuleName] = cdc.MustMarshalJSON(slGen)

	// mint: no inflation, so the bond-denom supply moves only through PoA and slashing
	mg := minttypes.DefaultGenesisState()
	mg.Minter.Inflation = sdkmath.LegacyZeroDec()
	mg.Params.InflationMax = sdkmath.LegacyZeroDec()
	mg.Params.InflationMin = sdkmath.LegacyZeroDec()
	mg.Params.InflationRateChange = sdkmath.LegacyZeroDec()
	mg.Params.MintDenom = BondDenom
	gs[minttypes.ModuleName] = cdc.MustMarshalJSON(mg)

	if g.PoaGenesis != nil {
		gs["poa"] = g.PoaGenesis
	}

	// gov: a voting period shorter than any block interval, so that a proposal submitted and voted on in block h is
	// tallied — and, if it passes, executed — by x/gov's EndBlocker of block h+1; deposits of one base unit
	{
		gg := govv1.DefaultGenesisState()
		vp, evp := 500*time.Millisecond, 400*time.Millisecond
		gg.Params.VotingPeriod = &vp
		gg.Params.ExpeditedVotingPeriod = &evp
		gg.Params.MinDeposit = sdk.NewCoins(sdk.NewCoin(BondDenom, sdkmath.NewInt(1)))
		gg.Params.ExpeditedMinDeposit = sdk.NewCoins(sdk.NewCoin(BondDenom, sdkmath.NewInt(2)))
		gs["gov"] = cdc.MustMarshalJSON(gg)
	}

	stateBytes, err := json.Marshal(gs)
	if err != nil {
		return nil, nil, err
	}
	res, err := app.InitChain(&abci.RequestInitChain{
		ChainId:         ChainID,
		Time:            n.Genesis,
		Validators:      []abci.ValidatorUpdate{},
		ConsensusParams: consensusParamsFor(g),
		AppStateBytes:   stateBytes,
		InitialHeight:   1,
	})
	if err != nil {
		return nil, nil, err
	}
	return n, res.Validators, nil
}

func (n *Node) Close() { os.RemoveAll(n.Home) }

// Restart drops the app object and re-creates it over the same DB.
func (n *Node) Restart() {
	setAdminEnv(n.W, n.G)
	n.App = newApp(n.DB, n.Home)
}

func (n *Node) Ctx() sdk.Context {
	return n.App.BaseApp.NewUncachedContext(false, cmtproto.Header{Height: n.Height, Time: n.Time, ChainID: ChainID})
}

// relTime canonicalises a timestamp: -2 zero time, -1 unix epoch, else ns since genesis.
func (n *Node) relTime(t time.Time) int64 {
	if t.IsZero() {
		return -2
	}
	if t.Unix() == 0 && t.Nanosecond() == 0 {
		return -1
	}
	return t.Sub(n.Genesis).Nanoseconds()
}

// ---- CometBFT side ----

func applyToCometSet(set *cmttypes.ValidatorSet, ups []abci.ValidatorUpdate) (*cmttypes.ValidatorSet, error) {
	vals, err := cmttypes.PB2TM.ValidatorUpdates(ups)
	if err != nil {
		return set, err
	}
	var ns *cmttypes.ValidatorSet
	if set == nil {
		ns = cmttypes.NewValidatorSet(nil)
	} else {
		ns = set.Copy()
	}
	if len(vals) == 0 {
		return ns, nil
	}
	if err := ns.UpdateWithChangeSet(vals); err != nil {
		return set, err
	}
	return ns, nil
}
