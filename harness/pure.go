package main

import (
	"bufio"
	"fmt"
	"io"
	"os"
	"reflect"
	"strings"
	"time"

	errorsmod "cosmossdk.io/errors"
	sdkmath "cosmossdk.io/math"

	addresscodec "github.com/cosmos/cosmos-sdk/codec/address"
	codectypes "github.com/cosmos/cosmos-sdk/codec/types"
	sdk "github.com/cosmos/cosmos-sdk/types"
	stakingtypes "github.com/cosmos/cosmos-sdk/x/staking/types"
	protov2 "google.golang.org/protobuf/proto"

	"github.com/strangelove-ventures/poa"
	poaante "github.com/strangelove-ventures/poa/ante"
)

// ---------- ante stream: the three real decorators on generated message trees ----------

type mockTx struct{ msgs []sdk.Msg }

func (t mockTx) GetMsgs() []sdk.Msg                    { return t.msgs }
func (t mockTx) GetMsgsV2() ([]protov2.Message, error) { return nil, nil }

func errClass(err error) string {
	if err == nil {
		return "pass"
	}
	cs, code, _ := errorsmod.ABCIInfo(err, false)
	return fmt.Sprintf("%s:%d", cs, code)
}

func runDecorator(d sdk.AnteDecorator, h int64, msgs []sdk.Msg) (res string) {
	defer func() {
		if e := recover(); e != nil {
			res = "panic"
		}
	}()
	ctx := sdk.Context{}.WithBlockHeight(h)
	next := func(ctx sdk.Context, tx sdk.Tx, simulate bool) (sdk.Context, error) { return ctx, nil }
	_, err := d.AnteHandle(ctx, mockTx{msgs}, false, next)
	return errClass(err)
}

func (g *Gen) anteLeaf() Msg {
	r := g.R
	e16 := int64(10_000_000_000_000_000)
	switch r.W(30, 12, 12, 14, 12, 10, 10) {
	case 0:
		return Msg{Kind: "STAKING", Args: []string{itoa(r.N(6))}}
	case 1:
		return Msg{Kind: "WITHDRAW"}
	case 2:
		return Msg{Kind: "EDIT", Args: []string{itoa(r.N(NOPS)), "nil"}}
	case 3:
		return Msg{Kind: "EDIT", Args: []string{itoa(r.N(NOPS)), itoa(g.anteRate())}}
	case 4:
		op := r.N(NOPS)
		return Msg{Kind: "CREATE", Args: []string{itoa(op), itoa(op), "3", "0", "0", "0", "0", itoa(g.anteRate()), itoa(60 * e16), itoa(10 * e16), "1"}}
	case 5:
		return Msg{Kind: "OTHER"}
	default:
		return Msg{Kind: "SETPOWER", Args: []string{itoa(r.N(NOPS)), itoa(uint64(1+r.N(50)) * 1_000_000), "0"}}
	}
}

var anteCfgs = [][2]int64{{100_000_000_000_000_000, 500_000_000_000_000_000}, {150_000_000_000_000_000, 150_000_000_000_000_000}, {0, 1_000_000_000_000_000_000}, {50_000_000_000_000_000, 50_000_000_000_000_001}}

func (g *Gen) anteRate() int64 {
	r := g.R
	c := anteCfgs[g.anteCfg]
	switch r.W(20, 15, 15, 15, 15, 20) {
	case 0:
		return c[0]
	case 1:
		return c[1]
	case 2:
		return c[0] - 1
	case 3:
		return c[1] + 1
	case 4:
		return (c[0] + c[1]) / 2
	default:
		return int64(r.N(101)) * 10_000_000_000_000_000
	}
}

// anteTree builds a tree; `hot` leaves are mostly harmless so that a single offending leaf decides
func (g *Gen) anteTree(depth int, harmless bool) Msg {
	r := g.R
	if depth <= 0 || r.P(35) {
		if harmless {
			switch r.W(50, 25, 25) {
			case 0:
				return Msg{Kind: "OTHER"}
			case 1:
				return Msg{Kind: "EDIT", Args: []string{itoa(r.N(NOPS)), "nil"}}
			default:
				return Msg{Kind: "SETPOWER", Args: []string{itoa(r.N(NOPS)), itoa(uint64(1+r.N(50)) * 1_000_000), "0"}}
			}
		}
		return g.anteLeaf()
	}
	kind := []string{"EXEC", "GROUPPROP", "GOVPROP"}[r.W(50, 25, 25)]
	n := 1 + r.N(4)
	m := Msg{Kind: kind}
	for i := 0; i < n; i++ {
		m.Sub = append(m.Sub, g.anteTree(depth-1, harmless))
	}
	return m
}

// plant puts `leaf` at a random position of the tree
func (g *Gen) plant(m *Msg, leaf Msg) {
	if len(m.Sub) == 0 {
		*m = leaf
		return
	}
	i := g.R.N(len(m.Sub))
	if g.R.P(30) {
		m.Sub = append(m.Sub[:i], append([]Msg{leaf}, m.Sub[i:]...)...)
		return
	}
	g.plant(&m.Sub[i], leaf)
}

func anteStream(w *World, seed uint64, n int, ops, obs io.Writer) {
	g := NewGen(seed, GenCfg{})
	heights := []int64{0, 1, 2, 3, 1_000_000}
	for i := 0; i < n; i++ {
		g.anteCfg = g.R.N(len(anteCfgs))
		cfg := anteCfgs[g.anteCfg]
		doGen := g.R.P(40)
		h := heights[g.R.N(len(heights))]
		nm := 1 + g.R.N(3)
		var msgs []Msg
		style := g.R.W(36, 36, 18, 10)
		for j := 0; j < nm; j++ {
			switch style {
			case 0: // anything anywhere
				msgs = append(msgs, g.anteTree(1+g.R.N(6), false))
			case 3: // one leaf under a long chain of wrappers ("at every nesting depth"), harmless siblings here and there
				m := g.anteLeaf()
				depth := 7 + g.R.N(30)
				for d := 0; d < depth; d++ {
					kind := []string{"EXEC", "GROUPPROP", "GOVPROP"}[g.R.W(50, 25, 25)]
					sub := []Msg{m}
					if g.R.P(20) {
						sub = append([]Msg{{Kind: "OTHER"}}, sub...)
					}
					if g.R.P(10) {
						sub = append(sub, Msg{Kind: "OTHER"})
					}
					m = Msg{Kind: kind, Sub: sub}
				}
				msgs = append(msgs, m)
			default: // harmless tree, one planted offender (style 1) or none (style 2)
				msgs = append(msgs, g.anteTree(1+g.R.N(6), true))
			}
		}
		if style == 1 {
			g.plant(&msgs[g.R.N(len(msgs))], g.anteLeaf())
		}
		dg := 0
		if doGen {
			dg = 1
		}
		fmt.Fprintf(ops, "ANTE %d %d %d %d %d\n", h, dg, cfg[0], cfg[1], len(msgs))
		var sm []sdk.Msg
		for _, m := range msgs {
			writeMsg(ops, m)
			x, err := w.BuildMsg(-1, m)
			if err != nil {
				panic(err)
			}
			sm = append(sm, x)
		}
		a := runDecorator(poaante.NewPOADisableStakingDecorator(), h, sm)
		b := runDecorator(poaante.NewPOADisableWithdrawDelegatorRewards(), h, sm)
		c := runDecorator(poaante.NewCommissionLimitDecorator(doGen, decE18(cfg[0]), decE18(cfg[1])), h, sm)
		fmt.Fprintf(obs, "AR %s %s %s\n", a, b, c)
	}
}

// ---------- validate stream: PoA's copied validation vs x/staking's own ----------

func panicClass(f func() error) (res string) {
	defer func() {
		if e := recover(); e != nil {
			res = "panic"
		}
	}()
	return errClass(f())
}

func validateStream(w *World, seed uint64, n int, ops, obs io.Writer) {
	g := NewGen(seed, GenCfg{})
	g.G = Genesis{UnbondNs: 8_000_000_000}
	r := g.R
	e18 := int64(1_000_000_000_000_000_000)
	pickDec := func() int64 {
		switch r.W(10, 10, 10, 10, 10, 10, 40) {
		case 0:
			return 0
		case 1:
			return e18
		case 2:
			return e18 + 1
		case 3:
			return -1
		case 4:
			return e18 - 1
		case 5:
			return 1
		default:
			return int64(r.N(130))*10_000_000_000_000_000 - 100_000_000_000_000_000 + int64(r.N(3)) - 1
		}
	}
	vac := addresscodec.NewBech32Codec(sdk.GetConfig().GetBech32ValidatorAddrPrefix())
	limits := []int{70, 3000, 140, 140, 280}
	for i := 0; i < n; i++ {
		switch r.W(35, 20, 15, 15, 15) {
		case 0: // commission
			a, b, c := pickDec(), pickDec(), pickDec()
			if r.P(30) {
				b = a // rate == maxRate boundary
			}
			if r.P(20) {
				c = b
			}
			fmt.Fprintf(ops, "VC %d %d %d\n", a, b, c)
			p := panicClass(func() error { return poa.NewCommissionRates(decE18(a), decE18(b), decE18(c)).Validate() })
			s := panicClass(func() error { return stakingtypes.NewCommissionRates(decE18(a), decE18(b), decE18(c)).Validate() })
			fmt.Fprintf(obs, "VCR %s %s\n", p, s)
		case 1: // description lengths
			l := make([]int, 5)
			for k := range l {
				l[k] = r.N(6)
				if r.P(25) {
					l[k] = limits[k] + r.N(3) - 1
				}
			}
			fmt.Fprintf(ops, "VD %d %d %d %d %d\n", l[0], l[1], l[2], l[3], l[4])
			_, e1 := poa.NewDescription(strOf(l[0]), strOf(l[1]), strOf(l[2]), strOf(l[3]), strOf(l[4])).EnsureLength()
			_, e2 := stakingtypes.NewDescription(strOf(l[0]), strOf(l[1]), strOf(l[2]), strOf(l[3]), strOf(l[4])).EnsureLength()
			fmt.Fprintf(obs, "VDR %s %s\n", errClass(e1), errClass(e2))
		case 2: // MsgSetPower.Validate
			t := r.N(NOPS)
			if r.P(15) {
				t = -1
			}
			p := g.pickPower(Snap{}, t)
			fmt.Fprintf(ops, "VS %d %d\n", t, p)
			m := poa.MsgSetPower{Sender: w.Admin.Addr.String(), ValidatorAddress: w.valStr(t), Power: p}
			fmt.Fprintf(obs, "VSR %s\n", errClass(m.Validate(vac)))
		case 3: // staking Params.Validate on the six fields
			a := g.msgParams(Snap{MaxVals: 5, NBonded: 4}).Args
			fmt.Fprintf(ops, "VP %s\n", strings.Join(a, " "))
			denom := denomOf(a[4])
			p := stakingtypes.Params{UnbondingTime: time.Duration(atoi64(a[0])), MaxValidators: uint32(atoi64(a[1])), MaxEntries: uint32(atoi64(a[2])),
				HistoricalEntries: uint32(atoi64(a[3])), BondDenom: denom, MinCommissionRate: decArg(a[5])}
			res := "ok"
			if p.Validate() != nil {
				res = "err"
			}
			fmt.Fprintf(obs, "VPR %s\n", res)
		default: // MsgCreateValidator.Validate: PoA vs x/staking (with the two fields PoA drops supplied)
			op := r.N(NOPS)
			cm := g.msgCreate(op, Snap{})
			cm.Args[1] = itoa([]int{op, -1, 100 + op}[r.W(70, 15, 15)])
			if r.P(15) {
				for k := 2; k <= 6; k++ {
					cm.Args[k] = "0"
				}
			}
			fmt.Fprintf(ops, "VM %s\n", strings.Join(cm.Args, " "))
			pm, err := w.BuildMsg(op, cm)
			if err != nil {
				panic(err)
			}
			pmsg := pm.(*poa.MsgCreateValidator)
			sm := stakingtypes.MsgCreateValidator{
				Description: stakingtypes.Description{Moniker: pmsg.Description.Moniker, Identity: pmsg.Description.Identity, Website: pmsg.Description.Website,
					SecurityContact: pmsg.Description.SecurityContact, Details: pmsg.Description.Details},
				Commission:        stakingtypes.CommissionRates{Rate: pmsg.Commission.Rate, MaxRate: pmsg.Commission.MaxRate, MaxChangeRate: pmsg.Commission.MaxChangeRate},
				MinSelfDelegation: sdkmath.OneInt(), ValidatorAddress: pmsg.ValidatorAddress, Pubkey: pmsg.Pubkey,
				Value: sdk.NewCoin(BondDenom, sdkmath.NewInt(1_000_000)),
			}
			fmt.Fprintf(obs, "VMR %s %s\n", panicClass(func() error { return pmsg.Validate(vac) }), panicClass(func() error { return sm.Validate(vac) }))
		}
	}
}

// ---------- convert stream: conversion, pending storage and genesis round trips (Go-side oracle) ----------

func randStr(r *Rng, max int) string {
	n := r.N(max + 1)
	if r.P(10) {
		n = max
	}
	if r.P(10) {
		n = 0
	}
	b := make([]byte, n)
	for i := range b {
		b[i] = byte('a' + r.N(26))
	}
	return string(b)
}

func randInt(r *Rng) sdkmath.Int {
	switch r.W(20, 20, 20, 40) {
	case 0:
		return sdkmath.ZeroInt()
	case 1:
		v, _ := sdkmath.NewIntFromString("115792089237316195423570985008687907853269984665640564039457584007913129639935") // 2^256-1
		return v
	case 2:
		return sdkmath.NewIntFromUint64(r.U64())
	default:
		return sdkmath.NewInt(int64(r.N(1 << 30)))
	}
}

func randDec(r *Rng) sdkmath.LegacyDec {
	return sdkmath.LegacyNewDecFromIntWithPrec(sdkmath.NewIntFromUint64(r.U64()>>uint(r.N(40))), 18)
}

func randStakingValidator(w *World, r *Rng) stakingtypes.Validator {
	op := r.N(NOPS)
	key := op
	if r.P(40) {
		key = 100 + op
	}
	pkAny, _ := codectypes.NewAnyWithValue(w.PubKey(key))
	var ids []uint64
	for i := 0; i < r.N(4); i++ {
		ids = append(ids, r.U64())
	}
	return stakingtypes.Validator{
		OperatorAddress: w.Ops[op].Val.String(), ConsensusPubkey: pkAny, Jailed: r.P(50), Status: stakingtypes.BondStatus(r.N(4)),
		Tokens: randInt(r), DelegatorShares: randDec(r),
		Description:     stakingtypes.NewDescription(randStr(r, 70), randStr(r, 3000), randStr(r, 140), randStr(r, 140), randStr(r, 280)),
		UnbondingHeight: int64(r.N(1 << 40)), UnbondingTime: time.Unix(int64(r.N(1<<31)), int64(r.N(1_000_000_000))).UTC(),
		Commission:              stakingtypes.NewCommission(randDec(r), randDec(r), randDec(r)),
		MinSelfDelegation:       randInt(r),
		UnbondingOnHoldRefCount: int64(r.N(1 << 20)), UnbondingIds: ids,
	}
}

func normStaking(v stakingtypes.Validator) stakingtypes.Validator {
	v.Commission.UpdateTime = time.Time{}
	if len(v.UnbondingIds) == 0 {
		v.UnbondingIds = nil
	}
	return v
}

func convertStream(w *World, seed uint64, n int, out io.Writer) int {
	r := &Rng{s: seed}
	bad := 0
	fields := []string{"OperatorAddress", "ConsensusPubkey", "Jailed", "Status", "Tokens", "DelegatorShares", "Description", "UnbondingHeight", "UnbondingTime", "MinSelfDelegation", "UnbondingOnHoldRefCount", "UnbondingIds"}
	// an app for codec, store and genesis round trips
	gen := Genesis{MaxVals: 100, UnbondNs: 8_000_000_000, Window: 4, MinSigned: 2, MinSignedDec: "0.5", JailNs: 2_000_000_000, Vals: []GVal{{0, 0, 5_000_000}, {1, 1, 7_000_000}}}
	node, _, err := NewNode(w, gen)
	if err != nil {
		fmt.Fprintf(out, "CONVERR %v\n", err)
		return 1
	}
	defer node.Close()
	node.ExecBlock(Block{DtNs: 1_000_000_000}, nil)
	cdc := node.App.AppCodec()
	samples := 0
	for i := 0; i < n; i++ {
		sv := randStakingValidator(w, r)
		pv := poa.ConvertStakingToPOA(sv)
		back := poa.ConvertPOAToStaking(pv)
		a, b := reflect.ValueOf(normStaking(sv)), reflect.ValueOf(normStaking(back))
		for _, f := range fields {
			x, y := a.FieldByName(f).Interface(), b.FieldByName(f).Interface()
			if !reflect.DeepEqual(x, y) && fmt.Sprint(x) != fmt.Sprint(y) {
				bad++
				fmt.Fprintf(out, "CONVBAD roundtrip field %s: %v != %v\n", f, x, y)
			}
		}
		cr := back.Commission.CommissionRates
		if !cr.Rate.Equal(sv.Commission.Rate) || !cr.MaxRate.Equal(sv.Commission.MaxRate) || !cr.MaxChangeRate.Equal(sv.Commission.MaxChangeRate) {
			bad++
			fmt.Fprintf(out, "CONVBAD commission rates\n")
		}
		// protobuf round trip of the PoA record inside a Validators list (what the pending item stores)
		bz, err := cdc.Marshal(&poa.Validators{Validators: []poa.Validator{pv}})
		if err != nil {
			bad++
			fmt.Fprintf(out, "CONVBAD marshal %v\n", err)
			continue
		}
		var lst poa.Validators
		if err := cdc.Unmarshal(bz, &lst); err != nil || len(lst.Validators) != 1 {
			bad++
			fmt.Fprintf(out, "CONVBAD unmarshal %v\n", err)
			continue
		}
		got := lst.Validators[0]
		if err := got.UnpackInterfaces(cdc); err != nil {
			bad++
			fmt.Fprintf(out, "CONVBAD unpack %v\n", err)
			continue
		}
		sv2 := poa.ConvertPOAToStaking(got)
		pk1, e1 := sv.ConsPubKey()
		pk2, e2 := sv2.ConsPubKey()
		if e1 != nil || e2 != nil || !pk1.Equals(pk2) {
			bad++
			fmt.Fprintf(out, "CONVBAD pubkey after store round trip\n")
		}
		if !got.Tokens.Equal(pv.Tokens) || !got.DelegatorShares.Equal(pv.DelegatorShares) || got.Description != pv.Description || !got.MinSelfDelegation.Equal(pv.MinSelfDelegation) ||
			got.OperatorAddress != pv.OperatorAddress || got.Jailed != pv.Jailed || got.Status != pv.Status || got.UnbondingHeight != pv.UnbondingHeight || !got.UnbondingTime.Equal(pv.UnbondingTime) {
			bad++
			fmt.Fprintf(out, "CONVBAD store round trip changed a field\n")
		}
		if samples < 3 {
			samples++
			fmt.Fprintf(out, "CONVSAMPLE op=%s status=%d jailed=%v tokens=%s shares=%s moniker_len=%d ids=%d\n", sv.OperatorAddress, sv.Status, sv.Jailed, sv.Tokens, sv.DelegatorShares, len(sv.Description.Moniker), len(sv.UnbondingIds))
		}
	}
	// genesis export -> JSON -> validate -> import into a fresh app: same pending list, same order
	{
		// queue three applications through the real message path
		var txs []Tx
		for _, op := range []int{5, 3, 8} {
			target := itoa(op)
			if op == 8 {
				target += "U" // one applicant spells its operator address in upper case (valid bech32): it must come back as written
			}
			lens := []string{"4", "1", "2", "3", "4"}
			if op == 3 {
				lens = []string{"70", "3000", "140", "140", "280"} // every description field at exactly x/staking's maximum
			}
			txs = append(txs, Tx{Signer: op, Msgs: []Msg{{Kind: "CREATE", Args: append(append([]string{target, itoa(op)}, lens...), "200000000000000000", "500000000000000000", "100000000000000000", "1")}}})
		}
		o := node.ExecBlock(Block{DtNs: 1_000_000_000, Txs: txs}, nil)
		for i, t := range o.Txs {
			if t.Code != 0 {
				bad++
				fmt.Fprintf(out, "CONVBAD create %d failed: %s\n", i, t.Log)
			}
		}
		// an operator is in use whatever the spelling of its address: the operator of genesis validator 0, written in upper
		// case, applies with an unused consensus key — x/staking knows the operator by its bytes
		{
			o := node.ExecBlock(Block{DtNs: 1_000_000_000, Txs: []Tx{{Signer: 0, Msgs: []Msg{{Kind: "CREATE", Args: []string{"0U", "9", "4", "1", "2", "3", "4", "200000000000000000", "500000000000000000", "100000000000000000", "1"}}}}}}, nil)
			if len(o.Txs) != 1 || o.Txs[0].Code == 0 {
				bad++
				fmt.Fprintf(out, "CONVBAD the operator of a validator, spelled in upper case, was accepted as a new applicant\n")
			}
		}
		ctx := node.Ctx()
		exported := node.App.POAKeeper.ExportGenesis(ctx)
		bz, err := cdc.MarshalJSON(exported)
		if err != nil {
			bad++
			fmt.Fprintf(out, "CONVBAD genesis marshal %v\n", err)
		}
		var back poa.GenesisState
		if err := cdc.UnmarshalJSON(bz, &back); err != nil || back.Validate() != nil {
			bad++
			fmt.Fprintf(out, "CONVBAD genesis unmarshal/validate %v\n", err)
		}
		gen2 := gen
		gen2.PoaGenesis = bz
		node2, _, err := NewNode(w, gen2)
		if err != nil {
			bad++
			fmt.Fprintf(out, "CONVBAD genesis import %v\n", err)
		} else {
			defer node2.Close()
			node2.ExecBlock(Block{DtNs: 1_000_000_000}, nil)
			a, _ := node.App.POAKeeper.GetPendingValidators(node.Ctx())
			b, _ := node2.App.POAKeeper.GetPendingValidators(node2.Ctx())
			if len(a.Validators) != 3 || len(b.Validators) != len(a.Validators) {
				bad++
				fmt.Fprintf(out, "CONVBAD genesis import: %d pending before, %d after\n", len(a.Validators), len(b.Validators))
			} else {
				for i := range a.Validators {
					x, y := a.Validators[i], b.Validators[i]
					ex, ey := x.UnpackInterfaces(cdc), y.UnpackInterfaces(cdc)
					sx, sy := poa.ConvertPOAToStaking(x), poa.ConvertPOAToStaking(y)
					cx, e1 := sx.GetConsAddr()
					cy, e2 := sy.GetConsAddr()
					if ex != nil || ey != nil || e1 != nil || e2 != nil || string(cx) != string(cy) || x.OperatorAddress != y.OperatorAddress || x.Description != y.Description ||
						!x.Commission.CommissionRates.Rate.Equal(y.Commission.CommissionRates.Rate) || !x.MinSelfDelegation.Equal(y.MinSelfDelegation) || !x.Tokens.Equal(y.Tokens) {
						bad++
						fmt.Fprintf(out, "CONVBAD genesis import changed entry %d\n", i)
					}
				}
			}
			// the imported applications keep their operator and their consensus key to themselves: a new applicant with the
			// consensus key of imported application 3, the operator of imported application 3 with a fresh key, and a new
			// applicant with the key of genesis validator 0 are all refused on the imported chain
			{
				mk := func(op, key int) Tx {
					return Tx{Signer: op, Msgs: []Msg{{Kind: "CREATE", Args: []string{itoa(op), itoa(key), "4", "1", "2", "3", "4", "200000000000000000", "500000000000000000", "100000000000000000", "1"}}}}
				}
				o3 := node2.ExecBlock(Block{DtNs: 1_000_000_000, Txs: []Tx{mk(6, 3), mk(3, 7), mk(7, 0)}}, nil)
				what := []string{"the consensus key of an imported application", "the operator of an imported application", "the consensus key of a validator"}
				for i, t := range o3.Txs {
					if t.Code == 0 {
						bad++
						fmt.Fprintf(out, "CONVBAD after genesis import an application with %s was accepted\n", what[i])
					}
				}
				if len(o3.Txs) != 3 {
					bad++
					fmt.Fprintf(out, "CONVBAD after genesis import: block failed %s\n", o3.HaltMsg)
				}
				b2, _ := node2.App.POAKeeper.GetPendingValidators(node2.Ctx())
				if len(b2.Validators) != 3 {
					bad++
					fmt.Fprintf(out, "CONVBAD after genesis import: refused applications changed the pending list (%d entries)\n", len(b2.Validators))
				}
			}
			// the per-block limit works from the imported chain's total power (12): +1 is 8 %, +4 is 33 %
			o2 := node2.ExecBlock(Block{DtNs: 1_000_000_000, Txs: []Tx{
				{Signer: -1, Msgs: []Msg{{Kind: "SETPOWER", Args: []string{"0", "6000000", "0"}}}},
				{Signer: -1, Msgs: []Msg{{Kind: "SETPOWER", Args: []string{"1", "11000000", "0"}}}},
				{Signer: -1, Msgs: []Msg{{Kind: "SETPOWER", Args: []string{"5", "1000000", "0"}}}},
			}}, nil)
			want := []string{"ok", "poa:4", "ok"}
			for i, t := range o2.Txs {
				if i < len(want) && t.Class() != want[i] {
					bad++
					fmt.Fprintf(out, "CONVBAD limit after import: tx %d got %s want %s\n", i, t.Class(), want[i])
				}
			}
			if len(o2.Txs) != 3 {
				bad++
				fmt.Fprintf(out, "CONVBAD limit after import: block failed %s\n", o2.HaltMsg)
			}
		}
	}
	// the same round trip after the chain's rules moved under the pending applications: the admin raises the minimum
	// commission above the rate of the queued applications (20 %), the chain is exported and imported (x/staking's genesis
	// carries the raised minimum): the pending list must survive unchanged
	func() {
		defer func() {
			if e := recover(); e != nil {
				bad++
				fmt.Fprintf(out, "CONVBAD genesis import after a parameter change panicked: %v\n", e)
			}
		}()
		o := node.ExecBlock(Block{DtNs: 1_000_000_000, Txs: []Tx{{Signer: -1, Msgs: []Msg{{Kind: "PARAMS", Args: []string{"8000000000", "100", "7", "10000", "0", "300000000000000000"}}}}}}, nil)
		if len(o.Txs) != 1 || o.Txs[0].Code != 0 {
			bad++
			fmt.Fprintf(out, "CONVBAD raising the minimum commission failed\n")
			return
		}
		exported := node.App.POAKeeper.ExportGenesis(node.Ctx())
		bz, err := cdc.MarshalJSON(exported)
		if err != nil {
			bad++
			fmt.Fprintf(out, "CONVBAD genesis marshal (2) %v\n", err)
			return
		}
		gen3 := gen
		gen3.MinCommE18 = 300_000_000_000_000_000
		gen3.PoaGenesis = bz
		node3, _, err := NewNode(w, gen3)
		if err != nil {
			bad++
			fmt.Fprintf(out, "CONVBAD genesis import after a parameter change: %v\n", err)
			return
		}
		defer node3.Close()
		node3.ExecBlock(Block{DtNs: 1_000_000_000}, nil)
		a, _ := node.App.POAKeeper.GetPendingValidators(node.Ctx())
		b, _ := node3.App.POAKeeper.GetPendingValidators(node3.Ctx())
		if len(a.Validators) == 0 || len(a.Validators) != len(b.Validators) {
			bad++
			fmt.Fprintf(out, "CONVBAD genesis import after a parameter change: %d pending before, %d after\n", len(a.Validators), len(b.Validators))
			return
		}
		for i := range a.Validators {
			if a.Validators[i].OperatorAddress != b.Validators[i].OperatorAddress || !a.Validators[i].Commission.CommissionRates.Rate.Equal(b.Validators[i].Commission.CommissionRates.Rate) {
				bad++
				fmt.Fprintf(out, "CONVBAD genesis import after a parameter change altered entry %d\n", i)
			}
		}
	}()
	// … and once more after the pending list has become empty again (every application refused or admitted): the export
	// must still work and import as an empty list
	func() {
		defer func() {
			if e := recover(); e != nil {
				bad++
				fmt.Fprintf(out, "CONVBAD genesis export/import with the pending list empty again panicked: %v\n", e)
			}
		}()
		var txs []Tx
		for _, op := range []int{5, 3} {
			txs = append(txs, Tx{Signer: -1, Msgs: []Msg{{Kind: "RMPENDING", Args: []string{itoa(op)}}}})
		}
		txs = append(txs, Tx{Signer: -1, Msgs: []Msg{{Kind: "PARAMS", Args: []string{"8000000000", "100", "7", "10000", "0", "0"}}}})
		// (the applicant filed under the upper-case spelling of its address is addressed by that spelling: the pending list
		// is searched by string)
		txs = append(txs, Tx{Signer: -1, Msgs: []Msg{{Kind: "SETPOWER", Args: []string{"8U", "1000000", "1"}}}})
		o := node.ExecBlock(Block{DtNs: 1_000_000_000, Txs: txs}, nil)
		for i, t := range o.Txs {
			if t.Code != 0 {
				bad++
				fmt.Fprintf(out, "CONVBAD emptying the pending list: tx %d failed: %s\n", i, t.Log)
			}
		}
		a, _ := node.App.POAKeeper.GetPendingValidators(node.Ctx())
		if len(a.Validators) != 0 {
			bad++
			fmt.Fprintf(out, "CONVBAD pending list not empty: %d\n", len(a.Validators))
			return
		}
		exported := node.App.POAKeeper.ExportGenesis(node.Ctx())
		bz, err := cdc.MarshalJSON(exported)
		if err != nil {
			bad++
			fmt.Fprintf(out, "CONVBAD genesis marshal (3) %v\n", err)
			return
		}
		gen4 := gen
		gen4.PoaGenesis = bz
		node4, _, err := NewNode(w, gen4)
		if err != nil {
			bad++
			fmt.Fprintf(out, "CONVBAD genesis import with an empty pending list: %v\n", err)
			return
		}
		defer node4.Close()
		node4.ExecBlock(Block{DtNs: 1_000_000_000}, nil)
		b, err := node4.App.POAKeeper.GetPendingValidators(node4.Ctx())
		if err != nil || len(b.Validators) != 0 {
			bad++
			fmt.Fprintf(out, "CONVBAD genesis import with an empty pending list: %v, %d entries\n", err, len(b.Validators))
		}
	}()
	// a PoA genesis whose pending records are populated (any jailed flag, status, tokens, shares, unbonding data): the
	// importing chain shows them unchanged, and what comes out of the pending list on admission is that record — the
	// x/staking validator stored by AcceptNewValidator equals the conversion of the stored application field by field.
	// (Admission runs on a branch of the state that is dropped: each application is admitted from the same imported state.)
	func() {
		defer func() {
			if e := recover(); e != nil {
				bad++
				fmt.Fprintf(out, "CONVBAD import / admission of populated pending records panicked: %v\n", e)
			}
		}()
		var recs []poa.Validator
		seen := map[string]bool{}
		for len(recs) < 4 {
			sv := randStakingValidator(w, r)
			sv.Tokens = sdkmath.NewInt(int64(r.N(1 << 50))) // x/staking's power index takes tokens / 10^6 as an int64
			pk, _ := sv.ConsPubKey()
			if seen[sv.OperatorAddress] || seen[string(pk.Bytes())] || sv.OperatorAddress == w.Ops[0].Val.String() || sv.OperatorAddress == w.Ops[1].Val.String() ||
				pk.Equals(w.PubKey(0)) || pk.Equals(w.PubKey(1)) {
				continue
			}
			seen[sv.OperatorAddress] = true
			seen[string(pk.Bytes())] = true
			recs = append(recs, poa.ConvertStakingToPOA(sv))
		}
		bz, err := cdc.MarshalJSON(&poa.GenesisState{Vals: recs})
		if err != nil {
			bad++
			fmt.Fprintf(out, "CONVBAD genesis marshal (4) %v\n", err)
			return
		}
		gen5 := gen
		gen5.PoaGenesis = bz
		node5, _, err := NewNode(w, gen5)
		if err != nil {
			bad++
			fmt.Fprintf(out, "CONVBAD genesis import of populated pending records: %v\n", err)
			return
		}
		defer node5.Close()
		o5 := node5.ExecBlock(Block{DtNs: 1_000_000_000}, nil)
		// a second fresh chain from the same genesis: the same application hash after the first block (what InitGenesis
		// stores depends on the genesis file only)
		if node5b, _, err := NewNode(w, gen5); err != nil {
			bad++
			fmt.Fprintf(out, "CONVBAD second import of the same genesis: %v\n", err)
		} else {
			o5b := node5b.ExecBlock(Block{DtNs: 1_000_000_000}, nil)
			if o5.RawResp == nil || o5b.RawResp == nil || string(o5.RawResp.AppHash) != string(o5b.RawResp.AppHash) {
				bad++
				fmt.Fprintf(out, "CONVBAD two fresh chains importing the same genesis (populated pending records) differ in their application hash after block 1\n")
			}
			node5b.Close()
		}
		b, err := node5.App.POAKeeper.GetPendingValidators(node5.Ctx())
		if err != nil || len(b.Validators) != len(recs) {
			bad++
			fmt.Fprintf(out, "CONVBAD genesis import of populated pending records: %v, %d entries\n", err, len(b.Validators))
			return
		}
		for i, want := range recs {
			got := b.Validators[i]
			_ = got.UnpackInterfaces(cdc)
			_ = want.UnpackInterfaces(cdc)
			x, y := reflect.ValueOf(normStaking(poa.ConvertPOAToStaking(want))), reflect.ValueOf(normStaking(poa.ConvertPOAToStaking(got)))
			for _, f := range fields {
				if f == "ConsensusPubkey" {
					continue
				}
				if fx, fy := x.FieldByName(f).Interface(), y.FieldByName(f).Interface(); !reflect.DeepEqual(fx, fy) && fmt.Sprint(fx) != fmt.Sprint(fy) {
					bad++
					fmt.Fprintf(out, "CONVBAD imported pending record %d field %s: %v != %v\n", i, f, fx, fy)
				}
			}
			// admission
			ctx, _ := node5.Ctx().CacheContext()
			if err := node5.App.POAKeeper.AcceptNewValidator(ctx, want.OperatorAddress, 1_000_000); err != nil {
				bad++
				fmt.Fprintf(out, "CONVBAD admission of imported pending record %d failed: %v\n", i, err)
				continue
			}
			va, _ := sdk.ValAddressFromBech32(want.OperatorAddress)
			stored, err := node5.App.StakingKeeper.GetValidator(ctx, va)
			if err != nil {
				bad++
				fmt.Fprintf(out, "CONVBAD admission of imported pending record %d: no x/staking record: %v\n", i, err)
				continue
			}
			z := reflect.ValueOf(normStaking(stored))
			for _, f := range fields {
				if f == "ConsensusPubkey" {
					continue
				}
				if fx, fz := x.FieldByName(f).Interface(), z.FieldByName(f).Interface(); !reflect.DeepEqual(fx, fz) && fmt.Sprint(fx) != fmt.Sprint(fz) {
					bad++
					fmt.Fprintf(out, "CONVBAD admitted record %d differs from the stored application in field %s: %v != %v\n", i, f, fx, fz)
				}
			}
			pa, e1 := poa.ConvertPOAToStaking(want).ConsPubKey()
			pb, e2 := stored.ConsPubKey()
			if e1 != nil || e2 != nil || !pa.Equals(pb) {
				bad++
				fmt.Fprintf(out, "CONVBAD admitted record %d: consensus key differs from the stored application\n", i)
			}
			wr, sr := want.Commission.CommissionRates, stored.Commission.CommissionRates
			if !wr.Rate.Equal(sr.Rate) || !wr.MaxRate.Equal(sr.MaxRate) || !wr.MaxChangeRate.Equal(sr.MaxChangeRate) {
				bad++
				fmt.Fprintf(out, "CONVBAD admitted record %d: commission rates differ from the stored application\n", i)
			}
			if after, err := node5.App.POAKeeper.GetPendingValidators(ctx); err != nil || len(after.Validators) != len(recs)-1 {
				bad++
				fmt.Fprintf(out, "CONVBAD admission of record %d did not move exactly that application out of the list\n", i)
			}
		}
	}()
	// a PoS-style genesis: an ordinary account holds a delegation to a genesis validator.  Holding a delegation gives no
	// authority over the validator: RemoveValidator from the delegator (neither the admin nor the validator's operator) is
	// refused and nothing moves; the operator's own removal still works.
	func() {
		defer func() {
			if e := recover(); e != nil {
				bad++
				fmt.Fprintf(out, "CONVBAD delegator probe panicked: %v\n", e)
			}
		}()
		gen6 := gen
		gen6.ForeignDel = true
		gen6.Vals = []GVal{{0, 0, 5_000_000}, {1, 1, 7_000_000}, {2, 2, 6_000_000}}
		node6, _, err := NewNode(w, gen6)
		if err != nil {
			bad++
			fmt.Fprintf(out, "CONVBAD delegator probe: genesis %v\n", err)
			return
		}
		defer node6.Close()
		node6.ExecBlock(Block{DtNs: 1_000_000_000}, nil)
		node6.ExecBlock(Block{DtNs: 1_000_000_000}, nil)
		before, _ := node6.App.StakingKeeper.GetValidator(node6.Ctx(), w.Ops[0].Val)
		o := node6.ExecBlock(Block{DtNs: 1_000_000_000, Txs: []Tx{{Signer: -2, Msgs: []Msg{{Kind: "REMOVE", Args: []string{"0"}}}}}}, nil)
		after, _ := node6.App.StakingKeeper.GetValidator(node6.Ctx(), w.Ops[0].Val)
		if len(o.Txs) != 1 || o.Txs[0].Code == 0 {
			bad++
			fmt.Fprintf(out, "CONVBAD RemoveValidator sent by a mere delegator of the validator was accepted\n")
		}
		if !before.Tokens.Equal(after.Tokens) || len(o.Updates) != 0 {
			bad++
			fmt.Fprintf(out, "CONVBAD refused RemoveValidator of a delegator moved the validator: tokens %s -> %s, %d updates\n", before.Tokens, after.Tokens, len(o.Updates))
		}
		o2 := node6.ExecBlock(Block{DtNs: 1_000_000_000, Txs: []Tx{{Signer: 1, Msgs: []Msg{{Kind: "REMOVE", Args: []string{"1"}}}}}}, nil)
		if len(o2.Txs) != 1 || o2.Txs[0].Code != 0 {
			bad++
			fmt.Fprintf(out, "CONVBAD the operator's own RemoveValidator was refused on a genesis with a foreign delegation\n")
		}
		// the admin's SetPower on the validator that carries the foreign delegation: tokens and shares are the requested
		// amount exactly, the voting power is amount / 10^6
		o3 := node6.ExecBlock(Block{DtNs: 1_000_000_000, Txs: []Tx{{Signer: -1, Msgs: []Msg{{Kind: "SETPOWER", Args: []string{"0", "8000000", "1"}}}}}}, nil)
		v0, _ := node6.App.StakingKeeper.GetValidator(node6.Ctx(), w.Ops[0].Val)
		if len(o3.Txs) != 1 || o3.Txs[0].Code != 0 {
			bad++
			fmt.Fprintf(out, "CONVBAD SetPower on a validator with a foreign delegation failed: %s\n", o3.Txs[0].Log)
		} else if !v0.Tokens.Equal(sdkmath.NewInt(8_000_000)) || !v0.DelegatorShares.Equal(sdkmath.LegacyNewDec(8_000_000)) {
			bad++
			fmt.Fprintf(out, "CONVBAD SetPower(8000000) on a validator with a foreign delegation left tokens %s shares %s\n", v0.Tokens, v0.DelegatorShares)
		}
	}()
	// a PoA genesis whose pending list overlaps the validator set (an application filed under the operator of a genesis
	// validator, next to an ordinary one): whatever one thinks of such a genesis, the pending query answers with the
	// committed list — every entry, in order — and asking changes nothing: list, query and export agree before and after
	func() {
		defer func() {
			if e := recover(); e != nil {
				bad++
				fmt.Fprintf(out, "CONVBAD overlapping-genesis probe panicked: %v\n", e)
			}
		}()
		mk := func(op, key int) poa.Validator {
			pkAny, _ := codectypes.NewAnyWithValue(w.PubKey(key))
			sv := stakingtypes.Validator{OperatorAddress: w.Ops[op].Val.String(), ConsensusPubkey: pkAny, Status: stakingtypes.Unbonded, Tokens: sdkmath.ZeroInt(),
				DelegatorShares: sdkmath.LegacyZeroDec(), Description: stakingtypes.NewDescription("x", "", "", "", ""), UnbondingTime: time.Unix(0, 0).UTC(),
				Commission:      stakingtypes.NewCommission(sdkmath.LegacyNewDecWithPrec(2, 1), sdkmath.LegacyNewDecWithPrec(5, 1), sdkmath.LegacyNewDecWithPrec(1, 1)),
				MinSelfDelegation: sdkmath.OneInt()}
			return poa.ConvertStakingToPOA(sv)
		}
		bz, err := cdc.MarshalJSON(&poa.GenesisState{Vals: []poa.Validator{mk(0, 7), mk(4, 4)}})
		if err != nil {
			bad++
			fmt.Fprintf(out, "CONVBAD genesis marshal (5) %v\n", err)
			return
		}
		gen7 := gen
		gen7.PoaGenesis = bz
		node7, _, err := NewNode(w, gen7)
		if err != nil {
			bad++
			fmt.Fprintf(out, "CONVBAD overlapping genesis import: %v\n", err)
			return
		}
		defer node7.Close()
		node7.ExecBlock(Block{DtNs: 1_000_000_000}, nil)
		stored := func() int {
			v, err := node7.App.POAKeeper.PendingValidators.Get(node7.Ctx())
			if err != nil {
				return -1
			}
			return len(v.Validators)
		}
		before := stored()
		var res poa.PendingValidatorsResponse
		qerr := node7.routedQuery("/strangelove_ventures.poa.v1.Query/PendingValidators", &poa.QueryPendingValidatorsRequest{}, &res)
		if before != 2 || qerr != nil || len(res.Pending) != before {
			bad++
			fmt.Fprintf(out, "CONVBAD the pending query (%d entries, err %v) differs from the committed list (%d entries) after a genesis import\n", len(res.Pending), qerr, before)
		}
		ctxq, _ := node7.Ctx().CacheContext()
		if _, err := node7.App.POAKeeper.GetPendingValidators(ctxq); err == nil {
			if v, err := node7.App.POAKeeper.PendingValidators.Get(ctxq); err != nil || len(v.Validators) != before {
				bad++
				fmt.Fprintf(out, "CONVBAD reading the pending list changed the stored list\n")
			}
		}
		if exp := node7.App.POAKeeper.ExportGenesis(node7.Ctx()); len(exp.Vals) != before {
			bad++
			fmt.Fprintf(out, "CONVBAD genesis export (%d entries) differs from the committed list (%d)\n", len(exp.Vals), before)
		}
		node7.ExecBlock(Block{DtNs: 1_000_000_000}, nil)
		if stored() != before {
			bad++
			fmt.Fprintf(out, "CONVBAD the committed pending list changed without any message\n")
		}
	}()
	fmt.Fprintf(out, "CONV records=%d bad=%d\n", n, bad)
	return bad
}


func pureMain(w *World, args []string) {
	sub := args[0]
	seed := uint64(1)
	n := 1000
	opsPath, obsPath := "pure.ops", "pure.obs"
	for i := 1; i+1 < len(args); i += 2 {
		switch args[i] {
		case "-seed":
			fmt.Sscan(args[i+1], &seed)
		case "-n":
			fmt.Sscan(args[i+1], &n)
		case "-ops":
			opsPath = args[i+1]
		case "-obs":
			obsPath = args[i+1]
		}
	}
	of, _ := os.Create(opsPath)
	bf, _ := os.Create(obsPath)
	ow, bw := bufio.NewWriter(of), bufio.NewWriter(bf)
	defer func() { ow.Flush(); bw.Flush(); of.Close(); bf.Close() }()
	switch sub {
	case "ante":
		anteStream(w, seed, n, ow, bw)
	case "validate":
		validateStream(w, seed, n, ow, bw)
	case "convert":
		bad := convertStream(w, seed, n, bw)
		if bad > 0 {
			ow.Flush()
			bw.Flush()
			os.Exit(1)
		}
	}
}
