import PoaVerif.Model.Trig
import PoaVerif.Model.Pre
import PoaVerif.Model.Quiet
import PoaVerif.Facts
/-
  Line-protocol driver: reads operation lines (Tie B protocol, DESIGN.md appendix A) on stdin,
  runs the model, prints canonical observation lines on stdout.
-/
open PoaVerif

def NOPS : Nat := 10

structure PState where
  lines : Array String
  pos : Nat
  /-- the history's PoA admin is the x/gov account (`ADMIN gov`): the account of the environment override (signer -1) is
      then an ordinary account — modelled as the operator account of a validator that never exists -/
  govAdmin : Bool := false

abbrev P := StateT PState (ExceptT String IO)

def nextLine : P (List String) := do
  let st ← get
  let mut i := st.pos
  while i < st.lines.size do
    let l := st.lines[i]!.trimAscii.toString
    i := i + 1
    if l.isEmpty || l.startsWith "#" then continue
    set { st with pos := i }
    return (l.splitOn " ").filter (· ≠ "")
  set { st with pos := i }
  return []

def pInt (s : String) : P Int :=
  match s.toInt? with
  | some v => pure v
  | none => throw s!"bad int {s}"

def pNat (s : String) : P Nat :=
  match s.toNat? with
  | some v => pure v
  | none => throw s!"bad nat {s}"

def pTarget (s : String) : P (Option Nat) := do
  let v ← pInt s
  pure (if v < 0 then none else some v.toNat)

def pSigner (s : String) : P Signer := do
  let v ← pInt s
  let st ← get
  pure (if v = -1 then (if st.govAdmin then .op 999999 else .admin) else if v = -2 then .user else .op v.toNat)

partial def pMsg : P Msg := do
  let f ← nextLine
  match f with
  | ["M", "SETPOWER", t, p, u] => pure (.setPower (← pTarget t) (← pNat p) (u == "1"))
  | ["M", "REMOVE", t] => pure (.remove (← pTarget t))
  | ["M", "RMPENDING", t] => pure (.rmPending (← pTarget t))
  | ["M", "CREATE", op, key, l0, l1, l2, l3, l4, r, mr, mc, ms] =>
    let k ← pInt key
    pure (.create { op := ← pNat op, key := if k < 0 then none else some k.toNat,
                    lens := [← pNat l0, ← pNat l1, ← pNat l2, ← pNat l3, ← pNat l4],
                    rate := ← pInt r, maxRate := ← pInt mr, maxChange := ← pInt mc, minSelf := ← pInt ms })
  | ["M", "PARAMS", ub, mv, me, hi, dn, mc] =>
    pure (.params { unbond := ← pInt ub, maxVals := ← pInt mv, maxEntries := ← pInt me, hist := ← pInt hi,
                    denom := ← pNat dn, minComm := ← pInt mc })
  | ["M", "UNJAIL", op] => pure (.unjail (← pNat op))
  | ["M", "EDIT", op, r] =>
    if r == "nil" then pure (.edit (← pNat op) none)
    else
      let rv ← pInt r
      pure (.edit (← pNat op) (some rv))
  | ["M", "STAKING", k] => pure (.staking (← pNat k))
  | ["M", "WITHDRAW"] => pure .withdraw
  | ["M", "OTHER"] => pure .other
  | ["M", "VOTE", _] => pure (.govProp [])      -- a vote on a governance proposal: no modelled state, outcome not modelled
  | ["M", kind, n] =>
    let cnt ← pNat n
    let mut subs : List Msg := []
    for _ in [0:cnt] do
      subs := subs ++ [← pMsg]
    match kind with
    | "EXEC" => pure (.exec subs)
    | "GROUPPROP" => pure (.groupProp subs)
    | "GOVPROP" => pure (.govProp subs)
    | "GOVSUB" => pure (.govProp subs)           -- a proposal whose messages are sent by the gov account itself
    | _ => throw s!"bad wrapper {kind}"
  | _ => throw s!"bad msg line {f}"

def pBlock (dt nv nt : String) (ne : String := "0") (ng : String := "0") : P Block := do
  let dt ← pInt dt
  let nv ← pNat nv
  let nt ← pNat nt
  let ne ← pNat ne
  let ng ← pNat ng
  let mut votes : List App.Vote := []
  for _ in [0:nv] do
    match ← nextLine with
    | ["VOTE", k, p, a] => votes := votes ++ [{ key := ← pNat k, power := ← pInt p, absent := a == "1" }]
    | l => throw s!"expected VOTE got {l}"
  let mut evid : List App.Evid := []
  for _ in [0:ne] do
    match ← nextLine with
    | ["EVID", k, h, p] => evid := evid ++ [{ key := ← pNat k, height := ← pInt h, power := ← pInt p }]
    | l => throw s!"expected EVID got {l}"
  let mut txs : List Tx := []
  let mut counts : List (Signer × Nat) := []
  for _ in [0:nt] do
    match ← nextLine with
    | ["TX", sg, n] =>
      let signer ← pSigner sg
      let cnt ← pNat n
      let mut msgs : List Msg := []
      for _ in [0:cnt] do
        msgs := msgs ++ [← pMsg]
      let off := App.seqOf counts signer
      counts := App.seqBump counts signer
      txs := txs ++ [{ signer := signer, seqOff := off, msgs := msgs }]
    | l => throw s!"expected TX got {l}"
  let mut gov : List (List Msg) := []
  for _ in [0:ng] do
    match ← nextLine with
    | ["GOV", n] =>
      let cnt ← pNat n
      let mut msgs : List Msg := []
      for _ in [0:cnt] do
        msgs := msgs ++ [← pMsg]
      gov := gov ++ [msgs]
    | l => throw s!"expected GOV got {l}"
  match ← nextLine with
  | ["ENDBLOCK"] =>
    let st ← get
    pure { dt := dt, votes := votes, txs := txs, evid := evid, gov := gov, govIsAdmin := st.govAdmin }
  | l => throw s!"expected ENDBLOCK got {l}"

/-! ### printing -/

def pairs (l : List (Nat × Int)) : String :=
  String.join (l.map (fun (k, p) => s!" {k}:{p}"))

def errStr (e : Err) : String :=
  let sp := match e.space with
    | .poa => "poa" | .sdk => "sdk" | .staking => "staking" | .slashing => "slashing" | .undefined => "undefined"
  s!"{sp}:{e.code}"

def cometErrStr : CometErr → String
  | .duplicate => "duplicate" | .negative => "negative" | .powerTooBig => "power-too-big"
  | .absentRemoval => "absent-removal" | .empty => "empty" | .totalTooBig => "total-too-big"

def optStr (o : Option Int) : String := match o with | some v => toString v | none => "-"

def observe (s : App) : List String :=
  let vals := s.vals.map (fun v =>
    s!"VAL {v.op} {v.key} {v.status.num} {if v.jailed then 1 else 0} {v.tokens} {v.shares} {optStr (alookup v.op s.dels)} {optStr (alookup v.op s.last)} {v.ubTime} {v.ubHeight}")
  let tot := s!"TOT {s.lastTotal} {s.cached} {s.absCh}"
  let idx := "IDX" ++ String.join (s.index.map (fun (p, o) => s!" {p}:{o}"))
  let ubq := "UBQ" ++ String.join (s.ubq.map (fun ((t, h), ops) => s!" {t},{h}:" ++ "+".intercalate (ops.map toString)))
  let pend := "PEND" ++ String.join (s.pending.map (fun p => s!" {p.op}:{p.key}:{p.tokens}:{p.minSelf}:" ++ ",".intercalate (p.info.map toString)))
  let updc := "UPDC" ++ String.join (s.updated.map (fun o => s!" {o}"))
  let pool := s!"POOL {s.bonded} {s.notBonded} {s.supply}"
  let par := s!"PAR {s.params.unbond} {s.params.maxVals} {s.params.maxEntries} {s.params.hist} {s.params.denom} {s.params.minComm}"
  let sigs := s.infos.map (fun (k, i) => s!"SIG {k} {i.start} {i.idx} {i.missed} {i.jailedUntil} {if i.tomb then 1 else 0}")
  let qry := "QRY" ++ String.join (([none] ++ (List.range NOPS).map some).map (fun (t : Option Nat) =>
    let name := match t with | none => "-1" | some op => toString op
    match s.queryPower t with
    | some p => s!" {name}:{p}"
    | none => s!" {name}:err"))
  let pqry := "PQRY" ++ String.join (s.queryPending.map (fun p => s!" {p.op}:{p.key}:{p.tokens}:{p.minSelf}:" ++ ",".intercalate (p.info.map toString)))
  vals ++ [tot, idx, ubq, pend, updc, pool, par] ++ sigs ++ ["AUTH 1", qry, pqry]

def txrStr : TxR → String
  | .ok => "ok" | .err e => errStr e | .unknown => "?"

def theEnv : Env := genEnv

def trigName : TrigId → String
  | .D1 => "D1" | .D2 => "D2" | .D3 => "D3" | .D4 => "D4" | .D5 => "D5" | .D6 => "D6" | .D7 => "D7"
  | .D8 => "D8" | .D9a => "D9a" | .D9b => "D9b" | .D16 => "D16"

/-- re-run the block's transactions, reporting the triggers met by the successful ones -/
def trigLines (env : Env) (s0 : App) (b : Block) : List String := Id.run do
  let s1 := { s0 with height := s0.height + 1, time := s0.time + b.dt }
  let s2a := match App.slashingBegin b.votes s1 with | .ok s => s | .error _ => s1
  let s2 := match App.evidenceBegin b.evid s2a with | .ok s => s | .error _ => s2a
  let mut s := match App.poaBegin env.lim s2 with | .ok s => s | .error _ => s2
  let mut incs : List (Signer × Nat) := []
  let mut res : List String := if Trig.lastValidatorJailed s1 s2 then ["TRIG -1 D16"] else []
  let mut i := 0
  match App.beforeEnd env s0 b with
  | .ok (_, sp) => if Trig.zeroShadow sp then res := res ++ ["TRIG -1 D6"]
  | .error _ => pure ()
  for tx in b.txs do
    let pre := s
    let r := App.runTx env s incs tx
    s := r.2.1
    incs := r.2.2
    if r.1 == TxR.ok then
      let t := (Trig.ofList env.lim pre tx.signer tx.msgs).1.eraseDups
      if !t.isEmpty then
        res := res ++ [s!"TRIG {i}" ++ String.join (t.map (fun x => " " ++ trigName x))]
    i := i + 1
  -- the proposals x/gov executes at the end of the block: numbered after the block's transactions
  for ms in b.gov do
    let pre := s
    match App.handleList env.lim s (App.govSigner b) ms with
    | .ok s' =>
      s := s'
      let t := (Trig.ofList env.lim pre (App.govSigner b) ms).1.eraseDups
      if !t.isEmpty then
        res := res ++ [s!"TRIG {i}" ++ String.join (t.map (fun x => " " ++ trigName x))]
    | _ => pure ()
    i := i + 1
  return res

def out (l : String) : P Unit := do
  (IO.println l : IO Unit)

/-- run the blocks of one history, printing as we go -/
partial def runBlocks (s : App) (set : CSet) (halted : Bool) : P Unit := do
  match ← nextLine with
  | ["END"] => out "END"
  | ["RESTART"] => runBlocks s set halted
  | ["ADMIN", a] =>
    modify (fun st => { st with govAdmin := a == "gov" })
    runBlocks s set halted
  | "BLOCK" :: dt :: nv :: nt :: rest =>
    let b ← pBlock dt nv nt (rest.headD "0") ((rest.drop 1).headD "0")
    if halted then runBlocks s set halted
    else
      let h := s.height + 1
      match App.block theEnv s b with
      | .error hk =>
        out s!"H {h}"
        for t in trigLines theEnv s b do out t
        let pre := match App.beforeEnd theEnv s b with | .ok (_, sp) => Pre sp set | .error _ => false
        out s!"PRE {if pre then 1 else 0}"
        out s!"QUIET {if App.quietBlockB s set b then 1 else 0}"
        out s!"QUIET2 {if App.quietBlock2B s set b then 1 else 0}"
        out s!"QUIET3 {if App.quietBlock3B s set b then 1 else 0}"
        out "STEP 0"
        out (match hk with | .panic => "HALT panic" | .error => "HALT error")
        runBlocks s set true
      | .ok (bo, s') =>
        out s!"H {h}"
        let mut i := 0
        for r in bo.txrs do
          -- results beyond the block's transactions are those of the proposals x/gov executed
          if i < b.txs.length then out s!"TXR {i} {txrStr r}"
          else out s!"TXR {i} {if r == TxR.ok then "ok" else "govfail"}"
          i := i + 1
        for t in trigLines theEnv s b do out t
        out ("UPD" ++ pairs bo.updates)
        let pre := match App.beforeEnd theEnv s b with | .ok (_, sp) => Pre sp set | .error _ => false
        out s!"PRE {if pre then 1 else 0}"
        out s!"QUIET {if App.quietBlockB s set b then 1 else 0}"
        out s!"QUIET2 {if App.quietBlock2B s set b then 1 else 0}"
        out s!"QUIET3 {if App.quietBlock3B s set b then 1 else 0}"
        match Comet.applyChangeSet set bo.updates with
        | .error ce =>
          out s!"STEP 0"
          out s!"HALT comet:{cometErrStr ce}"
          runBlocks s' set true
        | .ok set' =>
          out s!"STEP {if stepAgrees set' s' then 1 else 0}"
          out ("COMET" ++ pairs set')
          for l in observe s' do out l
          runBlocks s' set' false
  | l => throw s!"unexpected line {l}"

partial def runAll : P Unit := do
  match ← nextLine with
  | [] => pure ()
  | ["GENESIS", mv, ub, w, ms, jn, sd, mc, n] =>
    modify (fun st => { st with govAdmin := false })
    let cnt ← pNat n
    let mut vals : List GVal := []
    for _ in [0:cnt] do
      match ← nextLine with
      | ["GVAL", op, key, tok] => vals := vals ++ [{ op := ← pNat op, key := ← pNat key, tokens := ← pNat tok }]
      | l => throw s!"expected GVAL got {l}"
    let g : Genesis := { maxVals := ← pNat mv, unbond := ← pInt ub, window := ← pInt w, minSigned := ← pInt ms,
                         jailNs := ← pInt jn, slashDown := ← pInt sd, minComm := ← pInt mc, vals := vals }
    out "H 0"
    out s!"WF {if g.wf then 1 else 0}"
    match App.initChain g with
    | .error _ =>
      out "HALT error"
      runBlocks App.emptyApp [] true
    | .ok (ups, s) =>
      out ("UPD" ++ pairs ups)
      match Comet.applyChangeSet [] ups with
      | .error ce =>
        out s!"HALT comet:{cometErrStr ce}"
        runBlocks s [] true
      | .ok set =>
        out ("COMET" ++ pairs set)
        runBlocks s set false
    runAll
  | ["ANTE", h, dg, fl, ce, n] =>
    let cnt ← pNat n
    let mut msgs : List Msg := []
    for _ in [0:cnt] do
      msgs := msgs ++ [← pMsg]
    let height ← pInt h
    let cfg : LimiterCfg := { doGenTx := dg == "1", floor := ← pInt fl, ceil := ← pInt ce }
    let f := theEnv.ante
    let cls (o : Option Err) : String := match o with | none => "pass" | some e => errStr e
    out s!"AR {cls (Ante.stakingDecorator f height msgs)} {cls (Ante.withdrawDecorator f height msgs)} {cls (Ante.commissionDecorator f cfg height msgs)}"
    runAll
  | ["VC", a, b, c] =>
    let r := App.validateCommission (← pInt a) (← pInt b) (← pInt c)
    let cls := match r with | none => "pass" | some e => errStr e
    out s!"VCR {cls} {cls}"
    runAll
  | ["VD", l0, l1, l2, l3, l4] =>
    let ok := App.lensOk [← pNat l0, ← pNat l1, ← pNat l2, ← pNat l3, ← pNat l4] App.maxLens
    let cls := if ok then "pass" else errStr Err.invalidRequest
    out s!"VDR {cls} {cls}"
    runAll
  | ["VS", t, p] =>
    let r := App.validateSetPower theEnv.lim (← pTarget t) (← pNat p)
    out s!"VSR {match r with | none => "pass" | some e => errStr e}"
    runAll
  | ["VP", ub, mv, me, hi, dn, mc] =>
    let ok := App.paramsValid { unbond := ← pInt ub, maxVals := ← pInt mv, maxEntries := ← pInt me, hist := ← pInt hi, denom := ← pNat dn, minComm := ← pInt mc }
    out s!"VPR {if ok then "ok" else "err"}"
    runAll
  | ["VM", op, key, l0, l1, l2, l3, l4, r, mr, mc, ms] =>
    let k ← pInt key
    let c : CreateArgs := { op := ← pNat op, key := if k < 0 then none else some k.toNat,
                            lens := [← pNat l0, ← pNat l1, ← pNat l2, ← pNat l3, ← pNat l4],
                            rate := ← pInt r, maxRate := ← pInt mr, maxChange := ← pInt mc, minSelf := ← pInt ms }
    let cls := match App.validateCreate c with | none => "pass" | some e => errStr e
    out s!"VMR {cls} {cls}"
    runAll
  | l => throw s!"unexpected top-level line {l}"


/-! ### certificate mode: print a history as Lean definitions with one `decide`-checked equation per step
    (`poamodel --lean Name < history.ops > PoaVerif/Witness/Name.lean`) -/

def lInt (i : Int) : String := if i < 0 then s!"({i})" else toString i
def lBool (b : Bool) : String := if b then "true" else "false"
def lList (xs : List String) : String := "[" ++ ", ".intercalate xs ++ "]"
def lOptNat (o : Option Nat) : String := match o with | some n => s!"(some {n})" | none => "none"
def lOptInt (o : Option Int) : String := match o with | some n => s!"(some {lInt n})" | none => "none"
def lStatus : Status → String
  | .unbonded => "Status.unbonded" | .unbonding => "Status.unbonding" | .bonded => "Status.bonded"
def lVal (v : Val) : String :=
  s!"⟨{v.op}, {v.key}, {lBool v.jailed}, {lStatus v.status}, {v.tokens}, {lInt v.shares}, {lInt v.ubTime}, {lInt v.ubHeight}, {lInt v.minSelf}⟩"
def lPairNI (p : Nat × Int) : String := s!"({p.1}, {lInt p.2})"
def lPairNN (p : Nat × Nat) : String := s!"({p.1}, {p.2})"
def lInfo (i : SignInfo) : String := s!"⟨{lInt i.start}, {lInt i.idx}, {lInt i.missed}, {lInt i.jailedUntil}, {lBool i.tomb}⟩"
def lPending (p : Pending) : String := s!"⟨{p.op}, {p.key}, {p.tokens}, {lInt p.minSelf}, {lList (p.info.map lInt)}⟩"
def lApp (s : App) : String :=
  "{ vals := " ++ lList (s.vals.map lVal) ++ ",\n    dels := " ++ lList (s.dels.map lPairNI) ++ ", last := " ++ lList (s.last.map lPairNI) ++
  s!", lastTotal := {lInt s.lastTotal},\n    index := " ++ lList (s.index.map lPairNN) ++
  ", ubq := " ++ lList (s.ubq.map (fun ((t, h), ops) => s!"(({lInt t}, {lInt h}), {lList (ops.map toString)})")) ++
  ", cons := " ++ lList (s.cons.map lPairNN) ++
  s!",\n    params := ⟨{lInt s.params.unbond}, {s.params.maxVals}, {s.params.maxEntries}, {s.params.hist}, {s.params.denom}, {lInt s.params.minComm}⟩" ++
  s!", bonded := {lInt s.bonded}, notBonded := {lInt s.notBonded}, supply := {lInt s.supply},\n    infos := " ++
  lList (s.infos.map (fun (k, i) => s!"({k}, {lInfo i})")) ++ ", bitmap := " ++ lList (s.bitmap.map (fun (k, l) => s!"({k}, {lList (l.map toString)})")) ++
  s!",\n    window := {lInt s.window}, minSigned := {lInt s.minSigned}, jailNs := {lInt s.jailNs}, slashDown := {lInt s.slashDown},\n    pending := " ++
  lList (s.pending.map lPending) ++ ", updated := " ++ lList (s.updated.map toString) ++
  s!", cached := {s.cached}, absCh := {s.absCh}, height := {lInt s.height}, time := {lInt s.time} }"

def lSigner : Signer → String
  | .admin => "Signer.admin" | .user => "Signer.user" | .op n => s!"(Signer.op {n})"

partial def lMsg : Msg → String
  | .setPower t p u => s!"Msg.setPower {lOptNat t} {p} {lBool u}"
  | .remove t => s!"Msg.remove {lOptNat t}"
  | .rmPending t => s!"Msg.rmPending {lOptNat t}"
  | .create c => s!"Msg.create ⟨{c.op}, {lOptNat c.key}, {lList (c.lens.map toString)}, {lInt c.rate}, {lInt c.maxRate}, {lInt c.maxChange}, {lInt c.minSelf}⟩"
  | .params p => s!"Msg.params ⟨{lInt p.unbond}, {lInt p.maxVals}, {lInt p.maxEntries}, {lInt p.hist}, {p.denom}, {lInt p.minComm}⟩"
  | .unjail op => s!"Msg.unjail {op}"
  | .edit op r => s!"Msg.edit {op} {lOptInt r}"
  | .staking k => s!"Msg.staking {k}"
  | .withdraw => "Msg.withdraw"
  | .other => "Msg.other"
  | .exec ms => s!"Msg.exec {lList (ms.map lMsg)}"
  | .groupProp ms => s!"Msg.groupProp {lList (ms.map lMsg)}"
  | .govProp ms => s!"Msg.govProp {lList (ms.map lMsg)}"

def lBlock (b : Block) : String :=
  s!"⟨{lInt b.dt}, " ++ lList (b.votes.map (fun v => s!"⟨{v.key}, {lInt v.power}, {lBool v.absent}⟩")) ++ ", " ++
  lList (b.txs.map (fun t => s!"⟨{lSigner t.signer}, {t.seqOff}, {lList (t.msgs.map lMsg)}⟩")) ++ ", " ++
  lList (b.evid.map (fun e => s!"⟨{e.key}, {lInt e.height}, {lInt e.power}⟩")) ++ ", " ++
  lList (b.gov.map (fun ms => lList (ms.map lMsg))) ++ ", " ++ lBool b.govIsAdmin ++ "⟩"

def lErr (e : Err) : String :=
  let sp := match e.space with
    | .poa => "Space.poa" | .sdk => "Space.sdk" | .staking => "Space.staking" | .slashing => "Space.slashing" | .undefined => "Space.undefined"
  s!"⟨{sp}, {e.code}⟩"
def lTxR : TxR → String
  | .ok => "TxR.ok" | .err e => s!"TxR.err {lErr e}" | .unknown => "TxR.unknown"
def lOut (o : BlockOut) : String := s!"⟨{lList (o.txrs.map lTxR)}, {lList (o.updates.map lPairNI)}⟩"
def lCometErr : CometErr → String
  | .duplicate => "CometErr.duplicate" | .negative => "CometErr.negative" | .powerTooBig => "CometErr.powerTooBig"
  | .absentRemoval => "CometErr.absentRemoval" | .empty => "CometErr.empty" | .totalTooBig => "CometErr.totalTooBig"

partial def skipToEnd : P Unit := do
  match ← nextLine with
  | ["END"] => pure ()
  | [] => pure ()
  | _ => skipToEnd

partial def certBlocks (name : String) (i : Nat) (s : App) (set : CSet) (acc : List String) : P (List String × String × Nat × Nat) := do
  match ← nextLine with
  | ["END"] => pure (acc, "RunEnd.done", i - 1, i - 1)
  | ["RESTART"] => certBlocks name i s set acc
  | ["ADMIN", a] =>
    modify (fun st => { st with govAdmin := a == "gov" })
    certBlocks name i s set acc
  | "BLOCK" :: dt :: nv :: nt :: rest =>
    let b ← pBlock dt nv nt (rest.headD "0") ((rest.drop 1).headD "0")
    let acc := acc ++ [s!"def b{i} : Block := {lBlock b}"]
    match App.block theEnv s b with
    | .error hk =>
      let hs := match hk with | .panic => "Halt.panic" | .error => "Halt.error"
      let acc := acc ++ [s!"theorem step{i} : App.block genEnv s{i-1} b{i} = .error {hs} := by decide"]
      -- consume the rest
      skipToEnd
      pure (acc, s!"RunEnd.halted {hs}", i - 1, i)
    | .ok (bo, s') =>
      let acc := acc ++ [s!"def o{i} : BlockOut := {lOut bo}", s!"def s{i} : App :=\n  {lApp s'}",
        s!"set_option maxHeartbeats 4000000 in\ntheorem step{i} : App.block genEnv s{i-1} b{i} = .ok (o{i}, s{i}) := by decide"]
      match Comet.applyChangeSet set bo.updates with
      | .error ce =>
        let acc := acc ++ [s!"theorem comet{i} : Comet.applyChangeSet c{i-1} o{i}.updates = .error {lCometErr ce} := by decide"]
        skipToEnd
        pure (acc, s!"RunEnd.rejected {lCometErr ce}", i - 1, i)
      | .ok set' =>
        let acc := acc ++ [s!"def c{i} : CSet := {lList (set'.map lPairNI)}",
          s!"theorem comet{i} : Comet.applyChangeSet c{i-1} o{i}.updates = .ok c{i} := by decide"]
        certBlocks name (i+1) s' set' acc
  | l => throw s!"unexpected line {l}"

def certMain (name : String) : P Unit := do
  match ← nextLine with
  | ["GENESIS", mv, ub, w, ms, jn, sd, mc, n] =>
    modify (fun st => { st with govAdmin := false })
    let cnt ← pNat n
    let mut vals : List GVal := []
    for _ in [0:cnt] do
      match ← nextLine with
      | ["GVAL", op, key, tok] => vals := vals ++ [{ op := ← pNat op, key := ← pNat key, tokens := ← pNat tok }]
      | l => throw s!"expected GVAL got {l}"
    let g : Genesis := { maxVals := ← pNat mv, unbond := ← pInt ub, window := ← pInt w, minSigned := ← pInt ms,
                         jailNs := ← pInt jn, slashDown := ← pInt sd, minComm := ← pInt mc, vals := vals }
    out "import PoaVerif.Model.Chain\nimport PoaVerif.Facts"
    out s!"/- GENERATED by `poamodel --lean {name}` from corpus/{name}.ops: the history as Lean terms and one kernel-checked\n   (`decide`) equation per step.  Regenerate with tools/mkwitness.sh after changing the model. -/"
    out s!"namespace PoaVerif.Witness.{name}\nopen PoaVerif\n"
    out (s!"def g : Genesis :=\n  ⟨{g.maxVals}, {lInt g.unbond}, {lInt g.window}, {lInt g.minSigned}, {lInt g.jailNs}, {lInt g.slashDown}, {lInt g.minComm}, " ++
      lList (g.vals.map (fun v => s!"⟨{v.op}, {v.key}, {v.tokens}⟩")) ++ "⟩")
    match App.initChain g with
    | .error _ => throw "genesis fails"
    | .ok (ups, s) =>
      match Comet.applyChangeSet [] ups with
      | .error _ => throw "genesis update list rejected"
      | .ok set =>
        out s!"def u0 : List (Nat × Int) := {lList (ups.map lPairNI)}"
        out s!"def s0 : App :=\n  {lApp s}"
        out s!"def c0 : CSet := {lList (set.map lPairNI)}"
        out "theorem init : App.initChain g = .ok (u0, s0) := by decide"
        out "theorem comet0 : Comet.applyChangeSet [] u0 = .ok c0 := by decide"
        let (lines, fin, nOk, nBlocks) ← certBlocks name 1 s set []
        for l in lines do out l
        out s!"\n/-- how the history ends -/\ndef ending : RunEnd := {fin}"
        let bl := (List.range nBlocks).map (fun k => s!"b{k+1}")
        out s!"def blocks : List Block := {lList bl}"
        let steps := (List.range nOk).map (fun k => s!"⟨o{k+1}, s{k+1}, c{k+1}⟩")
        out s!"def steps : List Step := {lList steps}"
        let lemmas := (List.range nBlocks).map (fun k => s!"step{k+1}") ++ (List.range nOk).map (fun k => s!"comet{k+1}") ++
          (if nOk < nBlocks ∧ fin.startsWith "RunEnd.rejected" then [s!"comet{nBlocks}"] else [])
        out ("/-- the model's run of the whole history -/\ntheorem run_eq : run genEnv g blocks = some (⟨⟨[], u0⟩, s0, c0⟩, steps, ending) := by\n  simp only [run, init, comet0, blocks, steps, ending, runFrom, " ++
          ", ".intercalate lemmas ++ "]")
        out s!"\nend PoaVerif.Witness.{name}"
  | l => throw s!"expected GENESIS got {l}"

def main (args : List String) : IO UInt32 := do
  let stdin ← IO.getStdin
  let mut lines : Array String := #[]
  repeat
    let l ← stdin.getLine
    if l.isEmpty then break
    lines := lines.push l
  let prog : P Unit := match args with
    | ["--lean", name] => certMain name
    | _ => runAll
  match ← (prog.run { lines := lines, pos := 0 }).run with
  | .ok _ => return 0
  | .error e =>
    IO.eprintln s!"driver error: {e}"
    return 2
