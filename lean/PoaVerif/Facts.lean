import PoaVerif.Generated.Facts
import PoaVerif.Model.Ante
/-
  Bridge from the raw facts regenerated from the source (PoaVerif/Generated/Facts.lean, written by
  /verif/extract on every run) to the typed parameters of the model.  The driver runs the model with
  `genEnv`, and the property theorems are stated about `genEnv`, so that they are re-checked against
  what the code says now.
-/
namespace PoaVerif

open Generated

def wrapperOfName : String → Option Wrapper
  | "*authz.MsgExec" => some .authzExec
  | "*group.MsgSubmitProposal" => some .groupProposal
  | "*govv1.MsgSubmitProposal" => some .govProposal
  | _ => none

/-- numbering of `Msg.staking` kinds -/
def stakingKindOfName : String → Option Nat
  | "*stakingtypes.MsgCreateValidator" => some 0
  | "*stakingtypes.MsgDelegate" => some 1
  | "*stakingtypes.MsgUndelegate" => some 2
  | "*stakingtypes.MsgBeginRedelegate" => some 3
  | "*stakingtypes.MsgCancelUnbondingDelegation" => some 4
  | "*stakingtypes.MsgUpdateParams" => some 5
  | _ => none

/-- a gate `if height OP n { pass }`: the largest height that passes (`<= n` → n, `< n` → n-1) -/
def gateBound (g : String × Int) : Int :=
  if g.1 == "<=" then g.2 else if g.1 == "<" then g.2 - 1 else -1

def genAnteFacts : AnteFacts :=
  { unwrapped := anteUnwrapped.filterMap (fun p => wrapperOfName p.1)
    blocked := stakingBlocked.filterMap stakingKindOfName
    gate := gateBound stakingGate
    withdrawGate := gateBound withdrawGate
    commissionGate := gateBound commissionGate }

def genLimiter : LimiterCfg := { doGenTx := limiterDoGenTx, floor := limiterFloorE18, ceil := limiterCeilE18 }

def genLimitFacts : LimitFacts :=
  { mul := limitMul, pct := limitPct, ge := limitCmp == ">=", heightGate := limitHeightGate,
    minPower := if setPowerMinCmp == "<" then setPowerMin else setPowerMin + 1,
    maxInt64 := setPowerMaxInt64Cmp == ">", beginGate := beginResetGate }

def genEnv : Env := { ante := genAnteFacts, limiter := genLimiter, lim := genLimitFacts }

end PoaVerif
