import PoaVerif.Model.Prim
/-
  State of the modelled slice of the application: x/staking, x/slashing, the two pool
  accounts and the bond-denom supply of x/bank, and x/poa's own collections.
-/
namespace PoaVerif

inductive Status where
  | unbonded | unbonding | bonded
  deriving DecidableEq, Repr, Inhabited

def Status.num : Status → Nat
  | .unbonded => 1 | .unbonding => 2 | .bonded => 3

/-- codespaces of ABCI error results -/
inductive Space where
  | poa | sdk | staking | slashing | undefined
  deriving DecidableEq, Repr, Inhabited

structure Err where
  space : Space
  code : Nat
  deriving DecidableEq, Repr, Inhabited

namespace Err
def stakingNotAllowed : Err := ⟨.poa, 1⟩
def powerBelowMin : Err := ⟨.poa, 2⟩
def notAnAuthority : Err := ⟨.poa, 3⟩
def unsafePower : Err := ⟨.poa, 4⟩
def withdrawNotAllowed : Err := ⟨.poa, 5⟩
def invalidAddress : Err := ⟨.sdk, 7⟩
def invalidRequest : Err := ⟨.sdk, 18⟩
def invalidType : Err := ⟨.sdk, 29⟩
def wrongSequence : Err := ⟨.sdk, 32⟩
/-- any error that is not registered (fmt.Errorf, errors.New) -/
def plain : Err := ⟨.undefined, 1⟩
/-- a panic recovered by BaseApp.runTx -/
def panic : Err := ⟨.undefined, 111222⟩
def noValidator : Err := ⟨.staking, 3⟩
def ownerExists : Err := ⟨.staking, 4⟩
def pubKeyExists : Err := ⟨.staking, 5⟩
def pubKeyTypeNotSupported : Err := ⟨.staking, 6⟩
def commissionNegative : Err := ⟨.staking, 9⟩
def commissionHuge : Err := ⟨.staking, 10⟩
def commissionGTMaxRate : Err := ⟨.staking, 11⟩
def commissionChangeRateNegative : Err := ⟨.staking, 13⟩
def commissionChangeRateGTMaxRate : Err := ⟨.staking, 14⟩
def noDelegation : Err := ⟨.staking, 19⟩
def emptyPubKey : Err := ⟨.staking, 39⟩
def commissionLTMinRate : Err := ⟨.staking, 40⟩
def slValidatorJailed : Err := ⟨.slashing, 4⟩
def slValidatorNotJailed : Err := ⟨.slashing, 5⟩
def slSelfDelegationTooLow : Err := ⟨.slashing, 7⟩
end Err

/-- what makes block execution stop (FinalizeBlock returns an error or panics) -/
inductive Halt where
  | panic | error
  deriving DecidableEq, Repr, Inhabited

structure Val where
  op : Nat
  key : Nat
  jailed : Bool
  status : Status
  tokens : Nat
  /-- DelegatorShares, scaled by 10^18 -/
  shares : Int
  ubTime : Int
  ubHeight : Int
  minSelf : Int
  deriving DecidableEq, Repr, Inhabited

structure Params where
  unbond : Int
  maxVals : Nat
  maxEntries : Nat
  hist : Nat
  /-- 0: the chain's bond denom, 1: another valid denom, 2 and above: strings x/staking's denom validation refuses -/
  denom : Nat
  minComm : Int
  deriving DecidableEq, Repr, Inhabited

structure SignInfo where
  start : Int
  idx : Int
  missed : Int
  jailedUntil : Int
  tomb : Bool
  deriving DecidableEq, Repr, Inhabited

structure Pending where
  op : Nat
  key : Nat
  tokens : Nat
  minSelf : Int
  /-- description lengths (5) and commission rates (3), as submitted -/
  info : List Int
  deriving DecidableEq, Repr, Inhabited

structure App where
  -- x/staking
  vals : List Val
  dels : List (Nat × Int)
  last : List (Nat × Int)
  lastTotal : Int
  index : List (Nat × Nat)
  ubq : List ((Int × Int) × List Nat)
  cons : List (Nat × Nat)
  params : Params
  -- x/bank (bond denom only)
  bonded : Int
  notBonded : Int
  supply : Int
  -- x/slashing
  infos : List (Nat × SignInfo)
  bitmap : List (Nat × List Nat)
  window : Int
  minSigned : Int
  jailNs : Int
  slashDown : Int
  -- x/poa
  pending : List Pending
  updated : List Nat
  cached : Nat
  absCh : Nat
  -- block context
  height : Int
  time : Int
  deriving DecidableEq, Repr, Inhabited

/-! ### facts read from the source tree (Tie A): the model is parametrised by them -/

inductive Wrapper where
  | authzExec | groupProposal | govProposal
  deriving DecidableEq, Repr, Inhabited

structure AnteFacts where
  /-- message types `nestedMsgs` unwraps -/
  unwrapped : List Wrapper
  /-- blocked x/staking kinds (numbering of `Msg.staking`) -/
  blocked : List Nat
  /-- the staking / withdraw decorators let everything through while `height ≤ gate` -/
  gate : Int
  withdrawGate : Int
  commissionGate : Int
  deriving Repr, DecidableEq

/-- limiter configuration (simapp/ante.go) -/
structure LimiterCfg where
  doGenTx : Bool
  floor : Int
  ceil : Int
  deriving Repr, DecidableEq

/-- constants and operators of the 30 % rule, of `MsgSetPower.Validate` and of the BeginBlocker -/
structure LimitFacts where
  mul : Nat
  pct : Nat
  /-- `true`: rejected when `percent ≥ pct`; `false`: when `percent > pct` -/
  ge : Bool
  heightGate : Int
  minPower : Nat
  /-- `true`: powers above MaxInt64 are rejected by Validate -/
  maxInt64 : Bool
  beginGate : Int
  deriving Repr, DecidableEq

structure Env where
  ante : AnteFacts
  limiter : LimiterCfg
  lim : LimitFacts
  deriving Repr, DecidableEq

/-- special time stamps: Go's zero `time.Time{}` and the Unix epoch; block times are `≥ 0` -/
def tZero : Int := -2
def tEpoch : Int := -1

end PoaVerif
