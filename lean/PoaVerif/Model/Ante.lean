import PoaVerif.Model.Msgs
/-
  The three PoA ante decorators (ante/*.go) over message trees.
  `AnteFacts` is what the decorators' source says (which wrapper messages are unwrapped, which
  x/staking message kinds are blocked, the height gates); Tie A regenerates it from the source.
-/
namespace PoaVerif

namespace Ante

/-- the messages carried by a wrapper message, if the decorators unwrap that wrapper -/
def nested (f : AnteFacts) : Msg → Option (List Msg)
  | .exec ms => if f.unwrapped.contains .authzExec then some ms else none
  | .groupProp ms => if f.unwrapped.contains .groupProposal then some ms else none
  | .govProp ms => if f.unwrapped.contains .govProposal then some ms else none
  | _ => none

def isBlockedLeaf (f : AnteFacts) : Msg → Bool
  | .staking k => f.blocked.contains k
  | _ => false

def isWithdrawLeaf : Msg → Bool
  | .withdraw => true
  | _ => false

mutual
/-- `hasInvalidStakingMsg`: `true` = returns ErrStakingActionNotAllowed -/
def stakingWalk (f : AnteFacts) : Msg → Bool
  | .exec ms => (f.unwrapped.contains .authzExec && stakingWalkList f ms)
  | .groupProp ms => (f.unwrapped.contains .groupProposal && stakingWalkList f ms)
  | .govProp ms => (f.unwrapped.contains .govProposal && stakingWalkList f ms)
  | .staking k => f.blocked.contains k
  | _ => false
def stakingWalkList (f : AnteFacts) : List Msg → Bool
  | [] => false
  | m :: ms => stakingWalk f m || stakingWalkList f ms
end

mutual
/-- `hasWithdrawDelegatorRewardsMsg` -/
def withdrawWalk (f : AnteFacts) : Msg → Bool
  | .exec ms => (f.unwrapped.contains .authzExec && withdrawWalkList f ms)
  | .groupProp ms => (f.unwrapped.contains .groupProposal && withdrawWalkList f ms)
  | .govProp ms => (f.unwrapped.contains .govProposal && withdrawWalkList f ms)
  | .withdraw => true
  | _ => false
def withdrawWalkList (f : AnteFacts) : List Msg → Bool
  | [] => false
  | m :: ms => withdrawWalk f m || withdrawWalkList f ms
end

/-- `rateCheck`: `true` = error -/
def rateBad (c : LimiterCfg) (r : Int) : Bool :=
  (decide (c.floor = c.ceil) && decide (r ≠ c.floor)) || decide (r > c.ceil) || decide (r < c.floor)

mutual
/-- `hasInvalidCommissionRange`: `true` = returns an error -/
def commissionWalk (f : AnteFacts) (c : LimiterCfg) : Msg → Bool
  | .exec ms => (f.unwrapped.contains .authzExec && commissionWalkList f c ms)
  | .groupProp ms => (f.unwrapped.contains .groupProposal && commissionWalkList f c ms)
  | .govProp ms => (f.unwrapped.contains .govProposal && commissionWalkList f c ms)
  | .create a => rateBad c a.rate
  | .edit _ (some r) => rateBad c r
  | _ => false
def commissionWalkList (f : AnteFacts) (c : LimiterCfg) : List Msg → Bool
  | [] => false
  | m :: ms => commissionWalk f c m || commissionWalkList f c ms
end

def stakingDecorator (f : AnteFacts) (height : Int) (ms : List Msg) : Option Err :=
  if height ≤ f.gate then none
  else if stakingWalkList f ms then some Err.stakingNotAllowed else none

def withdrawDecorator (f : AnteFacts) (height : Int) (ms : List Msg) : Option Err :=
  if height ≤ f.withdrawGate then none
  else if withdrawWalkList f ms then some Err.withdrawNotAllowed else none

def commissionDecorator (f : AnteFacts) (c : LimiterCfg) (height : Int) (ms : List Msg) : Option Err :=
  if !c.doGenTx && height ≤ f.commissionGate then none
  else if commissionWalkList f c ms then some Err.plain else none

/-- the three decorators in the order of simapp/ante.go -/
def run (f : AnteFacts) (c : LimiterCfg) (height : Int) (ms : List Msg) : Option Err :=
  match stakingDecorator f height ms with
  | some e => some e
  | none =>
    match withdrawDecorator f height ms with
    | some e => some e
    | none => commissionDecorator f c height ms

end Ante

/-- facts of the tree the model was first written against (tests and examples only; the driver and
    the theorems use `PoaVerif.Generated`) -/
def defaultAnteFacts : AnteFacts :=
  { unwrapped := [.authzExec, .groupProposal, .govProposal], blocked := [0, 1, 2, 3, 4, 5], gate := 1, withdrawGate := 1, commissionGate := 1 }

def simappLimiter : LimiterCfg := { doGenTx := false, floor := 100000000000000000, ceil := 500000000000000000 }

def defaultLimitFacts : LimitFacts :=
  { mul := 100, pct := 30, ge := true, heightGate := 1, minPower := 1000000, maxInt64 := true, beginGate := 1 }

def defaultEnv : Env := { ante := defaultAnteFacts, limiter := simappLimiter, lim := defaultLimitFacts }

end PoaVerif
