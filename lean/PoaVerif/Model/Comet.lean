import PoaVerif.Model.Prim
/-
  CometBFT v0.38.10's judgement of a validator-update list
  (types/validator_set.go: processChanges, verifyRemovals, verifyUpdates; state/execution.go:
  validateValidatorUpdates).
-/
namespace PoaVerif

inductive CometErr where
  | duplicate | negative | powerTooBig | absentRemoval | empty | totalTooBig
  deriving DecidableEq, Repr, Inhabited

/-- MaxTotalVotingPower = MaxInt64 / 8 -/
def maxTotalPower : Int := 1152921504606846975

abbrev CSet := List (Nat × Int)

namespace Comet

def hasDup : List Nat → Bool
  | [] => false
  | k :: ks => ks.contains k || hasDup ks

def applyOne (set : CSet) (u : Nat × Int) : CSet :=
  if u.2 = 0 then aerase u.1 set else ainsert u.1 u.2 set

def total (set : CSet) : Int := sumInts (set.map (·.2))

def applyChangeSet (set : CSet) (ups : List (Nat × Int)) : Except CometErr CSet :=
  if ups.isEmpty then .ok set
  else if ups.any (fun u => u.2 < 0) then .error .negative
  else if hasDup (ups.map (·.1)) then .error .duplicate
  else if ups.any (fun u => u.2 > maxTotalPower) then .error .powerTooBig
  else
    let removals := (ups.filter (fun u => u.2 = 0)).length
    let fresh := (ups.filter (fun u => u.2 ≠ 0 && !amem u.1 set)).length
    if fresh = 0 && removals = set.length then .error .empty
    else if ups.any (fun u => u.2 = 0 && !amem u.1 set) then .error .absentRemoval
    else
      -- total after the updates and before the removals must not exceed the maximum
      let afterUpdates := (ups.filter (fun u => u.2 ≠ 0)).foldl applyOne set
      if total afterUpdates > maxTotalPower then .error .totalTooBig
      else .ok (ups.foldl applyOne set)

end Comet
end PoaVerif
