/-
  Primitive layer: constants, 64-bit wrap-around, LegacyDec rounding, association lists,
  the ordered power index.  Core Lean only (this file is imported by the compiled driver).
-/
namespace PoaVerif

/-- x/staking's power reduction (DefaultPowerReduction): 10^6 tokens per unit of voting power. -/
def PR : Nat := 1000000

/-- LegacyDec precision: 10^18. -/
def E18 : Int := 1000000000000000000

def U64 : Nat := 18446744073709551616
def I63 : Nat := 9223372036854775808

/-- Go's `int64(x)` for an unsigned 64-bit `x`. -/
def toInt64 (x : Nat) : Int :=
  let y := x % U64
  if y < I63 then (y : Int) else (y : Int) - (U64 : Int)

/-- Go's `uint64(x)` for a signed 64-bit `x`. -/
def toUInt64 (x : Int) : Nat := (x % (U64 : Int)).toNat

/-- Consensus power of a token amount: `tokens / 10^6` (math.Int.Quo truncates toward zero). -/
def powerOfInt (t : Int) : Int := Int.tdiv t (PR : Int)

def powerOf (t : Nat) : Nat := t / PR

/-- `chopPrecisionAndRound`: divide a 10^18-scaled big integer by 10^18 with banker's rounding. -/
def chopRoundNat (d : Nat) : Nat :=
  let q := d / 1000000000000000000
  let r := d % 1000000000000000000
  if r = 0 then q
  else if r < 500000000000000000 then q
  else if r > 500000000000000000 then q + 1
  else if q % 2 = 0 then q else q + 1

def chopRound (d : Int) : Int :=
  if d < 0 then - (chopRoundNat d.natAbs : Int) else (chopRoundNat d.natAbs : Int)

/-- `LegacyDec.Quo` on 10^18-scaled integers (caller guarantees `b ≠ 0`; Go panics otherwise). -/
def decQuo (a b : Int) : Int := chopRound (Int.tdiv (a * E18 * E18) b)

/-- `LegacyDec.TruncateInt`. -/
def decTrunc (a : Int) : Int := Int.tdiv a E18

/-- `LegacyDec.RoundInt`. -/
def decRound (a : Int) : Int := chopRound a

/-! ### association lists keyed by `Nat`, kept in ascending key order -/

def alookup {α : Type} (k : Nat) : List (Nat × α) → Option α
  | [] => none
  | (k', v) :: xs => if k' = k then some v else alookup k xs

def ainsert {α : Type} (k : Nat) (v : α) : List (Nat × α) → List (Nat × α)
  | [] => [(k, v)]
  | (k', v') :: xs =>
    if k' = k then (k, v) :: xs
    else if k < k' then (k, v) :: (k', v') :: xs
    else (k', v') :: ainsert k v xs

def aerase {α : Type} (k : Nat) : List (Nat × α) → List (Nat × α)
  | [] => []
  | (k', v') :: xs => if k' = k then aerase k xs else (k', v') :: aerase k xs

def amem {α : Type} (k : Nat) (l : List (Nat × α)) : Bool := (alookup k l).isSome

/-! ### sorted sets of `Nat` -/

def sinsert (k : Nat) : List Nat → List Nat
  | [] => [k]
  | x :: xs => if x = k then x :: xs else if k < x then k :: x :: xs else x :: sinsert k xs

/-! ### the validator power index: entries `(power, operator)` in x/staking's iteration order
    (descending power, then ascending operator address) -/

def idxBefore (a b : Nat × Nat) : Bool := decide (a.1 > b.1) || (decide (a.1 = b.1) && decide (a.2 < b.2))

def idxInsert (e : Nat × Nat) : List (Nat × Nat) → List (Nat × Nat)
  | [] => [e]
  | x :: xs =>
    if x = e then x :: xs
    else if idxBefore e x then e :: x :: xs
    else x :: idxInsert e xs

def idxErase (e : Nat × Nat) (l : List (Nat × Nat)) : List (Nat × Nat) := l.filter (fun x => x != e)

instance instDecEqExcept {ε α : Type} [DecidableEq ε] [DecidableEq α] : DecidableEq (Except ε α)
  | .ok a, .ok b => if h : a = b then isTrue (by rw [h]) else isFalse (fun e => h (by cases e; rfl))
  | .error a, .error b => if h : a = b then isTrue (by rw [h]) else isFalse (fun e => h (by cases e; rfl))
  | .ok _, .error _ => isFalse (fun e => by cases e)
  | .error _, .ok _ => isFalse (fun e => by cases e)

def sumInts (l : List Int) : Int := l.foldl (· + ·) 0

end PoaVerif
