import PoaVerif.Model.Chain
/-
  Trigger predicates of the known defect classes D1–D9 (DESIGN.md §3.2): decidable conditions on
  the state a message meets.  A history in which none fires is "inside the envelope".
-/
namespace PoaVerif

inductive TrigId where
  | D1 | D2 | D3 | D4 | D5 | D6 | D7 | D8 | D9a | D9b | D16
  deriving DecidableEq, Repr, Inhabited

namespace Trig

def entriesOf (s : App) (op : Nat) : List Nat := (s.index.filter (fun e => e.2 == op)).map (·.1)

/-- pool imbalance met by `UpdateBondedPoolPower` -/
def imbalance (s : App) : Bool :=
  sumInts (s.dels.map (fun d => decRound d.2)) != s.bonded

def staleEntry (s : App) (v : Val) : Bool :=
  (entriesOf s v.op).any (fun p => p != powerOf v.tokens)

/-- state entering x/staking's EndBlocker: an un-jailed zero-power record owns a `(0, r)` entry that sorts before a
    `(0, w)` entry a live validator `w` still needs (its only entries, or the second visit of a validator updated
    in this block): the loop's `break` hides `w` -/
def zeroShadow (s : App) : Bool :=
  s.vals.any (fun r => r.tokens < PR && !r.jailed && (entriesOf s r.op).contains 0 &&
    s.vals.any (fun w => w.tokens ≥ PR && !w.jailed && r.op < w.op && (entriesOf s w.op).contains 0 &&
      ((entriesOf s w.op).all (· == 0) || s.updated.contains w.op)))

/-- the entries a validator keeps after the next BeginBlocker (which deletes the entry at the
    current power of every validator updated in this block) -/
def persistentEntries (s : App) (w : Val) : List Nat :=
  if s.updated.contains w.op then (entriesOf s w.op).filter (· != powerOf w.tokens) else entriesOf s w.op

def ofSetPower (s : App) (op : Nat) (power : Nat) : List TrigId :=
  match s.getVal op with
  | none =>
    -- admission of a pending validator (or an unknown target, which fails)
    (if imbalance s then [TrigId.D9b] else []) ++
    (if (s.pendingFind op).isSome then
       [TrigId.D8] ++ (if s.vals.any (fun r => r.tokens < PR && !r.jailed && r.op < op) then [TrigId.D6] else []) ++
       (if s.index.length + 2 > s.params.maxVals then [TrigId.D7] else [])
     else [])
  | some v =>
    let p := power / PR
    (if (entriesOf s op).contains p && (p : Int) != s.lastPower op then [TrigId.D1] else []) ++
    (if s.updated.contains op then [TrigId.D3] else []) ++
    (if v.jailed || v.status != .bonded || powerOf v.tokens = 0 then [TrigId.D4] else []) ++
    (if s.index.length + 1 > s.params.maxVals then [TrigId.D7] else []) ++
    [TrigId.D8] ++
    (if power < v.tokens then [TrigId.D9a] else []) ++
    (if imbalance s then [TrigId.D9b] else [])

def ofRemove (s : App) (op : Nat) : List TrigId :=
  match s.getVal op with
  | none => if imbalance s then [TrigId.D9b] else []
  | some v =>
    (if (entriesOf s op).any (fun p => p != powerOf v.tokens && p != 0) then [TrigId.D2] else []) ++
    (if s.updated.contains op then [TrigId.D3] else []) ++
    (if s.vals.any (fun w => w.tokens ≥ PR && !w.jailed && op < w.op && (persistentEntries s w).all (· == 0)) then [TrigId.D6] else []) ++
    (if imbalance s then [TrigId.D9b] else [])

def ofUnjail (s : App) (op : Nat) : List TrigId :=
  match s.getVal op with
  | none => []
  | some v => if staleEntry s v then [TrigId.D5] else []

/-- triggers a single (non-wrapper) message meets in state `s` -/
def ofLeaf (s : App) (sg : Signer) : Msg → List TrigId
  | .setPower (some op) p _ => if App.isAdmin sg then ofSetPower s op p else []
  | .remove (some op) => if App.isAdmin sg || sg = .op op then ofRemove s op else []
  | .rmPending _ => if App.isAdmin sg && imbalance s then [.D9b] else []
  | .create _ => if imbalance s then [.D9b] else []
  | .params p => if App.isAdmin sg && App.paramsValid p && p.maxVals.toNat < s.index.length then [.D7] else []
  | .unjail op => if sg = .op op then ofUnjail s op else []
  | _ => []

/-- D16 (x/slashing, not PoA): the downtime rule jails the last active validator — the set becomes empty.
    Evaluated on the states before and after x/slashing's BeginBlocker. -/
def lastValidatorJailed (before after : App) : Bool :=
  (before.vals.filter App.isActive).length ≥ 1 && (after.vals.filter App.isActive).length = 0

mutual
/-- triggers met while executing a message tree (state threaded like `handle`) -/
def ofMsg (lf : LimitFacts) (s : App) (sg : Signer) : Msg → List TrigId × Option App
  | .exec ms => ofList lf s sg ms
  | m =>
    let t := ofLeaf s sg m
    match App.handle lf s sg m with
    | .ok s' => (t, some s')
    | _ => (t, none)
def ofList (lf : LimitFacts) (s : App) (sg : Signer) : List Msg → List TrigId × Option App
  | [] => ([], some s)
  | m :: ms =>
    match ofMsg lf s sg m with
    | (t, some s') => let r := ofList lf s' sg ms; (t ++ r.1, r.2)
    | (t, none) => (t, none)
end

end Trig
end PoaVerif
