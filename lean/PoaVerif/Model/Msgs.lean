import PoaVerif.Model.Poa
/-
  Messages (as trees: authz exec, group and gov proposals carry other messages) and the five
  PoA handlers of keeper/msg_server.go, in the same mutate-then-check order as the Go code.
-/
namespace PoaVerif

inductive Signer where
  | admin | user | op (n : Nat)
  deriving DecidableEq, Repr, Inhabited

structure CreateArgs where
  /-- operator (the signer of the message) -/
  op : Nat
  /-- consensus key id; `none`: no public key in the message; ids ≥ 100 are secp256k1 keys, which
      the chain's consensus parameters do not allow -/
  key : Option Nat
  lens : List Nat        -- moniker, identity, website, security contact, details
  rate : Int
  maxRate : Int
  maxChange : Int
  minSelf : Int
  deriving DecidableEq, Repr, Inhabited

structure ParamArgs where
  unbond : Int
  maxVals : Int
  maxEntries : Int
  hist : Int
  denom : Nat
  minComm : Int
  deriving DecidableEq, Repr, Inhabited

inductive Msg where
  | setPower (target : Option Nat) (power : Nat) (unsafeFlag : Bool)
  | remove (target : Option Nat)
  | rmPending (target : Option Nat)
  | create (c : CreateArgs)
  | params (p : ParamArgs)
  | unjail (op : Nat)
  | edit (op : Nat) (rate : Option Int)
  /-- one of the six blocked x/staking messages (0 CreateValidator, 1 Delegate, 2 Undelegate,
      3 BeginRedelegate, 4 CancelUnbondingDelegation, 5 UpdateParams) -/
  | staking (kind : Nat)
  | withdraw
  | other
  | exec (ms : List Msg)
  | groupProp (ms : List Msg)
  | govProp (ms : List Msg)
  deriving Repr, Inhabited

namespace App

def isAdmin (sg : Signer) : Bool := sg == .admin

/-! ### validation (validation.go), on lengths and 10^18-scaled decimals -/

def maxLens : List Nat := [70, 3000, 140, 140, 280]

/-- `CommissionRates.Validate` -/
def validateCommission (rate maxRate maxChange : Int) : Option Err :=
  if maxRate < 0 then some Err.commissionNegative
  else if maxRate > E18 then some Err.commissionHuge
  else if rate < 0 then some Err.commissionNegative
  else if rate > maxRate then some Err.commissionGTMaxRate
  else if maxChange < 0 then some Err.commissionChangeRateNegative
  else if maxChange > maxRate then some Err.commissionChangeRateGTMaxRate
  else none

def lensOk : List Nat → List Nat → Bool
  | l :: ls, m :: ms => decide (l ≤ m) && lensOk ls ms
  | _, _ => true

/-- `MsgCreateValidator.Validate` (the address decodes: it is the signer) -/
def validateCreate (c : CreateArgs) : Option Err :=
  if c.key.isNone then some Err.emptyPubKey
  else if c.lens.all (· == 0) then some Err.invalidRequest
  else validateCommission c.rate c.maxRate c.maxChange

/-- `MsgSetPower.Validate` -/
def validateSetPower (lf : LimitFacts) (target : Option Nat) (power : Nat) : Option Err :=
  if target.isNone then some Err.invalidAddress
  else if power < lf.minPower then some Err.powerBelowMin
  else if lf.maxInt64 && power > 9223372036854775807 then some Err.invalidRequest
  else none

/-! ### handlers -/

/-- `percent := (totalChanged * 100) / cachedPower; percent >= 30` in unsigned 64-bit arithmetic -/
def limitExceeded (lf : LimitFacts) (absCh cached : Nat) : Bool :=
  if lf.ge then decide (((absCh * lf.mul) % U64) / cached ≥ lf.pct) else decide (((absCh * lf.mul) % U64) / cached > lf.pct)

/-- the 30 % check after the power was applied -/
def limitCheck (lf : LimitFacts) (s : App) (unsafeFlag : Bool) : Except Err App :=
  if !unsafeFlag && s.height > lf.heightGate then
    if s.cached = 0 then .error Err.unsafePower
    else if limitExceeded lf s.absCh s.cached then .error Err.unsafePower
    else .ok s.updateBondedPool
  else .ok s.updateBondedPool

/-- "Accept a validator into the active set if they are pending approval" -/
def admitIfPending (s : App) (target : Option Nat) : App :=
  match target with
  | some op =>
    (match s.pendingFind op with
     | some p => s.acceptNew p
     | none => s)
  | none => s

/-- `SetPower` after the authority check and `Validate` -/
def setPowerCore (lf : LimitFacts) (s : App) (target : Option Nat) (power : Nat) (unsafeFlag : Bool) : Except Err App :=
  match (s.admitIfPending target).setPOAPower target (toInt64 power) with
  | .error e => .error e
  | .ok s2 => limitCheck lf s2 unsafeFlag

def setPowerMsg (lf : LimitFacts) (s : App) (sg : Signer) (target : Option Nat) (power : Nat) (unsafeFlag : Bool) : Except Err App :=
  if !isAdmin sg then .error Err.notAnAuthority
  else
    match validateSetPower lf target power with
    | some e => .error e
    | none => setPowerCore lf s target power unsafeFlag

def isActive (v : Val) : Bool := v.status == .bonded && !v.jailed && decide (powerOf v.tokens > 0)

def clearSlashingInfo (s : App) (key : Nat) : App :=
  let s := s.delBitmap key
  s.setInfo key { start := 0, idx := 0, missed := 0, jailedUntil := tZero, tomb := false }

/-- `RemoveValidator` after the permission check -/
def removeCore (s : App) (target : Option Nat) : Except Err App :=
  if s.vals.length = 1 then .error Err.plain
  else
    match target with
    | none => .error Err.invalidRequest            -- no record has a malformed operator address
    | some op =>
      match s.getVal op with
      | none => .error Err.invalidRequest
      | some v =>
        if v.status != .bonded then .error Err.invalidRequest
        else
          let active := (s.vals.filter isActive).length
          if isActive v && active ≤ 1 then .error Err.plain
          else
            match s.setPOAPower target 0 with
            | .error e => .error e
            | .ok s => .ok (s.clearSlashingInfo v.key).updateBondedPool

def removeMsg (s : App) (sg : Signer) (target : Option Nat) : Except Err App :=
  if isAdmin sg then s.removeCore target
  else
    -- IsSenderValidator: the sender decodes (it signed); the target must decode too
    match target with
    | none => .error Err.invalidAddress
    | some op => if sg = .op op then s.removeCore target else .error Err.notAnAuthority

def rmPendingMsg (s : App) (sg : Signer) (target : Option Nat) : Except Err App :=
  if !isAdmin sg then .error Err.notAnAuthority
  else
    match target with
    | none => .ok { s with pending := s.pending }   -- no entry has a malformed address: list rewritten unchanged
    | some op => .ok (s.removePending op)

/-- first pending entry clashing with the new application: operator first, then key -/
def pendingClash (op key : Nat) : List Pending → Option Err
  | [] => none
  | p :: ps => if p.op = op then some Err.ownerExists else if p.key = key then some Err.pubKeyExists else pendingClash op key ps

def createMsg (s : App) (sg : Signer) (c : CreateArgs) : Except Err App :=
  if sg != .op c.op then .error Err.invalidAddress      -- not generated: the operator is the signer
  else
    match validateCreate c with
    | some e => .error e
    | none =>
      if c.rate < s.params.minComm then .error Err.commissionLTMinRate
      else if (s.getVal c.op).isSome then .error Err.ownerExists
      else
        match c.key with
        | none => .error Err.invalidType
        | some key =>
          if (s.valByKey key).isSome then .error Err.pubKeyExists
          else
            match pendingClash c.op key s.pending with
            | some e => .error e
            | none =>
              if !lensOk c.lens maxLens then .error Err.invalidRequest
              else if key ≥ 100 then .error Err.pubKeyTypeNotSupported
              else
                let p : Pending := { op := c.op, key := key, tokens := 0, minSelf := 1,
                                     info := c.lens.map (fun (n : Nat) => (n : Int)) ++ [c.rate, c.maxRate, c.maxChange] }
                .ok ({ s with pending := s.pending ++ [p] }).updateBondedPool

/-- x/staking `Params.Validate` on the six fields -/
def paramsValid (p : ParamArgs) : Bool :=
  decide (p.unbond > 0) && decide (p.maxVals > 0) && decide (p.maxEntries > 0) && decide (p.hist ≥ 0) &&
  decide (p.denom < 2) && decide (p.minComm ≥ 0) && decide (p.minComm ≤ E18)

def paramsMsg (s : App) (sg : Signer) (p : ParamArgs) : Except Err App :=
  if !isAdmin sg then .error Err.notAnAuthority
  else if !paramsValid p then .error Err.plain
  else .ok { s with params := { unbond := p.unbond, maxVals := p.maxVals.toNat, maxEntries := p.maxEntries.toNat,
                                hist := p.hist.toNat, denom := p.denom, minComm := p.minComm } }

def liftE (r : Except Err App) : MsgR :=
  match r with
  | .ok s => .ok s
  | .error e => .err e

mutual
/-- one message through the message router -/
def handle (lf : LimitFacts) (s : App) (sg : Signer) : Msg → MsgR
  | .setPower t p u => liftE (setPowerMsg lf s sg t p u)
  | .remove t => liftE (s.removeMsg sg t)
  | .rmPending t => liftE (s.rmPendingMsg sg t)
  | .create c => liftE (s.createMsg sg c)
  | .params p => liftE (s.paramsMsg sg p)
  | .unjail op => if sg = .op op then s.unjailMsg op else .unknown
  | .edit _ _ => .unknown
  | .staking _ => .unknown
  | .withdraw => .unknown
  | .other => .ok s            -- a small bank transfer from a funded signer: succeeds, no modelled state
  | .exec ms => handleList lf s sg ms    -- authz: granter = grantee for every inner message
  | .groupProp _ => .unknown
  | .govProp _ => .unknown
/-- messages in order; the first failure aborts -/
def handleList (lf : LimitFacts) (s : App) (sg : Signer) : List Msg → MsgR
  | [] => .ok s
  | m :: ms =>
    match handle lf s sg m with
    | .ok s' => handleList lf s' sg ms
    | .err e => .err e
    | .unknown => .unknown
end

end App
end PoaVerif
