import PoaVerif.Model.Pre
import PoaVerif.Facts
/-
  Decidable description of a *quiet* block and history: applications (CreateValidator, RemovePending), admissions and
  power adjustments (SetPower), rejected transactions — (the hypotheses of the envelope theorem of
  Lemmas/Quiet.lean), evaluated by the driver on every explored history (`QUIET` lines).  Definitions only.
-/
namespace PoaVerif
namespace App

/-- the state after the three BeginBlockers -/
def beginState (env : Env) (s : App) (b : Block) : Except Halt App :=
  match slashingBegin b.votes { s with height := s.height + 1, time := s.time + b.dt } with
  | .error h => .error h
  | .ok s1 =>
    match evidenceBegin b.evid s1 with
    | .error h => .error h
    | .ok s1 => poaBegin env.lim s1

/-- Boolean forms, evaluated by the driver on every explored history -/
def fitsB (s : App) (c : CSet) : Bool :=
  decide (s.index.length ≤ s.params.maxVals) && decide (Comet.total c + idxPow s s.index ≤ maxTotalPower) &&
  decide (0 ≤ s.lastTotal) && decide (s.lastTotal ≤ maxTotalPower)

def quietTxB (s : App) (incs : List (Signer × Nat)) (tx : Tx) : Bool :=
  decide ((runTx genEnv s incs tx).2.1 = s) ||
  match tx.signer, tx.msgs with
  | .admin, [.setPower (some op) p _] =>
    (runTx genEnv s incs tx).1 != TxR.ok || (s.pendingFind op).isSome ||
      (!s.updated.contains op && !s.index.contains (p / PR, op))
  | _, [.create _] => true
  | _, [.rmPending _] => true
  | _, [.params _] => true
  | _, _ => false

def quietTxsB : List Tx → App → List (Signer × Nat) → Bool
  | [], _, _ => true
  | tx :: rest, s, incs => quietTxB s incs tx && quietTxsB rest (runTx genEnv s incs tx).2.1 (runTx genEnv s incs tx).2.2

def quietBlockB (s : App) (c : CSet) (b : Block) : Bool :=
  (match slashingBegin b.votes { s with height := s.height + 1, time := s.time + b.dt } with
   | .ok s1 =>
     -- x/slashing's BeginBlocker punished nobody: nothing but signing infos and bitmaps changed
     decide (s1 = { s with height := s.height + 1, time := s.time + b.dt, infos := s1.infos, bitmap := s1.bitmap }) &&
     s.vals.all (fun v => (alookup v.key s1.infos).isSome)
   | .error _ => false) && b.evid.isEmpty && b.gov.isEmpty &&
  (match beginState genEnv s b with
   | .ok s2 => quietTxsB b.txs s2 [] && fitsB (runTxs genEnv b.txs s2 [] []).2 c
   | .error _ => true)

def quietRunB : List Block → App → CSet → Bool
  | [], _, _ => true
  | b :: bs, s, c =>
    quietBlockB s c b &&
    (match block genEnv s b with
     | .ok (o, s') =>
       (match Comet.applyChangeSet c o.updates with
        | .ok c' => quietRunB bs s' c'
        | .error _ => true)
     | .error _ => true)


/-! ### the wider class: removals, and punishments by x/slashing and x/evidence, included (hypotheses of the envelope theorem
    of Lemmas/Quiet2) -/

def fits2B (s : App) (c : CSet) : Bool :=
  decide ((s.index.filter (fun e => match s.getVal e.2 with | some v => cand v | none => false)).length ≤ s.params.maxVals) && noShadow s s.index && decide (Comet.total c + idxPow s s.index ≤ maxTotalPower) &&
  decide (0 ≤ s.lastTotal) && decide (s.lastTotal ≤ maxTotalPower) &&
  decide (sumF nbTok s.vals ≤ s.notBonded) && decide (sumF bTok s.vals ≤ s.bonded)

def isActiveB (v : Val) : Bool :=
  v.status == .bonded && !v.jailed && decide (powerOf v.tokens > 0) && decide (v.shares ≠ 0)

/-- the shape of what the punishing BeginBlockers (x/slashing, x/evidence) did: `s0` the state with the new height and
    time, `s1` the state after them -/
def punShapeB (s0 s1 : App) : Bool :=
  decide (s1.vals.map (·.op) = s0.vals.map (·.op)) &&
  s0.vals.all (fun v => match s1.getVal v.op with
    | some w => decide (w.key = v.key) &&
        (decide (w = v) || (isActiveB v && !s0.updated.contains v.op && w.jailed && decide (w.shares ≠ 0) && w.status == .bonded))
    | none => false) &&
  s0.vals.any (fun v => isActiveB v && decide (s1.getVal v.op = some v)) &&
  decide (s1.last = s0.last) && decide (s1.ubq = s0.ubq) && decide (s1.cons = s0.cons) && decide (s1.pending = s0.pending) &&
  decide (s1.updated = s0.updated) && decide (s1.params.unbond = s0.params.unbond) && decide (s1.lastTotal = s0.lastTotal) &&
  s1.index.all (fun e => s0.index.contains e) && decide (s1.index.Nodup) &&
  s0.vals.all (fun v => if s1.getVal v.op = some v then decide (occ v.op s1.index = occ v.op s0.index) else true) &&
  s0.index.all (fun e => if s1.getVal e.2 = s0.getVal e.2 then s1.index.contains e else true) &&
  s1.vals.all (fun w => !w.jailed || decide (occ w.op s1.index = 0)) &&
  s1.vals.all (fun w => (alookup w.key s1.infos).isSome)

def quietTx2B (s : App) (incs : List (Signer × Nat)) (tx : Tx) : Bool :=
  match tx.signer, tx.msgs with
  | .admin, [.setPower (some op) p _] =>
    (runTx genEnv s incs tx).1 != TxR.ok || (s.pendingFind op).isSome ||
      ((match s.getVal op with | some v => decide (powerOf v.tokens > 0) && !v.jailed | none => true) &&
        !s.updated.contains op && !s.index.contains (p / PR, op))
  | _, [.remove (some op)] =>
    (runTx genEnv s incs tx).1 != TxR.ok ||
      (match s.getVal op with
       | some v => decide (powerOf v.tokens > 0) && !v.jailed && !s.updated.contains op && s.index.contains (powerOf v.tokens, op)
       | none => false)
  | _, [.create _] => true
  | _, [.rmPending _] => true
  | _, [.params _] => true
  | _, _ => decide ((runTx genEnv s incs tx).2.1 = s)

def quietTxs2B : List Tx → App → List (Signer × Nat) → Bool
  | [], _, _ => true
  | tx :: rest, s, incs => quietTx2B s incs tx && quietTxs2B rest (runTx genEnv s incs tx).2.1 (runTx genEnv s incs tx).2.2

/-- the state after x/slashing's and x/evidence's BeginBlockers -/
def punishState (s : App) (b : Block) : Except Halt App :=
  match slashingBegin b.votes { s with height := s.height + 1, time := s.time + b.dt } with
  | .error h => .error h
  | .ok s1 => evidenceBegin b.evid s1

def quietBlock2B (s : App) (c : CSet) (b : Block) : Bool :=
  (match punishState s b with
   | .ok s1 => punShapeB { s with height := s.height + 1, time := s.time + b.dt } s1
   | .error _ => false) && b.gov.isEmpty &&
  (match beginState genEnv s b with
   | .ok s2 => quietTxs2B b.txs s2 [] && fits2B (runTxs genEnv b.txs s2 [] []).2 c
   | .error _ => true)

/-! ### the same class with the admin's operations arriving through governance: proposals executed by x/gov's EndBlocker
    (the default configuration: the admin is the gov account) -/

/-- the state after x/gov executed one proposal: its messages all or nothing -/
def govStep (s : App) (sg : Signer) (ms : List Msg) : App :=
  match handleList genLimitFacts s sg ms with
  | .ok s' => s'
  | _ => s

def govOk (s : App) (sg : Signer) (ms : List Msg) : Bool :=
  match handleList genLimitFacts s sg ms with
  | .ok _ => true
  | _ => false

def handleOk (s : App) (sg : Signer) (m : Msg) : Bool :=
  match handle genLimitFacts s sg m with
  | .ok _ => true
  | _ => false

/-- one message of the wider quiet class, judged at the state it meets (the conditions of `quietTx2B`) -/
def quietMsg1B (s : App) (sg : Signer) (m : Msg) : Bool :=
  match sg, m with
  | .admin, .setPower (some op) p _ =>
    !handleOk s sg m || (s.pendingFind op).isSome ||
      ((match s.getVal op with | some v => decide (powerOf v.tokens > 0) && !v.jailed | none => true) &&
        !s.updated.contains op && !s.index.contains (p / PR, op))
  | _, .remove (some op) =>
    !handleOk s sg m ||
      (match s.getVal op with
       | some v => decide (powerOf v.tokens > 0) && !v.jailed && !s.updated.contains op && s.index.contains (powerOf v.tokens, op)
       | none => false)
  | _, .create _ => true
  | _, .rmPending _ => true
  | _, .params _ => true
  | _, _ => (match handle genLimitFacts s sg m with | .ok s' => decide (s' = s) | _ => true)

/-- a list of messages executed in order, each judged at the state the earlier ones left (while they succeed) -/
def quietMsgListB : App → Signer → List Msg → Bool
  | _, _, [] => true
  | s, sg, m :: rest =>
    quietMsg1B s sg m && (match handle genLimitFacts s sg m with | .ok s' => quietMsgListB s' sg rest | _ => true)

/-- the messages of one executed proposal: all or nothing -/
def quietMsgs2B (s : App) (sg : Signer) (ms : List Msg) : Bool :=
  !govOk s sg ms || quietMsgListB s sg ms

def quietGov2B (sg : Signer) : List (List Msg) → App → Bool
  | [], _ => true
  | ms :: rest, s => quietMsgs2B s sg ms && quietGov2B sg rest (govStep s sg ms)

/-- a transaction: of the class `quietTx2B`, or failing, or a list of messages of the class -/
def quietTx3B (s : App) (incs : List (Signer × Nat)) (tx : Tx) : Bool :=
  quietTx2B s incs tx || (runTx genEnv s incs tx).1 != TxR.ok || quietMsgListB s tx.signer tx.msgs

def quietTxs3B : List Tx → App → List (Signer × Nat) → Bool
  | [], _, _ => true
  | tx :: rest, s, incs => quietTx3B s incs tx && quietTxs3B rest (runTx genEnv s incs tx).2.1 (runTx genEnv s incs tx).2.2

/-- the state x/gov's EndBlocker leaves -/
def govFold (sg : Signer) : List (List Msg) → App → App
  | [], s => s
  | ms :: rest, s => govFold sg rest (govStep s sg ms)

def quietBlock3B (s : App) (c : CSet) (b : Block) : Bool :=
  (match punishState s b with
   | .ok s1 => punShapeB { s with height := s.height + 1, time := s.time + b.dt } s1
   | .error _ => false) &&
  (match beginState genEnv s b with
   | .ok s2 =>
     quietTxs3B b.txs s2 [] && quietGov2B (govSigner b) b.gov (runTxs genEnv b.txs s2 [] []).2 &&
       fits2B (govFold (govSigner b) b.gov (runTxs genEnv b.txs s2 [] []).2) c
   | .error _ => true)

def quietRun3B : List Block → App → CSet → Bool
  | [], _, _ => true
  | b :: bs, s, c =>
    quietBlock3B s c b &&
    (match block genEnv s b with
     | .ok (o, s') =>
       (match Comet.applyChangeSet c o.updates with
        | .ok c' => quietRun3B bs s' c'
        | .error _ => true)
     | .error _ => true)

def quietRun2B : List Block → App → CSet → Bool
  | [], _, _ => true
  | b :: bs, s, c =>
    quietBlock2B s c b &&
    (match block genEnv s b with
     | .ok (o, s') =>
       (match Comet.applyChangeSet c o.updates with
        | .ok c' => quietRun2B bs s' c'
        | .error _ => true)
     | .error _ => true)

end App
end PoaVerif
