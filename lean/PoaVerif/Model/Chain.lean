import PoaVerif.Model.Ante
import PoaVerif.Model.Comet
/-
  BaseApp: a transaction is all-or-nothing (ante failure writes nothing; message failure keeps only
  what the ante chain wrote, i.e. the sequence); a block is slashing BeginBlock → poa BeginBlock →
  transactions → staking EndBlock.
-/
namespace PoaVerif

structure Tx where
  signer : Signer
  /-- how many earlier transactions of this signer in this block the sequence number assumes passed
      the ante chain -/
  seqOff : Nat
  msgs : List Msg
  deriving Repr, Inhabited

structure Block where
  dt : Int
  votes : List App.Vote
  txs : List Tx
  /-- double-sign evidence delivered with the block -/
  evid : List App.Evid := []
  /-- the message lists of the governance proposals x/gov's EndBlocker executes in this block (passed proposals; the
      messages are sent by the gov account, which is the PoA admin in the default configuration) -/
  gov : List (List Msg) := []
  /-- whether the x/gov account holds the PoA authority in this block (the default configuration) or not (the authority
      was handed to somebody else, e.g. by the environment override): decides what x/gov's messages are allowed to do -/
  govIsAdmin : Bool := true
  deriving Repr, Inhabited

inductive TxR where
  | ok | err (e : Err) | unknown
  deriving Repr, DecidableEq, Inhabited

structure BlockOut where
  txrs : List TxR
  updates : List (Nat × Int)
  deriving Repr, Inhabited, DecidableEq

structure GVal where
  op : Nat
  key : Nat
  tokens : Nat
  deriving Repr, DecidableEq, Inhabited

structure Genesis where
  maxVals : Nat
  unbond : Int
  window : Int
  minSigned : Int
  jailNs : Int
  slashDown : Int
  minComm : Int
  vals : List GVal
  deriving Repr, Inhabited

namespace App

def seqOf (incs : List (Signer × Nat)) (sg : Signer) : Nat :=
  match incs.find? (fun p => p.1 == sg) with
  | some p => p.2
  | none => 0

def seqBump (incs : List (Signer × Nat)) (sg : Signer) : List (Signer × Nat) :=
  (sg, seqOf incs sg + 1) :: incs.filter (fun p => p.1 != sg)

/-- BaseApp.runTx -/
def runTx (env : Env) (s : App) (incs : List (Signer × Nat)) (tx : Tx) : TxR × App × List (Signer × Nat) :=
  if tx.seqOff ≠ seqOf incs tx.signer then (.err Err.wrongSequence, s, incs)
  else
    match Ante.run env.ante env.limiter s.height tx.msgs with
    | some e => (.err e, s, incs)
    | none =>
      let incs := seqBump incs tx.signer
      match handleList env.lim s tx.signer tx.msgs with
      | .ok s' => (.ok, s', incs)
      | .err e => (.err e, s, incs)
      | .unknown => (.unknown, s, incs)

def runTxs (env : Env) : List Tx → App → List (Signer × Nat) → List TxR → List TxR × App
  | [], s, _, acc => (acc, s)
  | tx :: rest, s, incs, acc =>
    let r := runTx env s incs tx
    runTxs env rest r.2.1 r.2.2 (acc ++ [r.1])

/-- x/gov's EndBlocker (it runs before x/poa's and x/staking's): every passed proposal's messages are handed to the message
    router with the gov account — the admin — as sender, all or nothing -/
def runGov (env : Env) (sg : Signer) : List (List Msg) → App → List TxR → List TxR × App
  | [], s, acc => (acc, s)
  | ms :: rest, s, acc =>
    match handleList env.lim s sg ms with
    | .ok s' => runGov env sg rest s' (acc ++ [.ok])
    | _ => runGov env sg rest s (acc ++ [.unknown])

/-- the sender of the messages x/gov executes: the admin, or an account that is nobody's operator -/
def govSigner (b : Block) : Signer := if b.govIsAdmin then .admin else .op 999998

/-- the part of a block before x/staking's EndBlocker: BeginBlockers (slashing, evidence, poa), the transactions, then the
    proposals executed by x/gov's EndBlocker -/
def beforeEnd (env : Env) (s : App) (b : Block) : Except Halt (List TxR × App) :=
  let s := { s with height := s.height + 1, time := s.time + b.dt }
  match slashingBegin b.votes s with
  | .error h => .error h
  | .ok s =>
    match evidenceBegin b.evid s with
    | .error h => .error h
    | .ok s =>
      match poaBegin env.lim s with
      | .error h => .error h
      | .ok s =>
        let r := runTxs env b.txs s [] []
        .ok (runGov env (govSigner b) b.gov r.2 r.1)

/-- one block: BeginBlockers (slashing, poa), transactions, EndBlocker (staking) -/
def block (env : Env) (s : App) (b : Block) : Except Halt (BlockOut × App) :=
  match beforeEnd env s b with
  | .error h => .error h
  | .ok (txrs, s) =>
    match s.stakingEndBlock with
    | .error h => .error h
    | .ok (ups, s) => .ok ({ txrs := txrs, updates := ups }, s)

def emptyApp : App :=
  { vals := [], dels := [], last := [], lastTotal := 0, index := [], ubq := [], cons := [],
    params := { unbond := 0, maxVals := 0, maxEntries := 7, hist := 10000, denom := 0, minComm := 0 },
    bonded := 0, notBonded := 0, supply := 0, infos := [], bitmap := [], window := 0, minSigned := 0,
    jailNs := 0, slashDown := 0, pending := [], updated := [], cached := 0, absCh := 0, height := 0, time := 0 }

def addGenesisVal (s : App) (g : GVal) : App :=
  let v : Val := { op := g.op, key := g.key, jailed := false, status := .bonded, tokens := g.tokens,
                   shares := (g.tokens : Int) * E18, ubTime := tEpoch, ubHeight := 0, minSelf := 1 }
  let s := s.setVal v
  let s := { s with cons := ainsert v.key v.op s.cons }
  let s := s.setIdx v
  let s := { s with dels := ainsert v.op v.shares s.dels }
  let s := { s with bonded := s.bonded + (g.tokens : Int), supply := s.supply + (g.tokens : Int) }
  s.setInfo v.key { start := 0, idx := 0, missed := 0, jailedUntil := tEpoch, tomb := false }

/-- the state x/staking's InitGenesis builds before its first `ApplyAndReturnValidatorSetUpdates` -/
def genesisState (g : Genesis) : App :=
  g.vals.foldl addGenesisVal { emptyApp with
    params := { unbond := g.unbond, maxVals := g.maxVals, maxEntries := 7, hist := 10000, denom := 0, minComm := g.minComm },
    window := g.window, minSigned := g.minSigned, jailNs := g.jailNs, slashDown := g.slashDown }

/-- InitChain: x/staking InitGenesis (bonded validators with self-delegations, then the first
    `ApplyAndReturnValidatorSetUpdates`), x/slashing signing infos, x/poa caches -/
def initChain (g : Genesis) : Except Halt (List (Nat × Int) × App) :=
  match (genesisState g).applyUpdates with
  | .error h => .error h
  | .ok (ups, s) =>
    if s.lastTotal < 0 then .error .panic
    else .ok (ups, { s with cached := s.lastTotal.toNat, absCh := 0 })

end App
end PoaVerif

namespace PoaVerif

/-! ### histories: the application driven block by block, CometBFT applying each block's updates -/

structure Step where
  out : BlockOut
  app : App
  comet : CSet
  deriving Repr, DecidableEq

/-- how a history ends: all blocks executed, block execution failed, or CometBFT refused an update list -/
inductive RunEnd where
  | done | halted (h : Halt) | rejected (e : CometErr)
  deriving Repr, DecidableEq

/-- run blocks from a state and a CometBFT validator set; stops at the first failure -/
def runFrom (env : Env) : App → CSet → List Block → List Step × RunEnd
  | _, _, [] => ([], .done)
  | s, c, b :: bs =>
    match App.block env s b with
    | .error h => ([], .halted h)
    | .ok (o, s') =>
      match Comet.applyChangeSet c o.updates with
      | .error e => ([], .rejected e)
      | .ok c' =>
        let r := runFrom env s' c' bs
        (⟨o, s', c'⟩ :: r.1, r.2)

/-- InitChain, then the blocks -/
def run (env : Env) (g : Genesis) (bs : List Block) : Option (Step × List Step × RunEnd) :=
  match App.initChain g with
  | .error _ => none
  | .ok (u, s) =>
    match Comet.applyChangeSet [] u with
    | .error _ => none
    | .ok c => some (⟨⟨[], u⟩, s, c⟩, runFrom env s c bs)

/-- the PoA consensus-power query: decode the address, require the validator record, read the last power -/
def App.queryPower (s : App) (target : Option Nat) : Option Int :=
  match target with
  | none => none
  | some op =>
    match s.getVal op with
    | none => none
    | some _ => some (s.lastPower op)

/-- the pending-validators query -/
def App.queryPending (s : App) : List Pending := s.pending

end PoaVerif
