import PoaVerif.Model.Slashing
/-
  x/poa keeper: keeper/{poa,keeper,pending,slashing,store}.go and module/abci.go.
-/
namespace PoaVerif
namespace App

/-- `UpdateBondedPoolPower`: mint the shortfall between the sum of all delegation shares and the
    bonded pool; never burns -/
def updateBondedPool (s : App) : App :=
  let newTotal := sumInts (s.dels.map (fun d => decRound d.2))
  if newTotal > s.bonded then
    let diff := newTotal - s.bonded
    { s with bonded := s.bonded + diff, supply := s.supply + diff }
  else s

/-- `updateTotalPower` -/
def updateTotalPower (s : App) : App :=
  let all : Int := sumInts (s.vals.map (fun v => (v.tokens : Int)))
  let s := { s with lastTotal := Int.tdiv all (PR : Int) }
  s.updateBondedPool

/-- `UpdateValidatorSet(newShares, newPower, val)`; `val` is the caller's local copy -/
def updateValidatorSet (s : App) (newShares newPower : Int) (val : Val) : App :=
  let s := { s with dels := ainsert val.op (newShares * E18) s.dels }
  let val := { val with tokens := toUInt64 newShares, shares := newShares * E18, status := .bonded }
  let s := s.setVal val
  let s := s.setLast val.op newPower
  s.updateTotalPower

/-- the removal branch of `SetPOAPower` -/
def poaRemoveBranch (s : App) (val : Val) (currentPower : Int) : Except Err App :=
  match s.slash val.key s.height (currentPower * (PR : Int)) E18 with
  | .err => .error Err.plain
  | .ok s =>
    let s := s.delLast val.op
    let s := s.delIdx val
    .ok (s.delBitmap val.key)

def absDiff (a b : Int) : Nat := (a - b).natAbs

/-- the assignment branch of `SetPOAPower`: pre-write the last power, *add* an index entry at the new
    power, remember the operator for the next BeginBlocker -/
def poaAssignBranch (s : App) (val : Val) (newPower : Int) : App :=
  let s := s.setLast val.op newPower
  let s := s.setIdx val
  { s with updated := sinsert val.op s.updated }

def poaBranch (s : App) (val : Val) (newShares currentPower newPower : Int) : Except Err App :=
  if newShares = 0 && currentPower > 0 then s.poaRemoveBranch val currentPower
  else .ok (s.poaAssignBranch val newPower)

/-- `IncreaseAbsoluteChangedInBlockPower` (unsigned 64-bit addition) -/
def bumpAbs (s : App) (d : Nat) : App := { s with absCh := (s.absCh + d) % U64 }

/-- `SetPOAPower(op, newShares)` once the validator record was found -/
def setPOAPowerVal (s : App) (v : Val) (newShares : Int) : Except Err App :=
  if powerOfInt newShares = s.lastPower v.op then .error Err.plain
  else
    match s.poaBranch { v with tokens := toUInt64 newShares } newShares (s.lastPower v.op) (powerOfInt newShares) with
    | .error e => .error e
    | .ok s1 =>
      .ok ((s1.bumpAbs (absDiff (powerOfInt newShares) (s.lastPower v.op))).updateValidatorSet newShares (powerOfInt newShares)
            { v with tokens := toUInt64 newShares })

/-- `SetPOAPower`; `target = none` is an address that does not decode -/
def setPOAPower (s : App) (target : Option Nat) (newShares : Int) : Except Err App :=
  match target with
  | none => .error Err.plain
  | some op =>
    match s.getVal op with
    | none => .error Err.noValidator
    | some v => s.setPOAPowerVal v newShares

def pendingFind (s : App) (op : Nat) : Option Pending := s.pending.find? (fun p => p.op == op)

def removeFirst (op : Nat) : List Pending → List Pending
  | [] => []
  | p :: ps => if p.op = op then ps else p :: removeFirst op ps

/-- `RemovePendingValidator`: first match by operator address -/
def removePending (s : App) (op : Nat) : App := { s with pending := removeFirst op s.pending }

/-- `AcceptNewValidator` for the pending entry `p` -/
def acceptNew (s : App) (p : Pending) : App :=
  let val : Val := { op := p.op, key := p.key, jailed := false, status := .unbonded, tokens := p.tokens,
                     shares := 0, ubTime := tEpoch, ubHeight := 0, minSelf := p.minSelf }
  -- setValidatorInternals
  let s := s.setVal val
  let s := { s with cons := ainsert val.key val.op s.cons }
  let s := s.setNewIdx val
  let s := s.removePending p.op
  -- setSlashingInfo
  let s := s.setInfo val.key { start := s.height, idx := 0, missed := 0, jailedUntil := s.time, tomb := false }
  s.updateBondedPool

/-- PoA BeginBlocker: prune last block's index entries, refresh the two caches -/
def pruneUpdated : List Nat → App → Except Halt App
  | [], s => .ok s
  | op :: rest, s =>
    match s.getVal op with
    | none => .error .error
    | some v => pruneUpdated rest ((s.delIdx v))

def poaBegin (lf : LimitFacts) (s : App) : Except Halt App :=
  match pruneUpdated s.updated s with
  | .error h => .error h
  | .ok s =>
    let s := { s with updated := [] }
    if s.height > lf.beginGate then
      if s.lastTotal < 0 || s.lastTotal ≥ (U64 : Int) then .error .panic   -- math.Int.Uint64 panics
      else .ok { s with cached := s.lastTotal.toNat, absCh := 0 }
    else .ok s

end App
end PoaVerif
