import PoaVerif.Model.Types
/-
  The slice of x/staking (rollchains/cosmos-sdk v0.50.8) that PoA drives or is driven by.
  Written after x/staking/keeper/{validator,val_state_change,slash}.go.
-/
namespace PoaVerif
namespace App

def getVal (s : App) (op : Nat) : Option Val := s.vals.find? (fun v => v.op == op)

def insertVal (v : Val) : List Val → List Val
  | [] => [v]
  | x :: xs => if x.op = v.op then v :: xs else if v.op < x.op then v :: x :: xs else x :: insertVal v xs

/-- `SetValidator` -/
def setVal (s : App) (v : Val) : App := { s with vals := insertVal v s.vals }

def delVal (s : App) (op : Nat) : App := { s with vals := s.vals.filter (fun v => v.op != op) }

/-- `SetValidatorByPowerIndex`: jailed validators are not written -/
def setIdx (s : App) (v : Val) : App :=
  if v.jailed then s else { s with index := idxInsert (powerOf v.tokens, v.op) s.index }

/-- `SetNewValidatorByPowerIndex`: no jailed check -/
def setNewIdx (s : App) (v : Val) : App := { s with index := idxInsert (powerOf v.tokens, v.op) s.index }

/-- `DeleteValidatorByPowerIndex`: the key is derived from the validator's *current* tokens -/
def delIdx (s : App) (v : Val) : App := { s with index := idxErase (powerOf v.tokens, v.op) s.index }

def lastPower (s : App) (op : Nat) : Int := (alookup op s.last).getD 0

def setLast (s : App) (op : Nat) (p : Int) : App := { s with last := ainsert op p s.last }
def delLast (s : App) (op : Nat) : App := { s with last := aerase op s.last }

/-- `GetValidatorByConsAddr`: the cons-address index, then the validator record -/
def valByKey (s : App) (key : Nat) : Option Val :=
  match alookup key s.cons with
  | none => none
  | some op => s.getVal op

/-! ### unbonding validator queue -/

def ubqInsertSlot (k : Int × Int) (op : Nat) : List ((Int × Int) × List Nat) → List ((Int × Int) × List Nat)
  | [] => [(k, [op])]
  | (k', l) :: xs =>
    if k' = k then (k', l ++ [op]) :: xs
    else if k.1 < k'.1 || (k.1 == k'.1 && k.2 < k'.2) then (k, [op]) :: (k', l) :: xs
    else (k', l) :: ubqInsertSlot k op xs

/-- `InsertUnbondingValidatorQueue` -/
def ubqInsert (s : App) (v : Val) : App := { s with ubq := ubqInsertSlot (v.ubTime, v.ubHeight) v.op s.ubq }

def ubqDeleteSlot (k : Int × Int) (op : Nat) : List ((Int × Int) × List Nat) → List ((Int × Int) × List Nat)
  | [] => []
  | (k', l) :: xs =>
    if k' = k then
      let l' := l.filter (fun o => o != op)
      if l'.isEmpty then xs else (k', l') :: xs
    else (k', l) :: ubqDeleteSlot k op xs

/-- `DeleteValidatorQueue`: removes the operator from the slot named by the validator's own
    unbonding time and height -/
def ubqDelete (s : App) (v : Val) : App := { s with ubq := ubqDeleteSlot (v.ubTime, v.ubHeight) v.op s.ubq }

/-! ### slashing-module pieces reached through staking hooks -/

def getInfo (s : App) (key : Nat) : Option SignInfo := alookup key s.infos
def setInfo (s : App) (key : Nat) (i : SignInfo) : App := { s with infos := ainsert key i s.infos }
def delBitmap (s : App) (key : Nat) : App := { s with bitmap := aerase key s.bitmap }

/-- slashing hook `AfterValidatorBonded` -/
def hookBonded (s : App) (key : Nat) : App :=
  match s.getInfo key with
  | some i => s.setInfo key { i with start := s.height }
  | none => s.setInfo key { start := s.height, idx := 0, missed := 0, jailedUntil := tEpoch, tomb := false }

/-- `bondValidator` (from Unbonded or Unbonding) -/
def bondValidator (s : App) (v : Val) : App × Val :=
  let s := s.delIdx v
  let v' := { v with status := .bonded }
  let s := s.setVal v'
  let s := s.setIdx v'
  let s := s.ubqDelete v'
  (s.hookBonded v'.key, v')

/-- `BeginUnbondingValidator`; the caller has checked `status = bonded` -/
def beginUnbonding (s : App) (v : Val) : App × Val :=
  let s := s.delIdx v
  let v' := { v with status := .unbonding, ubTime := s.time + s.params.unbond, ubHeight := s.height }
  let s := s.setVal v'
  let s := s.setIdx v'
  let s := s.ubqInsert v'
  (s, v')

/-! ### ApplyAndReturnValidatorSetUpdates -/

structure LoopAcc where
  app : App
  last : List (Nat × Int)
  updates : List (Nat × Int)
  total : Int
  nb2b : Int
  count : Nat
  deriving Repr

inductive StepR where
  | halt (h : Halt)
  | skip                -- `continue` (jailed)
  | stop                -- `break` (zero power)
  | next (a : LoopAcc)

/-- "apply the appropriate state change if necessary": Unbonded/Unbonding → Bonded; the third component is
    the amount that has to move from the not-bonded to the bonded pool -/
def bondIfNeeded (s : App) (v : Val) : App × Val × Int :=
  if v.status = .bonded then (s, v, 0)
  else
    let r := s.bondValidator v
    (r.1, r.2, (r.2.tokens : Int))

/-- body of the first loop for a validator record -/
def visitVal (acc : LoopAcc) (v : Val) : StepR :=
  if v.jailed then .skip
  else if powerOf v.tokens = 0 then .stop
  else
    let r := acc.app.bondIfNeeded v
    let newPower : Int := (powerOf r.2.1.tokens : Nat)
    let changed := alookup v.op acc.last != some newPower
    .next { app := if changed then r.1.setLast v.op newPower else r.1
            last := aerase v.op acc.last
            updates := if changed then acc.updates ++ [(r.2.1.key, newPower)] else acc.updates
            total := acc.total + newPower
            nb2b := acc.nb2b + r.2.2
            count := acc.count + 1 }

/-- `mustGetValidator` then the loop body -/
def visit (acc : LoopAcc) (op : Nat) : StepR :=
  match acc.app.getVal op with
  | none => .halt .panic
  | some v => visitVal acc v

inductive LoopR where
  | halt (h : Halt)
  | done (a : LoopAcc)

def loopCont (r : StepR) (acc : LoopAcc) (k : LoopAcc → LoopR) : LoopR :=
  match r with
  | .halt h => .halt h
  | .skip => k acc
  | .stop => .done acc
  | .next a => k a

/-- the first loop over a snapshot of the power index (highest power first) -/
def applyLoop (maxV : Nat) : List (Nat × Nat) → LoopAcc → LoopR
  | [], acc => .done acc
  | e :: rest, acc =>
    if acc.count < maxV then loopCont (visit acc e.2) acc (fun a => applyLoop maxV rest a)
    else .done acc

structure UnbAcc where
  app : App
  updates : List (Nat × Int)
  b2nb : Int

/-- second loop: validators left in `last` leave the set -/
def unbondOne (acc : UnbAcc) (op : Nat) : Except Halt UnbAcc :=
  match acc.app.getVal op with
  | none => .error .panic
  | some v =>
    if v.status != .bonded then .error .panic
    else
      let (s, v') := acc.app.beginUnbonding v
      let s := s.delLast op
      .ok { app := s, updates := acc.updates ++ [(v'.key, 0)], b2nb := acc.b2nb + (v'.tokens : Int) }

def unbondLoop : List (Nat × Int) → UnbAcc → Except Halt UnbAcc
  | [], acc => .ok acc
  | (op, _) :: rest, acc =>
    match unbondOne acc op with
    | .error h => .error h
    | .ok a => unbondLoop rest a

/-- pool transfer after the two loops; `SendCoinsFromModuleToModule` fails on insufficient funds -/
def movePools (s : App) (nb2b b2nb : Int) : Except Halt App :=
  if nb2b > b2nb then
    let d := nb2b - b2nb
    if s.notBonded < d then .error .error
    else .ok { s with notBonded := s.notBonded - d, bonded := s.bonded + d }
  else if nb2b < b2nb then
    let d := b2nb - nb2b
    if s.bonded < d then .error .error
    else .ok { s with bonded := s.bonded - d, notBonded := s.notBonded + d }
  else .ok s

def finishUpdates (a : LoopAcc) : Except Halt (List (Nat × Int) × App) :=
  match unbondLoop a.last ⟨a.app, a.updates, 0⟩ with
  | .error h => .error h
  | .ok u =>
    match movePools u.app a.nb2b u.b2nb with
    | .error h => .error h
    | .ok s =>
      let s := if u.updates.isEmpty then s else { s with lastTotal := a.total }
      .ok (u.updates, s)

/-- `ApplyAndReturnValidatorSetUpdates` -/
def applyUpdates (s : App) : Except Halt (List (Nat × Int) × App) :=
  match applyLoop s.params.maxVals s.index ⟨s, s.last, [], 0, 0, 0⟩ with
  | .halt h => .error h
  | .done a => finishUpdates a

/-! ### UnbondAllMatureValidators -/

/-- keeper `RemoveValidator` for a validator that just became Unbonded with zero shares -/
def removeValidatorRecord (s : App) (v : Val) : Except Halt App :=
  if v.tokens > 0 then .error .error
  else
    let s := s.delVal v.op
    let s := { s with cons := aerase v.key s.cons }
    let s := s.delIdx v
    .ok s

def matureOne (s : App) (op : Nat) : Except Halt App :=
  match s.getVal op with
  | none => .error .error
  | some v =>
    if v.status != .unbonding then .error .error
    else
      let v' := { v with status := .unbonded }
      let s := s.setVal v'
      if v'.shares = 0 then
        match removeValidatorRecord s v' with
        | .error h => .error h
        | .ok s => .ok (s.ubqDelete v')
      else .ok (s.ubqDelete v')

def matureOps : List Nat → App → Except Halt App
  | [], s => .ok s
  | op :: rest, s =>
    match matureOne s op with
    | .error h => .error h
    | .ok s' => matureOps rest s'

def matureSlots : List ((Int × Int) × List Nat) → App → Except Halt App
  | [], s => .ok s
  | ((t, h), ops) :: rest, s =>
    if h ≤ s.height && t ≤ s.time then
      match matureOps ops s with
      | .error e => .error e
      | .ok s' => matureSlots rest s'
    else matureSlots rest s

def unbondMature (s : App) : Except Halt App := matureSlots s.ubq s

/-- x/staking EndBlocker (`BlockValidatorUpdates`; no unbonding delegations or redelegations
    exist in a PoA chain after genesis) -/
def stakingEndBlock (s : App) : Except Halt (List (Nat × Int) × App) :=
  match s.applyUpdates with
  | .error h => .error h
  | .ok (ups, s) =>
    match s.unbondMature with
    | .error h => .error h
    | .ok s => .ok (ups, s)

/-! ### Slash / Jail / Unjail -/

inductive SlashR where
  | err                 -- returns an error
  | ok (s : App)

/-- `burnBondedTokens` / `burnNotBondedTokens`: the bank refuses to burn more than the pool holds -/
def burnTokens (s : App) (status : Status) (burn : Int) : SlashR :=
  match status with
  | .bonded =>
    if s.bonded < burn then .err
    else .ok { s with bonded := s.bonded - burn, supply := s.supply - burn }
  | _ =>
    if s.notBonded < burn then .err
    else .ok { s with notBonded := s.notBonded - burn, supply := s.supply - burn }

/-- `RemoveValidatorTokens` -/
def removeValidatorTokens (s : App) (v : Val) (burn : Int) : App × Val :=
  let v' := { v with tokens := v.tokens - burn.toNat }
  (((s.delIdx v).setVal v').setIdx v', v')

/-- amount of slashing = factor × power at the time of the infraction, truncated -/
def slashAmountOf (power factor : Int) : Int := decTrunc (chopRound (power * (PR : Int) * E18 * factor))

/-- tokens to burn: `min(slashAmount, tokens)`, never negative -/
def burnAmount (slashAmount : Int) (tokens : Nat) : Int :=
  let b := if slashAmount < (tokens : Int) then slashAmount else (tokens : Int)
  if b < 0 then 0 else b

/-- `Slash` once the validator record was found -/
def slashVal (s : App) (v : Val) (infraction : Int) (slashAmount : Int) : SlashR :=
  if v.status = .unbonded then .err
  else if infraction > s.height then .err
  else if burnAmount slashAmount v.tokens = 0 then .ok s
  else
    let r := s.removeValidatorTokens v (burnAmount slashAmount v.tokens)
    r.1.burnTokens r.2.status (burnAmount slashAmount v.tokens)

/-- `Slash(consAddr, infractionHeight, power, factor)` without unbonding delegations /
    redelegations (none exist). `factor` is scaled by 10^18. -/
def slash (s : App) (key : Nat) (infraction : Int) (power : Int) (factor : Int) : SlashR :=
  if factor < 0 then .err
  else
    match s.valByKey key with
    | none => .ok s
    | some v => s.slashVal v infraction (slashAmountOf power factor)

/-- staking `Jail` as called from x/slashing (its error result is ignored there);
    `none` = `mustGetValidatorByConsAddr` panics -/
def jail (s : App) (key : Nat) : Option App :=
  match s.valByKey key with
  | none => none
  | some v =>
    if v.jailed then some s
    else
      let v' := { v with jailed := true }
      let s := s.setVal v'
      some (s.delIdx v')

/-- staking `Unjail` (validator known to be jailed) -/
def unjailVal (s : App) (v : Val) : App :=
  let v' := { v with jailed := false }
  let s := s.setVal v'
  s.setIdx v'

end App
end PoaVerif
