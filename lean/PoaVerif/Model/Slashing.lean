import PoaVerif.Model.Staking
/-
  x/slashing: liveness tracking in BeginBlock (`HandleValidatorSignature`) and `MsgUnjail`.
-/
namespace PoaVerif
namespace App

def bitGet (s : App) (key : Nat) (i : Nat) : Bool := ((alookup key s.bitmap).getD []).contains i

def bitSet (s : App) (key : Nat) (i : Nat) (b : Bool) : App :=
  let cur := (alookup key s.bitmap).getD []
  let cur' := if b then (if cur.contains i then cur else cur ++ [i]) else cur.filter (fun x => x != i)
  { s with bitmap := ainsert key cur' s.bitmap }

/-- downtime punishment: slash, jail, reset the window -/
def punish (s : App) (key : Nat) (power : Int) (info : SignInfo) : Except Halt (App × SignInfo) :=
  match s.slash key (s.height - 2) power s.slashDown with
  | .err => .error .error
  | .ok s =>
    match s.jail key with
    | none => .error .panic
    | some s =>
      let info := { info with jailedUntil := s.time + s.jailNs, missed := 0, idx := 0 }
      .ok (s.delBitmap key, info)

/-- the part of `HandleValidatorSignature` after the validator and its signing info were found -/
def handleSigInfo (s : App) (key : Nat) (power : Int) (absent : Bool) (info : SignInfo) : Except Halt App :=
  let index : Nat := (info.idx % s.window).toNat
  let info := { info with idx := info.idx + 1 }
  let previous := s.bitGet key index
  let (s, info) :=
    if !previous && absent then (s.bitSet key index true, { info with missed := info.missed + 1 })
    else if previous && !absent then (s.bitSet key index false, { info with missed := info.missed - 1 })
    else (s, info)
  let minHeight := info.start + s.window
  let maxMissed := s.window - s.minSigned
  if s.height > minHeight && info.missed > maxMissed then
    -- the validator was found and is not jailed (checked by the caller)
    match s.punish key power info with
    | .error h => .error h
    | .ok (s, info) => .ok (s.setInfo key info)
  else .ok (s.setInfo key info)

def handleSigVal (s : App) (key : Nat) (power : Int) (absent : Bool) (v : Val) : Except Halt App :=
  if v.jailed then .ok s
  else
    match s.getInfo key with
    | none => .error .error
    | some info => s.handleSigInfo key power absent info

/-- `HandleValidatorSignature` -/
def handleSig (s : App) (key : Nat) (power : Int) (absent : Bool) : Except Halt App :=
  match s.valByKey key with
  | none => .error .error
  | some v => s.handleSigVal key power absent v

structure Vote where
  key : Nat
  power : Int
  absent : Bool
  deriving Repr, DecidableEq

/-- x/slashing BeginBlocker -/
def slashingBegin : List Vote → App → Except Halt App
  | [], s => .ok s
  | v :: rest, s =>
    match s.handleSig v.key v.power v.absent with
    | .error h => .error h
    | .ok s' => slashingBegin rest s'

/-! ### x/evidence: double-sign evidence delivered with the block (`handleEquivocationEvidence`) -/

structure Evid where
  key : Nat
  /-- infraction height -/
  height : Int
  /-- the validator's voting power at the infraction, as CometBFT reports it -/
  power : Int
  deriving Repr, DecidableEq, Inhabited

/-- x/slashing's `SlashFractionDoubleSign`; the harness keeps the SDK default, 5 % -/
def slashDoubleE18 : Int := 50000000000000000

/-- `DoubleSignJailEndTime` (year 9999) as nanoseconds since genesis, saturated to a 64-bit duration (how the harness
    prints it) -/
def tFar : Int := 9223372036854775807

/-- one piece of equivocation evidence.  Not modelled: the age check (the generator sends fresh evidence only) and the
    public-key lookup (the relation is written by the creation hook both x/staking's genesis and PoA's admission call) -/
def handleEvidence (s : App) (e : Evid) : Except Halt App :=
  match s.valByKey e.key with
  | none => .error .error                         -- `ValidatorByConsAddr` returns an error: the BeginBlocker fails
  | some v =>
    if v.status == .unbonded then .ok s
    else
      match s.getInfo e.key with
      | none => .error .panic
      | some info =>
        if info.tomb then .ok s
        else
          match s.slash e.key (e.height - 1) e.power slashDoubleE18 with
          | .err => .error .error
          | .ok s1 =>
            match (if v.jailed then some s1 else s1.jail e.key) with
            | none => .error .panic
            | some s2 =>
              match s2.getInfo e.key with
              | none => .error .error
              | some i => .ok (s2.setInfo e.key { i with jailedUntil := tFar, tomb := true })

/-- x/evidence BeginBlocker -/
def evidenceBegin : List Evid → App → Except Halt App
  | [], s => .ok s
  | e :: rest, s =>
    match s.handleEvidence e with
    | .error h => .error h
    | .ok s' => evidenceBegin rest s'

/-- result of a message handler: success, a registered/unregistered error, or an outcome the
    model does not predict (messages of unmodelled modules; they change no modelled state) -/
inductive MsgR where
  | ok (s : App)
  | err (e : Err)
  | unknown

/-- `MsgUnjail` sent by operator `op` -/
def unjailCheck (s : App) (v : Val) (delShares : Int) : MsgR :=
  if v.shares = 0 then .err Err.panic          -- TokensFromShares divides by DelegatorShares
  else
    let tokens := decTrunc (decQuo (delShares * (v.tokens : Int)) v.shares)
    if tokens < v.minSelf then .err Err.slSelfDelegationTooLow
    else if !v.jailed then .err Err.slValidatorNotJailed
    else
      match s.getInfo v.key with
      | some i =>
        if i.tomb then .err Err.slValidatorJailed
        else if s.time < i.jailedUntil then .err Err.slValidatorJailed
        else .ok (s.unjailVal v)
      | none => .ok (s.unjailVal v)

def unjailMsg (s : App) (op : Nat) : MsgR :=
  match s.getVal op with
  | none => .err Err.noValidator
  | some v =>
    match alookup op s.dels with
    | none => .err Err.noDelegation
    | some d => s.unjailCheck v d

end App
end PoaVerif
