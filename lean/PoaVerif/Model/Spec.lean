import PoaVerif.Model.Chain
/-
  Observable statements of the history-level properties, as predicates over the model's runs.  These are
  the FULL statements (every genesis, every history); where the code violates one, `Props/` proves its
  negation from a generated witness and a partial theorem around it.
-/
namespace PoaVerif

/-- what the chain itself reports: bonded, un-jailed validators with the power the PoA query returns -/
def App.chainSet (s : App) : CSet :=
  (s.vals.filter (fun v => v.status == .bonded && !v.jailed)).foldl (fun acc v => ainsert v.key (s.lastPower v.op) acc) []

def nodupNat : List Nat → Bool
  | [] => true
  | x :: xs => !xs.contains x && nodupNat xs

/-- well-formed genesis: at least one validator, distinct operators and keys, every validator with at least one
    unit of voting power, room for all of them, sane parameters, total voting power within CometBFT's maximum -/
def Genesis.wf (g : Genesis) : Bool :=
  !g.vals.isEmpty && nodupNat (g.vals.map (·.op)) && nodupNat (g.vals.map (·.key)) &&
  g.vals.all (fun v => decide (v.tokens ≥ PR)) && decide (g.vals.length ≤ g.maxVals) &&
  decide (g.unbond > 0) && decide (g.window > 0) && decide (0 ≤ g.minSigned) && decide (g.minSigned ≤ g.window) &&
  decide (g.jailNs ≥ 0) && decide (0 ≤ g.slashDown) && decide (g.slashDown ≤ E18) && decide (0 ≤ g.minComm) && decide (g.minComm ≤ E18) &&
  decide (sumInts (g.vals.map (fun v => ((powerOf v.tokens : Nat) : Int))) ≤ maxTotalPower)

/-- the validator set whose votes block `h` carries (CometBFT applies a block's updates two heights later) -/
def voteSetFor (c0 : CSet) (cs : List CSet) (h : Nat) : CSet :=
  if h ≤ 1 then [] else if h ≤ 3 then c0 else cs.getD (h - 4) []

def votesMatch (votes : List App.Vote) (set : CSet) : Bool :=
  decide (votes.length = set.length) && nodupNat (votes.map (·.key)) &&
  votes.all (fun v => alookup v.key set == some v.power)

/-- the votes of every block come from the set CometBFT really had -/
def consistentVotes (c0 : CSet) : List CSet → Nat → List Block → Bool
  | _, _, [] => true
  | cs, h, b :: bs => votesMatch b.votes (voteSetFor c0 cs h) && consistentVotes c0 cs (h + 1) bs

structure Trace where
  first : Step
  steps : List Step
  ending : RunEnd

def trace (env : Env) (g : Genesis) (bs : List Block) : Option Trace :=
  match run env g bs with
  | some (f, r) => some ⟨f, r.1, r.2⟩
  | none => none

/-- realistic history: well-formed genesis, votes consistent with the sets the run itself produced -/
def Realistic (env : Env) (g : Genesis) (bs : List Block) (t : Trace) : Prop :=
  g.wf = true ∧ trace env g bs = some t ∧ consistentVotes t.first.comet (t.steps.map (·.comet)) 1 bs = true

/-- **C02**, full statement: after InitChain and after every block CometBFT's set is the chain's own -/
def C02_full (env : Env) : Prop :=
  ∀ g bs t, Realistic env g bs t → ∀ st ∈ t.first :: t.steps, st.comet = st.app.chainSet

/-- **C04**, full statement: no realistic history halts or hands CometBFT an update list it refuses -/
def C04_full (env : Env) : Prop :=
  ∀ g bs t, Realistic env g bs t → t.ending = .done

/-- **C11**, first sentence: after every block the pools hold the tokens of the validators of their kind -/
def poolsBalanced (s : App) : Bool :=
  s.bonded == sumInts ((s.vals.filter (fun v => v.status == .bonded)).map (fun v => (v.tokens : Int))) &&
  s.notBonded == sumInts ((s.vals.filter (fun v => v.status != .bonded)).map (fun v => (v.tokens : Int)))

def C11_full (env : Env) : Prop :=
  ∀ g bs t, Realistic env g bs t → ∀ st ∈ t.first :: t.steps, poolsBalanced st.app = true

/-- **C05**, last clause: the total the limit is measured against is the total voting power of the previous
    block's validator set -/
def cachedIsCometTotal : Step → List Step → Bool
  | _, [] => true
  | prev, st :: rest => (if st.app.height > 1 then decide ((st.app.cached : Int) = Comet.total prev.comet) else true) && cachedIsCometTotal st rest

def C05_reference_full (env : Env) : Prop :=
  ∀ g bs t, Realistic env g bs t → cachedIsCometTotal t.first t.steps = true

/-- **C03**, requested effect: a block whose transactions are exactly one successful admin SetPower of an
    un-jailed target gives the target the requested power in the next set -/
def setPowerEffect (b : Block) (st : Step) : Bool :=
  match b.txs with
  | [tx] =>
    (match tx.msgs, st.out.txrs with
     | [.setPower (some op) p _], [.ok] =>
       (match st.app.getVal op with
        | some v => v.jailed || alookup v.key st.comet == some ((p / PR : Nat) : Int)
        | none => true)
     | _, _ => true)
  | _ => true

def allSetPowerEffects : List Block → List Step → Bool
  | b :: bs, st :: sts => setPowerEffect b st && allSetPowerEffects bs sts
  | _, _ => true

def C03_effect_full (env : Env) : Prop :=
  ∀ g bs t, Realistic env g bs t → allSetPowerEffects bs t.steps = true

/-- **C03**, bystanders: a block without absent votes whose transactions are exactly one successful PoA
    SetPower or RemoveValidator mentions only the target's key in its validator updates -/
def onlyTargetUpdated (b : Block) (st : Step) : Bool :=
  match b.txs with
  | [tx] =>
    (match tx.msgs, st.out.txrs with
     | [.setPower (some op) _ _], [.ok] | [.remove (some op)], [.ok] =>
       !(b.votes.all (fun v => !v.absent)) ||
       (match st.app.getVal op with
        | some v => st.out.updates.all (fun u => u.1 == v.key)
        | none => true)
     | _, _ => true)
  | _ => true

def allOnlyTarget : List Block → List Step → Bool
  | b :: bs, st :: sts => onlyTargetUpdated b st && allOnlyTarget bs sts
  | _, _ => true

def C03_bystanders_full (env : Env) : Prop :=
  ∀ g bs t, Realistic env g bs t → (∀ st ∈ t.steps, st.app.vals.length ≤ st.app.params.maxVals) → allOnlyTarget bs t.steps = true

end PoaVerif
