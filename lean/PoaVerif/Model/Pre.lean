import PoaVerif.Model.Spec
/-
  `Pre s c`: a decidable condition on the state that enters x/staking's EndBlocker together with CometBFT's
  current set, under which one EndBlock is proved (Lemmas/Refine.lean) to succeed, to produce an update list
  CometBFT accepts, and to leave CometBFT's set equal to the chain's own set.
-/
namespace PoaVerif

namespace App

/-- would be visited and counted by the first loop -/
def cand (v : Val) : Bool := !v.jailed && decide (powerOf v.tokens > 0)

def occ (op : Nat) (idx : List (Nat × Nat)) : Nat := (idx.filter (fun e => e.2 == op)).length

/-- no entry of an un-jailed zero-power validator is followed by an entry of a candidate -/
def noShadow (s : App) : List (Nat × Nat) → Bool
  | [] => true
  | e :: rest =>
    (match s.getVal e.2 with
     | some v => (v.jailed || decide (powerOf v.tokens > 0)) ||
                 rest.all (fun e' => match s.getVal e'.2 with | some w => !cand w | none => true)
     | none => false) && noShadow s rest

/-- sum of the voting powers behind the index entries the first loop counts (an entry per visit) -/
def idxPow (s : App) : List (Nat × Nat) → Int
  | [] => 0
  | e :: l => (match s.getVal e.2 with | some v => if cand v then ((powerOf v.tokens : Nat) : Int) else 0 | none => 0) + idxPow s l

def sumF (f : Val → Int) : List Val → Int
  | [] => 0
  | v :: l => f v + sumF f l

/-- tokens the not-bonded pool has to hold for this record -/
def nbTok (v : Val) : Int := if v.status = .bonded then 0 else (v.tokens : Int)
/-- tokens the bonded pool has to hold for this record -/
def bTok (v : Val) : Int := if v.status = .bonded then (v.tokens : Int) else 0

def sortedNat : List Nat → Bool
  | [] => true
  | [_] => true
  | a :: b :: l => decide (a < b) && sortedNat (b :: l)

/-- slot keys of the unbonding queue strictly ascending (completion time, then height) -/
def ubqSortedB : List ((Int × Int) × List Nat) → Bool
  | [] => true
  | [_] => true
  | a :: b :: l => decide (a.1.1 < b.1.1 ∨ (a.1.1 = b.1.1 ∧ a.1.2 < b.1.2)) && ubqSortedB (b :: l)

def hasCandEntry (s : App) (v : Val) : Bool := cand v && decide (occ v.op s.index > 0)

end App

open App in
def Pre (s : App) (c : CSet) : Bool :=
  -- 1. no cut-off: the entries that count against MaxValidators fit
  decide ((s.index.filter (fun e => match s.getVal e.2 with | some v => cand v | none => false)).length ≤ s.params.maxVals) &&
  -- 2. everything referenced exists
  s.index.all (fun e => (s.getVal e.2).isSome) && s.last.all (fun e => (s.getVal e.1).isSome) &&
  -- 3. the loop's `break` hides nobody
  s.noShadow s.index &&
  -- 4. identities
  nodupNat (s.vals.map (·.op)) && nodupNat (s.vals.map (·.key)) && nodupNat (c.map (·.1)) && nodupNat (s.last.map (·.1)) &&
  -- 5. entries per candidate: at most two; two only with the last power pre-written; one silent visit only if CometBFT already agrees
  s.vals.all (fun v => !hasCandEntry s v ||
    (decide (occ v.op s.index ≤ 2) &&
     (decide (occ v.op s.index ≠ 2) || alookup v.op s.last == some ((powerOf v.tokens : Nat) : Int)) &&
     (decide (occ v.op s.index ≠ 1) || alookup v.op s.last != some ((powerOf v.tokens : Nat) : Int) ||
        alookup v.key c == some ((powerOf v.tokens : Nat) : Int)))) &&
  -- 6. validators leaving the set are bonded records CometBFT knows
  s.vals.all (fun v => !(amem v.op s.last && !hasCandEntry s v) || (v.status == .bonded && amem v.key c)) &&
  -- 7. CometBFT knows nobody the power table does not know
  c.all (fun e => s.vals.any (fun v => v.key == e.1 && amem v.op s.last)) &&
  -- 8. no bonded un-jailed validator outside the table and the index
  s.vals.all (fun v => !(v.status == .bonded && !v.jailed) || hasCandEntry s v || amem v.op s.last) &&
  -- 9. somebody stays, and powers fit CometBFT's bounds
  s.vals.any (fun v => hasCandEntry s v) &&
  (decide (Comet.total c + idxPow s s.index ≤ maxTotalPower) && c.all (fun e => decide (0 ≤ e.2))) &&
  -- 11. the unbonding queue is sound: every queued operator is an Unbonding record filed under its own time and
  --     height, once; an emptied validator has no tokens left; the unbonding period is positive
  s.ubq.all (fun q => q.2.all (fun op => match s.getVal op with
    | some v => v.ubTime == q.1.1 && v.ubHeight == q.1.2 && v.status == .unbonding && (v.shares != 0 || v.tokens == 0)
    | none => false)) &&
  nodupNat (s.ubq.flatMap (·.2)) &&
  (decide (s.params.unbond > 0) && ubqSortedB s.ubq && s.vals.all (fun v => v.shares != 0 || v.tokens == 0)) &&
  -- 10. the records are stored in operator order, and each pool covers the tokens of the validators of its kind
  (sortedNat (s.vals.map (·.op)) && decide (sumF nbTok s.vals ≤ s.notBonded)) &&
  decide (sumF bTok s.vals ≤ s.bonded)

/-- the conclusion, as a Boolean: CometBFT's set after the block is (extensionally) the chain's own set -/
def stepAgrees (c' : CSet) (s' : App) : Bool :=
  c'.all (fun e => alookup e.1 s'.chainSet == some e.2) && s'.chainSet.all (fun e => alookup e.1 c' == some e.2)

end PoaVerif
