import PoaVerif.Lemmas.Basic
import PoaVerif.Facts
/-
  C16 — UpdateStakingParams applies exactly the given, valid parameters.
-/
namespace PoaVerif.Props.C16
open App

/-! Tie A side conditions -/

/-- the six fields of the message are copied one to one into `stakingtypes.Params` -/
theorem facts_mapping : Generated.paramsMapping =
    [("UnbondingTime", "msg.Params.UnbondingTime"), ("MaxValidators", "msg.Params.MaxValidators"), ("MaxEntries", "msg.Params.MaxEntries"),
     ("HistoricalEntries", "msg.Params.HistoricalEntries"), ("BondDenom", "msg.Params.BondDenom"), ("MinCommissionRate", "msg.Params.MinCommissionRate")] := by decide

/-- both parameter records have exactly these six fields (a seventh field added by an SDK upgrade would have to
    be mapped too) -/
theorem facts_fields : Generated.poaStakingParamsFields = Generated.sdkParamsFields ∧
    Generated.sdkParamsFields.map (·.1) = ["UnbondingTime", "MaxValidators", "MaxEntries", "HistoricalEntries", "BondDenom", "MinCommissionRate"] := by decide

/-- `stakingParams.Validate()` is called, and its error returned, before `SetParams` -/
theorem facts_validated : Generated.paramsValidatedBeforeSet = true := by decide

/-- what x/staking's own `Params.Validate` checks (conditions under which each validator returns an error) -/
theorem facts_sdk_validate : Generated.sdkParamsValidate =
    [("UnbondingTime", "validateUnbondingTime: !ok ;; v <= 0"),
     ("MaxValidators", "validateMaxValidators: !ok ;; v == 0"),
     ("MaxEntries", "validateMaxEntries: !ok ;; v == 0"),
     ("BondDenom", "validateBondDenom: !ok ;; strings.TrimSpace(v) == \"\" ;; err != nil"),
     ("MinCommissionRate", "validateMinCommissionRate: !ok ;; v.IsNil() ;; v.IsNegative() ;; v.GT(math.LegacyOneDec())"),
     ("HistoricalEntries", "validateHistoricalEntries: !ok")] := by decide

theorem facts_guard : ("UpdateStakingParams", "admin") ∈ Generated.handlerGuards := by decide

/-- **C16a**: a successful UpdateStakingParams comes from the admin, carries parameters x/staking accepts, makes
    the staking parameters equal to the message's six fields, and changes no other component of the state
    (what follows — e.g. a lower validator cap displacing validators — is x/staking's EndBlocker acting on the
    new parameters) -/
theorem c16_applied (s s' : App) (sg : Signer) (p : ParamArgs) (h : paramsMsg s sg p = .ok s') :
    sg = .admin ∧ paramsValid p = true ∧
    s' = { s with params := { unbond := p.unbond, maxVals := p.maxVals.toNat, maxEntries := p.maxEntries.toNat,
                              hist := p.hist.toNat, denom := p.denom, minComm := p.minComm } } := by
  unfold paramsMsg at h
  split at h
  · cases h
  · split at h
    · cases h
    · rename_i h1 h2
      cases h
      refine ⟨?_, ?_, rfl⟩
      · simpa [isAdmin] using h1
      · simpa using h2

/-- the stored values are the submitted ones (no truncation for values x/staking accepts) -/
theorem c16_values (p : ParamArgs) (hv : paramsValid p = true) :
    ((p.maxVals.toNat : Nat) : Int) = p.maxVals ∧ ((p.maxEntries.toNat : Nat) : Int) = p.maxEntries ∧ ((p.hist.toNat : Nat) : Int) = p.hist := by
  simp only [paramsValid, Bool.and_eq_true, decide_eq_true_eq] at hv
  omega

/-- **C16b**: a parameter set x/staking itself would refuse (zero max validators, non-positive unbonding time,
    zero max entries, invalid bond denom, commission rate outside [0,1]) is rejected — without effect (C06) -/
theorem c16_invalid (s : App) (p : ParamArgs) (hv : paramsValid p = false) :
    paramsMsg s .admin p = .error Err.plain := by
  simp [paramsMsg, isAdmin, hv]

theorem c16_invalid_cases (p : ParamArgs) :
    paramsValid p = false ↔ (p.unbond ≤ 0 ∨ p.maxVals ≤ 0 ∨ p.maxEntries ≤ 0 ∨ p.hist < 0 ∨ p.denom ≥ 2 ∨ p.minComm < 0 ∨ p.minComm > E18) := by
  simp only [paramsValid, Bool.and_eq_false_iff, decide_eq_false_iff_not]
  omega

theorem c16_valid_accepted (s : App) (p : ParamArgs) (hv : paramsValid p = true) :
    ∃ s', paramsMsg s .admin p = .ok s' := by
  simp [paramsMsg, isAdmin, hv]

/-! History level: any number of attempts, by anyone, valid or not -/

/-- what x/staking's `Params.Validate` demands of the *stored* parameters -/
def StoredOk (P : Params) : Prop :=
  P.unbond > 0 ∧ P.maxVals > 0 ∧ P.maxEntries > 0 ∧ P.denom < 2 ∧ 0 ≤ P.minComm ∧ P.minComm ≤ E18

/-- one attempt: the state after it is the new state when the handler succeeds, the old one when it fails (C06) -/
def attempt (s : App) (a : Signer × ParamArgs) : App :=
  match paramsMsg s a.1 a.2 with
  | .ok s' => s'
  | .error _ => s

theorem attempt_storedOk (s : App) (a : Signer × ParamArgs) (h : StoredOk s.params) : StoredOk (attempt s a).params := by
  unfold attempt
  split
  · rename_i s' hs
    obtain ⟨_, hv, rfl⟩ := c16_applied s s' a.1 a.2 hs
    simp only [paramsValid, Bool.and_eq_true, decide_eq_true_eq] at hv
    simp only [StoredOk]
    omega
  · exact h

/-- **C16c**: "the admin cannot break block production with a parameter typo" — starting from parameters x/staking
    accepts, after *any* sequence of UpdateStakingParams attempts (any signers, any tuples, valid or not) the stored
    parameters are still ones x/staking accepts: in particular the validator cap is never zero -/
theorem c16_history_storedOk (s : App) (as : List (Signer × ParamArgs)) (h : StoredOk s.params) :
    StoredOk (as.foldl attempt s).params := by
  induction as generalizing s with
  | nil => exact h
  | cons a as ih => exact ih _ (attempt_storedOk s a h)

/-- … and nothing but the parameters ever changes through this message -/
theorem c16_history_frame (s : App) (as : List (Signer × ParamArgs)) :
    as.foldl attempt s = { s with params := (as.foldl attempt s).params } := by
  induction as generalizing s with
  | nil => rfl
  | cons a as ih =>
    simp only [List.foldl_cons]
    rw [ih]
    have : attempt s a = { s with params := (attempt s a).params } := by
      unfold attempt
      split
      · rename_i s' hs
        obtain ⟨_, _, rfl⟩ := c16_applied s s' a.1 a.2 hs
        rfl
      · rfl
    generalize (List.foldl attempt (attempt s a) as).params = P
    rw [this]

/-- the last successful update wins: the parameters after two successful updates are those of the second alone -/
theorem c16_last_wins (s s1 s2 : App) (p q : ParamArgs)
    (h1 : paramsMsg s .admin p = .ok s1) (h2 : paramsMsg s1 .admin q = .ok s2) :
    paramsMsg s .admin q = .ok s2 := by
  obtain ⟨_, _, rfl⟩ := c16_applied _ _ _ _ h1
  obtain ⟨_, hq, rfl⟩ := c16_applied _ _ _ _ h2
  simp [paramsMsg, isAdmin, hq]

/-- re-submitting the same tuple changes nothing further -/
theorem c16_idempotent (s s1 : App) (p : ParamArgs) (h1 : paramsMsg s .admin p = .ok s1) :
    paramsMsg s1 .admin p = .ok s1 := by
  obtain ⟨_, hp, rfl⟩ := c16_applied _ _ _ _ h1
  simp [paramsMsg, isAdmin, hp]

/-- non-vacuity: the default parameters are `StoredOk`, and a history with a typo in the middle keeps them so -/
example : StoredOk { unbond := 1814400000000000, maxVals := 100, maxEntries := 7, hist := 10000, denom := 0, minComm := 0 } := by
  simp [StoredOk, E18]

/-- non-vacuity -/
example : paramsValid { unbond := 1814400000000000, maxVals := 100, maxEntries := 7, hist := 10000, denom := 0, minComm := 0 } = true := by decide
example : paramsValid { unbond := 1814400000000000, maxVals := 0, maxEntries := 7, hist := 10000, denom := 0, minComm := 0 } = false := by decide

end PoaVerif.Props.C16
