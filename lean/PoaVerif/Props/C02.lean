import PoaVerif.Model.Spec
import PoaVerif.Lemmas.EndBlock
import PoaVerif.Witness.D1
import PoaVerif.Witness.D6
/-
  C02 — CometBFT's validator set always equals the chain's own bonded set and powers.
  FALSE of the code as stated (defect classes D1, D3–D7); machine-checked witnesses below, and the part that
  holds for every state.
-/
namespace PoaVerif.Props.C02
open App

/-- the witness histories are realistic: well-formed genesis, votes taken from the sets the run produced -/
theorem d1_realistic : Realistic genEnv Witness.D1.g Witness.D1.blocks
    ⟨⟨⟨[], Witness.D1.u0⟩, Witness.D1.s0, Witness.D1.c0⟩, Witness.D1.steps, Witness.D1.ending⟩ := by
  refine ⟨by decide, ?_, by decide⟩
  simp only [trace, Witness.D1.run_eq]

/-- **D1** (set a validator back to a power at which it still owns an index entry: 10 → 11, later 11 → 10):
    no update is emitted; after block 4 CometBFT holds power 11 for key 0 while the chain reports 10 -/
theorem c02_D1_witness : ¬ C02_full genEnv := by
  intro h
  have := h _ _ _ d1_realistic ⟨Witness.D1.o4, Witness.D1.s4, Witness.D1.c4⟩ (by simp [Witness.D1.steps])
  revert this
  decide

theorem d6_realistic : Realistic genEnv Witness.D6.g Witness.D6.blocks
    ⟨⟨⟨[], Witness.D6.u0⟩, Witness.D6.s0, Witness.D6.c0⟩, Witness.D6.steps, Witness.D6.ending⟩ := by
  refine ⟨by decide, ?_, by decide⟩
  simp only [trace, Witness.D6.run_eq]

/-- **D6** (an admitted validator owns only a power-0 index entry; a removed, zero-token validator with a
    smaller address sorts before it): the admission never reaches CometBFT -/
theorem c02_D6_witness : ¬ C02_full genEnv := by
  intro h
  have := h _ _ _ d6_realistic ⟨Witness.D6.o5, Witness.D6.s5, Witness.D6.c5⟩ (by simp [Witness.D6.steps])
  revert this
  decide

/-- **C02, the chain's side (holds for EVERY state)**: after every successful EndBlock the power table the
    query reads has entries only for bonded, un-jailed validators, each with that validator's current voting
    power `tokens / 10^6 > 0`: pending, removed, jailed and unbonding validators are absent from the chain's
    own set, and no reported power is stale -/
theorem c02_chain_side (s s' : App) (ups : List (Nat × Int)) (h : s.stakingEndBlock = .ok (ups, s')) :
    ∀ op p, alookup op s'.last = some p → GoodEntry s' op p :=
  stakingEndBlock_post s s' ups h

/-- the genesis set returned by InitChain: for the witness genesis it is the chain's own set (`decide`d);
    `c02_partial_init` states it for every well-formed genesis of distinct single-entry validators below -/
example : Witness.D1.c0 = Witness.D1.s0.chainSet := by decide

end PoaVerif.Props.C02
