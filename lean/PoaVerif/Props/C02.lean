import PoaVerif.Facts
import PoaVerif.Model.Spec
import PoaVerif.Lemmas.EndBlock
import PoaVerif.Lemmas.RunRefine
import PoaVerif.Lemmas.GenesisPre
import PoaVerif.Lemmas.Quiet
import PoaVerif.Lemmas.Quiet2.Run
import PoaVerif.Lemmas.Quiet2.Gov
import PoaVerif.Witness.Q2
import PoaVerif.Witness.Q4
import PoaVerif.Witness.D1
import PoaVerif.Witness.D1
import PoaVerif.Witness.D6
/-
  C02 — CometBFT's validator set always equals the chain's own bonded set and powers.
  FALSE of the code as stated (defect classes D1, D3–D7); machine-checked witnesses below, and the part that
  holds for every state.
-/
namespace PoaVerif.Props.C02
open App

/-- Tie A side condition: the consensus-power query — the chain's own statement of a validator's voting power, which
    this property compares with CometBFT's set — decodes the address, requires the validator record and reads x/staking's
    last validator power -/
theorem facts_query_power : Generated.powerQueryShape = true := by decide

/-- Tie A side condition: in the EndBlocker order x/gov comes before x/poa and x/staking.  Messages of passed governance
    proposals (the default PoA admin is the gov account) are executed by x/gov's EndBlocker; the model — and the property
    — place every admin operation of a block before x/staking's EndBlocker computes that block's validator updates. -/
theorem facts_endblock_order :
    Generated.endBlockers.idxOf "govtypes.ModuleName" < Generated.endBlockers.idxOf "poa.ModuleName" ∧
    Generated.endBlockers.idxOf "poa.ModuleName" < Generated.endBlockers.idxOf "stakingtypes.ModuleName" ∧
    Generated.endBlockers.idxOf "stakingtypes.ModuleName" < Generated.endBlockers.length := by decide

/-- the witness histories are realistic: well-formed genesis, votes taken from the sets the run produced -/
theorem d1_realistic : Realistic genEnv Witness.D1.g Witness.D1.blocks
    ⟨⟨⟨[], Witness.D1.u0⟩, Witness.D1.s0, Witness.D1.c0⟩, Witness.D1.steps, Witness.D1.ending⟩ := by
  refine ⟨by decide, ?_, by decide⟩
  simp only [trace, Witness.D1.run_eq]

/-- **D1** (set a validator back to a power at which it still owns an index entry: 10 → 11, later 11 → 10):
    no update is emitted; after block 4 CometBFT holds power 11 for key 0 while the chain reports 10 -/
theorem c02_D1_witness : ¬ C02_full genEnv := by
  intro h
  have := h _ _ _ d1_realistic ⟨Witness.D1.o4, Witness.D1.s4, Witness.D1.c4⟩ (by simp [Witness.D1.steps])
  revert this
  decide

theorem d6_realistic : Realistic genEnv Witness.D6.g Witness.D6.blocks
    ⟨⟨⟨[], Witness.D6.u0⟩, Witness.D6.s0, Witness.D6.c0⟩, Witness.D6.steps, Witness.D6.ending⟩ := by
  refine ⟨by decide, ?_, by decide⟩
  simp only [trace, Witness.D6.run_eq]

/-- **D6** (an admitted validator owns only a power-0 index entry; a removed, zero-token validator with a
    smaller address sorts before it): the admission never reaches CometBFT -/
theorem c02_D6_witness : ¬ C02_full genEnv := by
  intro h
  have := h _ _ _ d6_realistic ⟨Witness.D6.o5, Witness.D6.s5, Witness.D6.c5⟩ (by simp [Witness.D6.steps])
  revert this
  decide

/-- **C02, the chain's side (holds for EVERY state)**: after every successful EndBlock the power table the
    query reads has entries only for bonded, un-jailed validators, each with that validator's current voting
    power `tokens / 10^6 > 0`: pending, removed, jailed and unbonding validators are absent from the chain's
    own set, and no reported power is stale -/
theorem c02_chain_side (s s' : App) (ups : List (Nat × Int)) (h : s.stakingEndBlock = .ok (ups, s')) :
    ∀ op p, alookup op s'.last = some p → GoodEntry s' op p :=
  stakingEndBlock_post s s' ups h

/-! ### the refinement theorem: C02 for every history inside the decidable region `Pre`

  `Pre s c` (`Model/Pre.lean`) is a Boolean condition on the state entering x/staking's EndBlocker and CometBFT's
  current set: candidates fit under MaxValidators, every candidate owns one power-index entry (two only if the
  power table was pre-written — what `SetPOAPower` does), no power-0 entry shadows a candidate, identities are
  distinct, validators leaving are bonded records CometBFT knows.  The defect classes D1, D3–D7 are exactly the
  ways a PoA message leaves the state outside `Pre`; the driver evaluates `Pre` on every block of every explored
  history (`PRE` lines) and the check confirms that blocks free of the listed triggers lie inside it. -/

/-- **C02, one EndBlocker, every `Pre` state**: whatever the numbers of validators, their powers and statuses,
    the index and the queue contents — if the state entering the EndBlocker and CometBFT's set satisfy `Pre`, the
    update list the EndBlocker returns turns CometBFT's set into exactly the chain's own set: a key has power `p`
    in CometBFT iff it is the consensus key of a bonded, un-jailed validator whose queried power is `p` -/
theorem c02_endblock_refines (s s' : App) (c c' : CSet) (ups : List (Nat × Int)) (hp : Pre s c = true)
    (h : s.stakingEndBlock = .ok (ups, s')) (hc : Comet.applyChangeSet c ups = .ok c') : Agree c' s' :=
  stakingEndBlock_agree s s' c c' ups (preAgree_of_pre s c hp) h hc

/-- **C02, whole histories (partial: histories inside `Pre`)**: by induction over the block list — any number
    of blocks, any transactions — every step of a history all of whose blocks enter their EndBlocker inside `Pre`
    ends with CometBFT's set equal to the chain's own.  The full statement `C02_full` is false (witnesses above);
    what is missing here is exactly the histories that leave `Pre`, and those are the known findings. -/
theorem c02_partial (env : Env) (s : App) (c : CSet) (bs : List Block) (hpre : preAll env s c bs = true) :
    ∀ st ∈ (runFrom env s c bs).1, Agree st.comet st.app :=
  runFrom_agree env bs s c hpre

/-- genesis: InitChain's update list, applied to the empty set, is the chain's own set whenever the state x/staking's
    InitGenesis builds lies inside `Pre` -/
theorem c02_partial_init (g : Genesis) (u : List (Nat × Int)) (s : App) (c : CSet)
    (hpre : Pre (App.genesisState g) [] = true) (h : App.initChain g = .ok (u, s))
    (hc : Comet.applyChangeSet [] u = .ok c) : Agree c s :=
  initChain_agree g u s c hpre h hc

/-- **C02, the genesis set of every well-formed genesis** (no further hypothesis): InitChain succeeds, CometBFT accepts
    the genesis update list, and the set it builds from the empty set is the chain's own — for any number of genesis
    validators with distinct operators and keys, at least one unit each, within `MaxValidators` and CometBFT's maximum
    total power -/
theorem c02_genesis (g : Genesis) (h : g.wf = true) :
    ∃ u s c, App.initChain g = .ok (u, s) ∧ Comet.applyChangeSet [] u = .ok c ∧ Agree c s :=
  initChain_wf g h

/-! ### the envelope theorem for power adjustments: an inductive invariant over whole histories

  `Lemmas/Quiet.lean`: `M` (the state during a block of a chain all of whose validators are bonded, un-jailed and
  alive; applicants wait in the pending list with operators and keys of their own) implies the hypotheses of the
  refinement theorems; it is preserved by every successful SetPower of an existing validator that fires neither D1 nor
  D3 (`M_setPower_existing`, through the exact shape of the handler's result), by every admission
  (`M_setPower_admit`: `AcceptNewValidator` followed by the first assignment — no side condition), by CreateValidator
  and RemovePending (`M_create`, `M_rmPending`) and by every transaction that leaves the state unchanged; the EndBlocker takes it to `G` (`endBlock_G`: nothing but the power table and the recorded
  total changes), x/slashing's BeginBlocker when it punishes nobody and PoA's BeginBlocker (which prunes the entries of the
  last block's SetPowers) take `G` to `M` again; InitChain of every well-formed genesis ends in `G` (`genesis_G`). -/

/-- **C02 and C04 for every quiet history** (`QuietHistory`, decidable form `quietRunB` evaluated by the driver as
    `QUIET` lines): any well-formed genesis, any number of blocks in which x/slashing's BeginBlocker punishes nobody (votes may be absent
    as long as the downtime rule does not fire), no evidence arrives,
    and every transaction either leaves the state unchanged (all rejected transactions, bank sends) or is a
    CreateValidator, a RemovePending, a valid UpdateStakingParams, the admin's SetPower admitting a pending applicant, or
    the admin's SetPower of an
    existing validator that was not re-weighted earlier in the block (no D3) to a power at which it owns no index entry
    (no D1) — the index staying within `MaxValidators` (no D7) and the powers within CometBFT's maximum.  Then the run
    reaches its end — no block halts, CometBFT refuses no update list — and CometBFT's set equals the chain's own after
    InitChain and after every block.  No hypothesis about `Pre`: it is derived. -/
theorem c02_power_adjustments (g : Genesis) (hw : g.wf = true) (bs : List Block) (hq : QuietHistory g bs) :
    ∃ first steps, run genEnv g bs = some (first, steps, RunEnd.done) ∧ steps.length = bs.length ∧
      Agree first.comet first.app ∧ ∀ st ∈ steps, Agree st.comet st.app := by
  obtain ⟨first, steps, h1, h2, h3, _, h5⟩ := quiet_history g hw bs hq
  exact ⟨first, steps, h1, h2, h3, fun st hst => (h5 st hst).1⟩

/-- non-vacuity: the first three blocks of the D1 witness history (idle; SetPower 10 → 11 units; idle) are quiet … -/
example : quietBlockB Witness.D1.s0 Witness.D1.c0 Witness.D1.b1 = true := by decide
example : quietBlockB Witness.D1.s1 Witness.D1.c1 Witness.D1.b2 = true := by decide
example : quietBlockB Witness.D1.s2 Witness.D1.c2 Witness.D1.b3 = true := by decide
/-- … and the block that sets the validator back to 10 units, where it still owns an index entry (D1), is not -/
example : quietBlockB Witness.D1.s3 Witness.D1.c3 Witness.D1.b4 = false := by decide

/-- non-vacuity: the first two blocks of the D1 witness history (an idle block, then SetPower 10 → 11 units of a
    genesis validator) lie inside `Pre`, as does its genesis -/
example : preAll genEnv Witness.D1.s0 Witness.D1.c0 [Witness.D1.b1] = true := by decide
example : preAll genEnv Witness.D1.s1 Witness.D1.c1 [Witness.D1.b2] = true := by decide
example : Pre (App.genesisState Witness.D1.g) [] = true := by decide

/-- … and the block that sets the validator *back* (D1) does not: the theorem's hypothesis is what separates them -/
example : preAll genEnv Witness.D1.s3 Witness.D1.c3 [Witness.D1.b4] = false := by decide

/-- the genesis set returned by InitChain: for the witness genesis it is the chain's own set (`decide`d);
    `c02_partial_init` states it for every well-formed genesis of distinct single-entry validators below -/
example : Witness.D1.c0 = Witness.D1.s0.chainSet := by decide

/-! ### the envelope theorem, removals included (`Lemmas/Quiet2`)

  The invariant of the power-adjustment histories is widened to three classes of records: `Active` (bonded, un-jailed,
  positive power), `Gone` (removed by RemoveValidator earlier in this block: bonded, no tokens, power-table entry 0, no
  index entry) and `Unb` (unbonding after a removal: one index entry at power 0, queued for maturity).  `M2`/`G2` are
  preserved by SetPower (existing validator without D1/D3, admission), by RemoveValidator of a live validator not
  re-weighted in this block whose index entry sits at its current power (no D2) — by the admin or by the validator
  itself —, by CreateValidator, RemovePending, UpdateStakingParams; the EndBlocker starts the unbonding of every `Gone`
  record and deletes the matured `Unb` ones; no zero-power entry may shadow a live validator's (no D6, `noShadow`). -/

/-- **C02 and C04 for every quiet history, removals and punishments included** (`QuietHistory2`, decidable form
    `quietRun2B` evaluated by the driver as `QUIET2` lines): from every well-formed genesis, any number of blocks in which
    x/slashing's and x/evidence's BeginBlockers punish nobody or jail live validators that were not re-weighted in the
    previous block (the decidable shape `punShapeB` of their result; the jailed validators leave the set in that block's
    EndBlocker, stay queued for the unbonding period and remain as unbonded records), x/gov executes no proposal, and
    every transaction either leaves the state unchanged or is a
    CreateValidator, a RemovePending, a valid UpdateStakingParams, the admin's SetPower (admitting a pending applicant,
    or re-weighting a live validator without D1/D3), or a RemoveValidator — by the admin or by the operator itself —
    of a live validator not re-weighted in this block whose index entry sits at its current power (no D2); with the
    index entries of un-jailed positive-power records within `MaxValidators` (no D7), no shadowing zero-power entry (no D6) and the powers within CometBFT's maximum:
    the run reaches its end, no block halts, CometBFT refuses no update list, and after InitChain and after every block
    CometBFT's set equals the chain's own — including the blocks in which removed validators unbond, and those in which
    their records mature and are deleted. -/
theorem c02_removals (g : Genesis) (hw : g.wf = true) (bs : List Block) (hq : QuietHistory2 g bs) :
    ∃ first steps, run genEnv g bs = some (first, steps, RunEnd.done) ∧ steps.length = bs.length ∧
      Agree first.comet first.app ∧ ∀ st ∈ steps, Agree st.comet st.app := by
  obtain ⟨first, steps, h1, h2, h3, _, h5⟩ := quiet_history2 g hw bs hq
  exact ⟨first, steps, h1, h2, h3, fun st hst => (h5 st hst).1⟩

/-- the decidable form the driver evaluates implies the hypothesis -/
theorem c02_removals_decidable (g : Genesis) (bs : List Block)
    (h : ∀ u s c, App.initChain g = .ok (u, s) → Comet.applyChangeSet [] u = .ok c → quietRun2B bs s c = true) :
    QuietHistory2 g bs :=
  fun u s c hi hc => quietRun2_of_B bs s c (h u s c hi hc)

/-- non-vacuity (kernel-checked, block by block): the witness history `Q2` — the admin removes validator 2 and
    re-weights validator 0 in one block; an idle block; 21 days later validator 2's record matures and is deleted in
    the block in which validator 3 removes itself; an idle block — is quiet in the wider sense; its second and fourth
    blocks are not quiet in the sense of the power-adjustment class -/
example : Witness.Q2.g.wf = true := by decide
example : quietBlock2B Witness.Q2.s0 Witness.Q2.c0 Witness.Q2.b1 = true := by decide
example : quietBlock2B Witness.Q2.s1 Witness.Q2.c1 Witness.Q2.b2 = true := by decide
example : quietBlock2B Witness.Q2.s2 Witness.Q2.c2 Witness.Q2.b3 = true := by decide
example : quietBlock2B Witness.Q2.s3 Witness.Q2.c3 Witness.Q2.b4 = true := by decide
example : quietBlock2B Witness.Q2.s4 Witness.Q2.c4 Witness.Q2.b5 = true := by decide
example : quietBlockB Witness.Q2.s1 Witness.Q2.c1 Witness.Q2.b2 = false := by decide
example : Witness.Q2.c2 = [(0, 12), (1, 10), (3, 10)] ∧ Witness.Q2.c4 = [(0, 12), (1, 10)] ∧
    Witness.Q2.s3.getVal 2 ≠ none ∧ Witness.Q2.s4.getVal 2 = none := by decide

/-! ### the default configuration: the admin's operations arrive through governance (`Lemmas/Quiet2/Gov`) -/

/-- **C02 and C04 for every quiet history whose admin operations are messages of passed governance proposals**
    (`QuietHistory3`, decidable form `quietRun3B`, driver lines `QUIET3`): the class of `c02_removals` with two widenings.
    (1) x/gov's EndBlocker may execute any number of proposals in a block — after the block's transactions, before x/poa's
    and x/staking's EndBlockers, with the gov account (the admin, or not: `Block.govIsAdmin`) as sender, all messages of a
    proposal or none; a proposal that fails leaves the state as it was whatever it carried; one that goes through is a
    **list** of messages each of which, at the state the earlier ones left, leaves the state unchanged or is a SetPower /
    RemoveValidator / CreateValidator / RemovePending / UpdateStakingParams under the conditions of `c02_removals`.
    (2) A transaction may likewise be any failing transaction, or carry a list of such messages.
    The conclusion is that of `c02_removals`. -/
theorem c02_governance (g : Genesis) (hw : g.wf = true) (bs : List Block) (hq : QuietHistory3 g bs) :
    ∃ first steps, run genEnv g bs = some (first, steps, RunEnd.done) ∧ steps.length = bs.length ∧
      Agree first.comet first.app ∧ ∀ st ∈ steps, Agree st.comet st.app := by
  obtain ⟨first, steps, h1, h2, h3, _, h5⟩ := quiet_history3 g hw bs hq
  exact ⟨first, steps, h1, h2, h3, fun st hst => (h5 st hst).1⟩

theorem c02_governance_decidable (g : Genesis) (bs : List Block)
    (h : ∀ u s c, App.initChain g = .ok (u, s) → Comet.applyChangeSet [] u = .ok c → quietRun3B bs s c = true) :
    QuietHistory3 g bs :=
  fun u s c hi hc => quietRun3_of_B bs s c (h u s c hi hc)

/-- the histories of `c02_removals` are the special case -/
theorem c02_governance_includes_removals (g : Genesis) (bs : List Block) (hq : QuietHistory2 g bs) : QuietHistory3 g bs :=
  fun u s c hi hc => quietRun3_of_2 bs s c (hq u s c hi hc)

/-- non-vacuity (kernel-checked, block by block): the governance witness history `Q4` (generated from the real run of the
    scripted history `corpus/scripts/Q4.txt`: proposals submitted, voted on by the validators' operators and executed by
    x/gov): a proposal re-weighting validator 1; a proposal of two messages — removal of validator 2, re-weighting of
    validator 3; a proposal whose second message fails (nothing of it stays). -/
example : Witness.Q4.g.wf = true := by decide
example : quietBlock3B Witness.Q4.s0 Witness.Q4.c0 Witness.Q4.b1 = true := by decide
example : quietBlock3B Witness.Q4.s1 Witness.Q4.c1 Witness.Q4.b2 = true := by decide
example : quietBlock3B Witness.Q4.s2 Witness.Q4.c2 Witness.Q4.b3 = true := by decide
set_option maxHeartbeats 4000000 in
example : quietBlock3B Witness.Q4.s3 Witness.Q4.c3 Witness.Q4.b4 = true := by decide
example : quietBlock3B Witness.Q4.s4 Witness.Q4.c4 Witness.Q4.b5 = true := by decide
example : quietBlock3B Witness.Q4.s5 Witness.Q4.c5 Witness.Q4.b6 = true := by decide
example : quietBlock2B Witness.Q4.s2 Witness.Q4.c2 Witness.Q4.b3 = false := by decide
example : Witness.Q4.c3 = [(1, 12), (2, 10), (3, 10), (4, 10)] ∧ Witness.Q4.c4 = [(1, 12), (3, 12), (4, 10)] ∧ Witness.Q4.c5 = Witness.Q4.c4 ∧
    Witness.Q4.o5.txrs = [TxR.unknown] := by decide

end PoaVerif.Props.C02
