import PoaVerif.Model.Chain
import PoaVerif.Facts
/-
  C17 — validator records survive conversion, storage and genesis round trips.
  The logic (field mappings, genesis functions) is proved here against the re-extracted source; protobuf/JSON
  encodings and `Any` unpacking are outside the model and are covered by the `convert` stream (Tie B) only.
-/
namespace PoaVerif.Props.C17

/-- genesis import and export move the pending list as it is; admission converts the stored application
    (`ConvertPOAToStaking`, see `Props.C10.facts_admission`) -/
theorem facts_genesis :
    Generated.initGenesisCalls = ["k.PendingValidators.Set", "k.CachedBlockPower.Set", "k.AbsoluteChangedInBlockPower.Set"] ∧
    Generated.exportGenesisCalls = ["k.PendingValidators.Get", "k.PendingValidators.Get(ctx)", "return &poa.GenesisState{ Vals: vals.Validators, }"] ∧
    "ConvertPOAToStaking" ∈ Generated.acceptNewValidatorCalls := by decide

/-! ### the two records have the same fields (an SDK upgrade adding a field breaks this) -/

theorem facts_same_fields :
    Generated.poaValidatorFields = Generated.sdkValidatorFields ∧
    Generated.poaDescriptionFields = Generated.sdkDescriptionFields ∧
    Generated.poaCommissionRatesFields = Generated.sdkCommissionRatesFields ∧
    Generated.poaCommissionFields = Generated.sdkCommissionFields := by decide

theorem facts_field_names : Generated.sdkValidatorFields.map (·.1) =
    ["OperatorAddress", "ConsensusPubkey", "Jailed", "Status", "Tokens", "DelegatorShares", "Description", "UnbondingHeight",
     "UnbondingTime", "Commission", "MinSelfDelegation", "UnbondingOnHoldRefCount", "UnbondingIds"] := by decide

/-- every field of the staking record is assigned by `ConvertPOAToStaking`, from the field of the same name
    (Status through the enum conversion, Description and Commission through the SDK constructors) -/
theorem facts_poa_to_staking : Generated.convPoaToStaking =
    [("OperatorAddress", "OperatorAddress"), ("ConsensusPubkey", "ConsensusPubkey"), ("Jailed", "Jailed"), ("Status", "BondStatus(Status)"),
     ("Tokens", "Tokens"), ("DelegatorShares", "DelegatorShares"),
     ("Description", "NewDescription( Description.Moniker, Description.Identity, Description.Website, Description.SecurityContact, Description.Details, )"),
     ("UnbondingHeight", "UnbondingHeight"), ("UnbondingTime", "UnbondingTime"),
     ("Commission", "NewCommission( Commission.CommissionRates.Rate, Commission.CommissionRates.MaxRate, Commission.CommissionRates.MaxChangeRate, )"),
     ("MinSelfDelegation", "MinSelfDelegation"), ("UnbondingOnHoldRefCount", "UnbondingOnHoldRefCount"), ("UnbondingIds", "UnbondingIds")] := rfl

theorem facts_staking_to_poa : Generated.convStakingToPoa =
    [("OperatorAddress", "val.OperatorAddress"), ("ConsensusPubkey", "val.ConsensusPubkey"), ("Jailed", "val.Jailed"), ("Status", "BondStatus(val.Status)"),
     ("Tokens", "val.Tokens"), ("DelegatorShares", "val.DelegatorShares"),
     ("Description", "Description{ Moniker: val.Description.Moniker, Identity: val.Description.Identity, Website: val.Description.Website, SecurityContact: val.Description.SecurityContact, Details: val.Description.Details, }"),
     ("UnbondingHeight", "val.UnbondingHeight"), ("UnbondingTime", "val.UnbondingTime"),
     ("Commission", "Commission{ CommissionRates: CommissionRates{ Rate: val.Commission.Rate, MaxRate: val.Commission.MaxRate, MaxChangeRate: val.Commission.MaxChangeRate, }, }"),
     ("MinSelfDelegation", "val.MinSelfDelegation"), ("UnbondingOnHoldRefCount", "val.UnbondingOnHoldRefCount"), ("UnbondingIds", "val.UnbondingIds")] := rfl

/-- the SDK constructors the converter calls assign their arguments in order; `NewCommission` stamps the epoch -/
theorem facts_sdk_constructors :
    Generated.sdkNewDescription = [("Moniker", "moniker"), ("Identity", "identity"), ("Website", "website"), ("SecurityContact", "securityContact"), ("Details", "details")] ∧
    Generated.sdkNewCommission = [("CommissionRates", "NewCommissionRates(rate, maxRate, maxChangeRate)"), ("UpdateTime", "time.Unix(0, 0).UTC()")] ∧
    Generated.sdkNewCommissionRates = [("Rate", "rate"), ("MaxRate", "maxRate"), ("MaxChangeRate", "maxChangeRate")] := by decide

/-! ### the conversions, over records with exactly the fields above (values are abstract) -/

structure Desc (S : Type) where
  moniker : S
  identity : S
  website : S
  securityContact : S
  details : S
  deriving DecidableEq

structure Rates (D : Type) where
  rate : D
  maxRate : D
  maxChangeRate : D
  deriving DecidableEq

structure Comm (D T : Type) where
  rates : Rates D
  updateTime : T
  deriving DecidableEq

/-- a validator record (either representation: the field lists coincide) over abstract value types -/
structure Rec (S K I D T : Type) where
  operatorAddress : S
  consensusPubkey : K
  jailed : Bool
  status : Nat
  tokens : I
  delegatorShares : D
  description : Desc S
  unbondingHeight : Int
  unbondingTime : T
  commission : Comm D T
  minSelfDelegation : I
  unbondingOnHoldRefCount : Int
  unbondingIds : List Nat
  deriving DecidableEq

variable {S K I D T : Type}

/-- `ConvertStakingToPOA`: field by field; the commission keeps only its rates (UpdateTime stays the zero value) -/
def toPoa (zero : T) (v : Rec S K I D T) : Rec S K I D T :=
  { operatorAddress := v.operatorAddress, consensusPubkey := v.consensusPubkey, jailed := v.jailed, status := v.status,
    tokens := v.tokens, delegatorShares := v.delegatorShares,
    description := ⟨v.description.moniker, v.description.identity, v.description.website, v.description.securityContact, v.description.details⟩,
    unbondingHeight := v.unbondingHeight, unbondingTime := v.unbondingTime,
    commission := ⟨⟨v.commission.rates.rate, v.commission.rates.maxRate, v.commission.rates.maxChangeRate⟩, zero⟩,
    minSelfDelegation := v.minSelfDelegation, unbondingOnHoldRefCount := v.unbondingOnHoldRefCount, unbondingIds := v.unbondingIds }

/-- `ConvertPOAToStaking`: field by field; `NewCommission` stamps the Unix epoch as UpdateTime -/
def toStaking (epoch : T) (p : Rec S K I D T) : Rec S K I D T :=
  { operatorAddress := p.operatorAddress, consensusPubkey := p.consensusPubkey, jailed := p.jailed, status := p.status,
    tokens := p.tokens, delegatorShares := p.delegatorShares,
    description := ⟨p.description.moniker, p.description.identity, p.description.website, p.description.securityContact, p.description.details⟩,
    unbondingHeight := p.unbondingHeight, unbondingTime := p.unbondingTime,
    commission := ⟨⟨p.commission.rates.rate, p.commission.rates.maxRate, p.commission.rates.maxChangeRate⟩, epoch⟩,
    minSelfDelegation := p.minSelfDelegation, unbondingOnHoldRefCount := p.unbondingOnHoldRefCount, unbondingIds := p.unbondingIds }

/-- **C17a**: staking → PoA → staking preserves every field — operator address, consensus key, jailed flag, status,
    tokens, shares, description, commission rates, unbonding data, minimum self-delegation — for arbitrary values;
    only the commission's UpdateTime is reset to the epoch (it is not among the fields the property lists) -/
theorem c17_roundtrip_staking (zero epoch : T) (v : Rec S K I D T) :
    toStaking epoch (toPoa zero v) = { v with commission := { v.commission with updateTime := epoch } } := by
  cases v; rename_i d _ _ c _ _ _; cases d; cases c; rename_i r _; cases r; rfl

/-- **C17b**: PoA → staking → PoA likewise (UpdateTime reset to the zero value) -/
theorem c17_roundtrip_poa (zero epoch : T) (p : Rec S K I D T) :
    toPoa zero (toStaking epoch p) = { p with commission := { p.commission with updateTime := zero } } := by
  cases p; rename_i d _ _ c _ _ _; cases d; cases c; rename_i r _; cases r; rfl

/-- so the two conversions compose to the identity on everything but that time stamp, in both directions -/
theorem c17_fields (zero epoch : T) (v : Rec S K I D T) :
    let w := toStaking epoch (toPoa zero v)
    w.operatorAddress = v.operatorAddress ∧ w.consensusPubkey = v.consensusPubkey ∧ w.jailed = v.jailed ∧ w.status = v.status ∧
    w.tokens = v.tokens ∧ w.delegatorShares = v.delegatorShares ∧ w.description = v.description ∧
    w.commission.rates = v.commission.rates ∧ w.unbondingHeight = v.unbondingHeight ∧ w.unbondingTime = v.unbondingTime ∧
    w.minSelfDelegation = v.minSelfDelegation ∧ w.unbondingOnHoldRefCount = v.unbondingOnHoldRefCount ∧ w.unbondingIds = v.unbondingIds := by
  rw [c17_roundtrip_staking]
  simp

/-! ### genesis -/

/-- `ExportGenesis`: the pending list as it is -/
def exportGenesis (s : App) : List Pending := s.pending

/-- `InitGenesis` followed by `InitCacheStores`: the pending list as given, cached total := x/staking's last total
    power, running sum := 0 -/
def initGenesis (s : App) (vals : List Pending) : App :=
  { s with pending := vals, cached := s.lastTotal.toNat, absCh := 0 }

/-- **C17c**: after export and import into a chain the pending query returns the exported applications in the
    same order, and the per-block limit works from the imported chain's total power with an empty running sum -/
theorem c17_genesis (s fresh : App) :
    (initGenesis fresh (exportGenesis s)).queryPending = s.queryPending ∧
    (initGenesis fresh (exportGenesis s)).cached = fresh.lastTotal.toNat ∧ (initGenesis fresh (exportGenesis s)).absCh = 0 := by
  simp [initGenesis, exportGenesis, App.queryPending]

/-- the model's InitChain agrees: caches start from the genesis set's total -/
theorem c17_initChain (g : Genesis) (u : List (Nat × Int)) (s : App) (h : App.initChain g = .ok (u, s)) :
    s.cached = s.lastTotal.toNat ∧ s.absCh = 0 := by
  unfold App.initChain at h
  split at h
  · cases h
  · split at h
    · cases h
    · cases h; exact ⟨rfl, rfl⟩

end PoaVerif.Props.C17
