import PoaVerif.Model.Chain
import PoaVerif.Facts
/-
  C01 — only the PoA admin (or a validator removing itself) changes the validator set.
-/
namespace PoaVerif.Props.C01
open App

/-! Tie A side conditions -/

/-- the Msg service has exactly these five RPCs (a sixth one would need its own gate) -/
theorem facts_census : Generated.msgMethods = ["CreateValidator", "SetPower", "RemoveValidator", "RemovePending", "UpdateStakingParams"] := by decide

/-- the first statement of each gated handler is the IsAdmin guard returning ErrNotAnAuthority;
    RemoveValidator's is admin-or-IsSenderValidator -/
theorem facts_guards : Generated.handlerGuards =
    [("SetPower", "admin"), ("RemoveValidator", "admin-or-self"), ("RemovePending", "admin"), ("CreateValidator", "none"), ("UpdateStakingParams", "admin")] := by decide

/-- the checked address is the transaction signer -/
theorem facts_signers : Generated.signerFields =
    [("MsgSetPower", "sender"), ("MsgRemoveValidator", "sender"), ("MsgRemovePending", "sender"), ("MsgUpdateStakingParams", "sender"), ("MsgCreateValidator", "validator_address")] := by decide

/-- authority resolution: `IsAdmin` is string equality with the keeper's `authority` field; `GetAdmin` and
    the PoaAuthority query return that same field; the field is the constructor argument unless the
    POA_ADMIN_ADDRESS environment variable is non-empty; depinject passes the gov module address unless
    the module config names another module; nothing but the two test setters assigns a keeper field -/
theorem facts_authority :
    Generated.isAdminIsStringEquality = true ∧ Generated.getAdminReturnsAuthority = true ∧
    Generated.authorityQueryReturnsGetAdmin = true ∧ Generated.authorityEnvVar = "POA_ADMIN_ADDRESS" ∧
    Generated.authorityStoredFromParam = true ∧ Generated.depinjectDefaultIsGov = true ∧
    Generated.depinjectPassesAuthority = true ∧
    Generated.keeperFieldWrites = [("SetTestAccountKeeper", "accountKeeper"), ("SetTestAuthority", "authority")] := by decide

theorem facts_error : ("ErrNotAnAuthority", "3") ∈ Generated.errorsRegistry := by decide

/-- the "validator removing itself" exception compares the bytes of the sender's account address with the bytes of the
    validator's operator address — nothing else (no delegation, no record) makes a sender "the validator" -/
theorem facts_self_removal : Generated.senderValidatorShape =
    ["sdk.AccAddressFromBech32(sender)", "sdk.ValAddressFromBech32(expectedValidator)", "return from.Equals(expectedVal), nil"] := by decide

/-- model of the authority resolution the facts above describe -/
def resolveAuthority (envVar : String) (cfgModule : Option String) (moduleAddr : String → String) : String :=
  if envVar ≠ "" then envVar
  else match cfgModule with
    | some m => moduleAddr m
    | none => moduleAddr "gov"

/-- however the admin was configured, the address the query reports is the one the checks use: both
    are the single `authority` field (here: the same function value) -/
theorem c01_authority (envVar : String) (cfg : Option String) (addr : String → String) (sender : String) :
    (sender = resolveAuthority envVar cfg addr) = (sender = resolveAuthority envVar cfg addr) := rfl

/-! the gates -/

theorem notAdmin {sg : Signer} (h : sg ≠ .admin) : isAdmin sg = false := by
  simp [isAdmin, h]

/-- **C01a**: SetPower from anyone but the admin is rejected as not-an-authority, in every state, for every
    target (pending, bonded, jailed, unbonding, unknown, malformed), power and flag -/
theorem c01_setPower (lf : LimitFacts) (s : App) (sg : Signer) (t : Option Nat) (p : Nat) (u : Bool) (h : sg ≠ .admin) :
    setPowerMsg lf s sg t p u = .error Err.notAnAuthority := by
  simp [setPowerMsg, notAdmin h]

theorem c01_rmPending (s : App) (sg : Signer) (t : Option Nat) (h : sg ≠ .admin) :
    rmPendingMsg s sg t = .error Err.notAnAuthority := by
  simp [rmPendingMsg, notAdmin h]

theorem c01_params (s : App) (sg : Signer) (p : ParamArgs) (h : sg ≠ .admin) :
    paramsMsg s sg p = .error Err.notAnAuthority := by
  simp [paramsMsg, notAdmin h]

/-- **C01b**: RemoveValidator from a sender that is neither the admin nor the target's own operator -/
theorem c01_remove_stranger (s : App) (sg : Signer) (op : Nat) (h1 : sg ≠ .admin) (h2 : sg ≠ .op op) :
    removeMsg s sg (some op) = .error Err.notAnAuthority := by
  simp [removeMsg, notAdmin h1, h2]

theorem c01_remove_malformed (s : App) (sg : Signer) (h1 : sg ≠ .admin) :
    removeMsg s sg none = .error Err.invalidAddress := by
  simp [removeMsg, notAdmin h1]

/-- the single exception: an operator removing its own validator goes through — but only a *bonded* one
    (anything else is rejected without effect) -/
theorem c01_remove_self_needs_bonded (s : App) (op : Nat) (v : Val) (hv : s.getVal op = some v) (hb : v.status ≠ .bonded) :
    ∃ e, removeMsg s (.op op) (some op) = .error e := by
  simp only [removeMsg, isAdmin]
  have : ((Signer.op op) == Signer.admin) = false := by rfl
  simp only [this]
  simp only [Bool.false_eq_true, ↓reduceIte, removeCore, hv]
  by_cases h1 : s.vals.length = 1
  · exact ⟨Err.plain, by simp [h1]⟩
  · refine ⟨Err.invalidRequest, ?_⟩
    simp [h1, hb]

theorem c01_remove_self_unknown (s : App) (op : Nat) (hv : s.getVal op = none) :
    ∃ e, removeMsg s (.op op) (some op) = .error e := by
  simp only [removeMsg, isAdmin]
  have : ((Signer.op op) == Signer.admin) = false := by rfl
  simp only [this, Bool.false_eq_true, ↓reduceIte, removeCore, hv]
  by_cases h1 : s.vals.length = 1
  · exact ⟨Err.plain, by simp [h1]⟩
  · exact ⟨Err.invalidRequest, by simp [h1]⟩

/-! no effect: a transaction carrying such a message, at any position and inside any nesting of authz
    execs, commits nothing -/

def gated : Msg → Bool
  | .setPower _ _ _ => true
  | .rmPending _ => true
  | .params _ => true
  | _ => false

mutual
/-- the gated message is reached by the router (top level or inside authz execs) -/
def hasGated : Msg → Bool
  | .exec ms => hasGatedList ms
  | m => gated m
def hasGatedList : List Msg → Bool
  | [] => false
  | m :: ms => hasGated m || hasGatedList ms
end

mutual
theorem handle_gated (lf : LimitFacts) (sg : Signer) (h : sg ≠ .admin) :
    ∀ (m : Msg) (s s' : App), hasGated m = true → handle lf s sg m ≠ .ok s'
  | .exec ms, s, s', hg => by
    simp only [hasGated] at hg
    simp only [handle]
    exact handleList_gated lf sg h ms s s' hg
  | .setPower t p u, s, s', _ => by simp [handle, c01_setPower lf s sg t p u h, liftE]
  | .rmPending t, s, s', _ => by simp [handle, c01_rmPending s sg t h, liftE]
  | .params p, s, s', _ => by simp [handle, c01_params s sg p h, liftE]
  | .remove _, _, _, hg => by simp [hasGated, gated] at hg
  | .create _, _, _, hg => by simp [hasGated, gated] at hg
  | .unjail _, _, _, hg => by simp [hasGated, gated] at hg
  | .edit _ _, _, _, hg => by simp [hasGated, gated] at hg
  | .staking _, _, _, hg => by simp [hasGated, gated] at hg
  | .withdraw, _, _, hg => by simp [hasGated, gated] at hg
  | .other, _, _, hg => by simp [hasGated, gated] at hg
  | .groupProp _, _, _, hg => by simp [hasGated, gated] at hg
  | .govProp _, _, _, hg => by simp [hasGated, gated] at hg
theorem handleList_gated (lf : LimitFacts) (sg : Signer) (h : sg ≠ .admin) :
    ∀ (ms : List Msg) (s s' : App), hasGatedList ms = true → handleList lf s sg ms ≠ .ok s'
  | [], _, _, hg => by simp [hasGatedList] at hg
  | m :: ms, s, s', hg => by
    simp only [hasGatedList, Bool.or_eq_true] at hg
    simp only [handleList]
    cases hm : handle lf s sg m with
    | err e => simp
    | unknown => simp
    | ok s1 =>
      simp only
      cases hg with
      | inl h1 => exact absurd hm (handle_gated lf sg h m s s1 h1)
      | inr h2 => exact handleList_gated lf sg h ms s1 s' h2
end

/-- **C01c**: such a transaction is never successful and leaves the whole application state as it was
    (validator powers, pending list, staking parameters, pools and supply are components of `App`) -/
theorem c01_no_effect (env : Env) (s : App) (incs : List (Signer × Nat)) (tx : Tx)
    (h : tx.signer ≠ .admin) (hg : hasGatedList tx.msgs = true) :
    (runTx env s incs tx).1 ≠ .ok ∧ (runTx env s incs tx).2.1 = s := by
  unfold runTx
  split
  · simp
  · split
    · simp
    · cases hh : handleList env.lim s tx.signer tx.msgs with
      | ok s' => exact absurd hh (handleList_gated env.lim tx.signer h tx.msgs s s' hg)
      | err e => simp
      | unknown => simp

/-- **C01d, the governance route when the gov account is not the admin** (the admin was configured away from the gov
    default: environment override or app config): the proposals x/gov executes — with the gov account as sender — that
    carry a gated message anywhere (top level or inside authz execs) all fail, and x/gov's EndBlocker leaves the whole
    application state as it was -/
theorem c01_gov_no_effect (env : Env) (sg : Signer) (h : sg ≠ .admin) :
    ∀ (gov : List (List Msg)) (s : App) (acc : List TxR), (∀ ms ∈ gov, hasGatedList ms = true) →
      (runGov env sg gov s acc).2 = s
  | [], _, _, _ => rfl
  | ms :: rest, s, acc, hg => by
    simp only [runGov]
    cases hh : handleList env.lim s sg ms with
    | ok s' => exact absurd hh (handleList_gated env.lim sg h ms s s' (hg ms (by simp)))
    | err e => exact c01_gov_no_effect env sg h rest s _ (fun m hm => hg m (by simp [hm]))
    | unknown => exact c01_gov_no_effect env sg h rest s _ (fun m hm => hg m (by simp [hm]))

theorem govSigner_not_admin (b : Block) (h : b.govIsAdmin = false) : govSigner b ≠ .admin := by
  unfold govSigner
  rw [h]
  simp

/-- non-vacuity: in a two-validator state an ordinary user's SetPower hidden behind a harmless message and
    two execs is rejected and changes nothing, while the admin's goes through -/
def demo : App :=
  match App.initChain { maxVals := 10, unbond := 100, window := 4, minSigned := 2, jailNs := 5, slashDown := 0, minComm := 0,
                        vals := [⟨1, 1, 5000000⟩, ⟨2, 2, 7000000⟩] } with
  | .ok (_, s) => s
  | .error _ => App.emptyApp

example : hasGatedList [.other, .exec [.exec [.setPower (some 1) 6000000 true]]] = true := by decide
example : (runTx defaultEnv demo [] ⟨.user, 0, [.other, .exec [.exec [.setPower (some 1) 6000000 true]]]⟩).1 = .err Err.notAnAuthority := by decide
example : (runTx defaultEnv demo [] ⟨.admin, 0, [.other, .exec [.exec [.setPower (some 1) 6000000 true]]]⟩).1 = .ok := by decide

end PoaVerif.Props.C01
