import PoaVerif.Facts
import PoaVerif.Lemmas.EndBlock
import PoaVerif.Lemmas.FramePoa
import PoaVerif.Model.Spec
import PoaVerif.Props.C04
import PoaVerif.Lemmas.Corollaries
import PoaVerif.Lemmas.Quiet2.Effect
import PoaVerif.Lemmas.Quiet2.Gov
import PoaVerif.Witness.Q3
/-
  C13 — slashing/jailing and admin operations compose safely.
  FALSE of the code as stated (D4, D5 — witnesses are `C04.c04_D4_witness`, `C04.c04_D5_witness`: an admin
  operation aimed at a jailed validator, or an unjail after an admin operation, hands CometBFT an invalid update
  list); below: what holds for every state.
-/
namespace PoaVerif.Props.C13

/-- the slashing glue: admission creates the signing info, removal clears bitmap and info; `SetPOAPower` touches the
    missed-block bitmap in its removal branch only (see `Props.C14.facts_set_power_calls`) -/
theorem facts_slashing_glue :
    Generated.setSlashingInfoCalls = ["GetConsAddr", "UnwrapSDKContext", "SetValidatorSigningInfo", "ConsAddress", "ConsAddress", "BlockHeight", "BlockHeader"] ∧
    Generated.clearSlashingInfoCalls = ["GetConsAddr", "DeleteMissedBlockBitmap", "ConsAddress", "SetValidatorSigningInfo", "ConsAddress"] ∧
    (Generated.setPOAPowerCalls.filter (· == "DeleteMissedBlockBitmap")).length = 1 := by decide
open App

theorem facts_order :
    Generated.beginBlockers.idxOf "slashingtypes.ModuleName" < Generated.beginBlockers.idxOf "poa.ModuleName" ∧
    Generated.beginBlockers.idxOf "poa.ModuleName" < Generated.beginBlockers.idxOf "stakingtypes.ModuleName" := by decide

/-- the two witnesses of the violation (re-exported) -/
theorem c13_D4_witness : ¬ C04_full genEnv := C04.c04_D4_witness
theorem c13_D5_witness : ¬ C04_full genEnv := C04.c04_D5_witness

/-- **a jailed validator is out of the chain's set after every EndBlock, whatever the admin did meanwhile**: the
    EndBlocker skips jailed validators it meets in the index (forked SDK: `continue`), and no entry of the power
    table survives for one; its queried power is 0 -/
theorem c13_jailed_skipped (acc : LoopAcc) (v : Val) (hj : v.jailed = true) : visitVal acc v = .skip := by
  simp [visitVal, hj]

theorem c13_jailed_out (s s' : App) (ups : List (Nat × Int)) (h : s.stakingEndBlock = .ok (ups, s'))
    (op : Nat) (v : Val) (hv : s'.getVal op = some v) (hj : v.jailed = true) :
    alookup op s'.last = none ∧ s'.queryPower (some op) = some 0 := by
  have post := stakingEndBlock_post s s' ups h
  refine ⟨?_, query_zero_for_inactive s s' ups h op v hv (Or.inr hj)⟩
  cases hl : alookup op s'.last with
  | none => rfl
  | some p =>
    obtain ⟨w, g1, _, g3, _⟩ := post op p hl
    rw [hv] at g1; injection g1 with g1; subst g1
    rw [hj] at g3; cases g3

/-- staying out: only `MsgUnjail` clears the jailed flag — a PoA `SetPower` keeps it (the record it writes back is
    the one it read, with new amounts), so the validator is skipped again at the next EndBlock -/
theorem c13_setPower_keeps_jail (s s' : App) (v : Val) (n : Int) (h : s.setPOAPowerVal v n = .ok s') :
    ∃ w, s'.getVal v.op = some w ∧ w.jailed = v.jailed := by
  unfold setPOAPowerVal at h
  split at h
  · cases h
  · split at h
    · cases h
    · rename_i s1 _
      injection h with h
      subst h
      have spec := updateValidatorSet_spec (s1.bumpAbs (absDiff (powerOfInt n) (s.lastPower v.op))) n (powerOfInt n) { v with tokens := toUInt64 n }
      exact ⟨_, spec.1, rfl⟩

/-- **unjail** (by the operator, after the jail period): the validator re-enters the power index at the power
    implied by its current tokens — the admin-assigned amount less any slash -/
theorem c13_unjail (s s' : App) (v : Val) (d : Int) (h : s.unjailCheck v d = .ok s') :
    v.jailed = true ∧ ∃ w, s'.getVal v.op = some w ∧ w.jailed = false ∧ w.tokens = v.tokens ∧ (powerOf v.tokens, v.op) ∈ s'.index := by
  unfold unjailCheck at h
  split at h
  · cases h
  · dsimp only at h
    split at h
    · cases h
    · split at h
      · cases h
      · rename_i hj
        have hj' : v.jailed = true := by simpa using hj
        have fin : ∀ s2 : App, s2 = s.unjailVal v →
            ∃ w, s2.getVal v.op = some w ∧ w.jailed = false ∧ w.tokens = v.tokens ∧ (powerOf v.tokens, v.op) ∈ s2.index := by
          intro s2 e
          subst e
          refine ⟨{ v with jailed := false }, ?_, rfl, rfl, ?_⟩
          · unfold unjailVal
            rw [getVal_congr _ (s.setVal { v with jailed := false }) (by simp)]
            exact getVal_setVal_self _ _
          · simp only [unjailVal, setIdx, Bool.false_eq_true, ↓reduceIte]
            exact idxInsert_mem _ _
        split at h
        · split at h
          · cases h
          · split at h
            · cases h
            · injection h with h; exact ⟨hj', fin s' h.symm⟩
        · injection h with h; exact ⟨hj', fin s' h.symm⟩
where
  idxInsert_mem : ∀ (e : Nat × Nat) (l : List (Nat × Nat)), e ∈ idxInsert e l
    | e, [] => by simp [idxInsert]
    | e, x :: xs => by
      unfold idxInsert
      split
      · rename_i hx; rw [hx]; simp
      · split
        · simp
        · exact List.mem_cons_of_mem _ (idxInsert_mem e xs)

/-- downtime punishment jails: after `punish` the validator found under that consensus key is jailed -/
theorem c13_punish_jails (s s' : App) (k : Nat) (p : Int) (info i' : SignInfo) (h : s.punish k p info = .ok (s', i')) :
    i'.jailedUntil = s'.time + s'.jailNs ∧ i'.missed = 0 := by
  unfold punish at h
  split at h
  · cases h
  · split at h
    · cases h
    · injection h with h
      injection h with h1 h2
      subst h1; subst h2
      simp

/-- admin removal aimed at a jailed-and-unbonding, unbonding, or previously removed (unbonding/unbonded)
    validator fails cleanly; by C06 without effect -/
theorem c13_remove_nonbonded (s : App) (op : Nat) (v : Val) (hv : s.getVal op = some v) (hb : v.status ≠ .bonded) :
    ∃ e, s.removeCore (some op) = .error e := C04.c04_remove_needs_bonded s op v hv hb

/-- slashing never touches the PoA-owned state or the staking parameters -/
theorem c13_slashing_frame (votes : List Vote) (s s' : App) (h : slashingBegin votes s = .ok s') :
    s'.pending = s.pending ∧ s'.cached = s.cached ∧ s'.absCh = s.absCh ∧ s'.params = s.params :=
  let ⟨a, _, c, d, e, _, _⟩ := slashingBegin_same votes s s' h
  ⟨a, c, d, e⟩

/-! ### double-sign evidence (x/evidence's BeginBlocker, between x/slashing's and PoA's) -/

/-- accepted evidence against a known, not yet tombstoned validator that is not Unbonded leaves it tombstoned and
    jailed until the end of time -/
theorem c13_evidence_tombstones (s s' : App) (e : Evid) (v : Val) (info : SignInfo)
    (hv : s.valByKey e.key = some v) (hst : v.status ≠ .unbonded) (hi : s.getInfo e.key = some info) (ht : info.tomb = false)
    (h : s.handleEvidence e = .ok s') :
    ∃ i', s'.getInfo e.key = some i' ∧ i'.tomb = true ∧ i'.jailedUntil = tFar := by
  unfold handleEvidence at h
  have hst' : (v.status == Status.unbonded) = false := by
    cases hs : v.status <;> simp_all
  simp only [hv, hst', Bool.false_eq_true, ↓reduceIte, hi, ht] at h
  split at h
  · cases h
  · split at h
    · cases h
    · split at h
      · cases h
      · rename_i i hi2
        injection h with h
        subst h
        refine ⟨{ i with jailedUntil := tFar, tomb := true }, ?_, rfl, rfl⟩
        simp [getInfo, setInfo, alookup_ainsert_self]

/-- a tombstoned validator can never unjail: `MsgUnjail` is refused whatever the time, the tokens or the admin did -/
theorem c13_tombstoned_stays_jailed (s : App) (v : Val) (d : Int) (i : SignInfo)
    (hi : s.getInfo v.key = some i) (ht : i.tomb = true) :
    ∀ s', s.unjailCheck v d ≠ .ok s' := by
  intro s' h
  unfold unjailCheck at h
  split at h
  · cases h
  · dsimp only at h
    split at h
    · cases h
    · split at h
      · cases h
      · simp only [hi, ht, ↓reduceIte] at h
        cases h

/-- **C13, a jailed validator is not in CometBFT's next set — whatever the block's transactions did** (partial: the
    state enters the EndBlocker inside `Pre`): for every `Pre` state and every validator record with the jailed flag -/
theorem c13_jailed_out_partial (s s' : App) (c c' : CSet) (ups : List (Nat × Int)) (hpre : Pre s c = true)
    (h : s.stakingEndBlock = .ok (ups, s')) (hc : Comet.applyChangeSet c ups = .ok c')
    (op : Nat) (v : Val) (hv : s.getVal op = some v) (hj : v.jailed = true) :
    alookup v.key c' = none :=
  jailed_out_pre s s' c c' ups hpre h hc op v hv hj

/-- **C13, an un-jailed validator returns with the power of its tokens** (partial, `Pre`): once `Unjail` has
    cleared the flag and written the index entry, the next set carries `tokens / 10^6` for its key -/
theorem c13_return_partial (s s' : App) (c c' : CSet) (ups : List (Nat × Int)) (hpre : Pre s c = true)
    (h : s.stakingEndBlock = .ok (ups, s')) (hc : Comet.applyChangeSet c ups = .ok c')
    (op : Nat) (v : Val) (hv : s.getVal op = some v) (hcand : hasCandEntry s v = true) :
    alookup v.key c' = some ((powerOf v.tokens : Nat) : Int) :=
  effect_pre s s' c c' ups hpre h hc op v hv hcand

/-! ### along whole histories: punishments inside the envelope (`Lemmas/Quiet2`) -/

/-- what `G2` says about jailed and live validators -/
theorem c13_views_of_G2 (s : App) (c : CSet) (g2 : G2 s c) :
    (∀ v ∈ s.vals, v.jailed = true → s.queryPower (some v.op) = some 0 ∧ alookup v.key c = none ∧ v.status ≠ .bonded) ∧
    (∀ v ∈ s.vals, Active v → alookup v.key c = some ((powerOf v.tokens : Nat) : Int)) := by
  obtain ⟨hv, _⟩ := G2_views s c g2
  constructor
  · intro v hvm hj
    rcases hv v hvm with ⟨ha, _, _⟩ | ⟨hcls, h2', h3'⟩
    · rw [ha.2.1] at hj; cases hj
    · refine ⟨h2', h3', ?_⟩
      intro hb
      rcases hcls with hu | hjl
      · rw [hu.2.1] at hj; cases hj
      · exact g2.noLeaving v hvm (Or.inr ⟨hjl, hb⟩)
  · intro v hvm ha
    have := g2.allCur v hvm ha
    rw [this]; rfl

/-- **C13, along whole histories with downtime jailing and double-sign evidence**: from every well-formed genesis, along
    every quiet history in the wider sense (`QuietHistory2`) — in which x/slashing and x/evidence may punish: whoever
    they jail was a live validator not re-weighted in the previous block, and the shape of what their BeginBlockers did
    is the decidable `punShapeB` (the record is jailed, still bonded, possibly with fewer tokens; its index entries are
    gone; nothing else moved) —: the run reaches its end, no block halts, CometBFT accepts every update list, and after
    every block every jailed validator's query answer is 0 and CometBFT holds no entry under its key, while every live
    validator sits in CometBFT's set with exactly `tokens / 10^6`.  The jailed validator starts unbonding in the block
    of its punishment, stays queued for the unbonding period and remains as an unbonded record afterwards. -/
theorem c13_history_partial (g : Genesis) (hw : g.wf = true) (bs : List Block) (hq : QuietHistory2 g bs) :
    ∃ first steps, run genEnv g bs = some (first, steps, RunEnd.done) ∧ steps.length = bs.length ∧
      ∀ st ∈ first :: steps,
        (∀ v ∈ st.app.vals, v.jailed = true →
          st.app.queryPower (some v.op) = some 0 ∧ alookup v.key st.comet = none ∧ v.status ≠ .bonded) ∧
        (∀ v ∈ st.app.vals, Active v → alookup v.key st.comet = some ((powerOf v.tokens : Nat) : Int)) := by
  obtain ⟨first, steps, h1, h2, _, hg, h5⟩ := quiet_history2 g hw bs hq
  refine ⟨first, steps, h1, h2, ?_⟩
  intro st hst
  rcases List.mem_cons.mp hst with e | e
  · rw [e]; exact c13_views_of_G2 _ _ hg
  · exact c13_views_of_G2 _ _ (h5 st e).2

/-- **C13 when the admin's operations arrive through governance** (`QuietHistory3`, see `Props.C02.c02_governance`):
    jailing by x/slashing / x/evidence interleaved with executed proposals (lists of admin messages) — the conclusion of
    `c13_history_partial` -/
theorem c13_history_governance_partial (g : Genesis) (hw : g.wf = true) (bs : List Block) (hq : QuietHistory3 g bs) :
    ∃ first steps, run genEnv g bs = some (first, steps, RunEnd.done) ∧ steps.length = bs.length ∧
      ∀ st ∈ first :: steps,
        (∀ v ∈ st.app.vals, v.jailed = true →
          st.app.queryPower (some v.op) = some 0 ∧ alookup v.key st.comet = none ∧ v.status ≠ .bonded) ∧
        (∀ v ∈ st.app.vals, Active v → alookup v.key st.comet = some ((powerOf v.tokens : Nat) : Int)) := by
  obtain ⟨first, steps, h1, h2, _, hg, h5⟩ := quiet_history3 g hw bs hq
  refine ⟨first, steps, h1, h2, ?_⟩
  intro st hst
  rcases List.mem_cons.mp hst with e | e
  · rw [e]; exact c13_views_of_G2 _ _ hg
  · exact c13_views_of_G2 _ _ (h5 st e).2

/-- non-vacuity (kernel-checked, block by block): in the witness history `Q3` validator 3 misses three blocks and is
    jailed by x/slashing's BeginBlocker of block 5 (slash fraction 0 in this genesis) — the block in which the admin also removes
    validator 2 —; it unbonds, its unbonding period ends in block 7 and it stays as an unbonded jailed record; every
    block is quiet in the wider sense -/
example : quietBlock2B Witness.Q3.s3 Witness.Q3.c3 Witness.Q3.b4 = true := by decide
example : quietBlock2B Witness.Q3.s4 Witness.Q3.c4 Witness.Q3.b5 = true := by decide
example : quietBlock2B Witness.Q3.s6 Witness.Q3.c6 Witness.Q3.b7 = true := by decide
example : Witness.Q3.c4 = [(0, 12), (1, 10), (2, 10), (3, 10)] ∧ Witness.Q3.c5 = [(0, 12), (1, 10)] ∧
    (Witness.Q3.s5.getVal 3).map (fun v => (v.jailed, v.status, v.tokens)) = some (true, Status.unbonding, 10500000) ∧
    (Witness.Q3.s7.getVal 3).map (fun v => (v.jailed, v.status)) = some (true, Status.unbonded) ∧
    Witness.Q3.s7.getVal 2 = none := by decide

end PoaVerif.Props.C13
