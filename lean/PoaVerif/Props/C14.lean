import PoaVerif.Lemmas.Basic
import PoaVerif.Facts
/-
  C14 — SetPower input domain and unit conversion.
-/
namespace PoaVerif.Props.C14
open App

/-! Tie A side conditions: `MsgSetPower.Validate` rejects `Power < 1_000_000` and `Power > MaxInt64`, and checks
    the address -/
theorem facts_bounds : genLimitFacts.minPower = 1000000 ∧ genLimitFacts.maxInt64 = true := by decide
theorem facts_address : Generated.setPowerAddressChecked = true := by decide

/-- `SetPOAPower` and `UpdateValidatorSet`: the callees, in source order — the current power is x/staking's last validator
    power, the removal branch slashes, deletes the last power, the index entry and the missed-block bitmap, the other branch
    writes the last power and the index entry; then the running sum; `UpdateValidatorSet` writes the self-delegation, the
    record and the last power and recomputes the total -/
theorem facts_set_power_calls :
    Generated.setPOAPowerCalls =
      ["TokensToConsensusPower", "NewInt", "ValAddressFromBech32", "GetValidator", "GetLastValidatorPower", "NewIntFromUint64", "uint64",
       "GetCachedValue", "GetConsAddress", "BlockHeight", "UnwrapSDKContext", "TokensFromConsensusPower", "Slash", "GetConsAddress", "Int64",
       "LegacyOneDec", "DeleteLastValidatorPower", "DeleteValidatorByPowerIndex", "DeleteMissedBlockBitmap", "SetLastValidatorPower",
       "GetStakingKeeper", "SetValidatorByPowerIndex", "GetStakingKeeper", "Set", "uint64", "Abs", "float64",
       "IncreaseAbsoluteChangedInBlockPower", "UpdateValidatorSet"] ∧
    Generated.updateValidatorSetCalls =
      ["LegacyNewDec", "NewIntFromUint64", "uint64", "AccAddress", "Bytes", "SetDelegation", "SetValidator", "SetLastValidatorPower", "updateTotalPower"] := by decide
theorem facts_error : ("ErrPowerBelowMinimum", "2") ∈ Generated.errorsRegistry := by decide

/-- **C14a**: a power below 1,000,000 is rejected (whatever the validator state and the unsafe flag) -/
theorem c14_low (s : App) (op : Nat) (p : Nat) (u : Bool) (hp : p < 1000000) :
    setPowerMsg genLimitFacts s .admin (some op) p u = .error Err.powerBelowMin := by
  have h := facts_bounds
  simp [setPowerMsg, isAdmin, validateSetPower, h.1, hp]

/-- **C14b**: a power that is not a positive signed 64-bit token amount is rejected -/
theorem c14_high (s : App) (op : Nat) (p : Nat) (u : Bool) (hp : p ≥ 9223372036854775808) :
    setPowerMsg genLimitFacts s .admin (some op) p u = .error Err.invalidRequest := by
  have h := facts_bounds
  have h1 : ¬ p < 1000000 := by omega
  have h2 : p > 9223372036854775807 := by omega
  simp [setPowerMsg, isAdmin, validateSetPower, h.1, h.2, h1, h2]

theorem c14_malformed (s : App) (p : Nat) (u : Bool) :
    setPowerMsg genLimitFacts s .admin none p u = .error Err.invalidAddress := by
  simp [setPowerMsg, isAdmin, validateSetPower]

/-- shape of a successful `SetPOAPower`: its last step is `UpdateValidatorSet` with the new amounts -/
theorem setPOAPowerVal_shape (s s' : App) (v : Val) (n : Int) (h : s.setPOAPowerVal v n = .ok s') :
    ∃ s1 : App, s' = s1.updateValidatorSet n (powerOfInt n) { v with tokens := toUInt64 n } := by
  unfold setPOAPowerVal at h
  split at h
  · exact absurd h (by simp)
  · split at h
    · exact absurd h (by simp)
    · injection h with h; exact ⟨_, h.symm⟩

/-- core: a successful `SetPOAPower` leaves the validator with exactly the requested amounts -/
theorem setPOAPowerVal_exact (s s' : App) (v : Val) (p : Nat) (hp2 : p < 9223372036854775808)
    (h : s.setPOAPowerVal v (p : Int) = .ok s') :
    ∃ w, s'.getVal v.op = some w ∧ w.tokens = p ∧ w.shares = (p : Int) * E18 ∧
      alookup v.op s'.dels = some ((p : Int) * E18) ∧ alookup v.op s'.last = some ((p / PR : Nat) : Int) := by
  obtain ⟨s1, rfl⟩ := setPOAPowerVal_shape s s' v (p : Int) h
  have spec := updateValidatorSet_spec s1 (p : Int) (powerOfInt (p : Int)) { v with tokens := toUInt64 (p : Int) }
  simp only at spec
  obtain ⟨h1, h2, h3, _⟩ := spec
  refine ⟨_, h1, ?_, rfl, h2, ?_⟩
  · simp [toUInt64_nat p (by omega)]
  · rw [← powerOfInt_nat]; exact h3

/-- **C14c**: for every accepted value — both values of the unsafe flag, every validator state in which the
    message succeeds (bonded, jailed, unbonding, just admitted from the pending list) — the validator's
    tokens and self-delegation shares equal the requested amount exactly and its recorded voting power is that
    amount divided by the power reduction, rounded down -/
theorem c14_exact (s s' : App) (op : Nat) (p : Nat) (u : Bool)
    (h : setPowerMsg genLimitFacts s .admin (some op) p u = .ok s') :
    1000000 ≤ p ∧ p < 9223372036854775808 ∧
    ∃ w, s'.getVal op = some w ∧ w.tokens = p ∧ w.shares = (p : Int) * E18 ∧
      alookup op s'.dels = some ((p : Int) * E18) ∧ alookup op s'.last = some ((p / PR : Nat) : Int) := by
  have hf := facts_bounds
  by_cases hlo : p < 1000000
  · rw [c14_low s op p u hlo] at h; exact absurd h (by simp)
  by_cases hhi : p ≥ 9223372036854775808
  · rw [c14_high s op p u hhi] at h; exact absurd h (by simp)
  refine ⟨by omega, by omega, ?_⟩
  have h2 : ¬ p > 9223372036854775807 := by omega
  simp only [setPowerMsg, isAdmin, validateSetPower, hf.1, hf.2, hlo, h2] at h
  simp only [beq_self_eq_true, Bool.not_true, Bool.false_eq_true, ↓reduceIte, Option.isNone_some,
    decide_false, Bool.and_false, setPowerCore] at h
  rw [toInt64_small p (by omega)] at h
  -- the state the power is applied to: `s`, or `s` after admission of the pending applicant
  generalize s.admitIfPending (some op) = s1 at h
  simp only [setPOAPower] at h
  cases hv : s1.getVal op with
  | none => simp [hv] at h
  | some v =>
    simp only [hv] at h
    cases hr : s1.setPOAPowerVal v (p : Int) with
    | error e => simp [hr] at h
    | ok s2 =>
      simp only [hr] at h
      have hop := getVal_op s1 op v hv
      obtain ⟨w, hw1, hw2, hw3, hw4, hw5⟩ := setPOAPowerVal_exact s1 s2 v p (by omega) hr
      rw [hop] at hw1 hw4 hw5
      -- the limit check either fails or returns the state with the pools topped up
      have e := limitCheck_ok genLimitFacts s2 s' u h
      subst e
      exact ⟨w, by simpa using hw1, hw2, hw3, by simpa using hw4, by simpa using hw5⟩

/-- **C14d**: a request that would not change the validator's voting power is rejected (and by C06 without
    side effects) -/
theorem c14_same (s : App) (v : Val) (p : Nat) (h : powerOfInt (p : Int) = s.lastPower v.op) :
    s.setPOAPowerVal v (p : Int) = .error Err.plain := by
  simp [setPOAPowerVal, h]

/-- **C14e** (the unit conversion itself): the voting power of a request of `p` base units is the whole number of
    millions in `p` — never rounded up, never off by one: `power · 10⁶ ≤ p < (power + 1) · 10⁶` — it is monotone in
    `p`, and exact multiples convert exactly -/
theorem c14_floor (p : Nat) :
    powerOfInt (p : Int) * 1000000 ≤ (p : Int) ∧ (p : Int) < (powerOfInt (p : Int) + 1) * 1000000 := by
  rw [powerOfInt_nat]
  have e : PR = 1000000 := rfl
  rw [e]
  have := Nat.div_add_mod p 1000000
  have hm := Nat.mod_lt p (by decide : 1000000 > 0)
  omega

theorem c14_monotone (p q : Nat) (h : p ≤ q) : powerOfInt (p : Int) ≤ powerOfInt (q : Int) := by
  rw [powerOfInt_nat, powerOfInt_nat]
  exact Int.ofNat_le.mpr (Nat.div_le_div_right h)

theorem c14_multiples (k : Nat) : powerOfInt ((k * 1000000 : Nat) : Int) = k := by
  rw [powerOfInt_nat]
  have e : PR = 1000000 := rfl
  rw [e, Nat.mul_div_cancel k (by decide)]

/-- non-vacuity: 10 → 12.345678 units on a genesis validator: tokens 12345678, power 12 -/
def demo : App :=
  match App.initChain { maxVals := 10, unbond := 100, window := 4, minSigned := 2, jailNs := 5, slashDown := 0, minComm := 0,
                        vals := [⟨1, 1, 10000000⟩, ⟨2, 2, 7000000⟩] } with
  | .ok (_, s) => s
  | .error _ => App.emptyApp

example : (match setPowerMsg genLimitFacts demo .admin (some 1) 12345678 true with
           | .ok s' => decide ((s'.getVal 1).map (fun w => (w.tokens, w.shares)) = some (12345678, 12345678 * E18) ∧ s'.lastPower 1 = 12)
           | .error _ => false) = true := by decide

end PoaVerif.Props.C14
