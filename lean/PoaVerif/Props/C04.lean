import PoaVerif.Model.Spec
import PoaVerif.Witness.D2halt
import PoaVerif.Witness.D3
import PoaVerif.Witness.D4
import PoaVerif.Witness.D5
import PoaVerif.Facts
import PoaVerif.Lemmas.RunTotal
import PoaVerif.Lemmas.Quiet
import PoaVerif.Lemmas.Quiet2.Run
import PoaVerif.Lemmas.Quiet2.Gov
/-
  C04 — no transaction sequence halts the chain; updates are always valid for CometBFT.
  FALSE of the code as stated (defect classes D2–D7); machine-checked witnesses below, plus what is proved.
-/
namespace PoaVerif.Props.C04
open App

/-! Tie A side conditions for the guards the property names -/
theorem facts_guards : Generated.removeGuardCountsActive = true ∧ Generated.removeRequiresBonded = true ∧
    Generated.paramsValidatedBeforeSet = true ∧ genLimitFacts.minPower = 1000000 ∧ genLimitFacts.maxInt64 = true := by decide

theorem d2halt_realistic : Realistic genEnv Witness.D2halt.g Witness.D2halt.blocks
    ⟨⟨⟨[], Witness.D2halt.u0⟩, Witness.D2halt.s0, Witness.D2halt.c0⟩, Witness.D2halt.steps, Witness.D2halt.ending⟩ := by
  refine ⟨by decide, ?_, by decide⟩
  simp only [trace, Witness.D2halt.run_eq]

/-- **D2**: SetPower, later RemoveValidator: the stale index entry of the now zero-token validator ends x/staking's
    loop; every validator behind it is unbonded; here that empties the set and CometBFT refuses the update -/
theorem c04_D2_witness : ¬ C04_full genEnv := by
  intro h
  have := h _ _ _ d2halt_realistic
  revert this
  decide

theorem d3_realistic : Realistic genEnv Witness.D3.g Witness.D3.blocks
    ⟨⟨⟨[], Witness.D3.u0⟩, Witness.D3.s0, Witness.D3.c0⟩, Witness.D3.steps, Witness.D3.ending⟩ := by
  refine ⟨by decide, ?_, by decide⟩
  simp only [trace, Witness.D3.run_eq]

/-- **D3**: two successful SetPower on one validator in one block: the same key twice in the update list -/
theorem c04_D3_witness : ¬ C04_full genEnv := by
  intro h
  have := h _ _ _ d3_realistic
  revert this
  decide

theorem d4_realistic : Realistic genEnv Witness.D4.g Witness.D4.blocks
    ⟨⟨⟨[], Witness.D4.u0⟩, Witness.D4.s0, Witness.D4.c0⟩, Witness.D4.steps, Witness.D4.ending⟩ := by
  refine ⟨by decide, ?_, by decide⟩
  simp only [trace, Witness.D4.run_eq]

/-- **D4**: unsafe SetPower on a jailed validator: a removal update for a key that is not in the set -/
theorem c04_D4_witness : ¬ C04_full genEnv := by
  intro h
  have := h _ _ _ d4_realistic
  revert this
  decide

theorem d5_realistic : Realistic genEnv Witness.D5.g Witness.D5.blocks
    ⟨⟨⟨[], Witness.D5.u0⟩, Witness.D5.s0, Witness.D5.c0⟩, Witness.D5.steps, Witness.D5.ending⟩ := by
  refine ⟨by decide, ?_, by decide⟩
  simp only [trace, Witness.D5.run_eq]

/-- **D5**: SetPower, later downtime jail, later unjail: the stale entry makes x/staking meet the validator
    twice: duplicate update -/
theorem c04_D5_witness : ¬ C04_full genEnv := by
  intro h
  have := h _ _ _ d5_realistic
  revert this
  decide

/-! what holds: the guards -/

/-- the last active validator can be removed neither by the admin nor by itself -/
theorem c04_last_validator (s : App) (sg : Signer) (op : Nat) (v : Val) (hv : s.getVal op = some v)
    (hact : isActive v = true) (hone : (s.vals.filter isActive).length ≤ 1) :
    ∃ e, removeMsg s sg (some op) = .error e := by
  have core : ∃ e, s.removeCore (some op) = .error e := by
    unfold removeCore
    by_cases h1 : s.vals.length = 1
    · exact ⟨Err.plain, by simp [h1]⟩
    · simp only [h1, ↓reduceIte, hv]
      by_cases hb : v.status != .bonded
      · exact ⟨Err.invalidRequest, by simp [hb]⟩
      · exact ⟨Err.plain, by simp [hb, hact, hone]⟩
  unfold removeMsg
  by_cases ha : isAdmin sg = true
  · simpa [ha] using core
  · simp only [ha, Bool.false_eq_true, ↓reduceIte]
    by_cases hs : sg = .op op
    · simpa [hs] using core
    · exact ⟨Err.notAnAuthority, by simp [hs]⟩

/-- removal requires an existing, bonded target -/
theorem c04_remove_needs_bonded (s : App) (op : Nat) (v : Val) (hv : s.getVal op = some v) (hb : v.status ≠ .bonded) :
    ∃ e, s.removeCore (some op) = .error e := by
  unfold removeCore
  by_cases h1 : s.vals.length = 1
  · exact ⟨Err.plain, by simp [h1]⟩
  · exact ⟨Err.invalidRequest, by simp [h1, hv, hb]⟩

/-- an accepted power is at least one unit of voting power, so an assigned validator never has zero power -/
theorem c04_min_power (s s' : App) (op p : Nat) (u : Bool) (h : setPowerMsg genLimitFacts s .admin (some op) p u = .ok s') : p / PR ≥ 1 := by
  have hf := facts_guards.2.2.2.1
  unfold setPowerMsg at h
  simp only [isAdmin, beq_self_eq_true, Bool.not_true, Bool.false_eq_true, ↓reduceIte, validateSetPower, Option.isNone_some, hf] at h
  by_cases hp : p < 1000000
  · simp [hp] at h
  · unfold PR; omega

/-! ### what holds for every state inside the decidable region `Pre` (Model/Pre.lean)

  The defect classes D2–D7 are the ways a PoA message leaves the state outside `Pre`; inside it the EndBlocker is
  proved total and its update list acceptable, for every number of validators, every power, every queue content. -/

/-- **C04, one EndBlocker, every `Pre` state**: x/staking's EndBlocker (`ApplyAndReturnValidatorSetUpdates`, the pool
    transfer, `UnbondAllMatureValidators`) returns no error and does not panic; CometBFT accepts the update list — at
    most one update per key, no negative or oversized power, no removal of an absent key, a non-empty resulting set,
    total power within the maximum — and the resulting set is the chain's own -/
theorem c04_endblock_pre (s : App) (c : CSet) (h : Pre s c = true) :
    ∃ ups s' c', s.stakingEndBlock = .ok (ups, s') ∧ Comet.applyChangeSet c ups = .ok c' ∧ Agree c' s' :=
  stakingEndBlock_pre s c h

/-- **C04, whole histories (partial: histories inside `Pre` whose BeginBlockers succeed)**: by induction over the
    block list — any number of blocks, any transactions — the run reaches its end with one step per block: no
    EndBlocker halts, no update list is refused.  Missing against `C04_full`: histories that leave `Pre` (the known
    findings, witnesses above) and failures of x/slashing's BeginBlocker on votes of unknown validators. -/
theorem c04_partial (env : Env) (s : App) (c : CSet) (bs : List Block)
    (hpre : preAll env s c bs = true) (hbeg : beginOk env s c bs = true) :
    (runFrom env s c bs).2 = .done ∧ (runFrom env s c bs).1.length = bs.length :=
  runFrom_total env bs s c hpre hbeg

/-- **C04 for every power-adjustment history** (see `Props.C02.c02_power_adjustments` for the hypothesis): the run
    reaches its end with one step per block — block execution never returns an error or panics, and CometBFT accepts
    every update list -/
theorem c04_power_adjustments (g : Genesis) (hw : g.wf = true) (bs : List Block) (hq : QuietHistory g bs) :
    ∃ first steps, run genEnv g bs = some (first, steps, RunEnd.done) ∧ steps.length = bs.length := by
  obtain ⟨first, steps, h1, h2, _⟩ := quiet_history g hw bs hq
  exact ⟨first, steps, h1, h2⟩

/-- **C04 for every quiet history, removals included** (see `Props.C02.c02_removals` for the hypothesis): the run
    reaches its end with one step per block — neither the removals, nor the unbonding of the removed validators, nor
    the deletion of their matured records halts the chain, and CometBFT accepts every update list; the last active
    validator is never removed (`St.hasActive` is part of the invariant) -/
theorem c04_removals (g : Genesis) (hw : g.wf = true) (bs : List Block) (hq : QuietHistory2 g bs) :
    ∃ first steps, run genEnv g bs = some (first, steps, RunEnd.done) ∧ steps.length = bs.length ∧
      ∀ st ∈ first :: steps, ∃ v ∈ st.app.vals, Active v := by
  obtain ⟨first, steps, h1, h2, _, hg, h5⟩ := quiet_history2 g hw bs hq
  refine ⟨first, steps, h1, h2, ?_⟩
  intro st hst
  rcases List.mem_cons.mp hst with e | e
  · rw [e]; exact hg.st.hasActive
  · exact (h5 st e).2.st.hasActive

/-- non-vacuity: blocks of the D3 witness history before the double SetPower lie inside `Pre` with successful
    BeginBlockers -/
example : preAll genEnv Witness.D3.s0 Witness.D3.c0 [Witness.D3.b1] = true ∧ beginOk genEnv Witness.D3.s0 Witness.D3.c0 [Witness.D3.b1] = true := by decide

/-- **C04 when the admin's operations arrive through governance** (see `Props.C02.c02_governance` for the class): no
    executed proposal — whatever list of admin messages it carries within the class, and whether it goes through or
    fails — halts the chain or makes CometBFT refuse an update list, and some live validator remains after every block -/
theorem c04_governance (g : Genesis) (hw : g.wf = true) (bs : List Block) (hq : QuietHistory3 g bs) :
    ∃ first steps, run genEnv g bs = some (first, steps, RunEnd.done) ∧ steps.length = bs.length ∧
      ∀ st ∈ first :: steps, ∃ v ∈ st.app.vals, Active v := by
  obtain ⟨first, steps, h1, h2, _, hg, h5⟩ := quiet_history3 g hw bs hq
  refine ⟨first, steps, h1, h2, ?_⟩
  intro st hst
  rcases List.mem_cons.mp hst with e | e
  · rw [e]; exact hg.st.hasActive
  · exact (h5 st e).2.st.hasActive

end PoaVerif.Props.C04
