import PoaVerif.Lemmas.Basic
import PoaVerif.Facts
/-
  C15 — CreateValidator validates like x/staking and forces PoA's fixed fields.
-/
namespace PoaVerif.Props.C15
open App

/-! ### parity of the copied validation code with the SDK originals (Tie A: both sides are re-extracted) -/

/-- `CommissionRates.Validate`: PoA's copy and x/staking's original are the same sequence of (condition, error) cases -/
theorem c15_commission_parity : Generated.poaCommissionCases = Generated.sdkCommissionCases := by decide

/-- `Description.EnsureLength`: same five checks against the same SDK constants -/
theorem c15_length_parity : Generated.poaLengthChecks = Generated.sdkLengthChecks := by decide

/-- `MsgCreateValidator.Validate`: PoA's copy is x/staking's with exactly the three checks about the self-delegation
    value and the minimum self-delegation removed (PoA assigns no stake and forces min-self-delegation to 1) -/
def dropsValueChecks (c : String × String) : Bool :=
  c.1 == "!msg.Value.IsValid() || !msg.Value.Amount.IsPositive()" || c.1 == "!msg.MinSelfDelegation.IsPositive()" ||
  c.1 == "msg.Value.Amount.LT(msg.MinSelfDelegation)"

theorem c15_create_parity : Generated.poaCreateChecks = Generated.sdkCreateChecks.filter (fun c => !dropsValueChecks c) := by decide

/-! ### the model's validators are the interpretation of the extracted case lists -/

def condEval (rate maxRate maxChange : Int) : String → Option Bool
  | "cr.MaxRate.IsNegative()" => some (decide (maxRate < 0))
  | "cr.MaxRate.GT(LegacyOneDec())" => some (decide (maxRate > E18))
  | "cr.Rate.IsNegative()" => some (decide (rate < 0))
  | "cr.Rate.GT(cr.MaxRate)" => some (decide (rate > maxRate))
  | "cr.MaxChangeRate.IsNegative()" => some (decide (maxChange < 0))
  | "cr.MaxChangeRate.GT(cr.MaxRate)" => some (decide (maxChange > maxRate))
  | _ => none

def errOfName : String → Option Err
  | "ErrCommissionNegative" => some Err.commissionNegative
  | "ErrCommissionHuge" => some Err.commissionHuge
  | "ErrCommissionGTMaxRate" => some Err.commissionGTMaxRate
  | "ErrCommissionChangeRateNegative" => some Err.commissionChangeRateNegative
  | "ErrCommissionChangeRateGTMaxRate" => some Err.commissionChangeRateGTMaxRate
  | _ => none

/-- a Go `switch { case c: return E ... }; return nil` over the extracted cases; outer `none` = a condition or an
    error name the interpreter does not know -/
def evalCases (rate maxRate maxChange : Int) : List (String × String) → Option (Option Err)
  | [] => some none
  | (c, e) :: rest =>
    match condEval rate maxRate maxChange c, errOfName e with
    | some true, some err => some (some err)
    | some false, some _ => evalCases rate maxRate maxChange rest
    | _, _ => none

/-- **C15a**: for all rate triples (negatives, values above 1, 18-digit boundaries are ordinary integers here) the
    model's `validateCommission` is what the extracted source cases compute — for PoA's copy and, by parity, for
    x/staking's original -/
theorem c15_commission_model (r mr mc : Int) :
    evalCases r mr mc Generated.poaCommissionCases = some (validateCommission r mr mc) ∧
    evalCases r mr mc Generated.sdkCommissionCases = some (validateCommission r mr mc) := by
  rw [← c15_commission_parity]
  refine ⟨?_, ?_⟩ <;>
  · simp only [Generated.poaCommissionCases, evalCases, condEval, errOfName, validateCommission]
    by_cases h1 : mr < 0 <;> by_cases h2 : mr > E18 <;> by_cases h3 : r < 0 <;> by_cases h4 : r > mr <;>
      by_cases h5 : mc < 0 <;> by_cases h6 : mc > mr <;> simp [h1, h2, h3, h4, h5, h6]

/-- the length limits are x/staking's constants -/
theorem c15_length_consts : Generated.sdkLengthConsts =
    [("MaxMonikerLength", "70"), ("MaxIdentityLength", "3000"), ("MaxWebsiteLength", "140"), ("MaxSecurityContactLength", "140"), ("MaxDetailsLength", "280")] ∧
    Generated.poaLengthChecks = [("Moniker", "> MaxMonikerLength"), ("Identity", "> MaxIdentityLength"), ("Website", "> MaxWebsiteLength"),
      ("SecurityContact", "> MaxSecurityContactLength"), ("Details", "> MaxDetailsLength")] ∧ maxLens = [70, 3000, 140, 140, 280] := by decide

theorem facts_handler : Generated.createStepsPresentInOrder = true ∧ ("CreateValidator", "none") ∈ Generated.handlerGuards := by decide

/-! ### the handler -/

/-- what makes an application acceptable: exactly x/staking's rules for operator, key, description and commission -/
def acceptable (s : App) (c : CreateArgs) : Prop :=
  ∃ key, c.key = some key ∧
    ¬ (c.lens.all (· == 0)) ∧ validateCommission c.rate c.maxRate c.maxChange = none ∧
    c.rate ≥ s.params.minComm ∧ s.getVal c.op = none ∧ s.valByKey key = none ∧
    pendingClash c.op key s.pending = none ∧ lensOk c.lens maxLens = true ∧ key < 100

/-- **C15b**: `CreateValidator` (signed by the operator) is accepted exactly when the application is acceptable;
    an accepted application carries zero tokens and minimum self-delegation 1 whatever the message asked for, is
    appended to the pending list, and changes no validator, power or parameter -/
theorem c15_handler (s : App) (c : CreateArgs) :
    (∃ s', createMsg s (.op c.op) c = .ok s') ↔ acceptable s c := by
  constructor
  · rintro ⟨s', h⟩
    unfold createMsg at h
    split at h
    · cases h
    · split at h
      · cases h
      · rename_i hval
        split at h
        · cases h
        · rename_i hrate
          split at h
          · cases h
          · rename_i hop
            split at h
            · cases h
            · rename_i key hkey
              split at h
              · cases h
              · rename_i hcons
                split at h
                · cases h
                · rename_i hclash
                  split at h
                  · cases h
                  · rename_i hlens
                    split at h
                    · cases h
                    · rename_i htype
                      -- collect
                      unfold validateCreate at hval
                      rw [hkey] at hval
                      simp only [Option.isNone_some, Bool.false_eq_true, ↓reduceIte] at hval
                      split at hval
                      · cases hval
                      · rename_i hempty
                        refine ⟨key, hkey, by simpa using hempty, hval, by omega, ?_, ?_, hclash, by simpa using hlens, by omega⟩
                        · cases hg : s.getVal c.op with
                          | none => rfl
                          | some v => simp [hg] at hop
                        · cases hg : s.valByKey key with
                          | none => rfl
                          | some v => simp [hg] at hcons
  · rintro ⟨key, hk, h1, h2, h3, h4, h5, h6, h7, h8⟩
    have h3' : ¬ c.rate < s.params.minComm := by omega
    have h8' : ¬ key ≥ 100 := by omega
    have h1' : (c.lens.all (· == 0)) = false := by simpa using h1
    simp [createMsg, validateCreate, hk, h1', h2, h3', h4, h5, h6, h7, h8']

theorem c15_fixed_fields (s s' : App) (sg : Signer) (c : CreateArgs) (h : createMsg s sg c = .ok s') :
    ∃ p, s'.pending = s.pending ++ [p] ∧ p.op = c.op ∧ some p.key = c.key ∧ p.tokens = 0 ∧ p.minSelf = 1 ∧
      s'.vals = s.vals ∧ s'.last = s.last ∧ s'.dels = s.dels ∧ s'.params = s.params ∧ s'.notBonded = s.notBonded := by
  unfold createMsg at h
  split at h
  · cases h
  · split at h
    · cases h
    · split at h
      · cases h
      · split at h
        · cases h
        · split at h
          · cases h
          · rename_i key hkey
            split at h
            · cases h
            · split at h
              · cases h
              · split at h
                · cases h
                · split at h
                  · cases h
                  · cases h
                    refine ⟨⟨c.op, key, 0, 1, c.lens.map (fun (n : Nat) => (n : Int)) ++ [c.rate, c.maxRate, c.maxChange]⟩, ?_, rfl, ?_, rfl, rfl, ?_, ?_, ?_, ?_, ?_⟩
                    · simp
                    · simp [hkey]
                    all_goals simp

/-- "never transfers funds": the only balance effect is `UpdateBondedPoolPower`'s top-up, which is zero whenever
    the bonded pool already covers the delegation shares (defect D9b is the case where it does not) -/
theorem c15_no_funds (s : App) (h : sumInts (s.dels.map (fun d => decRound d.2)) ≤ s.bonded) :
    s.updateBondedPool = s := by
  unfold updateBondedPool
  dsimp only
  have : ¬ sumInts (s.dels.map (fun d => decRound d.2)) > s.bonded := by omega
  simp [this]

end PoaVerif.Props.C15
