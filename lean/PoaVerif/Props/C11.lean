import PoaVerif.Facts
import PoaVerif.Model.Spec
import PoaVerif.Lemmas.Basic
import PoaVerif.Witness.D9a
import PoaVerif.Witness.D9b
/-
  C11 — pool accounting and bond-denom supply follow the admin's power assignments.
  FALSE of the code as stated (defect D9); witnesses, and what holds.
-/
namespace PoaVerif.Props.C11
open App

/-- `UpdateBondedPoolPower`: all delegations are read at once and every one of them is summed; the difference to the
    bonded pool's balance is minted -/
theorem facts_pool_calls : Generated.updateBondedPoolCalls =
    ["ZeroInt", "GetAllDelegations", "Add", "RoundInt", "BondDenom", "GetBalance", "NewModuleAddress", "Equal", "GT", "Sub", "NewCoins", "NewCoin",
     "MintCoins", "SendCoinsFromModuleToModule"] := by decide

theorem d9a_realistic : Realistic genEnv Witness.D9a.g Witness.D9a.blocks
    ⟨⟨⟨[], Witness.D9a.u0⟩, Witness.D9a.s0, Witness.D9a.c0⟩, Witness.D9a.steps, Witness.D9a.ending⟩ := by
  refine ⟨by decide, ?_, by decide⟩
  simp only [trace, Witness.D9a.run_eq]

/-- **D9a**: a decrease (10 → 9 units) leaves the excess in the bonded pool: `UpdateBondedPoolPower` never burns -/
theorem c11_D9a_witness : ¬ C11_full genEnv := by
  intro h
  have := h _ _ _ d9a_realistic ⟨Witness.D9a.o2, Witness.D9a.s2, Witness.D9a.c2⟩ (by simp [Witness.D9a.steps])
  revert this
  decide

theorem d9b_realistic : Realistic genEnv Witness.D9b.g Witness.D9b.blocks
    ⟨⟨⟨[], Witness.D9b.u0⟩, Witness.D9b.s0, Witness.D9b.c0⟩, Witness.D9b.steps, Witness.D9b.ending⟩ := by
  refine ⟨by decide, ?_, by decide⟩
  simp only [trace, Witness.D9b.run_eq]

/-- **D9b**: any PoA message — here a stranger's CreateValidator — while a validator is jailed (its tokens sit in
    the not-bonded pool, its delegation shares are still counted) mints that validator's stake a second time -/
theorem c11_D9b_witness : ¬ C11_full genEnv := by
  intro h
  have := h _ _ _ d9b_realistic ⟨Witness.D9b.o7, Witness.D9b.s7, Witness.D9b.c7⟩ (by simp [Witness.D9b.steps])
  revert this
  decide

/-- supply moved by the stranger's application: 40 → 50 million -/
theorem c11_D9b_supply : Witness.D9b.s6.supply = 40000000 ∧ Witness.D9b.s7.supply = 50000000 := by decide

/-! what holds for every state -/

/-- `UpdateBondedPoolPower` only ever mints into the bonded pool, exactly the shortfall against the sum of all
    delegation shares; it credits or debits nothing else -/
theorem c11_topup (s : App) :
    let t := sumInts (s.dels.map (fun d => decRound d.2))
    s.updateBondedPool.bonded = (if t > s.bonded then t else s.bonded) ∧
    s.updateBondedPool.supply - s.supply = s.updateBondedPool.bonded - s.bonded ∧
    s.updateBondedPool.notBonded = s.notBonded := by
  unfold updateBondedPool
  dsimp only
  split
  · refine ⟨?_, ?_, rfl⟩ <;> simp only <;> omega
  · refine ⟨rfl, ?_, rfl⟩; omega

/-- after the top-up the bonded pool covers the delegation shares -/
theorem c11_covered (s : App) : s.updateBondedPool.bonded ≥ sumInts (s.dels.map (fun d => decRound d.2)) := by
  have := (c11_topup s).1
  rw [this]
  split <;> omega

/-- the top-up is idempotent: a second `UpdateBondedPoolPower` with no delegation change in between mints nothing
    (every PoA handler calls it; several PoA messages in one block therefore mint the shortfall once) -/
theorem c11_topup_idempotent (s : App) : s.updateBondedPool.updateBondedPool = s.updateBondedPool := by
  have hd : s.updateBondedPool.dels = s.dels := by
    unfold updateBondedPool; dsimp only; split <;> rfl
  have hc := c11_covered s
  rw [← hd] at hc
  generalize s.updateBondedPool = t at hc
  unfold updateBondedPool
  dsimp only
  split
  · omega
  · rfl

/-- it never burns: supply and bonded pool are monotone under it (the decrease half of C11's clause is therefore
    never performed by PoA — finding D9a) -/
theorem c11_topup_never_burns (s : App) :
    s.updateBondedPool.supply ≥ s.supply ∧ s.updateBondedPool.bonded ≥ s.bonded := by
  obtain ⟨h1, h2, _⟩ := c11_topup s
  rw [h1] at h2 ⊢
  split at h2 <;> split <;> omega
/-- pool transfers at EndBlock conserve the sum of the two pools and leave the supply alone -/
theorem c11_movePools (s s' : App) (a b : Int) (h : s.movePools a b = .ok s') :
    s'.bonded + s'.notBonded = s.bonded + s.notBonded ∧ s'.supply = s.supply := by
  unfold movePools at h
  split at h
  · dsimp only at h
    split at h
    · cases h
    · cases h; simp; omega
  · split at h
    · dsimp only at h
      split at h
      · cases h
      · cases h; simp; omega
    · cases h; exact ⟨rfl, rfl⟩

/-- a slash burns from exactly one pool and from the supply by the same amount -/
theorem c11_burn (s s' : App) (st : Status) (b : Int) (h : s.burnTokens st b = .ok s') :
    s'.supply = s.supply - b ∧ s'.bonded + s'.notBonded = s.bonded + s.notBonded - b := by
  unfold burnTokens at h
  split at h <;> split at h
  · cases h
  · cases h; simp; omega
  · cases h
  · cases h; simp; omega

end PoaVerif.Props.C11
