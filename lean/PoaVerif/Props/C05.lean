import PoaVerif.Lemmas.Basic
import PoaVerif.Facts
import PoaVerif.Props.C06
/-
  C05 — per-block 30 % limit on voting-power change for safe SetPower.
-/
namespace PoaVerif.Props.C05
open App

/-! Tie A side conditions -/

/-- `percent := (totalChanged * 100) / cachedPower`, rejected when `percent >= 30`, checked when
    `!msg.Unsafe && height > 1`; the BeginBlocker resets at `height > 1` -/
theorem facts_limit : genLimitFacts.mul = 100 ∧ genLimitFacts.pct = 30 ∧ genLimitFacts.ge = true ∧
    genLimitFacts.heightGate = 1 ∧ genLimitFacts.beginGate = 1 := by decide

theorem facts_bookkeeping :
    Generated.limitZeroCachedRejected = true ∧ Generated.setPowerStepOffsetsAscending = true ∧
    Generated.beginResetsBoth = true ∧ Generated.resetCachedUsesLastTotal = true ∧ Generated.resetAbsoluteSetsZero = true ∧
    Generated.increaseAddsToStored = true ∧ Generated.setPoaPowerAbsDiff = true ∧ Generated.beginPrunesCache = true := by decide

theorem facts_error : ("ErrUnsafePower", "4") ∈ Generated.errorsRegistry := by decide

/-- poa's BeginBlocker runs after x/slashing's and before x/staking's; poa has no EndBlocker work before staking's -/
theorem facts_order :
    Generated.beginBlockers.idxOf "slashingtypes.ModuleName" < Generated.beginBlockers.idxOf "poa.ModuleName" ∧
    Generated.beginBlockers.idxOf "poa.ModuleName" < Generated.beginBlockers.idxOf "stakingtypes.ModuleName" ∧
    Generated.beginBlockers.idxOf "stakingtypes.ModuleName" < Generated.beginBlockers.length := by decide

/-! arithmetic of the comparison -/

theorem percent_ge_iff (a c : Nat) (hc : 0 < c) : a * 100 / c ≥ 30 ↔ a * 100 ≥ 30 * c := by
  constructor
  · intro h
    have := (Nat.le_div_iff_mul_le hc).mp h
    omega
  · intro h
    exact (Nat.le_div_iff_mul_le hc).mpr (by omega)

/-- **C05a** (decision): at a height above 1, without the unsafe flag, after the power was applied: the message
    is rejected with ErrUnsafePower exactly when the cached total is zero or the running sum of absolute
    changes (its own included) is at least 30 % of the cached total; otherwise it succeeds.  (No 64-bit
    wrap-around: the sum is below 2^64/100 whenever every power is a token amount below 2^63 divided by 10^6.) -/
theorem c05_decision (s : App) (hh : s.height > 1) (hw : s.absCh * 100 < U64) :
    limitCheck genLimitFacts s false =
      if s.cached = 0 ∨ s.absCh * 100 ≥ 30 * s.cached then .error Err.unsafePower else .ok s.updateBondedPool := by
  obtain ⟨h1, h2, h3, h4, _⟩ := facts_limit
  unfold limitCheck limitExceeded
  rw [h1, h2, h3, h4]
  have : (s.absCh * 100) % U64 = s.absCh * 100 := Nat.mod_eq_of_lt hw
  rw [this]
  simp only [Bool.not_false, Bool.true_and, decide_eq_true_eq, hh, ↓reduceIte]
  by_cases hc : s.cached = 0
  · simp [hc]
  · have hc' : 0 < s.cached := Nat.pos_of_ne_zero hc
    have := percent_ge_iff s.absCh s.cached hc'
    by_cases hx : s.absCh * 100 / s.cached ≥ 30
    · have h5 := this.mp hx
      simp [hc, hx, h5]
    · have h5 : ¬ s.absCh * 100 ≥ 30 * s.cached := fun hh => hx (this.mpr hh)
      simp only [hc, false_or, h5, ↓reduceIte]
      have : ¬ 30 ≤ s.absCh * 100 / s.cached := hx
      simp [this]

/-- so: a safe SetPower succeeds only if the running sum is strictly less than 30 % of the cached total -/
theorem c05_strict (s s' : App) (hh : s.height > 1) (hw : s.absCh * 100 < U64)
    (h : limitCheck genLimitFacts s false = .ok s') : s.cached > 0 ∧ s.absCh * 100 < 30 * s.cached := by
  rw [c05_decision s hh hw] at h
  by_cases hc : s.cached = 0 ∨ s.absCh * 100 ≥ 30 * s.cached
  · simp [hc] at h
  · have : ¬ s.cached = 0 ∧ ¬ s.absCh * 100 ≥ 30 * s.cached := by
      constructor
      · exact fun e => hc (Or.inl e)
      · exact fun e => hc (Or.inr e)
    omega

/-- **C05b** (bypass): only the unsafe flag — which only the admin can send (C01) — or a height of at most 1
    skips the comparison -/
theorem c05_bypass_unsafe (s : App) : limitCheck genLimitFacts s true = .ok s.updateBondedPool := by
  simp [limitCheck]

theorem c05_bypass_genesis (s : App) (u : Bool) (hh : s.height ≤ 1) : limitCheck genLimitFacts s u = .ok s.updateBondedPool := by
  have := facts_limit.2.2.2.1
  unfold limitCheck
  rw [this]
  have : ¬ s.height > 1 := by omega
  simp [this]

/-- **C05c** (the running sum): every successful `SetPOAPower` — safe or unsafe change, admission, removal — adds
    the absolute difference between the new and the previous voting power -/
theorem c05_sum (s s' : App) (v : Val) (n : Int) (h : s.setPOAPowerVal v n = .ok s') :
    s'.absCh = (s.absCh + (powerOfInt n - s.lastPower v.op).natAbs) % U64 := by
  unfold setPOAPowerVal at h
  split at h
  · exact absurd h (by simp)
  · split at h
    · exact absurd h (by simp)
    · rename_i s1 hs1
      injection h with h
      subst h
      have spec := updateValidatorSet_spec (s1.bumpAbs (absDiff (powerOfInt n) (s.lastPower v.op)))
        n (powerOfInt n) { v with tokens := toUInt64 n }
      simp only at spec
      rw [spec.2.2.2.1]
      simp only [absDiff, bumpAbs]
      -- the branch (removal or assignment) leaves the running sum alone
      have : s1.absCh = s.absCh := by
        unfold poaBranch at hs1
        split at hs1
        · unfold poaRemoveBranch at hs1
          split at hs1
          · exact absurd hs1 (by simp)
          · rename_i s2 hsl
            injection hs1 with hs1
            subst hs1
            have := slash_frame _ _ _ _ _ _ hsl
            simpa using this.2.2.2.1
        · injection hs1 with hs1
          subst hs1
          simp [poaAssignBranch]
      rw [this]

/-- admission of a pending validator (which precedes `SetPOAPower` in the handler) does not touch the sum or
    the cached total -/
theorem c05_admit_frame (s : App) (t : Option Nat) : (s.admitIfPending t).absCh = s.absCh ∧ (s.admitIfPending t).cached = s.cached := by
  unfold admitIfPending
  cases t with
  | none => exact ⟨rfl, rfl⟩
  | some op =>
    simp only
    cases s.pendingFind op with
    | none => exact ⟨rfl, rfl⟩
    | some p => simp [acceptNew, setInfo, removePending, setNewIdx, setVal]

/-- **C05d** (reset): the BeginBlocker of every block above height 1 zeroes the running sum and caches the
    total power x/staking recorded at the end of the previous block -/
theorem c05_reset (s s' : App) (hh : s.height > 1) (h : poaBegin genLimitFacts s = .ok s') :
    s'.absCh = 0 ∧ (s'.cached : Int) = s.lastTotal := by
  unfold poaBegin at h
  have hg := facts_limit.2.2.2.2
  cases hp : pruneUpdated s.updated s with
  | error e => simp [hp] at h
  | ok s1 =>
    simp only [hp, hg] at h
    have hl : s1.lastTotal = s.lastTotal ∧ s1.height = s.height := by
      -- pruning only deletes index entries
      have gen : ∀ (l : List Nat) (a b : App), pruneUpdated l a = .ok b → b.lastTotal = a.lastTotal ∧ b.height = a.height := by
        intro l
        induction l with
        | nil => intro a b hab; simp [pruneUpdated] at hab; subst hab; exact ⟨rfl, rfl⟩
        | cons x xs ih =>
          intro a b hab
          simp only [pruneUpdated] at hab
          cases hv : a.getVal x with
          | none => simp [hv] at hab
          | some v =>
            simp only [hv] at hab
            have := ih _ _ hab
            simpa [delIdx] using this
      exact gen _ _ _ hp
    have hh1 : s1.height > 1 := by rw [hl.2]; exact hh
    simp only [hh1, ↓reduceIte] at h
    split at h
    · exact absurd h (by simp)
    · rename_i hneg
      injection h with h
      subst h
      simp only [Bool.or_eq_true, decide_eq_true_eq, not_or, Int.not_lt] at hneg
      refine ⟨rfl, ?_⟩
      simp only
      rw [hl.1] at hneg ⊢
      exact Int.toNat_of_nonneg hneg.1

/-- below or at height 1 nothing is reset (genesis caches stand) -/
theorem c05_no_reset_genesis (s s' : App) (hh : s.height ≤ 1) (hu : s.updated = []) (h : poaBegin genLimitFacts s = .ok s') :
    s'.absCh = s.absCh ∧ s'.cached = s.cached := by
  unfold poaBegin at h
  have hg := facts_limit.2.2.2.2
  simp only [hu, pruneUpdated, hg] at h
  have : ¬ s.height > 1 := by omega
  simp only [this, ↓reduceIte] at h
  injection h with h; subst h; exact ⟨rfl, rfl⟩

/-! The last clause of the property — "the reference total is the true total voting power of the previous
    block's validator set" — is FALSE of the code (defect D8): x/staking recomputes LastTotalPower while meeting
    an updated validator twice.  The machine-checked witness (four validators of power 10, one set to 11:
    CometBFT's total is 41, the total cached by the next BeginBlocker is 52) is `Witness.D8` (generated step
    certificates, each checked by `decide`), stated in PoaVerif/Props/C05W.lean. -/

/-! "… and is not consumed by transactions that fail" -/

/-- **C05f**: a transaction that fails — at the ante handler, on a wrong sequence, at any message position (a
    successful SetPower followed by a failing message included), by panic — leaves the running sum and the cached
    total exactly as they were, so the next safe SetPower is judged as if the failed one had never been sent -/
theorem c05_failed_not_consumed (env : Env) (s : App) (incs : List (Signer × Nat)) (tx : Tx)
    (h : (runTx env s incs tx).1 ≠ .ok) :
    (runTx env s incs tx).2.1.absCh = s.absCh ∧ (runTx env s incs tx).2.1.cached = s.cached ∧
    ∀ u, limitCheck genLimitFacts (runTx env s incs tx).2.1 u = limitCheck genLimitFacts s u := by
  rw [C06.c06_tx env s incs tx h]
  exact ⟨rfl, rfl, fun _ => rfl⟩

/-- the same for an executed governance proposal whose message list fails at any position -/
theorem c05_failed_proposal_not_consumed (env : Env) (sg : Signer) (ms : List Msg) (rest : List (List Msg)) (s : App)
    (acc : List TxR) (hfail : ∀ s', handleList env.lim s sg ms ≠ .ok s') :
    (runGov env sg (ms :: rest) s acc).2 = (runGov env sg rest s acc).2 :=
  C06.c06_gov_proposal env sg ms rest s acc hfail

end PoaVerif.Props.C05
