import PoaVerif.Model.Chain
/-
  C06 — a rejected PoA message leaves no trace.
  `runTx` is defined as BaseApp.runTx is: the messages run on a branch of the state that is dropped on the
  first error (the handlers themselves are mutate-then-check, like the Go code).
-/
namespace PoaVerif.Props.C06
open App

/-- **C06a**: whatever the reason of the failure (ante rejection, wrong sequence, any handler error at any
    message position, a panic, an unmodelled failure), the state after the transaction is the state before
    it — every component: validators, powers, pending list, change budget, slashing records, pools, supply -/
theorem c06_tx (env : Env) (s : App) (incs : List (Signer × Nat)) (tx : Tx) (h : (runTx env s incs tx).1 ≠ .ok) :
    (runTx env s incs tx).2.1 = s := by
  unfold runTx at h ⊢
  by_cases hs : tx.seqOff ≠ seqOf incs tx.signer
  · simp [hs]
  · cases ha : Ante.run env.ante env.limiter s.height tx.msgs with
    | some e => simp [hs, ha]
    | none =>
      cases hh : handleList env.lim s tx.signer tx.msgs with
      | ok s' => simp [hs, ha, hh] at h
      | err e => simp [hs, ha, hh]
      | unknown => simp [hs, ha, hh]

/-- a later message of the same transaction failing undoes the earlier ones: the handler-level state after
    the first message is *not* the committed one -/
theorem c06_later_message (lf : LimitFacts) (s s1 : App) (sg : Signer) (m1 m2 : Msg) (e : Err)
    (h1 : handle lf s sg m1 = .ok s1) (h2 : handle lf s1 sg m2 = .err e) :
    handleList lf s sg [m1, m2] = .err e := by
  simp [handleList, h1, h2]

/-! block level: the block commits what it would have committed without the failing transaction -/

theorem find_filter_ne (incs : List (Signer × Nat)) (sg sg' : Signer) (h : sg' ≠ sg) :
    (incs.filter (fun p => p.1 != sg)).find? (fun p => p.1 == sg') = incs.find? (fun p => p.1 == sg') := by
  induction incs with
  | nil => rfl
  | cons p ps ih =>
    by_cases hp : p.1 = sg
    · have hne : (p.1 == sg') = false := by
        rw [hp]; simp; exact fun e => h e.symm
      have hb : (p.1 != sg) = false := by simp [hp]
      rw [List.filter_cons, List.find?_cons, hne]
      simp only [hb, Bool.false_eq_true, ↓reduceIte]
      exact ih
    · have hb : (p.1 != sg) = true := by simp [hp]
      rw [List.filter_cons, List.find?_cons]
      simp only [hb, ↓reduceIte]
      rw [List.find?_cons, ih]

theorem seqOf_seqBump_ne (incs : List (Signer × Nat)) (sg sg' : Signer) (h : sg' ≠ sg) :
    seqOf (seqBump incs sg) sg' = seqOf incs sg' := by
  unfold seqOf seqBump
  have : ((sg, seqOf incs sg + 1).1 == sg') = false := by simp; exact fun hh => h hh.symm
  simp only [List.find?, this]
  rw [find_filter_ne incs sg sg' h]

/-- sequence bookkeeping of other signers does not matter to a transaction -/
def agreeOn (a b : List (Signer × Nat)) (sgs : List Signer) : Prop := ∀ sg ∈ sgs, seqOf a sg = seqOf b sg

theorem runTx_agree (env : Env) (s : App) (a b : List (Signer × Nat)) (tx : Tx) (h : seqOf a tx.signer = seqOf b tx.signer) :
    (runTx env s a tx).1 = (runTx env s b tx).1 ∧ (runTx env s a tx).2.1 = (runTx env s b tx).2.1 := by
  unfold runTx
  rw [h]
  split
  · simp
  · split
    · simp
    · cases handleList env.lim s tx.signer tx.msgs <;> simp

theorem seqOf_seqBump_self (incs : List (Signer × Nat)) (sg : Signer) : seqOf (seqBump incs sg) sg = seqOf incs sg + 1 := by
  unfold seqBump
  conv => lhs; unfold seqOf
  simp [List.find?]
  rfl

theorem runTx_incs (env : Env) (s : App) (a : List (Signer × Nat)) (tx : Tx) :
    (runTx env s a tx).2.2 = a ∨ (runTx env s a tx).2.2 = seqBump a tx.signer := by
  unfold runTx
  split
  · left; rfl
  · split
    · left; rfl
    · right; cases handleList env.lim s tx.signer tx.msgs <;> rfl

theorem runTx_incs_agree (env : Env) (s : App) (a b : List (Signer × Nat)) (tx : Tx) (sgs : List Signer)
    (hmem : tx.signer ∈ sgs) (h : agreeOn a b sgs) :
    agreeOn (runTx env s a tx).2.2 (runTx env s b tx).2.2 sgs := by
  have hs := h tx.signer hmem
  unfold runTx
  rw [hs]
  split
  · exact h
  · split
    · exact h
    · have hb : agreeOn (seqBump a tx.signer) (seqBump b tx.signer) sgs := by
        intro sg hsg
        by_cases he : sg = tx.signer
        · subst he; rw [seqOf_seqBump_self, seqOf_seqBump_self, h _ hsg]
        · rw [seqOf_seqBump_ne _ _ _ he, seqOf_seqBump_ne _ _ _ he, h _ hsg]
      cases handleList env.lim s tx.signer tx.msgs <;> exact hb

/-- results and final state of a run of transactions depend on the sequence bookkeeping only through the
    signers that occur -/
theorem runTxs_agree (env : Env) :
    ∀ (txs : List Tx) (s : App) (a b : List (Signer × Nat)) (acc : List TxR),
      agreeOn a b (txs.map (·.signer)) → runTxs env txs s a acc = runTxs env txs s b acc
  | [], _, _, _, _, _ => rfl
  | tx :: rest, s, a, b, acc, h => by
    simp only [runTxs]
    have hs : seqOf a tx.signer = seqOf b tx.signer := h tx.signer (by simp)
    have ⟨h1, h2⟩ := runTx_agree env s a b tx hs
    rw [h1, h2]
    apply runTxs_agree env rest
    have := runTx_incs_agree env s a b tx ((tx :: rest).map (·.signer)) (by simp) h
    intro sg hsg
    exact this sg (by simp at hsg ⊢; right; exact hsg)

/-- the accumulated results only prefix the output -/
theorem runTxs_state_acc (env : Env) :
    ∀ (txs : List Tx) (s : App) (a : List (Signer × Nat)) (acc acc' : List TxR),
      (runTxs env txs s a acc).2 = (runTxs env txs s a acc').2
  | [], _, _, _, _ => rfl
  | tx :: rest, s, a, acc, acc' => by simp only [runTxs]; exact runTxs_state_acc env rest _ _ _ _

/-- **C06b**: inside a block, a failing transaction (whose signer signs nothing later in the block, so that
    sequence numbers of the remaining transactions keep their meaning) can be deleted without changing
    the state the remaining transactions produce -/
theorem c06_runTxs (env : Env) (tx : Tx) (rest : List Tx) (s : App) (incs : List (Signer × Nat)) (acc : List TxR)
    (hfail : (runTx env s incs tx).1 ≠ .ok) (hsig : ∀ t ∈ rest, t.signer ≠ tx.signer) :
    (runTxs env (tx :: rest) s incs acc).2 = (runTxs env rest s incs acc).2 := by
  simp only [runTxs]
  rw [c06_tx env s incs tx hfail]
  rw [runTxs_state_acc env rest s _ (acc ++ [(runTx env s incs tx).1]) acc]
  have hag : agreeOn (runTx env s incs tx).2.2 incs (rest.map (·.signer)) := by
    intro sg hsg
    rcases runTx_incs env s incs tx with h | h
    · rw [h]
    · rw [h]
      have : sg ≠ tx.signer := by
        simp at hsg
        obtain ⟨t, ht, rfl⟩ := hsg
        exact hsig t ht
      exact seqOf_seqBump_ne _ _ _ this
  rw [runTxs_agree env rest s _ incs acc hag]

/-- the sequence bookkeeping after a prefix of transactions -/
def preIncs (env : Env) : List Tx → App → List (Signer × Nat) → List (Signer × Nat)
  | [], _, a => a
  | tx :: rest, s, a => preIncs env rest (runTx env s a tx).2.1 (runTx env s a tx).2.2

theorem runTxs_append (env : Env) :
    ∀ (pre post : List Tx) (s : App) (a : List (Signer × Nat)) (acc : List TxR),
      runTxs env (pre ++ post) s a acc =
        runTxs env post (runTxs env pre s a acc).2 (preIncs env pre s a) (runTxs env pre s a acc).1
  | [], _, _, _, _ => rfl
  | tx :: pre, post, s, a, acc => by
    simp only [List.cons_append, runTxs, preIncs]
    exact runTxs_append env pre post _ _ _

/-- the state x/gov's EndBlocker leaves does not depend on the results collected so far -/
theorem runGov_state_acc (env : Env) (sg : Signer) : ∀ (gov : List (List Msg)) (s : App) (a1 a2 : List TxR),
    (runGov env sg gov s a1).2 = (runGov env sg gov s a2).2
  | [], _, _, _ => rfl
  | ms :: rest, s, a1, a2 => by
    simp only [runGov]
    cases handleList env.lim s sg ms with
    | ok s' => exact runGov_state_acc env sg rest s' _ _
    | err e => exact runGov_state_acc env sg rest s _ _
    | unknown => exact runGov_state_acc env sg rest s _ _

/-- **C06c**: the block with the failing transaction commits the same state and returns the same validator
    updates as the block without it (all transactions before it, and all after it by other signers, are
    untouched; so are the proposals x/gov executes at the end of the block) -/
theorem c06_block (env : Env) (s : App) (dt : Int) (votes : List Vote) (evid : List Evid) (gov : List (List Msg)) (ga : Bool)
    (pre post : List Tx) (tx : Tx)
    (hsig : ∀ t ∈ post, t.signer ≠ tx.signer)
    (hfail : ∀ s1 incs1, (runTx env s1 incs1 tx).1 ≠ .ok) :
    (block env s ⟨dt, votes, pre ++ tx :: post, evid, gov, ga⟩).map (fun r => (r.1.updates, r.2)) =
    (block env s ⟨dt, votes, pre ++ post, evid, gov, ga⟩).map (fun r => (r.1.updates, r.2)) := by
  unfold block beforeEnd
  simp only [govSigner]
  cases slashingBegin votes { s with height := s.height + 1, time := s.time + dt } with
  | error h => rfl
  | ok s0 =>
    simp only
    cases evidenceBegin evid s0 with
    | error h => rfl
    | ok s1 =>
    simp only
    cases poaBegin env.lim s1 with
    | error h => rfl
    | ok s2 =>
      simp only
      rw [runTxs_append env pre (tx :: post), runTxs_append env pre post]
      have := c06_runTxs env tx post (runTxs env pre s2 [] []).2 (preIncs env pre s2 []) (runTxs env pre s2 [] []).1
        (hfail _ _) hsig
      rw [this]
      rw [runGov_state_acc env _ gov _ (runTxs env (tx :: post) (runTxs env pre s2 [] []).2 (preIncs env pre s2 []) (runTxs env pre s2 [] []).1).1
        (runTxs env post (runTxs env pre s2 [] []).2 (preIncs env pre s2 []) (runTxs env pre s2 [] []).1).1]
      cases stakingEndBlock (runGov env _ gov (runTxs env post (runTxs env pre s2 [] []).2 (preIncs env pre s2 []) (runTxs env pre s2 [] []).1).2
          (runTxs env post (runTxs env pre s2 [] []).2 (preIncs env pre s2 []) (runTxs env pre s2 [] []).1).1).2 with
      | error h => rfl
      | ok r => rfl

/-! ### the governance route: proposals executed by x/gov's EndBlocker -/

/-- **C06 for a proposal**: a passed proposal whose execution fails — at any message — leaves the state exactly as it
    was: x/gov runs the messages on a branch of the state and drops it (`runGov`) -/
theorem c06_gov_proposal (env : Env) (sg : Signer) (ms : List Msg) (rest : List (List Msg)) (s : App) (acc : List TxR)
    (hfail : ∀ s', handleList env.lim s sg ms ≠ .ok s') :
    (runGov env sg (ms :: rest) s acc).2 = (runGov env sg rest s acc).2 := by
  simp only [runGov]
  cases hh : handleList env.lim s sg ms with
  | ok s' => exact absurd hh (hfail s')
  | err e => exact runGov_state_acc env sg rest s _ _
  | unknown => exact runGov_state_acc env sg rest s _ _

theorem runGov_append (env : Env) (sg : Signer) : ∀ (gpre gpost : List (List Msg)) (s : App) (acc : List TxR),
    runGov env sg (gpre ++ gpost) s acc = runGov env sg gpost (runGov env sg gpre s acc).2 (runGov env sg gpre s acc).1
  | [], _, _, _ => rfl
  | ms :: gpre, gpost, s, acc => by
    simp only [List.cons_append, runGov]
    cases handleList env.lim s sg ms with
    | ok s' => exact runGov_append env sg gpre gpost s' _
    | err e => exact runGov_append env sg gpre gpost s _
    | unknown => exact runGov_append env sg gpre gpost s _

/-- **C06d**: the block in which x/gov executes a failing proposal commits the same state and returns the same validator
    updates as the block without that proposal (the transactions, and the proposals executed before and after it, are
    untouched) -/
theorem c06_block_gov (env : Env) (s : App) (dt : Int) (votes : List Vote) (evid : List Evid) (txs : List Tx) (ga : Bool)
    (gpre gpost : List (List Msg)) (ms : List Msg)
    (hfail : ∀ s1 sg s', handleList env.lim s1 sg ms ≠ .ok s') :
    (block env s ⟨dt, votes, txs, evid, gpre ++ ms :: gpost, ga⟩).map (fun r => (r.1.updates, r.2)) =
    (block env s ⟨dt, votes, txs, evid, gpre ++ gpost, ga⟩).map (fun r => (r.1.updates, r.2)) := by
  unfold block beforeEnd
  simp only [govSigner]
  cases slashingBegin votes { s with height := s.height + 1, time := s.time + dt } with
  | error h => rfl
  | ok s0 =>
    simp only
    cases evidenceBegin evid s0 with
    | error h => rfl
    | ok s1 =>
    simp only
    cases poaBegin env.lim s1 with
    | error h => rfl
    | ok s2 =>
      simp only
      rw [runGov_append env _ gpre (ms :: gpost), runGov_append env _ gpre gpost]
      have hst := c06_gov_proposal env (if ga = true then Signer.admin else Signer.op 999998) ms gpost
        (runGov env (if ga = true then Signer.admin else Signer.op 999998) gpre (runTxs env txs s2 [] []).2 (runTxs env txs s2 [] []).1).2
        (runGov env (if ga = true then Signer.admin else Signer.op 999998) gpre (runTxs env txs s2 [] []).2 (runTxs env txs s2 [] []).1).1
        (fun s' => hfail _ _ s')
      rw [hst]
      cases stakingEndBlock (runGov env (if ga = true then Signer.admin else Signer.op 999998) gpost
          (runGov env (if ga = true then Signer.admin else Signer.op 999998) gpre (runTxs env txs s2 [] []).2 (runTxs env txs s2 [] []).1).2
          (runGov env (if ga = true then Signer.admin else Signer.op 999998) gpre (runTxs env txs s2 [] []).2 (runTxs env txs s2 [] []).1).1).2 with
      | error h => rfl
      | ok r => rfl

end PoaVerif.Props.C06
