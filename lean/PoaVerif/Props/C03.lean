import PoaVerif.Model.Spec
import PoaVerif.Witness.D1
import PoaVerif.Witness.D2
import PoaVerif.Props.C14
/-
  C03 — admin operations have exactly the requested effect, on the target only.
  FALSE of the code as stated (D1, D2, D6, D7); witnesses, and the handler-level part that holds.
-/
namespace PoaVerif.Props.C03
open App

theorem d1_realistic : Realistic genEnv Witness.D1.g Witness.D1.blocks
    ⟨⟨⟨[], Witness.D1.u0⟩, Witness.D1.s0, Witness.D1.c0⟩, Witness.D1.steps, Witness.D1.ending⟩ := by
  refine ⟨by decide, ?_, by decide⟩
  simp only [trace, Witness.D1.run_eq]

/-- **D1**: the successful `SetPower(v0, 10 units)` of block 4 does not give v0 power 10 in the next set -/
theorem c03_D1_witness : ¬ C03_effect_full genEnv := by
  intro h
  have := h _ _ _ d1_realistic
  revert this
  decide

theorem d2_realistic : Realistic genEnv Witness.D2.g Witness.D2.blocks
    ⟨⟨⟨[], Witness.D2.u0⟩, Witness.D2.s0, Witness.D2.c0⟩, Witness.D2.steps, Witness.D2.ending⟩ := by
  refine ⟨by decide, ?_, by decide⟩
  simp only [trace, Witness.D2.run_eq]

/-- **D2**: removing v2 (which was SetPower'ed before) also unbonds the bystander v3: the update list of the
    block mentions a key that is not the target's -/
theorem c03_D2_witness : ¬ C03_bystanders_full genEnv := by
  intro h
  have := h _ _ _ d2_realistic (by decide)
  revert this
  decide

/-- what holds for every state: the message itself writes exactly the requested amounts on the target (C14) -/
theorem c03_target_amounts (s s' : App) (op p : Nat) (u : Bool)
    (h : setPowerMsg genLimitFacts s .admin (some op) p u = .ok s') :
    ∃ w, s'.getVal op = some w ∧ w.tokens = p ∧ alookup op s'.last = some ((p / PR : Nat) : Int) := by
  obtain ⟨_, _, w, h1, h2, _, _, h5⟩ := C14.c14_exact s s' op p u h
  exact ⟨w, h1, h2, h5⟩

end PoaVerif.Props.C03
