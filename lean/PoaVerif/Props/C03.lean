import PoaVerif.Facts
import PoaVerif.Model.Spec
import PoaVerif.Witness.D1
import PoaVerif.Witness.D2
import PoaVerif.Props.C14
import PoaVerif.Lemmas.Corollaries
import PoaVerif.Lemmas.QuietEffect
import PoaVerif.Lemmas.Quiet2.Effect
import PoaVerif.Lemmas.Quiet2.GovEffect
import PoaVerif.Witness.Q4
import PoaVerif.Witness.Q2
/-
  C03 — admin operations have exactly the requested effect, on the target only.
  FALSE of the code as stated (D1, D2, D6, D7); witnesses, and the handler-level part that holds.
-/
namespace PoaVerif.Props.C03
open App

/-- Tie A side condition: in the EndBlocker order x/gov comes before x/poa and x/staking.  Messages of passed governance
    proposals (the default PoA admin is the gov account) are executed by x/gov's EndBlocker; the model — and the property
    — place every admin operation of a block before x/staking's EndBlocker computes that block's validator updates. -/
theorem facts_endblock_order :
    Generated.endBlockers.idxOf "govtypes.ModuleName" < Generated.endBlockers.idxOf "poa.ModuleName" ∧
    Generated.endBlockers.idxOf "poa.ModuleName" < Generated.endBlockers.idxOf "stakingtypes.ModuleName" ∧
    Generated.endBlockers.idxOf "stakingtypes.ModuleName" < Generated.endBlockers.length := by decide

theorem d1_realistic : Realistic genEnv Witness.D1.g Witness.D1.blocks
    ⟨⟨⟨[], Witness.D1.u0⟩, Witness.D1.s0, Witness.D1.c0⟩, Witness.D1.steps, Witness.D1.ending⟩ := by
  refine ⟨by decide, ?_, by decide⟩
  simp only [trace, Witness.D1.run_eq]

/-- **D1**: the successful `SetPower(v0, 10 units)` of block 4 does not give v0 power 10 in the next set -/
theorem c03_D1_witness : ¬ C03_effect_full genEnv := by
  intro h
  have := h _ _ _ d1_realistic
  revert this
  decide

theorem d2_realistic : Realistic genEnv Witness.D2.g Witness.D2.blocks
    ⟨⟨⟨[], Witness.D2.u0⟩, Witness.D2.s0, Witness.D2.c0⟩, Witness.D2.steps, Witness.D2.ending⟩ := by
  refine ⟨by decide, ?_, by decide⟩
  simp only [trace, Witness.D2.run_eq]

/-- **D2**: removing v2 (which was SetPower'ed before) also unbonds the bystander v3: the update list of the
    block mentions a key that is not the target's -/
theorem c03_D2_witness : ¬ C03_bystanders_full genEnv := by
  intro h
  have := h _ _ _ d2_realistic (by decide)
  revert this
  decide

/-- what holds for every state: the message itself writes exactly the requested amounts on the target (C14) -/
theorem c03_target_amounts (s s' : App) (op p : Nat) (u : Bool)
    (h : setPowerMsg genLimitFacts s .admin (some op) p u = .ok s') :
    ∃ w, s'.getVal op = some w ∧ w.tokens = p ∧ alookup op s'.last = some ((p / PR : Nat) : Int) := by
  obtain ⟨_, _, w, h1, h2, _, _, h5⟩ := C14.c14_exact s s' op p u h
  exact ⟨w, h1, h2, h5⟩

/-! ### inside the decidable region `Pre` (§3.2 of DESIGN.md): the refinement theorems, validator by validator -/

/-- **C03, requested effect (partial: the block's state enters the EndBlocker inside `Pre`)**: after a successful
    SetPower(v, P) on an un-jailed validator — admitted from the pending list first if necessary — if no later message
    of the block touches the state and it lies in `Pre`, CometBFT's next set gives v exactly `P / 10^6` -/
theorem c03_effect_partial (s s1 s' : App) (c c' : CSet) (ups : List (Nat × Int)) (op p : Nat) (u : Bool)
    (hmsg : setPowerMsg genLimitFacts s .admin (some op) p u = .ok s1)
    (hpre : Pre s1 c = true) (hend : s1.stakingEndBlock = .ok (ups, s')) (hc : Comet.applyChangeSet c ups = .ok c')
    (w : Val) (hw : s1.getVal op = some w) (hj : w.jailed = false) :
    alookup w.key c' = some ((p / PR : Nat) : Int) := by
  obtain ⟨hlo, hhi, w2, hw2, htok, _⟩ := Props.C14.c14_exact s s1 op p u hmsg
  rw [hw] at hw2; injection hw2 with hw2; subst hw2
  -- the index entry written by the handler
  have hf := Props.C14.facts_bounds
  have hlo' : ¬ p < 1000000 := by omega
  have hhi' : ¬ p > 9223372036854775807 := by omega
  have hmsg' := hmsg
  simp only [setPowerMsg, isAdmin, validateSetPower, hf.1, hf.2, hlo', hhi'] at hmsg'
  simp only [beq_self_eq_true, Bool.not_true, Bool.false_eq_true, ↓reduceIte, Option.isNone_some,
    decide_false, Bool.and_false, setPowerCore] at hmsg'
  rw [toInt64_small p (by omega)] at hmsg'
  generalize s.admitIfPending (some op) = sa at hmsg'
  simp only [setPOAPower] at hmsg'
  cases hv : sa.getVal op with
  | none => simp [hv] at hmsg'
  | some v =>
    simp only [hv] at hmsg'
    cases hr : sa.setPOAPowerVal v (p : Int) with
    | error e => simp [hr] at hmsg'
    | ok s2 =>
      simp only [hr] at hmsg'
      have hop := getVal_op sa op v hv
      have e := limitCheck_ok genLimitFacts s2 s1 u hmsg'
      obtain ⟨hidx, w3, hw3, hj3, _⟩ := setPOAPowerVal_entry sa s2 v (p : Int) hr (by omega)
      have hget : s1.getVal op = s2.getVal op := by rw [e]; exact getVal_congr _ _ (by simp [updateBondedPool]; split <;> rfl) _
      rw [hop] at hw3 hidx
      rw [hget, hw3] at hw; injection hw with hw; subst hw
      have hvj : v.jailed = false := by rw [← hj3]; exact hj
      have hmem : (powerOf (toUInt64 (p : Int)), op) ∈ s1.index := by
        have : s1.index = s2.index := by rw [e]; simp [updateBondedPool]; split <;> rfl
        rw [this]; exact hidx hvj
      have hocc : occ op s1.index > 0 := occ_pos_of_mem _ _ hmem
      have hcand : hasCandEntry s1 w3 = true := by
        have hwop := getVal_op _ _ _ (by rw [hget]; exact hw3 : s1.getVal op = some w3)
        have hpw : powerOf w3.tokens > 0 := by rw [htok]; exact Nat.div_pos (by unfold PR; omega) (by decide)
        simp [hasCandEntry, cand, hj, hpw, hwop, hocc]
      have := effect_pre s1 s' c c' ups hpre hend hc op w3 (by rw [hget]; exact hw3) hcand
      rw [this, htok]; rfl


/-- **C03, requested effect of RemoveValidator / of any validator that is not a candidate**: a jailed validator — and
    every removed one is first slashed to zero tokens and leaves the power table — is not in the next set (see also
    `c13_jailed_out_partial`); here: a validator that has one index entry and whose recorded power is current is **not
    mentioned** in the block's updates (bystanders), for every `Pre` state -/
theorem c03_bystander_partial (s s' : App) (c : CSet) (ups : List (Nat × Int)) (hpre : Pre s c = true)
    (h : s.stakingEndBlock = .ok (ups, s'))
    (op : Nat) (v : Val) (hv : s.getVal op = some v) (hcand : cand v = true) (h1 : occ op s.index = 1)
    (hl : alookup op s.last = some ((powerOf v.tokens : Nat) : Int)) :
    alookup v.key ups = none :=
  bystander_pre s s' c ups hpre h op v hv hcand h1 hl

/-- every candidate — un-jailed, at least one unit, owning an index entry — has exactly `tokens / 10^6` in the next set -/
theorem c03_candidate_power_partial (s s' : App) (c c' : CSet) (ups : List (Nat × Int)) (hpre : Pre s c = true)
    (h : s.stakingEndBlock = .ok (ups, s')) (hc : Comet.applyChangeSet c ups = .ok c')
    (op : Nat) (v : Val) (hv : s.getVal op = some v) (hcand : hasCandEntry s v = true) :
    alookup v.key c' = some ((powerOf v.tokens : Nat) : Int) :=
  effect_pre s s' c c' ups hpre h hc op v hv hcand

/-! ### along whole histories (the power-adjustment envelope, `Lemmas/Quiet.lean`, `Lemmas/QuietEffect.lean`) -/

/-- **C03, requested effect, one quiet block from any state satisfying the between-blocks invariant `G`**: the block
    runs, CometBFT accepts its update list, `G` holds again, and for the transaction at any position `pre.length` that
    is a single SetPower(op, p) of the admin and succeeded: after the block the record of `op` holds exactly `p` tokens
    and CometBFT's set holds its consensus key with exactly `p / 10^6` — whatever else the block contains
    (applications, admissions, other adjustments, parameter updates, rejected transactions).  No hypothesis about
    `Pre`: the invariant `M` is carried through the transactions, `Pinned` keeps the target's record. -/
theorem c03_effect_quiet_block (s : App) (c : CSet) (b : Block) (g : G s c) (q : QuietBlock s c b)
    (pre post : List Tx) (tx : Tx) (op p : Nat) (u : Bool) (hb : b.txs = pre ++ tx :: post)
    (hsg : tx.signer = .admin) (hmsgs : tx.msgs = [.setPower (some op) p u]) :
    ∃ o s' c', App.block genEnv s b = .ok (o, s') ∧ Comet.applyChangeSet c o.updates = .ok c' ∧ G s' c' ∧
      (o.txrs[pre.length]? = some .ok →
        ∃ v, s'.getVal op = some v ∧ v.tokens = p ∧ alookup v.key c' = some ((p / PR : Nat) : Int)) :=
  quiet_block_effect s c b g q pre post tx op p u hb hsg hmsgs

/-- **C03, requested effect, along whole histories**: from every well-formed genesis, along every quiet history of
    any length, block by block (`EffectAll`): every successful single SetPower(op, p) of the admin leaves, after its
    block, `op` with exactly `p` tokens and CometBFT's set with exactly `p / 10^6` for its consensus key -/
theorem c03_effect_history_partial (g : Genesis) (hw : g.wf = true) (bs : List Block) (hq : QuietHistory g bs) :
    ∃ first steps, run genEnv g bs = some (first, steps, RunEnd.done) ∧ EffectAll bs steps :=
  quiet_history_effect g hw bs hq

/-- non-vacuity: the second block of the D1 witness history is quiet and its only transaction, the admin's
    SetPower(0, 11 000 000), succeeds; the clause's conclusion is what the block produced -/
example : quietBlockB Witness.D1.s1 Witness.D1.c1 Witness.D1.b2 = true ∧
    Witness.D1.b2.txs = [] ++ ⟨Signer.admin, 0, [Msg.setPower (some 0) 11000000 true]⟩ :: [] ∧
    Witness.D1.o2.txrs[0]? = some .ok ∧ alookup 0 Witness.D1.c2 = some ((11000000 / PR : Nat) : Int) :=
  ⟨by decide, rfl, by decide, by decide⟩

/-! ### the wider class: removals included (`Lemmas/Quiet2`) -/

/-- **C03, requested effect of SetPower and of RemoveValidator, along whole histories with removals**: from every
    well-formed genesis, along every quiet history in the wider sense (`QuietHistory2`, see `Props.C02.c02_removals`),
    block by block (`EffectAll2`): every successful single SetPower(op, p) of the admin leaves `op` with exactly `p`
    tokens and CometBFT's set with exactly `p / 10^6` for its key; every successful single RemoveValidator(op) — by the
    admin or by the operator itself — leaves CometBFT's set without the key `op`'s record had before the block, and `op`
    with no record or an unbonding one for which the power query answers 0 -/
theorem c03_effect_removals_partial (g : Genesis) (hw : g.wf = true) (bs : List Block) (hq : QuietHistory2 g bs) :
    ∃ first steps, run genEnv g bs = some (first, steps, RunEnd.done) ∧ EffectAll2 first.app bs steps :=
  quiet_history2_effect g hw bs hq

/-- the same for one quiet block from any state satisfying the between-blocks invariant `G2` -/
theorem c03_remove_effect_quiet_block (s : App) (c : CSet) (b : Block) (g : G2 s c) (q : QuietBlock2 s c b)
    (pre post : List Tx) (tx : Tx) (op : Nat) (v : Val) (hb : b.txs = pre ++ tx :: post)
    (hmsgs : tx.msgs = [.remove (some op)]) (hv : s.getVal op = some v) :
    ∃ o s' c', App.block genEnv s b = .ok (o, s') ∧ Comet.applyChangeSet c o.updates = .ok c' ∧ G2 s' c' ∧
      (o.txrs[pre.length]? = some .ok →
        alookup v.key c' = none ∧
        (s'.getVal op = none ∨ ∃ w, s'.getVal op = some w ∧ Unb w ∧ w.key = v.key ∧ s'.queryPower (some op) = some 0)) :=
  quiet2_block_remove_effect s c b g q pre post tx op v hb hmsgs hv

/-- non-vacuity (kernel-checked): in the second block of the witness history `Q2` the admin's RemoveValidator(2)
    succeeds at position 0 and the SetPower(0, 12 000 000) at position 1; after the block CometBFT's set has no entry
    under key 2 and holds 12 for key 0; validator 2's record is unbonding -/
example : quietBlock2B Witness.Q2.s1 Witness.Q2.c1 Witness.Q2.b2 = true ∧
    Witness.Q2.o2.txrs[0]? = some .ok ∧ Witness.Q2.o2.txrs[1]? = some .ok ∧
    alookup 2 Witness.Q2.c2 = none ∧ alookup 0 Witness.Q2.c2 = some 12 ∧
    (Witness.Q2.s2.getVal 2).map (·.status) = some Status.unbonding :=
  ⟨by decide, by decide, by decide, by decide, by decide, by decide⟩

/-! ### the default configuration: SetPower executed by a passed governance proposal (`Lemmas/Quiet2/GovEffect`) -/

/-- **C03, requested effect of a SetPower that arrives through governance**: from every state satisfying the
    between-blocks invariant `G2`, for every quiet block in the sense of `Props.C02.c02_governance` whose gov account is
    the admin: if the proposal at position `gpre.length` among the proposals x/gov executes in the block goes through (its
    result, listed after the transactions' results, is `ok`) and carries `SetPower(op, p)` at **any** position of its
    message list, then the block does not halt, CometBFT accepts its updates, and afterwards `op` holds exactly `p` tokens
    and CometBFT's set holds exactly `p / 10^6` under its key.  This is where x/gov's EndBlocker running *before*
    x/staking's matters (`facts_endblock_order`): the proposal's writes are in place when the validator-set update is
    computed. -/
theorem c03_gov_setPower_effect_quiet_block (s : App) (c : CSet) (b : Block) (g : G2 s c) (q : QuietBlock3 s c b)
    (hadm : b.govIsAdmin = true)
    (gpre gpost : List (List Msg)) (mpre mpost : List Msg) (op p : Nat) (u : Bool)
    (hb : b.gov = gpre ++ (mpre ++ .setPower (some op) p u :: mpost) :: gpost) :
    ∃ o s' c', App.block genEnv s b = .ok (o, s') ∧ Comet.applyChangeSet c o.updates = .ok c' ∧ G2 s' c' ∧
      (o.txrs[b.txs.length + gpre.length]? = some .ok →
        ∃ v, s'.getVal op = some v ∧ v.tokens = p ∧ alookup v.key c' = some ((p / PR : Nat) : Int)) :=
  quiet3_block_gov_setPower_effect s c b g q hadm gpre gpost mpre mpost op p u hb

/-- **C03, requested effect of a RemoveValidator that arrives through governance**: under the same hypotheses, if the
    proposal that goes through carries `RemoveValidator(op)` at any position of its message list, then after the block
    CometBFT's set holds no entry under the key `op`'s record had before the block, and `op` has no record any more or an
    unbonding one for which the power query answers 0 -/
theorem c03_gov_remove_effect_quiet_block (s : App) (c : CSet) (b : Block) (g : G2 s c) (q : QuietBlock3 s c b)
    (gpre gpost : List (List Msg)) (mpre mpost : List Msg) (op : Nat) (v : Val)
    (hb : b.gov = gpre ++ (mpre ++ .remove (some op) :: mpost) :: gpost) (hv : s.getVal op = some v) :
    ∃ o s' c', App.block genEnv s b = .ok (o, s') ∧ Comet.applyChangeSet c o.updates = .ok c' ∧ G2 s' c' ∧
      (o.txrs[b.txs.length + gpre.length]? = some .ok →
        alookup v.key c' = none ∧
        (s'.getVal op = none ∨ ∃ w, s'.getVal op = some w ∧ Unb w ∧ w.key = v.key ∧ s'.queryPower (some op) = some 0)) :=
  quiet3_block_gov_remove_effect s c b g q gpre gpost mpre mpost op v hb hv

/-- … and block by block (`EffectAll3`) along every quiet history, governance included, from every well-formed genesis -/
theorem c03_gov_effect_history_partial (g : Genesis) (hw : g.wf = true) (bs : List Block) (hq : QuietHistory3 g bs) :
    ∃ first steps, run genEnv g bs = some (first, steps, RunEnd.done) ∧ steps.length = bs.length ∧ EffectAll3 bs steps :=
  quiet_history3_gov_effect g hw bs hq

/-- … and the RemoveValidator clause block by block (`EffectAll3R`) along every such history -/
theorem c03_gov_remove_effect_history_partial (g : Genesis) (hw : g.wf = true) (bs : List Block) (hq : QuietHistory3 g bs) :
    ∃ first steps, run genEnv g bs = some (first, steps, RunEnd.done) ∧ steps.length = bs.length ∧ EffectAll3R first.app bs steps :=
  quiet_history3_gov_remove_effect g hw bs hq

/- non-vacuity (kernel-checked): in the fourth block of the governance witness history `Q4` x/gov executes the proposal
   `[RemoveValidator(2), SetPower(3, 12 000 000)]` (result at position 5, after the five transactions of the block);
   after the block CometBFT holds 12 for key 3 and nothing for key 2 -/
set_option maxHeartbeats 4000000 in
example : quietBlock3B Witness.Q4.s3 Witness.Q4.c3 Witness.Q4.b4 = true ∧ Witness.Q4.b4.govIsAdmin = true ∧
    Witness.Q4.b4.gov = [] ++ ([Msg.remove (some 2)] ++ Msg.setPower (some 3) 12000000 true :: []) :: [] ∧
    Witness.Q4.o4.txrs[Witness.Q4.b4.txs.length + 0]? = some .ok ∧
    alookup 3 Witness.Q4.c4 = some 12 ∧ alookup 2 Witness.Q4.c4 = none ∧
    (Witness.Q4.s4.getVal 2).map (·.status) = some Status.unbonding ∧ Witness.Q4.s4.queryPower (some 2) = some 0 :=
  ⟨by decide, rfl, rfl, by decide, by decide, by decide, by decide, by decide⟩

end PoaVerif.Props.C03
