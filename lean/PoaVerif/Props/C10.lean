import PoaVerif.Facts
import PoaVerif.Lemmas.FramePoa
import PoaVerif.Props.C15
import PoaVerif.Model.Spec
import PoaVerif.Witness.D9b
import PoaVerif.Lemmas.Quiet
import PoaVerif.Lemmas.Quiet2.Effect
import PoaVerif.Lemmas.Quiet2.Gov
/-
  C10 — pending queue integrity and uniqueness of validator identities.
-/
namespace PoaVerif.Props.C10
open App

theorem facts_create : Generated.createStepsPresentInOrder = true := by decide

/-- admission (`AcceptNewValidator`): the stored application is loaded, converted, written to x/staking, **removed from
    the pending list**, given its signing info, and the pool is updated — these calls, in this order, none skipped;
    the pending list is written by `AddPendingValidator` / `RemovePendingValidator` through the stored item only, and
    "is it pending" is answered from the stored list -/
theorem facts_admission : Generated.acceptNewValidatorCalls =
    ["GetPendingValidator", "ConvertPOAToStaking", "setValidatorInternals", "SetNewValidatorByPowerIndex", "RemovePendingValidator",
     "UnwrapSDKContext", "setSlashingInfo", "EmitEvents", "EventManager", "NewEvent", "NewAttribute", "NewAttribute", "UpdateBondedPoolPower"] := by decide

theorem facts_pending_store :
    Generated.addPendingCalls = ["NewAnyWithValue", "ConvertStakingToPOA", "GetPendingValidators", "append", "Set"] ∧
    Generated.removePendingCalls = ["GetPendingValidators", "append", "Set"] ∧
    Generated.isPendingCalls = ["GetPendingValidator"] := by decide

/-! ### who touches the pending list -/

/-- neither x/slashing's BeginBlocker, nor PoA's, nor x/staking's EndBlocker changes the pending list: within a
    block only transactions do -/
theorem c10_begin_end_frame (env : Env) (s s1 s2 s3 : App) (votes : List Vote) (ups : List (Nat × Int))
    (h1 : slashingBegin votes s = .ok s1) (h2 : poaBegin env.lim s1 = .ok s2) (h3 : s2.stakingEndBlock = .ok (ups, s3)) :
    s1.pending = s.pending ∧ s2.pending = s1.pending ∧ s3.pending = s2.pending := by
  refine ⟨(slashingBegin_same _ _ _ h1).1, ?_, (stakingEndBlock_same _ _ _ h3).1⟩
  unfold poaBegin at h2
  cases hp : pruneUpdated s1.updated s1 with
  | error e => simp [hp] at h2
  | ok s1' =>
    simp only [hp] at h2
    have gen : ∀ (l : List Nat) (a b : App), pruneUpdated l a = .ok b → b.pending = a.pending := by
      intro l
      induction l with
      | nil => intro a b hab; simp [pruneUpdated] at hab; subst hab; rfl
      | cons x xs ih =>
        intro a b hab
        simp only [pruneUpdated] at hab
        split at hab
        · cases hab
        · have := ih _ _ hab; simpa using this
    have hpend := gen _ _ _ hp
    split at h2
    · split at h2
      · cases h2
      · cases h2; exact hpend
    · cases h2; exact hpend

/-- **creation**: appends exactly the submitted application (operator, key, description lengths, rates), with
    zero tokens and minimum self-delegation 1; changes no validator, power or parameter (C15) -/
theorem c10_create (s s' : App) (sg : Signer) (c : CreateArgs) (h : createMsg s sg c = .ok s') :
    ∃ p, s'.pending = s.pending ++ [p] ∧ p.op = c.op ∧ some p.key = c.key ∧ p.tokens = 0 ∧ p.minSelf = 1 ∧
      s'.vals = s.vals ∧ s'.last = s.last :=
  let ⟨p, h1, h2, h3, h4, h5, h6, h7, _⟩ := C15.c15_fixed_fields s s' sg c h
  ⟨p, h1, h2, h3, h4, h5, h6, h7⟩

/-- **deletion**: RemovePending (admin only, C01) removes the first application of that operator — the only one,
    given uniqueness — and nothing else; unknown or malformed addresses leave the list as it is -/
theorem c10_rmPending (s s' : App) (t : Option Nat) (h : rmPendingMsg s .admin t = .ok s') :
    s'.vals = s.vals ∧ s'.last = s.last ∧ s'.supply = s.supply ∧
    s'.pending = (match t with | some op => removeFirst op s.pending | none => s.pending) := by
  unfold rmPendingMsg at h
  simp only [isAdmin, beq_self_eq_true, Bool.not_true, Bool.false_eq_true, ↓reduceIte] at h
  cases t with
  | none => cases h; exact ⟨rfl, rfl, rfl, rfl⟩
  | some op => cases h; exact ⟨rfl, rfl, rfl, rfl⟩

/-- **admission** moves exactly that application into the validator set and out of the list: the validator record
    has the application's operator and key, zero tokens before the power is assigned -/
theorem c10_admit (s : App) (p : Pending) :
    (s.acceptNew p).pending = removeFirst p.op s.pending ∧
    ∃ v, (s.acceptNew p).getVal p.op = some v ∧ v.op = p.op ∧ v.key = p.key ∧ v.tokens = p.tokens ∧ v.minSelf = p.minSelf ∧ v.jailed = false := by
  unfold acceptNew
  refine ⟨by simp [removePending], ⟨p.op, p.key, false, .unbonded, p.tokens, 0, tEpoch, 0, p.minSelf⟩, ?_, rfl, rfl, rfl, rfl, rfl⟩
  dsimp only
  rw [getVal_congr _ (s.setVal ⟨p.op, p.key, false, .unbonded, p.tokens, 0, tEpoch, 0, p.minSelf⟩) (by simp [removePending])]
  exact getVal_setVal_self _ _

/-! ### uniqueness inside the queue -/

def PendingUnique (s : App) : Prop :=
  (s.pending.map (·.op)).Nodup ∧ (s.pending.map (·.key)).Nodup

theorem pendingClash_none (op key : Nat) : ∀ (l : List Pending), pendingClash op key l = none →
    op ∉ l.map (·.op) ∧ key ∉ l.map (·.key)
  | [], _ => by simp
  | p :: ps, h => by
    unfold pendingClash at h
    split at h
    · cases h
    · split at h
      · cases h
      · rename_i h1 h2
        have := pendingClash_none op key ps h
        simp only [List.map_cons, List.mem_cons, not_or]
        exact ⟨⟨fun e => h1 e.symm, this.1⟩, ⟨fun e => h2 e.symm, this.2⟩⟩

/-- **no second application** (the repaired D13): once an application is queued, the same operator cannot file
    another one — with the same or any other key, description or rates — until it is admitted or removed -/
theorem c10_resubmit_rejected (s s' : App) (c c2 : CreateArgs) (hop : c2.op = c.op)
    (h : createMsg s (.op c.op) c = .ok s') : ∀ s'', createMsg s' (.op c2.op) c2 ≠ .ok s'' := by
  intro s'' h2
  obtain ⟨p, hp, hpo, _⟩ := C15.c15_fixed_fields s s' _ c h
  have hacc := (C15.c15_handler s' c2).mp ⟨s'', h2⟩
  obtain ⟨key, _, _, _, _, _, _, hclash, _, _⟩ := hacc
  have hnot := (pendingClash_none c2.op key s'.pending hclash).1
  apply hnot
  rw [hp, hop]
  simp [hpo]
theorem removeFirst_sublist (op : Nat) : ∀ l : List Pending, (removeFirst op l).Sublist l
  | [] => List.Sublist.slnil
  | p :: ps => by
    unfold removeFirst
    split
    · exact List.sublist_cons_self _ _
    · exact (removeFirst_sublist op ps).cons_cons _

/-- **store, then load** (also C17's "storing it in and loading it from the pending list"): after a successful
    CreateValidator the lookup the admission path uses (`pendingFind`, first match by operator) returns exactly
    the application just stored, and every other operator's lookup answers as before -/
theorem c10_store_load (s s' : App) (c : CreateArgs) (h : createMsg s (.op c.op) c = .ok s') :
    ∃ p, s'.pendingFind c.op = some p ∧ s'.pending = s.pending ++ [p] ∧ p.op = c.op ∧ some p.key = c.key ∧
      p.tokens = 0 ∧ p.minSelf = 1 ∧
      ∀ op', op' ≠ c.op → s'.pendingFind op' = s.pendingFind op' := by
  have hacc := (C15.c15_handler s c).mp ⟨s', h⟩
  obtain ⟨key, hk, _, _, _, hop, hkey, hclash, _, _⟩ := hacc
  obtain ⟨p, hp, hpo, hpk, ht, hm, _⟩ := C15.c15_fixed_fields s s' _ c h
  have hnot := (pendingClash_none c.op key s.pending hclash).1
  refine ⟨p, ?_, hp, hpo, hpk, ht, hm, ?_⟩
  · unfold pendingFind
    rw [hp, List.find?_append]
    have : s.pending.find? (fun q => q.op == c.op) = none := by
      rw [List.find?_eq_none]
      intro q hq hqo
      exact hnot (by simpa using ⟨q, hq, by simpa using hqo⟩)
    rw [this]
    simp [hpo]
  · intro op' hne
    unfold pendingFind
    rw [hp, List.find?_append]
    have : ([p] : List Pending).find? (fun q => q.op == op') = none := by
      simp [hpo]; exact fun e => hne e.symm
    rw [this]
    simp

/-- **uniqueness**: a successful CreateValidator keeps operators and consensus keys of the queue pairwise distinct,
    and its operator and key are those of no existing validator -/
theorem c10_create_unique (s s' : App) (c : CreateArgs) (hu : PendingUnique s) (h : createMsg s (.op c.op) c = .ok s') :
    PendingUnique s' ∧ s.getVal c.op = none ∧ ∃ key, c.key = some key ∧ s.valByKey key = none := by
  have hacc := (C15.c15_handler s c).mp ⟨s', h⟩
  obtain ⟨key, hk, _, _, _, hop, hkey, hclash, _, _⟩ := hacc
  obtain ⟨p, hp, hpo, hpk, _⟩ := C15.c15_fixed_fields s s' _ c h
  have hnot := pendingClash_none c.op key s.pending hclash
  refine ⟨?_, hop, key, hk, hkey⟩
  unfold PendingUnique
  rw [hp]
  simp only [List.map_append, List.map_cons, List.map_nil]
  have hpk' : p.key = key := by rw [hk] at hpk; injection hpk
  constructor
  · rw [List.nodup_append]
    refine ⟨hu.1, by simp, ?_⟩
    intro a ha b hb
    simp at hb; subst hb; rw [hpo]
    intro e; subst e; exact hnot.1 ha
  · rw [List.nodup_append]
    refine ⟨hu.2, by simp, ?_⟩
    intro a ha b hb
    simp at hb; subst hb; rw [hpk']
    intro e; subst e; exact hnot.2 ha

theorem c10_remove_unique (s : App) (op : Nat) (hu : PendingUnique s) : PendingUnique (s.removePending op) := by
  unfold PendingUnique removePending
  have sub := removeFirst_sublist op s.pending
  exact ⟨hu.1.sublist (sub.map _), hu.2.sublist (sub.map _)⟩

theorem c10_admit_unique (s : App) (p : Pending) (hu : PendingUnique s) : PendingUnique (s.acceptNew p) := by
  unfold PendingUnique
  rw [(c10_admit s p).1]
  have sub := removeFirst_sublist p.op s.pending
  exact ⟨hu.1.sublist (sub.map _), hu.2.sublist (sub.map _)⟩

/-! ### "creating, deleting or keeping applications never changes ... the token supply" — FALSE (D9b) -/

theorem d9b_realistic : Realistic genEnv Witness.D9b.g Witness.D9b.blocks
    ⟨⟨⟨[], Witness.D9b.u0⟩, Witness.D9b.s0, Witness.D9b.c0⟩, Witness.D9b.steps, Witness.D9b.ending⟩ := by
  refine ⟨by decide, ?_, by decide⟩
  simp only [trace, Witness.D9b.run_eq]

/-- **D9b**: in block 7 of the witness the only transaction is a stranger's CreateValidator; it succeeds, and the
    bond-denom supply grows by the jailed validator's stake -/
theorem c10_D9b_witness :
    Witness.D9b.b7.txs.map (·.msgs.length) = [1] ∧ Witness.D9b.o7.txrs = [.ok] ∧ Witness.D9b.o7.updates = [] ∧
    Witness.D9b.s7.supply = Witness.D9b.s6.supply + 10000000 := by decide

/-- partial: with a bonded pool that covers the delegation shares (no jailed or unbonding validator with shares,
    no slashed validator, no earlier excess) a CreateValidator moves no supply and no pool -/
theorem c10_partial_supply (s s' : App) (sg : Signer) (c : CreateArgs)
    (hb : sumInts (s.dels.map (fun d => decRound d.2)) ≤ s.bonded) (h : createMsg s sg c = .ok s') :
    s'.supply = s.supply ∧ s'.bonded = s.bonded ∧ s'.notBonded = s.notBonded := by
  unfold createMsg at h
  split at h
  · cases h
  · split at h
    · cases h
    · split at h
      · cases h
      · split at h
        · cases h
        · split at h
          · cases h
          · split at h
            · cases h
            · split at h
              · cases h
              · split at h
                · cases h
                · split at h
                  · cases h
                  · rename_i key _ _ _ _ _ _
                    cases h
                    have := C15.c15_no_funds { s with pending := s.pending ++
                      [⟨c.op, key, 0, 1, c.lens.map (fun (n : Nat) => (n : Int)) ++ [c.rate, c.maxRate, c.maxChange]⟩] } (by simpa using hb)
                    rw [this]
                    exact ⟨rfl, rfl, rfl⟩

/-! ### uniqueness of identities along whole histories (the power-adjustment envelope) -/

/-- **C10, identities, along whole histories.**  From every well-formed genesis, along every history whose blocks
    are quiet (`Lemmas/Quiet.lean`: applications, removals of applications, admissions, power changes without the
    D1/D3/D7 triggers, parameter updates, all votes present, no evidence), in the state after InitChain and after
    every block: no two validator records share an operator address or a consensus key, no two pending applications
    do, and no pending application shares either with a validator record.  Nothing is assumed about the states in
    between: the statement is an induction over the blocks with the invariant `G`. -/
theorem c10_identities_partial (g : Genesis) (hw : g.wf = true) (bs : List Block) (hq : QuietHistory g bs) :
    ∃ first steps, run genEnv g bs = some (first, steps, RunEnd.done) ∧
      ∀ st ∈ first :: steps,
        (∀ v1 ∈ st.app.vals, ∀ v2 ∈ st.app.vals, (v1.op = v2.op ∨ v1.key = v2.key) → v1 = v2) ∧
        (st.app.pending.map (·.op)).Nodup ∧ (st.app.pending.map (·.key)).Nodup ∧
        (∀ p ∈ st.app.pending, ∀ v ∈ st.app.vals, p.op ≠ v.op ∧ p.key ≠ v.key) := by
  obtain ⟨first, steps, h1, _, _, hg, h5⟩ := quiet_history g hw bs hq
  refine ⟨first, steps, h1, ?_⟩
  intro st hst
  rcases List.mem_cons.mp hst with e | e
  · rw [e]; exact G_identities _ _ hg
  · exact G_identities _ _ (h5 st e).2

/-- **C10, identities, along whole histories with removals**: from every well-formed genesis, along every quiet
    history in the wider sense (`QuietHistory2`), after InitChain and after every block: no two validator records —
    the records of removed, still unbonding validators included — share an operator address or a consensus key, no two
    pending applications do, and no pending application shares either with a record.  In particular the identity of a
    removed validator stays taken until its record matures and is deleted. -/
theorem c10_identities_removals_partial (g : Genesis) (hw : g.wf = true) (bs : List Block) (hq : QuietHistory2 g bs) :
    ∃ first steps, run genEnv g bs = some (first, steps, RunEnd.done) ∧
      ∀ st ∈ first :: steps,
        (∀ v1 ∈ st.app.vals, ∀ v2 ∈ st.app.vals, (v1.op = v2.op ∨ v1.key = v2.key) → v1 = v2) ∧
        (st.app.pending.map (·.op)).Nodup ∧ (st.app.pending.map (·.key)).Nodup ∧
        (∀ p ∈ st.app.pending, ∀ v ∈ st.app.vals, p.op ≠ v.op ∧ p.key ≠ v.key) := by
  obtain ⟨first, steps, h1, _, _, hg, h5⟩ := quiet_history2 g hw bs hq
  refine ⟨first, steps, h1, ?_⟩
  intro st hst
  rcases List.mem_cons.mp hst with e | e
  · rw [e]; exact G2_identities _ _ hg
  · exact G2_identities _ _ (h5 st e).2

/-- **C10, identities, when the admin's operations arrive through governance** (`QuietHistory3`, see
    `Props.C02.c02_governance`): the conclusion of `c10_identities_removals_partial` after InitChain and after every block -/
theorem c10_identities_governance_partial (g : Genesis) (hw : g.wf = true) (bs : List Block) (hq : QuietHistory3 g bs) :
    ∃ first steps, run genEnv g bs = some (first, steps, RunEnd.done) ∧
      ∀ st ∈ first :: steps,
        (∀ v1 ∈ st.app.vals, ∀ v2 ∈ st.app.vals, (v1.op = v2.op ∨ v1.key = v2.key) → v1 = v2) ∧
        (st.app.pending.map (·.op)).Nodup ∧ (st.app.pending.map (·.key)).Nodup ∧
        (∀ p ∈ st.app.pending, ∀ v ∈ st.app.vals, p.op ≠ v.op ∧ p.key ≠ v.key) := by
  obtain ⟨first, steps, h1, _, _, hg, h5⟩ := quiet_history3 g hw bs hq
  refine ⟨first, steps, h1, ?_⟩
  intro st hst
  rcases List.mem_cons.mp hst with e | e
  · rw [e]; exact G2_identities _ _ hg
  · exact G2_identities _ _ (h5 st e).2

end PoaVerif.Props.C10
