import PoaVerif.Model.Spec
import PoaVerif.Witness.D8
/-
  C05 (last clause) — the reference total is NOT always the true total voting power of the previous block's set.
-/
namespace PoaVerif.Props.C05W

theorem d8_realistic : Realistic genEnv Witness.D8.g Witness.D8.blocks
    ⟨⟨⟨[], Witness.D8.u0⟩, Witness.D8.s0, Witness.D8.c0⟩, Witness.D8.steps, Witness.D8.ending⟩ := by
  refine ⟨by decide, ?_, by decide⟩
  simp only [trace, Witness.D8.run_eq]

/-- **D8**: four validators of power 10, one set to 11 (unsafe): CometBFT's total is 41, the total cached by the
    next BeginBlocker is 52 (x/staking recomputed LastTotalPower while meeting the updated validator twice); a
    safe change of 13 (31.7 % of 41) is then accepted as 25 % of 52 -/
theorem c05_D8_witness : ¬ C05_reference_full genEnv := by
  intro h
  have := h _ _ _ d8_realistic
  revert this
  decide

theorem c05_D8_values : Witness.D8.s3.cached = 52 ∧ Comet.total Witness.D8.c2 = 41 := by decide

end PoaVerif.Props.C05W
