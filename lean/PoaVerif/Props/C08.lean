import PoaVerif.Lemmas.Tree
import PoaVerif.Facts
/-
  C08 — delegator-reward withdrawal is disabled after genesis at every nesting depth.
-/
namespace PoaVerif.Props.C08
open Ante

theorem facts_unwrap : genAnteFacts.unwrapsAll := by decide
theorem facts_gate : genAnteFacts.withdrawGate = 1 := by decide
theorem facts_leaf : Generated.withdrawLeaf = "distrtypes.MsgWithdrawDelegatorReward" := by decide
theorem facts_shape : Generated.withdrawHandleShape = true ∧ Generated.withdrawWalkRecurses = true := by decide
theorem facts_installed : "poaante.NewPOADisableWithdrawDelegatorRewards" ∈ Generated.anteChain := by decide
theorem facts_error : ("ErrWithdrawDelegatorRewardsNotAllowed", "5") ∈ Generated.errorsRegistry := by decide

/-- **C08** (full): rejected with the dedicated error exactly when the height is above 1 and some leaf of
    some tree is a WithdrawDelegatorReward; passes otherwise. -/
theorem c08_iff (h : Int) (ms : List Msg) :
    withdrawDecorator genAnteFacts h ms =
      if h > 1 ∧ (Msg.leavesList ms).any isWithdrawLeaf = true then some Err.withdrawNotAllowed else none := by
  unfold withdrawDecorator
  rw [facts_gate, withdrawWalkList_eq genAnteFacts facts_unwrap ms]
  by_cases hh : h ≤ 1
  · have : ¬ h > 1 := by omega
    simp [hh, this]
  · have : h > 1 := by omega
    simp [hh, this]

theorem c08_genesis (h : Int) (hh : h ≤ 1) (ms : List Msg) : withdrawDecorator genAnteFacts h ms = none := by
  rw [c08_iff]; have : ¬ h > 1 := by omega
  simp [this]

theorem c08_harmless (h : Int) (ms : List Msg) (hn : (Msg.leavesList ms).any isWithdrawLeaf = false) :
    withdrawDecorator genAnteFacts h ms = none := by
  rw [c08_iff]; simp [hn]

example : withdrawDecorator genAnteFacts 7 [.exec [.govProp [.other, .exec [.withdraw]]], .other] = some Err.withdrawNotAllowed := by decide
example : withdrawDecorator genAnteFacts 0 [.withdraw] = none := by decide

end PoaVerif.Props.C08
