import PoaVerif.Lemmas.Tree
import PoaVerif.Facts
/-
  C07 — staking is disabled after genesis for everyone, at every nesting depth.
  Statements about the decorator model instantiated with the facts regenerated from ante/*.go.
-/
namespace PoaVerif.Props.C07
open Ante

/-- the six x/staking message kinds the property names (numbering of `Msg.staking`) -/
def isBlockedStaking : Msg → Bool
  | .staking k => decide (k < 6)
  | _ => false

/-! Tie A side conditions: what the current source says -/

theorem facts_unwrap : genAnteFacts.unwrapsAll := by decide

theorem facts_blocked : genAnteFacts.blocked.all (· < 6) = true ∧ (List.range 6).all (genAnteFacts.blocked.contains ·) = true := by decide

theorem facts_gate : genAnteFacts.gate = 1 := by decide

theorem facts_shape : Generated.stakingHandleShape = true ∧ Generated.stakingWalkRecurses = true := by decide

/-- the decorator is installed in the application's ante chain, after signature verification -/
theorem facts_installed : "poaante.NewPOADisableStakingDecorator" ∈ Generated.anteChain := by decide

theorem blockedLeaf_eq (m : Msg) : isBlockedLeaf genAnteFacts m = isBlockedStaking m := by
  cases m <;> simp [isBlockedLeaf, isBlockedStaking]
  rename_i k
  have h := facts_blocked
  by_cases hk : k < 6
  · have : k ∈ List.range 6 := by simp [hk]
    have h2 := List.all_eq_true.mp h.2 k this
    simp [hk] at h2 ⊢
    simpa using h2
  · simp [hk]
    intro hmem
    have h1 := List.all_eq_true.mp h.1 k hmem
    simp at h1
    exact hk h1

/-- **C07** (full): for every height and every list of message trees of any depth and fan-out, the
    decorator rejects with ErrStakingActionNotAllowed exactly when the height is above 1 and some leaf,
    at any position and any wrapping depth, is one of the six blocked x/staking messages; otherwise
    the transaction passes this rule. -/
theorem c07_iff (h : Int) (ms : List Msg) :
    stakingDecorator genAnteFacts h ms =
      if h > 1 ∧ (Msg.leavesList ms).any isBlockedStaking = true then some Err.stakingNotAllowed else none := by
  unfold stakingDecorator
  rw [facts_gate, stakingWalkList_eq genAnteFacts facts_unwrap ms]
  have : (Msg.leavesList ms).any (isBlockedLeaf genAnteFacts) = (Msg.leavesList ms).any isBlockedStaking := by
    congr 1; funext m; exact blockedLeaf_eq m
  rw [this]
  by_cases hh : h ≤ 1
  · have : ¬ h > 1 := by omega
    simp [hh, this]
  · have : h > 1 := by omega
    simp [hh, this]

/-- genesis heights: everything passes -/
theorem c07_genesis (h : Int) (hh : h ≤ 1) (ms : List Msg) : stakingDecorator genAnteFacts h ms = none := by
  rw [c07_iff]; have : ¬ h > 1 := by omega
  simp [this]

/-- transactions without such messages are never rejected by this rule -/
theorem c07_harmless (h : Int) (ms : List Msg) (hn : (Msg.leavesList ms).any isBlockedStaking = false) :
    stakingDecorator genAnteFacts h ms = none := by
  rw [c07_iff]; simp [hn]

/-- the verdict does not depend on where the offending message sits: any permutation-insensitive
    statement follows from `c07_iff`; here: prepending or appending harmless trees changes nothing -/
theorem c07_position (h : Int) (pre post ms : List Msg)
    (h1 : (Msg.leavesList pre).any isBlockedStaking = false) (h2 : (Msg.leavesList post).any isBlockedStaking = false) :
    stakingDecorator genAnteFacts h (pre ++ ms ++ post) = stakingDecorator genAnteFacts h ms := by
  have app : ∀ a b : List Msg, Msg.leavesList (a ++ b) = Msg.leavesList a ++ Msg.leavesList b := by
    intro a b; induction a with
    | nil => simp [Msg.leavesList]
    | cons x xs ih => simp [Msg.leavesList, ih]
  simp [c07_iff, app, h1, h2]

/-- non-vacuity: a delegate wrapped in a group proposal inside two authz execs, behind a harmless
    message, is rejected at height 2 and passes at height 1 -/
example : stakingDecorator genAnteFacts 2 [.other, .exec [.exec [.groupProp [.other, .staking 1]]]] = some Err.stakingNotAllowed := by decide
example : stakingDecorator genAnteFacts 1 [.other, .exec [.exec [.groupProp [.other, .staking 1]]]] = none := by decide

end PoaVerif.Props.C07
