import PoaVerif.Lemmas.Tree
import PoaVerif.Facts
/-
  C09 — commission limits cover every message of a transaction, and nothing else.
-/
namespace PoaVerif.Props.C09
open Ante

theorem facts_unwrap : genAnteFacts.unwrapsAll := by decide
theorem facts_gate : genAnteFacts.commissionGate = 1 := by decide
theorem facts_shape : Generated.commissionHandleShape = true ∧ Generated.commissionWalkRecurses = true := by decide
theorem facts_rateCheck : Generated.rateCheckConds = ["low.Equal(high) && !source.Equal(low)", "source.GT(high) || source.LT(low)"] := by decide
/-- the two commission-carrying cases check *and continue* (no early return of a passing verdict), and an
    EditValidator without a rate is skipped -/
theorem facts_cases : Generated.commissionCases =
    [("*poa.MsgCreateValidator", "{ if msg.Commission.Rate.IsNil() { return fmt.Errorf(\"commission rate is not set\") } if err := rateCheck(msg.Commission.Rate, mcl.RateFloor, mcl.RateCeil); err != nil { return err } }"),
     ("*stakingtypes.MsgEditValidator", "{ if msg.CommissionRate == nil { continue } if err := rateCheck(*msg.CommissionRate, mcl.RateFloor, mcl.RateCeil); err != nil { return err } }")] := rfl
theorem facts_installed : "poaante.NewCommissionLimitDecorator" ∈ Generated.anteChain := by decide

/-- `rateCheck` accepts exactly the closed interval (which is the single point F when F = C) -/
theorem rateBad_spec (c : LimiterCfg) (r : Int) : rateBad c r = false ↔ (c.floor ≤ r ∧ r ≤ c.ceil) := by
  unfold rateBad
  simp only [Bool.or_eq_false_iff, Bool.and_eq_false_iff, decide_eq_false_iff_not]
  constructor
  · rintro ⟨⟨_, h2⟩, h3⟩; omega
  · intro h; refine ⟨⟨?_, by omega⟩, by omega⟩
    by_cases hfc : c.floor = c.ceil
    · right; omega
    · left; exact hfc

/-- exactly F when F = C -/
theorem rateBad_point (c : LimiterCfg) (r : Int) (h : c.floor = c.ceil) : rateBad c r = false ↔ r = c.floor := by
  rw [rateBad_spec]; omega

/-- **C09** (full): for every floor/ceiling, flag, height and every list of message trees: with the gate
    open the decorator passes exactly when every PoA CreateValidator and every EditValidator that sets a
    rate, at any position and depth, has its rate within [F, C]; it never panics (the result type has no
    panic case and the walk is total), and messages that set no rate never matter. -/
theorem c09_iff (c : LimiterCfg) (h : Int) (ms : List Msg) :
    commissionDecorator genAnteFacts c h ms =
      if (!c.doGenTx && decide (h ≤ 1)) = true then none
      else if (Msg.leavesList ms).all (fun m => match rateOf m with
                                                | some r => decide (c.floor ≤ r ∧ r ≤ c.ceil)
                                                | none => true) = true then none
      else some Err.plain := by
  unfold commissionDecorator
  rw [facts_gate, commissionWalkList_eq genAnteFacts c facts_unwrap ms]
  by_cases hg : (!c.doGenTx && decide (h ≤ 1)) = true
  · simp [hg]
  · simp only [hg]
    have : (Msg.leavesList ms).any (rateBadLeaf c) = !(Msg.leavesList ms).all (fun m => match rateOf m with
                                                | some r => decide (c.floor ≤ r ∧ r ≤ c.ceil)
                                                | none => true) := by
      rw [List.any_eq_not_all_not]
      congr 2
      funext m
      unfold rateBadLeaf
      cases hr : rateOf m with
      | none => simp
      | some r =>
        simp only
        by_cases hb : rateBad c r = false
        · have := (rateBad_spec c r).mp hb
          simp [hb, this]
        · have hb' : rateBad c r = true := by simpa using hb
          have : ¬ (c.floor ≤ r ∧ r ≤ c.ceil) := fun hh => hb ((rateBad_spec c r).mpr hh)
          simp [hb', this]
    rw [this]
    cases (Msg.leavesList ms).all _ <;> simp

/-- genesis-height transactions are exempt exactly when genesis validation is switched off -/
theorem c09_gate_closed (c : LimiterCfg) (h : Int) (hh : h ≤ 1) (hf : c.doGenTx = false) (ms : List Msg) :
    commissionDecorator genAnteFacts c h ms = none := by
  rw [c09_iff]; simp [hf, hh]

theorem c09_gate_open_genesis (c : LimiterCfg) (h : Int) (hf : c.doGenTx = true) (r : Int) (hr : r > c.ceil) (a : CreateArgs)
    (ha : a.rate = r) : commissionDecorator genAnteFacts c h [.create a] = some Err.plain := by
  rw [c09_iff]
  have : ¬ (c.floor ≤ a.rate ∧ a.rate ≤ c.ceil) := by omega
  simp [hf, Msg.leavesList, Msg.leaves, rateOf, this]

/-- a message that sets no rate (EditValidator changing only the description included) is never the
    reason for a rejection -/
theorem c09_no_rate (c : LimiterCfg) (h : Int) (ms : List Msg) (hn : ∀ m ∈ Msg.leavesList ms, rateOf m = none) :
    commissionDecorator genAnteFacts c h ms = none := by
  rw [c09_iff]
  have : (Msg.leavesList ms).all (fun m => match rateOf m with
                                          | some r => decide (c.floor ≤ r ∧ r ≤ c.ceil)
                                          | none => true) = true := by
    rw [List.all_eq_true]; intro m hm; rw [hn m hm]
  rw [if_pos this]; split <;> rfl

/-- non-vacuity: a compliant CreateValidator followed by a non-compliant one is rejected (the early-return
    defect D15a), a description-only edit passes (D15b), nested carriers are found -/
example : commissionDecorator genAnteFacts simappLimiter 5
    [.create { op := 1, key := some 1, lens := [1], rate := 200000000000000000, maxRate := 0, maxChange := 0, minSelf := 1 },
     .create { op := 2, key := some 2, lens := [1], rate := 900000000000000000, maxRate := 0, maxChange := 0, minSelf := 1 }] = some Err.plain := by decide
example : commissionDecorator genAnteFacts simappLimiter 5 [.edit 3 none] = none := by decide
example : commissionDecorator genAnteFacts simappLimiter 5 [.exec [.govProp [.edit 3 (some 510000000000000000)]]] = some Err.plain := by decide

end PoaVerif.Props.C09
