import PoaVerif.Lemmas.EndBlock
import PoaVerif.Facts
import PoaVerif.Lemmas.Corollaries
import PoaVerif.Lemmas.Quiet
import PoaVerif.Lemmas.Quiet2.Effect
import PoaVerif.Lemmas.Quiet2.Gov
/-
  C18 — queries report exactly the committed PoA state.
-/
namespace PoaVerif.Props.C18
open App

/-! Tie A side conditions: ConsensusPower decodes the address, requires the validator record, reads the last
    validator power; PendingValidators / PoaAuthority read through -/
theorem facts_query : Generated.powerQueryShape = true ∧ Generated.authorityQueryReturnsGetAdmin = true ∧
    Generated.getAdminReturnsAuthority = true := by decide

/-- **C18a**: the power query answers with the recorded last power for every existing validator, and with an
    error for unknown operators (pending-only ones included) and malformed addresses -/
theorem c18_power (s : App) (op : Nat) (v : Val) (hv : s.getVal op = some v) : s.queryPower (some op) = some (s.lastPower op) := by
  simp [queryPower, hv]

theorem c18_unknown (s : App) (op : Nat) (hv : s.getVal op = none) : s.queryPower (some op) = none := by
  simp [queryPower, hv]

theorem c18_malformed (s : App) : s.queryPower none = none := rfl

/-- **C18b**: after every block, from any pre-state: 0 for removed, jailed, unbonding or unbonded validators,
    and for a bonded un-jailed one either its current voting power `tokens / 10^6` or 0 (no entry; inside the
    envelope of C02 every active validator has its entry) -/
theorem c18_inactive_zero (s s' : App) (ups : List (Nat × Int)) (h : s.stakingEndBlock = .ok (ups, s'))
    (op : Nat) (v : Val) (hv : s'.getVal op = some v) (hin : v.status ≠ .bonded ∨ v.jailed = true) :
    s'.queryPower (some op) = some 0 :=
  query_zero_for_inactive s s' ups h op v hv hin

theorem c18_active_value (s s' : App) (ups : List (Nat × Int)) (h : s.stakingEndBlock = .ok (ups, s'))
    (op : Nat) (v : Val) (hv : s'.getVal op = some v) :
    s'.queryPower (some op) = some ((powerOf v.tokens : Nat) : Int) ∨ s'.queryPower (some op) = some 0 := by
  have post := stakingEndBlock_post s s' ups h
  simp only [queryPower, hv, lastPower]
  cases hl : alookup op s'.last with
  | none => right; rfl
  | some p =>
    left
    obtain ⟨w, g1, _, _, g4, _⟩ := post op p hl
    rw [hv] at g1; injection g1 with g1; subst g1
    simp [g4]

/-- the pending query returns the whole list -/
theorem c18_pending (s : App) : s.queryPending = s.pending := rfl

/-- **C18c**: queries never modify state: they are functions of the state with no state result; a block's
    execution is a function of (state, block) only, so interleaving queries cannot change it -/
theorem c18_pure (env : Env) (s : App) (b : Block) (qs : List (Option Nat)) :
    (let _answers := qs.map s.queryPower; App.block env s b) = App.block env s b := rfl

/-- **C18, the power query agrees with CometBFT** (partial: the block's state enters the EndBlocker inside `Pre`):
    after the block, the key of every bonded, un-jailed validator carries in CometBFT's set exactly the power the
    query returns for it -/
theorem c18_query_agrees_partial (s s' : App) (c c' : CSet) (ups : List (Nat × Int)) (hpre : Pre s c = true)
    (h : s.stakingEndBlock = .ok (ups, s')) (hc : Comet.applyChangeSet c ups = .ok c')
    (op : Nat) (w : Val) (hw : s'.getVal op = some w) (hb : w.status = .bonded) (hj : w.jailed = false) :
    alookup w.key c' = s'.queryPower (some op) := by
  rw [query_agrees_pre s s' c c' ups hpre h hc op w hw hb hj]
  simp [queryPower, hw]

/-! ### along whole histories (the power-adjustment envelope) -/

/-- in a state satisfying the between-blocks invariant `G`, the three views coincide: for every validator record
    the power query answers `tokens / 10^6`, CometBFT holds exactly that power under the record's key, and CometBFT
    holds no key that is not a record's -/
theorem G_views (s : App) (c : CSet) (g : G s c) :
    (∀ v ∈ s.vals, s.queryPower (some v.op) = some ((powerOf v.tokens : Nat) : Int) ∧
                   alookup v.key c = some ((powerOf v.tokens : Nat) : Int)) ∧
    (∀ k p, alookup k c = some p → ∃ v ∈ s.vals, v.key = k) := by
  refine ⟨?_, g.cometKnown⟩
  intro v hv
  have hg := mem_vals_getVal s g.sorted v hv
  refine ⟨?_, g.allCur v hv⟩
  simp [queryPower, hg, lastPower, g.last v.op v hg, cur]

/-- **C18, along whole histories.**  From every well-formed genesis, along every quiet history (`Lemmas/Quiet.lean`),
    after InitChain and after every block: the power query of every validator record answers `tokens / 10^6`, which is
    exactly the power CometBFT holds for the record's key, and CometBFT holds no other key. -/
theorem c18_history_partial (g : Genesis) (hw : g.wf = true) (bs : List Block) (hq : QuietHistory g bs) :
    ∃ first steps, run genEnv g bs = some (first, steps, RunEnd.done) ∧
      ∀ st ∈ first :: steps,
        (∀ v ∈ st.app.vals, st.app.queryPower (some v.op) = some ((powerOf v.tokens : Nat) : Int) ∧
                            alookup v.key st.comet = some ((powerOf v.tokens : Nat) : Int)) ∧
        (∀ k p, alookup k st.comet = some p → ∃ v ∈ st.app.vals, v.key = k) := by
  obtain ⟨first, steps, h1, _, _, hg, h5⟩ := quiet_history g hw bs hq
  refine ⟨first, steps, h1, ?_⟩
  intro st hst
  rcases List.mem_cons.mp hst with e | e
  · rw [e]; exact G_views _ _ hg
  · exact G_views _ _ (h5 st e).2

/-- **C18, along whole histories with removals**: from every well-formed genesis, after InitChain and after every block
    of a quiet history in the wider sense (`QuietHistory2`): every validator record is either live — the power query
    answers `tokens / 10^6`, exactly CometBFT's power for its key — or unbonding after a removal, or jailed by x/slashing
    or x/evidence — the query answers 0 and CometBFT holds no entry under its key; and CometBFT holds no key that is not a live validator's -/
theorem c18_history_removals_partial (g : Genesis) (hw : g.wf = true) (bs : List Block) (hq : QuietHistory2 g bs) :
    ∃ first steps, run genEnv g bs = some (first, steps, RunEnd.done) ∧
      ∀ st ∈ first :: steps,
        (∀ v ∈ st.app.vals,
          (Active v ∧ st.app.queryPower (some v.op) = some ((powerOf v.tokens : Nat) : Int) ∧
            alookup v.key st.comet = some ((powerOf v.tokens : Nat) : Int)) ∨
          ((Unb v ∨ Jl v) ∧ st.app.queryPower (some v.op) = some 0 ∧ alookup v.key st.comet = none)) ∧
        (∀ k p, alookup k st.comet = some p → ∃ v ∈ st.app.vals, v.key = k ∧ Active v) := by
  obtain ⟨first, steps, h1, _, _, hg, h5⟩ := quiet_history2 g hw bs hq
  refine ⟨first, steps, h1, ?_⟩
  intro st hst
  rcases List.mem_cons.mp hst with e | e
  · rw [e]; exact G2_views _ _ hg
  · exact G2_views _ _ (h5 st e).2

/-- **C18 when the admin's operations arrive through governance** (`QuietHistory3`, see `Props.C02.c02_governance`): the
    three views — records, power query, CometBFT — agree after InitChain and after every block, as in
    `c18_history_removals_partial` -/
theorem c18_history_governance_partial (g : Genesis) (hw : g.wf = true) (bs : List Block) (hq : QuietHistory3 g bs) :
    ∃ first steps, run genEnv g bs = some (first, steps, RunEnd.done) ∧
      ∀ st ∈ first :: steps,
        (∀ v ∈ st.app.vals,
          (Active v ∧ st.app.queryPower (some v.op) = some ((powerOf v.tokens : Nat) : Int) ∧
            alookup v.key st.comet = some ((powerOf v.tokens : Nat) : Int)) ∨
          ((Unb v ∨ Jl v) ∧ st.app.queryPower (some v.op) = some 0 ∧ alookup v.key st.comet = none)) ∧
        (∀ k p, alookup k st.comet = some p → ∃ v ∈ st.app.vals, v.key = k ∧ Active v) := by
  obtain ⟨first, steps, h1, _, _, hg, h5⟩ := quiet_history3 g hw bs hq
  refine ⟨first, steps, h1, ?_⟩
  intro st hst
  rcases List.mem_cons.mp hst with e | e
  · rw [e]; exact G2_views _ _ hg
  · exact G2_views _ _ (h5 st e).2

end PoaVerif.Props.C18
