import PoaVerif.Model.Chain
import PoaVerif.Facts
/-
  C12 — deterministic, restart-stable state transitions.
  What a pure model can carry: the block function reads nothing but the `App` value (the committed collections),
  so stopping after any block and resuming from the state gives the same results.  What it cannot exhibit —
  process memory surviving between blocks, map iteration order, iterator invalidation, the real database — is
  covered by the restart / two-instance runs of Tie B only (labelled partial).
-/
namespace PoaVerif.Props.C12

/-! Tie A side conditions: all mutable PoA state lives in collections under the module's store key -/

/-- the keeper holds: codec, four keepers, logger, schema, the collections, and the authority string — nothing else -/
theorem facts_keeper_fields : Generated.keeperFields =
    [("cdc", "BinaryCodec"), ("stakingKeeper", "StakingKeeper"), ("accountKeeper", "AccountKeeper"), ("slashKeeper", "SlashingKeeper"),
     ("bankKeeper", "BankKeeper"), ("logger", "Logger"), ("Schema", "Schema"), ("PendingValidators", "Item[Validators]"),
     ("UpdatedValidatorsCache", "KeySet[string]"), ("CachedBlockPower", "Item[PowerCache]"),
     ("AbsoluteChangedInBlockPower", "Item[PowerCache]"), ("authority", "string")] := by decide

/-- no handler, query, genesis function or BeginBlocker assigns a keeper field: only the two test setters do
    (`SetTestAccountKeeper` is called once at wiring time, before the keeper is copied into the servers) -/
theorem facts_no_field_writes : Generated.keeperFieldWrites = [("SetTestAccountKeeper", "accountKeeper"), ("SetTestAuthority", "authority")] := by decide

/-- no package-level variables in `keeper` and `module` -/
theorem facts_no_globals : Generated.packageVars = [] := by decide

/-- InitGenesis writes the three items from the genesis file and constants only (no clock, no environment); ExportGenesis
    returns the stored list as it is -/
theorem facts_genesis :
    Generated.initGenesisCalls = ["k.PendingValidators.Set", "k.CachedBlockPower.Set", "k.AbsoluteChangedInBlockPower.Set"] ∧
    Generated.exportGenesisCalls = ["k.PendingValidators.Get", "k.PendingValidators.Get(ctx)", "return &poa.GenesisState{ Vals: vals.Validators, }"] := by decide

theorem facts_prefixes : Generated.storePrefixes =
    [("ParamsKey", "0"), ("PendingValidatorsKey", "1"), ("CachedPreviousBlockPowerKey", "2"), ("AbsoluteChangedInBlockPowerKey", "3"), ("UpdatedValidatorsCacheKey", "4")] := by decide

/-- **C12a** (stop anywhere, resume from the state): running `h₁ ++ h₂` is running `h₁`, then — if it completed —
    running `h₂` from the state and validator set it ended in; for every split point of every history -/
theorem c12_split (env : Env) :
    ∀ (h1 h2 : List Block) (s : App) (c : CSet),
      runFrom env s c (h1 ++ h2) =
        match runFrom env s c h1 with
        | (steps, .done) =>
          (match steps.getLast? with
           | some st => let r := runFrom env st.app st.comet h2; (steps ++ r.1, r.2)
           | none => runFrom env s c h2)
        | (steps, e) => (steps, e)
  | [], h2, s, c => by simp [runFrom]
  | b :: h1, h2, s, c => by
    simp only [List.cons_append, runFrom]
    cases hb : App.block env s b with
    | error h => simp
    | ok r =>
      obtain ⟨o, s'⟩ := r
      simp only
      cases hc : Comet.applyChangeSet c o.updates with
      | error e => simp
      | ok c' =>
        simp only
        rw [c12_split env h1 h2 s' c']
        cases hr : runFrom env s' c' h1 with
        | mk steps e =>
          cases e with
          | done =>
            simp only
            cases hl : steps.getLast? with
            | none =>
              have : steps = [] := List.getLast?_eq_none_iff.mp hl
              subst this
              simp
            | some st =>
              have : (⟨o, s', c'⟩ :: steps).getLast? = some st := by
                rw [List.getLast?_cons]; simp [hl]
              simp [this]
          | halted h => simp
          | rejected e => simp

/-- a node that is torn down and re-created from its persisted state (application state and CometBFT's validator
    set — all the model's `block` reads) after each segment of blocks: the next segment starts from the last
    committed step of the previous one -/
def runSegs (env : Env) : App → CSet → List (List Block) → List Step × RunEnd
  | _, _, [] => ([], .done)
  | s, c, seg :: rest =>
    match runFrom env s c seg with
    | (steps, .done) =>
      (match steps.getLast? with
       | some st => let r := runSegs env st.app st.comet rest; (steps ++ r.1, r.2)
       | none => runSegs env s c rest)
    | (steps, e) => (steps, e)

/-- **C12c** (any number of restarts, at any subset of commit boundaries): cutting a history into any number of
    segments of any lengths (empty ones included — a restart straight after a restart) and restarting between
    them gives, step for step, the results, update lists and states of the uninterrupted run -/
theorem c12_restarts (env : Env) :
    ∀ (segs : List (List Block)) (s : App) (c : CSet), runSegs env s c segs = runFrom env s c segs.flatten
  | [], s, c => by simp [runSegs, runFrom]
  | seg :: rest, s, c => by
    simp only [runSegs, List.flatten_cons]
    rw [c12_split env seg rest.flatten s c]
    cases hr : runFrom env s c seg with
    | mk steps e =>
      cases e with
      | done =>
        simp only
        cases hl : steps.getLast? with
        | none => simp only; exact c12_restarts env rest s c
        | some st => simp only; rw [c12_restarts env rest st.app st.comet]
      | halted h => rfl
      | rejected e => rfl

/-- non-vacuity of the segmentation: three restarts, one of them immediately after another -/
example (env : Env) (s : App) (c : CSet) (b1 b2 b3 : Block) :
    runSegs env s c [[b1], [], [b2, b3], []] = runFrom env s c [b1, b2, b3] := c12_restarts env _ s c

/-- **C12b** (determinism): the run is a function — two executions of the same blocks from the same genesis give
    identical results, update lists (order included) and states -/
theorem c12_deterministic (env : Env) (g : Genesis) (bs : List Block) : run env g bs = run env g bs := rfl

end PoaVerif.Props.C12
