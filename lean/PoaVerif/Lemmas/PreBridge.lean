import PoaVerif.Lemmas.Refine
/-
  The Boolean `Pre` (computed by the driver on every block of every explored history) implies the hypotheses
  `PreAgree` of the refinement theorem.
-/
namespace PoaVerif
namespace App

theorem mem_of_getVal (s : App) (op : Nat) (v : Val) (h : s.getVal op = some v) : v ∈ s.vals := by
  unfold getVal at h
  exact List.mem_of_find?_eq_some h

theorem inj_of_nodup_map {α : Type} (f : α → Nat) : ∀ (l : List α), (l.map f).Nodup → ∀ x ∈ l, ∀ y ∈ l, f x = f y → x = y
  | [], _, x, hx, _, _, _ => by simp at hx
  | a :: l, hn, x, hx, y, hy, hxy => by
    simp only [List.map_cons, List.nodup_cons, List.mem_map, not_exists, not_and] at hn
    rcases List.mem_cons.mp hx with ex | ex <;> rcases List.mem_cons.mp hy with ey | ey
    · rw [ex, ey]
    · subst ex; exact absurd hxy.symm (hn.1 y ey)
    · subst ey; exact absurd hxy (hn.1 x ex)
    · exact inj_of_nodup_map f l hn.2 x ex y ey hxy

theorem hasCandEntry_eq_visited (s : App) (op : Nat) (v : Val) (hv : s.getVal op = some v) :
    hasCandEntry s v = visitedB s s.index op := by
  have := getVal_op s op v hv
  simp [hasCandEntry, visitedB, hv, this]

theorem candCount_eq (s : App) :
    candCount s s.index = (s.index.filter (fun e => match s.getVal e.2 with | some v => cand v | none => false)).length := rfl

/-- `Pre` implies the hypotheses of the refinement theorem -/
theorem preAgree_of_pre (s : App) (c : CSet) (h : Pre s c = true) : PreAgree s c := by
  unfold Pre at h
  simp only [Bool.and_eq_true] at h
  obtain ⟨⟨⟨⟨⟨⟨⟨⟨⟨⟨⟨⟨⟨⟨⟨⟨⟨⟨h1, h2a⟩, h2b⟩, h3⟩, h4a⟩, h4b⟩, h4c⟩, h4d⟩, h5⟩, h6⟩, h7⟩, h8⟩, h9a⟩, h9b⟩, h11a⟩, h11b⟩, h11c⟩, h10a⟩, h10b⟩ := h
  have nd_ops := (nodupNat_iff _).mp h4a
  have nd_keys := (nodupNat_iff _).mp h4b
  have nd_last := (nodupNat_iff _).mp h4d
  have keyInj : ∀ op1 op2 v1 v2, s.getVal op1 = some v1 → s.getVal op2 = some v2 → v1.key = v2.key → op1 = op2 := by
    intro op1 op2 v1 v2 g1 g2 hk
    have := inj_of_nodup_map (·.key) s.vals nd_keys v1 (mem_of_getVal s op1 v1 g1) v2 (mem_of_getVal s op2 v2 g2) hk
    rw [← getVal_op s op1 v1 g1, ← getVal_op s op2 v2 g2, this]
  have allVals : ∀ {P : Val → Bool}, s.vals.all P = true → ∀ op v, s.getVal op = some v → P v = true := by
    intro P hP op v hv
    exact List.all_eq_true.mp hP v (mem_of_getVal s op v hv)
  exact {
    exists_ := fun e he => List.all_eq_true.mp h2a e he
    keyInj := keyInj
    occ2 := by
      intro op v hv hc
      have hvop := getVal_op s op v hv
      have := allVals h5 op v hv
      by_cases hce : hasCandEntry s v = true
      · simp only [hce, Bool.not_true, Bool.false_or, Bool.and_eq_true, decide_eq_true_eq, Bool.or_eq_true, beq_iff_eq] at this
        rw [hvop] at this
        refine ⟨this.1.1, fun h2 => ?_⟩
        rcases this.1.2 with hh | hh
        · exact absurd h2 hh
        · exact hh
      · have : occ op s.index = 0 := by
          simp only [hasCandEntry, hc, Bool.true_and, decide_eq_true_eq, hvop] at hce; omega
        exact ⟨by omega, fun h2 => by omega⟩
    noCut := by
      have h1' := of_decide_eq_true h1
      unfold candCount
      refine Nat.le_trans (Nat.le_of_eq ?_) h1'
      congr 1
    shadow := h3
    lastNodup := nd_last
    lastEx := by
      intro op p hl
      have hm := alookup_mem op p s.last hl
      exact List.all_eq_true.mp h2b (op, p) hm
    silent := by
      intro op v hv hc ho hl
      have hvop := getVal_op s op v hv
      have := allVals h5 op v hv
      have hce : hasCandEntry s v = true := by simp [hasCandEntry, hc, hvop, ho]
      simp only [hce, Bool.not_true, Bool.false_or, Bool.and_eq_true, decide_eq_true_eq, Bool.or_eq_true, beq_iff_eq, bne_iff_ne, ne_eq] at this
      rw [hvop] at this
      rcases this.2 with hh | hh
      · rcases hh with hh | hh
        · exact absurd ho hh
        · exact absurd hl hh
      · exact hh
    leaving := by
      intro op v hv hl hvis
      have hvop := getVal_op s op v hv
      have := allVals h6 op v hv
      have hce : hasCandEntry s v = false := by rw [hasCandEntry_eq_visited s op v hv]; exact hvis
      have hmem : amem v.op s.last = true := by
        rw [hvop]; unfold amem
        cases hq : alookup op s.last with
        | none => exact absurd hq hl
        | some q => rfl
      simp only [hmem, hce, Bool.not_false, Bool.and_self, Bool.not_true, Bool.false_or, Bool.and_eq_true, beq_iff_eq] at this
      refine ⟨this.1, ?_⟩
      have := this.2
      unfold amem at this
      intro hn; rw [hn] at this; cases this
    cometKnown := by
      intro k p hkp
      have hm := alookup_mem k p c hkp
      have := List.all_eq_true.mp h7 (k, p) hm
      obtain ⟨v, hvmem, hvv⟩ := List.any_eq_true.mp this
      simp only [Bool.and_eq_true, beq_iff_eq] at hvv
      have hget : s.getVal v.op = some v := by
        -- the first record with this operator is `v` itself (operators are pairwise distinct)
        unfold getVal
        cases hf : s.vals.find? (fun x => x.op == v.op) with
        | none =>
          have := List.find?_eq_none.mp hf v hvmem
          simp at this
        | some w =>
          have hw := List.mem_of_find?_eq_some hf
          have hwop : w.op = v.op := by have := List.find?_some hf; simpa using this
          have := inj_of_nodup_map (·.op) s.vals nd_ops w hw v hvmem hwop
          rw [this]
      refine ⟨v, hget, hvv.1, ?_⟩
      have := hvv.2
      unfold amem at this
      intro hn; rw [hn] at this; cases this
    bondedKnown := by
      intro op v hv hb hj
      have hvop := getVal_op s op v hv
      have := allVals h8 op v hv
      simp only [hb, hj, beq_self_eq_true, Bool.not_false, Bool.and_self, Bool.not_true, Bool.false_or, Bool.or_eq_true] at this
      rcases this with hh | hh
      · left; rw [← hasCandEntry_eq_visited s op v hv]; exact hh
      · right
        unfold amem at hh
        rw [hvop] at hh
        intro hn; rw [hn] at hh; cases hh }

end App
end PoaVerif
