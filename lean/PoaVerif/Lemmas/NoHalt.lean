import PoaVerif.Lemmas.Accept
/-
  Under `Pre` neither loop of `ApplyAndReturnValidatorSetUpdates` panics: every index entry resolves to a record
  (`mustGetValidator`), and every validator left in the last-power table is Bonded when the second loop reaches it
  (`bondedToUnbonding` panics otherwise).
-/
namespace PoaVerif
namespace App

theorem first_loop_total (s : App) (hp : PreLoop s) :
    ∀ (rest done : List (Nat × Nat)) (acc : LoopAcc), s.index = done ++ rest → FirstInv s done acc →
      ∃ a, applyLoop s.params.maxVals rest acc = .done a
  | [], _, acc, _, _ => ⟨acc, by simp [applyLoop]⟩
  | e :: rest, done, acc, hsplit, hinv => by
    have hex : (s.getVal e.2).isSome = true := by
      apply hp.exists_; rw [hsplit]; simp
    cases hv : s.getVal e.2 with
    | none => simp [hv] at hex
    | some v =>
      unfold applyLoop
      by_cases hroom : acc.count < s.params.maxVals
      · simp only [hroom, ↓reduceIte]
        by_cases hc : cand v = true
        · obtain ⟨a1, hvis, hinv1⟩ := first_step_cand s hp done rest e acc v hsplit hv hc hinv
          rw [hvis]
          simp only [loopCont]
          exact first_loop_total s hp rest (done ++ [e]) a1 (by rw [hsplit]; simp) hinv1
        · have hc' : cand v = false := by simpa using hc
          obtain ⟨hvisit, hinv1⟩ := first_step_noncand s done e acc v hv hc' hinv
          rcases hvisit with hsk | hst
          · rw [hsk]
            simp only [loopCont]
            exact first_loop_total s hp rest (done ++ [e]) acc (by rw [hsplit]; simp) hinv1
          · rw [hst]
            exact ⟨acc, rfl⟩
      · simp only [hroom, ↓reduceIte]
        exact ⟨acc, rfl⟩

theorem unbondOne_ok (u : UnbAcc) (op : Nat) (w : Val) (hw : u.app.getVal op = some w) (hb : w.status = .bonded) :
    ∃ u', unbondOne u op = .ok u' := by
  unfold unbondOne
  rw [hw]
  simp [hb]

theorem second_loop_total (a : LoopAcc) : ∀ (rem doneL : List (Nat × Int)) (u : UnbAcc),
    ((doneL ++ rem).map (·.1)).Nodup → SecondInv a doneL u →
    (∀ op ∈ rem.map (·.1), ∃ w, a.app.getVal op = some w ∧ w.status = .bonded) →
    ∃ u', unbondLoop rem u = .ok u'
  | [], _, u, _, _, _ => ⟨u, by simp [unbondLoop]⟩
  | (op0, q0) :: rem, doneL, u, hnd, hinv, hb => by
    have hop0 : op0 ∉ doneL.map (·.1) := by
      intro hm
      simp only [List.map_append, List.map_cons] at hnd
      exact (List.nodup_append.mp hnd).2.2 op0 hm op0 (by simp) rfl
    obtain ⟨w, hw, hwb⟩ := hb op0 (by simp)
    have hk := (hinv.kept op0 hop0).2
    obtain ⟨u1, h1⟩ := unbondOne_ok u op0 w (by rw [hk]; exact hw) hwb
    unfold unbondLoop
    rw [h1]
    simp only
    have hnd1 : ((doneL ++ [(op0, q0)]).map (·.1)).Nodup := by
      simp only [List.map_append, List.map_cons, List.map_nil] at hnd ⊢
      have := List.nodup_append.mp hnd
      rw [List.nodup_append]
      refine ⟨this.1, by simp, ?_⟩
      intro x hx y hy
      simp at hy; subst hy
      exact this.2.2 x hx y (by simp)
    have hinv1 := second_loop a [(op0, q0)] doneL u u1 hnd1 hinv (by simp [unbondLoop, h1])
    exact second_loop_total a rem (doneL ++ [(op0, q0)]) u1 (by simpa using hnd) hinv1
      (fun op hop => hb op (by simp only [List.map_cons, List.mem_cons]; right; exact hop))

/-- **neither loop panics** -/
theorem loops_total (s : App) (c : CSet) (hp : PreAgree s c) :
    ∃ a u, applyLoop s.params.maxVals s.index ⟨s, s.last, [], 0, 0, 0⟩ = .done a ∧
      unbondLoop a.last ⟨a.app, a.updates, 0⟩ = .ok u ∧ FirstInv s s.index a ∧ SecondInv a a.last u := by
  obtain ⟨a, hl⟩ := first_loop_total s hp.toPreLoop s.index [] ⟨s, s.last, [], 0, 0, 0⟩ (by simp) (firstInv_init s)
  have hF := first_loop s hp.toPreLoop s.index [] ⟨s, s.last, [], 0, 0, 0⟩ a (by simp) hp.shadow (firstInv_init s) hl
  have hlastNd : (a.last.map (·.1)).Nodup := sublist_nodup_keys hF.lastSub hp.lastNodup
  have hS0 : SecondInv a [] ⟨a.app, a.updates, 0⟩ :=
    { ups := by simp, gone := by intro op hm; simp at hm, kept := fun _ _ => ⟨rfl, rfl⟩ }
  have hb : ∀ op ∈ a.last.map (·.1), ∃ w, a.app.getVal op = some w ∧ w.status = .bonded := by
    intro op hop
    obtain ⟨hnv, hne⟩ := (mem_remaining s c hp a hF op).mp hop
    cases hlq : alookup op s.last with
    | none => exact absurd hlq hne
    | some p' =>
      have ex := hp.lastEx op p' hlq
      cases hvo : s.getVal op with
      | none => simp [hvo] at ex
      | some vo =>
        obtain ⟨w, hw, _, _, _, _, hst⟩ := hF.stableSome op vo hvo
        rw [hnv] at hst
        refine ⟨w, hw, ?_⟩
        rw [hst]; simp
        exact (hp.leaving op vo hvo hne hnv).1
  obtain ⟨u, hu⟩ := second_loop_total a a.last [] ⟨a.app, a.updates, 0⟩ (by simpa using hlastNd) hS0 hb
  have hS := second_loop a a.last [] ⟨a.app, a.updates, 0⟩ u (by simpa using hlastNd) hS0 hu
  simp only [List.nil_append] at hS
  exact ⟨a, u, hl, hu, hF, hS⟩

end App
end PoaVerif
