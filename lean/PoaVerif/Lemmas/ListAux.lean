import PoaVerif.Model.Pre
import PoaVerif.Lemmas.Basic
/-
  List-level lemmas used by the refinement proof: duplicate-freeness, occurrence counts, lookups in folds.
-/
namespace PoaVerif

theorem nodupNat_iff : ∀ l : List Nat, nodupNat l = true ↔ l.Nodup
  | [] => by simp [nodupNat]
  | x :: xs => by
    simp only [nodupNat, Bool.and_eq_true, Bool.not_eq_true', List.nodup_cons]
    rw [nodupNat_iff xs]
    constructor
    · rintro ⟨h1, h2⟩; exact ⟨by simpa using h1, h2⟩
    · rintro ⟨h1, h2⟩; exact ⟨by simpa using h1, h2⟩

namespace App

theorem occ_nil (op : Nat) : occ op [] = 0 := rfl

theorem occ_append (op : Nat) (a b : List (Nat × Nat)) : occ op (a ++ b) = occ op a + occ op b := by
  simp [occ, List.filter_append]

theorem occ_single (op : Nat) (e : Nat × Nat) : occ op [e] = if e.2 = op then 1 else 0 := by
  unfold occ
  by_cases h : e.2 = op
  · simp [h]
  · simp [h]

theorem occ_cons (op : Nat) (e : Nat × Nat) (l : List (Nat × Nat)) : occ op (e :: l) = (if e.2 = op then 1 else 0) + occ op l := by
  have := occ_append op [e] l
  simp only [List.singleton_append] at this
  rw [this, occ_single]

theorem occ_pos_of_mem (e : Nat × Nat) (l : List (Nat × Nat)) (h : e ∈ l) : occ e.2 l > 0 := by
  induction l with
  | nil => simp at h
  | cons x xs ih =>
    rw [occ_cons]
    rcases List.mem_cons.mp h with e1 | e1
    · subst e1; simp only [↓reduceIte]; omega
    · have := ih e1; omega

end App

theorem nodup_map_on {α β : Type} (f : α → β) : ∀ l : List α, (∀ x ∈ l, ∀ y ∈ l, f x = f y → x = y) → l.Nodup → (l.map f).Nodup
  | [], _, _ => by simp
  | a :: l, hinj, hn => by
    rw [List.nodup_cons] at hn
    simp only [List.map_cons, List.nodup_cons, List.mem_map, not_exists, not_and]
    refine ⟨?_, nodup_map_on f l (fun x hx y hy => hinj x (List.mem_cons_of_mem _ hx) y (List.mem_cons_of_mem _ hy)) hn.2⟩
    intro x hx heq
    have := hinj x (List.mem_cons_of_mem _ hx) a (by simp) heq
    subst this
    exact hn.1 hx

/-! ### lookups -/

theorem alookup_none_of_not_mem {α : Type} (k : Nat) (l : List (Nat × α)) (h : k ∉ l.map (·.1)) : alookup k l = none := by
  induction l with
  | nil => rfl
  | cons x xs ih =>
    obtain ⟨k', v'⟩ := x
    simp only [List.map_cons, List.mem_cons, not_or] at h
    unfold alookup
    have : ¬ k' = k := fun e => h.1 e.symm
    simp only [this, ↓reduceIte]
    exact ih h.2

theorem mem_of_alookup {α : Type} (k : Nat) (v : α) (l : List (Nat × α)) (h : alookup k l = some v) : k ∈ l.map (·.1) := by
  induction l with
  | nil => simp [alookup] at h
  | cons x xs ih =>
    obtain ⟨k', v'⟩ := x
    unfold alookup at h
    by_cases h1 : k' = k
    · simp [h1]
    · simp only [h1, ↓reduceIte] at h
      simp only [List.map_cons, List.mem_cons]
      right; exact ih h

theorem alookup_of_mem_nodup {α : Type} (k : Nat) (v : α) (l : List (Nat × α)) (hn : (l.map (·.1)).Nodup) (h : (k, v) ∈ l) :
    alookup k l = some v := by
  induction l with
  | nil => simp at h
  | cons x xs ih =>
    obtain ⟨k', v'⟩ := x
    simp only [List.map_cons, List.nodup_cons] at hn
    unfold alookup
    rcases List.mem_cons.mp h with e | e
    · injection e with e1 e2; subst e1; subst e2; simp
    · have hk : k ∈ xs.map (·.1) := List.mem_map.mpr ⟨(k, v), e, rfl⟩
      have : ¬ k' = k := fun e' => hn.1 (e' ▸ hk)
      simp only [this, ↓reduceIte]
      exact ih hn.2 e

/-- lookup after applying an update list with pairwise distinct keys to a CometBFT set -/
theorem alookup_applyAll (c : CSet) : ∀ (ups : List (Nat × Int)) (k : Nat), (ups.map (·.1)).Nodup →
    alookup k (ups.foldl Comet.applyOne c) =
      (match alookup k ups with
       | some p => if p = 0 then none else some p
       | none => alookup k c)
  | [], k, _ => by simp [alookup]
  | (k', p') :: rest, k, hn => by
    simp only [List.map_cons, List.nodup_cons] at hn
    simp only [List.foldl_cons]
    rw [alookup_applyAll _ rest k hn.2]
    by_cases hk : k' = k
    · subst hk
      have : alookup k' rest = none := alookup_none_of_not_mem k' rest hn.1
      simp only [this, alookup, ↓reduceIte]
      unfold Comet.applyOne
      by_cases hp : p' = 0
      · simp [hp, alookup_aerase_self]
      · simp [hp, alookup_ainsert_self]
    · have hk' : k ≠ k' := fun e => hk e.symm
      have e1 : alookup k ((k', p') :: rest) = alookup k rest := by simp [alookup, hk]
      rw [e1]
      cases hr : alookup k rest with
      | some p => rfl
      | none =>
        simp only
        unfold Comet.applyOne
        by_cases hp : p' = 0
        · simp [hp, alookup_aerase_ne _ _ _ hk']
        · simp [hp, alookup_ainsert_ne _ _ _ _ hk']

end PoaVerif
