import PoaVerif.Lemmas.Basic
/-
  Post-condition of x/staking's EndBlocker model that holds for EVERY state (no envelope needed): whatever
  entries are left in the last-validator-power table belong to bonded, un-jailed validators with non-zero
  power, and record exactly that power.
-/
namespace PoaVerif
namespace App

/-- a last-power entry that describes an active validator correctly -/
def GoodEntry (s : App) (op : Nat) (p : Int) : Prop :=
  ∃ v, s.getVal op = some v ∧ v.status = .bonded ∧ v.jailed = false ∧ p = ((powerOf v.tokens : Nat) : Int) ∧ powerOf v.tokens > 0

theorem getVal_delVal_ne (s : App) (op op2 : Nat) (h : op2 ≠ op) : (s.delVal op).getVal op2 = s.getVal op2 := by
  simp only [getVal, delVal]
  induction s.vals with
  | nil => rfl
  | cons x xs ih =>
    rw [List.filter_cons]
    by_cases h1 : x.op = op
    · have : (x.op != op) = false := by simp [h1]
      have h3 : (x.op == op2) = false := by simp [h1]; exact fun e => h e.symm
      simp only [this, Bool.false_eq_true, ↓reduceIte, List.find?_cons, h3]
      exact ih
    · have : (x.op != op) = true := by simp [h1]
      simp only [this, ↓reduceIte, List.find?_cons, ih]

theorem GoodEntry.congr {a b : App} {op : Nat} {p : Int} (h : a.getVal op = b.getVal op) (g : GoodEntry a op p) : GoodEntry b op p := by
  obtain ⟨v, h1, h2⟩ := g
  exact ⟨v, by rw [← h]; exact h1, h2⟩

theorem alookup_mem {α : Type} (k : Nat) (v : α) (l : List (Nat × α)) (h : alookup k l = some v) : (k, v) ∈ l := by
  induction l with
  | nil => simp [alookup] at h
  | cons x xs ih =>
    obtain ⟨k', v'⟩ := x
    unfold alookup at h
    by_cases h1 : k' = k
    · simp [h1] at h; subst h1; subst h; simp
    · simp [h1] at h; exact List.mem_cons_of_mem _ (ih h)

theorem mem_alookup_ne_none {α : Type} (k : Nat) (v : α) (l : List (Nat × α)) (h : (k, v) ∈ l) : alookup k l ≠ none := by
  induction l with
  | nil => simp at h
  | cons x xs ih =>
    obtain ⟨k', v'⟩ := x
    unfold alookup
    by_cases h1 : k' = k
    · simp [h1]
    · simp only [h1, ↓reduceIte]
      have : (k, v) ∈ xs := by
        rcases List.mem_cons.mp h with e | e
        · injection e with e1 e2; exact absurd e1.symm h1
        · exact e
      exact ih this

/-! ### bonding inside the first loop -/

theorem bondValidator_spec (s : App) (v : Val) :
    (s.bondValidator v).1.last = s.last ∧
    (s.bondValidator v).1.getVal v.op = some (s.bondValidator v).2 ∧
    (s.bondValidator v).2 = { v with status := .bonded } ∧
    ∀ op, op ≠ v.op → (s.bondValidator v).1.getVal op = s.getVal op := by
  unfold bondValidator
  refine ⟨by simp, ?_, rfl, ?_⟩
  · simp only
    rw [getVal_congr _ ((s.delIdx v).setVal { v with status := .bonded }) (by simp)]
    exact getVal_setVal_self _ _
  · intro op hne
    simp only
    rw [getVal_congr _ ((s.delIdx v).setVal { v with status := .bonded }) (by simp)]
    rw [getVal_setVal_ne (s.delIdx v) { v with status := .bonded } op hne]
    exact getVal_congr _ _ (by simp) _

theorem bondIfNeeded_spec (s : App) (v : Val) (hv : s.getVal v.op = some v) :
    (s.bondIfNeeded v).1.last = s.last ∧
    (s.bondIfNeeded v).1.getVal v.op = some (s.bondIfNeeded v).2.1 ∧
    (s.bondIfNeeded v).2.1.status = .bonded ∧ (s.bondIfNeeded v).2.1.jailed = v.jailed ∧
    (s.bondIfNeeded v).2.1.tokens = v.tokens ∧ (s.bondIfNeeded v).2.1.op = v.op ∧
    ∀ op, op ≠ v.op → (s.bondIfNeeded v).1.getVal op = s.getVal op := by
  unfold bondIfNeeded
  by_cases hb : v.status = .bonded
  · rw [if_pos hb]
    exact ⟨rfl, hv, hb, rfl, rfl, rfl, fun _ _ => rfl⟩
  · rw [if_neg hb]
    obtain ⟨h1, h2, h3, h4⟩ := bondValidator_spec s v
    dsimp only
    refine ⟨h1, h2, ?_, ?_, ?_, ?_, h4⟩ <;> rw [h3]

/-! ### first loop -/

def LoopInv (acc : LoopAcc) : Prop :=
  (∀ op p, alookup op acc.last = some p → alookup op acc.app.last = some p) ∧
  (∀ op p, alookup op acc.app.last = some p →
     alookup op acc.last = some p ∨ (alookup op acc.last = none ∧ GoodEntry acc.app op p))

@[simp] theorem setLast_last' (s : App) (op : Nat) (p : Int) : (s.setLast op p).last = ainsert op p s.last := rfl
@[simp] theorem delLast_last' (s : App) (op : Nat) : (s.delLast op).last = aerase op s.last := rfl

theorem visitVal_inv (acc a : LoopAcc) (v : Val) (hv : acc.app.getVal v.op = some v) (hi : LoopInv acc)
    (h : visitVal acc v = .next a) : LoopInv a := by
  unfold visitVal at h
  split at h
  · cases h
  · split at h
    · cases h
    · rename_i hj hp
      injection h with h
      obtain ⟨b1, b2, b3, b4, b5, b6, b7⟩ := bondIfNeeded_spec acc.app v hv
      have hjail : v.jailed = false := by simpa using hj
      have hpow : powerOf v.tokens > 0 := Nat.pos_of_ne_zero hp
      generalize hr : acc.app.bondIfNeeded v = r at h b1 b2 b3 b4 b5 b6 b7
      generalize hnp : ((powerOf r.2.1.tokens : Nat) : Int) = np at h
      generalize hch : (alookup v.op acc.last != some np) = changed at h
      -- the new application state: same validator table as after bonding; the table of last powers
      -- gets the visited validator's entry when it changed
      have hvals : a.app.vals = r.1.vals := by
        rw [← h]; simp only; cases changed <;> simp
      have hlast : ∀ op, op ≠ v.op → alookup op a.app.last = alookup op acc.app.last := by
        intro op he
        rw [← h]; simp only
        cases changed
        · simp [b1]
        · simp [b1, alookup_ainsert_ne _ _ _ _ he]
      have hself : alookup v.op a.app.last = some np := by
        rw [← h]; simp only
        cases changed
        · simp only [Bool.false_eq_true, ↓reduceIte, b1]
          have hc' : alookup v.op acc.last = some np := by simpa using hch
          exact hi.1 _ _ hc'
        · simp [alookup_ainsert_self]
      have halast : a.last = aerase v.op acc.last := by rw [← h]
      obtain ⟨i1, i2⟩ := hi
      constructor
      · intro op p hop
        rw [halast] at hop
        by_cases he : op = v.op
        · subst he; rw [alookup_aerase_self] at hop; cases hop
        · rw [alookup_aerase_ne _ _ _ he] at hop
          rw [hlast op he]; exact i1 op p hop
      · intro op p hop
        rw [halast]
        by_cases he : op = v.op
        · subst he
          right
          refine ⟨alookup_aerase_self _ _, ?_⟩
          rw [hself] at hop
          injection hop with hop
          refine ⟨r.2.1, ?_, b3, by rw [b4]; exact hjail, by rw [← hop, ← hnp], by rw [b5]; exact hpow⟩
          rw [getVal_congr _ r.1 hvals]; exact b2
        · rw [alookup_aerase_ne _ _ _ he]
          rw [hlast op he] at hop
          rcases i2 op p hop with h1 | ⟨h1, h2⟩
          · left; exact h1
          · right
            refine ⟨h1, ?_⟩
            apply GoodEntry.congr _ h2
            rw [getVal_congr _ r.1 hvals]
            exact (b7 op he).symm

theorem visit_inv (acc a : LoopAcc) (op : Nat) (hi : LoopInv acc) (h : visit acc op = .next a) : LoopInv a := by
  unfold visit at h
  split at h
  · cases h
  · rename_i v hv
    have := getVal_op _ _ _ hv
    subst this
    exact visitVal_inv acc a v hv hi h

theorem applyLoop_inv (maxV : Nat) :
    ∀ (idx : List (Nat × Nat)) (acc a : LoopAcc), LoopInv acc → applyLoop maxV idx acc = .done a → LoopInv a
  | [], acc, a, hi, h => by simp [applyLoop] at h; subst h; exact hi
  | e :: rest, acc, a, hi, h => by
    unfold applyLoop at h
    split at h
    · cases hv : visit acc e.2 with
      | halt hh => simp [hv, loopCont] at h
      | skip => simp only [hv, loopCont] at h; exact applyLoop_inv maxV rest acc a hi h
      | stop => simp only [hv, loopCont] at h; injection h with h; subst h; exact hi
      | next a1 =>
        simp only [hv, loopCont] at h
        exact applyLoop_inv maxV rest a1 a (visit_inv acc a1 e.2 hi hv) h
    · injection h with h; subst h; exact hi

/-! ### second loop -/

def UnbInv (L rem : List (Nat × Int)) (u : App) : Prop :=
  ∀ op p, alookup op u.last = some p → (∃ q, (op, q) ∈ rem) ∨ (alookup op L = none ∧ GoodEntry u op p)

theorem beginUnbonding_spec (s : App) (v : Val) :
    (s.beginUnbonding v).1.last = s.last ∧ ∀ op, op ≠ v.op → (s.beginUnbonding v).1.getVal op = s.getVal op := by
  unfold beginUnbonding
  refine ⟨by simp, ?_⟩
  intro op hne
  simp only
  rw [getVal_congr _ ((s.delIdx v).setVal { v with status := .unbonding, ubTime := (s.delIdx v).time + (s.delIdx v).params.unbond, ubHeight := (s.delIdx v).height }) (by simp)]
  rw [getVal_setVal_ne _ _ _ (by simpa using hne)]
  exact getVal_congr _ _ (by simp) _

theorem unbondLoop_inv (L : List (Nat × Int)) :
    ∀ (rem : List (Nat × Int)) (u u' : UnbAcc), (∀ x ∈ rem, x ∈ L) → UnbInv L rem u.app →
      unbondLoop rem u = .ok u' → UnbInv L [] u'.app
  | [], u, u', _, hi, h => by simp [unbondLoop] at h; subst h; exact hi
  | (op0, q0) :: rest, u, u', hsub, hi, h => by
    unfold unbondLoop at h
    cases h1 : unbondOne u op0 with
    | error e => simp [h1] at h
    | ok u1 =>
      simp only [h1] at h
      apply unbondLoop_inv L rest u1 u' (fun x hx => hsub x (List.mem_cons_of_mem _ hx)) _ h
      -- one step
      unfold unbondOne at h1
      cases hv : u.app.getVal op0 with
      | none => simp [hv] at h1
      | some v =>
        simp only [hv] at h1
        split at h1
        · cases h1
        · injection h1 with h1
          subst h1
          have hvop := getVal_op _ _ _ hv
          obtain ⟨e1, e2⟩ := beginUnbonding_spec u.app v
          intro op p hop
          simp only [delLast_last'] at hop
          have hne : op ≠ op0 := by
            intro e; subst e; rw [alookup_aerase_self] at hop; cases hop
          rw [alookup_aerase_ne _ _ _ hne, e1] at hop
          rcases hi op p hop with ⟨q, hq⟩ | ⟨g1, g2⟩
          · left
            rcases List.mem_cons.mp hq with e | e
            · injection e with e _; exact absurd e hne
            · exact ⟨q, e⟩
          · right
            refine ⟨g1, ?_⟩
            apply GoodEntry.congr _ g2
            dsimp only
            rw [getVal_congr ((u.app.beginUnbonding v).1.delLast op0) (u.app.beginUnbonding v).1 (delLast_vals _ _)]
            exact (e2 op (by rw [hvop]; exact hne)).symm

theorem movePools_frame (s s' : App) (a b : Int) (h : s.movePools a b = .ok s') : s'.last = s.last ∧ s'.vals = s.vals := by
  unfold movePools at h
  split at h
  · dsimp only at h
    split at h
    · cases h
    · cases h; exact ⟨rfl, rfl⟩
  · split at h
    · dsimp only at h
      split at h
      · cases h
      · cases h; exact ⟨rfl, rfl⟩
    · cases h; exact ⟨rfl, rfl⟩

/-- **post-condition of `ApplyAndReturnValidatorSetUpdates`** -/
theorem applyUpdates_post (s s' : App) (ups : List (Nat × Int)) (h : s.applyUpdates = .ok (ups, s')) :
    ∀ op p, alookup op s'.last = some p → GoodEntry s' op p := by
  unfold applyUpdates at h
  cases hl : applyLoop s.params.maxVals s.index ⟨s, s.last, [], 0, 0, 0⟩ with
  | halt hh => simp [hl] at h
  | done a =>
    simp only [hl] at h
    have hinit : LoopInv ⟨s, s.last, [], 0, 0, 0⟩ := ⟨fun _ _ h => h, fun _ _ h => Or.inl h⟩
    have hA := applyLoop_inv _ _ _ _ hinit hl
    unfold finishUpdates at h
    cases hu : unbondLoop a.last ⟨a.app, a.updates, 0⟩ with
    | error e => simp [hu] at h
    | ok u =>
      simp only [hu] at h
      cases hm : movePools u.app a.nb2b u.b2nb with
      | error e => simp [hm] at h
      | ok s2 =>
        simp only [hm] at h
        injection h with h
        have hinitU : UnbInv a.last a.last a.app := by
          intro op p hop
          rcases hA.2 op p hop with h1 | h1
          · left; exact ⟨p, alookup_mem _ _ _ h1⟩
          · right; exact h1
        have hU := unbondLoop_inv a.last a.last ⟨a.app, a.updates, 0⟩ u (fun _ hx => hx) hinitU hu
        obtain ⟨m1, m2⟩ := movePools_frame _ _ _ _ hm
        intro op p hop
        have hs' : s'.last = s2.last ∧ s'.vals = s2.vals := by
          have := congrArg Prod.snd h
          simp only at this
          rw [← this]
          split <;> exact ⟨rfl, rfl⟩
        rw [hs'.1, m1] at hop
        rcases hU op p hop with ⟨q, hq⟩ | ⟨_, g⟩
        · simp at hq
        · exact GoodEntry.congr (getVal_congr _ _ (by rw [hs'.2, m2]) _) g

/-! ### maturity does not disturb good entries -/

theorem matureOne_frame (s s' : App) (op : Nat) (h : s.matureOne op = .ok s') :
    s'.last = s.last ∧ ∀ op2 v, s.getVal op2 = some v → v.status = .bonded → s'.getVal op2 = some v := by
  unfold matureOne at h
  cases hv : s.getVal op with
  | none => simp [hv] at h
  | some w =>
    simp only [hv] at h
    have hwop := getVal_op _ _ _ hv
    split at h
    · cases h
    · rename_i hst
      have hst' : w.status = .unbonding := by simpa using hst
      have key : ∀ op2 v, s.getVal op2 = some v → v.status = .bonded → op2 ≠ w.op := by
        intro op2 v h2 hb e
        rw [e, hwop, hv] at h2
        injection h2 with h2
        rw [← h2, hst'] at hb
        cases hb
      split at h
      · -- zero shares: the record is removed
        cases hr : removeValidatorRecord (s.setVal { w with status := .unbonded }) { w with status := .unbonded } with
        | error e => simp [hr] at h
        | ok s2 =>
          simp only [hr] at h
          injection h with h
          subst h
          unfold removeValidatorRecord at hr
          split at hr
          · cases hr
          · injection hr with hr
            subst hr
            refine ⟨by simp, ?_⟩
            intro op2 v h2 hb
            have hne := key op2 v h2 hb
            rw [getVal_congr _ ((s.setVal { w with status := .unbonded }).delVal w.op) (by simp)]
            rw [getVal_delVal_ne _ _ _ hne, getVal_setVal_ne _ _ _ (by simpa using hne)]
            exact h2
      · injection h with h
        subst h
        refine ⟨by simp, ?_⟩
        intro op2 v h2 hb
        have hne := key op2 v h2 hb
        rw [getVal_congr _ (s.setVal { w with status := .unbonded }) (by simp)]
        rw [getVal_setVal_ne _ _ _ (by simpa using hne)]
        exact h2

theorem matureOps_frame :
    ∀ (ops : List Nat) (s s' : App), matureOps ops s = .ok s' →
      s'.last = s.last ∧ ∀ op2 v, s.getVal op2 = some v → v.status = .bonded → s'.getVal op2 = some v
  | [], s, s', h => by simp [matureOps] at h; subst h; exact ⟨rfl, fun _ _ h _ => h⟩
  | op :: rest, s, s', h => by
    unfold matureOps at h
    cases h1 : matureOne s op with
    | error e => simp [h1] at h
    | ok s1 =>
      simp only [h1] at h
      obtain ⟨a1, a2⟩ := matureOne_frame s s1 op h1
      obtain ⟨b1, b2⟩ := matureOps_frame rest s1 s' h
      exact ⟨b1.trans a1, fun op2 v h2 hb => b2 op2 v (a2 op2 v h2 hb) hb⟩

theorem matureSlots_frame :
    ∀ (slots : List ((Int × Int) × List Nat)) (s s' : App), matureSlots slots s = .ok s' →
      s'.last = s.last ∧ ∀ op2 v, s.getVal op2 = some v → v.status = .bonded → s'.getVal op2 = some v
  | [], s, s', h => by simp [matureSlots] at h; subst h; exact ⟨rfl, fun _ _ h _ => h⟩
  | ((t, hh), ops) :: rest, s, s', h => by
    unfold matureSlots at h
    split at h
    · cases h1 : matureOps ops s with
      | error e => simp [h1] at h
      | ok s1 =>
        simp only [h1] at h
        obtain ⟨a1, a2⟩ := matureOps_frame ops s s1 h1
        obtain ⟨b1, b2⟩ := matureSlots_frame rest s1 s' h
        exact ⟨b1.trans a1, fun op2 v h2 hb => b2 op2 v (a2 op2 v h2 hb) hb⟩
    · exact matureSlots_frame rest s s' h

/-- **post-condition of x/staking's EndBlocker**: after any successful EndBlock, from any state whatsoever,
    every entry of the last-validator-power table belongs to a bonded, un-jailed validator with non-zero power
    and records that validator's power -/
theorem stakingEndBlock_post (s s' : App) (ups : List (Nat × Int)) (h : s.stakingEndBlock = .ok (ups, s')) :
    ∀ op p, alookup op s'.last = some p → GoodEntry s' op p := by
  unfold stakingEndBlock at h
  cases h1 : s.applyUpdates with
  | error e => simp [h1] at h
  | ok r =>
    obtain ⟨u1, s1⟩ := r
    simp only [h1] at h
    cases h2 : s1.unbondMature with
    | error e => simp [h2] at h
    | ok s2 =>
      simp only [h2] at h
      injection h with h
      injection h with _ h
      subst h
      have post := applyUpdates_post s s1 u1 h1
      obtain ⟨m1, m2⟩ := matureSlots_frame s1.ubq s1 s2 h2
      intro op p hop
      rw [m1] at hop
      obtain ⟨v, g1, g2, g3⟩ := post op p hop
      exact ⟨v, m2 op v g1 g2, g2, g3⟩

/-- consequently the PoA consensus-power query answers 0 for every existing validator that is not bonded or is
    jailed (removed, jailed, unbonding, unbonded), right after every EndBlock -/
theorem query_zero_for_inactive (s s' : App) (ups : List (Nat × Int)) (h : s.stakingEndBlock = .ok (ups, s'))
    (op : Nat) (v : Val) (hv : s'.getVal op = some v) (hin : v.status ≠ .bonded ∨ v.jailed = true) :
    s'.queryPower (some op) = some 0 := by
  have post := stakingEndBlock_post s s' ups h
  simp only [queryPower, hv, lastPower]
  cases hl : alookup op s'.last with
  | none => rfl
  | some p =>
    obtain ⟨w, g1, g2, g3, _⟩ := post op p hl
    rw [hv] at g1
    injection g1 with g1
    subst g1
    rcases hin with h1 | h1
    · exact absurd g2 h1
    · rw [g3] at h1; cases h1

end App
end PoaVerif
