import PoaVerif.Lemmas.Quiet2.Pre
/-
  x/staking's EndBlocker on a `St` state: the first loop changes nothing but (the representation of) the power table,
  the second loop turns every `Gone` record into an `Unb` one, maturity processing deletes the ripe `Unb` records.
-/
namespace PoaVerif
namespace App

/-- `St` reads only these fields of the state -/
theorem St_congr (s s' : App) (m : St s) (hv : s'.vals = s.vals) (hl : s'.last = s.last) (hi : s'.index = s.index)
    (hq : s'.ubq = s.ubq) (hc : s'.cons = s.cons) (hp : s'.params.unbond = s.params.unbond) (hinf : s'.infos = s.infos)
    (hpe : s'.pending = s.pending) (hu : s'.updated = s.updated) : St s' := by
  have hget : ∀ o, s'.getVal o = s.getVal o := fun o => getVal_congr _ _ hv o
  exact {
    sorted := by rw [hv]; exact m.sorted
    keys := by rw [hv]; exact m.keys
    cls := by rw [hv]; exact m.cls
    hasActive := by rw [hv]; exact m.hasActive
    pend := ⟨by rw [hpe]; exact m.pend.ops, by rw [hpe]; exact m.pend.keys, by
      intro q hq'; rw [hpe] at hq'
      obtain ⟨f1, f2, f3⟩ := m.pend.fresh q hq'
      exact ⟨by rw [hget]; exact f1, by rw [hv]; exact f2, f3⟩⟩
    last := by rw [hv, hl]; exact m.last
    lastJ := by rw [hv, hl]; exact m.lastJ
    lastOnly := by intro o p h; rw [hl] at h; rw [hget]; exact m.lastOnly o p h
    lastSorted := by rw [hl]; exact m.lastSorted
    idxEx := by intro e he; rw [hi] at he; rw [hget]; exact m.idxEx e he
    idxNodup := by rw [hi]; exact m.idxNodup
    idx := by
      intro v hvm; rw [hv] at hvm
      have io := m.idx v hvm
      exact { a1 := by rw [hu, hi]; exact io.a1, a2 := by rw [hu, hi]; exact io.a2, g := by rw [hi]; exact io.g, u := by rw [hi]; exact io.u
              j := by rw [hi]; exact io.j }
    unbond := by rw [hp]; exact m.unbond
    infos := by intro v hvm; rw [hv] at hvm; simp only [getInfo, hinf]; exact m.infos v hvm
    cons := by
      intro v hvm; rw [hv] at hvm
      have := m.cons v hvm
      unfold valByKey at this ⊢
      rw [hc]
      cases hk : alookup v.key s.cons with
      | none => rw [hk] at this; cases this
      | some o => rw [hk] at this; simp only at this ⊢; rw [hget]; exact this
    updSorted := by rw [hu]; exact m.updSorted
    updEx := by intro o ho; rw [hu] at ho; rw [hget]; exact m.updEx o ho
    qSorted := by rw [hq]; exact m.qSorted
    qNodup := by rw [hq]; exact m.qNodup
    qRecs := by
      intro e he; rw [hq] at he
      obtain ⟨v, h1, h2⟩ := m.qRecs e he
      exact ⟨v, by rw [hget]; exact h1, h2⟩ }

/-- `St` when the power table is replaced by one with the same content -/
theorem St_last (s : App) (L : List (Nat × Int)) (m : St s) (hL : ∀ o, alookup o L = alookup o s.last) (hLs : KSorted L) :
    St { s with last := L } := by
  have hget : ∀ o, ({ s with last := L } : App).getVal o = s.getVal o := fun o => getVal_congr _ _ rfl o
  exact {
    sorted := m.sorted, keys := m.keys, cls := m.cls, hasActive := m.hasActive
    pend := ⟨m.pend.ops, m.pend.keys, m.pend.fresh⟩
    last := by intro v hv hj; show alookup v.op L = lastOf v; rw [hL]; exact m.last v hv hj
    lastJ := by intro v hv hj; show alookup v.op L ≠ none ↔ v.status = .bonded; rw [hL]; exact m.lastJ v hv hj
    lastOnly := by intro o p h; have h' : alookup o L = some p := h; rw [hL] at h'; exact m.lastOnly o p h'
    lastSorted := hLs
    idxEx := m.idxEx, idxNodup := m.idxNodup
    idx := fun v hv => { a1 := (m.idx v hv).a1, a2 := (m.idx v hv).a2, g := (m.idx v hv).g, u := (m.idx v hv).u, j := (m.idx v hv).j }
    unbond := m.unbond, infos := m.infos, cons := m.cons, updSorted := m.updSorted, updEx := m.updEx
    qSorted := m.qSorted, qNodup := m.qNodup, qRecs := m.qRecs }

/-- the first loop when every record with positive power is already bonded: only the power table changes -/
theorem applyLoop_bonded2 (s : App) (maxV : Nat) : ∀ (rest : List (Nat × Nat)) (acc a : LoopAcc),
    (∀ e ∈ rest, ∀ v, s.getVal e.2 = some v → v.jailed = false → powerOf v.tokens > 0 → v.status = .bonded) →
    (∃ L, acc.app = { s with last := L } ∧ KSorted L) → acc.nb2b = 0 →
    applyLoop maxV rest acc = .done a → (∃ L, a.app = { s with last := L } ∧ KSorted L) ∧ a.nb2b = 0
  | [], acc, a, _, hL, hn, h => by simp [applyLoop] at h; subst h; exact ⟨hL, hn⟩
  | e :: rest, acc, a, hb, hL, hn, h => by
    unfold applyLoop at h
    have hrest : ∀ x ∈ rest, ∀ v, s.getVal x.2 = some v → v.jailed = false → powerOf v.tokens > 0 → v.status = .bonded := fun x hx => hb x (by simp [hx])
    split at h
    · obtain ⟨L, hL', hLs⟩ := hL
      have hget : acc.app.getVal e.2 = s.getVal e.2 := by rw [hL']; exact getVal_congr _ _ rfl _
      cases hv : visit acc e.2 with
      | halt hh => simp [hv, loopCont] at h
      | skip => simp only [hv, loopCont] at h; exact applyLoop_bonded2 s maxV rest acc a hrest ⟨L, hL', hLs⟩ hn h
      | stop => simp only [hv, loopCont] at h; injection h with h; subst h; exact ⟨⟨L, hL', hLs⟩, hn⟩
      | next a1 =>
        simp only [hv, loopCont] at h
        unfold visit at hv
        cases hg : acc.app.getVal e.2 with
        | none => simp [hg] at hv
        | some w =>
          simp only [hg] at hv
          unfold visitVal at hv
          split at hv
          · cases hv
          · rename_i hnj
            split at hv
            · cases hv
            · rename_i hpz
              have hwb : w.status = .bonded := hb e (by simp) w (by rw [← hget]; exact hg) (by simpa using hnj) (by omega)
              injection hv with hv
              subst hv
              have hbi : acc.app.bondIfNeeded w = (acc.app, w, 0) := by simp [bondIfNeeded, hwb]
              apply applyLoop_bonded2 s maxV rest _ a hrest _ _ h
              · simp only [hbi]
                split
                · exact ⟨ainsert w.op ((powerOf w.tokens : Nat) : Int) L, by rw [hL']; rfl, ksorted_ainsert _ _ _ hLs⟩
                · exact ⟨L, hL', hLs⟩
              · simp only [hbi]; omega
    · injection h with h; subst h; exact ⟨hL, hn⟩

end App
end PoaVerif

namespace PoaVerif
namespace App

theorem idxErase_of_not_mem (e : Nat × Nat) (l : List (Nat × Nat)) (h : e ∉ l) : idxErase e l = l := by
  unfold idxErase
  apply List.filter_eq_self.mpr
  intro x hx
  have : x ≠ e := fun he => h (he ▸ hx)
  simpa using this

theorem not_mem_of_occ_zero (op : Nat) (l : List (Nat × Nat)) (h : occ op l = 0) (e : Nat × Nat) (he : e ∈ l) : e.2 ≠ op := by
  intro ho
  have := occ_pos_of_mem e l he
  rw [ho] at this; omega

/-- the record the second loop writes -/
def unbRec (x : App) (v : Val) : Val := { v with status := .unbonding, ubTime := x.time + x.params.unbond, ubHeight := x.height }

/-- the state after one step of the second loop -/
def unbState (x : App) (v : Val) (op : Nat) : App :=
  { x with vals := insertVal (unbRec x v) x.vals
           index := idxInsert (0, op) x.index
           ubq := ubqInsertSlot (x.time + x.params.unbond, x.height) op x.ubq
           last := aerase op x.last }

theorem unbondOne_shape (x : App) (ups : List (Nat × Int)) (b : Int) (op : Nat) (v : Val) (hv : x.getVal op = some v)
    (hg : Gone v) (h0 : (0, op) ∉ x.index) :
    unbondOne ⟨x, ups, b⟩ op = .ok ⟨unbState x v op, ups ++ [(v.key, 0)], b⟩ := by
  have hvop := getVal_op _ _ _ hv
  unfold unbondOne
  simp only [hv, hg.1, bne_self_eq_false, Bool.false_eq_true, ↓reduceIte]
  have hpw : powerOf v.tokens = 0 := by rw [hg.2.2.1]; rfl
  have he : idxErase (0, op) x.index = x.index := idxErase_of_not_mem _ _ h0
  simp only [beginUnbonding, delIdx, setVal, setIdx, ubqInsert, delLast, hg.2.1, hvop, Bool.false_eq_true, ↓reduceIte,
    unbRec, unbState, hg.2.2.1]
  have hp0 : powerOf 0 = 0 := rfl
  rw [hp0, he]
  simp

/-- **one step of the second loop on a `Gone` record**: `St` is kept, the record becomes `Unb`, nothing else moves -/
theorem unbondOne_St (x : App) (ups : List (Nat × Int)) (b : Int) (op : Nat) (v : Val) (m : St x) (hv : x.getVal op = some v)
    (hg : Gone v) :
    ∃ x', unbondOne ⟨x, ups, b⟩ op = .ok ⟨x', ups ++ [(v.key, 0)], b⟩ ∧ St x' ∧
      (∀ o, o ≠ op → x'.getVal o = x.getVal o) ∧ (∃ w, x'.getVal op = some w ∧ Unb w ∧ w.key = v.key ∧ w.jailed = v.jailed) ∧
      x'.pending = x.pending ∧ x'.updated = x.updated ∧ x'.params = x.params ∧ x'.height = x.height ∧ x'.time = x.time ∧
      x'.lastTotal = x.lastTotal ∧ x'.cons = x.cons ∧ x'.infos = x.infos := by
  have hvm := mem_of_getVal x op v hv
  have hvop := getVal_op _ _ _ hv
  have io := m.idx v hvm
  have hocc0 : occ op x.index = 0 := by rw [← hvop]; exact io.g hg
  have h0 : (0, op) ∉ x.index := fun hm => not_mem_of_occ_zero op x.index hocc0 _ hm rfl
  have hsh := unbondOne_shape x ups b op v hv hg h0
  refine ⟨_, hsh, ?_, ?_, ?_, rfl, rfl, rfl, rfl, rfl, rfl, rfl, rfl⟩
  · have hunb : Unb (unbRec x v) := ⟨rfl, hg.2.1, hg.2.2.1, hg.2.2.2⟩
    have hnotq : op ∉ (qEntries x.ubq).map (·.2) := by
      intro hm
      obtain ⟨e, he, heo⟩ := List.mem_map.mp hm
      obtain ⟨w, hw, hu, _⟩ := m.qRecs e he
      rw [heo, hv] at hw
      injection hw with hw
      rw [← hw, hg.1] at hu
      cases hu
    apply St_put x _ op (unbRec x v) m hvop rfl
    · intro y hy hn hk
      exact hn (by rw [m.keys y hy v hvm hk]; exact hvop)
    · exact Or.inr (Or.inr (Or.inl hunb))
    · right
      obtain ⟨a, ha, hact⟩ := m.hasActive
      refine ⟨a, ha, ?_, hact⟩
      intro e
      have : a = v := sorted_op_inj _ m.sorted a ha v hvm (by rw [e, hvop])
      rw [this] at hact
      exact active_not_gone v hact hg
    · exact List.Sublist.refl _
    · intro q hq
      obtain ⟨f1, f2, _⟩ := m.pend.fresh q hq
      refine ⟨?_, ?_⟩
      · intro e; rw [e, hv] at f1; cases f1
      · intro e; exact f2 v hvm e.symm
    · intro o ho; exact alookup_aerase_ne _ _ _ ho
    · intro _
      show alookup op (aerase op x.last) = lastOf (unbRec x v)
      rw [alookup_aerase_self, lastOf_unb _ hunb]
    · intro hj; exact absurd hj (by rw [hunb.2.1]; simp)
    · exact ksorted_aerase _ _ m.lastSorted
    · intro e he
      rcases (mem_idxInsert _ _ _ h0).mp he with e1 | e1
      · right; rw [e1]
      · left; exact e1
    · show (idxInsert (0, op) x.index).Nodup
      rw [(idxInsert_perm _ _ h0).nodup_iff]
      exact List.nodup_cons.mpr ⟨h0, m.idxNodup⟩
    · intro o ho
      show occ o (idxInsert (0, op) x.index) = occ o x.index
      rw [occ_idxInsert _ _ _ h0]
      have : ¬ op = o := fun e => ho e.symm
      simp [this]
    · intro e he _
      exact (mem_idxInsert _ _ _ h0).mpr (Or.inr he)
    · exact {
        a1 := (fun ha => absurd hunb (active_not_unb _ ha))
        a2 := (fun hin => by
          exfalso
          have hin' : v.op ∈ x.updated := hin
          exact active_not_gone v (io.a2 hin').1 hg)
        g := (fun hg' => absurd hunb (gone_not_unb _ hg'))
        u := (fun _ => by
          show occ (unbRec x v).op (idxInsert (0, op) x.index) = 1 ∧ (0, (unbRec x v).op) ∈ idxInsert (0, op) x.index
          rw [show (unbRec x v).op = op from hvop]
          refine ⟨?_, mem_idxInsert_self _ _⟩
          rw [occ_idxInsert _ _ _ h0, hocc0]; simp)
        j := (fun hj => absurd hj (by rw [hunb.2.1]; simp)) }
    · exact m.unbond
    · intro y hy _; exact m.infos y hy
    · exact m.infos v hvm
    · intro y hy _; rfl
    · have hc := m.cons v hvm
      unfold valByKey at hc
      show alookup v.key x.cons = some op
      cases hk : alookup v.key x.cons with
      | none => rw [hk] at hc; cases hc
      | some o1 =>
        rw [hk] at hc
        simp only at hc
        rw [← getVal_op _ _ _ hc, hvop]
    · exact m.updSorted
    · intro o _; exact Iff.rfl
    · exact sorted_insert _ _ _ m.qSorted
    · exact nodup_entries_insert _ _ _ m.qNodup hnotq
    · intro e he
      rcases (mem_entries_insert _ _ _ _).mp he with e1 | e1
      · left; rw [e1]; exact ⟨rfl, rfl, rfl, rfl⟩
      · right
        exact ⟨fun eo => hnotq (List.mem_map.mpr ⟨e, e1, eo⟩), e1⟩
  · intro o ho
    have := getVal_setVal_ne x (unbRec x v) o (by rw [show (unbRec x v).op = op from hvop]; exact ho)
    rw [← this]; exact getVal_congr _ _ rfl _
  · refine ⟨unbRec x v, ?_, ⟨rfl, hg.2.1, hg.2.2.1, hg.2.2.2⟩, rfl, rfl⟩
    have := getVal_setVal_self x (unbRec x v)
    rw [show (unbRec x v).op = op from hvop] at this
    rw [← this]; exact getVal_congr _ _ rfl _

/-- the state after one step of the second loop on a jailed record (no index entry is written for a jailed validator) -/
def unbStateJ (x : App) (v : Val) (op : Nat) : App :=
  { x with vals := insertVal (unbRec x v) x.vals
           ubq := ubqInsertSlot (x.time + x.params.unbond, x.height) op x.ubq
           last := aerase op x.last }

theorem unbondOne_shapeJ (x : App) (ups : List (Nat × Int)) (b : Int) (op : Nat) (v : Val) (hv : x.getVal op = some v)
    (hj : v.jailed = true) (hb : v.status = .bonded) (h0 : (powerOf v.tokens, op) ∉ x.index) :
    unbondOne ⟨x, ups, b⟩ op = .ok ⟨unbStateJ x v op, ups ++ [(v.key, 0)], b + (v.tokens : Int)⟩ := by
  have hvop := getVal_op _ _ _ hv
  unfold unbondOne
  simp only [hv, hb, bne_self_eq_false, Bool.false_eq_true, ↓reduceIte]
  have he : idxErase (powerOf v.tokens, op) x.index = x.index := idxErase_of_not_mem _ _ h0
  simp only [beginUnbonding, delIdx, setVal, setIdx, ubqInsert, delLast, hj, hvop, he, ↓reduceIte,
    unbRec, unbStateJ]

/-- one step of the second loop on a record jailed in this block: it starts unbonding, nothing else moves -/
theorem unbondOne_St_j (x : App) (ups : List (Nat × Int)) (b : Int) (op : Nat) (v : Val) (m : St x) (hv : x.getVal op = some v)
    (hj : Jl v) (hb : v.status = .bonded) :
    ∃ x', unbondOne ⟨x, ups, b⟩ op = .ok ⟨x', ups ++ [(v.key, 0)], b + (v.tokens : Int)⟩ ∧ St x' ∧
      (∀ o, o ≠ op → x'.getVal o = x.getVal o) ∧ (∃ w, x'.getVal op = some w ∧ Jl w ∧ w.status = .unbonding ∧ w.key = v.key ∧ w.jailed = v.jailed) ∧
      x'.pending = x.pending ∧ x'.updated = x.updated ∧ x'.params = x.params ∧ x'.height = x.height ∧ x'.time = x.time ∧
      x'.lastTotal = x.lastTotal ∧ x'.cons = x.cons ∧ x'.infos = x.infos := by
  have hvm := mem_of_getVal x op v hv
  have hvop := getVal_op _ _ _ hv
  have io := m.idx v hvm
  have hocc0 : occ op x.index = 0 := by rw [← hvop]; exact io.j hj.1
  have h0 : (powerOf v.tokens, op) ∉ x.index := fun hm => not_mem_of_occ_zero op x.index hocc0 _ hm rfl
  have hsh := unbondOne_shapeJ x ups b op v hv hj.1 hb h0
  have hjw : Jl (unbRec x v) := ⟨hj.1, hj.2⟩
  refine ⟨_, hsh, ?_, ?_, ?_, rfl, rfl, rfl, rfl, rfl, rfl, rfl, rfl⟩
  · have hnotq : op ∉ (qEntries x.ubq).map (·.2) := by
      intro hm
      obtain ⟨e, he, heo⟩ := List.mem_map.mp hm
      obtain ⟨w, hw, hu, _⟩ := m.qRecs e he
      rw [heo, hv] at hw
      injection hw with hw
      rw [← hw, hb] at hu
      cases hu
    apply St_put x _ op (unbRec x v) m hvop rfl
    · intro y hy hn hk
      exact hn (by rw [m.keys y hy v hvm hk]; exact hvop)
    · exact Or.inr (Or.inr (Or.inr hjw))
    · right
      obtain ⟨a, ha, hact⟩ := m.hasActive
      refine ⟨a, ha, ?_, hact⟩
      intro e
      have : a = v := sorted_op_inj _ m.sorted a ha v hvm (by rw [e, hvop])
      rw [this] at hact
      exact active_not_jl v hact hj
    · exact List.Sublist.refl _
    · intro q hq
      obtain ⟨f1, f2, _⟩ := m.pend.fresh q hq
      refine ⟨?_, ?_⟩
      · intro e; rw [e, hv] at f1; cases f1
      · intro e; exact f2 v hvm e.symm
    · intro o ho; exact alookup_aerase_ne _ _ _ ho
    · intro hnj; exact absurd hnj (by show ¬ v.jailed = false; rw [hj.1]; simp)
    · intro _
      show alookup op (aerase op x.last) ≠ none ↔ (unbRec x v).status = .bonded
      rw [alookup_aerase_self]
      constructor
      · intro h; exact absurd rfl h
      · intro h; cases h
    · exact ksorted_aerase _ _ m.lastSorted
    · intro e he; exact Or.inl he
    · exact m.idxNodup
    · intro o _; rfl
    · intro e he _; exact he
    · exact {
        a1 := (fun ha => absurd hjw (active_not_jl _ ha))
        a2 := (fun hin => by
          exfalso
          have hin' : v.op ∈ x.updated := hin
          exact active_not_jl v (io.a2 hin').1 hj)
        g := (fun hg' => absurd hjw (gone_not_jl _ hg'))
        u := (fun hu => absurd hjw (unb_not_jl _ hu))
        j := (fun _ => by
          show occ (unbRec x v).op x.index = 0
          rw [show (unbRec x v).op = op from hvop]; exact hocc0) }
    · exact m.unbond
    · intro y hy _; exact m.infos y hy
    · exact m.infos v hvm
    · intro y hy _; rfl
    · have hc := m.cons v hvm
      unfold valByKey at hc
      show alookup v.key x.cons = some op
      cases hk : alookup v.key x.cons with
      | none => rw [hk] at hc; cases hc
      | some o1 =>
        rw [hk] at hc
        simp only at hc
        rw [← getVal_op _ _ _ hc, hvop]
    · exact m.updSorted
    · intro o _; exact Iff.rfl
    · exact sorted_insert _ _ _ m.qSorted
    · exact nodup_entries_insert _ _ _ m.qNodup hnotq
    · intro e he
      rcases (mem_entries_insert _ _ _ _).mp he with e1 | e1
      · left; rw [e1]; exact ⟨rfl, rfl, rfl, rfl⟩
      · right
        exact ⟨fun eo => hnotq (List.mem_map.mpr ⟨e, e1, eo⟩), e1⟩
  · intro o ho
    have := getVal_setVal_ne x (unbRec x v) o (by rw [show (unbRec x v).op = op from hvop]; exact ho)
    rw [← this]; exact getVal_congr _ _ rfl _
  · refine ⟨unbRec x v, ?_, hjw, rfl, rfl, rfl⟩
    have := getVal_setVal_self x (unbRec x v)
    rw [show (unbRec x v).op = op from hvop] at this
    rw [← this]; exact getVal_congr _ _ rfl _

/-- a record the second loop meets: removed in this block, or jailed in this block -/
def Leaving (v : Val) : Prop := Gone v ∨ (Jl v ∧ v.status = .bonded)
/-- what it becomes -/
def Left (w : Val) : Prop := Unb w ∨ (Jl w ∧ w.status = .unbonding)

theorem unbondOne_St' (x : App) (ups : List (Nat × Int)) (b : Int) (op : Nat) (v : Val) (m : St x) (hv : x.getVal op = some v)
    (hl : Leaving v) :
    ∃ x' b', unbondOne ⟨x, ups, b⟩ op = .ok ⟨x', ups ++ [(v.key, 0)], b'⟩ ∧ St x' ∧
      (∀ o, o ≠ op → x'.getVal o = x.getVal o) ∧ (∃ w, x'.getVal op = some w ∧ Left w ∧ w.key = v.key ∧ w.jailed = v.jailed) ∧
      x'.pending = x.pending ∧ x'.updated = x.updated ∧ x'.params = x.params ∧ x'.height = x.height ∧ x'.time = x.time ∧
      x'.lastTotal = x.lastTotal ∧ x'.cons = x.cons ∧ x'.infos = x.infos := by
  rcases hl with hg | ⟨hj, hb⟩
  · obtain ⟨x', h1, h2, h3, ⟨w, hw, hu, hk, hjj⟩, r⟩ := unbondOne_St x ups b op v m hv hg
    exact ⟨x', b, h1, h2, h3, ⟨w, hw, Or.inl hu, hk, hjj⟩, r⟩
  · obtain ⟨x', h1, h2, h3, ⟨w, hw, hjw, hs, hk, hjj⟩, r⟩ := unbondOne_St_j x ups b op v m hv hj hb
    exact ⟨x', _, h1, h2, h3, ⟨w, hw, Or.inr ⟨hjw, hs⟩, hk, hjj⟩, r⟩

end App
end PoaVerif

namespace PoaVerif
namespace App

/-- what the second loop and the maturity processing leave alone -/
structure SameRest (x' x : App) : Prop where
  pending : x'.pending = x.pending
  updated : x'.updated = x.updated
  params : x'.params = x.params
  height : x'.height = x.height
  time : x'.time = x.time
  lastTotal : x'.lastTotal = x.lastTotal
  infos : x'.infos = x.infos

theorem SameRest.rfl' (x : App) : SameRest x x := ⟨rfl, rfl, rfl, rfl, rfl, rfl, rfl⟩
theorem SameRest.trans' {a b c : App} (h1 : SameRest a b) (h2 : SameRest b c) : SameRest a c :=
  ⟨h1.pending.trans h2.pending, h1.updated.trans h2.updated, h1.params.trans h2.params, h1.height.trans h2.height,
   h1.time.trans h2.time, h1.lastTotal.trans h2.lastTotal, h1.infos.trans h2.infos⟩

/-- **the second loop over the records that leave the set** (removed or jailed in this block) -/
theorem unbondLoop_St : ∀ (gl : List (Nat × Int)) (x : App) (ups : List (Nat × Int)) (b : Int),
    St x → (∀ e ∈ gl, ∃ v, x.getVal e.1 = some v ∧ Leaving v) → (gl.map (·.1)).Nodup →
    ∃ x' ups' T, unbondLoop gl ⟨x, ups, b⟩ = .ok ⟨x', ups', T⟩ ∧ St x' ∧
      (∀ o, o ∉ gl.map (·.1) → x'.getVal o = x.getVal o) ∧
      (∀ o ∈ gl.map (·.1), ∃ w, x'.getVal o = some w ∧ Left w ∧ ∀ v, x.getVal o = some v → w.key = v.key ∧ w.jailed = v.jailed) ∧
      SameRest x' x
  | [], x, ups, b, m, _, _ => ⟨x, ups, b, by simp [unbondLoop], m, fun _ _ => rfl, fun o ho => by simp at ho, SameRest.rfl' x⟩
  | (op, q) :: gl, x, ups, b, m, hg, hn => by
    have hn' : (op :: gl.map (·.1)).Nodup := by simpa using hn
    have ⟨hn1, hn2⟩ := List.nodup_cons.mp hn'
    obtain ⟨v, hv, hgv⟩ := hg (op, q) (by simp)
    obtain ⟨x1, b1, h1, m1, f1, ⟨w1, hw1, hu1, hk1, hj1⟩, r1, r2, r3, r4, r5, r6, _, r8⟩ := unbondOne_St' x ups b op v m hv hgv
    have hg1 : ∀ e ∈ gl, ∃ v, x1.getVal e.1 = some v ∧ Leaving v := by
      intro e he
      have hne : e.1 ≠ op := by intro eo; exact hn1 (List.mem_map.mpr ⟨e, he, eo⟩)
      obtain ⟨v2, hv2, hg2⟩ := hg e (by simp [he])
      exact ⟨v2, by rw [f1 e.1 hne]; exact hv2, hg2⟩
    obtain ⟨x2, ups2, T, h2, m2, f2, u2, s2⟩ := unbondLoop_St gl x1 (ups ++ [(v.key, 0)]) b1 m1 hg1 hn2
    refine ⟨x2, ups2, T, ?_, m2, ?_, ?_, s2.trans' ⟨r1, r2, r3, r4, r5, r6, r8⟩⟩
    · unfold unbondLoop; rw [h1]; exact h2
    · intro o ho
      simp only [List.map_cons, List.mem_cons, not_or] at ho
      rw [f2 o ho.2, f1 o ho.1]
    · intro o ho
      simp only [List.map_cons, List.mem_cons] at ho
      by_cases hin : o ∈ gl.map (·.1)
      · obtain ⟨w, hw, hwu, hwk⟩ := u2 o hin
        have hne : o ≠ op := by intro e; rw [e] at hin; exact hn1 hin
        exact ⟨w, hw, hwu, fun v' hv' => hwk v' (by rw [f1 o hne]; exact hv')⟩
      · rcases ho with e | e
        · rw [e, f2 op (by rw [← e]; exact hin)]
          refine ⟨w1, hw1, hu1, ?_⟩
          intro v' hv'
          rw [hv] at hv'; injection hv' with hv'
          rw [← hv']; exact ⟨hk1, hj1⟩
        · exact absurd e hin

theorem occ_one_unique (op : Nat) : ∀ (l : List (Nat × Nat)), occ op l = 1 → ∀ e1 ∈ l, ∀ e2 ∈ l, e1.2 = op → e2.2 = op → e1 = e2
  | [], h, _, h1, _, _, _, _ => by cases h1
  | x :: xs, h, e1, h1, e2, h2, o1, o2 => by
    rw [occ_cons] at h
    rcases List.mem_cons.mp h1 with a | a <;> rcases List.mem_cons.mp h2 with b | b
    · rw [a, b]
    · exfalso
      have := occ_pos_of_mem e2 xs b
      rw [o2] at this
      have hx : x.2 = op := by rw [← a]; exact o1
      simp [hx] at h; omega
    · exfalso
      have := occ_pos_of_mem e1 xs a
      rw [o1] at this
      have hx : x.2 = op := by rw [← b]; exact o2
      simp [hx] at h; omega
    · have ha := occ_pos_of_mem e1 xs a
      rw [o1] at ha
      have hx : ¬ x.2 = op := by intro hx; simp [hx] at h; omega
      simp only [hx, ↓reduceIte, Nat.zero_add] at h
      exact occ_one_unique op xs h e1 a e2 b o1 o2

/-- the state after the deletion of a matured record -/
def matState (x : App) (v : Val) (op : Nat) : App :=
  { x with vals := (insertVal { v with status := Status.unbonded } x.vals).filter (fun y => y.op != op)
           cons := aerase v.key x.cons
           index := idxErase (0, op) x.index
           ubq := ubqDeleteSlot (v.ubTime, v.ubHeight) op x.ubq }

theorem matureOne_shape (x : App) (op : Nat) (v : Val) (hv : x.getVal op = some v) (hu : Unb v) :
    x.matureOne op = .ok (matState x v op) := by
  have hvop := getVal_op _ _ _ hv
  unfold matureOne
  rw [hv]
  simp only [hu.1, bne_self_eq_false, Bool.false_eq_true, ↓reduceIte]
  have hc : ({ v with status := Status.unbonded } : Val).shares = 0 := hu.2.2.2
  rw [if_pos hc]
  unfold removeValidatorRecord
  have hng : ¬ ({ v with status := Status.unbonded } : Val).tokens > 0 := by simp [hu.2.2.1]
  rw [if_neg hng]
  have hpw : powerOf v.tokens = 0 := by rw [hu.2.2.1]; rfl
  simp only [setVal, delVal, delIdx, ubqDelete, matState, hvop, hpw]

end App
end PoaVerif

namespace PoaVerif
namespace App

theorem sortedOps_filter (p : Val → Bool) (l : List Val) (h : SortedOps l) : SortedOps (l.filter p) := by
  unfold SortedOps at h ⊢
  exact List.Pairwise.sublist List.filter_sublist h

/-- **the deletion of a matured `Unb` record keeps `St`** -/
theorem matureOne_St (x : App) (op : Nat) (v : Val) (m : St x) (hv : x.getVal op = some v) (hu : Unb v) :
    ∃ x', x.matureOne op = .ok x' ∧ St x' ∧ (∀ o, o ≠ op → x'.getVal o = x.getVal o) ∧ x'.getVal op = none ∧
      SameRest x' x ∧ x'.last = x.last := by
  have hvm := mem_of_getVal x op v hv
  have hvop := getVal_op _ _ _ hv
  have io := m.idx v hvm
  obtain ⟨hocc1, hmem0⟩ := io.u hu
  rw [hvop] at hocc1 hmem0
  refine ⟨matState x v op, matureOne_shape x op v hv hu, ?_, ?_, ?_, ⟨rfl, rfl, rfl, rfl, rfl, rfl, rfl⟩, rfl⟩
  rotate_left
  · intro o ho
    have h1 := getVal_delVal_ne (x.setVal { v with status := Status.unbonded }) op o ho
    have h2 := getVal_setVal_ne x { v with status := Status.unbonded } o (by simpa [hvop] using ho)
    rw [← h2, ← h1]; exact getVal_congr _ _ rfl _
  · have h1 := getVal_delVal_self (x.setVal { v with status := Status.unbonded }) op
    rw [← h1]; exact getVal_congr _ _ rfl _
  have hgne : ∀ o, o ≠ op → (matState x v op).getVal o = x.getVal o := by
    intro o ho
    have h1 := getVal_delVal_ne (x.setVal { v with status := Status.unbonded }) op o ho
    have h2 := getVal_setVal_ne x { v with status := Status.unbonded } o (by simpa [hvop] using ho)
    rw [← h2, ← h1]; exact getVal_congr _ _ rfl _
  have hgself : (matState x v op).getVal op = none := by
    have h1 := getVal_delVal_self (x.setVal { v with status := Status.unbonded }) op
    rw [← h1]; exact getVal_congr _ _ rfl _
  have hmemNew : ∀ y, y ∈ (matState x v op).vals → y ∈ x.vals ∧ y.op ≠ op := by
    intro y hy
    have hy' : y ∈ (insertVal { v with status := Status.unbonded } x.vals).filter (fun z => z.op != op) := hy
    obtain ⟨h1, h2⟩ := List.mem_filter.mp hy'
    have hne : y.op ≠ op := by simpa using h2
    rcases mem_insertVal _ _ _ h1 with e | e
    · exfalso; apply hne; rw [e]; exact hvop
    · exact ⟨e, hne⟩
  have hmemOld : ∀ y ∈ x.vals, y.op ≠ op → y ∈ (matState x v op).vals := by
    intro y hy hne
    show y ∈ (insertVal { v with status := Status.unbonded } x.vals).filter (fun z => z.op != op)
    apply List.mem_filter.mpr
    refine ⟨mem_insertVal_of_ne _ y x.vals hy (by simpa [hvop] using hne), by simpa using hne⟩
  have hkey : ∀ y ∈ x.vals, y.op ≠ op → y.key ≠ v.key := by
    intro y hy hne hk
    exact hne (by rw [m.keys y hy v hvm hk]; exact hvop)
  have hent : ∀ e ∈ x.index, e.2 = op → e = (0, op) := fun e he ho =>
    occ_one_unique op x.index hocc1 e he (0, op) hmem0 ho rfl
  exact {
    sorted := sortedOps_filter _ _ (sorted_insertVal _ _ m.sorted)
    keys := (by
      intro v1 h1 v2 h2 hk
      exact m.keys v1 (hmemNew v1 h1).1 v2 (hmemNew v2 h2).1 hk)
    cls := (fun y hy => m.cls y (hmemNew y hy).1)
    hasActive := (by
      obtain ⟨a, ha, hact⟩ := m.hasActive
      refine ⟨a, hmemOld a ha ?_, hact⟩
      intro e
      have : a = v := sorted_op_inj _ m.sorted a ha v hvm (by rw [e, hvop])
      rw [this] at hact
      exact active_not_unb v hact hu)
    pend := (by
      refine ⟨m.pend.ops, m.pend.keys, ?_⟩
      intro q hq
      obtain ⟨f1, f2, f3⟩ := m.pend.fresh q hq
      refine ⟨?_, fun y hy => f2 y (hmemNew y hy).1, f3⟩
      by_cases ho : q.op = op
      · rw [ho]; exact hgself
      · rw [hgne q.op ho]; exact f1)
    last := (by
      intro y hy hj
      obtain ⟨h1, _⟩ := hmemNew y hy
      exact m.last y h1 hj)
    lastJ := (by
      intro y hy hj
      obtain ⟨h1, _⟩ := hmemNew y hy
      exact m.lastJ y h1 hj)
    lastOnly := (by
      intro o p hl
      have hl' : alookup o x.last = some p := hl
      have hne : o ≠ op := by
        intro e
        rw [e, ← hvop, m.lastU v hvm hu] at hl'; cases hl'
      rw [hgne o hne]; exact m.lastOnly o p hl')
    lastSorted := m.lastSorted
    idxEx := (by
      intro e he
      have he' : e ∈ idxErase (0, op) x.index := he
      unfold idxErase at he'
      obtain ⟨h1, h2⟩ := List.mem_filter.mp he'
      have hne : e.2 ≠ op := by
        intro ho
        have := hent e h1 ho
        simp [this] at h2
      rw [hgne e.2 hne]; exact m.idxEx e h1)
    idxNodup := (by
      show (idxErase (0, op) x.index).Nodup
      unfold idxErase; exact m.idxNodup.sublist List.filter_sublist)
    idx := (by
      intro y hy
      obtain ⟨h1, hne⟩ := hmemNew y hy
      have iy := m.idx y h1
      have hocc : occ y.op (idxErase (0, op) x.index) = occ y.op x.index := by
        rw [occ_idxErase _ _ _ m.idxNodup]
        have : ¬ ((0, op).2 = y.op ∧ (0, op) ∈ x.index) := fun h => hne h.1.symm
        simp only [this, ↓reduceIte]; omega
      have hkeep : ∀ e ∈ x.index, e.2 = y.op → e ∈ idxErase (0, op) x.index := by
        intro e he ho
        unfold idxErase
        apply List.mem_filter.mpr
        refine ⟨he, ?_⟩
        have : e ≠ (0, op) := by intro e0; rw [e0] at ho; exact hne ho.symm
        simpa using this
      exact {
        a1 := (fun ha hnu => by show occ y.op (idxErase (0, op) x.index) = 1; rw [hocc]; exact iy.a1 ha hnu)
        a2 := (fun hin => by
          obtain ⟨b1, b2, b3⟩ := iy.a2 hin
          exact ⟨b1, by show occ y.op (idxErase (0, op) x.index) = 2; rw [hocc]; exact b2, hkeep _ b3 rfl⟩)
        g := (fun hg => by show occ y.op (idxErase (0, op) x.index) = 0; rw [hocc]; exact iy.g hg)
        u := (fun hu' => by
          obtain ⟨b1, b2⟩ := iy.u hu'
          exact ⟨by show occ y.op (idxErase (0, op) x.index) = 1; rw [hocc]; exact b1, hkeep _ b2 rfl⟩)
        j := (fun hj => by show occ y.op (idxErase (0, op) x.index) = 0; rw [hocc]; exact iy.j hj) })
    unbond := m.unbond
    infos := (fun y hy => m.infos y (hmemNew y hy).1)
    cons := (by
      intro y hy
      obtain ⟨h1, hne⟩ := hmemNew y hy
      have hc := m.cons y h1
      unfold valByKey at hc ⊢
      show (match alookup y.key (aerase v.key x.cons) with | none => none | some o => (matState x v op).getVal o) = some y
      rw [alookup_aerase_ne _ _ _ (hkey y h1 hne)]
      cases hk : alookup y.key x.cons with
      | none => rw [hk] at hc; cases hc
      | some o1 =>
        rw [hk] at hc
        simp only at hc ⊢
        have : o1 = y.op := by rw [← getVal_op _ _ _ hc]
        rw [this, hgne y.op hne]
        rw [this] at hc; exact hc)
    updSorted := m.updSorted
    updEx := (by
      intro o ho
      have hne : o ≠ op := by
        intro e
        have ho' : v.op ∈ x.updated := by rw [hvop, ← e]; exact ho
        exact active_not_unb v (io.a2 ho').1 hu
      rw [hgne o hne]; exact m.updEx o ho)
    qSorted := sorted_delete _ _ _ m.qSorted
    qNodup := m.qNodup.sublist ((entries_delete_sublist _ _ _).map _)
    qRecs := (by
      intro e he
      have he' : e ∈ qEntries (ubqDeleteSlot (v.ubTime, v.ubHeight) op x.ubq) := he
      have hold := (entries_delete_sublist _ _ _).subset he'
      obtain ⟨w, hw, hwu, t1, t2⟩ := m.qRecs e hold
      have hne : e.2 ≠ op := by
        intro eo
        rw [eo, hv] at hw
        injection hw with hw
        have : e = ((v.ubTime, v.ubHeight), op) := by
          rw [hw]; rw [t1, t2, ← eo]
        rw [this] at he'
        exact entries_delete_gone _ _ _ m.qSorted he'
      exact ⟨w, by rw [hgne e.2 hne]; exact hw, hwu, t1, t2⟩) }

end App
end PoaVerif

namespace PoaVerif
namespace App

/-- the state after a jailed record's unbonding period ended: it stays, unbonded -/
def matStateJ (x : App) (v : Val) (op : Nat) : App :=
  { x with vals := insertVal { v with status := Status.unbonded } x.vals
           ubq := ubqDeleteSlot (v.ubTime, v.ubHeight) op x.ubq }

theorem matureOne_shapeJ (x : App) (op : Nat) (v : Val) (hv : x.getVal op = some v) (hs : v.status = .unbonding) (hsh : v.shares ≠ 0) :
    x.matureOne op = .ok (matStateJ x v op) := by
  have hvop := getVal_op _ _ _ hv
  unfold matureOne
  rw [hv]
  simp only [hs, bne_self_eq_false, Bool.false_eq_true, ↓reduceIte]
  have hc : ¬ ({ v with status := Status.unbonded } : Val).shares = 0 := hsh
  rw [if_neg hc]
  simp only [setVal, ubqDelete, matStateJ, hvop]

/-- **the end of a jailed record's unbonding period keeps `St`**: the record becomes unbonded and leaves the queue -/
theorem matureOne_St_j (x : App) (op : Nat) (v : Val) (m : St x) (hv : x.getVal op = some v) (hj : Jl v) (hs : v.status = .unbonding) :
    ∃ x', x.matureOne op = .ok x' ∧ St x' ∧ (∀ o, o ≠ op → x'.getVal o = x.getVal o) ∧
      (∃ w, x'.getVal op = some w ∧ Jl w ∧ w.status = .unbonded ∧ w.key = v.key) ∧ SameRest x' x ∧ x'.last = x.last := by
  have hvm := mem_of_getVal x op v hv
  have hvop := getVal_op _ _ _ hv
  have io := m.idx v hvm
  have hw : Jl ({ v with status := Status.unbonded } : Val) := ⟨hj.1, hj.2⟩
  refine ⟨matStateJ x v op, matureOne_shapeJ x op v hv hs hj.2, ?_, ?_, ?_, ⟨rfl, rfl, rfl, rfl, rfl, rfl, rfl⟩, rfl⟩
  · apply St_put x _ op { v with status := Status.unbonded } m hvop rfl
    · intro y hy hn hk
      exact hn (by rw [m.keys y hy v hvm hk]; exact hvop)
    · exact Or.inr (Or.inr (Or.inr hw))
    · right
      obtain ⟨a, ha, hact⟩ := m.hasActive
      refine ⟨a, ha, ?_, hact⟩
      intro e
      have : a = v := sorted_op_inj _ m.sorted a ha v hvm (by rw [e, hvop])
      rw [this] at hact
      exact active_not_jl v hact hj
    · exact List.Sublist.refl _
    · intro q hq
      obtain ⟨f1, f2, _⟩ := m.pend.fresh q hq
      refine ⟨?_, ?_⟩
      · intro e; rw [e, hv] at f1; cases f1
      · intro e; exact f2 v hvm e.symm
    · intro o _; rfl
    · intro hnj; exact absurd hnj (by show ¬ v.jailed = false; rw [hj.1]; simp)
    · intro _
      show alookup op x.last ≠ none ↔ Status.unbonded = Status.bonded
      have := m.lastJ v hvm hj.1
      rw [hvop, hs] at this
      constructor
      · intro h; exact absurd (this.mp h) (by intro e; cases e)
      · intro h; cases h
    · exact m.lastSorted
    · intro e he; exact Or.inl he
    · exact m.idxNodup
    · intro o _; rfl
    · intro e he _; exact he
    · exact {
        a1 := (fun ha => absurd hw (active_not_jl _ ha))
        a2 := (fun hin => by
          exfalso
          have hin' : v.op ∈ x.updated := hin
          exact active_not_jl v (io.a2 hin').1 hj)
        g := (fun hg' => absurd hw (gone_not_jl _ hg'))
        u := (fun hu => absurd hw (unb_not_jl _ hu))
        j := (fun _ => io.j hj.1) }
    · exact m.unbond
    · intro y hy _; exact m.infos y hy
    · exact m.infos v hvm
    · intro y hy _; rfl
    · have hc := m.cons v hvm
      unfold valByKey at hc
      show alookup v.key x.cons = some op
      cases hk : alookup v.key x.cons with
      | none => rw [hk] at hc; cases hc
      | some o1 =>
        rw [hk] at hc
        simp only at hc
        rw [← getVal_op _ _ _ hc, hvop]
    · exact m.updSorted
    · intro o _; exact Iff.rfl
    · exact sorted_delete _ _ _ m.qSorted
    · exact m.qNodup.sublist ((entries_delete_sublist _ _ _).map _)
    · intro e he
      have he' : e ∈ qEntries (ubqDeleteSlot (v.ubTime, v.ubHeight) op x.ubq) := he
      have hold := (entries_delete_sublist _ _ _).subset he'
      right
      refine ⟨?_, hold⟩
      intro eo
      obtain ⟨w, hw', _, t1, t2⟩ := m.qRecs e hold
      rw [eo, hv] at hw'
      injection hw' with hw'
      have : e = ((v.ubTime, v.ubHeight), op) := by rw [hw']; rw [t1, t2, ← eo]
      rw [this] at he'
      exact entries_delete_gone _ _ _ m.qSorted he'
  · intro o ho
    have := getVal_setVal_ne x { v with status := Status.unbonded } o (by simpa [hvop] using ho)
    rw [← this]; exact getVal_congr _ _ rfl _
  · refine ⟨{ v with status := Status.unbonded }, ?_, hw, rfl, rfl⟩
    have h1 := getVal_setVal_self x { v with status := Status.unbonded }
    have h2 : (matStateJ x v op).getVal ({ v with status := Status.unbonded } : Val).op = (x.setVal { v with status := Status.unbonded }).getVal ({ v with status := Status.unbonded } : Val).op :=
      getVal_congr _ _ rfl _
    rw [h1] at h2
    exact (congrArg (matStateJ x v op).getVal hvop.symm).trans h2

/-- a queued record: unbonding after a removal, or jailed -/
def Queued (v : Val) : Prop := Unb v ∨ (Jl v ∧ v.status = .unbonding)

/-- what maturity processing does to one operator's record -/
def MatRel (x x' : App) (o : Nat) : Prop :=
  x'.getVal o = x.getVal o ∨ x'.getVal o = none ∨
  ∃ v w, x.getVal o = some v ∧ x'.getVal o = some w ∧ Jl v ∧ Jl w ∧ w.key = v.key ∧ w.status = .unbonded

theorem matureOps_St : ∀ (ops : List Nat) (x : App), St x → (∀ o ∈ ops, ∃ v, x.getVal o = some v ∧ Queued v) → ops.Nodup →
    ∃ x', matureOps ops x = .ok x' ∧ St x' ∧ (∀ o, o ∉ ops → x'.getVal o = x.getVal o) ∧ (∀ o, MatRel x x' o) ∧
      SameRest x' x ∧ x'.last = x.last
  | [], x, m, _, _ => ⟨x, by simp [matureOps], m, fun _ _ => rfl, fun _ => Or.inl rfl, SameRest.rfl' x, rfl⟩
  | op :: ops, x, m, hr, hn => by
    have ⟨hn1, hn2⟩ := List.nodup_cons.mp hn
    obtain ⟨v, hv, hq⟩ := hr op (by simp)
    -- one step
    have hstep : ∃ x1, x.matureOne op = .ok x1 ∧ St x1 ∧ (∀ o, o ≠ op → x1.getVal o = x.getVal o) ∧ MatRel x x1 op ∧
        SameRest x1 x ∧ x1.last = x.last := by
      rcases hq with hu | ⟨hj, hs⟩
      · obtain ⟨x1, h1, m1, f1, g1, s1, l1⟩ := matureOne_St x op v m hv hu
        exact ⟨x1, h1, m1, f1, Or.inr (Or.inl g1), s1, l1⟩
      · obtain ⟨x1, h1, m1, f1, ⟨w, hw, hjw, hsw, hk⟩, s1, l1⟩ := matureOne_St_j x op v m hv hj hs
        exact ⟨x1, h1, m1, f1, Or.inr (Or.inr ⟨v, w, hv, hw, hj, hjw, hk, hsw⟩), s1, l1⟩
    obtain ⟨x1, h1, m1, f1, g1, s1, l1⟩ := hstep
    have hr1 : ∀ o ∈ ops, ∃ v, x1.getVal o = some v ∧ Queued v := by
      intro o ho
      have hne : o ≠ op := by intro e; subst e; exact hn1 ho
      obtain ⟨w, hw, hwu⟩ := hr o (by simp [ho])
      exact ⟨w, by rw [f1 o hne]; exact hw, hwu⟩
    obtain ⟨x2, h2, m2, f2, g2, s2, l2⟩ := matureOps_St ops x1 m1 hr1 hn2
    refine ⟨x2, by unfold matureOps; rw [h1]; exact h2, m2, ?_, ?_, s2.trans' s1, l2.trans l1⟩
    · intro o hnot
      simp only [List.mem_cons, not_or] at hnot
      rw [f2 o hnot.2, f1 o hnot.1]
    · intro o
      by_cases ho : o = op
      · subst ho
        have : x2.getVal o = x1.getVal o := f2 o hn1
        unfold MatRel at g1 ⊢
        rw [this]; exact g1
      · have h01 : x1.getVal o = x.getVal o := f1 o ho
        have := g2 o
        unfold MatRel at this ⊢
        rw [h01] at this; exact this

theorem matureSlots_St : ∀ (slots : Ubq) (x : App), St x → (∀ o ∈ slots.flatMap (·.2), ∃ v, x.getVal o = some v ∧ Queued v) →
    (slots.flatMap (·.2)).Nodup →
    ∃ x', matureSlots slots x = .ok x' ∧ St x' ∧ (∀ o, MatRel x x' o) ∧
      (∀ o, o ∉ slots.flatMap (·.2) → x'.getVal o = x.getVal o) ∧ SameRest x' x ∧ x'.last = x.last
  | [], x, m, _, _ => ⟨x, by simp [matureSlots], m, fun _ => Or.inl rfl, fun _ _ => rfl, SameRest.rfl' x, rfl⟩
  | ((t, hh), ops) :: rest, x, m, hr, hn => by
    simp only [List.flatMap_cons, List.nodup_append] at hn
    obtain ⟨hn1, hn2, hn3⟩ := hn
    unfold matureSlots
    split
    · obtain ⟨x1, h1, m1, f1, g1, s1, l1⟩ := matureOps_St ops x m (fun o ho => hr o (by simp [ho])) hn1
      rw [h1]
      simp only
      have hr1 : ∀ o ∈ rest.flatMap (·.2), ∃ v, x1.getVal o = some v ∧ Queued v := by
        intro o ho
        have hne : o ∉ ops := fun hm => hn3 o hm o ho rfl
        obtain ⟨w, hw, hwu⟩ := hr o (by simp only [List.flatMap_cons, List.mem_append]; right; exact ho)
        exact ⟨w, by rw [f1 o hne]; exact hw, hwu⟩
      obtain ⟨x2, h2, m2, f2, k2, s2, l2⟩ := matureSlots_St rest x1 m1 hr1 hn2
      refine ⟨x2, h2, m2, ?_, ?_, s2.trans' s1, l2.trans l1⟩
      · intro o
        by_cases hin : o ∈ ops
        · -- handled in this slot; untouched by the rest
          have hnr : o ∉ rest.flatMap (·.2) := fun hm => hn3 o hin o hm rfl
          have : x2.getVal o = x1.getVal o := k2 o hnr
          have := g1 o
          unfold MatRel at this ⊢
          rw [k2 o hnr]; exact this
        · have h01 : x1.getVal o = x.getVal o := f1 o hin
          have := f2 o
          unfold MatRel at this ⊢
          rw [h01] at this; exact this
      · intro o ho
        simp only [List.flatMap_cons, List.mem_append, not_or] at ho
        rw [k2 o ho.2, f1 o ho.1]
    · obtain ⟨x2, h2, m2, f2, k2, s2, l2⟩ := matureSlots_St rest x m (fun o ho => hr o (by simp only [List.flatMap_cons, List.mem_append]; right; exact ho)) hn2
      refine ⟨x2, h2, m2, f2, ?_, s2, l2⟩
      intro o ho
      simp only [List.flatMap_cons, List.mem_append, not_or] at ho
      exact k2 o ho.2

end App
end PoaVerif
