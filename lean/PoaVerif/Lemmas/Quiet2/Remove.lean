import PoaVerif.Lemmas.Quiet2.Msgs
/-
  RemoveValidator on an `M2` state: the full slash of the target, the exact shape of the handler's result, and the
  preservation of `M2` (the record becomes `Gone`).
-/
namespace PoaVerif
namespace App
set_option maxRecDepth 100000

theorem chopRoundNat_mul (n : Nat) : chopRoundNat (n * 1000000000000000000) = n := by
  unfold chopRoundNat
  have h1 : n * 1000000000000000000 % 1000000000000000000 = 0 := Nat.mul_mod_left _ _
  have h2 : n * 1000000000000000000 / 1000000000000000000 = n := Nat.mul_div_cancel _ (by decide)
  simp [h1, h2]

theorem slashAmount_full (n : Nat) : slashAmountOf (((n : Nat) : Int) * (PR : Int)) E18 = ((n * PR * PR : Nat) : Int) := by
  unfold slashAmountOf decTrunc chopRound
  have hd : ((n : Int) * (PR : Int) * (PR : Int) * E18 * E18) = (((n * PR * PR * 1000000000000000000) * 1000000000000000000 : Nat) : Int) := by
    unfold E18
    simp only [Int.natCast_mul]
    rfl
  rw [hd]
  have hnn : ¬ ((((n * PR * PR * 1000000000000000000) * 1000000000000000000 : Nat) : Int) < 0) := by
    exact Int.not_lt.mpr (Int.natCast_nonneg _)
  rw [if_neg hnn, Int.natAbs_natCast, chopRoundNat_mul]
  unfold E18
  have : (((n * PR * PR * 1000000000000000000 : Nat) : Int)) = ((n * PR * PR : Nat) : Int) * 1000000000000000000 := by
    rw [Int.natCast_mul (n * PR * PR)]; rfl
  rw [this]
  exact Int.mul_tdiv_cancel _ (by decide)

theorem burn_all (t : Nat) (hp : powerOf t > 0) :
    burnAmount (slashAmountOf (((powerOf t : Nat) : Int) * (PR : Int)) E18) t = (t : Int) := by
  rw [slashAmount_full]
  unfold burnAmount
  unfold powerOf at hp ⊢
  have hPR : PR = 1000000 := rfl
  have hge : ¬ (((t / PR * PR * PR : Nat) : Int) < (t : Int)) := by
    have : t ≤ t / PR * PR * PR := by
      rw [hPR] at hp ⊢
      have h0 := Nat.div_add_mod t 1000000
      have h1 := Nat.mod_lt t (show 1000000 > 0 by decide)
      have h2 : t / 1000000 * 1000000 * 1000000 = (t / 1000000 * 1000000) * 1000000 := rfl
      omega
    omega
  simp only [hge, ↓reduceIte]
  have : ¬ ((t : Int) < 0) := by omega
  simp [this]
end App
end PoaVerif

namespace PoaVerif
namespace App

theorem idxErase_idxInsert (e : Nat × Nat) : ∀ (l : List (Nat × Nat)), e ∉ l → idxErase e (idxInsert e l) = l
  | [], _ => by simp [idxInsert, idxErase]
  | x :: xs, h => by
    have hx : x ≠ e := fun he => h (by simp [he])
    have hxs : e ∉ xs := fun hm => h (by simp [hm])
    unfold idxInsert
    simp only [hx, ↓reduceIte]
    split
    · show idxErase e (e :: x :: xs) = x :: xs
      unfold idxErase
      simp only [List.filter_cons, bne_self_eq_false, Bool.false_eq_true, ↓reduceIte]
      have hne : (x != e) = true := by simpa using hx
      simp only [hne, ↓reduceIte]
      congr 1
      exact idxErase_of_not_mem e xs hxs
    · show idxErase e (x :: idxInsert e xs) = x :: xs
      have ih := idxErase_idxInsert e xs hxs
      unfold idxErase at ih ⊢
      have hne : (x != e) = true := by simpa using hx
      simp only [List.filter_cons, hne, ↓reduceIte, ih]

theorem slash_full (s sa : App) (v : Val) (m : St s) (hvm : v ∈ s.vals) (ha : Active v)
    (h : s.slash v.key s.height (cur v * (PR : Int)) E18 = .ok sa) :
    ∃ B S, sa = { s with vals := insertVal { v with tokens := 0, status := .bonded } s.vals,
                         index := idxInsert (0, v.op) (idxErase (powerOf v.tokens, v.op) s.index), bonded := B, supply := S } := by
  unfold slash at h
  have hf : ¬ (E18 < 0) := by decide
  rw [if_neg hf, m.cons v hvm] at h
  simp only at h
  unfold slashVal at h
  have hs1 : ¬ (v.status = .unbonded) := by rw [ha.1]; intro e; cases e
  have hs2 : ¬ (s.height > s.height) := by omega
  rw [if_neg hs1, if_neg hs2] at h
  have hb : burnAmount (slashAmountOf (cur v * (PR : Int)) E18) v.tokens = (v.tokens : Int) := burn_all v.tokens ha.2.2.1
  rw [hb] at h
  have hpos : powerOf v.tokens > 0 := ha.2.2.1
  have htz : ¬ ((v.tokens : Int) = 0) := by
    intro e
    have : v.tokens = 0 := by omega
    rw [this] at hpos; simp [powerOf] at hpos
  rw [if_neg htz] at h
  simp only [removeValidatorTokens, Int.toNat_natCast, Nat.sub_self, ha.1, burnTokens] at h
  split at h
  · cases h
  · injection h with h
    refine ⟨s.bonded - (v.tokens : Int), s.supply - (v.tokens : Int), ?_⟩
    rw [← h]
    simp only [setIdx, setVal, delIdx, ha.2.1, Bool.false_eq_true, ↓reduceIte]
    rfl

def ubB (y : App) : Int :=
  if sumInts (y.dels.map (fun d => decRound d.2)) > y.bonded then y.bonded + (sumInts (y.dels.map (fun d => decRound d.2)) - y.bonded) else y.bonded
def ubS (y : App) : Int :=
  if sumInts (y.dels.map (fun d => decRound d.2)) > y.bonded then y.supply + (sumInts (y.dels.map (fun d => decRound d.2)) - y.bonded) else y.supply

theorem ubp_fn (y : App) : y.updateBondedPool = { y with bonded := ubB y, supply := ubS y } := by
  unfold updateBondedPool ubB ubS
  dsimp only
  split <;> rfl

theorem updateValidatorSet_shape (x : App) (ns np : Int) (val : Val) :
    ∃ LT B S, x.updateValidatorSet ns np val =
      { x with dels := ainsert val.op (ns * E18) x.dels,
               vals := insertVal { val with tokens := toUInt64 ns, shares := ns * E18, status := .bonded } x.vals,
               last := ainsert val.op np x.last, lastTotal := LT, bonded := B, supply := S } := by
  unfold updateValidatorSet updateTotalPower
  dsimp only
  rw [ubp_fn]
  exact ⟨_, _, _, rfl⟩

/-- the record RemoveValidator writes -/
def emptied (v : Val) : Val := { v with tokens := 0, shares := 0, status := .bonded }

theorem remove_shape (s s' : App) (op : Nat) (v : Val) (m : St s) (hv : s.getVal op = some v) (ha : Active v)
    (h : s.removeCore (some op) = .ok s') :
    ¬ ((isActive v && decide ((s.vals.filter isActive).length ≤ 1)) = true) ∧
    ∃ D LT AB B S BM I0,
      s' = { s with vals := insertVal (emptied v) s.vals, dels := D, last := ainsert op 0 (aerase op s.last), lastTotal := LT,
                    index := idxErase (0, op) (idxInsert (0, op) (idxErase (powerOf v.tokens, op) s.index)),
                    infos := ainsert v.key I0 s.infos, bitmap := BM, absCh := AB, bonded := B, supply := S } := by
  have hvm := mem_of_getVal s op v hv
  have hvop := getVal_op _ _ _ hv
  subst hvop
  have hlp : s.lastPower v.op = cur v := by simp [lastPower, m.lastA v hvm ha]
  have hcpos : cur v > 0 := by unfold cur; have := ha.2.2.1; omega
  unfold removeCore at h
  split at h
  · cases h
  · simp only [hv] at h
    split at h
    · cases h
    · split at h
      · cases h
      · rename_i hguard
        refine ⟨hguard, ?_⟩
        cases hr : s.setPOAPower (some v.op) 0 with
        | error e => simp [hr] at h
        | ok s1 =>
          simp only [hr] at h
          injection h with h
          simp only [setPOAPower, hv, setPOAPowerVal] at hr
          have hp0 : powerOfInt 0 = 0 := rfl
          rw [hp0, hlp] at hr
          have hne : ¬ ((0 : Int) = cur v) := by omega
          rw [if_neg hne] at hr
          simp only [poaBranch] at hr
          have hcond : (decide True && decide (cur v > 0)) = true := by simp [hcpos]
          simp only [poaRemoveBranch] at hr
          rw [if_pos hcond] at hr
          cases hsl : s.slash v.key s.height (cur v * (PR : Int)) E18 with
          | err => simp [hsl] at hr
          | ok sa =>
            simp only [hsl] at hr
            injection hr with hr
            obtain ⟨B1, S1, hsa⟩ := slash_full s sa v m hvm ha hsl
            have hu0 : toUInt64 0 = 0 := rfl
            rw [hu0] at hr
            obtain ⟨B3, S3, e3⟩ := ubp (s1.clearSlashingInfo v.key)
            rw [e3] at h
            obtain ⟨LT, B2, S2, e2⟩ := updateValidatorSet_shape ((((sa.delLast v.op).delIdx
                  { v with tokens := 0 }).delBitmap v.key).bumpAbs (absDiff 0 (cur v))) 0 0 { v with tokens := 0 }
            rw [e2] at hr
            rw [← h, ← hr, hsa]
            simp only [delLast, delIdx, delBitmap, bumpAbs, clearSlashingInfo, setInfo, hu0, Int.zero_mul]
            rw [insertVal_twice { v with tokens := 0, status := Status.bonded } { v with tokens := 0, shares := 0, status := Status.bonded } rfl s.vals]
            have hp0' : powerOf 0 = 0 := rfl
            rw [hp0']
            exact ⟨_, _, _, _, _, _, _, rfl⟩
theorem isSome_ainsert {α : Type} (k k2 : Nat) (i : α) (l : List (Nat × α)) (h : (alookup k2 l).isSome = true) :
    (alookup k2 (ainsert k i l)).isSome = true := by
  by_cases e : k2 = k
  · rw [e, alookup_ainsert_self]; rfl
  · rw [alookup_ainsert_ne _ _ _ _ e]; exact h

theorem nodup_all_eq {α : Type} (v : α) : ∀ (l : List α), l.Nodup → (∀ x ∈ l, x = v) → l.length ≤ 1
  | [], _, _ => by simp
  | [_], _, _ => by simp
  | a :: b :: t, hn, h => by
    exfalso
    have ha := h a (by simp)
    have hb := h b (by simp)
    have := (List.nodup_cons.mp hn).1
    apply this
    rw [ha, ← hb]; simp

theorem sortedOps_nodup (l : List Val) (h : SortedOps l) : l.Nodup := by
  unfold SortedOps at h
  exact List.Pairwise.imp (fun {a b} (hab : a.op < b.op) => by intro e; rw [e] at hab; omega) h

theorem two_active (l : List Val) (hs : SortedOps l) (v : Val) (h2 : ¬ (l.filter isActive).length ≤ 1) :
    ∃ x ∈ l, x ≠ v ∧ isActive x = true := by
  by_cases hex : ∃ x ∈ l, x ≠ v ∧ isActive x = true
  · exact hex
  · exfalso
    apply h2
    apply nodup_all_eq v _ ((sortedOps_nodup l hs).sublist List.filter_sublist)
    intro x hx
    obtain ⟨h1, h3⟩ := List.mem_filter.mp hx
    by_cases e : x = v
    · exact e
    · exact absurd ⟨x, h1, e, h3⟩ hex

/-- **a successful RemoveValidator of an `Active` validator that was not re-weighted in this block and whose index entry
    sits at its current power (no D2) preserves `M2`**: the record becomes `Gone` -/
theorem M2_remove (s s' : App) (c : CSet) (op : Nat) (v : Val) (m : M2 s c) (h : s.removeCore (some op) = .ok s')
    (hv : s.getVal op = some v) (hpos : powerOf v.tokens > 0) (hnj : v.jailed = false) (hd3 : op ∉ s.updated)
    (hidx : (powerOf v.tokens, op) ∈ s.index) : M2 s' c := by
  have hvm := mem_of_getVal s op v hv
  have hvop := getVal_op _ _ _ hv
  have hav : Active v := by
    rcases m.st.cls v hvm with ha | hg | hu | hj
    · exact ha
    · rw [hg.2.2.1] at hpos; simp [powerOf] at hpos
    · rw [hu.2.2.1] at hpos; simp [powerOf] at hpos
    · rw [hj.1] at hnj; cases hnj
  obtain ⟨hguard, D, LT, AB, B, S, BM, I0, hs'⟩ := remove_shape s s' op v m.st hv hav h
  have io := m.st.idx v hvm
  have hocc1 : occ op s.index = 1 := by have := io.a1 hav (by rw [hvop]; exact hd3); rw [hvop] at this; exact this
  have hent : ∀ e ∈ s.index, e.2 = op → e = (powerOf v.tokens, op) := fun e he ho =>
    occ_one_unique op s.index hocc1 e he _ hidx ho rfl
  have h0 : (0, op) ∉ idxErase (powerOf v.tokens, op) s.index := by
    intro hm
    unfold idxErase at hm
    obtain ⟨h1, h2⟩ := List.mem_filter.mp hm
    have := hent _ h1 rfl
    simp [this] at h2
  have hvals : s'.vals = insertVal (emptied v) s.vals := by rw [hs']
  have hlastE : s'.last = ainsert op 0 (aerase op s.last) := by rw [hs']
  have hindex : s'.index = idxErase (powerOf v.tokens, op) s.index := by rw [hs']; exact idxErase_idxInsert _ _ h0
  have hupd : s'.updated = s.updated := by rw [hs']
  have hubq : s'.ubq = s.ubq := by rw [hs']
  have hpendE : s'.pending = s.pending := by rw [hs']
  have hconsE : s'.cons = s.cons := by rw [hs']
  have hinfosE : s'.infos = ainsert v.key I0 s.infos := by rw [hs']
  have hparamsE : s'.params = s.params := by rw [hs']
  clear hs'
  have hwop : (emptied v).op = op := hvop
  have hgw : Gone (emptied v) := ⟨rfl, hav.2.1, rfl, rfl⟩
  have hupdNe : ∀ o, o ≠ op → (o ∈ s'.updated ↔ o ∈ s.updated) := fun o _ => by rw [hupd]
  refine ⟨?_, ?_⟩
  · apply St_put s s' op (emptied v) m.st hwop hvals
    · intro y hy hn hk
      exact hn (by rw [m.st.keys y hy v hvm hk]; exact hvop)
    · exact Or.inr (Or.inl hgw)
    · right
      have hact : isActive v = true := by simp [isActive, hav.1, hav.2.1, hav.2.2.1]
      have h2 : ¬ (s.vals.filter isActive).length ≤ 1 := by
        intro hle; apply hguard; simp [hact, hle]
      obtain ⟨x, hx, hne, hxa⟩ := two_active s.vals m.st.sorted v h2
      refine ⟨x, hx, ?_, ?_⟩
      · intro e; exact hne (sorted_op_inj _ m.st.sorted x hx v hvm (by rw [e, hvop]))
      · simp only [isActive, Bool.and_eq_true, beq_iff_eq, Bool.not_eq_true', decide_eq_true_eq] at hxa
        rcases m.st.cls x hx with ha | hg | hu | hj
        · exact ha
        · have := hxa.2; rw [hg.2.2.1] at this; simp [powerOf] at this
        · have := hxa.2; rw [hu.2.2.1] at this; simp [powerOf] at this
        · have := hxa.1.2; rw [hj.1] at this; cases this
    · rw [hpendE]; exact List.Sublist.refl _
    · intro q hq
      rw [hpendE] at hq
      obtain ⟨f1, f2, _⟩ := m.st.pend.fresh q hq
      refine ⟨?_, ?_⟩
      · intro e; rw [e, hv] at f1; cases f1
      · intro e; exact f2 v hvm e.symm
    · intro o ho; rw [hlastE, alookup_ainsert_ne _ _ _ _ ho, alookup_aerase_ne _ _ _ ho]
    · intro _; rw [hlastE, alookup_ainsert_self, lastOf_gone _ hgw]
    · intro hj; exact absurd hj (by rw [hgw.2.1]; simp)
    · rw [hlastE]; exact ksorted_ainsert _ _ _ (ksorted_aerase _ _ m.st.lastSorted)
    · intro e he
      rw [hindex] at he
      unfold idxErase at he
      exact Or.inl (List.mem_filter.mp he).1
    · rw [hindex]; unfold idxErase; exact m.st.idxNodup.sublist List.filter_sublist
    · intro o ho
      rw [hindex, occ_idxErase _ _ _ m.st.idxNodup]
      have : ¬ ((powerOf v.tokens, op).2 = o ∧ (powerOf v.tokens, op) ∈ s.index) := fun hh => ho hh.1.symm
      simp only [this, ↓reduceIte]; omega
    · intro e he hne
      rw [hindex]
      unfold idxErase
      apply List.mem_filter.mpr
      refine ⟨he, ?_⟩
      have : e ≠ (powerOf v.tokens, op) := by intro e0; rw [e0] at hne; exact hne rfl
      simpa using this
    · exact {
        a1 := (fun ha => absurd hgw (active_not_gone _ ha))
        a2 := (fun hin => by rw [hwop, hupd] at hin; exact absurd hin hd3)
        g := (fun _ => by
          rw [hwop, hindex, occ_idxErase _ _ _ m.st.idxNodup, hocc1]
          simp [hidx])
        u := (fun hu => absurd hu (gone_not_unb _ hgw))
        j := (fun hj => absurd hj (by rw [hgw.2.1]; simp)) }
    · rw [hparamsE]; exact m.st.unbond
    · intro y hy _; simp only [getInfo, hinfosE]; exact isSome_ainsert _ _ _ _ (m.st.infos y hy)
    · simp only [getInfo, hinfosE]; exact isSome_ainsert _ _ _ _ (m.st.infos v hvm)
    · intro y _ _; rw [hconsE]
    · rw [hconsE]; show alookup v.key s.cons = some op; rw [cons_lookup s m.st v hvm, hvop]
    · rw [hupd]; exact m.st.updSorted
    · exact hupdNe
    · rw [hubq]; exact m.st.qSorted
    · rw [hubq]; exact m.st.qNodup
    · intro e he
      rw [hubq] at he
      right
      refine ⟨?_, he⟩
      intro eo
      obtain ⟨w, hw, hwu, _⟩ := m.st.qRecs e he
      rw [eo, hv] at hw; injection hw with hw
      rw [← hw, hav.1] at hwu
      cases hwu
  · apply Cm_put s s' c op (emptied v) m.st m.cm hwop hvals hupdNe
    · intro ha; exact absurd hgw (active_not_gone _ ha)
    · intro _
      show alookup v.key c ≠ none
      rw [m.cm.cur v hvm hav (by rw [hvop]; exact hd3)]; simp
    · intro hj; exact absurd hj (by rw [hgw.2.1]; simp)
    · intro v2 hv2 _
      rw [hv] at hv2; injection hv2 with hv2
      rw [← hv2]; exact ⟨rfl, rfl⟩

end App
end PoaVerif
