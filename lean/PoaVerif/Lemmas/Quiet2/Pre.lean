import PoaVerif.Lemmas.Quiet2.St
/-
  `St ∧ Cm` (+ the block-level side conditions `Fits2`) imply the hypotheses of the refinement theorems.
-/
namespace PoaVerif
namespace App

/-- block-level side conditions at the EndBlocker: the index entries of candidates (un-jailed records with positive
    power; entries of unbonding records, at power 0, do not count: the first loop ends before it reaches them) fit under the
    cap (no D7), no zero-power entry shadows a live validator (no D6), powers within CometBFT's maximum -/
structure Fits2 (s : App) (c : CSet) : Prop where
  cap : candCount s s.index ≤ s.params.maxVals
  shadow : noShadow s s.index = true
  total : Comet.total c + idxPow s s.index ≤ maxTotalPower
  lastTotal : 0 ≤ s.lastTotal ∧ s.lastTotal ≤ maxTotalPower
  /-- the two pools cover the tokens of the records they stand for (what the transfer for the validators jailed in this
      block, which leave the bonded pool at the EndBlocker, needs) -/
  poolNb : sumF nbTok s.vals ≤ s.notBonded
  poolB : sumF bTok s.vals ≤ s.bonded

theorem cand_of_active (v : Val) (h : Active v) : cand v = true := by
  simp [cand, h.2.1, h.2.2.1]

theorem not_cand_of_gone (v : Val) (h : Gone v) : cand v = false := by
  simp [cand, h.2.2.1, powerOf]

theorem not_cand_of_unb (v : Val) (h : Unb v) : cand v = false := by
  simp [cand, h.2.2.1, powerOf]

theorem not_cand_of_jl (v : Val) (h : Jl v) : cand v = false := by
  simp [cand, h.1]

theorem active_of_cand (s : App) (m : St s) (v : Val) (hv : v ∈ s.vals) (hc : cand v = true) : Active v := by
  rcases m.cls v hv with h | h | h | h
  · exact h
  · rw [not_cand_of_gone v h] at hc; cases hc
  · rw [not_cand_of_unb v h] at hc; cases hc
  · rw [not_cand_of_jl v h] at hc; cases hc

/-- the power-table entry of a record, class by class -/
theorem St.lastA {s : App} (m : St s) (v : Val) (hv : v ∈ s.vals) (h : Active v) : alookup v.op s.last = some (cur v) := by
  rw [m.last v hv h.2.1]; simp [lastOf, h.1]
theorem St.lastG {s : App} (m : St s) (v : Val) (hv : v ∈ s.vals) (h : Gone v) : alookup v.op s.last = some 0 := by
  rw [m.last v hv h.2.1]; simp [lastOf, h.1, cur, h.2.2.1, powerOf]
theorem St.lastU {s : App} (m : St s) (v : Val) (hv : v ∈ s.vals) (h : Unb v) : alookup v.op s.last = none := by
  rw [m.last v hv h.2.1]; simp [lastOf, h.1]

theorem occ_pos_of_active (s : App) (m : St s) (v : Val) (hv : v ∈ s.vals) (ha : Active v) : occ v.op s.index > 0 := by
  have io := m.idx v hv
  by_cases hu : v.op ∈ s.updated
  · rw [(io.a2 hu).2.1]; omega
  · rw [io.a1 ha hu]; omega

theorem visited_of_active (s : App) (m : St s) (v : Val) (hv : v ∈ s.vals) (ha : Active v) :
    visitedB s s.index v.op = true := by
  have hg := mem_vals_getVal s m.sorted v hv
  simp [visitedB, hg, cand_of_active v ha, occ_pos_of_active s m v hv ha]

theorem not_visited_of_not_active (s : App) (m : St s) (v : Val) (hv : v ∈ s.vals) (ha : ¬ Active v) :
    visitedB s s.index v.op = false := by
  have hg := mem_vals_getVal s m.sorted v hv
  have : cand v = false := by
    rcases m.cls v hv with h | h | h | h
    · exact absurd h ha
    · exact not_cand_of_gone v h
    · exact not_cand_of_unb v h
    · exact not_cand_of_jl v h
  simp [visitedB, hg, this]

theorem lastOf_active (v : Val) (h : Active v) : lastOf v = some (cur v) := by simp [lastOf, h.1]
theorem lastOf_gone (v : Val) (h : Gone v) : lastOf v = some 0 := by simp [lastOf, h.1, cur, h.2.2.1, powerOf]
theorem lastOf_unb (v : Val) (h : Unb v) : lastOf v = none := by simp [lastOf, h.1]

theorem pre_of_St (s : App) (c : CSet) (m : St s) (k : Cm s c) (f : Fits2 s c) :
    PreAgree s c ∧ PreAccept s c ∧ QInv s := by
  have hmem : ∀ op v, s.getVal op = some v → v ∈ s.vals := fun op v h => mem_of_getVal s op v h
  have hpl : PreLoop s := {
    exists_ := m.idxEx
    keyInj := by
      intro op1 op2 v1 v2 h1 h2 hk
      have := m.keys v1 (hmem _ _ h1) v2 (hmem _ _ h2) hk
      rw [← getVal_op _ _ _ h1, ← getVal_op _ _ _ h2, this]
    occ2 := by
      intro op v hv hc
      have hvop := getVal_op _ _ _ hv
      have hvm := hmem _ _ hv
      have ha := active_of_cand s m v hvm hc
      have io := m.idx v hvm
      have hl : alookup op s.last = some (cur v) := by rw [← hvop]; exact m.lastA v hvm ha
      by_cases hu : v.op ∈ s.updated
      · have := (io.a2 hu).2.1; rw [hvop] at this; exact ⟨by omega, fun _ => hl⟩
      · have := io.a1 ha hu; rw [hvop] at this; exact ⟨by omega, fun _ => hl⟩
    noCut := f.cap }
  refine ⟨{ toPreLoop := hpl, shadow := f.shadow, lastNodup := ksorted_nodup _ m.lastSorted, lastEx := m.lastOnly, silent := ?_, leaving := ?_, cometKnown := ?_, bondedKnown := ?_ }, ?_, ?_⟩
  · intro op v hv hc h1 _
    have hvop := getVal_op _ _ _ hv
    have hvm := hmem _ _ hv
    have ha := active_of_cand s m v hvm hc
    apply k.cur v hvm ha
    intro hu
    have := ((m.idx v hvm).a2 hu).2.1
    rw [hvop] at this; omega
  · intro op v hv hl hvis
    have hvop := getVal_op _ _ _ hv
    have hvm := hmem _ _ hv
    rcases m.cls v hvm with ha | hg | hu | hj
    · have := visited_of_active s m v hvm ha
      rw [hvop, hvis] at this; cases this
    · exact ⟨hg.1, k.gone v hvm hg⟩
    · exfalso; apply hl; rw [← hvop]; exact m.lastU v hvm hu
    · have hb : v.status = .bonded := (m.lastJ v hvm hj.1).mp (by rw [hvop]; exact hl)
      exact ⟨hb, k.jb v hvm hj.1 hb⟩
  · intro key p hkp
    obtain ⟨v, hv, hk, hb⟩ := k.known key p hkp
    have hg := mem_vals_getVal s m.sorted v hv
    refine ⟨v, hg, hk, ?_⟩
    by_cases hj : v.jailed = true
    · exact (m.lastJ v hv hj).mpr hb
    · have hj' : v.jailed = false := by simpa using hj
      rw [m.last v hv hj']; simp [lastOf, hb]
  · intro op v hv hb hj
    have hvop := getVal_op _ _ _ hv
    have hvm := hmem _ _ hv
    rcases m.cls v hvm with ha | hg | hu | hjl
    · left; rw [← hvop]; exact visited_of_active s m v hvm ha
    · right; rw [← hvop, m.lastG v hvm hg]; simp
    · rw [hu.1] at hb; cases hb
    · rw [hjl.1] at hj; cases hj
  · refine { cNodup := ksorted_nodup _ k.cSorted, cNonneg := k.cNonneg, stays := ?_, total := f.total }
    obtain ⟨x, hx, ha⟩ := m.hasActive
    exact ⟨x.op, x, mem_vals_getVal s m.sorted x hx, visited_of_active s m x hx ha⟩
  · exact { sorted := m.qSorted
            nodup := m.qNodup
            recs := (by
              intro e he
              obtain ⟨v, hv, hu, h1, h2⟩ := m.qRecs e he
              exact ⟨v, hv, hu, h1, h2⟩)
            sound := (by
              intro op v hv
              rcases m.cls v (hmem _ _ hv) with ha | hg | hu | hj
              · left; exact ha.2.2.2
              · right; exact hg.2.2.1
              · right; exact hu.2.2.1
              · left; exact hj.2) }

end App
end PoaVerif
