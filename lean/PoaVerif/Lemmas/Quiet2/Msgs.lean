import PoaVerif.Lemmas.Quiet2.Inv
/-
  The PoA messages on an `M2` state: SetPower on an existing validator, admission, RemoveValidator, and the messages that
  touch the pending list or the parameters only.
-/
namespace PoaVerif
namespace App

theorem active_reweigh (v : Val) (p : Nat) (hj : v.jailed = false) (hp : 1000000 ≤ p) : Active (reweigh v p) := by
  refine ⟨rfl, hj, ?_, ?_⟩
  · simp only [reweigh, powerOf]; exact Nat.div_pos (by unfold PR; omega) (by decide)
  · simp only [reweigh]
    have : (0 : Int) < (p : Int) := by omega
    have hE : (0 : Int) < E18 := by decide
    exact Int.ne_of_gt (Int.mul_pos this hE)

theorem cons_lookup (s : App) (m : St s) (v : Val) (hv : v ∈ s.vals) : alookup v.key s.cons = some v.op := by
  have hc := m.cons v hv
  unfold valByKey at hc
  cases hk : alookup v.key s.cons with
  | none => rw [hk] at hc; cases hc
  | some o1 =>
    rw [hk] at hc
    simp only at hc
    rw [← getVal_op _ _ _ hc]

/-- **a SetPower that succeeds on an `Active` validator not yet re-weighted in this block (no D3), to a power at which
    it owns no index entry (no D1), preserves `M2`** -/
theorem M2_setPower_existing (s s' : App) (c : CSet) (op p : Nat) (u : Bool) (m : M2 s c)
    (h : setPowerMsg genLimitFacts s .admin (some op) p u = .ok s') (hf : s.pendingFind op = none)
    (hlive : ∀ v, s.getVal op = some v → powerOf v.tokens > 0 ∧ v.jailed = false)
    (hd3 : op ∉ s.updated) (hd1 : (p / PR, op) ∉ s.index) : M2 s' c := by
  have hadm : s.admitIfPending (some op) = s := by simp [admitIfPending, hf]
  obtain ⟨v, hv⟩ := setPower_target s s s' op p u hadm h
  have hvm := mem_of_getVal s op v hv
  have hvop := getVal_op _ _ _ hv
  have hav : Active v := by
    rcases m.st.cls v hvm with ha | hg | hu | hj
    · exact ha
    · have := (hlive v hv).1; rw [hg.2.2.1] at this; simp [powerOf] at this
    · have := (hlive v hv).1; rw [hu.2.2.1] at this; simp [powerOf] at this
    · have := (hlive v hv).2; rw [hj.1] at this; cases this
  obtain ⟨hlo, hhi, hne, D, LT, AB, B, S, hs'⟩ := setPower_shape s s s' op p u v hadm hv hav.2.1 h
  have hvals : s'.vals = insertVal (reweigh v p) s.vals := by rw [hs']
  have hlastE : s'.last = ainsert op ((p / PR : Nat) : Int) (ainsert op ((p / PR : Nat) : Int) s.last) := by rw [hs']
  have hindex : s'.index = idxInsert (p / PR, op) s.index := by rw [hs']
  have hupd : s'.updated = sinsert op s.updated := by rw [hs']
  have hubq : s'.ubq = s.ubq := by rw [hs']
  have hpendE : s'.pending = s.pending := by rw [hs']
  have hconsE : s'.cons = s.cons := by rw [hs']
  have hinfosE : s'.infos = s.infos := by rw [hs']
  have hparamsE : s'.params = s.params := by rw [hs']
  clear hs'
  have haw := active_reweigh v p hav.2.1 hlo
  have hwop : (reweigh v p).op = op := hvop
  have hcurw : cur (reweigh v p) = ((p / PR : Nat) : Int) := by simp [cur, reweigh, powerOf]
  have hupdNe : ∀ o, o ≠ op → (o ∈ s'.updated ↔ o ∈ s.updated) := by
    intro o ho; rw [hupd, mem_sinsert]; constructor
    · rintro (e | e); exact absurd e ho; exact e
    · exact Or.inr
  have hopin : op ∈ s'.updated := by rw [hupd, mem_sinsert]; exact Or.inl rfl
  have io := m.st.idx v hvm
  refine ⟨?_, ?_⟩
  · apply St_put s s' op (reweigh v p) m.st hwop hvals
    · intro y hy hn hk
      exact hn (by rw [m.st.keys y hy v hvm hk]; exact hvop)
    · exact Or.inl haw
    · exact Or.inl haw
    · rw [hpendE]; exact List.Sublist.refl _
    · intro q hq
      rw [hpendE] at hq
      obtain ⟨f1, f2, _⟩ := m.st.pend.fresh q hq
      refine ⟨?_, ?_⟩
      · intro e; rw [e, hv] at f1; cases f1
      · intro e; exact f2 v hvm e.symm
    · intro o ho; rw [hlastE, alookup_ainsert_ne _ _ _ _ ho, alookup_ainsert_ne _ _ _ _ ho]
    · intro _; rw [hlastE, alookup_ainsert_self, lastOf_active _ haw, hcurw]
    · intro hj; exact absurd hj (by rw [haw.2.1]; simp)
    · rw [hlastE]; exact ksorted_ainsert _ _ _ (ksorted_ainsert _ _ _ m.st.lastSorted)
    · intro e he
      rw [hindex] at he
      rcases (mem_idxInsert _ _ _ hd1).mp he with e1 | e1
      · right; rw [e1]
      · left; exact e1
    · rw [hindex, (idxInsert_perm _ _ hd1).nodup_iff]
      exact List.nodup_cons.mpr ⟨hd1, m.st.idxNodup⟩
    · intro o ho
      rw [hindex, occ_idxInsert _ _ _ hd1]
      have : ¬ op = o := fun e => ho e.symm
      simp [this]
    · intro e he _
      rw [hindex]; exact (mem_idxInsert _ _ _ hd1).mpr (Or.inr he)
    · exact {
        a1 := (fun _ hnu => by rw [hwop] at hnu; exact absurd hopin hnu)
        a2 := (fun _ => by
          refine ⟨haw, ?_, ?_⟩
          · rw [hwop, hindex, occ_idxInsert _ _ _ hd1]
            have := io.a1 hav (by rw [hvop]; exact hd3)
            rw [hvop] at this
            simp [this]
          · rw [hwop, hindex]
            have : powerOf (reweigh v p).tokens = p / PR := rfl
            rw [this]; exact mem_idxInsert_self _ _)
        g := (fun hg => absurd hg (active_not_gone _ haw))
        u := (fun hu => absurd hu (active_not_unb _ haw))
        j := (fun hj => absurd hj (by rw [haw.2.1]; simp)) }
    · rw [hparamsE]; exact m.st.unbond
    · intro y hy _; simp only [getInfo, hinfosE]; exact m.st.infos y hy
    · simp only [getInfo, hinfosE]; exact m.st.infos v hvm
    · intro y _ _; rw [hconsE]
    · rw [hconsE]; show alookup v.key s.cons = some op; rw [cons_lookup s m.st v hvm, hvop]
    · rw [hupd]; exact sorted_sinsert op s.updated m.st.updSorted
    · exact hupdNe
    · rw [hubq]; exact m.st.qSorted
    · rw [hubq]; exact m.st.qNodup
    · intro e he
      rw [hubq] at he
      right
      refine ⟨?_, he⟩
      intro eo
      obtain ⟨w, hw, hwu, _⟩ := m.st.qRecs e he
      rw [eo, hv] at hw; injection hw with hw
      rw [← hw, hav.1] at hwu
      cases hwu
  · apply Cm_put s s' c op (reweigh v p) m.st m.cm hwop hvals hupdNe
    · intro _ hnu; exact absurd hopin hnu
    · intro hg; exact absurd hg (active_not_gone _ haw)
    · intro hj; exact absurd hj (by rw [haw.2.1]; simp)
    · intro v2 hv2 _
      rw [hv] at hv2; injection hv2 with hv2
      rw [← hv2]; exact ⟨rfl, rfl⟩

/-- **admission**: a successful SetPower whose target is a pending applicant preserves `M2` — no side condition -/
theorem M2_setPower_admit (s s' : App) (c : CSet) (op P : Nat) (u : Bool) (m : M2 s c) (p : Pending)
    (h : setPowerMsg genLimitFacts s .admin (some op) P u = .ok s') (hf : s.pendingFind op = some p) : M2 s' c := by
  have hpm : p ∈ s.pending := List.mem_of_find?_eq_some hf
  have hpop : p.op = op := by have := List.find?_some hf; simpa using this
  obtain ⟨fr1, fr2, fr3⟩ := m.st.pend.fresh p hpm
  have hadm : s.admitIfPending (some op) = s.acceptNew p := by simp [admitIfPending, hf]
  obtain ⟨a1, a2, a3, a4, a5, a6, a7, a8, a9, _, _⟩ := acceptNew_fields s p
  have hgA : (s.acceptNew p).getVal op = some (newborn p) := by
    rw [getVal_congr _ (s.setVal (newborn p)) (by rw [a1]; rfl)]
    have := getVal_setVal_self s (newborn p)
    rw [show (newborn p).op = op from hpop] at this; exact this
  obtain ⟨hlo, hhi, _, D, LT, AB, B, S, hs'⟩ := setPower_shape s (s.acceptNew p) s' op P u (newborn p) hadm hgA rfl h
  have hwop : (reweigh (newborn p) P).op = op := hpop
  have hvals : s'.vals = insertVal (reweigh (newborn p) P) s.vals := by
    rw [hs']; simp only []; rw [a1]; exact insertVal_twice (newborn p) (reweigh (newborn p) P) rfl s.vals
  have hlastE : s'.last = ainsert op ((P / PR : Nat) : Int) (ainsert op ((P / PR : Nat) : Int) s.last) := by rw [hs']; simp only []; rw [a6]
  have hindex : s'.index = idxInsert (P / PR, op) (idxInsert (0, op) s.index) := by
    rw [hs']; simp only []; rw [a3, fr3, hpop]; rfl
  have hupd : s'.updated = sinsert op s.updated := by rw [hs']; simp only []; rw [a7]
  have hubq : s'.ubq = s.ubq := by rw [hs']; simp only []; rw [a8]
  have hpendE : s'.pending = removeFirst op s.pending := by rw [hs']; simp only []; rw [a4, hpop]
  have hconsE : s'.cons = ainsert p.key op s.cons := by rw [hs']; simp only []; rw [a2, hpop]
  have hinfosE : s'.infos = ainsert p.key { start := s.height, idx := 0, missed := 0, jailedUntil := s.time, tomb := false } s.infos := by rw [hs']; simp only []; rw [a5]
  have hparamsE : s'.params = s.params := by rw [hs']; simp only []; rw [a9]
  clear hs'
  have hwkey : (reweigh (newborn p) P).key = p.key := rfl
  have haw : Active (reweigh (newborn p) P) := active_reweigh (newborn p) P rfl hlo
  have hcurw : cur (reweigh (newborn p) P) = ((P / PR : Nat) : Int) := by simp [cur, reweigh, powerOf]
  have hpos : P / PR > 0 := Nat.div_pos (by unfold PR; omega) (by decide)
  have hnoEntry : ∀ e ∈ s.index, e.2 ≠ op := by
    intro e he eo
    have := m.st.idxEx e he
    rw [eo, ← hpop, fr1] at this; cases this
  have h0 : (0, op) ∉ s.index := fun hm => hnoEntry _ hm rfl
  have h1 : (P / PR, op) ∉ idxInsert (0, op) s.index := by
    intro hm
    rw [mem_idxInsert _ _ _ h0] at hm
    rcases hm with e | e
    · injection e with e1 _; omega
    · exact hnoEntry _ e rfl
  have hnotUpd : op ∉ s.updated := by
    intro hin
    have := m.st.updEx op hin
    rw [← hpop, fr1] at this; cases this
  have hupdNe : ∀ o, o ≠ op → (o ∈ s'.updated ↔ o ∈ s.updated) := by
    intro o ho; rw [hupd, mem_sinsert]; constructor
    · rintro (e | e); exact absurd e ho; exact e
    · exact Or.inr
  have hopin : op ∈ s'.updated := by rw [hupd, mem_sinsert]; exact Or.inl rfl
  refine ⟨?_, ?_⟩
  · apply St_put s s' op (reweigh (newborn p) P) m.st hwop hvals
    · intro y hy _; rw [hwkey]; exact fr2 y hy
    · exact Or.inl haw
    · exact Or.inl haw
    · rw [hpendE]; exact removeFirst_sublist op s.pending
    · intro q hq
      rw [hpendE] at hq
      have hqm := mem_removeFirst op s.pending q hq
      have hqop := removeFirst_op op s.pending m.st.pend.ops q hq
      refine ⟨hqop, ?_⟩
      rw [hwkey]
      intro ek
      have : p = q := pending_key_inj s.pending m.st.pend.keys p hpm q hqm ek.symm
      exact hqop (by rw [← this]; exact hpop)
    · intro o ho; rw [hlastE, alookup_ainsert_ne _ _ _ _ ho, alookup_ainsert_ne _ _ _ _ ho]
    · intro _; rw [hlastE, alookup_ainsert_self, lastOf_active _ haw, hcurw]
    · intro hj; exact absurd hj (by rw [haw.2.1]; simp)
    · rw [hlastE]; exact ksorted_ainsert _ _ _ (ksorted_ainsert _ _ _ m.st.lastSorted)
    · intro e he
      rw [hindex, mem_idxInsert _ _ _ h1, mem_idxInsert _ _ _ h0] at he
      rcases he with e1 | e1 | e1
      · right; rw [e1]
      · right; rw [e1]
      · left; exact e1
    · rw [hindex, (idxInsert_perm _ _ h1).nodup_iff]
      refine List.nodup_cons.mpr ⟨h1, ?_⟩
      rw [(idxInsert_perm _ _ h0).nodup_iff]
      exact List.nodup_cons.mpr ⟨h0, m.st.idxNodup⟩
    · intro o ho
      rw [hindex, occ_idxInsert _ _ _ h1, occ_idxInsert _ _ _ h0]
      have : ¬ op = o := fun e => ho e.symm
      simp [this]
    · intro e he _
      rw [hindex, mem_idxInsert _ _ _ h1, mem_idxInsert _ _ _ h0]; exact Or.inr (Or.inr he)
    · exact {
        a1 := (fun _ hnu => by rw [hwop] at hnu; exact absurd hopin hnu)
        a2 := (fun _ => by
          refine ⟨haw, ?_, ?_⟩
          · rw [hwop, hindex, occ_idxInsert _ _ _ h1, occ_idxInsert _ _ _ h0, occ_zero_of_no_entry op s.index hnoEntry]; simp
          · rw [hwop, hindex]
            have : powerOf (reweigh (newborn p) P).tokens = P / PR := rfl
            rw [this]; exact mem_idxInsert_self _ _)
        g := (fun hg => absurd hg (active_not_gone _ haw))
        u := (fun hu => absurd hu (active_not_unb _ haw))
        j := (fun hj => absurd hj (by rw [haw.2.1]; simp)) }
    · rw [hparamsE]; exact m.st.unbond
    · intro y hy _
      simp only [getInfo, hinfosE]
      rw [alookup_ainsert_ne _ _ _ _ (fr2 y hy)]
      exact m.st.infos y hy
    · simp only [getInfo, hinfosE, hwkey]; rw [alookup_ainsert_self]; rfl
    · intro y hy _; rw [hconsE, alookup_ainsert_ne _ _ _ _ (fr2 y hy)]
    · rw [hconsE, hwkey, alookup_ainsert_self]
    · rw [hupd]; exact sorted_sinsert op s.updated m.st.updSorted
    · exact hupdNe
    · rw [hubq]; exact m.st.qSorted
    · rw [hubq]; exact m.st.qNodup
    · intro e he
      rw [hubq] at he
      right
      refine ⟨?_, he⟩
      intro eo
      obtain ⟨w, hw, _⟩ := m.st.qRecs e he
      rw [eo, ← hpop, fr1] at hw; cases hw
  · apply Cm_put s s' c op (reweigh (newborn p) P) m.st m.cm hwop hvals hupdNe
    · intro _ hnu; exact absurd hopin hnu
    · intro hg; exact absurd hg (active_not_gone _ haw)
    · intro hj; exact absurd hj (by rw [haw.2.1]; simp)
    · intro v2 hv2 _
      rw [← hpop, fr1] at hv2; cases hv2

/-! ### applications and parameters -/

/-- `M2` when only the pending list (and the pools, which `M2` does not mention) changes -/
theorem M2_pending (s s' : App) (c : CSet) (m : M2 s c) (P : List Pending) (B S : Int)
    (hs : s' = { s with pending := P, bonded := B, supply := S })
    (hp : (P.map (·.op)).Nodup ∧ (P.map (·.key)).Nodup ∧ ∀ q ∈ P, s.getVal q.op = none ∧ (∀ v ∈ s.vals, v.key ≠ q.key) ∧ q.tokens = 0) :
    M2 s' c := by
  subst hs
  have t := m.st
  exact {
    st := {
      sorted := t.sorted, keys := t.keys, cls := t.cls, hasActive := t.hasActive
      pend := ⟨hp.1, hp.2.1, hp.2.2⟩
      last := t.last, lastJ := t.lastJ, lastOnly := t.lastOnly, lastSorted := t.lastSorted, idxEx := t.idxEx, idxNodup := t.idxNodup
      idx := fun v hv => { a1 := (t.idx v hv).a1, a2 := (t.idx v hv).a2, g := (t.idx v hv).g, u := (t.idx v hv).u, j := (t.idx v hv).j }
      unbond := t.unbond, infos := t.infos, cons := t.cons, updSorted := t.updSorted, updEx := t.updEx
      qSorted := t.qSorted, qNodup := t.qNodup, qRecs := t.qRecs }
    cm := { cur := m.cm.cur, gone := m.cm.gone, jb := m.cm.jb, known := m.cm.known, cSorted := m.cm.cSorted, cNonneg := m.cm.cNonneg } }

/-- **a successful CreateValidator preserves `M2`** -/
theorem M2_create (s s' : App) (c : CSet) (sg : Signer) (a : CreateArgs) (m : M2 s c) (h : s.createMsg sg a = .ok s') : M2 s' c := by
  unfold createMsg at h
  split at h
  · cases h
  · split at h
    · cases h
    · split at h
      · cases h
      · split at h
        · cases h
        · rename_i hown
          split at h
          · cases h
          · rename_i key hkey
            split at h
            · cases h
            · rename_i hpk
              split at h
              · cases h
              · rename_i hclash
                split at h
                · cases h
                · split at h
                  · cases h
                  · injection h with h
                    obtain ⟨B, S, e⟩ := ubp_eq _ _ h
                    have hnone : s.getVal a.op = none := by
                      cases hg : s.getVal a.op with
                      | none => rfl
                      | some v => simp [hg] at hown
                    have hkeyfree : ∀ v ∈ s.vals, v.key ≠ key := by
                      intro v hv ek
                      have := m.st.cons v hv
                      rw [ek] at this
                      simp [this] at hpk
                    have hcl := pendingClash_none' a.op key s.pending hclash
                    apply M2_pending s s' c m _ B S e
                    refine ⟨?_, ?_, ?_⟩
                    · rw [List.map_append, List.nodup_append]
                      refine ⟨m.st.pend.ops, by simp, ?_⟩
                      intro x hx y hy
                      simp at hy; subst hy
                      obtain ⟨q, hq, hqo⟩ := List.mem_map.mp hx
                      intro e2; exact (hcl q hq).1 (by rw [hqo, e2])
                    · rw [List.map_append, List.nodup_append]
                      refine ⟨m.st.pend.keys, by simp, ?_⟩
                      intro x hx y hy
                      simp at hy; subst hy
                      obtain ⟨q, hq, hqo⟩ := List.mem_map.mp hx
                      intro e2; exact (hcl q hq).2 (by rw [hqo, e2])
                    · intro q hq
                      rcases List.mem_append.mp hq with hq | hq
                      · exact m.st.pend.fresh q hq
                      · simp only [List.mem_singleton] at hq
                        subst hq
                        exact ⟨hnone, hkeyfree, rfl⟩

/-- **a successful RemovePending preserves `M2`** -/
theorem M2_rmPending (s s' : App) (c : CSet) (sg : Signer) (t : Option Nat) (m : M2 s c) (h : s.rmPendingMsg sg t = .ok s') : M2 s' c := by
  unfold rmPendingMsg at h
  split at h
  · cases h
  · split at h
    · injection h with h
      exact M2_pending s s' c m s.pending s.bonded s.supply h.symm ⟨m.st.pend.ops, m.st.pend.keys, m.st.pend.fresh⟩
    · rename_i op
      injection h with h
      apply M2_pending s s' c m (removeFirst op s.pending) s.bonded s.supply (by rw [← h]; rfl)
      exact ⟨m.st.pend.ops.sublist ((removeFirst_sublist op s.pending).map _), m.st.pend.keys.sublist ((removeFirst_sublist op s.pending).map _),
        fun q hq => m.st.pend.fresh q (mem_removeFirst op s.pending q hq)⟩

/-- **a successful UpdateStakingParams preserves `M2`** -/
theorem M2_params (s s' : App) (c : CSet) (sg : Signer) (pa : ParamArgs) (m : M2 s c) (h : s.paramsMsg sg pa = .ok s') : M2 s' c := by
  unfold paramsMsg at h
  split at h
  · cases h
  · split at h
    · cases h
    · rename_i hv
      injection h with h
      subst h
      have hu : pa.unbond > 0 := by
        have hv' : paramsValid pa = true := by simpa using hv
        unfold paramsValid at hv'
        simp only [Bool.and_eq_true, decide_eq_true_eq] at hv'
        exact hv'.1.1.1.1.1.1
      have t := m.st
      exact {
        st := {
          sorted := t.sorted, keys := t.keys, cls := t.cls, hasActive := t.hasActive
          pend := ⟨t.pend.ops, t.pend.keys, t.pend.fresh⟩
          last := t.last, lastJ := t.lastJ, lastOnly := t.lastOnly, lastSorted := t.lastSorted, idxEx := t.idxEx, idxNodup := t.idxNodup
          idx := fun v hv => { a1 := (t.idx v hv).a1, a2 := (t.idx v hv).a2, g := (t.idx v hv).g, u := (t.idx v hv).u, j := (t.idx v hv).j }
          unbond := hu, infos := t.infos, cons := t.cons, updSorted := t.updSorted, updEx := t.updEx
          qSorted := t.qSorted, qNodup := t.qNodup, qRecs := t.qRecs }
        cm := { cur := m.cm.cur, gone := m.cm.gone, jb := m.cm.jb, known := m.cm.known, cSorted := m.cm.cSorted, cNonneg := m.cm.cNonneg } }

end App
end PoaVerif
