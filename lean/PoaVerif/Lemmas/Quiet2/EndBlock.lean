import PoaVerif.Lemmas.Quiet2.End
/-
  The EndBlocker on a state satisfying `St ∧ Cm` (and the block-level side conditions): it succeeds, CometBFT accepts
  its update list, the sets agree, `St` holds again, no `Gone` record is left.
-/
namespace PoaVerif
namespace App

theorem stakingEndBlock_St (s : App) (c : CSet) (m : St s) (k : Cm s c) (f : Fits2 s c) :
    ∃ ups s' c', s.stakingEndBlock = .ok (ups, s') ∧ Comet.applyChangeSet c ups = .ok c' ∧ Agree c' s' ∧ St s' ∧
      (∀ v ∈ s'.vals, ¬ Gone v) ∧ s'.pending = s.pending ∧ s'.updated = s.updated ∧ s'.params = s.params ∧
      s'.height = s.height ∧ s'.time = s.time ∧ s'.infos = s.infos ∧ 0 ≤ s'.lastTotal ∧ s'.lastTotal ≤ maxTotalPower ∧
      (∀ o w, s'.getVal o = some w → ∃ v0, s.getVal o = some v0 ∧ (w = v0 ∨ (Gone v0 ∧ Unb w ∧ w.key = v0.key))) ∧
      (∀ o v0, s.getVal o = some v0 → Active v0 → s'.getVal o = some v0) := by
  obtain ⟨hp, hx, _⟩ := pre_of_St s c m k f
  obtain ⟨a, u, hl, hu, hF, _⟩ := loops_total s c hp
  have hmem : ∀ op v, s.getVal op = some v → v ∈ s.vals := fun op v h => mem_of_getVal s op v h
  -- first loop
  obtain ⟨⟨L, hL, hLs⟩, hn⟩ := applyLoop_bonded2 s s.params.maxVals s.index _ a (by
    intro e _ v hv hpos
    rcases m.cls v (hmem _ _ hv) with h | h | h
    · exact h.1
    · rw [h.2.2.1] at hpos; simp [powerOf] at hpos
    · rw [h.2.2.1] at hpos; simp [powerOf] at hpos) ⟨s.last, rfl, m.lastSorted⟩ rfl hl
  have hLeq : ∀ o, alookup o L = alookup o s.last := by
    intro o
    have hal : a.app.last = L := by rw [hL]
    by_cases hvis : visitedB s s.index o = true
    · cases hv : s.getVal o with
      | none => simp [visitedB, hv] at hvis
      | some v =>
        have h1 := (hF.lastV o v hv hvis).1
        rw [hal] at h1
        have hc : cand v = true := by simp only [visitedB, hv, Bool.and_eq_true] at hvis; exact hvis.1
        have ha := active_of_cand s m v (hmem _ _ hv) hc
        have hvop := getVal_op _ _ _ hv
        rw [h1, ← hvop, m.last v (hmem _ _ hv), lastOf_active v ha]
    · have hvis' : visitedB s s.index o = false := by simpa using hvis
      have h1 := (hF.lastN o hvis').1
      rw [hal] at h1; exact h1
  have m1 : St a.app := by rw [hL]; exact St_last s L m hLeq hLs
  have hgetA : ∀ o, a.app.getVal o = s.getVal o := fun o => by rw [hL]; exact getVal_congr _ _ rfl _
  -- the entries left for the second loop are the `Gone` records
  have hgl : ∀ e ∈ a.last, ∃ v, a.app.getVal e.1 = some v ∧ Gone v := by
    intro e he
    obtain ⟨hnv, hne⟩ := (mem_remaining s c hp a hF e.1).mp (List.mem_map.mpr ⟨e, he, rfl⟩)
    cases hlq : alookup e.1 s.last with
    | none => exact absurd hlq hne
    | some p =>
      have ex := m.lastOnly e.1 p hlq
      cases hv : s.getVal e.1 with
      | none => simp [hv] at ex
      | some v =>
        have hvm := hmem _ _ hv
        have hvop := getVal_op _ _ _ hv
        refine ⟨v, by rw [hgetA]; exact hv, ?_⟩
        rcases m.cls v hvm with h | h | h
        · have := visited_of_active s m v hvm h
          rw [hvop, hnv] at this; cases this
        · exact h
        · rw [← hvop, m.last v hvm, lastOf_unb v h] at hlq; cases hlq
  have hglnd : (a.last.map (·.1)).Nodup := sublist_nodup_keys hF.lastSub hp.lastNodup
  obtain ⟨x2, ups2, h2, m2, f2, u2, sr2⟩ := unbondLoop_St a.last a.app a.updates 0 m1 hgl hglnd
  have hmv : movePools x2 a.nb2b 0 = .ok x2 := by simp [movePools, hn]
  -- the recorded total
  have hnn := idxPow_nonneg s s.index
  have hct : 0 ≤ Comet.total c := sumInts_nonneg _ (by
    intro x hxm
    obtain ⟨e, he1, hex⟩ := List.mem_map.mp hxm
    rw [← hex]; exact k.cNonneg e he1)
  have htot := f.total
  have hx2lt : x2.lastTotal = s.lastTotal := by rw [sr2.lastTotal, hL]
  have hres : ∃ T, s.applyUpdates = .ok (ups2, { x2 with lastTotal := T }) ∧ 0 ≤ T ∧ T ≤ maxTotalPower := by
    unfold applyUpdates
    rw [hl]
    simp only
    unfold finishUpdates
    rw [h2]
    simp only [hmv]
    split
    · refine ⟨x2.lastTotal, rfl, ?_, ?_⟩
      · rw [hx2lt]; exact f.lastTotal.1
      · rw [hx2lt]; exact f.lastTotal.2
    · exact ⟨a.total, rfl, by rw [hF.tot]; exact hnn, by rw [hF.tot]; omega⟩
  obtain ⟨T, h1, hT0, hT1⟩ := hres
  have m3 : St { x2 with lastTotal := T } := St_congr x2 _ m2 rfl rfl rfl rfl rfl rfl rfl rfl rfl
  obtain ⟨c', hc⟩ := applyUpdates_accepted s _ c ups2 hp hx h1
  -- maturity
  have hq3 : ∀ o ∈ ({ x2 with lastTotal := T } : App).ubq.flatMap (·.2), ∃ v, ({ x2 with lastTotal := T } : App).getVal o = some v ∧ Unb v := by
    intro o ho
    rw [← entries_ops] at ho
    obtain ⟨e, he, heo⟩ := List.mem_map.mp ho
    obtain ⟨v, hv, hu', _⟩ := m3.qRecs e he
    rw [heo] at hv
    exact ⟨v, hv, hu'⟩
  have hqn : (({ x2 with lastTotal := T } : App).ubq.flatMap (·.2)).Nodup := by rw [← entries_ops]; exact m3.qNodup
  obtain ⟨s4, h4, m4, f4, k4, sr4, _⟩ := matureSlots_St _ _ m3 hq3 hqn
  have he : s.stakingEndBlock = .ok (ups2, s4) := by
    unfold stakingEndBlock
    rw [h1]
    simp only
    have : ({ x2 with lastTotal := T } : App).unbondMature = .ok s4 := h4
    rw [this]
  refine ⟨ups2, s4, c', he, hc, stakingEndBlock_agree s s4 c c' ups2 hp he hc, m4, ?_, ?_, ?_, ?_, ?_, ?_, ?_, ?_, ?_, ?_, ?_⟩
  · intro y hy hgy
    have hgy4 := mem_vals_getVal s4 m4.sorted y hy
    have h3 : ({ x2 with lastTotal := T } : App).getVal y.op = some y := by
      rcases f4 y.op with e | e
      · rw [← e]; exact hgy4
      · rw [e] at hgy4; cases hgy4
    have h3' : x2.getVal y.op = some y := by rw [← h3]; exact getVal_congr _ _ rfl _
    by_cases hin : y.op ∈ a.last.map (·.1)
    · obtain ⟨w, hw, hwu, _⟩ := u2 y.op hin
      rw [h3'] at hw; injection hw with hw
      rw [← hw] at hwu
      exact gone_not_unb y hgy hwu
    · rw [f2 y.op hin, hgetA] at h3'
      have hym := hmem _ _ h3'
      apply hin
      apply (mem_remaining s c hp a hF y.op).mpr
      refine ⟨not_visited_of_not_active s m y hym (fun ha => active_not_gone y ha hgy), ?_⟩
      rw [m.last y hym, lastOf_gone y hgy]; simp
  · rw [sr4.pending]; show x2.pending = s.pending; rw [sr2.pending, hL]
  · rw [sr4.updated]; show x2.updated = s.updated; rw [sr2.updated, hL]
  · rw [sr4.params]; show x2.params = s.params; rw [sr2.params, hL]
  · rw [sr4.height]; show x2.height = s.height; rw [sr2.height, hL]
  · rw [sr4.time]; show x2.time = s.time; rw [sr2.time, hL]
  · rw [sr4.infos]; show x2.infos = s.infos; rw [sr2.infos, hL]
  · rw [sr4.lastTotal]; exact hT0
  · rw [sr4.lastTotal]; exact hT1
  · intro o w hw
    have h3 : ({ x2 with lastTotal := T } : App).getVal o = some w := by
      rcases f4 o with e | e
      · rw [← e]; exact hw
      · rw [e] at hw; cases hw
    have h3' : x2.getVal o = some w := by rw [← h3]; exact getVal_congr _ _ rfl _
    by_cases hin : o ∈ a.last.map (·.1)
    · obtain ⟨e, he1, heo⟩ := List.mem_map.mp hin
      obtain ⟨v0, hv0, hg0⟩ := hgl e he1
      rw [heo, hgetA] at hv0
      obtain ⟨w', hw', hwu', hwk'⟩ := u2 o hin
      rw [h3'] at hw'; injection hw' with hw'
      refine ⟨v0, hv0, Or.inr ⟨hg0, by rw [hw']; exact hwu', ?_⟩⟩
      rw [hw']; exact hwk' v0 (by rw [hgetA]; exact hv0)
    · rw [f2 o hin, hgetA] at h3'
      exact ⟨w, h3', Or.inl rfl⟩
  · intro o v0 hv0 ha0
    have hv0m := hmem _ _ hv0
    have hvop0 := getVal_op _ _ _ hv0
    have hnin : o ∉ a.last.map (·.1) := by
      intro hin
      obtain ⟨hnv, _⟩ := (mem_remaining s c hp a hF o).mp hin
      have := visited_of_active s m v0 hv0m ha0
      rw [hvop0, hnv] at this; cases this
    have h2' : x2.getVal o = some v0 := by rw [f2 o hnin, hgetA]; exact hv0
    have h3 : ({ x2 with lastTotal := T } : App).getVal o = some v0 := by rw [← h2']; exact getVal_congr _ _ rfl _
    have hnq : o ∉ ({ x2 with lastTotal := T } : App).ubq.flatMap (·.2) := by
      intro hin
      obtain ⟨w, hw, hwu⟩ := hq3 o hin
      rw [h3] at hw; injection hw with hw
      rw [← hw] at hwu
      exact active_not_unb v0 ha0 hwu
    rw [k4 o hnq]; exact h3

end App
end PoaVerif
