import PoaVerif.Lemmas.Quiet2.End
/-
  The EndBlocker on a state satisfying `St ∧ Cm` (and the block-level side conditions): it succeeds, CometBFT accepts
  its update list, the sets agree, `St` holds again, no record is left that was removed or jailed in this block.
-/
namespace PoaVerif
namespace App

theorem movePools_shape (x s2 : App) (a b : Int) (h : x.movePools a b = .ok s2) :
    ∃ B NB, s2 = { x with bonded := B, notBonded := NB } := by
  unfold movePools at h
  split at h
  · dsimp only at h
    split at h
    · cases h
    · cases h; exact ⟨_, _, rfl⟩
  · split at h
    · dsimp only at h
      split at h
      · cases h
      · cases h; exact ⟨_, _, rfl⟩
    · cases h; exact ⟨x.bonded, x.notBonded, rfl⟩

/-- how the EndBlocker relates the record of an operator after it to the one before it: same consensus key, same jailed
    flag, and a record that is bonded afterwards was not touched at all -/
def RecRel (v0 w : Val) : Prop := w.key = v0.key ∧ w.jailed = v0.jailed ∧ (w.status = .bonded → w = v0)

theorem stakingEndBlock_St (s : App) (c : CSet) (m : St s) (k : Cm s c) (f : Fits2 s c) :
    ∃ ups s' c', s.stakingEndBlock = .ok (ups, s') ∧ Comet.applyChangeSet c ups = .ok c' ∧ Agree c' s' ∧ St s' ∧
      (∀ v ∈ s'.vals, ¬ Leaving v) ∧ s'.pending = s.pending ∧ s'.updated = s.updated ∧ s'.params = s.params ∧
      s'.height = s.height ∧ s'.time = s.time ∧ s'.infos = s.infos ∧ 0 ≤ s'.lastTotal ∧ s'.lastTotal ≤ maxTotalPower ∧
      (∀ o w, s'.getVal o = some w → ∃ v0, s.getVal o = some v0 ∧ RecRel v0 w) ∧
      (∀ o v0, s.getVal o = some v0 → Active v0 → s'.getVal o = some v0) := by
  obtain ⟨hp, hx, _⟩ := pre_of_St s c m k f
  obtain ⟨a, u, hl, hu, hF, _⟩ := loops_total s c hp
  have hmem : ∀ op v, s.getVal op = some v → v ∈ s.vals := fun op v h => mem_of_getVal s op v h
  -- first loop
  obtain ⟨⟨L, hL, hLs⟩, hn⟩ := applyLoop_bonded2 s s.params.maxVals s.index _ a (by
    intro e _ v hv hnj hpos
    rcases m.cls v (hmem _ _ hv) with h | h | h | h
    · exact h.1
    · rw [h.2.2.1] at hpos; simp [powerOf] at hpos
    · rw [h.2.2.1] at hpos; simp [powerOf] at hpos
    · rw [h.1] at hnj; cases hnj) ⟨s.last, rfl, m.lastSorted⟩ rfl hl
  have hLeq : ∀ o, alookup o L = alookup o s.last := by
    intro o
    have hal : a.app.last = L := by rw [hL]
    by_cases hvis : visitedB s s.index o = true
    · cases hv : s.getVal o with
      | none => simp [visitedB, hv] at hvis
      | some v =>
        have h1 := (hF.lastV o v hv hvis).1
        rw [hal] at h1
        have hc : cand v = true := by simp only [visitedB, hv, Bool.and_eq_true] at hvis; exact hvis.1
        have ha := active_of_cand s m v (hmem _ _ hv) hc
        have hvop := getVal_op _ _ _ hv
        rw [h1, ← hvop, m.lastA v (hmem _ _ hv) ha]
    · have hvis' : visitedB s s.index o = false := by simpa using hvis
      have h1 := (hF.lastN o hvis').1
      rw [hal] at h1; exact h1
  have m1 : St a.app := by rw [hL]; exact St_last s L m hLeq hLs
  have hgetA : ∀ o, a.app.getVal o = s.getVal o := fun o => by rw [hL]; exact getVal_congr _ _ rfl _
  -- which records of `s` leave the set
  have hleaving : ∀ o v, s.getVal o = some v → alookup o s.last ≠ none → visitedB s s.index o = false → Leaving v := by
    intro o v hv hne hnv
    have hvm := hmem _ _ hv
    have hvop := getVal_op _ _ _ hv
    rcases m.cls v hvm with h | h | h | h
    · have := visited_of_active s m v hvm h
      rw [hvop, hnv] at this; cases this
    · exact Or.inl h
    · exfalso; apply hne; rw [← hvop]; exact m.lastU v hvm h
    · exact Or.inr ⟨h, (m.lastJ v hvm h.1).mp (by rw [hvop]; exact hne)⟩
  -- the entries left for the second loop are those records
  have hgl : ∀ e ∈ a.last, ∃ v, a.app.getVal e.1 = some v ∧ Leaving v := by
    intro e he
    obtain ⟨hnv, hne⟩ := (mem_remaining s c hp a hF e.1).mp (List.mem_map.mpr ⟨e, he, rfl⟩)
    cases hlq : alookup e.1 s.last with
    | none => exact absurd hlq hne
    | some p =>
      have ex := m.lastOnly e.1 p hlq
      cases hv : s.getVal e.1 with
      | none => simp [hv] at ex
      | some v => exact ⟨v, by rw [hgetA]; exact hv, hleaving e.1 v hv hne hnv⟩
  have hglnd : (a.last.map (·.1)).Nodup := sublist_nodup_keys hF.lastSub hp.lastNodup
  obtain ⟨x2, ups2, T2, h2, m2, f2, u2, sr2⟩ := unbondLoop_St a.last a.app a.updates 0 m1 hgl hglnd
  -- the pool transfer succeeds (potential-function argument of Lemmas/Pools) and touches the pools only
  obtain ⟨upsT, sT, hT⟩ := applyUpdates_total s c hp ⟨m.sorted, f.poolNb, f.poolB⟩
  have hmv : ∃ B NB, movePools x2 a.nb2b T2 = .ok { x2 with bonded := B, notBonded := NB } := by
    unfold applyUpdates at hT
    rw [hl] at hT
    simp only at hT
    unfold finishUpdates at hT
    rw [h2] at hT
    simp only at hT
    cases hmv : movePools x2 a.nb2b T2 with
    | error e => rw [hmv] at hT; cases hT
    | ok s2 =>
      obtain ⟨B, NB, e⟩ := movePools_shape x2 s2 _ _ hmv
      exact ⟨B, NB, by rw [e]⟩
  obtain ⟨B, NB, hmv⟩ := hmv
  -- the recorded total
  have hnn := idxPow_nonneg s s.index
  have hct : 0 ≤ Comet.total c := sumInts_nonneg _ (by
    intro x hxm
    obtain ⟨e, he1, hex⟩ := List.mem_map.mp hxm
    rw [← hex]; exact k.cNonneg e he1)
  have htot := f.total
  have hx2lt : x2.lastTotal = s.lastTotal := by rw [sr2.lastTotal, hL]
  have hres : ∃ T, s.applyUpdates = .ok (ups2, { x2 with bonded := B, notBonded := NB, lastTotal := T }) ∧ 0 ≤ T ∧ T ≤ maxTotalPower := by
    unfold applyUpdates
    rw [hl]
    simp only
    unfold finishUpdates
    rw [h2]
    simp only [hmv]
    split
    · refine ⟨x2.lastTotal, rfl, ?_, ?_⟩
      · rw [hx2lt]; exact f.lastTotal.1
      · rw [hx2lt]; exact f.lastTotal.2
    · exact ⟨a.total, rfl, by rw [hF.tot]; exact hnn, by rw [hF.tot]; omega⟩
  obtain ⟨T, h1, hT0, hT1⟩ := hres
  have m3 : St { x2 with bonded := B, notBonded := NB, lastTotal := T } := St_congr x2 _ m2 rfl rfl rfl rfl rfl rfl rfl rfl rfl
  obtain ⟨c', hc⟩ := applyUpdates_accepted s _ c ups2 hp hx h1
  -- maturity
  have hq3 : ∀ o ∈ ({ x2 with bonded := B, notBonded := NB, lastTotal := T } : App).ubq.flatMap (·.2),
      ∃ v, ({ x2 with bonded := B, notBonded := NB, lastTotal := T } : App).getVal o = some v ∧ Queued v := by
    intro o ho
    rw [← entries_ops] at ho
    obtain ⟨e, he, heo⟩ := List.mem_map.mp ho
    obtain ⟨v, hv, hst, _⟩ := m3.qRecs e he
    rw [heo] at hv
    refine ⟨v, hv, ?_⟩
    rcases m3.cls v (mem_of_getVal _ o v hv) with h | h | h | h
    · rw [h.1] at hst; cases hst
    · rw [h.1] at hst; cases hst
    · exact Or.inl h
    · exact Or.inr ⟨h, hst⟩
  have hqn : (({ x2 with bonded := B, notBonded := NB, lastTotal := T } : App).ubq.flatMap (·.2)).Nodup := by rw [← entries_ops]; exact m3.qNodup
  obtain ⟨s4, h4, m4, f4, k4, sr4, _⟩ := matureSlots_St _ _ m3 hq3 hqn
  have he : s.stakingEndBlock = .ok (ups2, s4) := by
    unfold stakingEndBlock
    rw [h1]
    simp only
    have : ({ x2 with bonded := B, notBonded := NB, lastTotal := T } : App).unbondMature = .ok s4 := h4
    rw [this]
  have hget3 : ∀ o, ({ x2 with bonded := B, notBonded := NB, lastTotal := T } : App).getVal o = x2.getVal o := fun o => getVal_congr _ _ rfl o
  -- the record of every operator after the block, related to the one before it
  have hrec : ∀ o w, s4.getVal o = some w → ∃ v0, s.getVal o = some v0 ∧ RecRel v0 w ∧ (Leaving v0 → ¬ Leaving w) := by
    intro o w hw
    -- through the second loop
    have h23 : ∀ w2, x2.getVal o = some w2 → ∃ v0, s.getVal o = some v0 ∧ RecRel v0 w2 ∧ (Leaving v0 → Left w2) ∧ (¬ Leaving v0 → w2 = v0) := by
      intro w2 hw2
      by_cases hin : o ∈ a.last.map (·.1)
      · obtain ⟨e, he1, heo⟩ := List.mem_map.mp hin
        obtain ⟨v0, hv0, hg0⟩ := hgl e he1
        rw [heo, hgetA] at hv0
        obtain ⟨w', hw', hlf, hkj⟩ := u2 o hin
        rw [hw2] at hw'; injection hw' with hw'
        obtain ⟨hk, hj⟩ := hkj v0 (by rw [hgetA]; exact hv0)
        refine ⟨v0, hv0, ⟨by rw [hw']; exact hk, by rw [hw']; exact hj, ?_⟩, fun _ => by rw [hw']; exact hlf, fun hn => absurd hg0 hn⟩
        intro hb
        rw [hw'] at hb
        rcases hlf with hu | ⟨_, hs⟩
        · rw [hu.1] at hb; cases hb
        · rw [hs] at hb; cases hb
      · rw [f2 o hin, hgetA] at hw2
        refine ⟨w2, hw2, ⟨rfl, rfl, fun _ => rfl⟩, ?_, fun _ => rfl⟩
        intro hlv
        exfalso
        apply hin
        apply (mem_remaining s c hp a hF o).mpr
        have hvm := hmem _ _ hw2
        have hvop := getVal_op _ _ _ hw2
        rcases hlv with hg | ⟨hj, hb⟩
        · refine ⟨?_, ?_⟩
          · rw [← hvop]; exact not_visited_of_not_active s m w2 hvm (fun ha => active_not_gone w2 ha hg)
          · rw [← hvop, m.lastG w2 hvm hg]; simp
        · refine ⟨?_, ?_⟩
          · rw [← hvop]; exact not_visited_of_not_active s m w2 hvm (fun ha => active_not_jl w2 ha hj)
          · rw [← hvop]; exact (m.lastJ w2 hvm hj.1).mpr hb
    -- through maturity
    rcases f4 o with e | e | ⟨v3, w3, hv3, hw3, hj3, hjw3, hk3, hs3⟩
    · rw [e, hget3] at hw
      obtain ⟨v0, hv0, hr, hlf, hnl⟩ := h23 w hw
      refine ⟨v0, hv0, hr, ?_⟩
      intro hlv hlw
      rcases hlf hlv with hu | ⟨_, hs⟩ <;> rcases hlw with hg | ⟨_, hb⟩
      · exact gone_not_unb w hg hu
      · rw [hu.1] at hb; cases hb
      · rw [hg.1] at hs; cases hs
      · rw [hs] at hb; cases hb
    · rw [e] at hw; cases hw
    · rw [hw] at hw3; injection hw3 with hw3
      rw [hget3] at hv3
      obtain ⟨v0, hv0, ⟨r1, r2, _⟩, _, _⟩ := h23 v3 hv3
      refine ⟨v0, hv0, ⟨by rw [hw3, hk3]; exact r1, by rw [hw3, hjw3.1, ← r2, hj3.1], ?_⟩, ?_⟩
      · intro hb; rw [hw3, hs3] at hb; cases hb
      · intro _ hlw
        rcases hlw with hg | ⟨_, hb⟩
        · rw [hw3] at hg; rw [hg.1] at hs3; cases hs3
        · rw [hw3, hs3] at hb; cases hb
  refine ⟨ups2, s4, c', he, hc, stakingEndBlock_agree s s4 c c' ups2 hp he hc, m4, ?_, ?_, ?_, ?_, ?_, ?_, ?_, ?_, ?_, ?_, ?_⟩
  · intro y hy hly
    have hgy4 := mem_vals_getVal s4 m4.sorted y hy
    obtain ⟨v0, hv0, ⟨_, _, hbond⟩, hnl⟩ := hrec y.op y hgy4
    -- a leaving record is bonded, hence untouched, hence was leaving before — and then it is not any more
    have hb : y.status = .bonded := by
      rcases hly with hg | ⟨_, hb⟩
      · exact hg.1
      · exact hb
    have hyv : y = v0 := hbond hb
    have hlv0 : Leaving v0 := hyv ▸ hly
    exact hnl hlv0 hly
  · rw [sr4.pending]; show x2.pending = s.pending; rw [sr2.pending, hL]
  · rw [sr4.updated]; show x2.updated = s.updated; rw [sr2.updated, hL]
  · rw [sr4.params]; show x2.params = s.params; rw [sr2.params, hL]
  · rw [sr4.height]; show x2.height = s.height; rw [sr2.height, hL]
  · rw [sr4.time]; show x2.time = s.time; rw [sr2.time, hL]
  · rw [sr4.infos]; show x2.infos = s.infos; rw [sr2.infos, hL]
  · rw [sr4.lastTotal]; exact hT0
  · rw [sr4.lastTotal]; exact hT1
  · intro o w hw
    obtain ⟨v0, hv0, hr, _⟩ := hrec o w hw
    exact ⟨v0, hv0, hr⟩
  · intro o v0 hv0 ha0
    have hv0m := hmem _ _ hv0
    have hvop0 := getVal_op _ _ _ hv0
    have hnin : o ∉ a.last.map (·.1) := by
      intro hin
      obtain ⟨hnv, _⟩ := (mem_remaining s c hp a hF o).mp hin
      have := visited_of_active s m v0 hv0m ha0
      rw [hvop0, hnv] at this; cases this
    have h2' : x2.getVal o = some v0 := by rw [f2 o hnin, hgetA]; exact hv0
    have h3 : ({ x2 with bonded := B, notBonded := NB, lastTotal := T } : App).getVal o = some v0 := by rw [hget3]; exact h2'
    have hnq : o ∉ ({ x2 with bonded := B, notBonded := NB, lastTotal := T } : App).ubq.flatMap (·.2) := by
      intro hin
      obtain ⟨w, hw, hwq⟩ := hq3 o hin
      rw [h3] at hw; injection hw with hw
      rw [← hw] at hwq
      rcases hwq with hu | ⟨hj, _⟩
      · exact active_not_unb v0 ha0 hu
      · exact active_not_jl v0 ha0 hj
    rw [k4 o hnq]; exact h3

end App
end PoaVerif
