import PoaVerif.Lemmas.Quiet2.EndBlock
/-
  The invariants `M2` (during a block) and `G2` (between blocks) of histories with power adjustments, admissions and
  removals; the EndBlocker takes `M2` to `G2`, the BeginBlockers take `G2` to `M2`.
-/
namespace PoaVerif
namespace App

structure M2 (s : App) (c : CSet) : Prop where
  st : St s
  cm : Cm s c

structure G2 (s : App) (c : CSet) : Prop extends M2 s c where
  allCur : ∀ v ∈ s.vals, Active v → alookup v.key c = some (cur v)
  noGone : ∀ v ∈ s.vals, ¬ Gone v
  totalOk : 0 ≤ s.lastTotal ∧ s.lastTotal ≤ maxTotalPower

/-- `Cm` when one record is written and CometBFT's set stays -/
theorem Cm_put (s s' : App) (c : CSet) (op : Nat) (w : Val) (m : St s) (k : Cm s c)
    (hwop : w.op = op) (hvals : s'.vals = insertVal w s.vals)
    (hupdNe : ∀ o, o ≠ op → (o ∈ s'.updated ↔ o ∈ s.updated))
    (hcurW : Active w → op ∉ s'.updated → alookup w.key c = some (cur w))
    (hgoneW : Gone w → alookup w.key c ≠ none)
    (hknownW : ∀ v, s.getVal op = some v → v.status = .bonded → w.key = v.key ∧ w.status = .bonded) : Cm s' c := by
  have hmemNew : ∀ x, x ∈ s'.vals → x = w ∨ (x ∈ s.vals ∧ x.op ≠ op) := by
    intro x hx; rw [hvals] at hx
    have := mem_insertVal_split w s.vals m.sorted x hx
    rw [hwop] at this; exact this
  have hmemOld : ∀ x ∈ s.vals, x.op ≠ op → x ∈ s'.vals :=
    fun x hx ho => by rw [hvals]; exact mem_insertVal_of_ne w x s.vals hx (by rw [hwop]; exact ho)
  have hmemW : w ∈ s'.vals := by rw [hvals]; exact mem_insertVal_self _ _
  exact {
    cur := (by
      intro x hx ha hnu
      rcases hmemNew x hx with e | ⟨o, n⟩
      · rw [e] at ha hnu ⊢; rw [hwop] at hnu; exact hcurW ha hnu
      · exact k.cur x o ha (fun h => hnu ((hupdNe x.op n).mpr h)))
    gone := (by
      intro x hx hg
      rcases hmemNew x hx with e | ⟨o, _⟩
      · rw [e] at hg ⊢; exact hgoneW hg
      · exact k.gone x o hg)
    known := (by
      intro key p hkp
      obtain ⟨x, hx, hxk, hxb⟩ := k.known key p hkp
      by_cases ho : x.op = op
      · have hg := mem_vals_getVal s m.sorted x hx
        rw [ho] at hg
        obtain ⟨h1, h2⟩ := hknownW x hg hxb
        exact ⟨w, hmemW, by rw [h1]; exact hxk, h2⟩
      · exact ⟨x, hmemOld x hx ho, hxk, hxb⟩)
    cSorted := k.cSorted
    cNonneg := k.cNonneg }

/-- `Cm` reads the records and the cache of re-weighted operators only -/
theorem Cm_congr (s s' : App) (c : CSet) (k : Cm s c) (hv : s'.vals = s.vals) (hu : s'.updated = s.updated) : Cm s' c :=
  { cur := by rw [hv, hu]; exact k.cur
    gone := by rw [hv]; exact k.gone
    known := by rw [hv]; exact k.known
    cSorted := k.cSorted, cNonneg := k.cNonneg }

/-- **the EndBlocker takes `M2` to `G2`** -/
theorem endBlock_G2 (s : App) (c : CSet) (m : M2 s c) (f : Fits2 s c) :
    ∃ ups s' c', s.stakingEndBlock = .ok (ups, s') ∧ Comet.applyChangeSet c ups = .ok c' ∧ Agree c' s' ∧ G2 s' c' ∧
      s'.updated = s.updated ∧ s'.params = s.params ∧ s'.height = s.height ∧ s'.time = s.time ∧
      (∀ o w, s'.getVal o = some w → ∃ v0, s.getVal o = some v0 ∧ (w = v0 ∨ (Gone v0 ∧ Unb w ∧ w.key = v0.key))) ∧
      (∀ o v0, s.getVal o = some v0 → Active v0 → s'.getVal o = some v0) := by
  obtain ⟨ups, s', c', he, hc, hag, m', hng, _, r2, r3, r4, r5, _, hT0, hT1, hrec, hkeep⟩ := stakingEndBlock_St s c m.st m.cm f
  refine ⟨ups, s', c', he, hc, hag, ?_, r2, r3, r4, r5, hrec, hkeep⟩
  have hc'eq := applyChangeSet_ok c c' ups hc
  have hcs : KSorted c' := by rw [hc'eq]; exact ksorted_foldl ups c m.cm.cSorted
  have hallCur : ∀ v ∈ s'.vals, Active v → alookup v.key c' = some (cur v) := by
    intro v hv ha
    have hg := mem_vals_getVal s' m'.sorted v hv
    apply (hag v.key (cur v)).mpr
    exact ⟨v, hg, ha.1, ha.2.1, rfl, by simp [lastPower, m'.last v hv, lastOf_active v ha]⟩
  exact {
    st := m'
    cm := {
      cur := (fun v hv ha _ => hallCur v hv ha)
      gone := (fun v hv hg => absurd hg (hng v hv))
      known := (by
        intro key p hkp
        obtain ⟨v, hv, hb, _, hk, _⟩ := (hag key p).mp hkp
        exact ⟨v, mem_of_getVal s' v.op v hv, hk, hb⟩)
      cSorted := hcs
      cNonneg := (by
        intro e he1
        have hl := alookup_of_mem_nodup e.1 e.2 c' (ksorted_nodup _ hcs) he1
        obtain ⟨v, hv, hb, _, _, hp2⟩ := (hag e.1 e.2).mp hl
        have hvm := mem_of_getVal s' v.op v hv
        have := m'.last v hvm
        simp only [lastOf, hb, ↓reduceIte] at this
        simp only [lastPower, this, Option.getD_some] at hp2
        rw [← hp2]; unfold cur; omega) }
    allCur := hallCur
    noGone := hng
    totalOk := ⟨hT0, hT1⟩ }

/-! ### x/slashing's BeginBlocker when it punishes nobody -/

theorem St_frame (s : App) (m : St s) (I : List (Nat × SignInfo)) (B : List (Nat × List Nat)) (h t : Int)
    (hI : ∀ v ∈ s.vals, (alookup v.key I).isSome = true) :
    St { s with infos := I, bitmap := B, height := h, time := t } :=
  { sorted := m.sorted, keys := m.keys, cls := m.cls, hasActive := m.hasActive
    pend := ⟨m.pend.ops, m.pend.keys, m.pend.fresh⟩
    last := m.last, lastOnly := m.lastOnly, lastSorted := m.lastSorted, idxEx := m.idxEx, idxNodup := m.idxNodup
    idx := fun v hv => { a1 := (m.idx v hv).a1, a2 := (m.idx v hv).a2, g := (m.idx v hv).g, u := (m.idx v hv).u }
    unbond := m.unbond, infos := hI, cons := m.cons, updSorted := m.updSorted, updEx := m.updEx
    qSorted := m.qSorted, qNodup := m.qNodup, qRecs := m.qRecs }

theorem G2_frame (s : App) (c : CSet) (g : G2 s c) (I : List (Nat × SignInfo)) (B : List (Nat × List Nat)) (h t : Int)
    (hI : ∀ v ∈ s.vals, (alookup v.key I).isSome = true) :
    G2 { s with infos := I, bitmap := B, height := h, time := t } c :=
  { st := St_frame s g.st I B h t hI
    cm := { cur := g.cm.cur, gone := g.cm.gone, known := g.cm.known, cSorted := g.cm.cSorted, cNonneg := g.cm.cNonneg }
    allCur := g.allCur, noGone := g.noGone, totalOk := g.totalOk }

/-! ### PoA's BeginBlocker -/

/-- **PoA's BeginBlocker takes `G2` to `G2` with an empty cache** -/
theorem poaBegin_G2 (lf : LimitFacts) (s : App) (c : CSet) (g : G2 s c) :
    ∃ s2, poaBegin lf s = .ok s2 ∧ G2 s2 c ∧ s2.updated = [] ∧ s2.vals = s.vals ∧ s2.height = s.height ∧ s2.params = s.params := by
  have m := g.st
  have hcur : ∀ op ∈ s.updated, ∃ v, s.getVal op = some v ∧ (powerOf v.tokens, op) ∈ s.index := by
    intro op hop
    have := m.updEx op hop
    cases hv : s.getVal op with
    | none => simp [hv] at this
    | some v =>
      have hvop := getVal_op _ _ _ hv
      have := ((m.idx v (mem_of_getVal s op v hv)).a2 (by rw [hvop]; exact hop)).2.2
      rw [hvop] at this
      exact ⟨v, rfl, this⟩
  obtain ⟨idx', h1, h2, h3, h4⟩ := pruneUpdated_spec s s.updated s.index (sorted_nat_nodup _ m.updSorted) m.idxNodup hcur
  have mk : ∀ (cch : Nat) (ab : Nat), G2 { s with index := idx', updated := [], cached := cch, absCh := ab } c := by
    intro cch ab
    have hget : ∀ o, ({ s with index := idx', updated := [], cached := cch, absCh := ab } : App).getVal o = s.getVal o :=
      fun o => getVal_congr _ _ rfl o
    exact {
      st := {
        sorted := m.sorted, keys := m.keys, cls := m.cls, hasActive := m.hasActive
        pend := ⟨m.pend.ops, m.pend.keys, m.pend.fresh⟩
        last := m.last, lastOnly := m.lastOnly, lastSorted := m.lastSorted
        idxEx := (fun e he => m.idxEx e (h3 e he)), idxNodup := h2
        idx := (by
          intro v hv
          have io := m.idx v hv
          have hocc := h4 v.op
          exact {
            a1 := (fun ha _ => by
              show occ v.op idx' = 1
              rw [hocc]
              by_cases hu : v.op ∈ s.updated
              · simp only [hu, ↓reduceIte]; rw [(io.a2 hu).2.1]
              · simp only [hu, ↓reduceIte]; rw [io.a1 ha hu])
            a2 := (fun hin => by cases hin)
            g := (fun hg => by
              show occ v.op idx' = 0
              rw [hocc, io.g hg]; omega)
            u := (fun hu => by
              obtain ⟨b1, b2⟩ := io.u hu
              have hnu : v.op ∉ s.updated := fun hin => active_not_unb v (io.a2 hin).1 hu
              have ho1 : occ v.op idx' = 1 := by rw [hocc]; simp only [hnu, ↓reduceIte]; rw [b1]
              refine ⟨ho1, ?_⟩
              show (0, v.op) ∈ idx'
              -- the one entry of `v.op` left in the pruned index is the one at power 0
              have hex : ∃ e ∈ idx', e.2 = v.op := by
                by_cases hh : ∃ e ∈ idx', e.2 = v.op
                · exact hh
                · exfalso
                  have : occ v.op idx' = 0 := occ_zero_of_no_entry v.op idx' (fun e he ho => hh ⟨e, he, ho⟩)
                  omega
              obtain ⟨e, he, heo⟩ := hex
              have := occ_one_unique v.op s.index b1 e (h3 e he) (0, v.op) b2 heo rfl
              rw [← this]; exact he) })
        unbond := m.unbond, infos := m.infos, cons := m.cons
        updSorted := List.Pairwise.nil, updEx := (fun op hop => by cases hop)
        qSorted := m.qSorted, qNodup := m.qNodup, qRecs := m.qRecs }
      cm := { cur := (fun v hv ha _ => g.allCur v hv ha), gone := g.cm.gone, known := g.cm.known
              cSorted := g.cm.cSorted, cNonneg := g.cm.cNonneg }
      allCur := g.allCur, noGone := g.noGone, totalOk := g.totalOk }
  have hprune : pruneUpdated s.updated s = .ok { s with index := idx' } := h1
  unfold poaBegin
  rw [hprune]
  simp only
  split
  · have hU : ¬ ((decide (s.lastTotal < 0) || decide (s.lastTotal ≥ (U64 : Int))) = true) := by
      have := g.totalOk
      simp only [Bool.or_eq_true, decide_eq_true_eq, not_or]
      unfold maxTotalPower at this
      unfold U64
      constructor <;> omega
    rw [if_neg hU]
    exact ⟨_, rfl, mk _ _, rfl, rfl, rfl, rfl⟩
  · exact ⟨_, rfl, mk _ _, rfl, rfl, rfl, rfl⟩

end App
end PoaVerif
