import PoaVerif.Lemmas.Quiet2.EndBlock
/-
  The invariants `M2` (during a block) and `G2` (between blocks) of histories with power adjustments, admissions and
  removals; the EndBlocker takes `M2` to `G2`, the BeginBlockers take `G2` to `M2`.
-/
namespace PoaVerif
namespace App

structure M2 (s : App) (c : CSet) : Prop where
  st : St s
  cm : Cm s c

structure G2 (s : App) (c : CSet) : Prop extends M2 s c where
  allCur : ∀ v ∈ s.vals, Active v → alookup v.key c = some (cur v)
  noLeaving : ∀ v ∈ s.vals, ¬ Leaving v
  totalOk : 0 ≤ s.lastTotal ∧ s.lastTotal ≤ maxTotalPower

/-- the state between the BeginBlockers: like `G2`, but validators jailed by x/slashing or x/evidence a moment ago are
    still bonded (they leave at this block's EndBlocker) -/
structure B2 (s : App) (c : CSet) : Prop extends M2 s c where
  allCur : ∀ v ∈ s.vals, Active v → alookup v.key c = some (cur v)
  totalOk : 0 ≤ s.lastTotal ∧ s.lastTotal ≤ maxTotalPower

theorem B2_of_G2 (s : App) (c : CSet) (g : G2 s c) : B2 s c :=
  { st := g.st, cm := g.cm, allCur := g.allCur, totalOk := g.totalOk }

/-- `Cm` when one record is written and CometBFT's set stays -/
theorem Cm_put (s s' : App) (c : CSet) (op : Nat) (w : Val) (m : St s) (k : Cm s c)
    (hwop : w.op = op) (hvals : s'.vals = insertVal w s.vals)
    (hupdNe : ∀ o, o ≠ op → (o ∈ s'.updated ↔ o ∈ s.updated))
    (hcurW : Active w → op ∉ s'.updated → alookup w.key c = some (cur w))
    (hgoneW : Gone w → alookup w.key c ≠ none)
    (hjbW : w.jailed = true → w.status = .bonded → alookup w.key c ≠ none)
    (hknownW : ∀ v, s.getVal op = some v → v.status = .bonded → w.key = v.key ∧ w.status = .bonded) : Cm s' c := by
  have hmemNew : ∀ x, x ∈ s'.vals → x = w ∨ (x ∈ s.vals ∧ x.op ≠ op) := by
    intro x hx; rw [hvals] at hx
    have := mem_insertVal_split w s.vals m.sorted x hx
    rw [hwop] at this; exact this
  have hmemOld : ∀ x ∈ s.vals, x.op ≠ op → x ∈ s'.vals :=
    fun x hx ho => by rw [hvals]; exact mem_insertVal_of_ne w x s.vals hx (by rw [hwop]; exact ho)
  have hmemW : w ∈ s'.vals := by rw [hvals]; exact mem_insertVal_self _ _
  exact {
    cur := (by
      intro x hx ha hnu
      rcases hmemNew x hx with e | ⟨o, n⟩
      · rw [e] at ha hnu ⊢; rw [hwop] at hnu; exact hcurW ha hnu
      · exact k.cur x o ha (fun h => hnu ((hupdNe x.op n).mpr h)))
    gone := (by
      intro x hx hg
      rcases hmemNew x hx with e | ⟨o, _⟩
      · rw [e] at hg ⊢; exact hgoneW hg
      · exact k.gone x o hg)
    jb := (by
      intro x hx hj hb
      rcases hmemNew x hx with e | ⟨o, _⟩
      · rw [e] at hj hb ⊢; exact hjbW hj hb
      · exact k.jb x o hj hb)
    known := (by
      intro key p hkp
      obtain ⟨x, hx, hxk, hxb⟩ := k.known key p hkp
      by_cases ho : x.op = op
      · have hg := mem_vals_getVal s m.sorted x hx
        rw [ho] at hg
        obtain ⟨h1, h2⟩ := hknownW x hg hxb
        exact ⟨w, hmemW, by rw [h1]; exact hxk, h2⟩
      · exact ⟨x, hmemOld x hx ho, hxk, hxb⟩)
    cSorted := k.cSorted
    cNonneg := k.cNonneg }

/-- `Cm` reads the records and the cache of re-weighted operators only -/
theorem Cm_congr (s s' : App) (c : CSet) (k : Cm s c) (hv : s'.vals = s.vals) (hu : s'.updated = s.updated) : Cm s' c :=
  { cur := by rw [hv, hu]; exact k.cur
    gone := by rw [hv]; exact k.gone
    jb := by rw [hv]; exact k.jb
    known := by rw [hv]; exact k.known
    cSorted := k.cSorted, cNonneg := k.cNonneg }

/-- **the EndBlocker takes `M2` to `G2`** -/
theorem endBlock_G2 (s : App) (c : CSet) (m : M2 s c) (f : Fits2 s c) :
    ∃ ups s' c', s.stakingEndBlock = .ok (ups, s') ∧ Comet.applyChangeSet c ups = .ok c' ∧ Agree c' s' ∧ G2 s' c' ∧
      s'.updated = s.updated ∧ s'.params = s.params ∧ s'.height = s.height ∧ s'.time = s.time ∧
      (∀ o w, s'.getVal o = some w → ∃ v0, s.getVal o = some v0 ∧ RecRel v0 w) ∧
      (∀ o v0, s.getVal o = some v0 → Active v0 → s'.getVal o = some v0) := by
  obtain ⟨ups, s', c', he, hc, hag, m', hng, _, r2, r3, r4, r5, _, hT0, hT1, hrec, hkeep⟩ := stakingEndBlock_St s c m.st m.cm f
  refine ⟨ups, s', c', he, hc, hag, ?_, r2, r3, r4, r5, hrec, hkeep⟩
  have hc'eq := applyChangeSet_ok c c' ups hc
  have hcs : KSorted c' := by rw [hc'eq]; exact ksorted_foldl ups c m.cm.cSorted
  have hallCur : ∀ v ∈ s'.vals, Active v → alookup v.key c' = some (cur v) := by
    intro v hv ha
    have hg := mem_vals_getVal s' m'.sorted v hv
    apply (hag v.key (cur v)).mpr
    exact ⟨v, hg, ha.1, ha.2.1, rfl, by simp [lastPower, m'.lastA v hv ha]⟩
  exact {
    st := m'
    cm := {
      cur := (fun v hv ha _ => hallCur v hv ha)
      gone := (fun v hv hg => absurd (Or.inl hg) (hng v hv))
      jb := (fun v hv hj hb => by
        rcases m'.cls v hv with h | h | h | h
        · rw [h.2.1] at hj; cases hj
        · rw [h.2.1] at hj; cases hj
        · rw [h.2.1] at hj; cases hj
        · exact absurd (Or.inr ⟨h, hb⟩) (hng v hv))
      known := (by
        intro key p hkp
        obtain ⟨v, hv, hb, _, hk, _⟩ := (hag key p).mp hkp
        exact ⟨v, mem_of_getVal s' v.op v hv, hk, hb⟩)
      cSorted := hcs
      cNonneg := (by
        intro e he1
        have hl := alookup_of_mem_nodup e.1 e.2 c' (ksorted_nodup _ hcs) he1
        obtain ⟨v, hv, hb, hj, _, hp2⟩ := (hag e.1 e.2).mp hl
        have hvm := mem_of_getVal s' v.op v hv
        have := m'.last v hvm hj
        simp only [lastOf, hb, ↓reduceIte] at this
        simp only [lastPower, this, Option.getD_some] at hp2
        rw [← hp2]; unfold cur; omega) }
    allCur := hallCur
    noLeaving := hng
    totalOk := ⟨hT0, hT1⟩ }

/-! ### x/slashing's BeginBlocker when it punishes nobody -/

theorem St_frame (s : App) (m : St s) (I : List (Nat × SignInfo)) (B : List (Nat × List Nat)) (h t : Int)
    (hI : ∀ v ∈ s.vals, (alookup v.key I).isSome = true) :
    St { s with infos := I, bitmap := B, height := h, time := t } :=
  { sorted := m.sorted, keys := m.keys, cls := m.cls, hasActive := m.hasActive
    pend := ⟨m.pend.ops, m.pend.keys, m.pend.fresh⟩
    last := m.last, lastJ := m.lastJ, lastOnly := m.lastOnly, lastSorted := m.lastSorted, idxEx := m.idxEx, idxNodup := m.idxNodup
    idx := fun v hv => { a1 := (m.idx v hv).a1, a2 := (m.idx v hv).a2, g := (m.idx v hv).g, u := (m.idx v hv).u, j := (m.idx v hv).j }
    unbond := m.unbond, infos := hI, cons := m.cons, updSorted := m.updSorted, updEx := m.updEx
    qSorted := m.qSorted, qNodup := m.qNodup, qRecs := m.qRecs }

theorem G2_frame (s : App) (c : CSet) (g : G2 s c) (I : List (Nat × SignInfo)) (B : List (Nat × List Nat)) (h t : Int)
    (hI : ∀ v ∈ s.vals, (alookup v.key I).isSome = true) :
    G2 { s with infos := I, bitmap := B, height := h, time := t } c :=
  { st := St_frame s g.st I B h t hI
    cm := { cur := g.cm.cur, gone := g.cm.gone, jb := g.cm.jb, known := g.cm.known, cSorted := g.cm.cSorted, cNonneg := g.cm.cNonneg }
    allCur := g.allCur, noLeaving := g.noLeaving, totalOk := g.totalOk }

theorem B2_frame (s : App) (c : CSet) (g : B2 s c) (I : List (Nat × SignInfo)) (B : List (Nat × List Nat)) (h t : Int)
    (hI : ∀ v ∈ s.vals, (alookup v.key I).isSome = true) :
    B2 { s with infos := I, bitmap := B, height := h, time := t } c :=
  { st := St_frame s g.st I B h t hI
    cm := { cur := g.cm.cur, gone := g.cm.gone, jb := g.cm.jb, known := g.cm.known, cSorted := g.cm.cSorted, cNonneg := g.cm.cNonneg }
    allCur := g.allCur, totalOk := g.totalOk }

/-! ### PoA's BeginBlocker -/

/-- **PoA's BeginBlocker takes `B2` to `B2` with an empty cache** -/
theorem poaBegin_G2 (lf : LimitFacts) (s : App) (c : CSet) (g : B2 s c) :
    ∃ s2, poaBegin lf s = .ok s2 ∧ B2 s2 c ∧ s2.updated = [] ∧ s2.vals = s.vals ∧ s2.height = s.height ∧ s2.params = s.params := by
  have m := g.st
  have hcur : ∀ op ∈ s.updated, ∃ v, s.getVal op = some v ∧ (powerOf v.tokens, op) ∈ s.index := by
    intro op hop
    have := m.updEx op hop
    cases hv : s.getVal op with
    | none => simp [hv] at this
    | some v =>
      have hvop := getVal_op _ _ _ hv
      have := ((m.idx v (mem_of_getVal s op v hv)).a2 (by rw [hvop]; exact hop)).2.2
      rw [hvop] at this
      exact ⟨v, rfl, this⟩
  obtain ⟨idx', h1, h2, h3, h4⟩ := pruneUpdated_spec s s.updated s.index (sorted_nat_nodup _ m.updSorted) m.idxNodup hcur
  have mk : ∀ (cch : Nat) (ab : Nat), B2 { s with index := idx', updated := [], cached := cch, absCh := ab } c := by
    intro cch ab
    have hget : ∀ o, ({ s with index := idx', updated := [], cached := cch, absCh := ab } : App).getVal o = s.getVal o :=
      fun o => getVal_congr _ _ rfl o
    exact {
      st := {
        sorted := m.sorted, keys := m.keys, cls := m.cls, hasActive := m.hasActive
        pend := ⟨m.pend.ops, m.pend.keys, m.pend.fresh⟩
        last := m.last, lastJ := m.lastJ, lastOnly := m.lastOnly, lastSorted := m.lastSorted
        idxEx := (fun e he => m.idxEx e (h3 e he)), idxNodup := h2
        idx := (by
          intro v hv
          have io := m.idx v hv
          have hocc := h4 v.op
          exact {
            a1 := (fun ha _ => by
              show occ v.op idx' = 1
              rw [hocc]
              by_cases hu : v.op ∈ s.updated
              · simp only [hu, ↓reduceIte]; rw [(io.a2 hu).2.1]
              · simp only [hu, ↓reduceIte]; rw [io.a1 ha hu])
            a2 := (fun hin => by cases hin)
            g := (fun hg => by
              show occ v.op idx' = 0
              rw [hocc, io.g hg]; omega)
            u := (fun hu => by
              obtain ⟨b1, b2⟩ := io.u hu
              have hnu : v.op ∉ s.updated := fun hin => active_not_unb v (io.a2 hin).1 hu
              have ho1 : occ v.op idx' = 1 := by rw [hocc]; simp only [hnu, ↓reduceIte]; rw [b1]
              refine ⟨ho1, ?_⟩
              show (0, v.op) ∈ idx'
              -- the one entry of `v.op` left in the pruned index is the one at power 0
              have hex : ∃ e ∈ idx', e.2 = v.op := by
                by_cases hh : ∃ e ∈ idx', e.2 = v.op
                · exact hh
                · exfalso
                  have : occ v.op idx' = 0 := occ_zero_of_no_entry v.op idx' (fun e he ho => hh ⟨e, he, ho⟩)
                  omega
              obtain ⟨e, he, heo⟩ := hex
              have := occ_one_unique v.op s.index b1 e (h3 e he) (0, v.op) b2 heo rfl
              rw [← this]; exact he)
            j := (fun hj => by
              show occ v.op idx' = 0
              rw [hocc, io.j hj]; omega) })
        unbond := m.unbond, infos := m.infos, cons := m.cons
        updSorted := List.Pairwise.nil, updEx := (fun op hop => by cases hop)
        qSorted := m.qSorted, qNodup := m.qNodup, qRecs := m.qRecs }
      cm := { cur := (fun v hv ha _ => g.allCur v hv ha), gone := g.cm.gone, jb := g.cm.jb, known := g.cm.known
              cSorted := g.cm.cSorted, cNonneg := g.cm.cNonneg }
      allCur := g.allCur, totalOk := g.totalOk }
  have hprune : pruneUpdated s.updated s = .ok { s with index := idx' } := h1
  unfold poaBegin
  rw [hprune]
  simp only
  split
  · have hU : ¬ ((decide (s.lastTotal < 0) || decide (s.lastTotal ≥ (U64 : Int))) = true) := by
      have := g.totalOk
      simp only [Bool.or_eq_true, decide_eq_true_eq, not_or]
      unfold maxTotalPower at this
      unfold U64
      constructor <;> omega
    rw [if_neg hU]
    exact ⟨_, rfl, mk _ _, rfl, rfl, rfl, rfl⟩
  · exact ⟨_, rfl, mk _ _, rfl, rfl, rfl, rfl⟩

theorem cons_lookup_raw (s : App) (m : St s) (v : Val) (hv : v ∈ s.vals) : alookup v.key s.cons = some v.op := by
  have hc := m.cons v hv
  unfold valByKey at hc
  cases hk : alookup v.key s.cons with
  | none => rw [hk] at hc; cases hc
  | some o1 =>
    rw [hk] at hc
    simp only at hc
    rw [← getVal_op _ _ _ hc]

/-! ### x/slashing's and x/evidence's BeginBlockers when they punish: the shape of their result -/

/-- what the two punishing BeginBlockers may have done to a `G2` state (with the new height and time) — a decidable
    relation between the state before and after them, evaluated by the driver: every record is unchanged or was an
    `Active` validator, not re-weighted in the last block, and is now jailed (still bonded, possibly with fewer tokens,
    same shares, same key); the power index lost exactly the entries of the jailed validators; signing infos exist;
    everything else `St` reads is unchanged -/
structure PunShape (s0 s1 : App) : Prop where
  ops : s1.vals.map (·.op) = s0.vals.map (·.op)
  recs : ∀ v ∈ s0.vals, ∃ w, s1.getVal v.op = some w ∧ w.key = v.key ∧
    (w = v ∨ (Active v ∧ v.op ∉ s0.updated ∧ w.jailed = true ∧ w.shares ≠ 0 ∧ w.status = .bonded))
  stays : ∃ v ∈ s0.vals, Active v ∧ s1.getVal v.op = some v
  last : s1.last = s0.last
  ubq : s1.ubq = s0.ubq
  cons : s1.cons = s0.cons
  pending : s1.pending = s0.pending
  updated : s1.updated = s0.updated
  unbond : s1.params.unbond = s0.params.unbond
  lastTotal : s1.lastTotal = s0.lastTotal
  idxSub : ∀ e ∈ s1.index, e ∈ s0.index
  idxNodup : s1.index.Nodup
  idxOcc : ∀ v ∈ s0.vals, s1.getVal v.op = some v → occ v.op s1.index = occ v.op s0.index
  idxKeep : ∀ e ∈ s0.index, s1.getVal e.2 = s0.getVal e.2 → e ∈ s1.index
  idxJ : ∀ w ∈ s1.vals, w.jailed = true → occ w.op s1.index = 0
  infos : ∀ w ∈ s1.vals, (s1.getInfo w.key).isSome = true

theorem sortedOps_of_ops (l l' : List Val) (h : l'.map (·.op) = l.map (·.op)) (hs : SortedOps l) : SortedOps l' := by
  unfold SortedOps at hs ⊢
  have h1 : (l.map (·.op)).Pairwise (· < ·) := List.pairwise_map.mpr hs
  rw [← h] at h1
  exact List.pairwise_map.mp h1

/-- **the punishing BeginBlockers keep `B2`** -/
theorem punish_B2 (s0 s1 : App) (c : CSet) (g : B2 s0 c) (hno : ∀ v ∈ s0.vals, ¬ Leaving v) (p : PunShape s0 s1) : B2 s1 c := by
  have m := g.st
  have hsorted1 : SortedOps s1.vals := sortedOps_of_ops s0.vals s1.vals p.ops m.sorted
  -- every record of `s1` comes from the record of `s0` with the same operator
  have hfrom : ∀ w ∈ s1.vals, ∃ v ∈ s0.vals, v.op = w.op ∧ w.key = v.key ∧
      (w = v ∨ (Active v ∧ v.op ∉ s0.updated ∧ w.jailed = true ∧ w.shares ≠ 0 ∧ w.status = .bonded)) := by
    intro w hw
    have hop : w.op ∈ s0.vals.map (·.op) := by rw [← p.ops]; exact List.mem_map.mpr ⟨w, hw, rfl⟩
    obtain ⟨v, hv, hvo⟩ := List.mem_map.mp hop
    obtain ⟨w', hw', hk, hcase⟩ := p.recs v hv
    have hgw := mem_vals_getVal s1 hsorted1 w hw
    rw [← hvo, hw'] at hgw
    injection hgw with hgw
    rw [← hgw]
    exact ⟨v, hv, by rw [hgw]; exact hvo, hk, hcase⟩
  have hjl : ∀ w ∈ s1.vals, ∀ v ∈ s0.vals, v.op = w.op → w ≠ v → Jl w ∧ w.status = .bonded ∧ Active v ∧ v.op ∉ s0.updated := by
    intro w hw v hv hvo hne
    obtain ⟨v', hv', hvo', _, hcase⟩ := hfrom w hw
    have : v' = v := sorted_op_inj _ m.sorted v' hv' v hv (by rw [hvo', hvo])
    rw [this] at hcase
    rcases hcase with e | ⟨ha, hu, h1, h2, h3⟩
    · exact absurd e hne
    · exact ⟨⟨h1, h2⟩, h3, ha, hu⟩
  have hget0 : ∀ v ∈ s0.vals, s0.getVal v.op = some v := fun v hv => mem_vals_getVal s0 m.sorted v hv
  -- classes
  have hcls1 : ∀ w ∈ s1.vals, Active w ∨ Gone w ∨ Unb w ∨ Jl w := by
    intro w hw
    obtain ⟨v, hv, _, _, hcase⟩ := hfrom w hw
    rcases hcase with e | ⟨_, _, h1, h2, _⟩
    · rw [e]; exact m.cls v hv
    · exact Or.inr (Or.inr (Or.inr ⟨h1, h2⟩))
  have hsame_or : ∀ w ∈ s1.vals, w ∈ s0.vals ∨ (Jl w ∧ w.status = .bonded ∧ ∃ v ∈ s0.vals, v.op = w.op ∧ w.key = v.key ∧ Active v ∧ v.op ∉ s0.updated) := by
    intro w hw
    obtain ⟨v, hv, hvo, hk, hcase⟩ := hfrom w hw
    rcases hcase with e | ⟨ha, hu, h1, h2, h3⟩
    · left; rw [e]; exact hv
    · right; exact ⟨⟨h1, h2⟩, h3, v, hv, hvo, hk, ha, hu⟩
  have hget1_of_same : ∀ w ∈ s1.vals, w ∈ s0.vals → s1.getVal w.op = some w := fun w hw _ => mem_vals_getVal s1 hsorted1 w hw
  have hgetEq : ∀ o, (s0.getVal o).isSome = true → (s1.getVal o).isSome = true := by
    intro o ho
    cases hv : s0.getVal o with
    | none => rw [hv] at ho; cases ho
    | some v =>
      have hvm := mem_of_getVal s0 o v hv
      obtain ⟨w, hw, _⟩ := p.recs v hvm
      rw [getVal_op _ _ _ hv] at hw
      rw [hw]; rfl
  have hnone : ∀ o, s0.getVal o = none → s1.getVal o = none := by
    intro o ho
    cases hv : s1.getVal o with
    | none => rfl
    | some w =>
      exfalso
      have hwm := mem_of_getVal s1 o w hv
      obtain ⟨v, hvm, hvo, _⟩ := hfrom w hwm
      have := hget0 v hvm
      rw [hvo, getVal_op _ _ _ hv, ho] at this; cases this
  refine {
    st := {
      sorted := hsorted1
      keys := (by
        intro w1 h1 w2 h2 hk
        obtain ⟨v1, hv1, ho1, k1, _⟩ := hfrom w1 h1
        obtain ⟨v2, hv2, ho2, k2, _⟩ := hfrom w2 h2
        have : v1 = v2 := m.keys v1 hv1 v2 hv2 (by rw [← k1, ← k2, hk])
        exact sorted_op_inj _ hsorted1 w1 h1 w2 h2 (by rw [← ho1, ← ho2, this]))
      cls := hcls1
      hasActive := (by
        obtain ⟨v, hv, ha, hs⟩ := p.stays
        exact ⟨v, mem_of_getVal s1 v.op v hs, ha⟩)
      pend := (by
        refine ⟨by rw [p.pending]; exact m.pend.ops, by rw [p.pending]; exact m.pend.keys, ?_⟩
        intro q hq
        rw [p.pending] at hq
        obtain ⟨f1, f2, f3⟩ := m.pend.fresh q hq
        refine ⟨hnone q.op f1, ?_, f3⟩
        intro w hw
        obtain ⟨v, hv, _, hk, _⟩ := hfrom w hw
        rw [hk]; exact f2 v hv)
      last := (by
        intro w hw hj
        rw [p.last]
        rcases hsame_or w hw with h | ⟨hjl, _⟩
        · exact m.last w h hj
        · rw [hjl.1] at hj; cases hj)
      lastJ := (by
        intro w hw hj
        rw [p.last]
        rcases hsame_or w hw with h | ⟨_, hb, v, hv, hvo, _, ha, _⟩
        · exact m.lastJ w h hj
        · rw [← hvo, m.lastA v hv ha]
          constructor
          · intro _; exact hb
          · intro _; simp)
      lastOnly := (by
        intro o q hq
        rw [p.last] at hq
        exact hgetEq o (m.lastOnly o q hq))
      lastSorted := (by rw [p.last]; exact m.lastSorted)
      idxEx := (fun e he => hgetEq e.2 (m.idxEx e (p.idxSub e he)))
      idxNodup := p.idxNodup
      idx := (by
        intro w hw
        rcases hsame_or w hw with h | ⟨hjl, _, v, hv, hvo, _, ha, hu⟩
        · have io := m.idx w h
          have hs := hget1_of_same w hw h
          have hocc := p.idxOcc w h hs
          exact {
            a1 := (fun ha hnu => by rw [hocc]; exact io.a1 ha (by rw [← p.updated]; exact hnu))
            a2 := (fun hin => by
              obtain ⟨b1, b2, b3⟩ := io.a2 (by rw [← p.updated]; exact hin)
              exact ⟨b1, by rw [hocc]; exact b2, p.idxKeep _ b3 (by rw [hs, hget0 w h])⟩)
            g := (fun hg => by rw [hocc]; exact io.g hg)
            u := (fun hu' => by
              obtain ⟨b1, b2⟩ := io.u hu'
              exact ⟨by rw [hocc]; exact b1, p.idxKeep _ b2 (by rw [hs, hget0 w h])⟩)
            j := (fun hj => p.idxJ w hw hj) }
        · exact {
            a1 := (fun ha' => absurd hjl (active_not_jl _ ha'))
            a2 := (fun hin => by exfalso; rw [p.updated, ← hvo] at hin; exact hu hin)
            g := (fun hg' => absurd hjl (gone_not_jl _ hg'))
            u := (fun hu' => absurd hjl (unb_not_jl _ hu'))
            j := (fun hj => p.idxJ w hw hj) })
      unbond := (by rw [p.unbond]; exact m.unbond)
      infos := p.infos
      cons := (by
        intro w hw
        obtain ⟨v, hv, hvo, hk, _⟩ := hfrom w hw
        unfold valByKey
        rw [p.cons, hk, cons_lookup_raw s0 m v hv, hvo]
        exact mem_vals_getVal s1 hsorted1 w hw)
      updSorted := (by rw [p.updated]; exact m.updSorted)
      updEx := (by intro o ho; rw [p.updated] at ho; exact hgetEq o (m.updEx o ho))
      qSorted := (by rw [p.ubq]; exact m.qSorted)
      qNodup := (by rw [p.ubq]; exact m.qNodup)
      qRecs := (by
        intro e he
        rw [p.ubq] at he
        obtain ⟨v, hv, hst, t1, t2⟩ := m.qRecs e he
        have hvm := mem_of_getVal s0 e.2 v hv
        obtain ⟨w, hw, _, hcase⟩ := p.recs v hvm
        rw [getVal_op _ _ _ hv] at hw
        rcases hcase with e1 | ⟨ha, _⟩
        · exact ⟨w, hw, by rw [e1]; exact hst, by rw [e1]; exact t1, by rw [e1]; exact t2⟩
        · rw [ha.1] at hst; cases hst) }
    cm := {
      cur := (by
        intro w hw ha _
        rcases hsame_or w hw with h | ⟨hjl, _⟩
        · exact g.allCur w h ha
        · exact absurd hjl (active_not_jl w ha))
      gone := (by
        intro w hw hg
        rcases hsame_or w hw with h | ⟨hjl, _⟩
        · exact absurd (Or.inl hg) (hno w h)
        · exact absurd hjl (gone_not_jl w hg))
      jb := (by
        intro w hw hj hb
        rcases hsame_or w hw with h | ⟨_, _, v, hv, _, hk, ha, _⟩
        · exfalso
          have hjl : Jl w := by
            rcases m.cls w h with a | a | a | a
            · rw [a.2.1] at hj; cases hj
            · rw [a.2.1] at hj; cases hj
            · rw [a.2.1] at hj; cases hj
            · exact a
          exact hno w h (Or.inr ⟨hjl, hb⟩)
        · rw [hk, g.allCur v hv ha]; simp)
      known := (by
        intro key q hkq
        obtain ⟨v, hv, hk, hb⟩ := g.cm.known key q hkq
        obtain ⟨w, hw, hwk, hcase⟩ := p.recs v hv
        refine ⟨w, mem_of_getVal s1 v.op w hw, by rw [hwk]; exact hk, ?_⟩
        rcases hcase with e | ⟨_, _, _, _, h3⟩
        · rw [e]; exact hb
        · exact h3)
      cSorted := g.cm.cSorted, cNonneg := g.cm.cNonneg }
    allCur := (by
      intro w hw ha
      rcases hsame_or w hw with h | ⟨hjl, _⟩
      · exact g.allCur w h ha
      · exact absurd hjl (active_not_jl w ha))
    totalOk := (by rw [p.lastTotal]; exact g.totalOk) }

end App
end PoaVerif
