import PoaVerif.Lemmas.Quiet2.Run
/-
  The wider quiet class with the admin's operations arriving **through governance**: in the default configuration the PoA
  admin is the x/gov account, every admin operation is a message of a passed proposal, executed by x/gov's EndBlocker
  (after the block's transactions, before x/poa's and x/staking's EndBlockers), all messages of a proposal or none.
  `QuietBlock3` is `QuietBlock2` with the executed proposals of the block held to the conditions of its transactions.
-/
namespace PoaVerif
namespace App

/-- one message of the wider quiet class, judged at the state it meets: if it succeeds it leaves the state as it was, or
    it is the admin's SetPower, a RemoveValidator, a CreateValidator, a RemovePending or an UpdateStakingParams under the
    conditions of `QuietTx2` -/
def QuietMsg1 (s : App) (sg : Signer) (m : Msg) : Prop :=
  ((∀ s', handle genLimitFacts s sg m = .ok s' → s' = s) ∧ (∀ op, m ≠ .remove (some op)) ∧
    (sg = .admin → ∀ op p u, m ≠ .setPower (some op) p u)) ∨
  (∃ op p u, sg = .admin ∧ m = .setPower (some op) p u ∧
    (handleOk s sg m = true → s.pendingFind op = none →
      (∀ v, s.getVal op = some v → powerOf v.tokens > 0 ∧ v.jailed = false) ∧ op ∉ s.updated ∧ (p / PR, op) ∉ s.index)) ∨
  (∃ op, m = .remove (some op) ∧
    (handleOk s sg m = true →
      ∃ v, s.getVal op = some v ∧ powerOf v.tokens > 0 ∧ v.jailed = false ∧ op ∉ s.updated ∧ (powerOf v.tokens, op) ∈ s.index)) ∨
  (∃ a, m = .create a) ∨ (∃ t, m = .rmPending t) ∨ (∃ pa, m = .params pa)

/-- a successful message of the class keeps `M2` -/
theorem handle_M2 (s s' : App) (c : CSet) (sg : Signer) (msg : Msg) (m : M2 s c) (q : QuietMsg1 s sg msg)
    (h : handle genLimitFacts s sg msg = .ok s') : M2 s' c := by
  rcases q with ⟨hsame, _, _⟩ | ⟨op, p, u, hsg, hmsg, hq⟩ | ⟨op, hmsg, hq⟩ | ⟨a, hmsg⟩ | ⟨tg, hmsg⟩ | ⟨pa, hmsg⟩
  · rw [hsame s' h]; exact m
  · have hok : handleOk s sg msg = true := by unfold handleOk; rw [h]
    subst hmsg; subst hsg
    simp only [handle] at h
    cases hr : setPowerMsg genLimitFacts s Signer.admin (some op) p u with
    | error e => rw [hr] at h; simp only [liftE] at h; cases h
    | ok s'' =>
      rw [hr] at h; simp only [liftE] at h
      cases h
      exact M2_setPower s s' c op p u m hr (hq hok)
  · have hok : handleOk s sg msg = true := by unfold handleOk; rw [h]
    subst hmsg
    simp only [handle] at h
    cases hr : s.removeMsg sg (some op) with
    | error e => rw [hr] at h; simp only [liftE] at h; cases h
    | ok s'' =>
      rw [hr] at h; simp only [liftE] at h
      cases h
      obtain ⟨v, hv, hpos, hnj, hd3, hidx⟩ := hq hok
      exact M2_remove s s' c op v m (removeMsg_core s s' sg op hr) hv hpos hnj hd3 hidx
  · subst hmsg
    simp only [handle] at h
    cases hr : s.createMsg sg a with
    | error e => rw [hr] at h; simp only [liftE] at h; cases h
    | ok s'' => rw [hr] at h; simp only [liftE] at h; cases h; exact M2_create s s' c sg a m hr
  · subst hmsg
    simp only [handle] at h
    cases hr : s.rmPendingMsg sg tg with
    | error e => rw [hr] at h; simp only [liftE] at h; cases h
    | ok s'' => rw [hr] at h; simp only [liftE] at h; cases h; exact M2_rmPending s s' c sg tg m hr
  · subst hmsg
    simp only [handle] at h
    cases hr : s.paramsMsg sg pa with
    | error e => rw [hr] at h; simp only [liftE] at h; cases h
    | ok s'' => rw [hr] at h; simp only [liftE] at h; cases h; exact M2_params s s' c sg pa m hr

/-- a list of messages executed in order, each judged at the state the earlier ones left -/
def QuietMsgList : App → Signer → List Msg → Prop
  | _, _, [] => True
  | s, sg, m :: rest => QuietMsg1 s sg m ∧ ∀ s', handle genLimitFacts s sg m = .ok s' → QuietMsgList s' sg rest

theorem handleList_M2 (c : CSet) (sg : Signer) : ∀ (ms : List Msg) (s s' : App), M2 s c → QuietMsgList s sg ms →
    handleList genLimitFacts s sg ms = .ok s' → M2 s' c
  | [], s, s', m, _, h => by
    simp only [handleList] at h
    cases h; exact m
  | msg :: rest, s, s', m, q, h => by
    simp only [handleList] at h
    cases hr : handle genLimitFacts s sg msg with
    | ok s1 =>
      rw [hr] at h
      exact handleList_M2 c sg rest s1 s' (handle_M2 s s1 c sg msg m q.1 hr) (q.2 s1 hr) h
    | err e => rw [hr] at h; cases h
    | unknown => rw [hr] at h; cases h

/-- the messages of one executed proposal: if the proposal goes through, they are a list of the class -/
def QuietMsgs2 (s : App) (sg : Signer) (ms : List Msg) : Prop :=
  govOk s sg ms = true → QuietMsgList s sg ms

/-- one executed proposal of the class keeps `M2` (a failed one leaves the state as it was) -/
theorem govStep_M2 (s : App) (c : CSet) (sg : Signer) (ms : List Msg) (m : M2 s c) (q : QuietMsgs2 s sg ms) :
    M2 (govStep s sg ms) c := by
  unfold QuietMsgs2 govOk at q
  unfold govStep
  cases hr : handleList genLimitFacts s sg ms with
  | ok s' =>
    rw [hr] at q
    exact handleList_M2 c sg ms s s' m (q rfl) hr
  | err e => exact m
  | unknown => exact m

/-- a transaction: of the class `QuietTx2`, or failing, or a list of messages of the class -/
def QuietTx3 (s : App) (incs : List (Signer × Nat)) (tx : Tx) : Prop :=
  QuietTx2 s incs tx ∨ (runTx genEnv s incs tx).1 ≠ .ok ∨ QuietMsgList s tx.signer tx.msgs

theorem runTx_M3 (s : App) (c : CSet) (incs : List (Signer × Nat)) (tx : Tx) (m : M2 s c) (q : QuietTx3 s incs tx) :
    M2 (runTx genEnv s incs tx).2.1 c := by
  rcases q with q | hfail | q
  · exact runTx_M2 s c incs tx m q
  · unfold runTx at hfail ⊢
    split
    · exact m
    · rename_i hseq
      simp only [hseq, ↓reduceIte] at hfail
      cases ha : Ante.run genEnv.ante genEnv.limiter s.height tx.msgs with
      | some e => exact m
      | none =>
        simp only [ha] at hfail ⊢
        cases hh : handleList genEnv.lim s tx.signer tx.msgs with
        | ok s' => simp [hh] at hfail
        | err e => exact m
        | unknown => exact m
  · unfold runTx
    split
    · exact m
    · cases ha : Ante.run genEnv.ante genEnv.limiter s.height tx.msgs with
      | some e => exact m
      | none =>
        simp only
        have hlim : genEnv.lim = genLimitFacts := rfl
        cases hh : handleList genEnv.lim s tx.signer tx.msgs with
        | ok s' => rw [hlim] at hh; exact handleList_M2 c tx.signer tx.msgs s s' m q hh
        | err e => exact m
        | unknown => exact m

def QuietTxs3 : List Tx → App → List (Signer × Nat) → Prop
  | [], _, _ => True
  | tx :: rest, s, incs => QuietTx3 s incs tx ∧ QuietTxs3 rest (runTx genEnv s incs tx).2.1 (runTx genEnv s incs tx).2.2

theorem runTxs_M3 (c : CSet) : ∀ (txs : List Tx) (s : App) (incs : List (Signer × Nat)) (acc : List TxR),
    M2 s c → QuietTxs3 txs s incs → M2 (runTxs genEnv txs s incs acc).2 c
  | [], s, _, _, m, _ => by simpa [runTxs] using m
  | tx :: rest, s, incs, acc, m, q => by
    unfold runTxs
    exact runTxs_M3 c rest _ _ _ (runTx_M3 s c incs tx m q.1) q.2

theorem QuietTxs3.of2 : ∀ (txs : List Tx) (s : App) (incs : List (Signer × Nat)), QuietTxs2 txs s incs → QuietTxs3 txs s incs
  | [], _, _, _ => trivial
  | _ :: rest, _, _, q => ⟨Or.inl q.1, QuietTxs3.of2 rest _ _ q.2⟩

def QuietGov2 (sg : Signer) : List (List Msg) → App → Prop
  | [], _ => True
  | ms :: rest, s => QuietMsgs2 s sg ms ∧ QuietGov2 sg rest (govStep s sg ms)

theorem govFold_M2 (c : CSet) (sg : Signer) : ∀ (gov : List (List Msg)) (s : App), M2 s c → QuietGov2 sg gov s → M2 (govFold sg gov s) c
  | [], s, m, _ => by simpa [govFold] using m
  | ms :: rest, s, m, q => by
    unfold govFold
    exact govFold_M2 c sg rest _ (govStep_M2 s c sg ms m q.1) q.2

/-- the state x/gov's EndBlocker leaves is the fold of `govStep` (the results collected so far play no part) -/
theorem runGov_state (sg : Signer) : ∀ (gov : List (List Msg)) (s : App) (acc : List TxR),
    (runGov genEnv sg gov s acc).2 = govFold sg gov s
  | [], _, _ => rfl
  | ms :: rest, s, acc => by
    have hlim : genEnv.lim = genLimitFacts := rfl
    simp only [runGov, govFold, govStep, hlim]
    cases handleList genLimitFacts s sg ms with
    | ok s' => exact runGov_state sg rest s' _
    | err e => exact runGov_state sg rest s _
    | unknown => exact runGov_state sg rest s _

theorem beforeEnd_eq_gov (env : Env) (s : App) (b : Block) :
    beforeEnd env s b = (match beginState env s b with
      | .error h => .error h
      | .ok s2 => .ok (runGov env (govSigner b) b.gov (runTxs env b.txs s2 [] []).2 (runTxs env b.txs s2 [] []).1)) := by
  unfold beforeEnd beginState
  dsimp only
  cases slashingBegin b.votes { s with height := s.height + 1, time := s.time + b.dt } with
  | error h => rfl
  | ok s1 =>
    simp only
    cases evidenceBegin b.evid s1 with
    | error h => rfl
    | ok s2 =>
      simp only
      cases poaBegin env.lim s2 with
      | error h => rfl
      | ok s3 => rfl

/-- a block of the wider quiet class whose admin operations may come from executed proposals -/
structure QuietBlock3 (s : App) (c : CSet) (b : Block) : Prop where
  begin_ : ∃ s1, punishState s b = .ok s1 ∧ PunShape { s with height := s.height + 1, time := s.time + b.dt } s1
  txs : ∀ s2, beginState genEnv s b = .ok s2 → QuietTxs3 b.txs s2 []
  gov : ∀ s2, beginState genEnv s b = .ok s2 → QuietGov2 (govSigner b) b.gov (runTxs genEnv b.txs s2 [] []).2
  fits : ∀ s2, beginState genEnv s b = .ok s2 → Fits2 (govFold (govSigner b) b.gov (runTxs genEnv b.txs s2 [] []).2) c

/-- a block without executed proposals is the special case -/
theorem QuietBlock3.of2 (s : App) (c : CSet) (b : Block) (q : QuietBlock2 s c b) : QuietBlock3 s c b :=
  { begin_ := q.begin_, txs := (fun s2 h => QuietTxs3.of2 _ _ _ (q.txs s2 h))
    gov := (fun s2 _ => by rw [q.noGov]; trivial)
    fits := (fun s2 h => by rw [q.noGov]; exact q.fits s2 h) }


/-- **one quiet block, governance included, takes `G2` to `G2`** -/
theorem block_G2_gov (s : App) (c : CSet) (b : Block) (g : G2 s c) (q : QuietBlock3 s c b) :
    ∃ o s' c', block genEnv s b = .ok (o, s') ∧ Comet.applyChangeSet c o.updates = .ok c' ∧ Agree c' s' ∧ G2 s' c' := by
  -- the BeginBlockers: as in `begin_M2` (which reads the `begin_` field only)
  obtain ⟨s1, hp, sh⟩ := q.begin_
  have g0 : B2 { s with height := s.height + 1, time := s.time + b.dt } c :=
    B2_frame s c (B2_of_G2 s c g) s.infos s.bitmap (s.height + 1) (s.time + b.dt) g.st.infos
  have g1 : B2 s1 c := punish_B2 _ s1 c g0 g.noLeaving sh
  obtain ⟨s2, hpb, g2, _, _, _, _⟩ := poaBegin_G2 genEnv.lim s1 c g1
  have hbegin : beginState genEnv s b = .ok s2 := by rw [beginState_of_punish s s1 b hp]; exact hpb
  have m3 := runTxs_M3 c b.txs s2 [] [] g2.toM2 (q.txs s2 hbegin)
  have m4 := govFold_M2 c (govSigner b) b.gov _ m3 (q.gov s2 hbegin)
  have f4 := q.fits s2 hbegin
  obtain ⟨ups, s5, c', he, hc, hag, g5, _⟩ := endBlock_G2 _ c m4 f4
  refine ⟨⟨(runGov genEnv (govSigner b) b.gov (runTxs genEnv b.txs s2 [] []).2 (runTxs genEnv b.txs s2 [] []).1).1, ups⟩, s5, c', ?_, hc, hag, g5⟩
  unfold block
  rw [beforeEnd_eq_gov, hbegin]
  simp only
  rw [show (runGov genEnv (govSigner b) b.gov (runTxs genEnv b.txs s2 [] []).2 (runTxs genEnv b.txs s2 [] []).1) =
      ((runGov genEnv (govSigner b) b.gov (runTxs genEnv b.txs s2 [] []).2 (runTxs genEnv b.txs s2 [] []).1).1,
       govFold (govSigner b) b.gov (runTxs genEnv b.txs s2 [] []).2) from by
    rw [← runGov_state (govSigner b) b.gov (runTxs genEnv b.txs s2 [] []).2 (runTxs genEnv b.txs s2 [] []).1]]
  simp only [he]

def QuietRun3 : List Block → App → CSet → Prop
  | [], _, _ => True
  | b :: bs, s, c => QuietBlock3 s c b ∧
      ∀ o s' c', block genEnv s b = .ok (o, s') → Comet.applyChangeSet c o.updates = .ok c' → QuietRun3 bs s' c'

theorem quiet_run3 (bs : List Block) : ∀ (s : App) (c : CSet), G2 s c → QuietRun3 bs s c →
    (runFrom genEnv s c bs).2 = .done ∧ (runFrom genEnv s c bs).1.length = bs.length ∧
    ∀ st ∈ (runFrom genEnv s c bs).1, Agree st.comet st.app ∧ G2 st.app st.comet := by
  induction bs with
  | nil => intro s c _ _; simp [runFrom]
  | cons b bs ih =>
    intro s c g q
    obtain ⟨o, s', c', hb, hc, hag, g'⟩ := block_G2_gov s c b g q.1
    have ih' := ih s' c' g' (q.2 o s' c' hb hc)
    unfold runFrom
    simp only [hb, hc]
    refine ⟨ih'.1, by simp [ih'.2.1], ?_⟩
    intro st hst
    rcases List.mem_cons.mp hst with e | e
    · rw [e]; exact ⟨hag, g'⟩
    · exact ih'.2.2 st e

theorem quietRun3_of_2 : ∀ (bs : List Block) (s : App) (c : CSet), QuietRun2 bs s c → QuietRun3 bs s c
  | [], _, _, _ => trivial
  | b :: bs, s, c, q => ⟨QuietBlock3.of2 s c b q.1, fun o s' c' hb hc => quietRun3_of_2 bs s' c' (q.2 o s' c' hb hc)⟩

def QuietHistory3 (g : Genesis) (bs : List Block) : Prop :=
  ∀ u s c, App.initChain g = .ok (u, s) → Comet.applyChangeSet [] u = .ok c → QuietRun3 bs s c

/-- **the envelope theorem, removals, punishments and governance included** -/
theorem quiet_history3 (g : Genesis) (hw : g.wf = true) (bs : List Block) (hq : QuietHistory3 g bs) :
    ∃ first steps, run genEnv g bs = some (first, steps, RunEnd.done) ∧ steps.length = bs.length ∧
      Agree first.comet first.app ∧ G2 first.app first.comet ∧ ∀ st ∈ steps, Agree st.comet st.app ∧ G2 st.app st.comet := by
  obtain ⟨u, s, c, hi, hc, hag, hg⟩ := genesis_G2 g hw
  obtain ⟨h1, h2, h3⟩ := quiet_run3 bs s c hg (hq u s c hi hc)
  refine ⟨⟨⟨[], u⟩, s, c⟩, (runFrom genEnv s c bs).1, ?_, h2, hag, hg, h3⟩
  unfold run
  rw [hi]
  simp only [hc]
  rw [← h1]

/-! ### the decidable forms evaluated by the driver -/

theorem quietMsg1_of_B (s : App) (sg : Signer) (m : Msg) (h : quietMsg1B s sg m = true) : QuietMsg1 s sg m := by
  unfold quietMsg1B at h
  split at h
  · rename_i op p u
    right; left
    refine ⟨op, p, u, rfl, rfl, ?_⟩
    intro hok hnone
    simp only [hok, Bool.not_true, hnone, Option.isSome_none, Bool.false_or, Bool.and_eq_true, Bool.not_eq_true'] at h
    refine ⟨?_, ?_, ?_⟩
    · intro v hv
      have := h.1.1
      rw [hv] at this
      simp only [Bool.and_eq_true, decide_eq_true_eq, Bool.not_eq_true'] at this
      exact this
    · intro hm2; have := h.1.2; simp [hm2] at this
    · intro hm2; have := h.2; simp [hm2] at this
  · rename_i op
    right; right; left
    refine ⟨op, rfl, ?_⟩
    intro hok
    simp only [hok, Bool.not_true, Bool.false_or] at h
    cases hv : s.getVal op with
    | none => rw [hv] at h; cases h
    | some v =>
      rw [hv] at h
      simp only [Bool.and_eq_true, decide_eq_true_eq, Bool.not_eq_true'] at h
      refine ⟨v, rfl, h.1.1.1, h.1.1.2, ?_, ?_⟩
      · intro hm2; have := h.1.2; simp [hm2] at this
      · have := h.2; simpa using this
  · rename_i a
    right; right; right; left; exact ⟨a, rfl⟩
  · rename_i tg
    right; right; right; right; left; exact ⟨tg, rfl⟩
  · rename_i pa
    right; right; right; right; right; exact ⟨pa, rfl⟩
  · rename_i hrm _ _ _ hsp
    left
    refine ⟨?_, fun op hm => hrm op hm, fun hs op p u hm => hsp op p u hs hm⟩
    intro s' hs'
    rw [hs'] at h
    simpa using h

theorem quietMsgList_of_B : ∀ (ms : List Msg) (s : App) (sg : Signer), quietMsgListB s sg ms = true → QuietMsgList s sg ms
  | [], _, _, _ => trivial
  | m :: rest, s, sg, h => by
    simp only [quietMsgListB, Bool.and_eq_true] at h
    refine ⟨quietMsg1_of_B s sg m h.1, ?_⟩
    intro s' hs'
    have := h.2
    rw [hs'] at this
    exact quietMsgList_of_B rest s' sg this

theorem quietMsgs2_of_B (s : App) (sg : Signer) (ms : List Msg) (h : quietMsgs2B s sg ms = true) : QuietMsgs2 s sg ms := by
  unfold quietMsgs2B at h
  intro hok
  simp only [hok, Bool.not_true, Bool.false_or] at h
  exact quietMsgList_of_B ms s sg h

theorem quietTx3_of_B (s : App) (incs : List (Signer × Nat)) (tx : Tx) (h : quietTx3B s incs tx = true) : QuietTx3 s incs tx := by
  unfold quietTx3B at h
  simp only [Bool.or_eq_true, bne_iff_ne, ne_eq] at h
  rcases h with (h | h) | h
  · exact Or.inl (quietTx2_of_B s incs tx h)
  · exact Or.inr (Or.inl h)
  · exact Or.inr (Or.inr (quietMsgList_of_B _ _ _ h))

theorem quietTxs3_of_B : ∀ (txs : List Tx) (s : App) (incs : List (Signer × Nat)), quietTxs3B txs s incs = true → QuietTxs3 txs s incs
  | [], _, _, _ => trivial
  | tx :: rest, s, incs, h => by
    simp only [quietTxs3B, Bool.and_eq_true] at h
    exact ⟨quietTx3_of_B s incs tx h.1, quietTxs3_of_B rest _ _ h.2⟩

theorem quietGov2_of_B (sg : Signer) : ∀ (gov : List (List Msg)) (s : App), quietGov2B sg gov s = true → QuietGov2 sg gov s
  | [], _, _ => trivial
  | ms :: rest, s, h => by
    simp only [quietGov2B, Bool.and_eq_true] at h
    exact ⟨quietMsgs2_of_B s sg ms h.1, quietGov2_of_B sg rest _ h.2⟩

theorem quietBlock3_of_B (s : App) (c : CSet) (b : Block) (h : quietBlock3B s c b = true) : QuietBlock3 s c b := by
  unfold quietBlock3B at h
  simp only [Bool.and_eq_true] at h
  obtain ⟨hp, ht⟩ := h
  refine { begin_ := ?_, txs := ?_, gov := ?_, fits := ?_ }
  · cases hps : punishState s b with
    | error e => rw [hps] at hp; cases hp
    | ok s1 => rw [hps] at hp; exact ⟨s1, rfl, punShape_of_B _ _ hp⟩
  · intro s2 hb
    rw [hb] at ht
    simp only [Bool.and_eq_true] at ht
    exact quietTxs3_of_B _ _ _ ht.1.1
  · intro s2 hb
    rw [hb] at ht
    simp only [Bool.and_eq_true] at ht
    exact quietGov2_of_B _ _ _ ht.1.2
  · intro s2 hb
    rw [hb] at ht
    simp only [Bool.and_eq_true] at ht
    exact fits2_of_B _ _ ht.2

theorem quietRun3_of_B : ∀ (bs : List Block) (s : App) (c : CSet), quietRun3B bs s c = true → QuietRun3 bs s c
  | [], _, _, _ => trivial
  | b :: bs, s, c, h => by
    simp only [quietRun3B, Bool.and_eq_true] at h
    refine ⟨quietBlock3_of_B s c b h.1, ?_⟩
    intro o s' c' hb hc
    have := h.2
    rw [hb] at this
    simp only [hc] at this
    exact quietRun3_of_B bs s' c' this

end App
end PoaVerif
