import PoaVerif.Lemmas.Quiet2.Remove
/-
  Transactions, blocks and histories of the wider quiet class: applications, their removal, admissions, power
  adjustments, parameter updates **and removals of validators** (with the unbonding and the deletion of the removed
  records by later EndBlockers), from every well-formed genesis.
-/
namespace PoaVerif
namespace App

/-- the power-adjustment world is the special case without `Gone` and `Unb` records -/
theorem G2_of_G (s : App) (c : CSet) (g : G s c) : G2 s c := by
  have m := g.toM
  have hact : ∀ v ∈ s.vals, Active v := fun v hv => m.live v hv
  exact {
    st := {
      sorted := m.sorted, keys := m.keys
      cls := (fun v hv => Or.inl (hact v hv))
      hasActive := (by
        cases hvs : s.vals with
        | nil => exact absurd hvs m.nonempty
        | cons x xs => exact ⟨x, by simp, hact x (by rw [hvs]; simp)⟩)
      pend := ⟨m.pend.ops, m.pend.keys, m.pend.fresh⟩
      last := (by
        intro v hv _
        rw [m.last v.op v (mem_vals_getVal s m.sorted v hv), lastOf_active v (hact v hv)])
      lastJ := (by intro v hv hj; rw [(hact v hv).2.1] at hj; cases hj)
      lastOnly := m.lastOnly, lastSorted := m.lastSorted, idxEx := m.idxEx, idxNodup := m.idxNodup
      idx := (by
        intro v hv
        exact {
          a1 := (fun _ hnu => m.occ1 v hv hnu)
          a2 := (fun hin => by
            obtain ⟨w, hw, hwm⟩ := m.updCur v.op hin
            have hg := mem_vals_getVal s m.sorted v hv
            rw [hg] at hw; injection hw with hw
            rw [← hw] at hwm
            exact ⟨hact v hv, m.occ2 v hv hin, hwm⟩)
          g := (fun hg => absurd hg (active_not_gone v (hact v hv)))
          u := (fun hu => absurd hu (active_not_unb v (hact v hv)))
          j := (fun hj => by rw [(hact v hv).2.1] at hj; cases hj) })
      unbond := m.unbond, infos := m.infos, cons := m.cons, updSorted := m.updSorted
      updEx := (by
        intro op hop
        obtain ⟨w, hw, _⟩ := m.updCur op hop
        rw [hw]; rfl)
      qSorted := (by rw [m.ubq]; exact List.Pairwise.nil)
      qNodup := (by rw [m.ubq]; simp)
      qRecs := (by intro e he; rw [m.ubq] at he; simp at he) }
    cm := {
      cur := (fun v hv _ hnu => m.cometCur v hv hnu)
      gone := (fun v hv hg => absurd hg (active_not_gone v (hact v hv)))
      jb := (fun v hv hj _ => by rw [(hact v hv).2.1] at hj; cases hj)
      known := (by
        intro k p hkp
        obtain ⟨v, hv, hk⟩ := m.cometKnown k p hkp
        exact ⟨v, hv, hk, (hact v hv).1⟩)
      cSorted := m.cSorted, cNonneg := m.cNonneg }
    allCur := (fun v hv _ => g.allCur v hv)
    noLeaving := (fun v hv hl => by
      rcases hl with hg | ⟨hj, _⟩
      · exact active_not_gone v (hact v hv) hg
      · exact active_not_jl v (hact v hv) hj)
    totalOk := g.totalOk }

/-- InitChain of every well-formed genesis ends in `G2` -/
theorem genesis_G2 (g : Genesis) (hw : g.wf = true) :
    ∃ u s c, App.initChain g = .ok (u, s) ∧ Comet.applyChangeSet [] u = .ok c ∧ Agree c s ∧ G2 s c := by
  obtain ⟨u, s, c, h1, h2, h3, h4⟩ := genesis_G g hw
  exact ⟨u, s, c, h1, h2, h3, G2_of_G s c h4⟩

/-- a transaction of the wider quiet class: it leaves the state as it was, or it is the admin's single SetPower (which,
    if it succeeds on an existing validator, addresses a live one not re-weighted in this block, at a power where it
    owns no index entry), a single RemoveValidator (which, if it succeeds, addresses a live validator not re-weighted in
    this block whose index entry sits at its current power), a CreateValidator, a RemovePending or an UpdateStakingParams -/
def QuietTx2 (s : App) (incs : List (Signer × Nat)) (tx : Tx) : Prop :=
  ((runTx genEnv s incs tx).2.1 = s ∧ (∀ op, tx.msgs ≠ [.remove (some op)]) ∧
    (tx.signer = .admin → ∀ op p u, tx.msgs ≠ [.setPower (some op) p u])) ∨
  (∃ op p u, tx.signer = .admin ∧ tx.msgs = [.setPower (some op) p u] ∧
    ((runTx genEnv s incs tx).1 = .ok → s.pendingFind op = none →
      (∀ v, s.getVal op = some v → powerOf v.tokens > 0 ∧ v.jailed = false) ∧ op ∉ s.updated ∧ (p / PR, op) ∉ s.index)) ∨
  (∃ op, tx.msgs = [.remove (some op)] ∧
    ((runTx genEnv s incs tx).1 = .ok →
      ∃ v, s.getVal op = some v ∧ powerOf v.tokens > 0 ∧ v.jailed = false ∧ op ∉ s.updated ∧ (powerOf v.tokens, op) ∈ s.index)) ∨
  (∃ a, tx.msgs = [.create a]) ∨ (∃ t, tx.msgs = [.rmPending t]) ∨ (∃ pa, tx.msgs = [.params pa])

theorem M2_setPower (s s' : App) (c : CSet) (op p : Nat) (u : Bool) (m : M2 s c)
    (h : setPowerMsg genLimitFacts s .admin (some op) p u = .ok s')
    (hq : s.pendingFind op = none → (∀ v, s.getVal op = some v → powerOf v.tokens > 0 ∧ v.jailed = false) ∧ op ∉ s.updated ∧ (p / PR, op) ∉ s.index) :
    M2 s' c := by
  cases hf : s.pendingFind op with
  | none => exact M2_setPower_existing s s' c op p u m h hf (hq hf).1 (hq hf).2.1 (hq hf).2.2
  | some q => exact M2_setPower_admit s s' c op p u m q h hf

theorem removeMsg_core (s s' : App) (sg : Signer) (op : Nat) (h : s.removeMsg sg (some op) = .ok s') :
    s.removeCore (some op) = .ok s' := by
  unfold removeMsg at h
  split at h
  · exact h
  · simp only at h
    split at h
    · exact h
    · cases h

theorem runTx_M2 (s : App) (c : CSet) (incs : List (Signer × Nat)) (tx : Tx) (m : M2 s c) (q : QuietTx2 s incs tx) :
    M2 (runTx genEnv s incs tx).2.1 c := by
  rcases q with ⟨hsame, _, _⟩ | ⟨op, p, u, hsg, hmsgs, hq⟩ | ⟨op, hmsgs, hq⟩ | ⟨a, hmsgs⟩ | ⟨tg, hmsgs⟩ | ⟨pa, hmsgs⟩
  · rw [hsame]; exact m
  · unfold runTx at hq ⊢
    split
    · exact m
    · rename_i hseq
      simp only [hseq, ↓reduceIte] at hq
      cases ha : Ante.run genEnv.ante genEnv.limiter s.height tx.msgs with
      | some e => simp only; exact m
      | none =>
        simp only [ha] at hq ⊢
        rw [hmsgs, hsg] at hq ⊢
        have hlim : genEnv.lim = genLimitFacts := rfl
        simp only [handleList, handle, hlim] at hq ⊢
        cases hr : setPowerMsg genLimitFacts s Signer.admin (some op) p u with
        | error e => simp only [liftE]; exact m
        | ok s' =>
          simp only [hr, liftE] at hq ⊢
          exact M2_setPower s s' c op p u m hr (hq trivial)
  · unfold runTx at hq ⊢
    split
    · exact m
    · rename_i hseq
      simp only [hseq, ↓reduceIte] at hq
      cases ha : Ante.run genEnv.ante genEnv.limiter s.height tx.msgs with
      | some e => simp only; exact m
      | none =>
        simp only [ha] at hq ⊢
        rw [hmsgs] at hq ⊢
        simp only [handleList, handle] at hq ⊢
        cases hr : s.removeMsg tx.signer (some op) with
        | error e => simp only [liftE]; exact m
        | ok s' =>
          simp only [hr, liftE] at hq ⊢
          obtain ⟨v, hv, hpos, hnj, hd3, hidx⟩ := hq trivial
          exact M2_remove s s' c op v m (removeMsg_core s s' tx.signer op hr) hv hpos hnj hd3 hidx
  · unfold runTx
    split
    · exact m
    · cases ha : Ante.run genEnv.ante genEnv.limiter s.height tx.msgs with
      | some e => simp only; exact m
      | none =>
        simp only
        rw [hmsgs]
        simp only [handleList, handle]
        cases hr : s.createMsg tx.signer a with
        | error e => simp only [liftE]; exact m
        | ok s' => simp only [liftE]; exact M2_create s s' c tx.signer a m hr
  · unfold runTx
    split
    · exact m
    · cases ha : Ante.run genEnv.ante genEnv.limiter s.height tx.msgs with
      | some e => simp only; exact m
      | none =>
        simp only
        rw [hmsgs]
        simp only [handleList, handle]
        cases hr : s.rmPendingMsg tx.signer tg with
        | error e => simp only [liftE]; exact m
        | ok s' => simp only [liftE]; exact M2_rmPending s s' c tx.signer tg m hr
  · unfold runTx
    split
    · exact m
    · cases ha : Ante.run genEnv.ante genEnv.limiter s.height tx.msgs with
      | some e => simp only; exact m
      | none =>
        simp only
        rw [hmsgs]
        simp only [handleList, handle]
        cases hr : s.paramsMsg tx.signer pa with
        | error e => simp only [liftE]; exact m
        | ok s' => simp only [liftE]; exact M2_params s s' c tx.signer pa m hr

def QuietTxs2 : List Tx → App → List (Signer × Nat) → Prop
  | [], _, _ => True
  | tx :: rest, s, incs => QuietTx2 s incs tx ∧ QuietTxs2 rest (runTx genEnv s incs tx).2.1 (runTx genEnv s incs tx).2.2

theorem runTxs_M2 (c : CSet) : ∀ (txs : List Tx) (s : App) (incs : List (Signer × Nat)) (acc : List TxR),
    M2 s c → QuietTxs2 txs s incs → M2 (runTxs genEnv txs s incs acc).2 c
  | [], s, _, _, m, _ => by simpa [runTxs] using m
  | tx :: rest, s, incs, acc, m, q => by
    unfold runTxs
    exact runTxs_M2 c rest _ _ _ (runTx_M2 s c incs tx m q.1) q.2

/-- a block of the wider quiet class -/
structure QuietBlock2 (s : App) (c : CSet) (b : Block) : Prop where
  /-- x/slashing's and x/evidence's BeginBlockers: whoever they punish was a live validator not re-weighted in the last
      block, and they leave the state in the shape `PunShape` (nobody punished is the special case) -/
  begin_ : ∃ s1, punishState s b = .ok s1 ∧ PunShape { s with height := s.height + 1, time := s.time + b.dt } s1
  noGov : b.gov = []
  txs : ∀ s2, beginState genEnv s b = .ok s2 → QuietTxs2 b.txs s2 []
  fits : ∀ s2, beginState genEnv s b = .ok s2 → Fits2 (runTxs genEnv b.txs s2 [] []).2 c

/-- **one quiet block takes `G2` to `G2`**: it does not halt, CometBFT accepts its updates, the sets agree -/
theorem beginState_of_punish (s s1 : App) (b : Block) (h : punishState s b = .ok s1) :
    beginState genEnv s b = poaBegin genEnv.lim s1 := by
  unfold punishState at h
  unfold beginState
  cases hs : slashingBegin b.votes { s with height := s.height + 1, time := s.time + b.dt } with
  | error e => rw [hs] at h; cases h
  | ok sa =>
    rw [hs] at h
    simp only at h ⊢
    rw [h]

/-- the state after the three BeginBlockers of a quiet block, with `M2` -/
theorem begin_M2 (s : App) (c : CSet) (b : Block) (g : G2 s c) (q : QuietBlock2 s c b) :
    ∃ s2, beginState genEnv s b = .ok s2 ∧ M2 s2 c ∧
      ∀ v ∈ s.vals, ∃ w, s2.getVal v.op = some w ∧ w.key = v.key ∧ (w = v ∨ (Active v ∧ Jl w ∧ w.status = .bonded)) := by
  obtain ⟨s1, hp, sh⟩ := q.begin_
  have g0 : B2 { s with height := s.height + 1, time := s.time + b.dt } c :=
    B2_frame s c (B2_of_G2 s c g) s.infos s.bitmap (s.height + 1) (s.time + b.dt) g.st.infos
  have g1 : B2 s1 c := punish_B2 _ s1 c g0 g.noLeaving sh
  obtain ⟨s2, hpb, g2, _, hvals2, _, _⟩ := poaBegin_G2 genEnv.lim s1 c g1
  refine ⟨s2, by rw [beginState_of_punish s s1 b hp]; exact hpb, g2.toM2, ?_⟩
  intro v hv
  obtain ⟨w, hw, hk, hcase⟩ := sh.recs v hv
  refine ⟨w, by rw [getVal_congr s2 s1 hvals2]; exact hw, hk, ?_⟩
  rcases hcase with e | ⟨ha, _, h1, h2, h3⟩
  · exact Or.inl e
  · exact Or.inr ⟨ha, ⟨h1, h2⟩, h3⟩

theorem block_G2 (s : App) (c : CSet) (b : Block) (g : G2 s c) (q : QuietBlock2 s c b) :
    ∃ o s' c', block genEnv s b = .ok (o, s') ∧ Comet.applyChangeSet c o.updates = .ok c' ∧ Agree c' s' ∧ G2 s' c' := by
  obtain ⟨s2, hbegin, g2, _⟩ := begin_M2 s c b g q
  have m3 := runTxs_M2 c b.txs s2 [] [] g2 (q.txs s2 hbegin)
  have f3 := q.fits s2 hbegin
  obtain ⟨ups, s4, c', he, hc, hag, g4, _⟩ := endBlock_G2 _ c m3 f3
  refine ⟨⟨(runTxs genEnv b.txs s2 [] []).1, ups⟩, s4, c', ?_, hc, hag, g4⟩
  unfold block
  rw [beforeEnd_eq _ _ _ q.noGov, hbegin]
  simp only [he]

def QuietRun2 : List Block → App → CSet → Prop
  | [], _, _ => True
  | b :: bs, s, c => QuietBlock2 s c b ∧
      ∀ o s' c', block genEnv s b = .ok (o, s') → Comet.applyChangeSet c o.updates = .ok c' → QuietRun2 bs s' c'

theorem quiet_run2 (bs : List Block) : ∀ (s : App) (c : CSet), G2 s c → QuietRun2 bs s c →
    (runFrom genEnv s c bs).2 = .done ∧ (runFrom genEnv s c bs).1.length = bs.length ∧
    ∀ st ∈ (runFrom genEnv s c bs).1, Agree st.comet st.app ∧ G2 st.app st.comet := by
  induction bs with
  | nil => intro s c _ _; simp [runFrom]
  | cons b bs ih =>
    intro s c g q
    obtain ⟨o, s', c', hb, hc, hag, g'⟩ := block_G2 s c b g q.1
    have ih' := ih s' c' g' (q.2 o s' c' hb hc)
    unfold runFrom
    simp only [hb, hc]
    refine ⟨ih'.1, by simp [ih'.2.1], ?_⟩
    intro st hst
    rcases List.mem_cons.mp hst with e | e
    · rw [e]; exact ⟨hag, g'⟩
    · exact ih'.2.2 st e

def QuietHistory2 (g : Genesis) (bs : List Block) : Prop :=
  ∀ u s c, App.initChain g = .ok (u, s) → Comet.applyChangeSet [] u = .ok c → QuietRun2 bs s c

/-- **the envelope theorem, removals included** -/
theorem quiet_history2 (g : Genesis) (hw : g.wf = true) (bs : List Block) (hq : QuietHistory2 g bs) :
    ∃ first steps, run genEnv g bs = some (first, steps, RunEnd.done) ∧ steps.length = bs.length ∧
      Agree first.comet first.app ∧ G2 first.app first.comet ∧ ∀ st ∈ steps, Agree st.comet st.app ∧ G2 st.app st.comet := by
  obtain ⟨u, s, c, hi, hc, hag, hg⟩ := genesis_G2 g hw
  obtain ⟨h1, h2, h3⟩ := quiet_run2 bs s c hg (hq u s c hi hc)
  refine ⟨⟨⟨[], u⟩, s, c⟩, (runFrom genEnv s c bs).1, ?_, h2, hag, hg, h3⟩
  unfold run
  rw [hi]
  simp only [hc]
  rw [← h1]

/-! ### the decidable forms evaluated by the driver -/

theorem fits2_of_B (s : App) (c : CSet) (h : fits2B s c = true) : Fits2 s c := by
  unfold fits2B at h
  simp only [Bool.and_eq_true, decide_eq_true_eq] at h
  exact ⟨h.1.1.1.1.1.1, h.1.1.1.1.1.2, h.1.1.1.1.2, ⟨h.1.1.1.2, h.1.1.2⟩, h.1.2, h.2⟩

theorem quietTx2_of_B (s : App) (incs : List (Signer × Nat)) (tx : Tx) (h : quietTx2B s incs tx = true) : QuietTx2 s incs tx := by
  unfold quietTx2B at h
  split at h
  · rename_i op p u hs hm
    right; left
    refine ⟨op, p, u, hs, hm, ?_⟩
    intro hok hnone
    simp only [hok, bne_self_eq_false, hnone, Option.isSome_none, Bool.false_or, Bool.and_eq_true, Bool.not_eq_true'] at h
    refine ⟨?_, ?_, ?_⟩
    · intro v hv
      have := h.1.1
      rw [hv] at this
      simp only [Bool.and_eq_true, decide_eq_true_eq, Bool.not_eq_true'] at this
      exact this
    · intro hm2; have := h.1.2; simp [hm2] at this
    · intro hm2; have := h.2; simp [hm2] at this
  · rename_i op hm
    right; right; left
    refine ⟨op, hm, ?_⟩
    intro hok
    simp only [hok, bne_self_eq_false, Bool.false_or] at h
    cases hv : s.getVal op with
    | none => rw [hv] at h; cases h
    | some v =>
      rw [hv] at h
      simp only [Bool.and_eq_true, decide_eq_true_eq, Bool.not_eq_true'] at h
      refine ⟨v, rfl, h.1.1.1, h.1.1.2, ?_, ?_⟩
      · intro hm2; have := h.1.2; simp [hm2] at this
      · have := h.2; simpa using this
  · rename_i a hm
    right; right; right; left; exact ⟨a, hm⟩
  · rename_i tg hm
    right; right; right; right; left; exact ⟨tg, hm⟩
  · rename_i pa hm
    right; right; right; right; right; exact ⟨pa, hm⟩
  · rename_i hrm _ _ _ hsp
    left
    exact ⟨by simpa using h, fun op hm => hrm op hm, fun hs op p u hm => hsp op p u hs hm⟩

theorem quietTxs2_of_B : ∀ (txs : List Tx) (s : App) (incs : List (Signer × Nat)), quietTxs2B txs s incs = true → QuietTxs2 txs s incs
  | [], _, _, _ => trivial
  | tx :: rest, s, incs, h => by
    simp only [quietTxs2B, Bool.and_eq_true] at h
    exact ⟨quietTx2_of_B s incs tx h.1, quietTxs2_of_B rest _ _ h.2⟩

theorem active_of_B (v : Val) (h : isActiveB v = true) : Active v := by
  unfold isActiveB at h
  simp only [Bool.and_eq_true, beq_iff_eq, Bool.not_eq_true', decide_eq_true_eq] at h
  exact ⟨h.1.1.1, h.1.1.2, h.1.2, h.2⟩

theorem punShape_of_B (s0 s1 : App) (h : punShapeB s0 s1 = true) : PunShape s0 s1 := by
  unfold punShapeB at h
  simp only [Bool.and_eq_true, decide_eq_true_eq] at h
  obtain ⟨⟨⟨⟨⟨⟨⟨⟨⟨⟨⟨⟨⟨⟨⟨h1, h2⟩, h3⟩, h4⟩, h5⟩, h6⟩, h7⟩, h8⟩, h9⟩, h10⟩, h11⟩, h12⟩, h13⟩, h14⟩, h15⟩, h16⟩ := h
  refine {
    ops := h1
    recs := ?_
    stays := ?_
    last := h4, ubq := h5, cons := h6, pending := h7, updated := h8, unbond := h9, lastTotal := h10
    idxSub := ?_
    idxNodup := h12
    idxOcc := ?_
    idxKeep := ?_
    idxJ := ?_
    infos := ?_ }
  · intro v hv
    have := List.all_eq_true.mp h2 v hv
    cases hw : s1.getVal v.op with
    | none => rw [hw] at this; cases this
    | some w =>
      rw [hw] at this
      simp only [Bool.and_eq_true, decide_eq_true_eq, Bool.or_eq_true, Bool.not_eq_true', beq_iff_eq] at this
      refine ⟨w, rfl, this.1, ?_⟩
      rcases this.2 with e | e
      · exact Or.inl e
      · refine Or.inr ⟨active_of_B v e.1.1.1.1, ?_, e.1.1.2, e.1.2, e.2⟩
        intro hm
        have := e.1.1.1.2
        simp [hm] at this
  · obtain ⟨v, hv, hvc⟩ := List.any_eq_true.mp h3
    simp only [Bool.and_eq_true, decide_eq_true_eq] at hvc
    exact ⟨v, hv, active_of_B v hvc.1, hvc.2⟩
  · intro e he
    have := List.all_eq_true.mp h11 e he
    simpa using this
  · intro v hv hs
    have := List.all_eq_true.mp h13 v hv
    simp only [hs, ↓reduceIte, decide_eq_true_eq] at this
    exact this
  · intro e he hs
    have := List.all_eq_true.mp h14 e he
    simp only [hs, ↓reduceIte] at this
    simpa using this
  · intro w hw hj
    have := List.all_eq_true.mp h15 w hw
    simp only [hj, Bool.not_true, Bool.false_or, decide_eq_true_eq] at this
    exact this
  · intro w hw
    exact List.all_eq_true.mp h16 w hw

theorem quietBlock2_of_B (s : App) (c : CSet) (b : Block) (h : quietBlock2B s c b = true) : QuietBlock2 s c b := by
  unfold quietBlock2B at h
  simp only [Bool.and_eq_true] at h
  obtain ⟨⟨hv, hgv⟩, hm⟩ := h
  refine ⟨?_, by simpa using hgv, ?_, ?_⟩
  · cases hp : punishState s b with
    | error e => rw [hp] at hv; cases hv
    | ok s1 =>
      rw [hp] at hv
      exact ⟨s1, rfl, punShape_of_B _ _ hv⟩
  · intro s2 hs2
    rw [hs2] at hm
    simp only [Bool.and_eq_true] at hm
    exact quietTxs2_of_B _ _ _ hm.1
  · intro s2 hs2
    rw [hs2] at hm
    simp only [Bool.and_eq_true] at hm
    exact fits2_of_B _ _ hm.2

theorem quietRun2_of_B : ∀ (bs : List Block) (s : App) (c : CSet), quietRun2B bs s c = true → QuietRun2 bs s c
  | [], _, _, _ => trivial
  | b :: bs, s, c, h => by
    simp only [quietRun2B, Bool.and_eq_true] at h
    refine ⟨quietBlock2_of_B s c b h.1, ?_⟩
    intro o s' c' hb hc
    have := h.2
    rw [hb] at this
    simp only [hc] at this
    exact quietRun2_of_B bs s' c' this

end App
end PoaVerif
