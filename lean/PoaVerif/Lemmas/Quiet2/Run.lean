import PoaVerif.Lemmas.Quiet2.Remove
/-
  Transactions, blocks and histories of the wider quiet class: applications, their removal, admissions, power
  adjustments, parameter updates **and removals of validators** (with the unbonding and the deletion of the removed
  records by later EndBlockers), from every well-formed genesis.
-/
namespace PoaVerif
namespace App

/-- the power-adjustment world is the special case without `Gone` and `Unb` records -/
theorem G2_of_G (s : App) (c : CSet) (g : G s c) : G2 s c := by
  have m := g.toM
  have hact : ∀ v ∈ s.vals, Active v := fun v hv => m.live v hv
  exact {
    st := {
      sorted := m.sorted, keys := m.keys
      cls := (fun v hv => Or.inl (hact v hv))
      hasActive := (by
        cases hvs : s.vals with
        | nil => exact absurd hvs m.nonempty
        | cons x xs => exact ⟨x, by simp, hact x (by rw [hvs]; simp)⟩)
      pend := ⟨m.pend.ops, m.pend.keys, m.pend.fresh⟩
      last := (by
        intro v hv
        rw [m.last v.op v (mem_vals_getVal s m.sorted v hv), lastOf_active v (hact v hv)])
      lastOnly := m.lastOnly, lastSorted := m.lastSorted, idxEx := m.idxEx, idxNodup := m.idxNodup
      idx := (by
        intro v hv
        exact {
          a1 := (fun _ hnu => m.occ1 v hv hnu)
          a2 := (fun hin => by
            obtain ⟨w, hw, hwm⟩ := m.updCur v.op hin
            have hg := mem_vals_getVal s m.sorted v hv
            rw [hg] at hw; injection hw with hw
            rw [← hw] at hwm
            exact ⟨hact v hv, m.occ2 v hv hin, hwm⟩)
          g := (fun hg => absurd hg (active_not_gone v (hact v hv)))
          u := (fun hu => absurd hu (active_not_unb v (hact v hv))) })
      unbond := m.unbond, infos := m.infos, cons := m.cons, updSorted := m.updSorted
      updEx := (by
        intro op hop
        obtain ⟨w, hw, _⟩ := m.updCur op hop
        rw [hw]; rfl)
      qSorted := (by rw [m.ubq]; exact List.Pairwise.nil)
      qNodup := (by rw [m.ubq]; simp)
      qRecs := (by intro e he; rw [m.ubq] at he; simp at he) }
    cm := {
      cur := (fun v hv _ hnu => m.cometCur v hv hnu)
      gone := (fun v hv hg => absurd hg (active_not_gone v (hact v hv)))
      known := (by
        intro k p hkp
        obtain ⟨v, hv, hk⟩ := m.cometKnown k p hkp
        exact ⟨v, hv, hk, (hact v hv).1⟩)
      cSorted := m.cSorted, cNonneg := m.cNonneg }
    allCur := (fun v hv _ => g.allCur v hv)
    noGone := (fun v hv hg => absurd hg (active_not_gone v (hact v hv)))
    totalOk := g.totalOk }

/-- InitChain of every well-formed genesis ends in `G2` -/
theorem genesis_G2 (g : Genesis) (hw : g.wf = true) :
    ∃ u s c, App.initChain g = .ok (u, s) ∧ Comet.applyChangeSet [] u = .ok c ∧ Agree c s ∧ G2 s c := by
  obtain ⟨u, s, c, h1, h2, h3, h4⟩ := genesis_G g hw
  exact ⟨u, s, c, h1, h2, h3, G2_of_G s c h4⟩

/-- a transaction of the wider quiet class: it leaves the state as it was, or it is the admin's single SetPower (which,
    if it succeeds on an existing validator, addresses a live one not re-weighted in this block, at a power where it
    owns no index entry), a single RemoveValidator (which, if it succeeds, addresses a live validator not re-weighted in
    this block whose index entry sits at its current power), a CreateValidator, a RemovePending or an UpdateStakingParams -/
def QuietTx2 (s : App) (incs : List (Signer × Nat)) (tx : Tx) : Prop :=
  (runTx genEnv s incs tx).2.1 = s ∨
  (∃ op p u, tx.signer = .admin ∧ tx.msgs = [.setPower (some op) p u] ∧
    ((runTx genEnv s incs tx).1 = .ok → s.pendingFind op = none →
      (∀ v, s.getVal op = some v → powerOf v.tokens > 0) ∧ op ∉ s.updated ∧ (p / PR, op) ∉ s.index)) ∨
  (∃ op, tx.msgs = [.remove (some op)] ∧
    ((runTx genEnv s incs tx).1 = .ok →
      ∃ v, s.getVal op = some v ∧ powerOf v.tokens > 0 ∧ op ∉ s.updated ∧ (powerOf v.tokens, op) ∈ s.index)) ∨
  (∃ a, tx.msgs = [.create a]) ∨ (∃ t, tx.msgs = [.rmPending t]) ∨ (∃ pa, tx.msgs = [.params pa])

theorem M2_setPower (s s' : App) (c : CSet) (op p : Nat) (u : Bool) (m : M2 s c)
    (h : setPowerMsg genLimitFacts s .admin (some op) p u = .ok s')
    (hq : s.pendingFind op = none → (∀ v, s.getVal op = some v → powerOf v.tokens > 0) ∧ op ∉ s.updated ∧ (p / PR, op) ∉ s.index) :
    M2 s' c := by
  cases hf : s.pendingFind op with
  | none => exact M2_setPower_existing s s' c op p u m h hf (hq hf).1 (hq hf).2.1 (hq hf).2.2
  | some q => exact M2_setPower_admit s s' c op p u m q h hf

theorem removeMsg_core (s s' : App) (sg : Signer) (op : Nat) (h : s.removeMsg sg (some op) = .ok s') :
    s.removeCore (some op) = .ok s' := by
  unfold removeMsg at h
  split at h
  · exact h
  · simp only at h
    split at h
    · exact h
    · cases h

theorem runTx_M2 (s : App) (c : CSet) (incs : List (Signer × Nat)) (tx : Tx) (m : M2 s c) (q : QuietTx2 s incs tx) :
    M2 (runTx genEnv s incs tx).2.1 c := by
  rcases q with hsame | ⟨op, p, u, hsg, hmsgs, hq⟩ | ⟨op, hmsgs, hq⟩ | ⟨a, hmsgs⟩ | ⟨tg, hmsgs⟩ | ⟨pa, hmsgs⟩
  · rw [hsame]; exact m
  · unfold runTx at hq ⊢
    split
    · exact m
    · rename_i hseq
      simp only [hseq, ↓reduceIte] at hq
      cases ha : Ante.run genEnv.ante genEnv.limiter s.height tx.msgs with
      | some e => simp only; exact m
      | none =>
        simp only [ha] at hq ⊢
        rw [hmsgs, hsg] at hq ⊢
        have hlim : genEnv.lim = genLimitFacts := rfl
        simp only [handleList, handle, hlim] at hq ⊢
        cases hr : setPowerMsg genLimitFacts s Signer.admin (some op) p u with
        | error e => simp only [liftE]; exact m
        | ok s' =>
          simp only [hr, liftE] at hq ⊢
          exact M2_setPower s s' c op p u m hr (hq trivial)
  · unfold runTx at hq ⊢
    split
    · exact m
    · rename_i hseq
      simp only [hseq, ↓reduceIte] at hq
      cases ha : Ante.run genEnv.ante genEnv.limiter s.height tx.msgs with
      | some e => simp only; exact m
      | none =>
        simp only [ha] at hq ⊢
        rw [hmsgs] at hq ⊢
        simp only [handleList, handle] at hq ⊢
        cases hr : s.removeMsg tx.signer (some op) with
        | error e => simp only [liftE]; exact m
        | ok s' =>
          simp only [hr, liftE] at hq ⊢
          obtain ⟨v, hv, hpos, hd3, hidx⟩ := hq trivial
          exact M2_remove s s' c op v m (removeMsg_core s s' tx.signer op hr) hv hpos hd3 hidx
  · unfold runTx
    split
    · exact m
    · cases ha : Ante.run genEnv.ante genEnv.limiter s.height tx.msgs with
      | some e => simp only; exact m
      | none =>
        simp only
        rw [hmsgs]
        simp only [handleList, handle]
        cases hr : s.createMsg tx.signer a with
        | error e => simp only [liftE]; exact m
        | ok s' => simp only [liftE]; exact M2_create s s' c tx.signer a m hr
  · unfold runTx
    split
    · exact m
    · cases ha : Ante.run genEnv.ante genEnv.limiter s.height tx.msgs with
      | some e => simp only; exact m
      | none =>
        simp only
        rw [hmsgs]
        simp only [handleList, handle]
        cases hr : s.rmPendingMsg tx.signer tg with
        | error e => simp only [liftE]; exact m
        | ok s' => simp only [liftE]; exact M2_rmPending s s' c tx.signer tg m hr
  · unfold runTx
    split
    · exact m
    · cases ha : Ante.run genEnv.ante genEnv.limiter s.height tx.msgs with
      | some e => simp only; exact m
      | none =>
        simp only
        rw [hmsgs]
        simp only [handleList, handle]
        cases hr : s.paramsMsg tx.signer pa with
        | error e => simp only [liftE]; exact m
        | ok s' => simp only [liftE]; exact M2_params s s' c tx.signer pa m hr

def QuietTxs2 : List Tx → App → List (Signer × Nat) → Prop
  | [], _, _ => True
  | tx :: rest, s, incs => QuietTx2 s incs tx ∧ QuietTxs2 rest (runTx genEnv s incs tx).2.1 (runTx genEnv s incs tx).2.2

theorem runTxs_M2 (c : CSet) : ∀ (txs : List Tx) (s : App) (incs : List (Signer × Nat)) (acc : List TxR),
    M2 s c → QuietTxs2 txs s incs → M2 (runTxs genEnv txs s incs acc).2 c
  | [], s, _, _, m, _ => by simpa [runTxs] using m
  | tx :: rest, s, incs, acc, m, q => by
    unfold runTxs
    exact runTxs_M2 c rest _ _ _ (runTx_M2 s c incs tx m q.1) q.2

/-- a block of the wider quiet class -/
structure QuietBlock2 (s : App) (c : CSet) (b : Block) : Prop where
  votes : VotesOk { s with height := s.height + 1, time := s.time + b.dt } b.votes
  noEvid : b.evid = []
  noGov : b.gov = []
  txs : ∀ s2, beginState genEnv s b = .ok s2 → QuietTxs2 b.txs s2 []
  fits : ∀ s2, beginState genEnv s b = .ok s2 → Fits2 (runTxs genEnv b.txs s2 [] []).2 c

/-- **one quiet block takes `G2` to `G2`**: it does not halt, CometBFT accepts its updates, the sets agree -/
theorem block_G2 (s : App) (c : CSet) (b : Block) (g : G2 s c) (q : QuietBlock2 s c b) :
    ∃ o s' c', block genEnv s b = .ok (o, s') ∧ Comet.applyChangeSet c o.updates = .ok c' ∧ Agree c' s' ∧ G2 s' c' := by
  obtain ⟨I', B', hsl, hI'⟩ := q.votes
  have g1 : G2 { s with infos := I', bitmap := B', height := s.height + 1, time := s.time + b.dt } c :=
    G2_frame s c g I' B' (s.height + 1) (s.time + b.dt) hI'
  obtain ⟨s2, hpb, g2, _, _, _, _⟩ := poaBegin_G2 genEnv.lim _ c g1
  have hbegin : beginState genEnv s b = .ok s2 := by
    unfold beginState
    have : slashingBegin b.votes { s with height := s.height + 1, time := s.time + b.dt } =
        .ok { s with infos := I', bitmap := B', height := s.height + 1, time := s.time + b.dt } := hsl
    rw [this]
    simp only [q.noEvid, evidenceBegin]
    exact hpb
  have m3 := runTxs_M2 c b.txs s2 [] [] g2.toM2 (q.txs s2 hbegin)
  have f3 := q.fits s2 hbegin
  obtain ⟨ups, s4, c', he, hc, hag, g4, _⟩ := endBlock_G2 _ c m3 f3
  refine ⟨⟨(runTxs genEnv b.txs s2 [] []).1, ups⟩, s4, c', ?_, hc, hag, g4⟩
  unfold block
  rw [beforeEnd_eq _ _ _ q.noGov, hbegin]
  simp only [he]

def QuietRun2 : List Block → App → CSet → Prop
  | [], _, _ => True
  | b :: bs, s, c => QuietBlock2 s c b ∧
      ∀ o s' c', block genEnv s b = .ok (o, s') → Comet.applyChangeSet c o.updates = .ok c' → QuietRun2 bs s' c'

theorem quiet_run2 (bs : List Block) : ∀ (s : App) (c : CSet), G2 s c → QuietRun2 bs s c →
    (runFrom genEnv s c bs).2 = .done ∧ (runFrom genEnv s c bs).1.length = bs.length ∧
    ∀ st ∈ (runFrom genEnv s c bs).1, Agree st.comet st.app ∧ G2 st.app st.comet := by
  induction bs with
  | nil => intro s c _ _; simp [runFrom]
  | cons b bs ih =>
    intro s c g q
    obtain ⟨o, s', c', hb, hc, hag, g'⟩ := block_G2 s c b g q.1
    have ih' := ih s' c' g' (q.2 o s' c' hb hc)
    unfold runFrom
    simp only [hb, hc]
    refine ⟨ih'.1, by simp [ih'.2.1], ?_⟩
    intro st hst
    rcases List.mem_cons.mp hst with e | e
    · rw [e]; exact ⟨hag, g'⟩
    · exact ih'.2.2 st e

def QuietHistory2 (g : Genesis) (bs : List Block) : Prop :=
  ∀ u s c, App.initChain g = .ok (u, s) → Comet.applyChangeSet [] u = .ok c → QuietRun2 bs s c

/-- **the envelope theorem, removals included** -/
theorem quiet_history2 (g : Genesis) (hw : g.wf = true) (bs : List Block) (hq : QuietHistory2 g bs) :
    ∃ first steps, run genEnv g bs = some (first, steps, RunEnd.done) ∧ steps.length = bs.length ∧
      Agree first.comet first.app ∧ G2 first.app first.comet ∧ ∀ st ∈ steps, Agree st.comet st.app ∧ G2 st.app st.comet := by
  obtain ⟨u, s, c, hi, hc, hag, hg⟩ := genesis_G2 g hw
  obtain ⟨h1, h2, h3⟩ := quiet_run2 bs s c hg (hq u s c hi hc)
  refine ⟨⟨⟨[], u⟩, s, c⟩, (runFrom genEnv s c bs).1, ?_, h2, hag, hg, h3⟩
  unfold run
  rw [hi]
  simp only [hc]
  rw [← h1]

/-! ### the decidable forms evaluated by the driver -/

theorem fits2_of_B (s : App) (c : CSet) (h : fits2B s c = true) : Fits2 s c := by
  unfold fits2B at h
  simp only [Bool.and_eq_true, decide_eq_true_eq] at h
  exact ⟨h.1.1.1.1, h.1.1.1.2, h.1.1.2, h.1.2, h.2⟩

theorem quietTx2_of_B (s : App) (incs : List (Signer × Nat)) (tx : Tx) (h : quietTx2B s incs tx = true) : QuietTx2 s incs tx := by
  unfold quietTx2B at h
  simp only [Bool.or_eq_true, decide_eq_true_eq] at h
  rcases h with h | h
  · exact Or.inl h
  right
  split at h
  · rename_i op p u hs hm
    left
    refine ⟨op, p, u, hs, hm, ?_⟩
    intro hok hnone
    simp only [hok, bne_self_eq_false, hnone, Option.isSome_none, Bool.false_or, Bool.and_eq_true, Bool.not_eq_true'] at h
    refine ⟨?_, ?_, ?_⟩
    · intro v hv
      have := h.1.1
      rw [hv] at this
      simpa using this
    · intro hm2; have := h.1.2; simp [hm2] at this
    · intro hm2; have := h.2; simp [hm2] at this
  · rename_i op hm
    right; left
    refine ⟨op, hm, ?_⟩
    intro hok
    simp only [hok, bne_self_eq_false, Bool.false_or] at h
    cases hv : s.getVal op with
    | none => rw [hv] at h; cases h
    | some v =>
      rw [hv] at h
      simp only [Bool.and_eq_true, decide_eq_true_eq, Bool.not_eq_true'] at h
      refine ⟨v, rfl, h.1.1, ?_, ?_⟩
      · intro hm2; have := h.1.2; simp [hm2] at this
      · have := h.2; simpa using this
  · rename_i a hm
    right; right; left; exact ⟨a, hm⟩
  · rename_i tg hm
    right; right; right; left; exact ⟨tg, hm⟩
  · rename_i pa hm
    right; right; right; right; exact ⟨pa, hm⟩
  · cases h

theorem quietTxs2_of_B : ∀ (txs : List Tx) (s : App) (incs : List (Signer × Nat)), quietTxs2B txs s incs = true → QuietTxs2 txs s incs
  | [], _, _, _ => trivial
  | tx :: rest, s, incs, h => by
    simp only [quietTxs2B, Bool.and_eq_true] at h
    exact ⟨quietTx2_of_B s incs tx h.1, quietTxs2_of_B rest _ _ h.2⟩

theorem quietBlock2_of_B (s : App) (c : CSet) (b : Block) (h : quietBlock2B s c b = true) : QuietBlock2 s c b := by
  unfold quietBlock2B at h
  simp only [Bool.and_eq_true] at h
  obtain ⟨⟨⟨hv, he⟩, hgv⟩, hm⟩ := h
  refine ⟨?_, by simpa using he, by simpa using hgv, ?_, ?_⟩
  · cases hsl : slashingBegin b.votes { s with height := s.height + 1, time := s.time + b.dt } with
    | error e => rw [hsl] at hv; cases hv
    | ok s1 =>
      rw [hsl] at hv
      simp only [Bool.and_eq_true, decide_eq_true_eq] at hv
      refine ⟨s1.infos, s1.bitmap, ?_, ?_⟩
      · rw [hsl]; exact congrArg Except.ok hv.1
      · intro v hvm; exact List.all_eq_true.mp hv.2 v hvm
  · intro s2 hs2
    rw [hs2] at hm
    simp only [Bool.and_eq_true] at hm
    exact quietTxs2_of_B _ _ _ hm.1
  · intro s2 hs2
    rw [hs2] at hm
    simp only [Bool.and_eq_true] at hm
    exact fits2_of_B _ _ hm.2

theorem quietRun2_of_B : ∀ (bs : List Block) (s : App) (c : CSet), quietRun2B bs s c = true → QuietRun2 bs s c
  | [], _, _, _ => trivial
  | b :: bs, s, c, h => by
    simp only [quietRun2B, Bool.and_eq_true] at h
    refine ⟨quietBlock2_of_B s c b h.1, ?_⟩
    intro o s' c' hb hc
    have := h.2
    rw [hb] at this
    simp only [hc] at this
    exact quietRun2_of_B bs s' c' this

end App
end PoaVerif
