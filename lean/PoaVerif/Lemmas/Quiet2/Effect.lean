import PoaVerif.Lemmas.Quiet2.Run
import PoaVerif.Lemmas.QuietEffect
/-
  Corollaries of the wider envelope: identities, the three views (records, query, CometBFT), and the requested effect of
  RemoveValidator along quiet blocks.
-/
namespace PoaVerif
namespace App

/-- identities are unique across validator records (unbonding ones included) and pending applications -/
theorem G2_identities (s : App) (c : CSet) (g : G2 s c) :
    (∀ v1 ∈ s.vals, ∀ v2 ∈ s.vals, (v1.op = v2.op ∨ v1.key = v2.key) → v1 = v2) ∧
    (s.pending.map (·.op)).Nodup ∧ (s.pending.map (·.key)).Nodup ∧
    (∀ p ∈ s.pending, ∀ v ∈ s.vals, p.op ≠ v.op ∧ p.key ≠ v.key) := by
  have m := g.st
  refine ⟨?_, m.pend.ops, m.pend.keys, ?_⟩
  · intro v1 h1 v2 h2 h
    rcases h with h | h
    · exact sorted_op_inj s.vals m.sorted v1 h1 v2 h2 h
    · exact m.keys v1 h1 v2 h2 h
  · intro p hp v hv
    obtain ⟨f1, f2, _⟩ := m.pend.fresh p hp
    refine ⟨?_, fun e => f2 v hv e.symm⟩
    intro e
    have := mem_vals_getVal s m.sorted v hv
    rw [← e, f1] at this; cases this

/-- between blocks the three views coincide: a live validator's query answer and CometBFT power are `tokens / 10^6`;
    an unbonding (removed) validator's and a jailed validator's query answer is 0 and CometBFT holds no entry under its
    key; CometBFT holds no key that is not a live validator's -/
theorem G2_views (s : App) (c : CSet) (g : G2 s c) :
    (∀ v ∈ s.vals, (Active v ∧ s.queryPower (some v.op) = some ((powerOf v.tokens : Nat) : Int) ∧
                     alookup v.key c = some ((powerOf v.tokens : Nat) : Int)) ∨
                   ((Unb v ∨ Jl v) ∧ s.queryPower (some v.op) = some 0 ∧ alookup v.key c = none)) ∧
    (∀ k p, alookup k c = some p → ∃ v ∈ s.vals, v.key = k ∧ Active v) := by
  have m := g.st
  have hknown : ∀ k p, alookup k c = some p → ∃ v ∈ s.vals, v.key = k ∧ Active v := by
    intro k p hkp
    obtain ⟨v, hv, hk, hb⟩ := g.cm.known k p hkp
    refine ⟨v, hv, hk, ?_⟩
    rcases m.cls v hv with h | h | h | h
    · exact h
    · exact absurd (Or.inl h) (g.noLeaving v hv)
    · rw [h.1] at hb; cases hb
    · exact absurd (Or.inr ⟨h, hb⟩) (g.noLeaving v hv)
  have habsent : ∀ v ∈ s.vals, ¬ Active v → alookup v.key c = none := by
    intro v hv hna
    cases hc : alookup v.key c with
    | none => rfl
    | some p =>
      exfalso
      obtain ⟨x, hx, hxk, hxa⟩ := hknown v.key p hc
      have : x = v := m.keys x hx v hv hxk
      rw [this] at hxa
      exact hna hxa
  refine ⟨?_, hknown⟩
  intro v hv
  have hg := mem_vals_getVal s m.sorted v hv
  rcases m.cls v hv with h | h | h | h
  · left
    refine ⟨h, ?_, g.allCur v hv h⟩
    simp [queryPower, hg, lastPower, m.lastA v hv h, cur]
  · exact absurd (Or.inl h) (g.noLeaving v hv)
  · right
    refine ⟨Or.inl h, ?_, habsent v hv (fun ha => active_not_unb v ha h)⟩
    simp [queryPower, hg, lastPower, m.lastU v hv h]
  · right
    refine ⟨Or.inr h, ?_, habsent v hv (fun ha => active_not_jl v ha h)⟩
    have hnb : ¬ v.status = .bonded := fun hb => g.noLeaving v hv (Or.inr ⟨h, hb⟩)
    have hl : alookup v.op s.last = none := by
      cases hq : alookup v.op s.last with
      | none => rfl
      | some p => exact absurd ((m.lastJ v hv h.1).mp (by rw [hq]; simp)) hnb
    simp [queryPower, hg, lastPower, hl]

/-! ### the records through the transactions of a quiet block -/

theorem getVal_insert_ne (s s' : App) (w : Val) (hvals : s'.vals = insertVal w s.vals) (o : Nat) (ho : o ≠ w.op) :
    s'.getVal o = s.getVal o := by
  rw [getVal_congr s' (s.setVal w) (by rw [hvals]; rfl)]
  exact getVal_setVal_ne s w o ho

theorem getVal_insert_self (s s' : App) (w : Val) (hvals : s'.vals = insertVal w s.vals) :
    s'.getVal w.op = some w := by
  rw [getVal_congr s' (s.setVal w) (by rw [hvals]; rfl)]
  exact getVal_setVal_self s w

/-- every record survives a quiet transaction with its consensus key; a `Gone` record is not touched at all -/
def KeyFrame (s s' : App) : Prop :=
  ∀ op v, s.getVal op = some v → ∃ v', s'.getVal op = some v' ∧ v'.key = v.key ∧ (Gone v → v' = v) ∧
    (op ∈ s.updated → v' = v ∧ op ∈ s'.updated)

theorem KeyFrame.rfl' (s : App) : KeyFrame s s := fun _ v hv => ⟨v, hv, rfl, fun _ => rfl, fun h => ⟨rfl, h⟩⟩

theorem KeyFrame.trans' {a b c : App} (h1 : KeyFrame a b) (h2 : KeyFrame b c) : KeyFrame a c := by
  intro op v hv
  obtain ⟨v1, hv1, k1, g1, u1⟩ := h1 op v hv
  obtain ⟨v2, hv2, k2, g2, u2⟩ := h2 op v1 hv1
  refine ⟨v2, hv2, k2.trans k1, ?_, ?_⟩
  · intro hg
    have e1 := g1 hg
    rw [e1] at g2
    exact g2 hg
  · intro hu
    obtain ⟨e1, hu1⟩ := u1 hu
    obtain ⟨e2, hu2⟩ := u2 hu1
    exact ⟨e2.trans e1, hu2⟩

theorem keyFrame_of_vals (s s' : App) (h : s'.vals = s.vals) (hu : s'.updated = s.updated) : KeyFrame s s' :=
  fun op v hv => ⟨v, by rw [getVal_congr s' s h]; exact hv, rfl, fun _ => rfl, fun hin => ⟨rfl, by rw [hu]; exact hin⟩⟩

theorem keyFrame_setPower (s s' : App) (c : CSet) (op p : Nat) (u : Bool) (m : M2 s c)
    (h : setPowerMsg genLimitFacts s .admin (some op) p u = .ok s')
    (hq : s.pendingFind op = none → (∀ v, s.getVal op = some v → powerOf v.tokens > 0 ∧ v.jailed = false) ∧ op ∉ s.updated ∧ (p / PR, op) ∉ s.index) :
    KeyFrame s s' := by
  cases hf : s.pendingFind op with
  | none =>
    have hadm : s.admitIfPending (some op) = s := by simp [admitIfPending, hf]
    obtain ⟨v, hv⟩ := setPower_target s s s' op p u hadm h
    have hvm := mem_of_getVal s op v hv
    have hvop := getVal_op _ _ _ hv
    have hpos := ((hq hf).1 v hv).1
    have hj : v.jailed = false := ((hq hf).1 v hv).2
    obtain ⟨_, _, _, D, LT, AB, B, S, hs'⟩ := setPower_shape s s s' op p u v hadm hv hj h
    have hvals : s'.vals = insertVal (reweigh v p) s.vals := by rw [hs']
    have hupd : s'.updated = sinsert op s.updated := by rw [hs']
    intro o x hx
    by_cases ho : o = op
    · subst ho
      rw [hv] at hx; injection hx with hx; subst hx
      refine ⟨reweigh v p, ?_, rfl, ?_, ?_⟩
      · have := getVal_insert_self s s' (reweigh v p) hvals
        rw [show (reweigh v p).op = o from hvop] at this; exact this
      · intro hg; rw [hg.2.2.1] at hpos; simp [powerOf] at hpos
      · intro hin; exact absurd hin (hq hf).2.1
    · exact ⟨x, by rw [getVal_insert_ne s s' _ hvals o (by rw [show (reweigh v p).op = op from hvop]; exact ho)]; exact hx, rfl, fun _ => rfl,
        fun hin => ⟨rfl, by rw [hupd]; exact (mem_sinsert op _ o).mpr (Or.inr hin)⟩⟩
  | some q =>
    have hpm : q ∈ s.pending := List.mem_of_find?_eq_some hf
    have hpop : q.op = op := by have := List.find?_some hf; simpa using this
    obtain ⟨fr1, _, _⟩ := m.st.pend.fresh q hpm
    have hadm : s.admitIfPending (some op) = s.acceptNew q := by simp [admitIfPending, hf]
    obtain ⟨a1, _, _, _, _, _, a7, _⟩ := acceptNew_fields s q
    have hgA : (s.acceptNew q).getVal op = some (newborn q) := by
      rw [getVal_congr _ (s.setVal (newborn q)) (by rw [a1]; rfl)]
      have := getVal_setVal_self s (newborn q)
      rw [show (newborn q).op = op from hpop] at this; exact this
    obtain ⟨_, _, _, D, LT, AB, B, S, hs'⟩ := setPower_shape s (s.acceptNew q) s' op p u (newborn q) hadm hgA rfl h
    have hvals : s'.vals = insertVal (reweigh (newborn q) p) s.vals := by
      rw [hs']; simp only []; rw [a1]; exact insertVal_twice (newborn q) (reweigh (newborn q) p) rfl s.vals
    have hupd : s'.updated = sinsert op s.updated := by rw [hs']; simp only []; rw [a7]
    intro o x hx
    have ho : o ≠ op := by intro e; rw [e, ← hpop, fr1] at hx; cases hx
    exact ⟨x, by rw [getVal_insert_ne s s' _ hvals o (by rw [show (reweigh (newborn q) p).op = op from hpop]; exact ho)]; exact hx, rfl, fun _ => rfl,
      fun hin => ⟨rfl, by rw [hupd]; exact (mem_sinsert op _ o).mpr (Or.inr hin)⟩⟩

/-- a successful quiet RemoveValidator leaves its target `Gone`, with its key, and touches no other record -/
theorem keyFrame_remove (s s' : App) (c : CSet) (op : Nat) (v : Val) (m : M2 s c) (h : s.removeCore (some op) = .ok s')
    (hv : s.getVal op = some v) (hpos : powerOf v.tokens > 0) (hnj : v.jailed = false) (hd3 : op ∉ s.updated) :
    KeyFrame s s' ∧ s'.getVal op = some (emptied v) := by
  have hvm := mem_of_getVal s op v hv
  have hvop := getVal_op _ _ _ hv
  have hav : Active v := by
    rcases m.st.cls v hvm with ha | hg | hu | hj
    · exact ha
    · rw [hg.2.2.1] at hpos; simp [powerOf] at hpos
    · rw [hu.2.2.1] at hpos; simp [powerOf] at hpos
    · rw [hj.1] at hnj; cases hnj
  obtain ⟨_, D, LT, AB, B, S, BM, I0, hs'⟩ := remove_shape s s' op v m.st hv hav h
  have hvals : s'.vals = insertVal (emptied v) s.vals := by rw [hs']
  have hupd : s'.updated = s.updated := by rw [hs']
  have hself : s'.getVal op = some (emptied v) := by
    have := getVal_insert_self s s' (emptied v) hvals
    rw [show (emptied v).op = op from hvop] at this; exact this
  refine ⟨?_, hself⟩
  intro o x hx
  by_cases ho : o = op
  · subst ho
    rw [hv] at hx; injection hx with hx; subst hx
    exact ⟨emptied v, hself, rfl, fun hg => absurd hg (active_not_gone v hav), fun hin => absurd hin hd3⟩
  · exact ⟨x, by rw [getVal_insert_ne s s' _ hvals o (by rw [show (emptied v).op = op from hvop]; exact ho)]; exact hx, rfl, fun _ => rfl,
      fun hin => ⟨rfl, by rw [hupd]; exact hin⟩⟩

theorem runTx_keyFrame (s : App) (c : CSet) (incs : List (Signer × Nat)) (tx : Tx) (m : M2 s c) (q : QuietTx2 s incs tx) :
    KeyFrame s (runTx genEnv s incs tx).2.1 := by
  rcases q with ⟨hsame, _, _⟩ | ⟨op, p, u, hsg, hmsgs, hq⟩ | ⟨op, hmsgs, hq⟩ | ⟨a, hmsgs⟩ | ⟨tg, hmsgs⟩ | ⟨pa, hmsgs⟩
  · rw [hsame]; exact KeyFrame.rfl' s
  · unfold runTx at hq ⊢
    split
    · exact KeyFrame.rfl' s
    · rename_i hseq
      simp only [hseq, ↓reduceIte] at hq
      cases ha : Ante.run genEnv.ante genEnv.limiter s.height tx.msgs with
      | some e => simp only; exact KeyFrame.rfl' s
      | none =>
        simp only [ha] at hq ⊢
        rw [hmsgs, hsg] at hq ⊢
        have hlim : genEnv.lim = genLimitFacts := rfl
        simp only [handleList, handle, hlim] at hq ⊢
        cases hr : setPowerMsg genLimitFacts s Signer.admin (some op) p u with
        | error e => simp only [liftE]; exact KeyFrame.rfl' s
        | ok s' =>
          simp only [hr, liftE] at hq ⊢
          exact keyFrame_setPower s s' c op p u m hr (hq trivial)
  · unfold runTx at hq ⊢
    split
    · exact KeyFrame.rfl' s
    · rename_i hseq
      simp only [hseq, ↓reduceIte] at hq
      cases ha : Ante.run genEnv.ante genEnv.limiter s.height tx.msgs with
      | some e => simp only; exact KeyFrame.rfl' s
      | none =>
        simp only [ha] at hq ⊢
        rw [hmsgs] at hq ⊢
        simp only [handleList, handle] at hq ⊢
        cases hr : s.removeMsg tx.signer (some op) with
        | error e => simp only [liftE]; exact KeyFrame.rfl' s
        | ok s' =>
          simp only [hr, liftE] at hq ⊢
          obtain ⟨v, hv, hpos, hnj, hd3, _⟩ := hq trivial
          exact (keyFrame_remove s s' c op v m (removeMsg_core s s' tx.signer op hr) hv hpos hnj hd3).1
  · unfold runTx
    split
    · exact KeyFrame.rfl' s
    · cases ha : Ante.run genEnv.ante genEnv.limiter s.height tx.msgs with
      | some e => simp only; exact KeyFrame.rfl' s
      | none =>
        simp only
        rw [hmsgs]
        simp only [handleList, handle]
        cases hr : s.createMsg tx.signer a with
        | error e => simp only [liftE]; exact KeyFrame.rfl' s
        | ok s' => simp only [liftE]; exact keyFrame_of_vals s s' (createMsg_frame s s' tx.signer a hr).1 (createMsg_frame s s' tx.signer a hr).2
  · unfold runTx
    split
    · exact KeyFrame.rfl' s
    · cases ha : Ante.run genEnv.ante genEnv.limiter s.height tx.msgs with
      | some e => simp only; exact KeyFrame.rfl' s
      | none =>
        simp only
        rw [hmsgs]
        simp only [handleList, handle]
        cases hr : s.rmPendingMsg tx.signer tg with
        | error e => simp only [liftE]; exact KeyFrame.rfl' s
        | ok s' => simp only [liftE]; exact keyFrame_of_vals s s' (rmPendingMsg_frame s s' tx.signer tg hr).1 (rmPendingMsg_frame s s' tx.signer tg hr).2
  · unfold runTx
    split
    · exact KeyFrame.rfl' s
    · cases ha : Ante.run genEnv.ante genEnv.limiter s.height tx.msgs with
      | some e => simp only; exact KeyFrame.rfl' s
      | none =>
        simp only
        rw [hmsgs]
        simp only [handleList, handle]
        cases hr : s.paramsMsg tx.signer pa with
        | error e => simp only [liftE]; exact KeyFrame.rfl' s
        | ok s' => simp only [liftE]; exact keyFrame_of_vals s s' (paramsMsg_frame s s' tx.signer pa hr).1 (paramsMsg_frame s s' tx.signer pa hr).2

theorem runTxs_keyFrame (c : CSet) : ∀ (txs : List Tx) (s : App) (incs : List (Signer × Nat)) (acc : List TxR),
    M2 s c → QuietTxs2 txs s incs → KeyFrame s (runTxs genEnv txs s incs acc).2
  | [], s, _, _, _, _ => by simp only [runTxs]; exact KeyFrame.rfl' s
  | tx :: rest, s, incs, acc, m, q => by
    unfold runTxs
    exact (runTx_keyFrame s c incs tx m q.1).trans' (runTxs_keyFrame c rest _ _ _ (runTx_M2 s c incs tx m q.1) q.2)

/-- a successful single RemoveValidator transaction on a live, un-jailed target leaves it `Gone` -/
theorem runTx_remove_gone (s : App) (c : CSet) (incs : List (Signer × Nat)) (tx : Tx) (m : M2 s c)
    (op : Nat) (hmsgs : tx.msgs = [.remove (some op)]) (hok : (runTx genEnv s incs tx).1 = .ok)
    (v : Val) (hv : s.getVal op = some v) (hpos : powerOf v.tokens > 0) (hnj : v.jailed = false) :
    ∃ w, (runTx genEnv s incs tx).2.1.getVal op = some w ∧ Gone w := by
  have hcore : ∃ s', s.removeMsg tx.signer (some op) = .ok s' ∧ (runTx genEnv s incs tx).2.1 = s' := by
    unfold runTx at hok ⊢
    split
    · rename_i hseq; simp [hseq] at hok
    · rename_i hseq
      simp only [hseq, ↓reduceIte] at hok
      cases ha : Ante.run genEnv.ante genEnv.limiter s.height tx.msgs with
      | some e => simp [ha] at hok
      | none =>
        simp only [ha] at hok ⊢
        rw [hmsgs] at hok ⊢
        simp only [handleList, handle] at hok ⊢
        cases hr : s.removeMsg tx.signer (some op) with
        | error e => simp [hr, liftE] at hok
        | ok s' => exact ⟨s', rfl, by simp [liftE]⟩
  obtain ⟨s', hr, hs'⟩ := hcore
  rw [hs']
  have hc := removeMsg_core s s' tx.signer op hr
  have hvm := mem_of_getVal s op v hv
  have hvop := getVal_op _ _ _ hv
  have ha : Active v := by
    rcases m.st.cls v hvm with ha | hg | hu | hj
    · exact ha
    · rw [hg.2.2.1] at hpos; simp [powerOf] at hpos
    · rw [hu.2.2.1] at hpos; simp [powerOf] at hpos
    · rw [hj.1] at hnj; cases hnj
  obtain ⟨_, D, LT, AB, B, S, BM, I0, hs'e⟩ := remove_shape s s' op v m.st hv ha hc
  have hvals : s'.vals = insertVal (emptied v) s.vals := by rw [hs'e]
  have hself : s'.getVal op = some (emptied v) := by
    have := getVal_insert_self s s' (emptied v) hvals
    rw [show (emptied v).op = op from hvop] at this; exact this
  exact ⟨emptied v, hself, ⟨rfl, ha.2.1, rfl, rfl⟩⟩

/-- the quiet condition of a removal transaction, read off `QuietTx2` -/
theorem quiet_remove_cond (s : App) (incs : List (Signer × Nat)) (tx : Tx) (q : QuietTx2 s incs tx) (op : Nat)
    (hmsgs : tx.msgs = [.remove (some op)]) (hok : (runTx genEnv s incs tx).1 = .ok) :
    ∃ v, s.getVal op = some v ∧ powerOf v.tokens > 0 ∧ v.jailed = false := by
  rcases q with ⟨_, hnr, _⟩ | ⟨op', p, u, _, hm, _⟩ | ⟨op', hm, hq⟩ | ⟨a, hm⟩ | ⟨tg, hm⟩ | ⟨pa, hm⟩
  · exact absurd hmsgs (hnr op)
  · rw [hm] at hmsgs; cases hmsgs
  · rw [hm] at hmsgs
    injection hmsgs with h1 _
    injection h1 with h1
    injection h1 with h1
    subst h1
    obtain ⟨v, hv, hpos, hnj, _⟩ := hq hok
    exact ⟨v, hv, hpos, hnj⟩
  · rw [hm] at hmsgs; cases hmsgs
  · rw [hm] at hmsgs; cases hmsgs
  · rw [hm] at hmsgs; cases hmsgs

end App
end PoaVerif

namespace PoaVerif
namespace App

/-- **the transaction at position `pre.length`, a single RemoveValidator(op), succeeded ⇒ when the transactions are done
    the record of `op` is `Gone`, under the consensus key it had when the transactions began** -/
theorem runTxs_remove_effect (c : CSet) (tx : Tx) (post : List Tx) (op : Nat) (hmsgs : tx.msgs = [.remove (some op)]) :
    ∀ (pre : List Tx) (s : App) (incs : List (Signer × Nat)) (acc : List TxR) (v : Val),
      M2 s c → QuietTxs2 (pre ++ tx :: post) s incs → s.getVal op = some v →
      (runTxs genEnv (pre ++ tx :: post) s incs acc).1[acc.length + pre.length]? = some .ok →
      ∃ w, (runTxs genEnv (pre ++ tx :: post) s incs acc).2.getVal op = some w ∧ Gone w ∧ w.key = v.key
  | [], s, incs, acc, v, m, q, hv, hok => by
    simp only [List.nil_append] at q hok ⊢
    unfold runTxs at hok ⊢
    obtain ⟨X, hX⟩ := runTxs_results genEnv post (runTx genEnv s incs tx).2.1 (runTx genEnv s incs tx).2.2 (acc ++ [(runTx genEnv s incs tx).1])
    simp only [hX, List.length_nil, Nat.add_zero] at hok
    have hr : (runTx genEnv s incs tx).1 = .ok := by
      have : (acc ++ [(runTx genEnv s incs tx).1] ++ X)[acc.length]? = some (runTx genEnv s incs tx).1 := by
        rw [List.append_assoc, List.getElem?_append_right (Nat.le_refl _)]; simp
      rw [this] at hok; injection hok
    obtain ⟨v0, hv0, hpos0, hnj0⟩ := quiet_remove_cond s incs tx q.1 op hmsgs hr
    obtain ⟨w, hw, hgw⟩ := runTx_remove_gone s c incs tx m op hmsgs hr v0 hv0 hpos0 hnj0
    obtain ⟨v', hv', hk', _, _⟩ := runTx_keyFrame s c incs tx m q.1 op v hv
    rw [hw] at hv'; injection hv' with hv'
    have m1 := runTx_M2 s c incs tx m q.1
    obtain ⟨w2, hw2, _, hg2, _⟩ := runTxs_keyFrame c post _ (runTx genEnv s incs tx).2.2 (acc ++ [(runTx genEnv s incs tx).1]) m1 q.2 op w hw
    refine ⟨w, ?_, hgw, by rw [hv']; exact hk'⟩
    rw [← hg2 hgw]; exact hw2
  | t :: pre, s, incs, acc, v, m, q, hv, hok => by
    simp only [List.cons_append] at q hok ⊢
    unfold runTxs at hok ⊢
    obtain ⟨v1, hv1, hk1, _, _⟩ := runTx_keyFrame s c incs t m q.1 op v hv
    have hidx : (acc ++ [(runTx genEnv s incs t).1]).length + pre.length = acc.length + (t :: pre).length := by
      simp; omega
    obtain ⟨w, hw, hgw, hkw⟩ := runTxs_remove_effect c tx post op hmsgs pre _ _ _ v1 (runTx_M2 s c incs t m q.1) q.2 hv1
      (by rw [hidx]; exact hok)
    exact ⟨w, hw, hgw, hkw.trans hk1⟩

/-- **the requested effect of RemoveValidator, for every quiet block from every `G2` state**: when the transaction at
    position `pre.length`, a single RemoveValidator(op) — sent by the admin or by the validator itself — succeeded, then
    after the block CometBFT's set holds no entry under the key `op`'s record had before the block, and `op` either has
    no record any more or an unbonding one for which the power query answers 0 -/
theorem quiet2_block_remove_effect (s : App) (c : CSet) (b : Block) (g : G2 s c) (q : QuietBlock2 s c b)
    (pre post : List Tx) (tx : Tx) (op : Nat) (v : Val) (hb : b.txs = pre ++ tx :: post)
    (hmsgs : tx.msgs = [.remove (some op)]) (hv : s.getVal op = some v) :
    ∃ o s' c', block genEnv s b = .ok (o, s') ∧ Comet.applyChangeSet c o.updates = .ok c' ∧ G2 s' c' ∧
      (o.txrs[pre.length]? = some .ok →
        alookup v.key c' = none ∧
        (s'.getVal op = none ∨ ∃ w, s'.getVal op = some w ∧ Unb w ∧ w.key = v.key ∧ s'.queryPower (some op) = some 0)) := by
  obtain ⟨s2, hbegin, g2, hrecs2⟩ := begin_M2 s c b g q
  obtain ⟨v2, hv2, hk2, _⟩ := hrecs2 v (mem_of_getVal s op v hv)
  rw [getVal_op _ _ _ hv] at hv2
  have m3 := runTxs_M2 c b.txs s2 [] [] g2 (q.txs s2 hbegin)
  have f3 := q.fits s2 hbegin
  obtain ⟨ups, s4, c', he, hc, hag, g4, _, _, _, _, hrec, _⟩ := endBlock_G2 _ c m3 f3
  refine ⟨⟨(runTxs genEnv b.txs s2 [] []).1, ups⟩, s4, c', ?_, hc, g4, ?_⟩
  · unfold block
    rw [beforeEnd_eq _ _ _ q.noGov, hbegin]
    simp only [he]
  · intro hok
    have hq := q.txs s2 hbegin
    rw [hb] at hq hok
    obtain ⟨w, hw, hgw, hkw'⟩ := runTxs_remove_effect c tx post op hmsgs pre s2 [] [] v2 g2 hq hv2 (by simpa using hok)
    have hkw : w.key = v.key := hkw'.trans hk2
    rw [← hb] at hw
    have hwm := mem_of_getVal _ op w hw
    have hviews := G2_views s4 c' g4
    constructor
    · cases hcq : alookup v.key c' with
      | none => rfl
      | some p =>
        exfalso
        obtain ⟨x, hx, hxk, hxa⟩ := hviews.2 v.key p hcq
        have hgx := mem_vals_getVal s4 g4.st.sorted x hx
        obtain ⟨v0, hv0, _, _, hbond⟩ := hrec x.op x hgx
        have e := hbond hxa.1
        have hv0m := mem_of_getVal _ x.op v0 hv0
        have : v0 = w := m3.st.keys v0 hv0m w hwm (by rw [← e, hxk, hkw])
        rw [e, this] at hxa
        exact active_not_gone w hxa hgw
    · cases hg4 : s4.getVal op with
      | none => exact Or.inl rfl
      | some w' =>
        right
        obtain ⟨v0, hv0, hk, hj, hbond⟩ := hrec op w' hg4
        rw [hw] at hv0; injection hv0 with hv0
        have hw'm := mem_of_getVal s4 op w' hg4
        have hu : Unb w' := by
          rcases g4.st.cls w' hw'm with a | a | a | a
          · exfalso
            have := hbond a.1
            rw [this, ← hv0] at a
            exact active_not_gone w a hgw
          · exact absurd (Or.inl a) (g4.noLeaving w' hw'm)
          · exact a
          · exfalso
            rw [a.1, ← hv0, hgw.2.1] at hj; cases hj
        refine ⟨w', rfl, hu, by rw [hk, ← hv0]; exact hkw, ?_⟩
        have hw'op := getVal_op _ _ _ hg4
        have hg4' : s4.getVal w'.op = some w' := by rw [hw'op]; exact hg4
        simp [queryPower, lastPower, ← hw'op, hg4', g4.st.lastU w' hw'm hu]

end App
end PoaVerif

namespace PoaVerif
namespace App

/-- a successful SetPower by the admin leaves its target with the requested amount, in the cache of re-weighted operators -/
theorem setPower_pins2 (s s' : App) (op p : Nat) (u : Bool)
    (h : setPowerMsg genLimitFacts s .admin (some op) p u = .ok s')
    (hnj : s.pendingFind op = none → ∀ v, s.getVal op = some v → v.jailed = false) :
    1000000 ≤ p ∧ op ∈ s'.updated ∧ ∃ w, s'.getVal op = some w ∧ w.tokens = p := by
  cases hf : s.pendingFind op with
  | none =>
    have hadm : s.admitIfPending (some op) = s := by simp [admitIfPending, hf]
    obtain ⟨v, hv⟩ := setPower_target s s s' op p u hadm h
    have hvop := getVal_op _ _ _ hv
    have hj : v.jailed = false := hnj hf v hv
    obtain ⟨hlo, _, _, D, LT, AB, B, S, hs'⟩ := setPower_shape s s s' op p u v hadm hv hj h
    have hvals : s'.vals = insertVal (reweigh v p) s.vals := by rw [hs']
    have hupd : s'.updated = sinsert op s.updated := by rw [hs']
    refine ⟨hlo, by rw [hupd]; exact (mem_sinsert op _ op).mpr (Or.inl rfl), reweigh v p, ?_, rfl⟩
    have := getVal_insert_self s s' (reweigh v p) hvals
    rw [show (reweigh v p).op = op from hvop] at this; exact this
  | some q =>
    have hpop : q.op = op := by have := List.find?_some hf; simpa using this
    have hadm : s.admitIfPending (some op) = s.acceptNew q := by simp [admitIfPending, hf]
    obtain ⟨a1, _, _, _, _, _, a7, _⟩ := acceptNew_fields s q
    have hgA : (s.acceptNew q).getVal op = some (newborn q) := by
      rw [getVal_congr _ (s.setVal (newborn q)) (by rw [a1]; rfl)]
      have := getVal_setVal_self s (newborn q)
      rw [show (newborn q).op = op from hpop] at this; exact this
    obtain ⟨hlo, _, _, D, LT, AB, B, S, hs'⟩ := setPower_shape s (s.acceptNew q) s' op p u (newborn q) hadm hgA rfl h
    have hvals : s'.vals = insertVal (reweigh (newborn q) p) s.vals := by
      rw [hs']; simp only []; rw [a1]; exact insertVal_twice (newborn q) (reweigh (newborn q) p) rfl s.vals
    have hupd : s'.updated = sinsert op s.updated := by rw [hs']; simp only []; rw [a7]
    refine ⟨hlo, by rw [hupd]; exact (mem_sinsert op _ op).mpr (Or.inl rfl), reweigh (newborn q) p, ?_, rfl⟩
    have := getVal_insert_self s s' (reweigh (newborn q) p) hvals
    rw [show (reweigh (newborn q) p).op = op from hpop] at this; exact this

theorem runTx_setPower_pins2 (s : App) (incs : List (Signer × Nat)) (tx : Tx)
    (op p : Nat) (u : Bool) (hsg : tx.signer = .admin) (hmsgs : tx.msgs = [.setPower (some op) p u])
    (hok : (runTx genEnv s incs tx).1 = .ok)
    (hnj : s.pendingFind op = none → ∀ v, s.getVal op = some v → v.jailed = false) :
    1000000 ≤ p ∧ op ∈ (runTx genEnv s incs tx).2.1.updated ∧ ∃ w, (runTx genEnv s incs tx).2.1.getVal op = some w ∧ w.tokens = p := by
  unfold runTx at hok ⊢
  split
  · rename_i hseq; simp [hseq] at hok
  · rename_i hseq
    simp only [hseq, ↓reduceIte] at hok
    cases ha : Ante.run genEnv.ante genEnv.limiter s.height tx.msgs with
    | some e => simp [ha] at hok
    | none =>
      simp only [ha] at hok ⊢
      rw [hmsgs, hsg] at hok ⊢
      have hlim : genEnv.lim = genLimitFacts := rfl
      simp only [handleList, handle, hlim] at hok ⊢
      cases hr : setPowerMsg genLimitFacts s Signer.admin (some op) p u with
      | error e => simp [hr, liftE] at hok
      | ok s' =>
        simp only [liftE]
        exact setPower_pins2 s s' op p u hr hnj

/-- the transaction at position `pre.length`, a single SetPower(op, p) of the admin, succeeded ⇒ when the transactions
    are done the record of `op` holds `p` tokens -/
theorem runTxs_setPower_effect2 (c : CSet) (tx : Tx) (post : List Tx) (op p : Nat) (u : Bool)
    (hsg : tx.signer = .admin) (hmsgs : tx.msgs = [.setPower (some op) p u]) :
    ∀ (pre : List Tx) (s : App) (incs : List (Signer × Nat)) (acc : List TxR),
      M2 s c → QuietTxs2 (pre ++ tx :: post) s incs →
      (runTxs genEnv (pre ++ tx :: post) s incs acc).1[acc.length + pre.length]? = some .ok →
      1000000 ≤ p ∧ op ∈ (runTxs genEnv (pre ++ tx :: post) s incs acc).2.updated ∧
        ∃ w, (runTxs genEnv (pre ++ tx :: post) s incs acc).2.getVal op = some w ∧ w.tokens = p
  | [], s, incs, acc, m, q, hok => by
    simp only [List.nil_append] at q hok ⊢
    unfold runTxs at hok ⊢
    obtain ⟨X, hX⟩ := runTxs_results genEnv post (runTx genEnv s incs tx).2.1 (runTx genEnv s incs tx).2.2 (acc ++ [(runTx genEnv s incs tx).1])
    simp only [hX, List.length_nil, Nat.add_zero] at hok
    have hr : (runTx genEnv s incs tx).1 = .ok := by
      have : (acc ++ [(runTx genEnv s incs tx).1] ++ X)[acc.length]? = some (runTx genEnv s incs tx).1 := by
        rw [List.append_assoc, List.getElem?_append_right (Nat.le_refl _)]; simp
      rw [this] at hok; injection hok
    have hnj : s.pendingFind op = none → ∀ v, s.getVal op = some v → v.jailed = false := by
      intro hnone v hv
      rcases q.1 with ⟨_, _, hns⟩ | ⟨op', p', u', _, hm, hq⟩ | ⟨op', hm, _⟩ | ⟨a, hm⟩ | ⟨tg, hm⟩ | ⟨pa, hm⟩
      · exact absurd hmsgs (hns hsg op p u)
      · rw [hm] at hmsgs
        injection hmsgs with h1 _
        injection h1 with h1 h2 h3
        injection h1 with h1
        subst h1; subst h2
        exact ((hq hr hnone).1 v hv).2
      · rw [hm] at hmsgs; cases hmsgs
      · rw [hm] at hmsgs; cases hmsgs
      · rw [hm] at hmsgs; cases hmsgs
      · rw [hm] at hmsgs; cases hmsgs
    obtain ⟨hlo, hin, w, hw, htok⟩ := runTx_setPower_pins2 s incs tx op p u hsg hmsgs hr hnj
    have m1 := runTx_M2 s c incs tx m q.1
    obtain ⟨w2, hw2, _, _, hu2⟩ := runTxs_keyFrame c post _ (runTx genEnv s incs tx).2.2 (acc ++ [(runTx genEnv s incs tx).1]) m1 q.2 op w hw
    exact ⟨hlo, (hu2 hin).2, w2, hw2, by rw [(hu2 hin).1]; exact htok⟩
  | t :: pre, s, incs, acc, m, q, hok => by
    simp only [List.cons_append] at q hok ⊢
    unfold runTxs at hok ⊢
    have hidx : (acc ++ [(runTx genEnv s incs t).1]).length + pre.length = acc.length + (t :: pre).length := by
      simp; omega
    exact runTxs_setPower_effect2 c tx post op p u hsg hmsgs pre _ _ _ (runTx_M2 s c incs t m q.1) q.2 (by rw [hidx]; exact hok)

/-- **the requested effect of SetPower, for every quiet block (removals included) from every `G2` state** -/
theorem quiet2_block_setPower_effect (s : App) (c : CSet) (b : Block) (g : G2 s c) (q : QuietBlock2 s c b)
    (pre post : List Tx) (tx : Tx) (op p : Nat) (u : Bool) (hb : b.txs = pre ++ tx :: post)
    (hsg : tx.signer = .admin) (hmsgs : tx.msgs = [.setPower (some op) p u]) :
    ∃ o s' c', block genEnv s b = .ok (o, s') ∧ Comet.applyChangeSet c o.updates = .ok c' ∧ G2 s' c' ∧
      (o.txrs[pre.length]? = some .ok →
        ∃ v, s'.getVal op = some v ∧ v.tokens = p ∧ alookup v.key c' = some ((p / PR : Nat) : Int)) := by
  obtain ⟨s2, hbegin, g2, _⟩ := begin_M2 s c b g q
  have m3 := runTxs_M2 c b.txs s2 [] [] g2 (q.txs s2 hbegin)
  have f3 := q.fits s2 hbegin
  obtain ⟨ups, s4, c', he, hc, hag, g4, _, _, _, _, _, hkeep⟩ := endBlock_G2 _ c m3 f3
  refine ⟨⟨(runTxs genEnv b.txs s2 [] []).1, ups⟩, s4, c', ?_, hc, g4, ?_⟩
  · unfold block
    rw [beforeEnd_eq _ _ _ q.noGov, hbegin]
    simp only [he]
  · intro hok
    have hq := q.txs s2 hbegin
    rw [hb] at hq hok
    obtain ⟨hlo, hinU, w, hw, htok⟩ := runTxs_setPower_effect2 c tx post op p u hsg hmsgs pre s2 [] [] g2 hq (by simpa using hok)
    rw [← hb] at hw hinU
    have hwm := mem_of_getVal _ op w hw
    have haw : Active w := by
      rcases m3.st.cls w hwm with a | a | a | a
      · exact a
      · exfalso; have := a.2.2.1; rw [htok] at this; omega
      · exfalso; have := a.2.2.1; rw [htok] at this; omega
      · exfalso
        -- the record was written by this block's SetPower and not touched since: it is in the cache of re-weighted operators
        exact active_not_jl w ((m3.st.idx w hwm).a2 (by rw [getVal_op _ _ _ hw]; exact hinU)).1 a
    have h4 := hkeep op w hw haw
    refine ⟨w, h4, htok, ?_⟩
    have := g4.allCur w (mem_of_getVal s4 op w h4) haw
    rw [this, cur, powerOf, htok]

end App
end PoaVerif

namespace PoaVerif
namespace App

/-- the SetPower clause of one block and its step -/
def SetClause (b : Block) (st : Step) : Prop :=
  ∀ (pre post : List Tx) (tx : Tx) (op p : Nat) (u : Bool), b.txs = pre ++ tx :: post →
    tx.signer = .admin → tx.msgs = [.setPower (some op) p u] → st.out.txrs[pre.length]? = some .ok →
    ∃ v, st.app.getVal op = some v ∧ v.tokens = p ∧ alookup v.key st.comet = some ((p / PR : Nat) : Int)

/-- the RemoveValidator clause of one block, the state before it and its step -/
def RemClause (s : App) (b : Block) (st : Step) : Prop :=
  ∀ (pre post : List Tx) (tx : Tx) (op : Nat) (v : Val), b.txs = pre ++ tx :: post →
    tx.msgs = [.remove (some op)] → s.getVal op = some v → st.out.txrs[pre.length]? = some .ok →
    alookup v.key st.comet = none ∧
    (st.app.getVal op = none ∨ ∃ w, st.app.getVal op = some w ∧ Unb w ∧ w.key = v.key ∧ st.app.queryPower (some op) = some 0)

/-- block by block along a run -/
def EffectAll2 : App → List Block → List Step → Prop
  | _, [], [] => True
  | s, b :: bs, st :: sts => SetClause b st ∧ RemClause s b st ∧ EffectAll2 st.app bs sts
  | _, _, _ => False

theorem quiet_run2_effect (bs : List Block) : ∀ (s : App) (c : CSet), G2 s c → QuietRun2 bs s c →
    EffectAll2 s bs (runFrom genEnv s c bs).1 := by
  induction bs with
  | nil => intro s c _ _; simp [runFrom, EffectAll2]
  | cons b bs ih =>
    intro s c g q
    obtain ⟨o, s', c', hb, hc, _, g'⟩ := block_G2 s c b g q.1
    have ih' := ih s' c' g' (q.2 o s' c' hb hc)
    unfold runFrom
    simp only [hb, hc]
    refine ⟨?_, ?_, ih'⟩
    · intro pre post tx op p u htx hsg hm hok
      obtain ⟨o2, s2, c2, hb2, hc2, _, heff⟩ := quiet2_block_setPower_effect s c b g q.1 pre post tx op p u htx hsg hm
      rw [hb] at hb2
      injection hb2 with hb2
      injection hb2 with e1 e2
      subst e1; subst e2
      rw [hc] at hc2
      injection hc2 with e3
      subst e3
      exact heff hok
    · intro pre post tx op v htx hm hv hok
      obtain ⟨o2, s2, c2, hb2, hc2, _, heff⟩ := quiet2_block_remove_effect s c b g q.1 pre post tx op v htx hm hv
      rw [hb] at hb2
      injection hb2 with hb2
      injection hb2 with e1 e2
      subst e1; subst e2
      rw [hc] at hc2
      injection hc2 with e3
      subst e3
      exact heff hok

theorem quiet_history2_effect (g : Genesis) (hw : g.wf = true) (bs : List Block) (hq : QuietHistory2 g bs) :
    ∃ first steps, run genEnv g bs = some (first, steps, RunEnd.done) ∧ EffectAll2 first.app bs steps := by
  obtain ⟨u, s, c, hi, hc, _, hg⟩ := genesis_G2 g hw
  obtain ⟨h1, _, _⟩ := quiet_run2 bs s c hg (hq u s c hi hc)
  refine ⟨⟨⟨[], u⟩, s, c⟩, (runFrom genEnv s c bs).1, ?_, quiet_run2_effect bs s c hg (hq u s c hi hc)⟩
  unfold run
  rw [hi]
  simp only [hc]
  rw [← h1]

end App
end PoaVerif
