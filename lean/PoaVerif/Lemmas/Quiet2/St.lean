import PoaVerif.Lemmas.Quiet
/-
  Layer 2, second part: the invariant of `Lemmas/Quiet.lean` widened to histories that also **remove** validators.

  A record is `Active` (bonded, un-jailed, positive power), `Gone` (removed by RemoveValidator earlier in this block:
  still bonded, no tokens, no shares, power-table entry 0, no index entry) or `Unb` (unbonding after a removal: no tokens,
  no shares, one index entry at power 0, queued for maturity).  `St s` is the part of the invariant that does not mention
  CometBFT's set, `Cm s c` the part that does.  `St_put` is the one lemma behind every single-record change (SetPower on
  an existing validator, admission, RemoveValidator, the EndBlocker's begin-unbonding step); `St_del` is the deletion of a
  matured record.
-/
namespace PoaVerif
namespace App

def Active (v : Val) : Prop := v.status = .bonded ∧ v.jailed = false ∧ powerOf v.tokens > 0 ∧ v.shares ≠ 0
def Gone (v : Val) : Prop := v.status = .bonded ∧ v.jailed = false ∧ v.tokens = 0 ∧ v.shares = 0
def Unb (v : Val) : Prop := v.status = .unbonding ∧ v.jailed = false ∧ v.tokens = 0 ∧ v.shares = 0
/-- jailed by x/slashing (downtime) or x/evidence (double sign): still bonded in the block of the punishment, unbonding
    afterwards, unbonded once matured; its delegation shares remain -/
def Jl (v : Val) : Prop := v.jailed = true ∧ v.shares ≠ 0

/-- what the power table holds for a record -/
def lastOf (v : Val) : Option Int := if v.status = .bonded then some (cur v) else none

/-- the index entries of a record, by class -/
structure IdxOk (s : App) (v : Val) : Prop where
  a1 : Active v → v.op ∉ s.updated → occ v.op s.index = 1
  a2 : v.op ∈ s.updated → Active v ∧ occ v.op s.index = 2 ∧ (powerOf v.tokens, v.op) ∈ s.index
  g : Gone v → occ v.op s.index = 0
  u : Unb v → occ v.op s.index = 1 ∧ (0, v.op) ∈ s.index
  j : v.jailed = true → occ v.op s.index = 0

structure St (s : App) : Prop where
  sorted : SortedOps s.vals
  keys : ∀ v1 ∈ s.vals, ∀ v2 ∈ s.vals, v1.key = v2.key → v1 = v2
  cls : ∀ v ∈ s.vals, Active v ∨ Gone v ∨ Unb v ∨ Jl v
  hasActive : ∃ v ∈ s.vals, Active v
  pend : PendOk s
  last : ∀ v ∈ s.vals, v.jailed = false → alookup v.op s.last = lastOf v
  lastJ : ∀ v ∈ s.vals, v.jailed = true → (alookup v.op s.last ≠ none ↔ v.status = .bonded)
  lastOnly : ∀ op p, alookup op s.last = some p → (s.getVal op).isSome = true
  lastSorted : KSorted s.last
  idxEx : ∀ e ∈ s.index, (s.getVal e.2).isSome = true
  idxNodup : s.index.Nodup
  idx : ∀ v ∈ s.vals, IdxOk s v
  unbond : s.params.unbond > 0
  infos : ∀ v ∈ s.vals, (s.getInfo v.key).isSome = true
  cons : ∀ v ∈ s.vals, s.valByKey v.key = some v
  updSorted : s.updated.Pairwise (· < ·)
  updEx : ∀ op ∈ s.updated, (s.getVal op).isSome = true
  qSorted : qSorted s.ubq
  qNodup : ((qEntries s.ubq).map (·.2)).Nodup
  qRecs : ∀ e ∈ qEntries s.ubq, ∃ v, s.getVal e.2 = some v ∧ v.status = .unbonding ∧ v.ubTime = e.1.1 ∧ v.ubHeight = e.1.2

/-- the part of the invariant that mentions CometBFT's set -/
structure Cm (s : App) (c : CSet) : Prop where
  cur : ∀ v ∈ s.vals, Active v → v.op ∉ s.updated → alookup v.key c = some (cur v)
  gone : ∀ v ∈ s.vals, Gone v → alookup v.key c ≠ none
  jb : ∀ v ∈ s.vals, v.jailed = true → v.status = .bonded → alookup v.key c ≠ none
  known : ∀ k p, alookup k c = some p → ∃ v ∈ s.vals, v.key = k ∧ v.status = .bonded
  cSorted : KSorted c
  cNonneg : ∀ e ∈ c, 0 ≤ e.2

theorem active_not_gone (v : Val) (h : Active v) : ¬ Gone v := by
  intro g; have := h.2.2.1; rw [g.2.2.1] at this; simp [powerOf] at this
theorem active_not_unb (v : Val) (h : Active v) : ¬ Unb v := by
  intro g; have := h.1; rw [g.1] at this; cases this
theorem gone_not_unb (v : Val) (h : Gone v) : ¬ Unb v := by
  intro g; have := h.1; rw [g.1] at this; cases this
theorem active_not_jl (v : Val) (h : Active v) : ¬ Jl v := by
  intro g; have := h.2.1; rw [g.1] at this; cases this
theorem gone_not_jl (v : Val) (h : Gone v) : ¬ Jl v := by
  intro g; have := h.2.1; rw [g.1] at this; cases this
theorem unb_not_jl (v : Val) (h : Unb v) : ¬ Jl v := by
  intro g; have := h.2.1; rw [g.1] at this; cases this

/-- members of a record list after `insertVal` -/
theorem mem_insertVal_split (w : Val) (l : List Val) (hs : SortedOps l) (x : Val) (hx : x ∈ insertVal w l) :
    x = w ∨ (x ∈ l ∧ x.op ≠ w.op) := by
  rcases mem_insertVal w l x hx with e | e
  · exact Or.inl e
  · by_cases ho : x.op = w.op
    · left
      exact sorted_op_inj _ (sorted_insertVal w l hs) x hx w (mem_insertVal_self _ _) ho
    · exact Or.inr ⟨e, ho⟩

/-- **one record is written** (replaced or added): the hypotheses say how the other fields of the state change around it -/
theorem St_put (s s' : App) (op : Nat) (w : Val) (m : St s)
    (hwop : w.op = op) (hvals : s'.vals = insertVal w s.vals)
    (hkeyFresh : ∀ x ∈ s.vals, x.op ≠ op → x.key ≠ w.key)
    (hcls : Active w ∨ Gone w ∨ Unb w ∨ Jl w)
    (hact : Active w ∨ ∃ x ∈ s.vals, x.op ≠ op ∧ Active x)
    (hpsub : s'.pending.Sublist s.pending)
    (hpfresh : ∀ q ∈ s'.pending, q.op ≠ op ∧ q.key ≠ w.key)
    (hlastNe : ∀ o, o ≠ op → alookup o s'.last = alookup o s.last)
    (hlastSelf : w.jailed = false → alookup op s'.last = lastOf w)
    (hlastSelfJ : w.jailed = true → (alookup op s'.last ≠ none ↔ w.status = .bonded))
    (hlastS : KSorted s'.last)
    (hidxSub : ∀ e ∈ s'.index, e ∈ s.index ∨ e.2 = op)
    (hidxNd : s'.index.Nodup)
    (hoccNe : ∀ o, o ≠ op → occ o s'.index = occ o s.index)
    (hidxKeep : ∀ e ∈ s.index, e.2 ≠ op → e ∈ s'.index)
    (hidxW : IdxOk s' w)
    (hunb : s'.params.unbond > 0)
    (hinfosNe : ∀ x ∈ s.vals, x.op ≠ op → (s'.getInfo x.key).isSome = true)
    (hinfosW : (s'.getInfo w.key).isSome = true)
    (hconsNe : ∀ x ∈ s.vals, x.op ≠ op → alookup x.key s'.cons = alookup x.key s.cons)
    (hconsW : alookup w.key s'.cons = some op)
    (hupdS : s'.updated.Pairwise (· < ·))
    (hupdNe : ∀ o, o ≠ op → (o ∈ s'.updated ↔ o ∈ s.updated))
    (hqS : qSorted s'.ubq) (hqN : ((qEntries s'.ubq).map (·.2)).Nodup)
    (hqR : ∀ e ∈ qEntries s'.ubq, (e.2 = op ∧ w.status = .unbonding ∧ w.ubTime = e.1.1 ∧ w.ubHeight = e.1.2) ∨ (e.2 ≠ op ∧ e ∈ qEntries s.ubq)) :
    St s' := by
  have hget : ∀ o, s'.getVal o = (s.setVal w).getVal o := fun o => getVal_congr _ _ (by rw [hvals]; rfl) o
  have hgself : s'.getVal op = some w := by
    rw [hget]; have := getVal_setVal_self s w; rw [hwop] at this; exact this
  have hgne : ∀ o, o ≠ op → s'.getVal o = s.getVal o := fun o ho => by
    rw [hget]; exact getVal_setVal_ne s w o (by rw [hwop]; exact ho)
  have hmemNew : ∀ x, x ∈ s'.vals → x = w ∨ (x ∈ s.vals ∧ x.op ≠ op) := by
    intro x hx; rw [hvals] at hx
    have := mem_insertVal_split w s.vals m.sorted x hx
    rw [hwop] at this; exact this
  have hmemOld : ∀ x ∈ s.vals, x.op ≠ op → x ∈ s'.vals :=
    fun x hx ho => by rw [hvals]; exact mem_insertVal_of_ne w x s.vals hx (by rw [hwop]; exact ho)
  have hmemW : w ∈ s'.vals := by rw [hvals]; exact mem_insertVal_self _ _
  exact {
    sorted := (by rw [hvals]; exact sorted_insertVal _ _ m.sorted)
    keys := (by
      intro v1 h1 v2 h2 hk
      rcases hmemNew v1 h1 with e1 | ⟨o1, n1⟩ <;> rcases hmemNew v2 h2 with e2 | ⟨o2, n2⟩
      · rw [e1, e2]
      · exfalso; exact hkeyFresh v2 o2 n2 (by rw [← hk, e1])
      · exfalso; exact hkeyFresh v1 o1 n1 (by rw [hk, e2])
      · exact m.keys v1 o1 v2 o2 hk)
    cls := (by
      intro x hx
      rcases hmemNew x hx with e | ⟨o, _⟩
      · rw [e]; exact hcls
      · exact m.cls x o)
    hasActive := (by
      rcases hact with h | ⟨x, hx, hn, ha⟩
      · exact ⟨w, hmemW, h⟩
      · exact ⟨x, hmemOld x hx hn, ha⟩)
    pend := (by
      refine ⟨m.pend.ops.sublist (hpsub.map _), m.pend.keys.sublist (hpsub.map _), ?_⟩
      intro q hq
      obtain ⟨f1, f2, f3⟩ := m.pend.fresh q (hpsub.subset hq)
      obtain ⟨g1, g2⟩ := hpfresh q hq
      refine ⟨by rw [hgne q.op g1]; exact f1, ?_, f3⟩
      intro x hx
      rcases hmemNew x hx with e | ⟨o, _⟩
      · rw [e]; exact fun ek => g2 ek.symm
      · exact f2 x o)
    last := (by
      intro x hx hj
      rcases hmemNew x hx with e | ⟨o, n⟩
      · rw [e] at hj ⊢; rw [hwop]; exact hlastSelf hj
      · rw [hlastNe x.op n]; exact m.last x o hj)
    lastJ := (by
      intro x hx hj
      rcases hmemNew x hx with e | ⟨o, n⟩
      · rw [e] at hj ⊢; rw [hwop]; exact hlastSelfJ hj
      · rw [hlastNe x.op n]; exact m.lastJ x o hj)
    lastOnly := (by
      intro o q hq
      by_cases ho : o = op
      · rw [ho, hgself]; rfl
      · rw [hgne o ho]
        rw [hlastNe o ho] at hq
        exact m.lastOnly o q hq)
    lastSorted := hlastS
    idxEx := (by
      intro e he
      rcases hidxSub e he with e1 | e1
      · by_cases ho : e.2 = op
        · rw [ho, hgself]; rfl
        · rw [hgne e.2 ho]; exact m.idxEx e e1
      · rw [e1, hgself]; rfl)
    idxNodup := hidxNd
    idx := (by
      intro x hx
      rcases hmemNew x hx with e | ⟨o, n⟩
      · rw [e]; exact hidxW
      · have io := m.idx x o
        have hu : x.op ∈ s'.updated ↔ x.op ∈ s.updated := hupdNe x.op n
        exact {
          a1 := (fun ha hnu => by rw [hoccNe x.op n]; exact io.a1 ha (fun h => hnu (hu.mpr h)))
          a2 := (fun hin => by
            obtain ⟨b1, b2, b3⟩ := io.a2 (hu.mp hin)
            exact ⟨b1, by rw [hoccNe x.op n]; exact b2, hidxKeep _ b3 n⟩)
          g := (fun hg => by rw [hoccNe x.op n]; exact io.g hg)
          u := (fun hu' => by
            obtain ⟨b1, b2⟩ := io.u hu'
            exact ⟨by rw [hoccNe x.op n]; exact b1, hidxKeep _ b2 n⟩)
          j := (fun hj => by rw [hoccNe x.op n]; exact io.j hj) })
    unbond := hunb
    infos := (by
      intro x hx
      rcases hmemNew x hx with e | ⟨o, n⟩
      · rw [e]; exact hinfosW
      · exact hinfosNe x o n)
    cons := (by
      intro x hx
      unfold valByKey
      rcases hmemNew x hx with e | ⟨o, n⟩
      · rw [e, hconsW]; exact hgself
      · rw [hconsNe x o n]
        have hc := m.cons x o
        unfold valByKey at hc
        cases hk : alookup x.key s.cons with
        | none => rw [hk] at hc; cases hc
        | some o1 =>
          rw [hk] at hc
          simp only at hc ⊢
          have : o1 = x.op := by rw [← getVal_op _ _ _ hc]
          rw [this, hgne x.op n]
          rw [this] at hc; exact hc)
    updSorted := hupdS
    updEx := (by
      intro o ho
      by_cases hoo : o = op
      · rw [hoo, hgself]; rfl
      · rw [hgne o hoo]; exact m.updEx o ((hupdNe o hoo).mp ho))
    qSorted := hqS
    qNodup := hqN
    qRecs := (by
      intro e he
      rcases hqR e he with ⟨e1, e2, e3, e4⟩ | ⟨e1, e2⟩
      · exact ⟨w, by rw [e1]; exact hgself, e2, e3, e4⟩
      · obtain ⟨v, hv, r⟩ := m.qRecs e e2
        exact ⟨v, by rw [hgne e.2 e1]; exact hv, r⟩) }

end App
end PoaVerif
