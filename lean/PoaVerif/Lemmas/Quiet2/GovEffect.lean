import PoaVerif.Lemmas.Quiet2.Gov
import PoaVerif.Lemmas.Quiet2.Effect
/-
  The requested effect of a SetPower that arrives inside an executed governance proposal (at any position of its message
  list): when the block is over the validator holds the requested tokens and CometBFT holds `p / 10^6` under its key.
-/
namespace PoaVerif
namespace App

/-- the record of `op` holds `p` tokens and sits in the cache of operators re-weighted in this block -/
def Pin (s : App) (op p : Nat) : Prop :=
  1000000 ≤ p ∧ op ∈ s.updated ∧ ∃ w, s.getVal op = some w ∧ w.tokens = p

theorem Pin.frame {s s' : App} {op p : Nat} (k : KeyFrame s s') (h : Pin s op p) : Pin s' op p := by
  obtain ⟨hlo, hin, w, hw, htok⟩ := h
  obtain ⟨w2, hw2, _, _, hu2⟩ := k op w hw
  exact ⟨hlo, (hu2 hin).2, w2, hw2, by rw [(hu2 hin).1]; exact htok⟩

/-- a successful message of the class keeps every record's key, leaves `Gone` records and the records re-weighted in this
    block alone -/
theorem handle_keyFrame (s s' : App) (c : CSet) (sg : Signer) (msg : Msg) (m : M2 s c) (q : QuietMsg1 s sg msg)
    (h : handle genLimitFacts s sg msg = .ok s') : KeyFrame s s' := by
  rcases q with ⟨hsame, _, _⟩ | ⟨op, p, u, hsg, hmsg, hq⟩ | ⟨op, hmsg, hq⟩ | ⟨a, hmsg⟩ | ⟨tg, hmsg⟩ | ⟨pa, hmsg⟩
  · rw [hsame s' h]; exact KeyFrame.rfl' s
  · have hok : handleOk s sg msg = true := by unfold handleOk; rw [h]
    subst hmsg; subst hsg
    simp only [handle] at h
    cases hr : setPowerMsg genLimitFacts s Signer.admin (some op) p u with
    | error e => rw [hr] at h; simp only [liftE] at h; cases h
    | ok s'' =>
      rw [hr] at h; simp only [liftE] at h
      cases h
      exact keyFrame_setPower s s' c op p u m hr (hq hok)
  · have hok : handleOk s sg msg = true := by unfold handleOk; rw [h]
    subst hmsg
    simp only [handle] at h
    cases hr : s.removeMsg sg (some op) with
    | error e => rw [hr] at h; simp only [liftE] at h; cases h
    | ok s'' =>
      rw [hr] at h; simp only [liftE] at h
      cases h
      obtain ⟨v, hv, hpos, hnj, hd3, _⟩ := hq hok
      exact (keyFrame_remove s s' c op v m (removeMsg_core s s' sg op hr) hv hpos hnj hd3).1
  · subst hmsg
    simp only [handle] at h
    cases hr : s.createMsg sg a with
    | error e => rw [hr] at h; simp only [liftE] at h; cases h
    | ok s'' =>
      rw [hr] at h; simp only [liftE] at h; cases h
      exact keyFrame_of_vals s s' (createMsg_frame s s' sg a hr).1 (createMsg_frame s s' sg a hr).2
  · subst hmsg
    simp only [handle] at h
    cases hr : s.rmPendingMsg sg tg with
    | error e => rw [hr] at h; simp only [liftE] at h; cases h
    | ok s'' =>
      rw [hr] at h; simp only [liftE] at h; cases h
      exact keyFrame_of_vals s s' (rmPendingMsg_frame s s' sg tg hr).1 (rmPendingMsg_frame s s' sg tg hr).2
  · subst hmsg
    simp only [handle] at h
    cases hr : s.paramsMsg sg pa with
    | error e => rw [hr] at h; simp only [liftE] at h; cases h
    | ok s'' =>
      rw [hr] at h; simp only [liftE] at h; cases h
      exact keyFrame_of_vals s s' (paramsMsg_frame s s' sg pa hr).1 (paramsMsg_frame s s' sg pa hr).2

theorem handleList_keyFrame (c : CSet) (sg : Signer) : ∀ (ms : List Msg) (s s' : App), M2 s c → QuietMsgList s sg ms →
    handleList genLimitFacts s sg ms = .ok s' → KeyFrame s s'
  | [], s, s', _, _, h => by
    simp only [handleList] at h
    cases h; exact KeyFrame.rfl' s
  | msg :: rest, s, s', m, q, h => by
    simp only [handleList] at h
    cases hr : handle genLimitFacts s sg msg with
    | ok s1 =>
      rw [hr] at h
      exact KeyFrame.trans' (handle_keyFrame s s1 c sg msg m q.1 hr)
        (handleList_keyFrame c sg rest s1 s' (handle_M2 s s1 c sg msg m q.1 hr) (q.2 s1 hr) h)
    | err e => rw [hr] at h; cases h
    | unknown => rw [hr] at h; cases h

/-- a list of messages of the class that goes through, with the admin's SetPower(op, p) at some position: when the list
    is done the record of `op` holds `p` tokens -/
theorem handleList_setPower_pin (c : CSet) (op p : Nat) (u : Bool) (mpost : List Msg) :
    ∀ (mpre : List Msg) (s s' : App), M2 s c → QuietMsgList s .admin (mpre ++ .setPower (some op) p u :: mpost) →
      handleList genLimitFacts s .admin (mpre ++ .setPower (some op) p u :: mpost) = .ok s' → Pin s' op p
  | [], s, s', m, q, h => by
    simp only [List.nil_append, handleList] at q h
    cases hr : handle genLimitFacts s .admin (.setPower (some op) p u) with
    | ok s1 =>
      rw [hr] at h
      have hok : handleOk s .admin (.setPower (some op) p u) = true := by unfold handleOk; rw [hr]
      have hnj : s.pendingFind op = none → ∀ v, s.getVal op = some v → v.jailed = false := by
        intro hnone v hv
        rcases q.1 with ⟨_, _, hns⟩ | ⟨op', p', u', _, hm, hq⟩ | ⟨op', hm, _⟩ | ⟨a, hm⟩ | ⟨tg, hm⟩ | ⟨pa, hm⟩
        · exact absurd rfl (hns rfl op p u)
        · injection hm with h1 h2 h3
          injection h1 with h1
          subst h1; subst h2
          exact ((hq hok hnone).1 v hv).2
        · cases hm
        · cases hm
        · cases hm
        · cases hm
      have hsp : setPowerMsg genLimitFacts s .admin (some op) p u = .ok s1 := by
        simp only [handle] at hr
        cases hx : setPowerMsg genLimitFacts s Signer.admin (some op) p u with
        | error e => rw [hx] at hr; simp only [liftE] at hr; cases hr
        | ok s2 => rw [hx] at hr; simp only [liftE] at hr; cases hr; rfl
      have hpin : Pin s1 op p := setPower_pins2 s s1 op p u hsp hnj
      have m1 := handle_M2 s s1 c .admin _ m q.1 hr
      exact Pin.frame (handleList_keyFrame c .admin mpost s1 s' m1 (q.2 s1 hr) h) hpin
    | err e => rw [hr] at h; cases h
    | unknown => rw [hr] at h; cases h
  | msg :: mpre, s, s', m, q, h => by
    simp only [List.cons_append, handleList] at q h
    cases hr : handle genLimitFacts s .admin msg with
    | ok s1 =>
      rw [hr] at h
      exact handleList_setPower_pin c op p u mpost mpre s1 s' (handle_M2 s s1 c .admin msg m q.1 hr) (q.2 s1 hr) h
    | err e => rw [hr] at h; cases h
    | unknown => rw [hr] at h; cases h

theorem govStep_keyFrame (s : App) (c : CSet) (sg : Signer) (ms : List Msg) (m : M2 s c) (q : QuietMsgs2 s sg ms) :
    KeyFrame s (govStep s sg ms) := by
  unfold QuietMsgs2 govOk at q
  unfold govStep
  cases hr : handleList genLimitFacts s sg ms with
  | ok s' =>
    rw [hr] at q
    exact handleList_keyFrame c sg ms s s' m (q rfl) hr
  | err e => exact KeyFrame.rfl' s
  | unknown => exact KeyFrame.rfl' s

theorem govFold_keyFrame (c : CSet) (sg : Signer) : ∀ (gov : List (List Msg)) (s : App), M2 s c → QuietGov2 sg gov s →
    KeyFrame s (govFold sg gov s)
  | [], s, _, _ => by simp only [govFold]; exact KeyFrame.rfl' s
  | ms :: rest, s, m, q => by
    unfold govFold
    exact KeyFrame.trans' (govStep_keyFrame s c sg ms m q.1) (govFold_keyFrame c sg rest _ (govStep_M2 s c sg ms m q.1) q.2)

theorem runGov_results (env : Env) (sg : Signer) : ∀ (gov : List (List Msg)) (s : App) (acc : List TxR),
    ∃ X, (runGov env sg gov s acc).1 = acc ++ X
  | [], s, acc => ⟨[], by simp [runGov]⟩
  | ms :: rest, s, acc => by
    simp only [runGov]
    cases handleList env.lim s sg ms with
    | ok s' =>
      obtain ⟨X, hX⟩ := runGov_results env sg rest s' (acc ++ [.ok])
      exact ⟨.ok :: X, by simp only; rw [hX]; simp⟩
    | err e =>
      obtain ⟨X, hX⟩ := runGov_results env sg rest s (acc ++ [.unknown])
      exact ⟨.unknown :: X, by simp only; rw [hX]; simp⟩
    | unknown =>
      obtain ⟨X, hX⟩ := runGov_results env sg rest s (acc ++ [.unknown])
      exact ⟨.unknown :: X, by simp only; rw [hX]; simp⟩

/-- the proposal at position `gpre.length` went through and carries the admin's SetPower(op, p) at some position ⇒ when
    x/gov's EndBlocker is done the record of `op` holds `p` tokens -/
theorem govFold_setPower_effect (c : CSet) (op p : Nat) (u : Bool) (mpre mpost : List Msg) (gpost : List (List Msg)) :
    ∀ (gpre : List (List Msg)) (s : App) (acc : List TxR),
      M2 s c → QuietGov2 .admin (gpre ++ (mpre ++ .setPower (some op) p u :: mpost) :: gpost) s →
      (runGov genEnv .admin (gpre ++ (mpre ++ .setPower (some op) p u :: mpost) :: gpost) s acc).1[acc.length + gpre.length]? = some .ok →
      Pin (govFold .admin (gpre ++ (mpre ++ .setPower (some op) p u :: mpost) :: gpost) s) op p
  | [], s, acc, m, q, hok => by
    simp only [List.nil_append] at q hok ⊢
    have hlim : genEnv.lim = genLimitFacts := rfl
    unfold govFold
    simp only [runGov, hlim, List.length_nil, Nat.add_zero] at hok
    have q1 := q.1
    unfold QuietMsgs2 govOk at q1
    cases hr : handleList genLimitFacts s .admin (mpre ++ .setPower (some op) p u :: mpost) with
    | ok s1 =>
      rw [hr] at q1
      have hgs : govStep s .admin (mpre ++ .setPower (some op) p u :: mpost) = s1 := by unfold govStep; rw [hr]
      have hpin := handleList_setPower_pin c op p u mpost mpre s s1 m (q1 rfl) hr
      have m1 : M2 s1 c := by rw [← hgs]; exact govStep_M2 s c .admin _ m q.1
      rw [hgs]
      have q2 := q.2
      rw [hgs] at q2
      exact Pin.frame (govFold_keyFrame c .admin gpost s1 m1 q2) hpin
    | err e =>
      exfalso
      rw [hr] at hok
      simp only at hok
      obtain ⟨X, hX⟩ := runGov_results genEnv .admin gpost s (acc ++ [.unknown])
      rw [hX, List.append_assoc, List.getElem?_append_right (Nat.le_refl _)] at hok
      simp at hok
    | unknown =>
      exfalso
      rw [hr] at hok
      simp only at hok
      obtain ⟨X, hX⟩ := runGov_results genEnv .admin gpost s (acc ++ [.unknown])
      rw [hX, List.append_assoc, List.getElem?_append_right (Nat.le_refl _)] at hok
      simp at hok
  | ms :: gpre, s, acc, m, q, hok => by
    simp only [List.cons_append] at q hok ⊢
    have hlim : genEnv.lim = genLimitFacts := rfl
    unfold govFold
    simp only [runGov, hlim] at hok
    have m1 := govStep_M2 s c .admin ms m q.1
    cases hr : handleList genLimitFacts s .admin ms with
    | ok s1 =>
      have hgs : govStep s .admin ms = s1 := by unfold govStep; rw [hr]
      rw [hr] at hok
      simp only at hok
      rw [hgs] at m1 ⊢
      have q2 := q.2
      rw [hgs] at q2
      have hidx : (acc ++ [TxR.ok]).length + gpre.length = acc.length + (ms :: gpre).length := by simp; omega
      exact govFold_setPower_effect c op p u mpre mpost gpost gpre s1 (acc ++ [.ok]) m1 q2 (by rw [hidx]; exact hok)
    | err e =>
      have hgs : govStep s .admin ms = s := by unfold govStep; rw [hr]
      rw [hr] at hok
      simp only at hok
      rw [hgs] at m1 ⊢
      have q2 := q.2
      rw [hgs] at q2
      have hidx : (acc ++ [TxR.unknown]).length + gpre.length = acc.length + (ms :: gpre).length := by simp; omega
      exact govFold_setPower_effect c op p u mpre mpost gpost gpre s (acc ++ [.unknown]) m1 q2 (by rw [hidx]; exact hok)
    | unknown =>
      have hgs : govStep s .admin ms = s := by unfold govStep; rw [hr]
      rw [hr] at hok
      simp only at hok
      rw [hgs] at m1 ⊢
      have q2 := q.2
      rw [hgs] at q2
      have hidx : (acc ++ [TxR.unknown]).length + gpre.length = acc.length + (ms :: gpre).length := by simp; omega
      exact govFold_setPower_effect c op p u mpre mpost gpost gpre s (acc ++ [.unknown]) m1 q2 (by rw [hidx]; exact hok)

theorem runTxs_length (env : Env) : ∀ (txs : List Tx) (s : App) (incs : List (Signer × Nat)) (acc : List TxR),
    (runTxs env txs s incs acc).1.length = acc.length + txs.length
  | [], _, _, acc => by simp [runTxs]
  | tx :: rest, s, incs, acc => by
    unfold runTxs
    rw [runTxs_length env rest]
    simp; omega

/-- **the requested effect of a SetPower executed by a passed governance proposal**: from every `G2` state, for every
    quiet block (governance included) whose gov account is the admin: if the proposal at position `gpre.length` of the
    block's executed proposals went through (its result, listed after the transactions' results, is `ok`) and carries
    `SetPower(op, p)` at any position of its message list, then after the block the validator holds `p` tokens and
    CometBFT holds `p / 10^6` under its key -/
theorem quiet3_block_gov_setPower_effect (s : App) (c : CSet) (b : Block) (g : G2 s c) (q : QuietBlock3 s c b)
    (hadm : b.govIsAdmin = true)
    (gpre gpost : List (List Msg)) (mpre mpost : List Msg) (op p : Nat) (u : Bool)
    (hb : b.gov = gpre ++ (mpre ++ .setPower (some op) p u :: mpost) :: gpost) :
    ∃ o s' c', block genEnv s b = .ok (o, s') ∧ Comet.applyChangeSet c o.updates = .ok c' ∧ G2 s' c' ∧
      (o.txrs[b.txs.length + gpre.length]? = some .ok →
        ∃ v, s'.getVal op = some v ∧ v.tokens = p ∧ alookup v.key c' = some ((p / PR : Nat) : Int)) := by
  obtain ⟨s1, hp, sh⟩ := q.begin_
  have g0 : B2 { s with height := s.height + 1, time := s.time + b.dt } c :=
    B2_frame s c (B2_of_G2 s c g) s.infos s.bitmap (s.height + 1) (s.time + b.dt) g.st.infos
  have g1 : B2 s1 c := punish_B2 _ s1 c g0 g.noLeaving sh
  obtain ⟨s2, hpb, g2, _, _, _, _⟩ := poaBegin_G2 genEnv.lim s1 c g1
  have hbegin : beginState genEnv s b = .ok s2 := by rw [beginState_of_punish s s1 b hp]; exact hpb
  have m3 := runTxs_M3 c b.txs s2 [] [] g2.toM2 (q.txs s2 hbegin)
  have qg := q.gov s2 hbegin
  have m4 := govFold_M2 c (govSigner b) b.gov _ m3 qg
  have f4 := q.fits s2 hbegin
  obtain ⟨ups, s5, c', he, hc, hag, g5, _, _, _, _, _, hkeep⟩ := endBlock_G2 _ c m4 f4
  have hsgn : govSigner b = .admin := by unfold govSigner; rw [hadm]; rfl
  refine ⟨⟨(runGov genEnv (govSigner b) b.gov (runTxs genEnv b.txs s2 [] []).2 (runTxs genEnv b.txs s2 [] []).1).1, ups⟩, s5, c', ?_, hc, g5, ?_⟩
  · unfold block
    rw [beforeEnd_eq_gov, hbegin]
    simp only
    rw [show (runGov genEnv (govSigner b) b.gov (runTxs genEnv b.txs s2 [] []).2 (runTxs genEnv b.txs s2 [] []).1) =
        ((runGov genEnv (govSigner b) b.gov (runTxs genEnv b.txs s2 [] []).2 (runTxs genEnv b.txs s2 [] []).1).1,
         govFold (govSigner b) b.gov (runTxs genEnv b.txs s2 [] []).2) from by
      rw [← runGov_state (govSigner b) b.gov (runTxs genEnv b.txs s2 [] []).2 (runTxs genEnv b.txs s2 [] []).1]]
    simp only [he]
  · intro hok
    simp only at hok
    rw [hsgn] at hok qg hkeep m4
    rw [hb] at hok qg
    have hlen : (runTxs genEnv b.txs s2 [] []).1.length = b.txs.length := by rw [runTxs_length]; simp
    rw [← hlen] at hok
    obtain ⟨hlo, hinU, w, hw, htok⟩ := govFold_setPower_effect c op p u mpre mpost gpost gpre _ _ m3 qg hok
    rw [← hb] at hw hinU
    have hwm := mem_of_getVal _ op w hw
    have haw : Active w := by
      rcases m4.st.cls w hwm with a | a | a | a
      · exact a
      · exfalso; have := a.2.2.1; rw [htok] at this; omega
      · exfalso; have := a.2.2.1; rw [htok] at this; omega
      · exfalso
        exact active_not_jl w ((m4.st.idx w hwm).a2 (by rw [getVal_op _ _ _ hw]; exact hinU)).1 a
    have h4 := hkeep op w hw haw
    refine ⟨w, h4, htok, ?_⟩
    have := g5.allCur w (mem_of_getVal s5 op w h4) haw
    rw [this, cur, powerOf, htok]

/-! ### RemoveValidator inside an executed proposal -/

theorem runTx_keyFrame3 (s : App) (c : CSet) (incs : List (Signer × Nat)) (tx : Tx) (m : M2 s c) (q : QuietTx3 s incs tx) :
    KeyFrame s (runTx genEnv s incs tx).2.1 := by
  rcases q with q | hfail | q
  · exact runTx_keyFrame s c incs tx m q
  · unfold runTx at hfail ⊢
    split
    · exact KeyFrame.rfl' s
    · rename_i hseq
      simp only [hseq, ↓reduceIte] at hfail
      cases ha : Ante.run genEnv.ante genEnv.limiter s.height tx.msgs with
      | some e => exact KeyFrame.rfl' s
      | none =>
        simp only [ha] at hfail ⊢
        cases hh : handleList genEnv.lim s tx.signer tx.msgs with
        | ok s' => simp [hh] at hfail
        | err e => exact KeyFrame.rfl' s
        | unknown => exact KeyFrame.rfl' s
  · unfold runTx
    split
    · exact KeyFrame.rfl' s
    · cases ha : Ante.run genEnv.ante genEnv.limiter s.height tx.msgs with
      | some e => exact KeyFrame.rfl' s
      | none =>
        simp only
        have hlim : genEnv.lim = genLimitFacts := rfl
        cases hh : handleList genEnv.lim s tx.signer tx.msgs with
        | ok s' => rw [hlim] at hh; exact handleList_keyFrame c tx.signer tx.msgs s s' m q hh
        | err e => exact KeyFrame.rfl' s
        | unknown => exact KeyFrame.rfl' s

theorem runTxs_keyFrame3 (c : CSet) : ∀ (txs : List Tx) (s : App) (incs : List (Signer × Nat)) (acc : List TxR),
    M2 s c → QuietTxs3 txs s incs → KeyFrame s (runTxs genEnv txs s incs acc).2
  | [], s, _, _, _, _ => by simp only [runTxs]; exact KeyFrame.rfl' s
  | tx :: rest, s, incs, acc, m, q => by
    unfold runTxs
    exact (runTx_keyFrame3 s c incs tx m q.1).trans' (runTxs_keyFrame3 c rest _ _ _ (runTx_M3 s c incs tx m q.1) q.2)

/-- a list of messages of the class that goes through, with RemoveValidator(op) at some position: when the list is done
    the record of `op` is `Gone`, under the consensus key it had when the list began -/
theorem handleList_remove_gone (c : CSet) (sg : Signer) (op : Nat) (mpost : List Msg) :
    ∀ (mpre : List Msg) (s s' : App) (v : Val), M2 s c → QuietMsgList s sg (mpre ++ .remove (some op) :: mpost) →
      s.getVal op = some v →
      handleList genLimitFacts s sg (mpre ++ .remove (some op) :: mpost) = .ok s' →
      ∃ w, s'.getVal op = some w ∧ Gone w ∧ w.key = v.key
  | [], s, s', v, m, q, hv, h => by
    simp only [List.nil_append, handleList] at q h
    cases hr : handle genLimitFacts s sg (.remove (some op)) with
    | ok s1 =>
      rw [hr] at h
      have hok : handleOk s sg (.remove (some op)) = true := by unfold handleOk; rw [hr]
      have hcond : ∃ v0, s.getVal op = some v0 ∧ powerOf v0.tokens > 0 ∧ v0.jailed = false ∧ op ∉ s.updated := by
        rcases q.1 with ⟨_, hnr, _⟩ | ⟨op', p', u', _, hm, _⟩ | ⟨op', hm, hq⟩ | ⟨a, hm⟩ | ⟨tg, hm⟩ | ⟨pa, hm⟩
        · exact absurd rfl (hnr op)
        · cases hm
        · injection hm with h1
          injection h1 with h1
          subst h1
          obtain ⟨v0, hv0, hpos, hnj, hd3, _⟩ := hq hok
          exact ⟨v0, hv0, hpos, hnj, hd3⟩
        · cases hm
        · cases hm
        · cases hm
      obtain ⟨v0, hv0, hpos, hnj, hd3⟩ := hcond
      rw [hv] at hv0; injection hv0 with hv0; subst hv0
      have hrm : s.removeMsg sg (some op) = .ok s1 := by
        simp only [handle] at hr
        cases hx : s.removeMsg sg (some op) with
        | error e => rw [hx] at hr; simp only [liftE] at hr; cases hr
        | ok s2 => rw [hx] at hr; simp only [liftE] at hr; cases hr; rfl
      obtain ⟨_, hself⟩ := keyFrame_remove s s1 c op v m (removeMsg_core s s1 sg op hrm) hv hpos hnj hd3
      have hav : Active v := by
        rcases m.st.cls v (mem_of_getVal s op v hv) with ha | hg | hu | hj
        · exact ha
        · rw [hg.2.2.1] at hpos; simp [powerOf] at hpos
        · rw [hu.2.2.1] at hpos; simp [powerOf] at hpos
        · rw [hj.1] at hnj; cases hnj
      have hgw : Gone (emptied v) := ⟨rfl, hav.2.1, rfl, rfl⟩
      have m1 := handle_M2 s s1 c sg _ m q.1 hr
      obtain ⟨w2, hw2, _, hg2, _⟩ := handleList_keyFrame c sg mpost s1 s' m1 (q.2 s1 hr) h op (emptied v) hself
      exact ⟨emptied v, by rw [← hg2 hgw]; exact hw2, hgw, rfl⟩
    | err e => rw [hr] at h; cases h
    | unknown => rw [hr] at h; cases h
  | msg :: mpre, s, s', v, m, q, hv, h => by
    simp only [List.cons_append, handleList] at q h
    cases hr : handle genLimitFacts s sg msg with
    | ok s1 =>
      rw [hr] at h
      obtain ⟨v1, hv1, hk1, _, _⟩ := handle_keyFrame s s1 c sg msg m q.1 hr op v hv
      obtain ⟨w, hw, hgw, hkw⟩ := handleList_remove_gone c sg op mpost mpre s1 s' v1 (handle_M2 s s1 c sg msg m q.1 hr) (q.2 s1 hr) hv1 h
      exact ⟨w, hw, hgw, hkw.trans hk1⟩
    | err e => rw [hr] at h; cases h
    | unknown => rw [hr] at h; cases h

/-- the proposal at position `gpre.length` went through and carries RemoveValidator(op) at some position ⇒ when x/gov's
    EndBlocker is done the record of `op` is `Gone`, under the key it had before -/
theorem govFold_remove_effect (c : CSet) (sg : Signer) (op : Nat) (mpre mpost : List Msg) (gpost : List (List Msg)) :
    ∀ (gpre : List (List Msg)) (s : App) (acc : List TxR) (v : Val),
      M2 s c → QuietGov2 sg (gpre ++ (mpre ++ .remove (some op) :: mpost) :: gpost) s → s.getVal op = some v →
      (runGov genEnv sg (gpre ++ (mpre ++ .remove (some op) :: mpost) :: gpost) s acc).1[acc.length + gpre.length]? = some .ok →
      ∃ w, (govFold sg (gpre ++ (mpre ++ .remove (some op) :: mpost) :: gpost) s).getVal op = some w ∧ Gone w ∧ w.key = v.key
  | [], s, acc, v, m, q, hv, hok => by
    simp only [List.nil_append] at q hok ⊢
    have hlim : genEnv.lim = genLimitFacts := rfl
    unfold govFold
    simp only [runGov, hlim, List.length_nil, Nat.add_zero] at hok
    have q1 := q.1
    unfold QuietMsgs2 govOk at q1
    cases hr : handleList genLimitFacts s sg (mpre ++ .remove (some op) :: mpost) with
    | ok s1 =>
      rw [hr] at q1
      have hgs : govStep s sg (mpre ++ .remove (some op) :: mpost) = s1 := by unfold govStep; rw [hr]
      obtain ⟨w, hw, hgw, hkw⟩ := handleList_remove_gone c sg op mpost mpre s s1 v m (q1 rfl) hv hr
      have m1 : M2 s1 c := by rw [← hgs]; exact govStep_M2 s c sg _ m q.1
      rw [hgs]
      have q2 := q.2
      rw [hgs] at q2
      obtain ⟨w2, hw2, _, hg2, _⟩ := govFold_keyFrame c sg gpost s1 m1 q2 op w hw
      exact ⟨w, by rw [← hg2 hgw]; exact hw2, hgw, hkw⟩
    | err e =>
      exfalso
      rw [hr] at hok
      simp only at hok
      obtain ⟨X, hX⟩ := runGov_results genEnv sg gpost s (acc ++ [.unknown])
      rw [hX, List.append_assoc, List.getElem?_append_right (Nat.le_refl _)] at hok
      simp at hok
    | unknown =>
      exfalso
      rw [hr] at hok
      simp only at hok
      obtain ⟨X, hX⟩ := runGov_results genEnv sg gpost s (acc ++ [.unknown])
      rw [hX, List.append_assoc, List.getElem?_append_right (Nat.le_refl _)] at hok
      simp at hok
  | ms :: gpre, s, acc, v, m, q, hv, hok => by
    simp only [List.cons_append] at q hok ⊢
    have hlim : genEnv.lim = genLimitFacts := rfl
    unfold govFold
    simp only [runGov, hlim] at hok
    have m1 := govStep_M2 s c sg ms m q.1
    obtain ⟨v1, hv1, hk1, _, _⟩ := govStep_keyFrame s c sg ms m q.1 op v hv
    have q2 := q.2
    cases hr : handleList genLimitFacts s sg ms with
    | ok s1 =>
      rw [hr] at hok
      simp only at hok
      have hidx : (acc ++ [TxR.ok]).length + gpre.length = acc.length + (ms :: gpre).length := by simp; omega
      obtain ⟨w, hw, hgw, hkw⟩ := govFold_remove_effect c sg op mpre mpost gpost gpre _ (acc ++ [.ok]) v1 m1 q2 hv1
        (by rw [hidx]; have : govStep s sg ms = s1 := by unfold govStep; rw [hr]
            rw [this]; exact hok)
      exact ⟨w, hw, hgw, hkw.trans hk1⟩
    | err e =>
      rw [hr] at hok
      simp only at hok
      have hidx : (acc ++ [TxR.unknown]).length + gpre.length = acc.length + (ms :: gpre).length := by simp; omega
      obtain ⟨w, hw, hgw, hkw⟩ := govFold_remove_effect c sg op mpre mpost gpost gpre _ (acc ++ [.unknown]) v1 m1 q2 hv1
        (by rw [hidx]; have : govStep s sg ms = s := by unfold govStep; rw [hr]
            rw [this]; exact hok)
      exact ⟨w, hw, hgw, hkw.trans hk1⟩
    | unknown =>
      rw [hr] at hok
      simp only at hok
      have hidx : (acc ++ [TxR.unknown]).length + gpre.length = acc.length + (ms :: gpre).length := by simp; omega
      obtain ⟨w, hw, hgw, hkw⟩ := govFold_remove_effect c sg op mpre mpost gpost gpre _ (acc ++ [.unknown]) v1 m1 q2 hv1
        (by rw [hidx]; have : govStep s sg ms = s := by unfold govStep; rw [hr]
            rw [this]; exact hok)
      exact ⟨w, hw, hgw, hkw.trans hk1⟩

/-- **the requested effect of a RemoveValidator executed by a passed governance proposal**: from every `G2` state, for
    every quiet block (governance included): if the proposal at position `gpre.length` went through and carries
    `RemoveValidator(op)` at any position of its message list, then after the block CometBFT's set holds no entry under the
    key `op`'s record had before the block, and `op` has no record any more or an unbonding one for which the power query
    answers 0 -/
theorem quiet3_block_gov_remove_effect (s : App) (c : CSet) (b : Block) (g : G2 s c) (q : QuietBlock3 s c b)
    (gpre gpost : List (List Msg)) (mpre mpost : List Msg) (op : Nat) (v : Val)
    (hb : b.gov = gpre ++ (mpre ++ .remove (some op) :: mpost) :: gpost) (hv : s.getVal op = some v) :
    ∃ o s' c', block genEnv s b = .ok (o, s') ∧ Comet.applyChangeSet c o.updates = .ok c' ∧ G2 s' c' ∧
      (o.txrs[b.txs.length + gpre.length]? = some .ok →
        alookup v.key c' = none ∧
        (s'.getVal op = none ∨ ∃ w, s'.getVal op = some w ∧ Unb w ∧ w.key = v.key ∧ s'.queryPower (some op) = some 0)) := by
  obtain ⟨s1, hp, sh⟩ := q.begin_
  have g0 : B2 { s with height := s.height + 1, time := s.time + b.dt } c :=
    B2_frame s c (B2_of_G2 s c g) s.infos s.bitmap (s.height + 1) (s.time + b.dt) g.st.infos
  have g1 : B2 s1 c := punish_B2 _ s1 c g0 g.noLeaving sh
  obtain ⟨s2, hpb, g2, _, hvals2, _, _⟩ := poaBegin_G2 genEnv.lim s1 c g1
  have hbegin : beginState genEnv s b = .ok s2 := by rw [beginState_of_punish s s1 b hp]; exact hpb
  -- the record of `op` after the BeginBlockers: same key
  obtain ⟨v2, hv2, hk2⟩ : ∃ v2, s2.getVal op = some v2 ∧ v2.key = v.key := by
    obtain ⟨w, hw, hk, _⟩ := sh.recs v (mem_of_getVal s op v hv)
    rw [getVal_op _ _ _ hv] at hw
    exact ⟨w, by rw [getVal_congr s2 s1 hvals2]; exact hw, hk⟩
  have m3 := runTxs_M3 c b.txs s2 [] [] g2.toM2 (q.txs s2 hbegin)
  obtain ⟨v3, hv3, hk3, _, _⟩ := runTxs_keyFrame3 c b.txs s2 [] [] g2.toM2 (q.txs s2 hbegin) op v2 hv2
  have qg := q.gov s2 hbegin
  have m4 := govFold_M2 c (govSigner b) b.gov _ m3 qg
  have f4 := q.fits s2 hbegin
  obtain ⟨ups, s5, c', he, hc, hag, g5, _, _, _, _, hrec, _⟩ := endBlock_G2 _ c m4 f4
  refine ⟨⟨(runGov genEnv (govSigner b) b.gov (runTxs genEnv b.txs s2 [] []).2 (runTxs genEnv b.txs s2 [] []).1).1, ups⟩, s5, c', ?_, hc, g5, ?_⟩
  · unfold block
    rw [beforeEnd_eq_gov, hbegin]
    simp only
    rw [show (runGov genEnv (govSigner b) b.gov (runTxs genEnv b.txs s2 [] []).2 (runTxs genEnv b.txs s2 [] []).1) =
        ((runGov genEnv (govSigner b) b.gov (runTxs genEnv b.txs s2 [] []).2 (runTxs genEnv b.txs s2 [] []).1).1,
         govFold (govSigner b) b.gov (runTxs genEnv b.txs s2 [] []).2) from by
      rw [← runGov_state (govSigner b) b.gov (runTxs genEnv b.txs s2 [] []).2 (runTxs genEnv b.txs s2 [] []).1]]
    simp only [he]
  · intro hok
    simp only at hok
    rw [hb] at hok qg
    have hlen : (runTxs genEnv b.txs s2 [] []).1.length = b.txs.length := by rw [runTxs_length]; simp
    rw [← hlen] at hok
    obtain ⟨w, hw, hgw, hkw'⟩ := govFold_remove_effect c (govSigner b) op mpre mpost gpost gpre _ _ v3 m3 qg hv3 hok
    have hkw : w.key = v.key := hkw'.trans (hk3.trans hk2)
    rw [← hb] at hw
    have hwm := mem_of_getVal _ op w hw
    have hviews := G2_views s5 c' g5
    constructor
    · cases hcq : alookup v.key c' with
      | none => rfl
      | some p =>
        exfalso
        obtain ⟨x, hx, hxk, hxa⟩ := hviews.2 v.key p hcq
        have hgx := mem_vals_getVal s5 g5.st.sorted x hx
        obtain ⟨v0, hv0, _, _, hbond⟩ := hrec x.op x hgx
        have e := hbond hxa.1
        have hv0m := mem_of_getVal _ x.op v0 hv0
        have : v0 = w := m4.st.keys v0 hv0m w hwm (by rw [← e, hxk, hkw])
        rw [e, this] at hxa
        exact active_not_gone w hxa hgw
    · cases hg5 : s5.getVal op with
      | none => exact Or.inl rfl
      | some w' =>
        right
        obtain ⟨v0, hv0, hk, hj, hbond⟩ := hrec op w' hg5
        rw [hw] at hv0; injection hv0 with hv0
        have hw'm := mem_of_getVal s5 op w' hg5
        have hu : Unb w' := by
          rcases g5.st.cls w' hw'm with a | a | a | a
          · exfalso
            have := hbond a.1
            rw [this, ← hv0] at a
            exact active_not_gone w a hgw
          · exact absurd (Or.inl a) (g5.noLeaving w' hw'm)
          · exact a
          · exfalso
            rw [a.1, ← hv0, hgw.2.1] at hj; cases hj
        refine ⟨w', rfl, hu, by rw [hk, ← hv0]; exact hkw, ?_⟩
        have hw'op := getVal_op _ _ _ hg5
        have hg5' : s5.getVal w'.op = some w' := by rw [hw'op]; exact hg5
        simp [queryPower, lastPower, ← hw'op, hg5', g5.st.lastU w' hw'm hu]

/-- the governance SetPower clause of one block and its step -/
def GovSetClause (b : Block) (st : Step) : Prop :=
  b.govIsAdmin = true → ∀ (gpre gpost : List (List Msg)) (mpre mpost : List Msg) (op p : Nat) (u : Bool),
    b.gov = gpre ++ (mpre ++ .setPower (some op) p u :: mpost) :: gpost →
    st.out.txrs[b.txs.length + gpre.length]? = some .ok →
    ∃ v, st.app.getVal op = some v ∧ v.tokens = p ∧ alookup v.key st.comet = some ((p / PR : Nat) : Int)

def EffectAll3 : List Block → List Step → Prop
  | [], [] => True
  | b :: bs, st :: sts => GovSetClause b st ∧ EffectAll3 bs sts
  | _, _ => False

theorem quiet_run3_gov_effect (bs : List Block) : ∀ (s : App) (c : CSet), G2 s c → QuietRun3 bs s c →
    EffectAll3 bs (runFrom genEnv s c bs).1 := by
  induction bs with
  | nil => intro s c _ _; simp [runFrom, EffectAll3]
  | cons b bs ih =>
    intro s c g q
    obtain ⟨o, s', c', hb, hc, _, g'⟩ := block_G2_gov s c b g q.1
    have ih' := ih s' c' g' (q.2 o s' c' hb hc)
    unfold runFrom
    simp only [hb, hc]
    refine ⟨?_, ih'⟩
    intro hadm gpre gpost mpre mpost op p u hgov hok
    obtain ⟨o2, s2, c2, hb2, hc2, _, heff⟩ := quiet3_block_gov_setPower_effect s c b g q.1 hadm gpre gpost mpre mpost op p u hgov
    rw [hb] at hb2
    injection hb2 with hb2
    injection hb2 with e1 e2
    subst e1; subst e2
    rw [hc] at hc2
    injection hc2 with e3
    subst e3
    exact heff hok

/-- along every quiet history, governance included, from every well-formed genesis -/
theorem quiet_history3_gov_effect (g : Genesis) (hw : g.wf = true) (bs : List Block) (hq : QuietHistory3 g bs) :
    ∃ first steps, run genEnv g bs = some (first, steps, RunEnd.done) ∧ steps.length = bs.length ∧ EffectAll3 bs steps := by
  obtain ⟨u, s, c, hi, hc, _, hg⟩ := genesis_G2 g hw
  have hq' := hq u s c hi hc
  obtain ⟨h1, h2, _⟩ := quiet_run3 bs s c hg hq'
  refine ⟨⟨⟨[], u⟩, s, c⟩, (runFrom genEnv s c bs).1, ?_, h2, quiet_run3_gov_effect bs s c hg hq'⟩
  unfold run
  rw [hi]
  simp only [hc]
  rw [← h1]

/-- the governance RemoveValidator clause of one block, the state before it and its step -/
def GovRemClause (s : App) (b : Block) (st : Step) : Prop :=
  ∀ (gpre gpost : List (List Msg)) (mpre mpost : List Msg) (op : Nat) (v : Val),
    b.gov = gpre ++ (mpre ++ .remove (some op) :: mpost) :: gpost → s.getVal op = some v →
    st.out.txrs[b.txs.length + gpre.length]? = some .ok →
    alookup v.key st.comet = none ∧
    (st.app.getVal op = none ∨ ∃ w, st.app.getVal op = some w ∧ Unb w ∧ w.key = v.key ∧ st.app.queryPower (some op) = some 0)

def EffectAll3R : App → List Block → List Step → Prop
  | _, [], [] => True
  | s, b :: bs, st :: sts => GovRemClause s b st ∧ EffectAll3R st.app bs sts
  | _, _, _ => False

theorem quiet_run3_gov_remove_effect (bs : List Block) : ∀ (s : App) (c : CSet), G2 s c → QuietRun3 bs s c →
    EffectAll3R s bs (runFrom genEnv s c bs).1 := by
  induction bs with
  | nil => intro s c _ _; simp [runFrom, EffectAll3R]
  | cons b bs ih =>
    intro s c g q
    obtain ⟨o, s', c', hb, hc, _, g'⟩ := block_G2_gov s c b g q.1
    have ih' := ih s' c' g' (q.2 o s' c' hb hc)
    unfold runFrom
    simp only [hb, hc]
    refine ⟨?_, ih'⟩
    intro gpre gpost mpre mpost op v hgov hv hok
    obtain ⟨o2, s2, c2, hb2, hc2, _, heff⟩ := quiet3_block_gov_remove_effect s c b g q.1 gpre gpost mpre mpost op v hgov hv
    rw [hb] at hb2
    injection hb2 with hb2
    injection hb2 with e1 e2
    subst e1; subst e2
    rw [hc] at hc2
    injection hc2 with e3
    subst e3
    exact heff hok

/-- along every quiet history, governance included, from every well-formed genesis -/
theorem quiet_history3_gov_remove_effect (g : Genesis) (hw : g.wf = true) (bs : List Block) (hq : QuietHistory3 g bs) :
    ∃ first steps, run genEnv g bs = some (first, steps, RunEnd.done) ∧ steps.length = bs.length ∧ EffectAll3R first.app bs steps := by
  obtain ⟨u, s, c, hi, hc, _, hg⟩ := genesis_G2 g hw
  have hq' := hq u s c hi hc
  obtain ⟨h1, h2, _⟩ := quiet_run3 bs s c hg hq'
  refine ⟨⟨⟨[], u⟩, s, c⟩, (runFrom genEnv s c bs).1, ?_, h2, quiet_run3_gov_remove_effect bs s c hg hq'⟩
  unfold run
  rw [hi]
  simp only [hc]
  rw [← h1]

end App
end PoaVerif
