import PoaVerif.Model.Ante
/-
  Message trees: the flat list of leaf messages of a transaction (wrappers unwrapped to any depth)
  and the lemmas relating the three decorator walks to it.
-/
namespace PoaVerif

mutual
/-- leaf (non-wrapper) messages of a tree, left to right -/
def Msg.leaves : Msg → List Msg
  | .exec ms => Msg.leavesList ms
  | .groupProp ms => Msg.leavesList ms
  | .govProp ms => Msg.leavesList ms
  | m => [m]
def Msg.leavesList : List Msg → List Msg
  | [] => []
  | m :: ms => Msg.leaves m ++ Msg.leavesList ms
end

/-- every wrapper type of the application is unwrapped by the decorators -/
def AnteFacts.unwrapsAll (f : AnteFacts) : Prop :=
  Wrapper.authzExec ∈ f.unwrapped ∧ Wrapper.groupProposal ∈ f.unwrapped ∧ Wrapper.govProposal ∈ f.unwrapped

instance (f : AnteFacts) : Decidable f.unwrapsAll := by unfold AnteFacts.unwrapsAll; exact inferInstance

namespace Ante

mutual
theorem stakingWalk_eq (f : AnteFacts) (hw : f.unwrapsAll) :
    ∀ m : Msg, stakingWalk f m = (Msg.leaves m).any (isBlockedLeaf f)
  | .exec ms => by simp [stakingWalk, Msg.leaves, hw.1, stakingWalkList_eq f hw ms]
  | .groupProp ms => by simp [stakingWalk, Msg.leaves, hw.2.1, stakingWalkList_eq f hw ms]
  | .govProp ms => by simp [stakingWalk, Msg.leaves, hw.2.2, stakingWalkList_eq f hw ms]
  | .staking k => by simp [stakingWalk, Msg.leaves, isBlockedLeaf]
  | .setPower _ _ _ => by simp [stakingWalk, Msg.leaves, isBlockedLeaf]
  | .remove _ => by simp [stakingWalk, Msg.leaves, isBlockedLeaf]
  | .rmPending _ => by simp [stakingWalk, Msg.leaves, isBlockedLeaf]
  | .create _ => by simp [stakingWalk, Msg.leaves, isBlockedLeaf]
  | .params _ => by simp [stakingWalk, Msg.leaves, isBlockedLeaf]
  | .unjail _ => by simp [stakingWalk, Msg.leaves, isBlockedLeaf]
  | .edit _ _ => by simp [stakingWalk, Msg.leaves, isBlockedLeaf]
  | .withdraw => by simp [stakingWalk, Msg.leaves, isBlockedLeaf]
  | .other => by simp [stakingWalk, Msg.leaves, isBlockedLeaf]
theorem stakingWalkList_eq (f : AnteFacts) (hw : f.unwrapsAll) :
    ∀ ms : List Msg, stakingWalkList f ms = (Msg.leavesList ms).any (isBlockedLeaf f)
  | [] => by simp [stakingWalkList, Msg.leavesList]
  | m :: ms => by simp [stakingWalkList, Msg.leavesList, stakingWalk_eq f hw m, stakingWalkList_eq f hw ms]
end


/-- the commission rate a leaf message sets, if any -/
def rateOf : Msg → Option Int
  | .create a => some a.rate
  | .edit _ (some r) => some r
  | _ => none

def rateBadLeaf (c : LimiterCfg) (m : Msg) : Bool :=
  match rateOf m with
  | some r => rateBad c r
  | none => false

mutual
theorem withdrawWalk_eq (f : AnteFacts) (hw : f.unwrapsAll) :
    ∀ m : Msg, withdrawWalk f m = (Msg.leaves m).any (isWithdrawLeaf)
  | .exec ms => by simp [withdrawWalk, Msg.leaves, hw.1, withdrawWalkList_eq f hw ms]
  | .groupProp ms => by simp [withdrawWalk, Msg.leaves, hw.2.1, withdrawWalkList_eq f hw ms]
  | .govProp ms => by simp [withdrawWalk, Msg.leaves, hw.2.2, withdrawWalkList_eq f hw ms]
  | .staking _ => by simp [withdrawWalk, Msg.leaves, isWithdrawLeaf]
  | .setPower _ _ _ => by simp [withdrawWalk, Msg.leaves, isWithdrawLeaf]
  | .remove _ => by simp [withdrawWalk, Msg.leaves, isWithdrawLeaf]
  | .rmPending _ => by simp [withdrawWalk, Msg.leaves, isWithdrawLeaf]
  | .create _ => by simp [withdrawWalk, Msg.leaves, isWithdrawLeaf]
  | .params _ => by simp [withdrawWalk, Msg.leaves, isWithdrawLeaf]
  | .unjail _ => by simp [withdrawWalk, Msg.leaves, isWithdrawLeaf]
  | .edit _ (some _) => by simp [withdrawWalk, Msg.leaves, isWithdrawLeaf]
  | .edit _ none => by simp [withdrawWalk, Msg.leaves, isWithdrawLeaf]
  | .withdraw => by simp [withdrawWalk, Msg.leaves, isWithdrawLeaf]
  | .other => by simp [withdrawWalk, Msg.leaves, isWithdrawLeaf]
theorem withdrawWalkList_eq (f : AnteFacts) (hw : f.unwrapsAll) :
    ∀ ms : List Msg, withdrawWalkList f ms = (Msg.leavesList ms).any (isWithdrawLeaf)
  | [] => by simp [withdrawWalkList, Msg.leavesList]
  | m :: ms => by simp [withdrawWalkList, Msg.leavesList, withdrawWalk_eq f hw m, withdrawWalkList_eq f hw ms]
end

mutual
theorem commissionWalk_eq (f : AnteFacts) (c : LimiterCfg) (hw : f.unwrapsAll) :
    ∀ m : Msg, commissionWalk f c m = (Msg.leaves m).any (rateBadLeaf c)
  | .exec ms => by simp [commissionWalk, Msg.leaves, hw.1, commissionWalkList_eq f c hw ms]
  | .groupProp ms => by simp [commissionWalk, Msg.leaves, hw.2.1, commissionWalkList_eq f c hw ms]
  | .govProp ms => by simp [commissionWalk, Msg.leaves, hw.2.2, commissionWalkList_eq f c hw ms]
  | .staking _ => by simp [commissionWalk, Msg.leaves, rateBadLeaf, rateOf]
  | .setPower _ _ _ => by simp [commissionWalk, Msg.leaves, rateBadLeaf, rateOf]
  | .remove _ => by simp [commissionWalk, Msg.leaves, rateBadLeaf, rateOf]
  | .rmPending _ => by simp [commissionWalk, Msg.leaves, rateBadLeaf, rateOf]
  | .create _ => by simp [commissionWalk, Msg.leaves, rateBadLeaf, rateOf]
  | .params _ => by simp [commissionWalk, Msg.leaves, rateBadLeaf, rateOf]
  | .unjail _ => by simp [commissionWalk, Msg.leaves, rateBadLeaf, rateOf]
  | .edit _ (some _) => by simp [commissionWalk, Msg.leaves, rateBadLeaf, rateOf]
  | .edit _ none => by simp [commissionWalk, Msg.leaves, rateBadLeaf, rateOf]
  | .withdraw => by simp [commissionWalk, Msg.leaves, rateBadLeaf, rateOf]
  | .other => by simp [commissionWalk, Msg.leaves, rateBadLeaf, rateOf]
theorem commissionWalkList_eq (f : AnteFacts) (c : LimiterCfg) (hw : f.unwrapsAll) :
    ∀ ms : List Msg, commissionWalkList f c ms = (Msg.leavesList ms).any (rateBadLeaf c)
  | [] => by simp [commissionWalkList, Msg.leavesList]
  | m :: ms => by simp [commissionWalkList, Msg.leavesList, commissionWalk_eq f c hw m, commissionWalkList_eq f c hw ms]
end

end Ante
end PoaVerif
