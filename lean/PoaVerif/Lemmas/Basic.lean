import PoaVerif.Model.Chain
import PoaVerif.Lemmas.Frame
/-
  Basic lemmas about association lists, the validator table and frame conditions of the PoA helpers.
-/
namespace PoaVerif

theorem alookup_ainsert_self {α : Type} (k : Nat) (v : α) (l : List (Nat × α)) : alookup k (ainsert k v l) = some v := by
  induction l with
  | nil => simp [ainsert, alookup]
  | cons x xs ih =>
    obtain ⟨k', v'⟩ := x
    unfold ainsert
    by_cases h1 : k' = k
    · simp [h1, alookup]
    · by_cases h2 : k < k'
      · simp [h1, h2, alookup]
      · simp [h1, h2, alookup, ih]

theorem alookup_ainsert_ne {α : Type} (k k2 : Nat) (v : α) (l : List (Nat × α)) (h : k2 ≠ k) :
    alookup k2 (ainsert k v l) = alookup k2 l := by
  induction l with
  | nil => simp [ainsert, alookup]; intro e; exact absurd e.symm h
  | cons x xs ih =>
    obtain ⟨k', v'⟩ := x
    unfold ainsert
    by_cases h1 : k' = k
    · subst h1
      have : ¬ k' = k2 := fun e => h e.symm
      simp [alookup, this]
    · by_cases h2 : k < k'
      · have : ¬ k = k2 := fun e => h e.symm
        simp [h1, h2, alookup, this]
      · by_cases h3 : k' = k2
        · subst h3; simp [h1, h2, alookup]
        · simp [h1, h2, alookup, h3, ih]

theorem alookup_aerase_ne {α : Type} (k k2 : Nat) (l : List (Nat × α)) (h : k2 ≠ k) :
    alookup k2 (aerase k l) = alookup k2 l := by
  induction l with
  | nil => rfl
  | cons x xs ih =>
    obtain ⟨k', v'⟩ := x
    unfold aerase
    by_cases h1 : k' = k
    · subst h1
      have : ¬ k' = k2 := fun e => h e.symm
      simp [alookup, this, ih]
    · by_cases h3 : k' = k2
      · subst h3; simp [h1, alookup]
      · simp [h1, alookup, h3, ih]

theorem alookup_aerase_self {α : Type} (k : Nat) (l : List (Nat × α)) : alookup k (aerase k l) = none := by
  induction l with
  | nil => rfl
  | cons x xs ih =>
    obtain ⟨k', v'⟩ := x
    unfold aerase
    by_cases h1 : k' = k
    · simp [h1, ih]
    · simp [h1, alookup, ih]

namespace App

theorem find_insertVal_self (v : Val) (l : List Val) : (insertVal v l).find? (fun x => x.op == v.op) = some v := by
  induction l with
  | nil => simp [insertVal]
  | cons x xs ih =>
    unfold insertVal
    by_cases h1 : x.op = v.op
    · simp [h1]
    · by_cases h2 : v.op < x.op
      · simp [h1, h2]
      · simp [h1, h2, List.find?_cons, ih]

theorem find_insertVal_ne (v : Val) (op : Nat) (l : List Val) (h : op ≠ v.op) :
    (insertVal v l).find? (fun x => x.op == op) = l.find? (fun x => x.op == op) := by
  induction l with
  | nil => simp [insertVal]; exact fun e => h e.symm
  | cons x xs ih =>
    unfold insertVal
    by_cases h1 : x.op = v.op
    · have h3 : ¬ x.op = op := fun e => h (by rw [← e, h1])
      have h4 : ¬ v.op = op := fun e => h e.symm
      simp [h1, List.find?_cons, h4, h3]
    · by_cases h2 : v.op < x.op
      · have h4 : ¬ v.op = op := fun e => h e.symm
        simp [h1, h2, List.find?_cons, h4]
      · by_cases h3 : x.op = op
        · subst h3; simp [h1, h2, List.find?_cons]
        · simp [h1, h2, List.find?_cons, h3, ih]

theorem getVal_setVal_self (s : App) (v : Val) : (s.setVal v).getVal v.op = some v := by
  simp [getVal, setVal, find_insertVal_self]

theorem getVal_setVal_ne (s : App) (v : Val) (op : Nat) (h : op ≠ v.op) : (s.setVal v).getVal op = s.getVal op := by
  simp only [getVal, setVal]; exact find_insertVal_ne v op s.vals h

theorem getVal_congr (a b : App) (h : a.vals = b.vals) (op : Nat) : a.getVal op = b.getVal op := by
  simp [getVal, h]

theorem getVal_op (s : App) (op : Nat) (v : Val) (h : s.getVal op = some v) : v.op = op := by
  unfold getVal at h
  have := List.find?_some h
  simpa using this

/-! frame conditions -/

@[simp] theorem updateBondedPool_getVal (s : App) (op : Nat) : s.updateBondedPool.getVal op = s.getVal op := by
  simp [getVal]

@[simp] theorem updateTotalPower_vals (s : App) : s.updateTotalPower.vals = s.vals := by simp [updateTotalPower]
@[simp] theorem updateTotalPower_dels (s : App) : s.updateTotalPower.dels = s.dels := by simp [updateTotalPower]
@[simp] theorem updateTotalPower_last (s : App) : s.updateTotalPower.last = s.last := by simp [updateTotalPower]
@[simp] theorem updateTotalPower_absCh (s : App) : s.updateTotalPower.absCh = s.absCh := by simp [updateTotalPower]
@[simp] theorem updateTotalPower_cached (s : App) : s.updateTotalPower.cached = s.cached := by simp [updateTotalPower]
@[simp] theorem updateTotalPower_height (s : App) : s.updateTotalPower.height = s.height := by simp [updateTotalPower]
@[simp] theorem updateTotalPower_pending (s : App) : s.updateTotalPower.pending = s.pending := by simp [updateTotalPower]
@[simp] theorem updateTotalPower_params (s : App) : s.updateTotalPower.params = s.params := by simp [updateTotalPower]
@[simp] theorem updateTotalPower_getVal (s : App) (op : Nat) : s.updateTotalPower.getVal op = s.getVal op := by
  simp [getVal]

/-- what `UpdateValidatorSet` leaves behind for its validator -/
theorem updateValidatorSet_spec (s : App) (newShares newPower : Int) (val : Val) :
    let s' := s.updateValidatorSet newShares newPower val
    s'.getVal val.op = some { val with tokens := toUInt64 newShares, shares := newShares * E18, status := .bonded } ∧
    alookup val.op s'.dels = some (newShares * E18) ∧ alookup val.op s'.last = some newPower ∧
    s'.absCh = s.absCh ∧ s'.cached = s.cached ∧ s'.height = s.height := by
  simp only [updateValidatorSet, updateTotalPower_getVal, updateTotalPower_dels, updateTotalPower_last,
    updateTotalPower_absCh, updateTotalPower_cached, updateTotalPower_height]
  refine ⟨?_, ?_, ?_, rfl, rfl, rfl⟩
  · simp only [setLast]
    have := getVal_setVal_self { s with dels := ainsert val.op (newShares * E18) s.dels }
      { val with tokens := toUInt64 newShares, shares := newShares * E18, status := .bonded }
    simpa [getVal, setVal] using this
  · simp [setLast, setVal, alookup_ainsert_self]
  · simp [setLast, alookup_ainsert_self]

/-! `slash` and the PoA-owned part of the state -/

/-- the components no x/staking or x/slashing primitive touches -/
def SamePoa (a b : App) : Prop :=
  a.pending = b.pending ∧ a.updated = b.updated ∧ a.cached = b.cached ∧ a.absCh = b.absCh ∧
  a.params = b.params ∧ a.height = b.height ∧ a.time = b.time

theorem SamePoa.refl (a : App) : SamePoa a a := ⟨rfl, rfl, rfl, rfl, rfl, rfl, rfl⟩

theorem burnTokens_frame (s s' : App) (st : Status) (b : Int) (h : s.burnTokens st b = .ok s') : SamePoa s' s := by
  unfold burnTokens at h
  split at h <;> split at h
  · cases h
  · cases h; exact ⟨rfl, rfl, rfl, rfl, rfl, rfl, rfl⟩
  · cases h
  · cases h; exact ⟨rfl, rfl, rfl, rfl, rfl, rfl, rfl⟩

theorem removeValidatorTokens_frame (s : App) (v : Val) (b : Int) : SamePoa (s.removeValidatorTokens v b).1 s := by
  simp [removeValidatorTokens, SamePoa]

theorem slashVal_frame (s s' : App) (v : Val) (i a : Int) (h : s.slashVal v i a = .ok s') : SamePoa s' s := by
  unfold slashVal at h
  split at h
  · cases h
  · split at h
    · cases h
    · split at h
      · cases h; exact SamePoa.refl _
      · have h1 := burnTokens_frame _ _ _ _ h
        have h2 := removeValidatorTokens_frame s v (burnAmount a v.tokens)
        obtain ⟨a1, a2, a3, a4, a5, a6, a7⟩ := h1
        obtain ⟨b1, b2, b3, b4, b5, b6, b7⟩ := h2
        exact ⟨a1.trans b1, a2.trans b2, a3.trans b3, a4.trans b4, a5.trans b5, a6.trans b6, a7.trans b7⟩

theorem slash_frame (s s' : App) (k : Nat) (i p f : Int) (h : s.slash k i p f = .ok s') : SamePoa s' s := by
  unfold slash at h
  split at h
  · cases h
  · split at h
    · cases h; exact SamePoa.refl _
    · exact slashVal_frame _ _ _ _ _ h

/-- the limit check either rejects or tops up the pool; it changes nothing else -/
theorem limitCheck_ok (lf : LimitFacts) (s s' : App) (u : Bool) (h : limitCheck lf s u = .ok s') : s' = s.updateBondedPool := by
  unfold limitCheck at h
  split at h
  · split at h
    · cases h
    · split at h
      · cases h
      · cases h; rfl
  · cases h; rfl

theorem toInt64_small (p : Nat) (h : p < 9223372036854775808) : toInt64 p = (p : Int) := by
  unfold toInt64 U64 I63
  have : p % 18446744073709551616 = p := Nat.mod_eq_of_lt (by omega)
  simp [this, h]

theorem toUInt64_nat (p : Nat) (h : p < 18446744073709551616) : toUInt64 (p : Int) = p := by
  unfold toUInt64 U64
  have : ((p : Int) % (18446744073709551616 : Int)) = (p : Int) := Int.emod_eq_of_lt (by omega) (by omega)
  simp [this]

theorem powerOfInt_nat (p : Nat) : powerOfInt (p : Int) = ((p / PR : Nat) : Int) := by
  unfold powerOfInt PR
  simp [Int.tdiv]

end App
end PoaVerif
