import PoaVerif.Lemmas.RunTotal
import PoaVerif.Lemmas.Basic
/-
  Consequences of the refinement theorems for single validators: requested effect (C03), bystanders (C03), jailed
  validators stay out (C13), the power query agrees with CometBFT (C18) — for every `Pre` state.
-/
namespace PoaVerif
namespace App

/-- the records and the power table after `ApplyAndReturnValidatorSetUpdates`, validator by validator -/
theorem applyUpdates_records (s s' : App) (c : CSet) (ups : List (Nat × Int)) (hp : PreAgree s c)
    (h : s.applyUpdates = .ok (ups, s')) :
    (∀ op v, s.getVal op = some v → ∃ w, s'.getVal op = some w ∧ w.key = v.key ∧ w.jailed = v.jailed ∧ w.op = v.op ∧
      (visitedB s s.index op = true → w.status = .bonded ∧ alookup op s'.last = some (cur v)) ∧
      (visitedB s s.index op = false → alookup op s.last ≠ none → w.status = .unbonding ∧ alookup op s'.last = none) ∧
      (visitedB s s.index op = false → alookup op s.last = none → w.status = v.status ∧ alookup op s'.last = none)) ∧
    (∀ op, s.getVal op = none → s'.getVal op = none) ∧
    (∀ op v, s.getVal op = some v →
      (visitedB s s.index op = true → emitted s s.index v → alookup v.key ups = some (cur v)) ∧
      (visitedB s s.index op = true → ¬ emitted s s.index v → alookup v.key ups = none) ∧
      (visitedB s s.index op = false → alookup op s.last ≠ none → alookup v.key ups = some 0) ∧
      (visitedB s s.index op = false → alookup op s.last = none → alookup v.key ups = none)) := by
  unfold applyUpdates at h
  cases hl : applyLoop s.params.maxVals s.index ⟨s, s.last, [], 0, 0, 0⟩ with
  | halt hh => simp [hl] at h
  | done a =>
    simp only [hl] at h
    unfold finishUpdates at h
    cases hu : unbondLoop a.last ⟨a.app, a.updates, 0⟩ with
    | error e => simp [hu] at h
    | ok u =>
      simp only [hu] at h
      cases hm : movePools u.app a.nb2b u.b2nb with
      | error e => simp [hm] at h
      | ok s2 =>
        simp only [hm] at h
        injection h with h
        have hups : ups = u.updates := (congrArg Prod.fst h).symm
        obtain ⟨m1, m2⟩ := movePools_frame _ _ _ _ hm
        have hs' : s'.last = u.app.last ∧ s'.vals = u.app.vals := by
          have := congrArg Prod.snd h
          simp only at this
          rw [← this]
          split <;> exact ⟨m1, m2⟩
        have hget : ∀ op, s'.getVal op = u.app.getVal op := fun op => getVal_congr _ _ hs'.2 op
        have hF := first_loop s hp.toPreLoop s.index [] ⟨s, s.last, [], 0, 0, 0⟩ a (by simp) hp.shadow (firstInv_init s) hl
        have hlastNd : (a.last.map (·.1)).Nodup := sublist_nodup_keys hF.lastSub hp.lastNodup
        have hS0 : SecondInv a [] ⟨a.app, a.updates, 0⟩ :=
          { ups := by simp, gone := by intro op hm; simp at hm, kept := fun _ _ => ⟨rfl, rfl⟩ }
        have hS := second_loop a a.last [] ⟨a.app, a.updates, 0⟩ u (by simpa using hlastNd) hS0 hu
        simp only [List.nil_append] at hS
        refine ⟨?_, ?_, ?_⟩
        · intro op v hv
          obtain ⟨w, g1, g2, g3, g4, g5, g6, g7⟩ := final_val s c hp a u hF hS op v hv
          exact ⟨w, by rw [hget]; exact g1, g2, g3, g4, by rw [hs'.1]; exact g5, by rw [hs'.1]; exact g6, by rw [hs'.1]; exact g7⟩
        · intro op hv
          rw [hget]; exact final_none s a u hF hS hp.lastEx op hv
        · intro op v hv
          rw [hups]; exact final_ups s c hp a u hF hS op v hv

/-- the same through maturity processing: what matters of a record once the whole EndBlocker has run -/
theorem stakingEndBlock_bonded (s s' : App) (c : CSet) (ups : List (Nat × Int)) (hp : PreAgree s c)
    (h : s.stakingEndBlock = .ok (ups, s')) :
    -- a visited candidate ends bonded with its current power recorded
    (∀ op v, s.getVal op = some v → visitedB s s.index op = true →
      ∃ w, s'.getVal op = some w ∧ w.key = v.key ∧ w.jailed = v.jailed ∧ w.status = .bonded ∧ s'.lastPower op = cur v) ∧
    -- every bonded record after the EndBlocker is the record of the same operator before it, same key, same jailed flag
    (∀ op w, s'.getVal op = some w → w.status = .bonded → ∃ v, s.getVal op = some v ∧ w.key = v.key ∧ w.jailed = v.jailed) := by
  unfold stakingEndBlock at h
  cases h1 : s.applyUpdates with
  | error e => simp [h1] at h
  | ok r =>
    obtain ⟨u1, s1⟩ := r
    simp only [h1] at h
    cases h2 : s1.unbondMature with
    | error e => simp [h2] at h
    | ok s2 =>
      simp only [h2] at h
      injection h with h
      injection h with hu hs
      subst hu; subst hs
      obtain ⟨r1, r2, _⟩ := applyUpdates_records s s1 c u1 hp h1
      unfold unbondMature at h2
      obtain ⟨hl, hf⟩ := matureSlots_frame s1.ubq s1 s2 h2
      have hr := matureSlots_rev s1.ubq s1 s2 h2
      constructor
      · intro op v hv hvis
        obtain ⟨w, g1, g2, g3, _, g5, _, _⟩ := r1 op v hv
        obtain ⟨g5a, g5b⟩ := g5 hvis
        exact ⟨w, hf op w g1 g5a, g2, g3, g5a, by simp [lastPower, hl, g5b]⟩
      · intro op w hw hb
        have hw1 := hr op w hw hb
        cases hv : s.getVal op with
        | none => rw [r2 op hv] at hw1; cases hw1
        | some v =>
          obtain ⟨w0, g1, g2, g3, _⟩ := r1 op v hv
          rw [hw1] at g1; injection g1 with g1; subst g1
          exact ⟨v, rfl, g2, g3⟩

/-- **requested effect at the EndBlocker** (C03): a candidate — un-jailed, at least one unit of power, owning an index
    entry — has exactly `tokens / 10^6` in CometBFT's next set -/
theorem effect_pre (s s' : App) (c c' : CSet) (ups : List (Nat × Int)) (hpre : Pre s c = true)
    (h : s.stakingEndBlock = .ok (ups, s')) (hc : Comet.applyChangeSet c ups = .ok c')
    (op : Nat) (v : Val) (hv : s.getVal op = some v) (hcand : hasCandEntry s v = true) :
    alookup v.key c' = some ((powerOf v.tokens : Nat) : Int) := by
  have hp := preAgree_of_pre s c hpre
  have hag := stakingEndBlock_agree s s' c c' ups hp h hc
  have hvis : visitedB s s.index op = true := by rw [← hasCandEntry_eq_visited s op v hv]; exact hcand
  obtain ⟨w, g1, g2, g3, g4, g5⟩ := (stakingEndBlock_bonded s s' c ups hp h).1 op v hv hvis
  have hj : v.jailed = false := by
    simp only [hasCandEntry, cand, Bool.and_eq_true, Bool.not_eq_true', decide_eq_true_eq] at hcand
    exact hcand.1.1
  have hwop := getVal_op _ _ _ g1
  apply (hag v.key _).mpr
  exact ⟨w, by rw [hwop]; exact g1, g4, by rw [g3, hj], g2, by rw [hwop]; exact g5⟩

/-- **a jailed validator is not in CometBFT's next set** (C13), whatever else the block did -/
theorem jailed_out_pre (s s' : App) (c c' : CSet) (ups : List (Nat × Int)) (hpre : Pre s c = true)
    (h : s.stakingEndBlock = .ok (ups, s')) (hc : Comet.applyChangeSet c ups = .ok c')
    (op : Nat) (v : Val) (hv : s.getVal op = some v) (hj : v.jailed = true) :
    alookup v.key c' = none := by
  have hp := preAgree_of_pre s c hpre
  have hag := stakingEndBlock_agree s s' c c' ups hp h hc
  cases hl : alookup v.key c' with
  | none => rfl
  | some p =>
    exfalso
    obtain ⟨w, g1, g2, g3, g4, _⟩ := (hag v.key p).mp hl
    obtain ⟨v', f1, f2, f3⟩ := (stakingEndBlock_bonded s s' c ups hp h).2 w.op w g1 g2
    have : w.op = op := hp.keyInj w.op op v' v f1 hv (by rw [← f2, g4])
    rw [this, hv] at f1
    injection f1 with f1
    rw [← f1, hj] at f3
    rw [f3] at g3
    cases g3

/-- **a validator whose recorded power is current is not mentioned** (C03, bystanders): one index entry, power table
    up to date ⇒ no update for its key -/
theorem bystander_pre (s s' : App) (c : CSet) (ups : List (Nat × Int)) (hpre : Pre s c = true)
    (h : s.stakingEndBlock = .ok (ups, s'))
    (op : Nat) (v : Val) (hv : s.getVal op = some v) (hcand : cand v = true) (h1 : occ op s.index = 1)
    (hl : alookup op s.last = some ((powerOf v.tokens : Nat) : Int)) :
    alookup v.key ups = none := by
  have hp := preAgree_of_pre s c hpre
  unfold stakingEndBlock at h
  cases ha : s.applyUpdates with
  | error e => simp [ha] at h
  | ok r =>
    obtain ⟨u1, s1⟩ := r
    simp only [ha] at h
    cases h2 : s1.unbondMature with
    | error e => simp [h2] at h
    | ok s2 =>
      simp only [h2] at h
      injection h with h
      injection h with hu _
      subst hu
      obtain ⟨_, _, r3⟩ := applyUpdates_records s s1 c u1 hp ha
      have hvis : visitedB s s.index op = true := by simp [visitedB, hv, hcand, h1]
      have hvop := getVal_op s op v hv
      apply (r3 op v hv).2.1 hvis
      unfold emitted
      rw [hvop, h1]
      rintro (⟨_, hne⟩ | h2)
      · exact hne hl
      · omega

/-- **the power query and CometBFT agree** (C18): after the EndBlocker, for every record — the key of a bonded,
    un-jailed validator carries the queried power; the key of any other record is absent -/
theorem query_agrees_pre (s s' : App) (c c' : CSet) (ups : List (Nat × Int)) (hpre : Pre s c = true)
    (h : s.stakingEndBlock = .ok (ups, s')) (hc : Comet.applyChangeSet c ups = .ok c')
    (op : Nat) (w : Val) (hw : s'.getVal op = some w) (hb : w.status = .bonded) (hj : w.jailed = false) :
    alookup w.key c' = some (s'.lastPower op) := by
  have hp := preAgree_of_pre s c hpre
  have hag := stakingEndBlock_agree s s' c c' ups hp h hc
  have hwop := getVal_op _ _ _ hw
  exact (hag w.key _).mpr ⟨w, by rw [hwop]; exact hw, hb, hj, rfl, by rw [hwop]⟩


theorem mem_idxInsert_self (e : Nat × Nat) : ∀ l : List (Nat × Nat), e ∈ idxInsert e l
  | [] => by simp [idxInsert]
  | x :: xs => by
    unfold idxInsert
    split
    · rename_i h; simp [h]
    · split
      · simp
      · simp [mem_idxInsert_self e xs]

/-- the assignment branch of `SetPOAPower` leaves an index entry at the new power for an un-jailed validator, and
    keeps the jailed flag -/
theorem setPOAPowerVal_entry (s s' : App) (v : Val) (n : Int) (h : s.setPOAPowerVal v n = .ok s') (hn : n ≠ 0) :
    (v.jailed = false → (powerOf (toUInt64 n), v.op) ∈ s'.index) ∧
    ∃ w, s'.getVal v.op = some w ∧ w.jailed = v.jailed ∧ w.key = v.key := by
  unfold setPOAPowerVal at h
  split at h
  · exact absurd h (by simp)
  · unfold poaBranch at h
    have hz : (n = 0 && decide (s.lastPower v.op > 0)) = false := by simp [hn]
    simp only [hz, Bool.false_eq_true, ↓reduceIte] at h
    injection h with h
    subst h
    constructor
    · intro hj
      have : ((s.poaAssignBranch { v with tokens := toUInt64 n } (powerOfInt n)).bumpAbs (absDiff (powerOfInt n) (s.lastPower v.op))).index =
          idxInsert (powerOf (toUInt64 n), v.op) s.index := by
        simp [poaAssignBranch, bumpAbs, setIdx, setLast, hj]
      have h2 : ∀ (x : App) (a b : Int) (val : Val), (x.updateValidatorSet a b val).index = x.index := by
        intro x a b val
        simp only [updateValidatorSet, updateTotalPower, updateBondedPool]
        split <;> simp [setLast, setVal]
      rw [h2, this]
      exact mem_idxInsert_self _ _
    · have spec := updateValidatorSet_spec ((s.poaAssignBranch { v with tokens := toUInt64 n } (powerOfInt n)).bumpAbs (absDiff (powerOfInt n) (s.lastPower v.op))) n (powerOfInt n) { v with tokens := toUInt64 n }
      simp only at spec
      exact ⟨_, spec.1, rfl, rfl⟩



end App
end PoaVerif
