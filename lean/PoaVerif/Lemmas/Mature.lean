import PoaVerif.Lemmas.Queue
import PoaVerif.Lemmas.Pools
import PoaVerif.Lemmas.RunRefine
/-
  `UnbondAllMatureValidators` after a `Pre` EndBlock cannot fail: the queue invariant (every queued operator is an
  Unbonding record filed once, under its own completion time and height, in ascending slots; an emptied record holds
  no tokens) is carried through both loops of `ApplyAndReturnValidatorSetUpdates`, and under it every queued
  operator the maturity loop meets is an Unbonding record it can complete or delete.
-/
namespace PoaVerif
namespace App

structure QInv (x : App) : Prop where
  sorted : qSorted x.ubq
  nodup : ((qEntries x.ubq).map (·.2)).Nodup
  recs : ∀ e ∈ qEntries x.ubq, ∃ v, x.getVal e.2 = some v ∧ v.status = .unbonding ∧ v.ubTime = e.1.1 ∧ v.ubHeight = e.1.2
  sound : ∀ op v, x.getVal op = some v → (v.shares ≠ 0 ∨ v.tokens = 0)

theorem qinv_congr (x y : App) (h1 : y.ubq = x.ubq) (h2 : y.vals = x.vals) (h : QInv x) : QInv y where
  sorted := by rw [h1]; exact h.sorted
  nodup := by rw [h1]; exact h.nodup
  recs := by
    intro e he
    rw [h1] at he
    obtain ⟨v, hv, r⟩ := h.recs e he
    exact ⟨v, by rw [getVal_congr y x h2]; exact hv, r⟩
  sound := by
    intro op v hv
    rw [getVal_congr y x h2] at hv
    exact h.sound op v hv

/-! ### the two state changes that touch the queue -/

theorem bondValidator_q (x : App) (w : Val) (hw : x.getVal w.op = some w) (hq : QInv x) : QInv (x.bondValidator w).1 := by
  obtain ⟨_, b2, b3, b4⟩ := bondValidator_spec x w
  have hubq : (x.bondValidator w).1.ubq = ubqDeleteSlot (w.ubTime, w.ubHeight) w.op x.ubq := by
    unfold bondValidator hookBonded
    dsimp only
    split <;> simp [setInfo, ubqDelete, setIdx, setVal, delIdx] <;> split <;> simp
  exact {
    sorted := by rw [hubq]; exact sorted_delete _ _ _ hq.sorted
    nodup := by rw [hubq]; exact hq.nodup.sublist ((entries_delete_sublist _ _ _).map _)
    recs := by
      intro e he
      rw [hubq] at he
      have he0 := (entries_delete_sublist _ _ _).subset he
      obtain ⟨v, hv, r1, r2, r3⟩ := hq.recs e he0
      by_cases hop : e.2 = w.op
      · exfalso
        rw [hop, hw] at hv
        injection hv with hv
        subst hv
        have : e = ((w.ubTime, w.ubHeight), w.op) := by
          cases e with
          | mk k o => cases k with
            | mk t hh => simp only at hop r2 r3; subst hop; rw [r2, r3]
        rw [this] at he
        exact entries_delete_gone _ _ _ hq.sorted he
      · exact ⟨v, by rw [b4 e.2 hop]; exact hv, r1, r2, r3⟩
    sound := by
      intro op v hv
      by_cases hop : op = w.op
      · subst hop
        rw [b2, b3] at hv
        injection hv with hv
        subst hv
        exact hq.sound w.op w hw
      · rw [b4 op hop] at hv
        exact hq.sound op v hv }

theorem beginUnbonding_q (x : App) (w : Val) (hw : x.getVal w.op = some w) (hb : w.status = .bonded) (hq : QInv x) :
    QInv (x.beginUnbonding w).1 := by
  obtain ⟨_, s2⟩ := beginUnbonding_spec x w
  obtain ⟨w', hw', hst, _, _⟩ := beginUnbonding_self x w hw
  have hubq : ∃ t h, (x.beginUnbonding w).1.ubq = ubqInsertSlot (t, h) w.op x.ubq ∧
      ∃ v', (x.beginUnbonding w).1.getVal w.op = some v' ∧ v'.status = .unbonding ∧ v'.ubTime = t ∧ v'.ubHeight = h ∧
        v'.shares = w.shares ∧ v'.tokens = w.tokens := by
    refine ⟨x.time + x.params.unbond, x.height, ?_, { w with status := .unbonding, ubTime := x.time + x.params.unbond, ubHeight := x.height }, ?_, rfl, rfl, rfl, rfl, rfl⟩
    · unfold beginUnbonding
      dsimp only
      simp [ubqInsert, setIdx, setVal, delIdx]
      split <;> simp
    · unfold beginUnbonding
      dsimp only
      rw [getVal_congr _ ((x.delIdx w).setVal { w with status := .unbonding, ubTime := (x.delIdx w).time + (x.delIdx w).params.unbond, ubHeight := (x.delIdx w).height }) (by simp)]
      have := getVal_setVal_self (x.delIdx w) { w with status := .unbonding, ubTime := (x.delIdx w).time + (x.delIdx w).params.unbond, ubHeight := (x.delIdx w).height }
      simpa using this
  obtain ⟨t, h, hu, v', hv', v1, v2, v3, v4, v5⟩ := hubq
  have hnot : w.op ∉ (qEntries x.ubq).map (·.2) := by
    intro hm
    obtain ⟨e, he, heo⟩ := List.mem_map.mp hm
    obtain ⟨v, hv, r1, _⟩ := hq.recs e he
    rw [heo, hw] at hv
    injection hv with hv
    rw [← hv, hb] at r1
    cases r1
  exact {
    sorted := by rw [hu]; exact sorted_insert _ _ _ hq.sorted
    nodup := by rw [hu]; exact nodup_entries_insert _ _ _ hq.nodup hnot
    recs := by
      intro e he
      rw [hu, mem_entries_insert] at he
      rcases he with he | he
      · subst he
        exact ⟨v', hv', v1, v2, v3⟩
      · have hop : e.2 ≠ w.op := by
          intro hop
          exact hnot (List.mem_map.mpr ⟨e, he, hop⟩)
        obtain ⟨v, hv, r⟩ := hq.recs e he
        exact ⟨v, by rw [s2 e.2 hop]; exact hv, r⟩
    sound := by
      intro op v hv
      by_cases hop : op = w.op
      · subst hop
        rw [hv'] at hv
        injection hv with hv
        subst hv
        rw [v4, v5]
        exact hq.sound w.op w hw
      · rw [s2 op hop] at hv
        exact hq.sound op v hv }

/-! ### through the two loops -/

theorem visit_q (acc a1 : LoopAcc) (op : Nat) (hq : QInv acc.app) (h : visit acc op = .next a1) : QInv a1.app := by
  unfold visit at h
  cases hv : acc.app.getVal op with
  | none => simp [hv] at h
  | some w =>
    simp only [hv] at h
    have hwop := getVal_op _ _ _ hv
    unfold visitVal at h
    split at h
    · cases h
    · split at h
      · cases h
      · injection h with h
        subst h
        have hb : QInv (acc.app.bondIfNeeded w).1 := by
          unfold bondIfNeeded
          split
          · exact hq
          · exact bondValidator_q acc.app w (by rw [hwop]; exact hv) hq
        dsimp only
        split
        · exact qinv_congr _ _ (by simp) (by simp) hb
        · exact hb

theorem loop_q (maxV : Nat) : ∀ (rest : List (Nat × Nat)) (acc a : LoopAcc), QInv acc.app →
    applyLoop maxV rest acc = .done a → QInv a.app
  | [], acc, a, hq, h => by simp [applyLoop] at h; subst h; exact hq
  | e :: rest, acc, a, hq, h => by
    unfold applyLoop at h
    split at h
    · cases hv : visit acc e.2 with
      | halt hh => simp [hv, loopCont] at h
      | skip => simp only [hv, loopCont] at h; exact loop_q maxV rest acc a hq h
      | stop => simp only [hv, loopCont] at h; injection h with h; subst h; exact hq
      | next a1 => simp only [hv, loopCont] at h; exact loop_q maxV rest a1 a (visit_q acc a1 e.2 hq hv) h
    · injection h with h; subst h; exact hq

theorem unbondOne_q (u u1 : UnbAcc) (op : Nat) (hq : QInv u.app) (h : unbondOne u op = .ok u1) : QInv u1.app := by
  unfold unbondOne at h
  cases hv : u.app.getVal op with
  | none => simp [hv] at h
  | some w =>
    simp only [hv] at h
    have hwop := getVal_op _ _ _ hv
    split at h
    · cases h
    · rename_i hb
      have hb' : w.status = .bonded := by simpa using hb
      injection h with h
      subst h
      exact qinv_congr _ _ (by simp) (by simp) (beginUnbonding_q u.app w (by rw [hwop]; exact hv) hb' hq)

theorem unbondLoop_q : ∀ (rem : List (Nat × Int)) (u u' : UnbAcc), QInv u.app → unbondLoop rem u = .ok u' → QInv u'.app
  | [], u, u', hq, h => by simp [unbondLoop] at h; subst h; exact hq
  | (op, _) :: rem, u, u', hq, h => by
    unfold unbondLoop at h
    cases h1 : unbondOne u op with
    | error e => simp [h1] at h
    | ok u1 =>
      simp only [h1] at h
      exact unbondLoop_q rem u1 u' (unbondOne_q u u1 op hq h1) h

/-- `ApplyAndReturnValidatorSetUpdates` preserves the queue invariant -/
theorem applyUpdates_q (s s' : App) (ups : List (Nat × Int)) (hq : QInv s) (h : s.applyUpdates = .ok (ups, s')) : QInv s' := by
  unfold applyUpdates at h
  cases hl : applyLoop s.params.maxVals s.index ⟨s, s.last, [], 0, 0, 0⟩ with
  | halt hh => simp [hl] at h
  | done a =>
    simp only [hl] at h
    unfold finishUpdates at h
    cases hu : unbondLoop a.last ⟨a.app, a.updates, 0⟩ with
    | error e => simp [hu] at h
    | ok u =>
      simp only [hu] at h
      cases hm : movePools u.app a.nb2b u.b2nb with
      | error e => simp [hm] at h
      | ok s2 =>
        simp only [hm] at h
        injection h with h
        have q1 := loop_q s.params.maxVals s.index _ a hq hl
        have q2 := unbondLoop_q a.last _ u q1 hu
        have hs2 : s2.ubq = u.app.ubq ∧ s2.vals = u.app.vals := by
          unfold movePools at hm
          split at hm
          · dsimp only at hm
            split at hm
            · cases hm
            · cases hm; exact ⟨rfl, rfl⟩
          · split at hm
            · dsimp only at hm
              split at hm
              · cases hm
              · cases hm; exact ⟨rfl, rfl⟩
            · cases hm; exact ⟨rfl, rfl⟩
        have := congrArg Prod.snd h
        simp only at this
        rw [← this]
        split
        · exact qinv_congr _ _ hs2.1 hs2.2 q2
        · exact qinv_congr _ _ (by simp [hs2.1]) (by simp [hs2.2]) q2

/-! ### maturity processing -/

/-- what the maturity loop needs of a queued operator -/
def Ripe (x : App) (op : Nat) : Prop := ∃ v, x.getVal op = some v ∧ v.status = .unbonding ∧ (v.shares ≠ 0 ∨ v.tokens = 0)

theorem matureOne_total (x : App) (op : Nat) (h : Ripe x op) :
    ∃ x', x.matureOne op = .ok x' ∧ ∀ op2, op2 ≠ op → x'.getVal op2 = x.getVal op2 := by
  obtain ⟨v, hv, hst, hsh⟩ := h
  have hvop := getVal_op _ _ _ hv
  unfold matureOne
  rw [hv]
  simp only [hst, bne_self_eq_false, Bool.false_eq_true, ↓reduceIte]
  by_cases h0 : v.shares = 0
  · have ht : v.tokens = 0 := by rcases hsh with h | h; exact absurd h0 h; exact h
    have hc : ({ v with status := Status.unbonded } : Val).shares = 0 := h0
    rw [if_pos hc]
    unfold removeValidatorRecord
    have hng : ¬ ({ v with status := Status.unbonded } : Val).tokens > 0 := by simp [ht]
    rw [if_neg hng]
    refine ⟨_, rfl, ?_⟩
    intro op2 hne
    rw [getVal_congr _ ((x.setVal { v with status := .unbonded }).delVal v.op) (by simp [ubqDelete, delIdx])]
    rw [getVal_delVal_ne _ _ _ (by rw [hvop]; exact hne), getVal_setVal_ne _ _ _ (by simpa [hvop] using hne)]
  · have hc : ¬ ({ v with status := Status.unbonded } : Val).shares = 0 := h0
    rw [if_neg hc]
    refine ⟨_, rfl, ?_⟩
    intro op2 hne
    rw [getVal_congr _ (x.setVal { v with status := .unbonded }) (by simp [ubqDelete])]
    rw [getVal_setVal_ne _ _ _ (by simpa [hvop] using hne)]

theorem matureOps_total : ∀ (ops : List Nat) (x : App), (∀ op ∈ ops, Ripe x op) → ops.Nodup →
    ∃ x', matureOps ops x = .ok x' ∧ ∀ op2, op2 ∉ ops → x'.getVal op2 = x.getVal op2
  | [], x, _, _ => ⟨x, by simp [matureOps], fun _ _ => rfl⟩
  | op :: ops, x, hr, hn => by
    have ⟨hn1, hn2⟩ := List.nodup_cons.mp hn
    obtain ⟨x1, h1, f1⟩ := matureOne_total x op (hr op (by simp))
    have hr1 : ∀ o ∈ ops, Ripe x1 o := by
      intro o ho
      have hne : o ≠ op := by intro e; subst e; exact hn1 ho
      obtain ⟨v, hv, r⟩ := hr o (by simp [ho])
      exact ⟨v, by rw [f1 o hne]; exact hv, r⟩
    obtain ⟨x2, h2, f2⟩ := matureOps_total ops x1 hr1 hn2
    refine ⟨x2, by unfold matureOps; rw [h1]; exact h2, ?_⟩
    intro op2 hnot
    simp only [List.mem_cons, not_or] at hnot
    rw [f2 op2 hnot.2, f1 op2 hnot.1]

theorem matureSlots_total : ∀ (slots : Ubq) (x : App), (∀ op ∈ slots.flatMap (·.2), Ripe x op) → (slots.flatMap (·.2)).Nodup →
    ∃ x', matureSlots slots x = .ok x'
  | [], x, _, _ => ⟨x, by simp [matureSlots]⟩
  | ((t, hh), ops) :: rest, x, hr, hn => by
    simp only [List.flatMap_cons, List.nodup_append] at hn
    obtain ⟨hn1, hn2, hn3⟩ := hn
    unfold matureSlots
    split
    · obtain ⟨x1, h1, f1⟩ := matureOps_total ops x (fun op ho => hr op (by simp [ho])) hn1
      rw [h1]
      simp only
      apply matureSlots_total rest x1 _ hn2
      intro o ho
      have hne : o ∉ ops := fun hm => hn3 o hm o ho rfl
      obtain ⟨v, hv, r⟩ := hr o (by simp only [List.flatMap_cons, List.mem_append]; right; exact ho)
      exact ⟨v, by rw [f1 o hne]; exact hv, r⟩
    · exact matureSlots_total rest x (fun o ho => hr o (by simp only [List.flatMap_cons, List.mem_append]; right; exact ho)) hn2

theorem entries_ops (q : Ubq) : (qEntries q).map (·.2) = q.flatMap (·.2) := by
  induction q with
  | nil => rfl
  | cons s q ih =>
    simp only [qEntries_cons, List.map_append, List.map_map, ih, List.flatMap_cons]
    congr 1
    induction s.2 with
    | nil => rfl
    | cons o l ih2 => simp [ih2]

theorem unbondMature_total (x : App) (hq : QInv x) : ∃ x', x.unbondMature = .ok x' := by
  unfold unbondMature
  apply matureSlots_total
  · intro op hop
    rw [← entries_ops] at hop
    obtain ⟨e, he, heo⟩ := List.mem_map.mp hop
    obtain ⟨v, hv, r1, _, _⟩ := hq.recs e he
    rw [heo] at hv
    exact ⟨v, hv, r1, hq.sound op v hv⟩
  · rw [← entries_ops]; exact hq.nodup

/-! ### from the Boolean `Pre` -/

theorem kLt_all_of_sortedB : ∀ (a : (Int × Int) × List Nat) (l : Ubq), ubqSortedB (a :: l) = true → ∀ y ∈ l, kLt a.1 y.1
  | _, [], _, y, hy => by cases hy
  | a, b :: l, h, y, hy => by
    simp only [ubqSortedB, Bool.and_eq_true, decide_eq_true_eq] at h
    rcases List.mem_cons.mp hy with e | e
    · rw [e]; exact h.1
    · exact kLt_trans h.1 (kLt_all_of_sortedB b l h.2 y e)

theorem sortedB_tail (a : (Int × Int) × List Nat) (l : Ubq) (h : ubqSortedB (a :: l) = true) : ubqSortedB l = true := by
  cases l with
  | nil => rfl
  | cons b l => simp only [ubqSortedB, Bool.and_eq_true] at h; exact h.2

theorem qSorted_of_sortedB : ∀ (q : Ubq), ubqSortedB q = true → qSorted q
  | [], _ => List.Pairwise.nil
  | a :: l, h => List.pairwise_cons.mpr ⟨kLt_all_of_sortedB a l h, qSorted_of_sortedB l (sortedB_tail a l h)⟩

theorem qinv_of_pre (s : App) (c : CSet) (h : Pre s c = true) : QInv s := by
  unfold Pre at h
  simp only [Bool.and_eq_true] at h
  obtain ⟨⟨⟨⟨⟨⟨⟨⟨⟨⟨⟨⟨⟨⟨⟨⟨⟨⟨h1, h2a⟩, h2b⟩, h3⟩, h4a⟩, h4b⟩, h4c⟩, h4d⟩, h5⟩, h6⟩, h7⟩, h8⟩, h9a⟩, h9b⟩, h11a⟩, h11b⟩, h11c⟩, h10a⟩, h10b⟩ := h
  obtain ⟨⟨_, hsorted⟩, hsound⟩ := h11c
  exact {
    sorted := qSorted_of_sortedB _ hsorted
    nodup := by rw [entries_ops]; exact (nodupNat_iff _).mp h11b
    recs := by
      intro e he
      simp only [qEntries, List.mem_flatMap, List.mem_map] at he
      obtain ⟨slot, hslot, op, hop, heq⟩ := he
      have := List.all_eq_true.mp (List.all_eq_true.mp h11a slot hslot) op hop
      subst heq
      cases hv : s.getVal op with
      | none => simp [hv] at this
      | some v =>
        simp only [hv, Bool.and_eq_true, beq_iff_eq] at this
        exact ⟨v, rfl, this.1.2, this.1.1.1, this.1.1.2⟩
    sound := by
      intro op v hv
      have := List.all_eq_true.mp hsound v (mem_of_getVal s op v hv)
      simp only [Bool.or_eq_true, bne_iff_ne, ne_eq, beq_iff_eq] at this
      exact this }

/-- **x/staking's EndBlocker on a `Pre` state**: it does not fail, CometBFT accepts the update list, and the
    resulting set is the chain's own -/
theorem stakingEndBlock_pre (s : App) (c : CSet) (h : Pre s c = true) :
    ∃ ups s' c', s.stakingEndBlock = .ok (ups, s') ∧ Comet.applyChangeSet c ups = .ok c' ∧ Agree c' s' := by
  obtain ⟨ups, s1, c', h1, h2, _⟩ := applyUpdates_pre s c h
  have q1 := applyUpdates_q s s1 ups (qinv_of_pre s c h) h1
  obtain ⟨s2, h3⟩ := unbondMature_total s1 q1
  have he : s.stakingEndBlock = .ok (ups, s2) := by
    unfold stakingEndBlock
    rw [h1]
    simp only [h3]
  exact ⟨ups, s2, c', he, h2, stakingEndBlock_agree s s2 c c' ups (preAgree_of_pre s c h) he h2⟩

end App
end PoaVerif
