import PoaVerif.Lemmas.ListAux
import PoaVerif.Lemmas.EndBlock
/-
  One EndBlock refines the abstract validator set: under `Pre`, the update list x/staking's
  `ApplyAndReturnValidatorSetUpdates` produces is accepted by CometBFT and leaves CometBFT's set equal to the chain's
  own set (bonded, un-jailed validators with their recorded powers).
-/
namespace PoaVerif
namespace App

/-- current voting power of a record -/
def cur (v : Val) : Int := ((powerOf v.tokens : Nat) : Int)

/-- `op` is a candidate one of whose index entries lies in the processed prefix -/
def visitedB (s : App) (done : List (Nat × Nat)) (op : Nat) : Bool :=
  match s.getVal op with
  | some v => cand v && decide (occ op done > 0)
  | none => false

/-- the first loop has emitted an update for `v` while processing `done` -/
def emitted (s : App) (done : List (Nat × Nat)) (v : Val) : Prop :=
  (occ v.op done ≥ 1 ∧ alookup v.op s.last ≠ some (cur v)) ∨ occ v.op done ≥ 2

def candCount (s : App) (l : List (Nat × Nat)) : Nat :=
  (l.filter (fun e => match s.getVal e.2 with | some v => cand v | none => false)).length

/-- the facts about the state entering the EndBlocker that the first loop needs -/
structure PreLoop (s : App) : Prop where
  exists_ : ∀ e ∈ s.index, (s.getVal e.2).isSome = true
  keyInj : ∀ op1 op2 v1 v2, s.getVal op1 = some v1 → s.getVal op2 = some v2 → v1.key = v2.key → op1 = op2
  occ2 : ∀ op v, s.getVal op = some v → cand v = true → occ op s.index ≤ 2 ∧ (occ op s.index = 2 → alookup op s.last = some (cur v))
  noCut : candCount s s.index ≤ s.params.maxVals

/-- invariant of the first loop after the prefix `done` of the index snapshot -/
structure FirstInv (s : App) (done : List (Nat × Nat)) (acc : LoopAcc) : Prop where
  stableSome : ∀ op v, s.getVal op = some v → ∃ w, acc.app.getVal op = some w ∧ w.op = v.op ∧ w.key = v.key ∧
      w.jailed = v.jailed ∧ w.tokens = v.tokens ∧ w.status = (if visitedB s done op then Status.bonded else v.status)
  stableNone : ∀ op, s.getVal op = none → acc.app.getVal op = none
  lastV : ∀ op v, s.getVal op = some v → visitedB s done op = true →
      alookup op acc.app.last = some (cur v) ∧ alookup op acc.last = none
  lastN : ∀ op, visitedB s done op = false →
      alookup op acc.app.last = alookup op s.last ∧ alookup op acc.last = alookup op s.last
  upsSound : ∀ k p, (k, p) ∈ acc.updates → ∃ v, s.getVal v.op = some v ∧ cand v = true ∧ v.key = k ∧ p = cur v ∧ emitted s done v
  upsComplete : ∀ v, s.getVal v.op = some v → cand v = true → emitted s done v → (v.key, cur v) ∈ acc.updates
  upsNodup : (acc.updates.map (·.1)).Nodup
  count : acc.count = candCount s done
  lastSub : acc.last.Sublist s.last
  tot : acc.total = idxPow s done
  upsSum : sumInts (acc.updates.map (·.2)) ≤ acc.total

theorem idxPow_append (s : App) : ∀ (a b : List (Nat × Nat)), idxPow s (a ++ b) = idxPow s a + idxPow s b
  | [], b => by simp [idxPow]
  | e :: a, b => by simp only [List.cons_append, idxPow, idxPow_append s a b]; omega

theorem sumInts_snoc (l : List Int) (x : Int) : sumInts (l ++ [x]) = sumInts l + x := by
  simp [sumInts, List.foldl_append]

theorem aerase_sublist {α : Type} (k : Nat) : ∀ l : List (Nat × α), (aerase k l).Sublist l
  | [] => List.Sublist.slnil
  | (k', v') :: xs => by
    unfold aerase
    split
    · exact (aerase_sublist k xs).cons _
    · exact (aerase_sublist k xs).cons_cons _

theorem candCount_append (s : App) (a b : List (Nat × Nat)) : candCount s (a ++ b) = candCount s a + candCount s b := by
  simp [candCount, List.filter_append]

theorem visitedB_append_other (s : App) (done : List (Nat × Nat)) (e : Nat × Nat) (op : Nat) (h : op ≠ e.2) :
    visitedB s (done ++ [e]) op = visitedB s done op := by
  unfold visitedB
  cases s.getVal op with
  | none => rfl
  | some v =>
    simp only
    rw [occ_append, occ_single]
    have : ¬ e.2 = op := fun x => h x.symm
    simp [this]

theorem emitted_append_other (s : App) (done : List (Nat × Nat)) (e : Nat × Nat) (v : Val) (h : v.op ≠ e.2) :
    emitted s (done ++ [e]) v ↔ emitted s done v := by
  unfold emitted
  rw [occ_append, occ_single]
  have : ¬ e.2 = v.op := fun x => h x.symm
  simp [this]

/-- initial state of the loop -/
theorem firstInv_init (s : App) : FirstInv s [] ⟨s, s.last, [], 0, 0, 0⟩ where
  stableSome := by
    intro op v hv
    refine ⟨v, hv, rfl, rfl, rfl, rfl, ?_⟩
    simp [visitedB, hv, occ]
  stableNone := fun _ h => h
  lastV := by
    intro op v hv hvis
    simp [visitedB, hv, occ] at hvis
  lastN := fun _ _ => ⟨rfl, rfl⟩
  upsSound := by intro k p h; simp at h
  upsComplete := by
    intro v _ _ he
    unfold emitted at he
    simp [occ] at he
  upsNodup := by simp
  count := by simp [candCount]
  lastSub := List.Sublist.refl _
  tot := rfl
  upsSum := by simp [sumInts]


theorem bondIfNeeded_key (s : App) (v : Val) : (s.bondIfNeeded v).2.1.key = v.key := by
  unfold bondIfNeeded
  split
  · rfl
  · simp [bondValidator]

/-- a non-candidate entry: the loop skips it or stops at it, the invariant carries over unchanged -/
theorem first_step_noncand (s : App) (done : List (Nat × Nat)) (e : Nat × Nat) (acc : LoopAcc) (v : Val)
    (hv : s.getVal e.2 = some v) (hc : cand v = false) (hinv : FirstInv s done acc) :
    (visit acc e.2 = .skip ∨ visit acc e.2 = .stop) ∧ FirstInv s (done ++ [e]) acc := by
  obtain ⟨w, hw, _, _, hwj, hwt, _⟩ := hinv.stableSome e.2 v hv
  have hvis_e : ∀ d, visitedB s d e.2 = false := by
    intro d; simp [visitedB, hv, hc]
  have hvisEq : ∀ op, visitedB s (done ++ [e]) op = visitedB s done op := by
    intro op
    by_cases h : op = e.2
    · subst h; rw [hvis_e, hvis_e]
    · exact visitedB_append_other s done e op h
  have hemEq : ∀ v', s.getVal v'.op = some v' → cand v' = true → (emitted s (done ++ [e]) v' ↔ emitted s done v') := by
    intro v' hv' hc'
    apply emitted_append_other
    intro h
    rw [h, hv] at hv'
    injection hv' with hv'
    rw [← hv', hc] at hc'
    cases hc'
  constructor
  · unfold visit
    rw [hw]
    simp only
    unfold visitVal
    unfold cand at hc
    by_cases hj : w.jailed = true
    · left; simp [hj]
    · right
      have hj' : v.jailed = false := by rw [← hwj]; simpa using hj
      have hp : powerOf w.tokens = 0 := by
        rw [hwt]
        simp only [hj', Bool.not_false, Bool.true_and, decide_eq_false_iff_not] at hc
        omega
      simp [hj, hp]
  · exact {
      stableSome := by
        intro op v' hv'
        rw [hvisEq]
        exact hinv.stableSome op v' hv'
      stableNone := hinv.stableNone
      lastV := by
        intro op v' hv' hvis
        rw [hvisEq] at hvis
        exact hinv.lastV op v' hv' hvis
      lastN := by
        intro op hvis
        rw [hvisEq] at hvis
        exact hinv.lastN op hvis
      upsSound := by
        intro k p hkp
        obtain ⟨v', h1, h2, h3, h4, h5⟩ := hinv.upsSound k p hkp
        exact ⟨v', h1, h2, h3, h4, (hemEq v' h1 h2).mpr h5⟩
      upsComplete := by
        intro v' h1 h2 h3
        exact hinv.upsComplete v' h1 h2 ((hemEq v' h1 h2).mp h3)
      upsNodup := hinv.upsNodup
      count := by
        rw [candCount_append, hinv.count]
        simp [candCount, hv, hc]
      lastSub := hinv.lastSub
      tot := by rw [idxPow_append, ← hinv.tot]; simp [idxPow, hv, hc]
      upsSum := hinv.upsSum }


/-- a candidate entry: the loop visits it; the invariant extends to the longer prefix -/
theorem first_step_cand (s : App) (hp : PreLoop s) (done rest : List (Nat × Nat)) (e : Nat × Nat) (acc : LoopAcc) (v : Val)
    (hsplit : s.index = done ++ e :: rest)
    (hv : s.getVal e.2 = some v) (hc : cand v = true) (hinv : FirstInv s done acc) :
    ∃ a, visit acc e.2 = .next a ∧ FirstInv s (done ++ [e]) a := by
  obtain ⟨w, hw, hwop, hwkey, hwj, hwt, _⟩ := hinv.stableSome e.2 v hv
  have hvop : v.op = e.2 := getVal_op s e.2 v hv
  have hwop' : w.op = e.2 := by rw [hwop, hvop]
  have hcj : v.jailed = false ∧ powerOf v.tokens > 0 := by
    unfold cand at hc
    simp only [Bool.and_eq_true, Bool.not_eq_true', decide_eq_true_eq] at hc
    exact hc
  have hwj' : w.jailed = false := by rw [hwj]; exact hcj.1
  have hwp : ¬ powerOf w.tokens = 0 := by rw [hwt]; omega
  -- the bonding step
  have hwget : acc.app.getVal w.op = some w := by rw [hwop']; exact hw
  obtain ⟨b1, b2, b3, b4, b5, b6, b7⟩ := bondIfNeeded_spec acc.app w hwget
  have bkey := bondIfNeeded_key acc.app w
  generalize hr : acc.app.bondIfNeeded w = r at b1 b2 b3 b4 b5 b6 b7 bkey
  have hnp : ((powerOf r.2.1.tokens : Nat) : Int) = cur v := by
    unfold cur; rw [b5, hwt]
  -- the visit
  have hvisit : visit acc e.2 = .next
      { app := if (alookup w.op acc.last != some ((powerOf r.2.1.tokens : Nat) : Int)) then r.1.setLast w.op ((powerOf r.2.1.tokens : Nat) : Int) else r.1
        last := aerase w.op acc.last
        updates := if (alookup w.op acc.last != some ((powerOf r.2.1.tokens : Nat) : Int)) then acc.updates ++ [(r.2.1.key, ((powerOf r.2.1.tokens : Nat) : Int))] else acc.updates
        total := acc.total + ((powerOf r.2.1.tokens : Nat) : Int)
        nb2b := acc.nb2b + r.2.2
        count := acc.count + 1 } := by
    unfold visit
    rw [hw]
    simp only
    unfold visitVal
    simp only [hwj', Bool.false_eq_true, ↓reduceIte, hwp, hr]
  refine ⟨_, hvisit, ?_⟩
  rw [hwop', hnp, bkey, hwkey]
  generalize hch : (alookup e.2 acc.last != some (cur v)) = changed
  -- occurrences of this operator in the prefix
  have hocc_idx : occ e.2 s.index = occ e.2 done + 1 + occ e.2 rest := by
    rw [hsplit, occ_append, occ_cons]; simp; omega
  have hocc2 := hp.occ2 e.2 v hv hc
  have hvisNew : visitedB s (done ++ [e]) e.2 = true := by
    simp [visitedB, hv, hc, occ_append, occ_single]
  -- was it visited before?
  have hcase : (occ e.2 done = 0 ∧ visitedB s done e.2 = false) ∨ (occ e.2 done = 1 ∧ visitedB s done e.2 = true ∧ occ e.2 s.index = 2) := by
    by_cases h0 : occ e.2 done = 0
    · left; exact ⟨h0, by simp [visitedB, hv, h0]⟩
    · right
      have : occ e.2 done = 1 := by omega
      exact ⟨this, by simp [visitedB, hv, hc, this], by omega⟩
  -- `changed` is exactly "this visit emits", and nothing was emitted for this key before when it does
  have hchanged : changed = true ↔ emitted s (done ++ [e]) v := by
    unfold emitted
    rw [hvop, occ_append, occ_single]
    simp only [↓reduceIte]
    rcases hcase with ⟨h0, hvf⟩ | ⟨h1, hvt, h2⟩
    · have hl := (hinv.lastN e.2 hvf).2
      rw [← hch, hl, h0]
      simp
    · have hl := (hinv.lastV e.2 v hv hvt).2
      rw [← hch, hl, h1]
      simp
  have hnotBefore : ¬ emitted s done v := by
    unfold emitted
    rw [hvop]
    rcases hcase with ⟨h0, _⟩ | ⟨h1, _, h2⟩
    · omega
    · have := hocc2.2 h2
      rw [h1]
      intro h
      rcases h with ⟨_, hne⟩ | h
      · exact hne this
      · omega
  have hkeyFresh : v.key ∉ acc.updates.map (·.1) := by
    intro hmem
    obtain ⟨⟨k, p⟩, hkp, hk⟩ := List.mem_map.mp hmem
    simp only at hk
    subst hk
    obtain ⟨v', h1, _, h3, _, h5⟩ := hinv.upsSound _ _ hkp
    have : v'.op = e.2 := hp.keyInj v'.op e.2 v' v h1 hv h3
    rw [this, hv] at h1
    injection h1 with h1
    subst h1
    exact hnotBefore h5
  have hemMono : ∀ v', emitted s done v' → emitted s (done ++ [e]) v' := by
    intro v' h
    unfold emitted at h ⊢
    rw [occ_append]
    rcases h with ⟨h1, h2⟩ | h
    · left; exact ⟨by omega, h2⟩
    · right; omega
  -- lookups in the new tables
  have happVals : ∀ (a : App), a = (if changed = true then r.1.setLast e.2 (cur v) else r.1) → a.vals = r.1.vals := by
    intro a ha; subst ha; cases changed <;> simp
  have hlastSelf : alookup e.2 (if changed = true then r.1.setLast e.2 (cur v) else r.1).last = some (cur v) := by
    cases hcc : changed
    · simp only [Bool.false_eq_true, ↓reduceIte, b1]
      rw [hcc] at hch
      have hacc : alookup e.2 acc.last = some (cur v) := by simpa using hch
      rcases hcase with ⟨_, hvf⟩ | ⟨_, hvt, _⟩
      · rw [(hinv.lastN e.2 hvf).1, ← (hinv.lastN e.2 hvf).2]; exact hacc
      · rw [(hinv.lastV e.2 v hv hvt).2] at hacc; cases hacc
    · simp [alookup_ainsert_self]
  have hlastOther : ∀ op, op ≠ e.2 → alookup op (if changed = true then r.1.setLast e.2 (cur v) else r.1).last = alookup op acc.app.last := by
    intro op hne
    cases changed
    · simp [b1]
    · simp [b1, alookup_ainsert_ne _ _ _ _ hne]
  exact {
    stableSome := by
      intro op v' hv'
      by_cases hop : op = e.2
      · subst hop
        rw [hv] at hv'; injection hv' with hv'; subst hv'
        refine ⟨r.2.1, ?_, ?_, ?_, ?_, ?_, ?_⟩
        · rw [getVal_congr _ r.1 (happVals _ rfl)]; rw [← hwop']; exact b2
        · rw [b6, hwop]
        · rw [bkey, hwkey]
        · rw [b4, hwj]
        · rw [b5, hwt]
        · rw [hvisNew]; simp [b3]
      · obtain ⟨w', h1, h2⟩ := hinv.stableSome op v' hv'
        refine ⟨w', ?_, ?_⟩
        · rw [getVal_congr _ r.1 (happVals _ rfl), b7 op (by rw [hwop']; exact hop)]; exact h1
        · rw [visitedB_append_other s done e op hop]; exact h2
    stableNone := by
      intro op hnone
      have hop : op ≠ e.2 := by intro h; rw [h, hv] at hnone; cases hnone
      rw [getVal_congr _ r.1 (happVals _ rfl), b7 op (by rw [hwop']; exact hop)]
      exact hinv.stableNone op hnone
    lastV := by
      intro op v' hv' hvis
      by_cases hop : op = e.2
      · subst hop
        rw [hv] at hv'; injection hv' with hv'; subst hv'
        exact ⟨hlastSelf, alookup_aerase_self _ _⟩
      · rw [visitedB_append_other s done e op hop] at hvis
        obtain ⟨h1, h2⟩ := hinv.lastV op v' hv' hvis
        exact ⟨by rw [hlastOther op hop]; exact h1, by rw [alookup_aerase_ne _ _ _ hop]; exact h2⟩
    lastN := by
      intro op hvis
      have hop : op ≠ e.2 := by intro h; rw [h, hvisNew] at hvis; cases hvis
      rw [visitedB_append_other s done e op hop] at hvis
      obtain ⟨h1, h2⟩ := hinv.lastN op hvis
      exact ⟨by rw [hlastOther op hop]; exact h1, by rw [alookup_aerase_ne _ _ _ hop]; exact h2⟩
    upsSound := by
      intro k p hkp
      cases hcc : changed
      · simp only [hcc, Bool.false_eq_true, ↓reduceIte] at hkp
        obtain ⟨v', h1, h2, h3, h4, h5⟩ := hinv.upsSound k p hkp
        exact ⟨v', h1, h2, h3, h4, hemMono v' h5⟩
      · simp only [hcc, ↓reduceIte, List.mem_append, List.mem_singleton] at hkp
        rcases hkp with hkp | hkp
        · obtain ⟨v', h1, h2, h3, h4, h5⟩ := hinv.upsSound k p hkp
          exact ⟨v', h1, h2, h3, h4, hemMono v' h5⟩
        · injection hkp with hk hpw
          exact ⟨v, by rw [hvop]; exact hv, hc, hk.symm, hpw, hchanged.mp hcc⟩
    upsComplete := by
      intro v' h1 h2 h3
      by_cases hop : v'.op = e.2
      · rw [hop, hv] at h1; injection h1 with h1; subst h1
        have := hchanged.mpr h3
        simp [this]
      · have := (emitted_append_other s done e v' hop).mp h3
        have hm := hinv.upsComplete v' h1 h2 this
        cases changed
        · simpa using hm
        · simp only [↓reduceIte, List.mem_append]; left; exact hm
    upsNodup := by
      cases changed
      · simpa using hinv.upsNodup
      · simp only [↓reduceIte, List.map_append, List.map_cons, List.map_nil]
        rw [List.nodup_append]
        refine ⟨hinv.upsNodup, by simp, ?_⟩
        intro a ha b hb
        simp at hb; subst hb
        intro e'; subst e'; exact hkeyFresh ha
    count := by
      rw [candCount_append, hinv.count]
      simp [candCount, hv, hc]
    lastSub := (aerase_sublist _ _).trans hinv.lastSub
    tot := by
      rw [idxPow_append, ← hinv.tot]
      simp only [idxPow, hv, hc, ↓reduceIte, cur]; omega
    upsSum := by
      have hnn : 0 ≤ cur v := by unfold cur; omega
      have := hinv.upsSum
      cases changed
      · simp only [Bool.false_eq_true, ↓reduceIte]; omega
      · simp only [↓reduceIte, List.map_append, List.map_cons, List.map_nil, sumInts_snoc]; omega }


def candEntry (s : App) (e : Nat × Nat) : Bool := match s.getVal e.2 with | some v => cand v | none => false

/-- entries without candidates behind the processed prefix change nothing -/
theorem firstInv_extend (s : App) : ∀ (rest done : List (Nat × Nat)) (acc : LoopAcc),
    (∀ e ∈ rest, (s.getVal e.2).isSome = true) → (∀ e ∈ rest, candEntry s e = false) → FirstInv s done acc → FirstInv s (done ++ rest) acc
  | [], done, acc, _, _, h => by simpa using h
  | e :: rest, done, acc, hex, hnc, h => by
    have he := hex e (by simp)
    cases hv : s.getVal e.2 with
    | none => simp [hv] at he
    | some v =>
      have hc : cand v = false := by have := hnc e (by simp); simpa [candEntry, hv] using this
      have h1 := (first_step_noncand s done e acc v hv hc h).2
      have := firstInv_extend s rest (done ++ [e]) acc (fun x hx => hex x (by simp [hx])) (fun x hx => hnc x (by simp [hx])) h1
      simpa using this

theorem candCount_eq_zero_iff (s : App) (l : List (Nat × Nat)) : candCount s l = 0 ↔ ∀ e ∈ l, candEntry s e = false := by
  unfold candCount candEntry
  rw [List.length_eq_zero_iff, List.filter_eq_nil_iff]
  constructor
  · intro h e he; have := h e he; simpa using this
  · intro h e he; have := h e he; simpa using this

/-- **the first loop**: started on the whole index snapshot it ends with the invariant for the whole snapshot -/
theorem first_loop (s : App) (hp : PreLoop s) :
    ∀ (rest done : List (Nat × Nat)) (acc a : LoopAcc), s.index = done ++ rest → noShadow s rest = true →
      FirstInv s done acc → applyLoop s.params.maxVals rest acc = .done a → FirstInv s s.index a
  | [], done, acc, a, hsplit, _, hinv, h => by
    simp [applyLoop] at h; subst h
    rw [hsplit]; simpa using hinv
  | e :: rest, done, acc, a, hsplit, hsh, hinv, h => by
    have hex : ∀ x ∈ e :: rest, (s.getVal x.2).isSome = true := by
      intro x hx; apply hp.exists_; rw [hsplit]; simp only [List.mem_append]; right; exact hx
    have hcc : candCount s s.index = candCount s done + candCount s (e :: rest) := by rw [hsplit, candCount_append]
    cases hv : s.getVal e.2 with
    | none => have := hex e (by simp); simp [hv] at this
    | some v =>
      unfold noShadow at hsh
      simp only [hv, Bool.and_eq_true] at hsh
      obtain ⟨hclause, hshRest⟩ := hsh
      unfold applyLoop at h
      by_cases hc : cand v = true
      · -- a candidate: there is room, it is visited
        have hroom : acc.count < s.params.maxVals := by
          rw [hinv.count]
          have : candCount s (e :: rest) ≥ 1 := by
            simp only [candCount, List.filter_cons, hv, hc, ↓reduceIte, List.length_cons]; omega
          have := hp.noCut; omega
        simp only [hroom, ↓reduceIte] at h
        obtain ⟨a1, hvis, hinv1⟩ := first_step_cand s hp done rest e acc v hsplit hv hc hinv
        rw [hvis] at h
        simp only [loopCont] at h
        exact first_loop s hp rest (done ++ [e]) a1 a (by rw [hsplit]; simp) hshRest hinv1 h
      · have hc' : cand v = false := by simpa using hc
        obtain ⟨hvisit, hinv1⟩ := first_step_noncand s done e acc v hv hc' hinv
        by_cases hroom : acc.count < s.params.maxVals
        · simp only [hroom, ↓reduceIte] at h
          rcases hvisit with hsk | hst
          · rw [hsk] at h
            simp only [loopCont] at h
            exact first_loop s hp rest (done ++ [e]) acc a (by rw [hsplit]; simp) hshRest hinv1 h
          · -- the loop breaks here: nobody behind is a candidate
            rw [hst] at h
            simp only [loopCont] at h
            injection h with h; subst h
            -- un-jailed with zero power
            obtain ⟨w, hw, _, _, hwj, hwt, _⟩ := hinv.stableSome e.2 v hv
            have hjz : (v.jailed || decide (powerOf v.tokens > 0)) = false := by
              unfold visit at hst
              rw [hw] at hst
              simp only at hst
              unfold visitVal at hst
              by_cases hj : w.jailed = true
              · simp [hj] at hst
              · have hj' : v.jailed = false := by rw [← hwj]; simpa using hj
                by_cases hpz : powerOf w.tokens = 0
                · rw [hwt] at hpz; simp [hj', hpz]
                · simp [hj, hpz] at hst
            rw [hjz] at hclause
            simp only [Bool.false_or] at hclause
            have hnone : ∀ x ∈ rest, candEntry s x = false := by
              intro x hx
              have := List.all_eq_true.mp hclause x hx
              unfold candEntry
              cases hx' : s.getVal x.2 with
              | none => rfl
              | some w' => simpa [hx'] using this
            have := firstInv_extend s rest (done ++ [e]) acc (fun x hx => hex x (by simp [hx])) hnone hinv1
            rw [hsplit]; simpa using this
        · -- MaxValidators reached: every candidate entry is already behind us
          simp only [hroom, ↓reduceIte] at h
          injection h with h; subst h
          have hzero : candCount s (e :: rest) = 0 := by
            have := hp.noCut; rw [hinv.count] at hroom; omega
          have hnone := (candCount_eq_zero_iff s (e :: rest)).mp hzero
          have := firstInv_extend s (e :: rest) done acc hex hnone hinv
          rw [hsplit]; exact this


/-! ### second loop -/

/-- key of the record of `op` in state `x` (0 if there is none) -/
def keyOf (x : App) (op : Nat) : Nat := match x.getVal op with | some v => v.key | none => 0

/-- invariant of the second loop: `doneL` is the processed prefix of the remaining last-power entries -/
structure SecondInv (a : LoopAcc) (doneL : List (Nat × Int)) (u : UnbAcc) : Prop where
  ups : u.updates = a.updates ++ doneL.map (fun e => (keyOf a.app e.1, (0 : Int)))
  gone : ∀ op, op ∈ doneL.map (·.1) → alookup op u.app.last = none ∧
      ∃ w w', a.app.getVal op = some w ∧ u.app.getVal op = some w' ∧ w'.status = .unbonding ∧ w'.jailed = w.jailed ∧ w'.key = w.key ∧ w.status = .bonded
  kept : ∀ op, op ∉ doneL.map (·.1) → alookup op u.app.last = alookup op a.app.last ∧ u.app.getVal op = a.app.getVal op

theorem beginUnbonding_self (x : App) (v : Val) (hv : x.getVal v.op = some v) :
    ∃ w', (x.beginUnbonding v).1.getVal v.op = some w' ∧ w'.status = .unbonding ∧ w'.jailed = v.jailed ∧ w'.key = v.key := by
  unfold beginUnbonding
  refine ⟨{ v with status := .unbonding, ubTime := (x.delIdx v).time + (x.delIdx v).params.unbond, ubHeight := (x.delIdx v).height }, ?_, rfl, rfl, rfl⟩
  dsimp only
  rw [getVal_congr _ ((x.delIdx v).setVal { v with status := .unbonding, ubTime := (x.delIdx v).time + (x.delIdx v).params.unbond, ubHeight := (x.delIdx v).height }) (by simp)]
  exact getVal_setVal_self _ _

theorem second_loop (a : LoopAcc) : ∀ (rem doneL : List (Nat × Int)) (u u' : UnbAcc),
    ((doneL ++ rem).map (·.1)).Nodup → SecondInv a doneL u → unbondLoop rem u = .ok u' → SecondInv a (doneL ++ rem) u'
  | [], doneL, u, u', _, hinv, h => by simp [unbondLoop] at h; subst h; simpa using hinv
  | (op0, q0) :: rem, doneL, u, u', hnd, hinv, h => by
    unfold unbondLoop at h
    cases h1 : unbondOne u op0 with
    | error e => simp [h1] at h
    | ok u1 =>
      simp only [h1] at h
      have hop0 : op0 ∉ doneL.map (·.1) := by
        intro hm
        simp only [List.map_append, List.map_cons] at hnd
        have := (List.nodup_append.mp hnd).2.2 op0 hm op0 (by simp)
        exact this rfl
      have hstep : SecondInv a (doneL ++ [(op0, q0)]) u1 := by
        unfold unbondOne at h1
        obtain ⟨hk1, hk2⟩ := hinv.kept op0 hop0
        cases hv : u.app.getVal op0 with
        | none => simp [hv] at h1
        | some v =>
          simp only [hv] at h1
          split at h1
          · cases h1
          · rename_i hst
            have hst' : v.status = .bonded := by simpa using hst
            injection h1 with h1
            subst h1
            have hvop := getVal_op _ _ _ hv
            obtain ⟨e1, e2⟩ := beginUnbonding_spec u.app v
            have hav : a.app.getVal op0 = some v := by rw [← hk2]; exact hv
            exact {
              ups := by
                simp only [List.map_append, List.map_cons, List.map_nil]
                rw [hinv.ups, List.append_assoc]
                congr 2
                simp [keyOf, hav, beginUnbonding]
              gone := by
                intro op hm
                simp only [List.map_append, List.map_cons, List.map_nil, List.mem_append, List.mem_singleton] at hm
                rcases hm with hm | hm
                · have hne : op ≠ op0 := fun e => hop0 (e ▸ hm)
                  obtain ⟨g1, w, w', g2, g3, g4⟩ := hinv.gone op hm
                  refine ⟨?_, w, w', g2, ?_, g4⟩
                  · simp only [delLast_last']; rw [alookup_aerase_ne _ _ _ hne, e1]; exact g1
                  · rw [getVal_congr _ (u.app.beginUnbonding v).1 (by simp), e2 op (by rw [hvop]; exact hne)]; exact g3
                · subst hm
                  refine ⟨by simp only [delLast_last']; exact alookup_aerase_self _ _, v, ?_⟩
                  obtain ⟨w', b1, b2, b3, b4⟩ := beginUnbonding_self u.app v (by rw [hvop]; exact hv)
                  refine ⟨w', hav, ?_, b2, b3, b4, hst'⟩
                  rw [getVal_congr _ (u.app.beginUnbonding v).1 (by simp), ← hvop]; exact b1
              kept := by
                intro op hm
                simp only [List.map_append, List.map_cons, List.map_nil, List.mem_append, List.mem_singleton, not_or] at hm
                obtain ⟨k1, k2⟩ := hinv.kept op hm.1
                constructor
                · simp only [delLast_last']; rw [alookup_aerase_ne _ _ _ hm.2, e1]; exact k1
                · rw [getVal_congr _ (u.app.beginUnbonding v).1 (by simp), e2 op (by rw [hvop]; exact hm.2)]; exact k2 }
      have := second_loop a rem (doneL ++ [(op0, q0)]) u1 u' (by simpa using hnd) hstep h
      simpa using this


/-! ### putting the two loops together -/

/-- what the state entering the EndBlocker and CometBFT's current set must satisfy (Prop form of `Pre`) -/
structure PreAgree (s : App) (c : CSet) : Prop extends PreLoop s where
  shadow : noShadow s s.index = true
  lastNodup : (s.last.map (·.1)).Nodup
  lastEx : ∀ op p, alookup op s.last = some p → (s.getVal op).isSome = true
  silent : ∀ op v, s.getVal op = some v → cand v = true → occ op s.index = 1 → alookup op s.last = some (cur v) →
      alookup v.key c = some (cur v)
  leaving : ∀ op v, s.getVal op = some v → alookup op s.last ≠ none → visitedB s s.index op = false →
      v.status = .bonded ∧ alookup v.key c ≠ none
  cometKnown : ∀ k p, alookup k c = some p → ∃ v, s.getVal v.op = some v ∧ v.key = k ∧ alookup v.op s.last ≠ none
  bondedKnown : ∀ op v, s.getVal op = some v → v.status = .bonded → v.jailed = false →
      visitedB s s.index op = true ∨ alookup op s.last ≠ none

/-- CometBFT's set and the chain's own set agree: a key has power `p` in CometBFT's set iff it is the key of a
    bonded, un-jailed validator whose recorded (queried) power is `p` -/
def Agree (c : CSet) (x : App) : Prop :=
  ∀ k p, alookup k c = some p ↔ ∃ v, x.getVal v.op = some v ∧ v.status = .bonded ∧ v.jailed = false ∧ v.key = k ∧ x.lastPower v.op = p

theorem sublist_nodup_keys {α : Type} {l l' : List (Nat × α)} (h : l.Sublist l') (hn : (l'.map (·.1)).Nodup) : (l.map (·.1)).Nodup :=
  hn.sublist (h.map _)

/-- the records and the power table after both loops, validator by validator -/
theorem final_val (s : App) (c : CSet) (hp : PreAgree s c) (a : LoopAcc) (u : UnbAcc)
    (hF : FirstInv s s.index a) (hS : SecondInv a a.last u) (op : Nat) (v : Val) (hv : s.getVal op = some v) :
    ∃ w, u.app.getVal op = some w ∧ w.key = v.key ∧ w.jailed = v.jailed ∧ w.op = v.op ∧
      (visitedB s s.index op = true → w.status = .bonded ∧ alookup op u.app.last = some (cur v)) ∧
      (visitedB s s.index op = false → alookup op s.last ≠ none → w.status = .unbonding ∧ alookup op u.app.last = none) ∧
      (visitedB s s.index op = false → alookup op s.last = none → w.status = v.status ∧ alookup op u.app.last = none) := by
  obtain ⟨w, hw, hwop, hwkey, hwj, _, hwst⟩ := hF.stableSome op v hv
  by_cases hvis : visitedB s s.index op = true
  · obtain ⟨l1, l2⟩ := hF.lastV op v hv hvis
    have hnot : op ∉ a.last.map (·.1) := by
      intro hm
      obtain ⟨⟨o, p⟩, hmem, ho⟩ := List.mem_map.mp hm
      simp only at ho; subst ho
      exact mem_alookup_ne_none _ _ _ hmem l2
    obtain ⟨k1, k2⟩ := hS.kept op hnot
    refine ⟨w, by rw [k2]; exact hw, hwkey, hwj, hwop, ?_, ?_, ?_⟩
    · intro _; rw [hvis] at hwst; exact ⟨hwst, by rw [k1]; exact l1⟩
    · intro h; rw [hvis] at h; cases h
    · intro h; rw [hvis] at h; cases h
  · have hvis' : visitedB s s.index op = false := by simpa using hvis
    obtain ⟨l1, l2⟩ := hF.lastN op hvis'
    rw [hvis'] at hwst
    cases hl : alookup op s.last with
    | none =>
      have hnot : op ∉ a.last.map (·.1) := by
        intro hm
        obtain ⟨⟨o, p⟩, hmem, ho⟩ := List.mem_map.mp hm
        simp only at ho; subst ho
        have := mem_alookup_ne_none _ _ _ hmem
        rw [l2, hl] at this; exact this rfl
      obtain ⟨k1, k2⟩ := hS.kept op hnot
      refine ⟨w, by rw [k2]; exact hw, hwkey, hwj, hwop, ?_, ?_, ?_⟩
      · intro h; rw [hvis'] at h; cases h
      · intro _ h; exact absurd rfl h
      · intro _ _; exact ⟨by simpa using hwst, by rw [k1, l1, hl]⟩
    | some p =>
      have hmem : op ∈ a.last.map (·.1) := by
        rw [← l2] at hl
        exact mem_of_alookup op p a.last hl
      obtain ⟨g1, w1, w', g2, g3, g4, g5, g6, _⟩ := hS.gone op (by simpa using hmem)
      rw [hw] at g2; injection g2 with g2; subst g2
      refine ⟨w', g3, by rw [g6, hwkey], by rw [g5, hwj], ?_, ?_, ?_, ?_⟩
      · rw [← hwop]; have := getVal_op _ _ _ g3; rw [this]; exact (getVal_op _ _ _ hw).symm
      · intro h; rw [hvis'] at h; cases h
      · intro _ _; exact ⟨g4, g1⟩
      · intro _ h; cases h

theorem final_none (s : App) (a : LoopAcc) (u : UnbAcc) (hF : FirstInv s s.index a) (hS : SecondInv a a.last u)
    (hlastEx : ∀ op p, alookup op s.last = some p → (s.getVal op).isSome = true)
    (op : Nat) (hv : s.getVal op = none) : u.app.getVal op = none := by
  have hvis : visitedB s s.index op = false := by simp [visitedB, hv]
  obtain ⟨_, l2⟩ := hF.lastN op hvis
  have hnot : op ∉ a.last.map (·.1) := by
    intro hm
    obtain ⟨⟨o, p⟩, hmem, ho⟩ := List.mem_map.mp hm
    simp only at ho; subst ho
    have hne := mem_alookup_ne_none _ _ _ hmem
    rw [l2] at hne
    cases hl : alookup o s.last with
    | none => exact hne hl
    | some q => have := hlastEx o q hl; simp [hv] at this
  rw [(hS.kept op hnot).2]
  exact hF.stableNone op hv


/-- key of `op`'s record after the first loop is its key in the entering state -/
theorem keyOf_stable (s : App) (a : LoopAcc) (hF : FirstInv s s.index a) (op : Nat) (v : Val) (hv : s.getVal op = some v) :
    keyOf a.app op = v.key := by
  obtain ⟨w, hw, _, hwkey, _⟩ := hF.stableSome op v hv
  simp [keyOf, hw, hwkey]

/-- membership in the remaining last-power entries ⇔ not visited and present in the table that entered -/
theorem mem_remaining (s : App) (c : CSet) (hp : PreAgree s c) (a : LoopAcc) (hF : FirstInv s s.index a) (op : Nat) :
    op ∈ a.last.map (·.1) ↔ (visitedB s s.index op = false ∧ alookup op s.last ≠ none) := by
  constructor
  · intro hm
    obtain ⟨⟨o, p⟩, hmem, ho⟩ := List.mem_map.mp hm
    simp only at ho; subst ho
    have hne := mem_alookup_ne_none _ _ _ hmem
    by_cases hvis : visitedB s s.index o = true
    · cases hv : s.getVal o with
      | none => simp [visitedB, hv] at hvis
      | some v => exact absurd (hF.lastV o v hv hvis).2 hne
    · have hvis' : visitedB s s.index o = false := by simpa using hvis
      rw [(hF.lastN o hvis').2] at hne
      exact ⟨hvis', hne⟩
  · rintro ⟨hvis, hne⟩
    cases hl : alookup op s.last with
    | none => exact absurd hl hne
    | some p =>
      rw [← (hF.lastN op hvis).2] at hl
      exact mem_of_alookup op p a.last hl

theorem visited_of_emitted (s : App) (l : List (Nat × Nat)) (v : Val) (hv : s.getVal v.op = some v) (hc : cand v = true) (he : emitted s l v) :
    visitedB s l v.op = true := by
  unfold visitedB
  rw [hv]
  unfold emitted at he
  have : occ v.op l > 0 := by rcases he with ⟨h, _⟩ | h <;> omega
  simp [hc, this]

/-- keys of the whole update list are pairwise distinct -/
theorem final_ups_nodup (s : App) (c : CSet) (hp : PreAgree s c) (a : LoopAcc) (u : UnbAcc)
    (hF : FirstInv s s.index a) (hS : SecondInv a a.last u) : (u.updates.map (·.1)).Nodup := by
  rw [hS.ups, List.map_append, List.nodup_append]
  have hlastNd : (a.last.map (·.1)).Nodup := sublist_nodup_keys hF.lastSub hp.lastNodup
  refine ⟨hF.upsNodup, ?_, ?_⟩
  · -- removal keys
    rw [List.map_map]
    have : (a.last.map (fun e => keyOf a.app e.1)) = (a.last.map (·.1)).map (keyOf a.app) := by rw [List.map_map]; rfl
    change (a.last.map (fun e => keyOf a.app e.1)).Nodup
    rw [this]
    apply nodup_map_on _ _ _ hlastNd
    intro o1 h1 o2 h2 heq
    obtain ⟨_, n1⟩ := (mem_remaining s c hp a hF o1).mp h1
    obtain ⟨_, n2⟩ := (mem_remaining s c hp a hF o2).mp h2
    cases hl1 : alookup o1 s.last with
    | none => exact absurd hl1 n1
    | some p1 =>
      cases hl2 : alookup o2 s.last with
      | none => exact absurd hl2 n2
      | some p2 =>
        have e1 := hp.lastEx o1 p1 hl1
        have e2 := hp.lastEx o2 p2 hl2
        cases hv1 : s.getVal o1 with
        | none => simp [hv1] at e1
        | some v1 =>
          cases hv2 : s.getVal o2 with
          | none => simp [hv2] at e2
          | some v2 =>
            rw [keyOf_stable s a hF o1 v1 hv1, keyOf_stable s a hF o2 v2 hv2] at heq
            exact hp.keyInj o1 o2 v1 v2 hv1 hv2 heq
  · -- an emitted key is never a removal key
    intro k hk1 k' hk2 heq
    subst heq
    obtain ⟨⟨k0, p⟩, hmem, hk0⟩ := List.mem_map.mp hk1
    simp only at hk0; subst hk0
    obtain ⟨v', h1, h2, h3, _, h5⟩ := hF.upsSound _ _ hmem
    have hvis := visited_of_emitted s s.index v' h1 h2 h5
    simp only [List.map_map, List.mem_map, Function.comp] at hk2
    obtain ⟨⟨o, q⟩, hmem2, hko⟩ := hk2
    simp only at hko
    obtain ⟨hnv, hne⟩ := (mem_remaining s c hp a hF o).mp (List.mem_map.mpr ⟨(o, q), hmem2, rfl⟩)
    cases hl : alookup o s.last with
    | none => exact hne hl
    | some p' =>
      have ex := hp.lastEx o p' hl
      cases hvo : s.getVal o with
      | none => simp [hvo] at ex
      | some vo =>
        rw [keyOf_stable s a hF o vo hvo] at hko
        have : v'.op = o := hp.keyInj v'.op o v' vo h1 hvo (by rw [h3, hko])
        rw [this, hnv] at hvis
        cases hvis


/-- what the update list says about the key of a validator of the entering state -/
theorem final_ups (s : App) (c : CSet) (hp : PreAgree s c) (a : LoopAcc) (u : UnbAcc)
    (hF : FirstInv s s.index a) (hS : SecondInv a a.last u) (op : Nat) (v : Val) (hv : s.getVal op = some v) :
    (visitedB s s.index op = true → emitted s s.index v → alookup v.key u.updates = some (cur v)) ∧
    (visitedB s s.index op = true → ¬ emitted s s.index v → alookup v.key u.updates = none) ∧
    (visitedB s s.index op = false → alookup op s.last ≠ none → alookup v.key u.updates = some 0) ∧
    (visitedB s s.index op = false → alookup op s.last = none → alookup v.key u.updates = none) := by
  have hnd := final_ups_nodup s c hp a u hF hS
  have hvop : v.op = op := getVal_op s op v hv
  have hcandOfVis : visitedB s s.index op = true → cand v = true := by
    intro h; simp only [visitedB, hv, Bool.and_eq_true] at h; exact h.1
  -- a key of the list that equals `v.key` comes from `v` itself
  have fromUpdates : ∀ p, (v.key, p) ∈ a.updates → p = cur v ∧ emitted s s.index v := by
    intro p hm
    obtain ⟨v', h1, _, h3, h4, h5⟩ := hF.upsSound _ _ hm
    have : v'.op = op := hp.keyInj v'.op op v' v h1 hv h3
    rw [this, hv] at h1; injection h1 with h1; subst h1
    exact ⟨h4, h5⟩
  have fromRemovals : ∀ e ∈ a.last, keyOf a.app e.1 = v.key → e.1 = op := by
    intro e he hk
    obtain ⟨_, hne⟩ := (mem_remaining s c hp a hF e.1).mp (List.mem_map.mpr ⟨e, he, rfl⟩)
    cases hl : alookup e.1 s.last with
    | none => exact absurd hl hne
    | some p' =>
      have ex := hp.lastEx e.1 p' hl
      cases hvo : s.getVal e.1 with
      | none => simp [hvo] at ex
      | some vo =>
        rw [keyOf_stable s a hF e.1 vo hvo] at hk
        exact hp.keyInj e.1 op vo v hvo hv hk
  have notInList : (∀ p, (v.key, p) ∉ a.updates) → (∀ e ∈ a.last, e.1 ≠ op) → alookup v.key u.updates = none := by
    intro h1 h2
    apply alookup_none_of_not_mem
    rw [hS.ups, List.map_append, List.mem_append]
    rintro (hm | hm)
    · obtain ⟨⟨k, p⟩, hmem, hk⟩ := List.mem_map.mp hm
      simp only at hk; subst hk; exact h1 p hmem
    · simp only [List.map_map, List.mem_map, Function.comp] at hm
      obtain ⟨e, he, hk⟩ := hm
      exact h2 e he (fromRemovals e he hk)
  refine ⟨?_, ?_, ?_, ?_⟩
  · intro hvis hem
    have hm := hF.upsComplete v (by rw [hvop]; exact hv) (hcandOfVis hvis) hem
    apply alookup_of_mem_nodup _ _ _ hnd
    rw [hS.ups]; exact List.mem_append_left _ hm
  · intro hvis hnem
    apply notInList
    · intro p hm; exact hnem (fromUpdates p hm).2
    · intro e he heq
      have := (mem_remaining s c hp a hF e.1).mp (List.mem_map.mpr ⟨e, he, rfl⟩)
      rw [heq, hvis] at this; cases this.1
  · intro hvis hne
    have hmem := (mem_remaining s c hp a hF op).mpr ⟨hvis, hne⟩
    obtain ⟨⟨o, q⟩, hm, ho⟩ := List.mem_map.mp hmem
    simp only at ho; subst ho
    apply alookup_of_mem_nodup _ _ _ hnd
    rw [hS.ups]
    apply List.mem_append_right
    apply List.mem_map.mpr
    exact ⟨(o, q), hm, by simp [keyOf_stable s a hF o v hv]⟩
  · intro hvis hl
    apply notInList
    · intro p hm
      have hem := (fromUpdates p hm).2
      have hc : cand v = true := by
        obtain ⟨v', h1, h2, h3, _⟩ := hF.upsSound _ _ hm
        have : v'.op = op := hp.keyInj v'.op op v' v h1 hv h3
        rw [this, hv] at h1; injection h1 with h1; subst h1; exact h2
      have := visited_of_emitted s s.index v (by rw [hvop]; exact hv) hc hem
      rw [hvop, hvis] at this; cases this
    · intro e he heq
      have := (mem_remaining s c hp a hF e.1).mp (List.mem_map.mpr ⟨e, he, rfl⟩)
      rw [heq] at this; exact this.2 hl

/-- a key that belongs to no validator of the entering state is not in the update list -/
theorem final_ups_foreign (s : App) (c : CSet) (hp : PreAgree s c) (a : LoopAcc) (u : UnbAcc)
    (hF : FirstInv s s.index a) (hS : SecondInv a a.last u) (k : Nat) (hk : ∀ v, s.getVal v.op = some v → v.key ≠ k) :
    alookup k u.updates = none := by
  apply alookup_none_of_not_mem
  rw [hS.ups, List.map_append, List.mem_append]
  rintro (hm | hm)
  · obtain ⟨⟨k0, p⟩, hmem, hk0⟩ := List.mem_map.mp hm
    simp only at hk0; subst hk0
    obtain ⟨v', h1, _, h3, _⟩ := hF.upsSound _ _ hmem
    exact hk v' h1 h3
  · simp only [List.map_map, List.mem_map, Function.comp] at hm
    obtain ⟨e, he, hke⟩ := hm
    obtain ⟨_, hne⟩ := (mem_remaining s c hp a hF e.1).mp (List.mem_map.mpr ⟨e, he, rfl⟩)
    cases hl : alookup e.1 s.last with
    | none => exact hne hl
    | some p' =>
      have ex := hp.lastEx e.1 p' hl
      cases hvo : s.getVal e.1 with
      | none => simp [hvo] at ex
      | some vo =>
        rw [keyOf_stable s a hF e.1 vo hvo] at hke
        have := getVal_op s e.1 vo hvo
        exact hk vo (by rw [this]; exact hvo) hke


theorem applyChangeSet_ok (c c' : CSet) (ups : List (Nat × Int)) (h : Comet.applyChangeSet c ups = .ok c') :
    c' = ups.foldl Comet.applyOne c := by
  unfold Comet.applyChangeSet at h
  split at h
  · rename_i he
    cases h
    have : ups = [] := by simpa using he
    subst this; rfl
  · split at h
    · cases h
    · split at h
      · cases h
      · split at h
        · cases h
        · dsimp only at h
          split at h
          · cases h
          · split at h
            · cases h
            · split at h
              · cases h
              · cases h; rfl

/-- not emitted although visited: a single silent visit, so CometBFT already holds the current power -/
theorem silent_case (s : App) (c : CSet) (hp : PreAgree s c) (op : Nat) (v : Val) (hv : s.getVal op = some v)
    (hvis : visitedB s s.index op = true) (hne : ¬ emitted s s.index v) : alookup v.key c = some (cur v) := by
  have hvop : v.op = op := getVal_op s op v hv
  simp only [visitedB, hv, Bool.and_eq_true, decide_eq_true_eq] at hvis
  unfold emitted at hne
  rw [hvop] at hne
  have h1 : occ op s.index = 1 := by
    have : ¬ occ op s.index ≥ 2 := fun h => hne (Or.inr h)
    omega
  have h2 : alookup op s.last = some (cur v) := by
    cases hl : alookup op s.last with
    | none => exact absurd (Or.inl ⟨by omega, by rw [hl]; simp⟩) hne
    | some q =>
      by_cases hq : q = cur v
      · rw [hq]
      · exact absurd (Or.inl ⟨by omega, by rw [hl]; simpa using hq⟩) hne
  exact hp.silent op v hv hvis.1 h1 h2

/-- **one EndBlock refines the validator set.**  If the state entering x/staking's EndBlocker and CometBFT's
    current set satisfy `PreAgree`, and `ApplyAndReturnValidatorSetUpdates` returns `ups`, then applying `ups` to
    CometBFT's set (when CometBFT accepts them) yields exactly the chain's own set: the keys of the bonded, un-jailed
    validators, each with its recorded power. -/
theorem applyUpdates_agree (s s' : App) (c c' : CSet) (ups : List (Nat × Int)) (hp : PreAgree s c)
    (h : s.applyUpdates = .ok (ups, s')) (hc : Comet.applyChangeSet c ups = .ok c') : Agree c' s' := by
  unfold applyUpdates at h
  cases hl : applyLoop s.params.maxVals s.index ⟨s, s.last, [], 0, 0, 0⟩ with
  | halt hh => simp [hl] at h
  | done a =>
    simp only [hl] at h
    unfold finishUpdates at h
    cases hu : unbondLoop a.last ⟨a.app, a.updates, 0⟩ with
    | error e => simp [hu] at h
    | ok u =>
      simp only [hu] at h
      cases hm : movePools u.app a.nb2b u.b2nb with
      | error e => simp [hm] at h
      | ok s2 =>
        simp only [hm] at h
        injection h with h
        have hups : ups = u.updates := (congrArg Prod.fst h).symm
        obtain ⟨m1, m2⟩ := movePools_frame _ _ _ _ hm
        have hs' : s'.last = u.app.last ∧ s'.vals = u.app.vals := by
          have := congrArg Prod.snd h
          simp only at this
          rw [← this]
          split <;> exact ⟨m1, m2⟩
        have hget : ∀ op, s'.getVal op = u.app.getVal op := fun op => getVal_congr _ _ hs'.2 op
        have hlp : ∀ op, s'.lastPower op = u.app.lastPower op := by intro op; simp [lastPower, hs'.1]
        have hF := first_loop s hp.toPreLoop s.index [] ⟨s, s.last, [], 0, 0, 0⟩ a (by simp) hp.shadow (firstInv_init s) hl
        have hlastNd : (a.last.map (·.1)).Nodup := sublist_nodup_keys hF.lastSub hp.lastNodup
        have hS0 : SecondInv a [] ⟨a.app, a.updates, 0⟩ :=
          { ups := by simp, gone := by intro op hm; simp at hm, kept := fun _ _ => ⟨rfl, rfl⟩ }
        have hS := second_loop a a.last [] ⟨a.app, a.updates, 0⟩ u (by simpa using hlastNd) hS0 hu
        simp only [List.nil_append] at hS
        have hnd := final_ups_nodup s c hp a u hF hS
        have hc' := applyChangeSet_ok c c' ups hc
        subst hups
        have hlook : ∀ k, alookup k c' = (match alookup k u.updates with
            | some p => if p = 0 then none else some p
            | none => alookup k c) := by
          intro k; rw [hc']; exact alookup_applyAll c u.updates k hnd
        intro k p
        constructor
        · -- CometBFT has (k, p): a bonded, un-jailed validator with that key and power exists
          intro hkp
          by_cases hex : ∃ v, s.getVal v.op = some v ∧ v.key = k
          · obtain ⟨v, hv, hvk⟩ := hex
            obtain ⟨w, hw, hwkey, hwj, hwop, f1, f2, f3⟩ := final_val s c hp a u hF hS v.op v hv
            obtain ⟨e1, e2, e3, e4⟩ := final_ups s c hp a u hF hS v.op v hv
            rw [hlook, ← hvk] at hkp
            by_cases hvis : visitedB s s.index v.op = true
            · obtain ⟨g1, g2⟩ := f1 hvis
              have hcand : cand v = true := by simp only [visitedB, hv, Bool.and_eq_true] at hvis; exact hvis.1
              have hcj : v.jailed = false := by unfold cand at hcand; simp only [Bool.and_eq_true, Bool.not_eq_true'] at hcand; exact hcand.1
              have hpcur : p = cur v := by
                by_cases hem : emitted s s.index v
                · rw [e1 hvis hem] at hkp
                  simp only at hkp
                  split at hkp
                  · cases hkp
                  · injection hkp with hkp; exact hkp.symm
                · rw [e2 hvis hem] at hkp
                  simp only at hkp
                  rw [silent_case s c hp v.op v hv hvis hem] at hkp
                  injection hkp with hkp; exact hkp.symm
              refine ⟨w, by rw [hwop, hget]; exact hw, g1, by rw [hwj]; exact hcj, by rw [hwkey, hvk], ?_⟩
              rw [hwop, hlp]; simp [lastPower, g2, hpcur]
            · have hvis' : visitedB s s.index v.op = false := by simpa using hvis
              cases hlv : alookup v.op s.last with
              | some q =>
                rw [e3 hvis' (by rw [hlv]; simp)] at hkp
                simp at hkp
              | none =>
                rw [e4 hvis' hlv] at hkp
                simp only at hkp
                obtain ⟨v2, h21, h22, h23⟩ := hp.cometKnown _ _ hkp
                have : v2.op = v.op := hp.keyInj v2.op v.op v2 v h21 hv h22
                rw [this, hlv] at h23
                exact absurd rfl h23
          · have hfor := final_ups_foreign s c hp a u hF hS k (fun v hv hvk => hex ⟨v, hv, hvk⟩)
            rw [hlook, hfor] at hkp
            simp only at hkp
            obtain ⟨v2, h21, h22, _⟩ := hp.cometKnown _ _ hkp
            exact absurd ⟨v2, h21, h22⟩ hex
        · -- a bonded, un-jailed validator with key k and recorded power p: CometBFT has (k, p)
          rintro ⟨w, hw, hwb, hwj, hwk, hwp⟩
          rw [hget] at hw
          rw [hlp] at hwp
          cases hv : s.getVal w.op with
          | none =>
            have := final_none s a u hF hS hp.lastEx w.op hv
            rw [this] at hw; cases hw
          | some v =>
            obtain ⟨w2, hw2, hwkey, hwj2, _, f1, f2, f3⟩ := final_val s c hp a u hF hS w.op v hv
            rw [hw] at hw2; injection hw2 with hw2; subst hw2
            obtain ⟨e1, e2, e3, e4⟩ := final_ups s c hp a u hF hS w.op v hv
            have hvk : v.key = k := by rw [← hwkey, hwk]
            by_cases hvis : visitedB s s.index w.op = true
            · obtain ⟨_, g2⟩ := f1 hvis
              have hpcur : p = cur v := by rw [← hwp]; simp [lastPower, g2]
              have hcand : cand v = true := by simp only [visitedB, hv, Bool.and_eq_true] at hvis; exact hvis.1
              have hpos : cur v ≠ 0 := by
                unfold cand at hcand
                simp only [Bool.and_eq_true, Bool.not_eq_true', decide_eq_true_eq] at hcand
                unfold cur; omega
              rw [hlook, ← hvk]
              by_cases hem : emitted s s.index v
              · rw [e1 hvis hem]; simp [hpos, hpcur]
              · rw [e2 hvis hem]; simp only; rw [silent_case s c hp w.op v hv hvis hem, hpcur]
            · have hvis' : visitedB s s.index w.op = false := by simpa using hvis
              cases hlv : alookup w.op s.last with
              | some q =>
                have := (f2 hvis' (by rw [hlv]; simp)).1
                rw [hwb] at this; cases this
              | none =>
                have hst := (f3 hvis' hlv).1
                rcases hp.bondedKnown w.op v hv (by rw [← hst]; exact hwb) (by rw [← hwj2]; exact hwj) with hh | hh
                · rw [hvis'] at hh; cases hh
                · exact absurd hlv hh

end App
end PoaVerif
