import PoaVerif.Lemmas.RunTotal
/-
  Every well-formed genesis: the state x/staking's InitGenesis builds satisfies the hypotheses of the refinement
  theorems (with the empty CometBFT set), so InitChain succeeds, CometBFT accepts its update list and the genesis set
  is the chain's own.
-/
namespace PoaVerif
namespace App

def mkVal (g : GVal) : Val :=
  { op := g.op, key := g.key, jailed := false, status := .bonded, tokens := g.tokens,
    shares := (g.tokens : Int) * E18, ubTime := tEpoch, ubHeight := 0, minSelf := 1 }

def gEntry (g : GVal) : Nat × Nat := (powerOf g.tokens, g.op)

theorem idxInsert_perm (e : Nat × Nat) : ∀ l : List (Nat × Nat), e ∉ l → (idxInsert e l).Perm (e :: l)
  | [], _ => by simp [idxInsert]
  | x :: xs, h => by
    have hne : ¬ x = e := fun he => h (by simp [he])
    have hxs : e ∉ xs := fun hm => h (by simp [hm])
    unfold idxInsert
    rw [if_neg hne]
    split
    · exact List.Perm.refl _
    · exact ((idxInsert_perm e xs hxs).cons x).trans (List.Perm.swap e x xs)

/-- invariant of InitGenesis's fold over the genesis validators processed so far -/
structure GInv (s : App) (L : List GVal) : Prop where
  sorted : SortedOps s.vals
  recs : ∀ g ∈ L, s.getVal g.op = some (mkVal g)
  only : ∀ op v, s.getVal op = some v → ∃ g ∈ L, v = mkVal g
  idx : s.index.Perm (L.map gEntry)
  last : s.last = []
  ubq : s.ubq = []
  nb : s.notBonded = 0
  bsum : sumF bTok s.vals = s.bonded
  nsum : sumF nbTok s.vals = 0

theorem addGenesisVal_inv (s : App) (L : List GVal) (g : GVal) (h : GInv s L) (hop : ∀ x ∈ L, x.op ≠ g.op) :
    GInv (s.addGenesisVal g) (L ++ [g]) := by
  have hnone : s.getVal g.op = none := by
    cases hv : s.getVal g.op with
    | none => rfl
    | some v =>
      obtain ⟨x, hx, hvx⟩ := h.only g.op v hv
      have := getVal_op _ _ _ hv
      rw [hvx] at this
      exact absurd this (hop x hx)
  have hvals : (s.addGenesisVal g).vals = insertVal (mkVal g) s.vals := by
    simp [addGenesisVal, mkVal, setInfo, setIdx, setVal]
  have hget : ∀ op, (s.addGenesisVal g).getVal op = (s.setVal (mkVal g)).getVal op :=
    fun op => getVal_congr _ _ (by rw [hvals]; rfl) op
  have hidx : (s.addGenesisVal g).index = idxInsert (gEntry g) s.index := by
    simp [addGenesisVal, setInfo, setIdx, setVal, gEntry]
  have hfresh : gEntry g ∉ s.index := by
    intro hm
    have := (h.idx.mem_iff).mp hm
    obtain ⟨x, hx, hxe⟩ := List.mem_map.mp this
    have : x.op = g.op := by simp only [gEntry, Prod.mk.injEq] at hxe; exact hxe.2
    exact hop x hx this
  have hfind : s.vals.find? (fun x => x.op == (mkVal g).op) = none := hnone
  exact {
    sorted := by rw [hvals]; exact sorted_insertVal _ _ h.sorted
    recs := by
      intro x hx
      rw [hget]
      rcases List.mem_append.mp hx with hx | hx
      · rw [getVal_setVal_ne _ _ _ (by simpa [mkVal] using hop x hx)]; exact h.recs x hx
      · simp only [List.mem_singleton] at hx; subst hx
        have := getVal_setVal_self s (mkVal x)
        simpa [mkVal] using this
    only := by
      intro op v hv
      rw [hget] at hv
      by_cases ho : op = g.op
      · subst ho
        have := getVal_setVal_self s (mkVal g)
        simp only [mkVal] at this hv
        rw [this] at hv
        injection hv with hv
        exact ⟨g, by simp, hv.symm⟩
      · rw [getVal_setVal_ne _ _ _ (by simpa [mkVal] using ho)] at hv
        obtain ⟨x, hx, hvx⟩ := h.only op v hv
        exact ⟨x, by simp [hx], hvx⟩
    idx := by
      rw [hidx, List.map_append, List.map_cons, List.map_nil]
      exact ((idxInsert_perm _ _ hfresh).trans (h.idx.cons _)).trans (List.perm_append_singleton _ _).symm
    last := by simp [addGenesisVal, setInfo, setIdx, setVal, h.last]
    ubq := by simp [addGenesisVal, setInfo, setIdx, setVal, h.ubq]
    nb := by simp [addGenesisVal, setInfo, setIdx, setVal, h.nb]
    bsum := by
      rw [hvals, sumF_insertVal bTok (mkVal g) s.vals h.sorted, hfind]
      have : (s.addGenesisVal g).bonded = s.bonded + (g.tokens : Int) := by simp [addGenesisVal, setInfo, setIdx, setVal]
      rw [this, ← h.bsum]
      simp [bTok, mkVal]
    nsum := by
      rw [hvals, sumF_insertVal nbTok (mkVal g) s.vals h.sorted, hfind, h.nsum]
      simp [nbTok, mkVal] }

theorem foldl_inv : ∀ (rest L : List GVal) (s : App), GInv s L → ((L ++ rest).map (·.op)).Nodup →
    GInv (rest.foldl addGenesisVal s) (L ++ rest)
  | [], L, s, h, _ => by simpa using h
  | g :: rest, L, s, h, hn => by
    have hop : ∀ x ∈ L, x.op ≠ g.op := by
      intro x hx he
      simp only [List.map_append, List.map_cons] at hn
      exact (List.nodup_append.mp hn).2.2 x.op (List.mem_map.mpr ⟨x, hx, rfl⟩) g.op (by simp) he
    have := foldl_inv rest (L ++ [g]) (s.addGenesisVal g) (addGenesisVal_inv s L g h hop) (by simpa using hn)
    simpa using this

theorem genesis_inv (g : Genesis) (hn : (g.vals.map (·.op)).Nodup) : GInv (genesisState g) g.vals := by
  have h0 : GInv { emptyApp with
      params := { unbond := g.unbond, maxVals := g.maxVals, maxEntries := 7, hist := 10000, denom := 0, minComm := g.minComm },
      window := g.window, minSigned := g.minSigned, jailNs := g.jailNs, slashDown := g.slashDown } [] :=
    { sorted := List.Pairwise.nil
      recs := (by intro x hx; cases hx)
      only := (by intro op v hv; simp [getVal, emptyApp] at hv)
      idx := (by simp [emptyApp])
      last := rfl, ubq := rfl, nb := rfl, bsum := rfl, nsum := rfl }
  have := foldl_inv g.vals [] _ h0 (by simpa using hn)
  simp only [List.nil_append] at this
  exact this

theorem genesis_params (g : Genesis) : (genesisState g).params.maxVals = g.maxVals := by
  unfold genesisState
  generalize hs : ({ emptyApp with
      params := { unbond := g.unbond, maxVals := g.maxVals, maxEntries := 7, hist := 10000, denom := 0, minComm := g.minComm },
      window := g.window, minSigned := g.minSigned, jailNs := g.jailNs, slashDown := g.slashDown } : App) = s0
  have h0 : s0.params.maxVals = g.maxVals := by rw [← hs]
  clear hs
  induction g.vals generalizing s0 with
  | nil => exact h0
  | cons x xs ih =>
    simp only [List.foldl_cons]
    apply ih
    simp [addGenesisVal, setInfo, setIdx, setVal, h0]

/-! ### list facts over the genesis validators -/

theorem occ_map_entry : ∀ (L : List GVal) (op : Nat), (L.map (·.op)).Nodup →
    occ op (L.map gEntry) = if op ∈ L.map (·.op) then 1 else 0
  | [], _, _ => by simp [occ]
  | g :: L, op, hn => by
    have hn' : (g.op :: L.map (·.op)).Nodup := by simpa using hn
    have ⟨h1, h2⟩ := List.nodup_cons.mp hn'
    rw [List.map_cons, occ_cons, occ_map_entry L op h2]
    simp only [gEntry, List.map_cons, List.mem_cons]
    by_cases he : g.op = op
    · subst he; simp [h1]
    · have : ¬ op = g.op := fun e => he e.symm
      simp [he, this]

theorem occ_perm (op : Nat) {a b : List (Nat × Nat)} (h : a.Perm b) : occ op a = occ op b := by
  unfold occ; exact (h.filter _).length_eq

theorem idxPow_perm (s : App) {a b : List (Nat × Nat)} (h : a.Perm b) : idxPow s a = idxPow s b := by
  induction h with
  | nil => rfl
  | cons x _ ih => simp only [idxPow, ih]
  | swap x y l => simp only [idxPow]; omega
  | trans _ _ ih1 ih2 => rw [ih1, ih2]

theorem idxPow_nonneg (s : App) : ∀ l, 0 ≤ idxPow s l
  | [] => by simp [idxPow]
  | e :: l => by
    have := idxPow_nonneg s l
    simp only [idxPow]
    cases s.getVal e.2 with
    | none => simp only; omega
    | some v =>
      simp only
      have hn : (0 : Int) ≤ ((powerOf v.tokens : Nat) : Int) := Int.natCast_nonneg _
      split <;> omega

theorem cand_mkVal (g : GVal) (h : g.tokens ≥ PR) : cand (mkVal g) = true := by
  have : g.tokens / PR > 0 := Nat.div_pos h (by decide)
  simp [cand, mkVal, powerOf, this]

theorem idxPow_genesis (s : App) : ∀ (L : List GVal), (∀ g ∈ L, s.getVal g.op = some (mkVal g)) → (∀ g ∈ L, g.tokens ≥ PR) →
    idxPow s (L.map gEntry) = sumInts (L.map (fun g => ((powerOf g.tokens : Nat) : Int)))
  | [], _, _ => by simp [idxPow, sumInts]
  | g :: L, hr, ht => by
    have ih := idxPow_genesis s L (fun x hx => hr x (by simp [hx])) (fun x hx => ht x (by simp [hx]))
    have hc := cand_mkVal g (ht g (by simp))
    simp only [List.map_cons, idxPow, gEntry, hr g (by simp), hc, ↓reduceIte, sumInts_cons]
    rw [← ih]
    simp [mkVal, gEntry]

theorem noShadow_of_pos (s : App) : ∀ l : List (Nat × Nat), (∀ e ∈ l, ∃ v, s.getVal e.2 = some v ∧ powerOf v.tokens > 0) →
    noShadow s l = true
  | [], _ => rfl
  | e :: l, h => by
    obtain ⟨v, hv, hp⟩ := h e (by simp)
    unfold noShadow
    rw [hv]
    simp only [hp, decide_true, Bool.or_true, Bool.true_or, Bool.true_and]
    exact noShadow_of_pos s l (fun x hx => h x (by simp [hx]))

/-! ### the recorded total -/

theorem visit_lastTotal (acc a1 : LoopAcc) (op : Nat) (h : visit acc op = .next a1) : a1.app.lastTotal = acc.app.lastTotal := by
  unfold visit at h
  cases hv : acc.app.getVal op with
  | none => simp [hv] at h
  | some w =>
    simp only [hv] at h
    unfold visitVal at h
    split at h
    · cases h
    · split at h
      · cases h
      · injection h with h
        subst h
        have hb : (acc.app.bondIfNeeded w).1.lastTotal = acc.app.lastTotal := by
          unfold bondIfNeeded
          split
          · rfl
          · unfold bondValidator hookBonded
            dsimp only
            split <;> simp [setInfo, ubqDelete, setIdx, setVal, delIdx] <;> split <;> simp
        dsimp only
        split
        · simp [setLast, hb]
        · exact hb

theorem loop_lastTotal (maxV : Nat) : ∀ (rest : List (Nat × Nat)) (acc a : LoopAcc),
    applyLoop maxV rest acc = .done a → a.app.lastTotal = acc.app.lastTotal
  | [], acc, a, h => by simp [applyLoop] at h; subst h; rfl
  | e :: rest, acc, a, h => by
    unfold applyLoop at h
    split at h
    · cases hv : visit acc e.2 with
      | halt hh => simp [hv, loopCont] at h
      | skip => simp only [hv, loopCont] at h; exact loop_lastTotal maxV rest acc a h
      | stop => simp only [hv, loopCont] at h; injection h with h; subst h; rfl
      | next a1 => simp only [hv, loopCont] at h; rw [loop_lastTotal maxV rest a1 a h, visit_lastTotal acc a1 e.2 hv]
    · injection h with h; subst h; rfl

theorem unbondLoop_lastTotal : ∀ (rem : List (Nat × Int)) (u u' : UnbAcc), unbondLoop rem u = .ok u' → u'.app.lastTotal = u.app.lastTotal
  | [], u, u', h => by simp [unbondLoop] at h; subst h; rfl
  | (op, _) :: rem, u, u', h => by
    unfold unbondLoop at h
    cases h1 : unbondOne u op with
    | error e => simp [h1] at h
    | ok u1 =>
      simp only [h1] at h
      rw [unbondLoop_lastTotal rem u1 u' h]
      unfold unbondOne at h1
      cases hv : u.app.getVal op with
      | none => simp [hv] at h1
      | some w =>
        simp only [hv] at h1
        split at h1
        · cases h1
        · injection h1 with h1
          subst h1
          unfold beginUnbonding
          dsimp only
          simp [delLast, ubqInsert, setIdx, setVal, delIdx]
          split <;> simp

/-- the total recorded by `ApplyAndReturnValidatorSetUpdates` is never negative (it is a sum of voting powers, or
    the value that entered) -/
theorem applyUpdates_lastTotal (s s' : App) (c : CSet) (ups : List (Nat × Int)) (hp : PreAgree s c)
    (h : s.applyUpdates = .ok (ups, s')) (h0 : 0 ≤ s.lastTotal) : 0 ≤ s'.lastTotal := by
  unfold applyUpdates at h
  cases hl : applyLoop s.params.maxVals s.index ⟨s, s.last, [], 0, 0, 0⟩ with
  | halt hh => simp [hl] at h
  | done a =>
    simp only [hl] at h
    unfold finishUpdates at h
    cases hu : unbondLoop a.last ⟨a.app, a.updates, 0⟩ with
    | error e => simp [hu] at h
    | ok u =>
      simp only [hu] at h
      cases hm : movePools u.app a.nb2b u.b2nb with
      | error e => simp [hm] at h
      | ok s2 =>
        simp only [hm] at h
        injection h with h
        have hF := first_loop s hp.toPreLoop s.index [] _ a (by simp) hp.shadow (firstInv_init s) hl
        have e1 := loop_lastTotal s.params.maxVals s.index _ a hl
        have e2 := unbondLoop_lastTotal a.last _ u hu
        have e3 : s2.lastTotal = u.app.lastTotal := by
          unfold movePools at hm
          split at hm
          · dsimp only at hm
            split at hm
            · cases hm
            · cases hm; rfl
          · split at hm
            · dsimp only at hm
              split at hm
              · cases hm
              · cases hm; rfl
            · cases hm; rfl
        have := congrArg Prod.snd h
        simp only at this
        rw [← this]
        have hnn := idxPow_nonneg s s.index
        split
        · rw [e3, e2, e1]; exact h0
        · simp only
          rw [hF.tot]; exact hnn

theorem genesis_lastTotal (g : Genesis) : (genesisState g).lastTotal = 0 := by
  unfold genesisState
  generalize hs : ({ emptyApp with
      params := { unbond := g.unbond, maxVals := g.maxVals, maxEntries := 7, hist := 10000, denom := 0, minComm := g.minComm },
      window := g.window, minSigned := g.minSigned, jailNs := g.jailNs, slashDown := g.slashDown } : App) = s0
  have h0 : s0.lastTotal = 0 := by rw [← hs]; rfl
  clear hs
  induction g.vals generalizing s0 with
  | nil => exact h0
  | cons x xs ih =>
    simp only [List.foldl_cons]
    apply ih
    simp [addGenesisVal, setInfo, setIdx, setVal, h0]

/-- a well-formed genesis in Prop form -/
structure GenesisOk (g : Genesis) : Prop where
  nonempty : g.vals ≠ []
  ops : (g.vals.map (·.op)).Nodup
  keys : (g.vals.map (·.key)).Nodup
  tokens : ∀ v ∈ g.vals, v.tokens ≥ PR
  room : g.vals.length ≤ g.maxVals
  total : sumInts (g.vals.map (fun v => ((powerOf v.tokens : Nat) : Int))) ≤ maxTotalPower

theorem key_inj_of_nodup : ∀ (L : List GVal), (L.map (·.key)).Nodup → ∀ x ∈ L, ∀ y ∈ L, x.key = y.key → x = y
  | [], _, x, hx, _, _, _ => by cases hx
  | a :: L, hn, x, hx, y, hy, hxy => by
    have hn' : (a.key :: L.map (·.key)).Nodup := by simpa using hn
    have ⟨h1, h2⟩ := List.nodup_cons.mp hn'
    rcases List.mem_cons.mp hx with ex | ex <;> rcases List.mem_cons.mp hy with ey | ey
    · rw [ex, ey]
    · subst ex; exact absurd (List.mem_map.mpr ⟨y, ey, hxy.symm⟩) h1
    · subst ey; exact absurd (List.mem_map.mpr ⟨x, ex, hxy⟩) h1
    · exact key_inj_of_nodup L h2 x ex y ey hxy

/-- the four hypotheses of the refinement theorems hold of the genesis state and the empty CometBFT set -/
theorem genesis_pre (g : Genesis) (ok : GenesisOk g) :
    PreAgree (genesisState g) [] ∧ PreAccept (genesisState g) [] ∧ PrePools (genesisState g) := by
  have inv := genesis_inv g ok.ops
  have hocc : ∀ x ∈ g.vals, occ x.op (genesisState g).index = 1 := by
    intro x hx
    rw [occ_perm x.op inv.idx, occ_map_entry g.vals x.op ok.ops]
    simp [List.mem_map.mpr ⟨x, hx, rfl⟩]
  have hmemIdx : ∀ e ∈ (genesisState g).index, ∃ x ∈ g.vals, e = gEntry x := by
    intro e he
    obtain ⟨x, hx, hxe⟩ := List.mem_map.mp ((inv.idx.mem_iff).mp he)
    exact ⟨x, hx, hxe.symm⟩
  have hpos : ∀ x ∈ g.vals, powerOf (mkVal x).tokens > 0 := by
    intro x hx
    exact Nat.div_pos (ok.tokens x hx) (by decide)
  have hvisited : ∀ x ∈ g.vals, visitedB (genesisState g) (genesisState g).index x.op = true := by
    intro x hx
    simp [visitedB, inv.recs x hx, cand_mkVal x (ok.tokens x hx), hocc x hx]
  have hpl : PreLoop (genesisState g) := {
    exists_ := by
      intro e he
      obtain ⟨x, hx, hxe⟩ := hmemIdx e he
      rw [hxe]; simp [gEntry, inv.recs x hx]
    keyInj := by
      intro op1 op2 v1 v2 h1 h2 hk
      obtain ⟨x1, hx1, e1⟩ := inv.only op1 v1 h1
      obtain ⟨x2, hx2, e2⟩ := inv.only op2 v2 h2
      have : x1 = x2 := key_inj_of_nodup g.vals ok.keys x1 hx1 x2 hx2 (by rw [e1, e2] at hk; exact hk)
      rw [← getVal_op _ _ _ h1, ← getVal_op _ _ _ h2, e1, e2, this]
    occ2 := by
      intro op v hv _
      obtain ⟨x, hx, e⟩ := inv.only op v hv
      have hxop : x.op = op := by have := getVal_op _ _ _ hv; rw [e] at this; exact this
      have := hocc x hx
      rw [hxop] at this
      exact ⟨by omega, fun h2 => by omega⟩
    noCut := by
      rw [genesis_params]
      have h1 : candCount (genesisState g) (genesisState g).index ≤ (genesisState g).index.length := by
        unfold candCount; exact List.length_filter_le _ _
      have h2 : (genesisState g).index.length = g.vals.length := by rw [inv.idx.length_eq]; simp
      have := ok.room
      omega }
  refine ⟨{ toPreLoop := hpl, shadow := ?_, lastNodup := ?_, lastEx := ?_, silent := ?_, leaving := ?_, cometKnown := ?_, bondedKnown := ?_ }, ?_, ?_⟩
  · apply noShadow_of_pos
    intro e he
    obtain ⟨x, hx, hxe⟩ := hmemIdx e he
    exact ⟨mkVal x, by rw [hxe]; exact inv.recs x hx, hpos x hx⟩
  · rw [inv.last]; simp
  · intro op p hl; rw [inv.last] at hl; cases hl
  · intro op v _ _ _ hl; rw [inv.last] at hl; cases hl
  · intro op v _ hl; rw [inv.last] at hl; exact absurd rfl hl
  · intro k p hl; cases hl
  · intro op v hv _ _
    obtain ⟨x, hx, e⟩ := inv.only op v hv
    have hxop : x.op = op := by have := getVal_op _ _ _ hv; rw [e] at this; exact this
    left; rw [← hxop]; exact hvisited x hx
  · refine { cNodup := (by simp), cNonneg := (by intro e he; cases he), stays := ?_, total := ?_ }
    · cases hv : g.vals with
      | nil => exact absurd hv ok.nonempty
      | cons x xs =>
        have hx : x ∈ g.vals := by rw [hv]; simp
        exact ⟨x.op, mkVal x, inv.recs x hx, hvisited x hx⟩
    · rw [idxPow_perm _ inv.idx, idxPow_genesis _ g.vals inv.recs ok.tokens]
      have := ok.total
      simp only [Comet.total, List.map_nil, sumInts, List.foldl_nil]
      simpa [sumInts] using this
  · exact { sorted := inv.sorted, nb := (by rw [inv.nsum, inv.nb]; omega), b := (by rw [inv.bsum]; omega) }

/-- **InitChain of every well-formed genesis**: it succeeds, CometBFT accepts the genesis update list, and the set it
    builds from the empty set is the chain's own -/
theorem initChain_ok (g : Genesis) (ok : GenesisOk g) :
    ∃ u s c, App.initChain g = .ok (u, s) ∧ Comet.applyChangeSet [] u = .ok c ∧ Agree c s := by
  obtain ⟨hp, hx, hq⟩ := genesis_pre g ok
  obtain ⟨ups, s1, h1⟩ := applyUpdates_total (genesisState g) [] hp hq
  obtain ⟨c, h2⟩ := applyUpdates_accepted (genesisState g) s1 [] ups hp hx h1
  have hag := applyUpdates_agree (genesisState g) s1 [] c ups hp h1 h2
  have htot : ¬ s1.lastTotal < 0 := by
    have := applyUpdates_lastTotal (genesisState g) s1 [] ups hp h1 (by rw [genesis_lastTotal]; exact Int.le_refl 0)
    omega
  refine ⟨ups, { s1 with cached := s1.lastTotal.toNat, absCh := 0 }, c, ?_, h2, ?_⟩
  · unfold initChain
    rw [h1]
    simp only [htot, ↓reduceIte]
  · intro k p
    rw [hag k p]
    constructor
    · rintro ⟨v, a1, a2, a3, a4, a5⟩
      exact ⟨v, by rw [← a1]; exact getVal_congr _ _ rfl _, a2, a3, a4, a5⟩
    · rintro ⟨v, a1, a2, a3, a4, a5⟩
      exact ⟨v, by rw [← a1]; exact getVal_congr _ _ rfl _, a2, a3, a4, a5⟩

theorem genesisOk_of_wf (g : Genesis) (h : g.wf = true) : GenesisOk g := by
  unfold Genesis.wf at h
  simp only [Bool.and_eq_true, Bool.not_eq_true', decide_eq_true_eq] at h
  obtain ⟨⟨⟨⟨⟨⟨⟨⟨⟨⟨⟨⟨⟨⟨h1, h2⟩, h3⟩, h4⟩, h5⟩, _⟩, _⟩, _⟩, _⟩, _⟩, _⟩, _⟩, _⟩, _⟩, h15⟩ := h
  exact {
    nonempty := by intro e; rw [e] at h1; simp at h1
    ops := (nodupNat_iff _).mp h2
    keys := (nodupNat_iff _).mp h3
    tokens := by
      intro v hv
      have := List.all_eq_true.mp h4 v hv
      simpa using this
    room := h5
    total := h15 }

/-- **InitChain of every well-formed genesis** (`Genesis.wf`, the Boolean the witnesses use) -/
theorem initChain_wf (g : Genesis) (h : g.wf = true) :
    ∃ u s c, App.initChain g = .ok (u, s) ∧ Comet.applyChangeSet [] u = .ok c ∧ Agree c s :=
  initChain_ok g (genesisOk_of_wf g h)

end App
end PoaVerif
