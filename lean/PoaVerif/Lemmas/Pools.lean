import PoaVerif.Lemmas.NoHalt
/-
  The pool transfer at the end of `ApplyAndReturnValidatorSetUpdates` cannot fail when each pool covers the tokens
  of the validators of its kind: by a potential-function argument over both loops (what moves out of the
  not-bonded sum is exactly `nb2b`, what moves out of the bonded sum is exactly `b2nb`).
-/
namespace PoaVerif
namespace App

def SortedOps (l : List Val) : Prop := l.Pairwise (fun a b => a.op < b.op)

theorem mem_insertVal (v : Val) : ∀ (l : List Val) (y : Val), y ∈ insertVal v l → y = v ∨ y ∈ l
  | [], y, h => by simp [insertVal] at h; exact Or.inl h
  | x :: xs, y, h => by
    unfold insertVal at h
    split at h
    · rcases List.mem_cons.mp h with e | e
      · exact Or.inl e
      · exact Or.inr (by simp [e])
    · split at h
      · rcases List.mem_cons.mp h with e | e
        · exact Or.inl e
        · exact Or.inr e
      · rcases List.mem_cons.mp h with e | e
        · exact Or.inr (by simp [e])
        · rcases mem_insertVal v xs y e with e2 | e2
          · exact Or.inl e2
          · exact Or.inr (by simp [e2])

theorem sorted_insertVal (v : Val) : ∀ (l : List Val), SortedOps l → SortedOps (insertVal v l)
  | [], _ => by simp [insertVal, SortedOps]
  | x :: xs, h => by
    unfold SortedOps at h ⊢
    have ⟨h1, h2⟩ := List.pairwise_cons.mp h
    unfold insertVal
    split
    · rename_i he
      apply List.pairwise_cons.mpr
      exact ⟨fun y hy => by rw [← he]; exact h1 y hy, h2⟩
    · split
      · rename_i hlt
        apply List.pairwise_cons.mpr
        refine ⟨?_, h⟩
        intro y hy
        rcases List.mem_cons.mp hy with e | e
        · rw [e]; exact hlt
        · exact Nat.lt_trans hlt (h1 y e)
      · rename_i hne hnlt
        apply List.pairwise_cons.mpr
        refine ⟨?_, sorted_insertVal v xs h2⟩
        intro y hy
        rcases mem_insertVal v xs y hy with e | e
        · rw [e]; omega
        · exact h1 y e

theorem find_none_of_lt (op : Nat) : ∀ (l : List Val), (∀ y ∈ l, op < y.op) → l.find? (fun x => x.op == op) = none := by
  intro l h
  apply List.find?_eq_none.mpr
  intro y hy
  have := h y hy
  simp; omega

/-- replacing (or inserting) a record changes a sum over the records by the difference of the two contributions -/
theorem sumF_insertVal (f : Val → Int) (v : Val) : ∀ (l : List Val), SortedOps l →
    sumF f (insertVal v l) = sumF f l - (match l.find? (fun x => x.op == v.op) with | some w => f w | none => 0) + f v
  | [], _ => by simp [insertVal, sumF]
  | x :: xs, h => by
    unfold SortedOps at h
    have ⟨h1, h2⟩ := List.pairwise_cons.mp h
    unfold insertVal
    split
    · rename_i he
      simp only [sumF, List.find?_cons, he, beq_self_eq_true]; omega
    · rename_i hne
      have hb : (x.op == v.op) = false := by simpa using hne
      split
      · rename_i hlt
        have := find_none_of_lt v.op xs (fun y hy => Nat.lt_trans hlt (h1 y hy))
        simp only [sumF, List.find?_cons, hb, this]; omega
      · have ih := sumF_insertVal f v xs h2
        simp only [sumF, List.find?_cons, hb, ih]; omega

theorem sumF_nonneg (f : Val → Int) (hf : ∀ v, 0 ≤ f v) : ∀ l, 0 ≤ sumF f l
  | [] => by simp [sumF]
  | v :: l => by have := hf v; have := sumF_nonneg f hf l; simp only [sumF]; omega

theorem nbTok_nonneg (v : Val) : 0 ≤ nbTok v := by unfold nbTok; split <;> omega
theorem bTok_nonneg (v : Val) : 0 ≤ bTok v := by unfold bTok; split <;> omega

/-! ### what the state changes do to the records and the pools -/

theorem bondValidator_vals (x : App) (w : Val) :
    (x.bondValidator w).1.vals = insertVal { w with status := .bonded } x.vals ∧
    (x.bondValidator w).1.bonded = x.bonded ∧ (x.bondValidator w).1.notBonded = x.notBonded := by
  unfold bondValidator hookBonded
  dsimp only
  split <;> simp [setInfo, ubqDelete, setIdx, setVal, delIdx] <;> split <;> simp

theorem beginUnbonding_vals (x : App) (w : Val) :
    (x.beginUnbonding w).1.vals = insertVal (x.beginUnbonding w).2 x.vals ∧
    (x.beginUnbonding w).2.status = .unbonding ∧ (x.beginUnbonding w).2.tokens = w.tokens ∧ (x.beginUnbonding w).2.op = w.op ∧
    (x.beginUnbonding w).1.bonded = x.bonded ∧ (x.beginUnbonding w).1.notBonded = x.notBonded := by
  unfold beginUnbonding
  dsimp only
  simp [ubqInsert, setIdx, setVal, delIdx]
  split <;> simp

/-! ### first loop -/

structure PotInv (s : App) (acc : LoopAcc) : Prop where
  sorted : SortedOps acc.app.vals
  nb : acc.nb2b + sumF nbTok acc.app.vals = sumF nbTok s.vals
  b : sumF bTok acc.app.vals = sumF bTok s.vals + acc.nb2b
  pools : acc.app.bonded = s.bonded ∧ acc.app.notBonded = s.notBonded
  nonneg : 0 ≤ acc.nb2b

theorem bondIfNeeded_pot (x : App) (w : Val) (hw : x.getVal w.op = some w) (hs : SortedOps x.vals) :
    SortedOps (x.bondIfNeeded w).1.vals ∧
    (x.bondIfNeeded w).2.2 + sumF nbTok (x.bondIfNeeded w).1.vals = sumF nbTok x.vals ∧
    sumF bTok (x.bondIfNeeded w).1.vals = sumF bTok x.vals + (x.bondIfNeeded w).2.2 ∧
    (x.bondIfNeeded w).1.bonded = x.bonded ∧ (x.bondIfNeeded w).1.notBonded = x.notBonded ∧ 0 ≤ (x.bondIfNeeded w).2.2 := by
  unfold bondIfNeeded
  by_cases hb : w.status = .bonded
  · rw [if_pos hb]
    exact ⟨hs, by simp, by simp, rfl, rfl, by simp⟩
  · rw [if_neg hb]
    obtain ⟨v1, v2, v3⟩ := bondValidator_vals x w
    dsimp only
    have hfind : x.vals.find? (fun y => y.op == w.op) = some w := hw
    have e1 := sumF_insertVal nbTok { w with status := .bonded } x.vals hs
    have e2 := sumF_insertVal bTok { w with status := .bonded } x.vals hs
    simp only [hfind] at e1 e2
    have t : (x.bondValidator w).2.tokens = w.tokens := by simp [bondValidator]
    refine ⟨by rw [v1]; exact sorted_insertVal _ _ hs, ?_, ?_, v2, v3, by rw [t]; omega⟩
    · rw [v1, e1, t]; simp only [nbTok, hb, ↓reduceIte]; omega
    · rw [v1, e2, t]; simp only [bTok, hb, ↓reduceIte]; omega

theorem visit_pot (s : App) (acc a1 : LoopAcc) (op : Nat) (hinv : PotInv s acc) (h : visit acc op = .next a1) : PotInv s a1 := by
  unfold visit at h
  cases hv : acc.app.getVal op with
  | none => simp [hv] at h
  | some w =>
    simp only [hv] at h
    have hwop := getVal_op _ _ _ hv
    unfold visitVal at h
    split at h
    · cases h
    · split at h
      · cases h
      · injection h with h
        subst h
        obtain ⟨p1, p2, p3, p4, p5, p6⟩ := bondIfNeeded_pot acc.app w (by rw [hwop]; exact hv) hinv.sorted
        have hvals : ∀ (x : App) (b : Bool) (o : Nat) (q : Int), (if b = true then x.setLast o q else x).vals = x.vals := by
          intro x b o q; cases b <;> rfl
        have hbd : ∀ (x : App) (b : Bool) (o : Nat) (q : Int), (if b = true then x.setLast o q else x).bonded = x.bonded ∧
            (if b = true then x.setLast o q else x).notBonded = x.notBonded := by
          intro x b o q; cases b <;> exact ⟨rfl, rfl⟩
        exact {
          sorted := by dsimp only; rw [hvals]; exact p1
          nb := by dsimp only; rw [hvals]; have := hinv.nb; omega
          b := by dsimp only; rw [hvals]; have := hinv.b; omega
          pools := by
            dsimp only
            obtain ⟨q1, q2⟩ := hbd (acc.app.bondIfNeeded w).1 (alookup w.op acc.last != some ((powerOf (acc.app.bondIfNeeded w).2.1.tokens : Nat) : Int)) w.op ((powerOf (acc.app.bondIfNeeded w).2.1.tokens : Nat) : Int)
            exact ⟨by rw [q1, p4]; exact hinv.pools.1, by rw [q2, p5]; exact hinv.pools.2⟩
          nonneg := by dsimp only; have := hinv.nonneg; omega }

theorem loop_pot (s : App) (maxV : Nat) : ∀ (rest : List (Nat × Nat)) (acc a : LoopAcc), PotInv s acc →
    applyLoop maxV rest acc = .done a → PotInv s a
  | [], acc, a, hinv, h => by simp [applyLoop] at h; subst h; exact hinv
  | e :: rest, acc, a, hinv, h => by
    unfold applyLoop at h
    split at h
    · cases hv : visit acc e.2 with
      | halt hh => simp [hv, loopCont] at h
      | skip => simp only [hv, loopCont] at h; exact loop_pot s maxV rest acc a hinv h
      | stop => simp only [hv, loopCont] at h; injection h with h; subst h; exact hinv
      | next a1 => simp only [hv, loopCont] at h; exact loop_pot s maxV rest a1 a (visit_pot s acc a1 e.2 hinv hv) h
    · injection h with h; subst h; exact hinv

/-! ### second loop -/

structure PotInv2 (a : LoopAcc) (u : UnbAcc) : Prop where
  sorted : SortedOps u.app.vals
  b : sumF bTok u.app.vals + u.b2nb = sumF bTok a.app.vals
  nb : sumF nbTok u.app.vals = sumF nbTok a.app.vals + u.b2nb
  pools : u.app.bonded = a.app.bonded ∧ u.app.notBonded = a.app.notBonded
  nonneg : 0 ≤ u.b2nb

theorem unbondOne_pot (a : LoopAcc) (u u1 : UnbAcc) (op : Nat) (hinv : PotInv2 a u) (h : unbondOne u op = .ok u1) : PotInv2 a u1 := by
  unfold unbondOne at h
  cases hv : u.app.getVal op with
  | none => simp [hv] at h
  | some w =>
    simp only [hv] at h
    have hwop := getVal_op _ _ _ hv
    split at h
    · cases h
    · rename_i hb
      have hb' : w.status = .bonded := by simpa using hb
      injection h with h
      subst h
      obtain ⟨v1, v2, v3, v4, v5, v6⟩ := beginUnbonding_vals u.app w
      have hfind : u.app.vals.find? (fun y => y.op == (u.app.beginUnbonding w).2.op) = some w := by rw [v4, hwop]; exact hv
      have e1 := sumF_insertVal nbTok (u.app.beginUnbonding w).2 u.app.vals hinv.sorted
      have e2 := sumF_insertVal bTok (u.app.beginUnbonding w).2 u.app.vals hinv.sorted
      simp only [hfind] at e1 e2
      have hn1 : nbTok (u.app.beginUnbonding w).2 = (w.tokens : Int) := by simp [nbTok, v2, v3]
      have hn2 : bTok (u.app.beginUnbonding w).2 = 0 := by simp [bTok, v2]
      have hn3 : nbTok w = 0 := by simp [nbTok, hb']
      have hn4 : bTok w = (w.tokens : Int) := by simp [bTok, hb']
      exact {
        sorted := by
          show SortedOps ((u.app.beginUnbonding w).1.delLast op).vals
          change SortedOps (u.app.beginUnbonding w).1.vals
          rw [v1]; exact sorted_insertVal _ _ hinv.sorted
        b := by
          show sumF bTok ((u.app.beginUnbonding w).1.delLast op).vals + (u.b2nb + ((u.app.beginUnbonding w).2.tokens : Int)) = _
          change sumF bTok (u.app.beginUnbonding w).1.vals + _ = _
          rw [v1, e2, v3, hn2, hn4]; have := hinv.b; omega
        nb := by
          show sumF nbTok ((u.app.beginUnbonding w).1.delLast op).vals = _ + (u.b2nb + ((u.app.beginUnbonding w).2.tokens : Int))
          change sumF nbTok (u.app.beginUnbonding w).1.vals = _
          rw [v1, e1, v3, hn1, hn3]; have := hinv.nb; omega
        pools := by
          show ((u.app.beginUnbonding w).1.delLast op).bonded = _ ∧ ((u.app.beginUnbonding w).1.delLast op).notBonded = _
          change (u.app.beginUnbonding w).1.bonded = _ ∧ (u.app.beginUnbonding w).1.notBonded = _
          rw [v5, v6]; exact hinv.pools
        nonneg := by
          show 0 ≤ u.b2nb + ((u.app.beginUnbonding w).2.tokens : Int)
          have := hinv.nonneg; omega }

theorem unbondLoop_pot (a : LoopAcc) : ∀ (rem : List (Nat × Int)) (u u' : UnbAcc), PotInv2 a u → unbondLoop rem u = .ok u' → PotInv2 a u'
  | [], u, u', hinv, h => by simp [unbondLoop] at h; subst h; exact hinv
  | (op, _) :: rem, u, u', hinv, h => by
    unfold unbondLoop at h
    cases h1 : unbondOne u op with
    | error e => simp [h1] at h
    | ok u1 =>
      simp only [h1] at h
      exact unbondLoop_pot a rem u1 u' (unbondOne_pot a u u1 op hinv h1) h

/-- each pool covers the tokens of the validators of its kind -/
structure PrePools (s : App) : Prop where
  sorted : SortedOps s.vals
  nb : sumF nbTok s.vals ≤ s.notBonded
  b : sumF bTok s.vals ≤ s.bonded

/-- **`ApplyAndReturnValidatorSetUpdates` never fails on a `Pre` state** -/
theorem applyUpdates_total (s : App) (c : CSet) (hp : PreAgree s c) (hq : PrePools s) :
    ∃ ups s', s.applyUpdates = .ok (ups, s') := by
  obtain ⟨a, u, hl, hu, _, _⟩ := loops_total s c hp
  have pot0 : PotInv s ⟨s, s.last, [], 0, 0, 0⟩ :=
    { sorted := hq.sorted, nb := by simp, b := by simp, pools := ⟨rfl, rfl⟩, nonneg := by simp }
  have pot1 := loop_pot s s.params.maxVals s.index _ a pot0 hl
  have pot20 : PotInv2 a ⟨a.app, a.updates, 0⟩ :=
    { sorted := pot1.sorted, b := by simp, nb := by simp, pools := ⟨rfl, rfl⟩, nonneg := by simp }
  have pot2 := unbondLoop_pot a a.last _ u pot20 hu
  unfold applyUpdates
  rw [hl]
  simp only
  unfold finishUpdates
  rw [hu]
  simp only
  have hnbA := sumF_nonneg nbTok nbTok_nonneg a.app.vals
  have hbU := sumF_nonneg bTok bTok_nonneg u.app.vals
  have h1 := pot1.nb; have h2 := pot1.b; have h3 := pot2.b
  have h4 := pot1.nonneg; have h5 := pot2.nonneg
  have hq1 := hq.nb; have hq2 := hq.b
  have hpb : u.app.bonded = s.bonded := by rw [pot2.pools.1, pot1.pools.1]
  have hpn : u.app.notBonded = s.notBonded := by rw [pot2.pools.2, pot1.pools.2]
  have hm : ∃ s2, movePools u.app a.nb2b u.b2nb = .ok s2 := by
    unfold movePools
    split
    · dsimp only
      rw [if_neg (by rw [hpn]; omega)]
      exact ⟨_, rfl⟩
    · split
      · dsimp only
        rw [if_neg (by rw [hpb]; omega)]
        exact ⟨_, rfl⟩
      · exact ⟨_, rfl⟩
  obtain ⟨s2, hm⟩ := hm
  rw [hm]
  exact ⟨_, _, rfl⟩

theorem lt_all_of_sortedNat : ∀ (a : Nat) (l : List Nat), sortedNat (a :: l) = true → ∀ y ∈ l, a < y
  | _, [], _, y, hy => by cases hy
  | a, b :: l, h, y, hy => by
    simp only [sortedNat, Bool.and_eq_true, decide_eq_true_eq] at h
    rcases List.mem_cons.mp hy with e | e
    · rw [e]; exact h.1
    · exact Nat.lt_trans h.1 (lt_all_of_sortedNat b l h.2 y e)

theorem sortedNat_tail (a : Nat) (l : List Nat) (h : sortedNat (a :: l) = true) : sortedNat l = true := by
  cases l with
  | nil => rfl
  | cons b l => simp only [sortedNat, Bool.and_eq_true] at h; exact h.2

theorem sortedOps_of_sortedNat : ∀ (l : List Val), sortedNat (l.map (·.op)) = true → SortedOps l
  | [], _ => List.Pairwise.nil
  | v :: l, h => by
    have h' : sortedNat (v.op :: l.map (fun x : Val => x.op)) = true := h
    apply List.pairwise_cons.mpr
    refine ⟨?_, sortedOps_of_sortedNat l (sortedNat_tail _ _ h')⟩
    intro y hy
    exact lt_all_of_sortedNat v.op (l.map (fun x : Val => x.op)) h' y.op (List.mem_map.mpr ⟨y, hy, rfl⟩)

theorem prePools_of_pre (s : App) (c : CSet) (h : Pre s c = true) : PrePools s := by
  unfold Pre at h
  simp only [Bool.and_eq_true] at h
  obtain ⟨⟨_, h10a⟩, h10b⟩ := h
  exact ⟨sortedOps_of_sortedNat _ h10a.1, of_decide_eq_true h10a.2, of_decide_eq_true h10b⟩

/-- **`ApplyAndReturnValidatorSetUpdates` on a `Pre` state**: it succeeds, CometBFT accepts its update list, and the
    resulting set is the chain's own -/
theorem applyUpdates_pre (s : App) (c : CSet) (h : Pre s c = true) :
    ∃ ups s' c', s.applyUpdates = .ok (ups, s') ∧ Comet.applyChangeSet c ups = .ok c' ∧ Agree c' s' := by
  have hp := preAgree_of_pre s c h
  obtain ⟨ups, s', h1⟩ := applyUpdates_total s c hp (prePools_of_pre s c h)
  obtain ⟨c', h2⟩ := applyUpdates_accepted s s' c ups hp (preAccept_of_pre s c h) h1
  exact ⟨ups, s', c', h1, h2, applyUpdates_agree s s' c c' ups hp h1 h2⟩

end App
end PoaVerif
