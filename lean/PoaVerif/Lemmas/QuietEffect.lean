import PoaVerif.Lemmas.Quiet
import PoaVerif.Props.C16
/-
  The requested effect of SetPower along quiet blocks (C03, C14 at the level of whole blocks).

  `Pinned s op P`: the validator `op` was re-weighted earlier in this block and its record holds `P` tokens.  A
  successful SetPower pins its target (`setPower_pins_target`, from `M` alone); every quiet transaction keeps the
  pins already made (`runTx_pins`: a quiet SetPower never addresses a validator re-weighted earlier in the block, the
  other quiet messages do not touch validator records); the EndBlocker then hands CometBFT `P / 10^6` for the target's
  key (`quiet_block_effect`).
-/
namespace PoaVerif
open App

def Pinned (s : App) (op P : Nat) : Prop := op ∈ s.updated ∧ ∃ v, s.getVal op = some v ∧ v.tokens = P

theorem Pinned_frame (s s' : App) (hv : s'.vals = s.vals) (hu : s'.updated = s.updated) (op P : Nat)
    (h : Pinned s op P) : Pinned s' op P := by
  obtain ⟨h1, v, h2, h3⟩ := h
  exact ⟨by rw [hu]; exact h1, v, by rw [getVal_congr s' s hv]; exact h2, h3⟩

theorem createMsg_frame (s s' : App) (sg : Signer) (a : CreateArgs) (h : s.createMsg sg a = .ok s') :
    s'.vals = s.vals ∧ s'.updated = s.updated := by
  unfold createMsg at h
  repeat (split at h <;> try (cases h; done))
  cases h
  simp only [updateBondedPool]
  split <;> exact ⟨rfl, rfl⟩

theorem rmPendingMsg_frame (s s' : App) (sg : Signer) (t : Option Nat) (h : s.rmPendingMsg sg t = .ok s') :
    s'.vals = s.vals ∧ s'.updated = s.updated := by
  unfold rmPendingMsg at h
  split at h
  · cases h
  · split at h <;> (cases h; exact ⟨rfl, rfl⟩)

theorem paramsMsg_frame (s s' : App) (sg : Signer) (pa : ParamArgs) (h : s.paramsMsg sg pa = .ok s') :
    s'.vals = s.vals ∧ s'.updated = s.updated := by
  obtain ⟨_, _, e⟩ := Props.C16.c16_applied s s' sg pa h
  rw [e]; exact ⟨rfl, rfl⟩

theorem find_insertVal_ne' (w : Val) (l : List Val) (op : Nat) (h : op ≠ w.op) :
    (insertVal w l).find? (fun x => x.op == op) = l.find? (fun x => x.op == op) := find_insertVal_ne w op l h

/-- a successful SetPower by the admin pins its target at the requested amount -/
theorem setPower_pins_target (s s' : App) (c : CSet) (op p : Nat) (u : Bool) (m : M s c)
    (h : setPowerMsg genLimitFacts s .admin (some op) p u = .ok s') : Pinned s' op p := by
  cases hf : s.pendingFind op with
  | none =>
    have hadm : s.admitIfPending (some op) = s := by simp [admitIfPending, hf]
    obtain ⟨v, hv⟩ := setPower_target s s s' op p u hadm h
    have hvop := getVal_op _ _ _ hv
    have hlv := m.live v (mem_of_getVal s op v hv)
    obtain ⟨_, _, _, D, LT, AB, B, S, hs'⟩ := setPower_shape s s s' op p u v hadm hv hlv.2.1 h
    have hvals : s'.vals = insertVal (reweigh v p) s.vals := by rw [hs']
    have hupd : s'.updated = sinsert op s.updated := by rw [hs']
    refine ⟨by rw [hupd]; exact (mem_sinsert op _ op).mpr (Or.inl rfl), reweigh v p, ?_, rfl⟩
    have : (reweigh v p).op = op := hvop
    unfold getVal; rw [hvals, ← this]; exact find_insertVal_self _ _
  | some q =>
    have hpop : q.op = op := by have := List.find?_some hf; simpa using this
    have hadm : s.admitIfPending (some op) = s.acceptNew q := by simp [admitIfPending, hf]
    obtain ⟨a1, _, _, _, _, _, a7, _⟩ := acceptNew_fields s q
    have hgA : (s.acceptNew q).getVal op = some (newborn q) := by
      rw [getVal_congr _ (s.setVal (newborn q)) (by rw [a1]; rfl)]
      have := getVal_setVal_self s (newborn q)
      rw [show (newborn q).op = op from hpop] at this; exact this
    obtain ⟨_, _, _, D, LT, AB, B, S, hs'⟩ := setPower_shape s (s.acceptNew q) s' op p u (newborn q) hadm hgA rfl h
    have hvals : s'.vals = insertVal (reweigh (newborn q) p) (s.acceptNew q).vals := by rw [hs']
    have hupd : s'.updated = sinsert op (s.acceptNew q).updated := by rw [hs']
    refine ⟨by rw [hupd]; exact (mem_sinsert op _ op).mpr (Or.inl rfl), reweigh (newborn q) p, ?_, rfl⟩
    have : (reweigh (newborn q) p).op = op := hpop
    unfold getVal; rw [hvals, ← this]; exact find_insertVal_self _ _

/-- a quiet SetPower keeps the pins made earlier in the block: it addresses an application or a validator not yet
    re-weighted in this block -/
theorem setPower_pins_others (s s' : App) (c : CSet) (op p : Nat) (u : Bool) (m : M s c)
    (h : setPowerMsg genLimitFacts s .admin (some op) p u = .ok s')
    (hq : s.pendingFind op = none → op ∉ s.updated ∧ (p / PR, op) ∉ s.index)
    (op' P' : Nat) (hp : Pinned s op' P') : Pinned s' op' P' := by
  obtain ⟨h1, v', h2, h3⟩ := hp
  cases hf : s.pendingFind op with
  | none =>
    have hne : op' ≠ op := fun e => (hq hf).1 (e ▸ h1)
    have hadm : s.admitIfPending (some op) = s := by simp [admitIfPending, hf]
    obtain ⟨v, hv⟩ := setPower_target s s s' op p u hadm h
    have hvop := getVal_op _ _ _ hv
    have hlv := m.live v (mem_of_getVal s op v hv)
    obtain ⟨_, _, _, D, LT, AB, B, S, hs'⟩ := setPower_shape s s s' op p u v hadm hv hlv.2.1 h
    have hvals : s'.vals = insertVal (reweigh v p) s.vals := by rw [hs']
    have hupd : s'.updated = sinsert op s.updated := by rw [hs']
    refine ⟨by rw [hupd]; exact (mem_sinsert op _ op').mpr (Or.inr h1), v', ?_, h3⟩
    have : op' ≠ (reweigh v p).op := by rw [show (reweigh v p).op = op from hvop]; exact hne
    unfold getVal; rw [hvals, find_insertVal_ne _ _ _ this]; exact h2
  | some q =>
    have hpm : q ∈ s.pending := List.mem_of_find?_eq_some hf
    have hpop : q.op = op := by have := List.find?_some hf; simpa using this
    obtain ⟨fr1, _, _⟩ := m.pend.fresh q hpm
    have hne : op' ≠ op := by
      intro e; rw [hpop, ← e, h2] at fr1; cases fr1
    have hadm : s.admitIfPending (some op) = s.acceptNew q := by simp [admitIfPending, hf]
    obtain ⟨a1, _, _, _, _, _, a7, _⟩ := acceptNew_fields s q
    have hgA : (s.acceptNew q).getVal op = some (newborn q) := by
      rw [getVal_congr _ (s.setVal (newborn q)) (by rw [a1]; rfl)]
      have := getVal_setVal_self s (newborn q)
      rw [show (newborn q).op = op from hpop] at this; exact this
    obtain ⟨_, _, _, D, LT, AB, B, S, hs'⟩ := setPower_shape s (s.acceptNew q) s' op p u (newborn q) hadm hgA rfl h
    have hvals : s'.vals = insertVal (reweigh (newborn q) p) (insertVal (newborn q) s.vals) := by rw [hs', a1]
    have hupd : s'.updated = sinsert op s.updated := by rw [hs', a7]
    refine ⟨by rw [hupd]; exact (mem_sinsert op _ op').mpr (Or.inr h1), v', ?_, h3⟩
    have n1 : op' ≠ (reweigh (newborn q) p).op := by rw [show (reweigh (newborn q) p).op = op from hpop]; exact hne
    have n2 : op' ≠ (newborn q).op := by rw [show (newborn q).op = op from hpop]; exact hne
    unfold getVal; rw [hvals, find_insertVal_ne _ _ _ n1, find_insertVal_ne _ _ _ n2]; exact h2

/-- every quiet transaction keeps the pins made earlier in the block -/
theorem runTx_pins (s : App) (c : CSet) (incs : List (Signer × Nat)) (tx : Tx) (m : M s c) (q : QuietTx s incs tx)
    (op' P' : Nat) (hp : Pinned s op' P') : Pinned (runTx genEnv s incs tx).2.1 op' P' := by
  rcases q with hsame | ⟨op, p, u, hsg, hmsgs, hq⟩ | ⟨a, hmsgs⟩ | ⟨tg, hmsgs⟩ | ⟨pa, hmsgs⟩
  · rw [hsame]; exact hp
  rotate_left
  · unfold runTx
    split
    · exact hp
    · cases ha : Ante.run genEnv.ante genEnv.limiter s.height tx.msgs with
      | some e => simp only; exact hp
      | none =>
        simp only
        rw [hmsgs]
        simp only [handleList, handle]
        cases hr : s.createMsg tx.signer a with
        | error e => simp only [liftE]; exact hp
        | ok s' =>
          simp only [liftE]
          obtain ⟨f1, f2⟩ := createMsg_frame s s' tx.signer a hr
          exact Pinned_frame s s' f1 f2 op' P' hp
  · unfold runTx
    split
    · exact hp
    · cases ha : Ante.run genEnv.ante genEnv.limiter s.height tx.msgs with
      | some e => simp only; exact hp
      | none =>
        simp only
        rw [hmsgs]
        simp only [handleList, handle]
        cases hr : s.rmPendingMsg tx.signer tg with
        | error e => simp only [liftE]; exact hp
        | ok s' =>
          simp only [liftE]
          obtain ⟨f1, f2⟩ := rmPendingMsg_frame s s' tx.signer tg hr
          exact Pinned_frame s s' f1 f2 op' P' hp
  · unfold runTx
    split
    · exact hp
    · cases ha : Ante.run genEnv.ante genEnv.limiter s.height tx.msgs with
      | some e => simp only; exact hp
      | none =>
        simp only
        rw [hmsgs]
        simp only [handleList, handle]
        cases hr : s.paramsMsg tx.signer pa with
        | error e => simp only [liftE]; exact hp
        | ok s' =>
          simp only [liftE]
          obtain ⟨f1, f2⟩ := paramsMsg_frame s s' tx.signer pa hr
          exact Pinned_frame s s' f1 f2 op' P' hp
  unfold runTx at hq ⊢
  split
  · exact hp
  · rename_i hseq
    simp only [hseq, ↓reduceIte] at hq
    cases ha : Ante.run genEnv.ante genEnv.limiter s.height tx.msgs with
    | some e => simp only; exact hp
    | none =>
      simp only [ha] at hq ⊢
      rw [hmsgs, hsg] at hq ⊢
      have hlim : genEnv.lim = genLimitFacts := rfl
      simp only [handleList, handle, hlim] at hq ⊢
      cases hr : setPowerMsg genLimitFacts s Signer.admin (some op) p u with
      | error e => simp only [liftE]; exact hp
      | ok s' =>
        simp only [hr, liftE] at hq ⊢
        exact setPower_pins_others s s' c op p u m hr (hq trivial) op' P' hp

/-- a successful single-message SetPower transaction of the admin pins its target -/
theorem runTx_pins_target (s : App) (c : CSet) (incs : List (Signer × Nat)) (tx : Tx) (m : M s c)
    (op p : Nat) (u : Bool) (hsg : tx.signer = .admin) (hmsgs : tx.msgs = [.setPower (some op) p u])
    (hok : (runTx genEnv s incs tx).1 = .ok) : Pinned (runTx genEnv s incs tx).2.1 op p := by
  unfold runTx at hok ⊢
  split
  · rename_i hseq; simp [hseq] at hok
  · rename_i hseq
    simp only [hseq, ↓reduceIte] at hok
    cases ha : Ante.run genEnv.ante genEnv.limiter s.height tx.msgs with
    | some e => simp [ha] at hok
    | none =>
      simp only [ha] at hok ⊢
      rw [hmsgs, hsg] at hok ⊢
      have hlim : genEnv.lim = genLimitFacts := rfl
      simp only [handleList, handle, hlim] at hok ⊢
      cases hr : setPowerMsg genLimitFacts s Signer.admin (some op) p u with
      | error e => simp [hr, liftE] at hok
      | ok s' =>
        simp only [liftE]
        exact setPower_pins_target s s' c op p u m hr

theorem runTxs_pins (c : CSet) : ∀ (txs : List Tx) (s : App) (incs : List (Signer × Nat)) (acc : List TxR),
    M s c → QuietTxs txs s incs → ∀ op P, Pinned s op P → Pinned (runTxs genEnv txs s incs acc).2 op P
  | [], s, _, _, _, _, op, P, hp => by simpa [runTxs] using hp
  | tx :: rest, s, incs, acc, m, q, op, P, hp => by
    unfold runTxs
    exact runTxs_pins c rest _ _ _ (runTx_M s c incs tx m q.1) q.2 op P (runTx_pins s c incs tx m q.1 op P hp)

/-- the result list grows at its end only -/
theorem runTxs_results (env : Env) : ∀ (txs : List Tx) (s : App) (incs : List (Signer × Nat)) (acc : List TxR),
    ∃ X, (runTxs env txs s incs acc).1 = acc ++ X
  | [], s, _, acc => ⟨[], by simp [runTxs]⟩
  | tx :: rest, s, incs, acc => by
    unfold runTxs
    obtain ⟨X, hX⟩ := runTxs_results env rest (runTx env s incs tx).2.1 (runTx env s incs tx).2.2 (acc ++ [(runTx env s incs tx).1])
    exact ⟨(runTx env s incs tx).1 :: X, by rw [hX]; simp⟩

/-- **the transaction at position `pre.length` succeeded ⇒ its target is pinned when the transactions are done** -/
theorem runTxs_effect (c : CSet) (tx : Tx) (post : List Tx) (op p : Nat) (u : Bool)
    (hsg : tx.signer = .admin) (hmsgs : tx.msgs = [.setPower (some op) p u]) :
    ∀ (pre : List Tx) (s : App) (incs : List (Signer × Nat)) (acc : List TxR),
      M s c → QuietTxs (pre ++ tx :: post) s incs →
      (runTxs genEnv (pre ++ tx :: post) s incs acc).1[acc.length + pre.length]? = some .ok →
      Pinned (runTxs genEnv (pre ++ tx :: post) s incs acc).2 op p
  | [], s, incs, acc, m, q, hok => by
    simp only [List.nil_append] at q hok ⊢
    unfold runTxs at hok ⊢
    obtain ⟨X, hX⟩ := runTxs_results genEnv post (runTx genEnv s incs tx).2.1 (runTx genEnv s incs tx).2.2 (acc ++ [(runTx genEnv s incs tx).1])
    simp only [hX, List.length_nil, Nat.add_zero] at hok
    have hr : (runTx genEnv s incs tx).1 = .ok := by
      have : (acc ++ [(runTx genEnv s incs tx).1] ++ X)[acc.length]? = some (runTx genEnv s incs tx).1 := by
        rw [List.append_assoc, List.getElem?_append_right (Nat.le_refl _)]; simp
      rw [this] at hok; injection hok
    exact runTxs_pins c post _ _ _ (runTx_M s c incs tx m q.1) q.2 op p (runTx_pins_target s c incs tx m op p u hsg hmsgs hr)
  | t :: pre, s, incs, acc, m, q, hok => by
    simp only [List.cons_append] at q hok ⊢
    unfold runTxs at hok ⊢
    apply runTxs_effect c tx post op p u hsg hmsgs pre _ _ _ (runTx_M s c incs t m q.1) q.2
    have : (acc ++ [(runTx genEnv s incs t).1]).length + pre.length = acc.length + (t :: pre).length := by
      simp; omega
    rw [this]; exact hok

/-- **the requested effect, for every quiet block from every `G` state**: the block runs, CometBFT accepts its
    updates, `G` holds again — and when the transaction at position `pre.length`, a single SetPower(op, p) of the
    admin, succeeded, then after the block the record of `op` holds exactly `p` tokens and CometBFT's set holds its
    consensus key with exactly `p / 10^6`, whatever else the block contained -/
theorem quiet_block_effect (s : App) (c : CSet) (b : Block) (g : G s c) (q : QuietBlock s c b)
    (pre post : List Tx) (tx : Tx) (op p : Nat) (u : Bool) (hb : b.txs = pre ++ tx :: post)
    (hsg : tx.signer = .admin) (hmsgs : tx.msgs = [.setPower (some op) p u]) :
    ∃ o s' c', block genEnv s b = .ok (o, s') ∧ Comet.applyChangeSet c o.updates = .ok c' ∧ G s' c' ∧
      (o.txrs[pre.length]? = some .ok →
        ∃ v, s'.getVal op = some v ∧ v.tokens = p ∧ alookup v.key c' = some ((p / PR : Nat) : Int)) := by
  obtain ⟨I', B', hsl, hI'⟩ := q.votes
  have g1 : G { s with infos := I', bitmap := B', height := s.height + 1, time := s.time + b.dt } c :=
    G_frame s c g I' B' (s.height + 1) (s.time + b.dt) hI'
  obtain ⟨s2, hpb, g2, hupd, _, _, _⟩ := poaBegin_G genEnv.lim _ c g1
  have hbegin : beginState genEnv s b = .ok s2 := by
    unfold beginState
    have : slashingBegin b.votes { s with height := s.height + 1, time := s.time + b.dt } =
        .ok { s with infos := I', bitmap := B', height := s.height + 1, time := s.time + b.dt } := hsl
    rw [this]
    simp only [q.noEvid, evidenceBegin]
    exact hpb
  have m3 := runTxs_M c b.txs s2 [] [] g2.toM (q.txs s2 hbegin)
  have f3 := q.fits s2 hbegin
  obtain ⟨ups, c', L, T, he, hc, hag, g4⟩ := endBlock_G _ c m3 f3
  refine ⟨⟨(runTxs genEnv b.txs s2 [] []).1, ups⟩, _, c', ?_, hc, g4, ?_⟩
  · unfold block
    rw [beforeEnd_eq _ _ _ q.noGov, hbegin]
    simp only [he]
  · intro hok
    have hq := q.txs s2 hbegin
    rw [hb] at hq hok
    have hpin := runTxs_effect c tx post op p u hsg hmsgs pre s2 [] [] g2.toM hq (by simpa using hok)
    rw [← hb] at hpin
    obtain ⟨_, v, hv, ht⟩ := hpin
    refine ⟨v, (getVal_congr _ (runTxs genEnv b.txs s2 [] []).2 rfl op).trans hv, ht, ?_⟩
    have hvm : v ∈ (runTxs genEnv b.txs s2 [] []).2.vals := mem_of_getVal _ op v hv
    have := g4.allCur v hvm
    rw [this, cur, powerOf, ht]

end PoaVerif

namespace PoaVerif
open App

/-- the effect clause of one block and its step: every successful single SetPower(op, p) of the admin in the block
    leaves `op` with exactly `p` tokens and CometBFT's set with `p / 10^6` for its key -/
def EffectOk (b : Block) (st : Step) : Prop :=
  ∀ (pre post : List Tx) (tx : Tx) (op p : Nat) (u : Bool), b.txs = pre ++ tx :: post →
    tx.signer = .admin → tx.msgs = [.setPower (some op) p u] → st.out.txrs[pre.length]? = some .ok →
    ∃ v, st.app.getVal op = some v ∧ v.tokens = p ∧ alookup v.key st.comet = some ((p / PR : Nat) : Int)

/-- block by block: the i-th step satisfies the effect clause of the i-th block -/
def EffectAll : List Block → List Step → Prop
  | [], [] => True
  | b :: bs, st :: sts => EffectOk b st ∧ EffectAll bs sts
  | _, _ => False

theorem quiet_run_effect (bs : List Block) : ∀ (s : App) (c : CSet), G s c → QuietRun bs s c →
    EffectAll bs (runFrom genEnv s c bs).1 := by
  induction bs with
  | nil => intro s c _ _; simp [runFrom, EffectAll]
  | cons b bs ih =>
    intro s c g q
    obtain ⟨o, s', c', hb, hc, _, g'⟩ := block_G s c b g q.1
    have ih' := ih s' c' g' (q.2 o s' c' hb hc)
    unfold runFrom
    simp only [hb, hc]
    refine ⟨?_, ih'⟩
    intro pre post tx op p u htx hsg hm hok
    obtain ⟨o2, s2, c2, hb2, hc2, _, heff⟩ := quiet_block_effect s c b g q.1 pre post tx op p u htx hsg hm
    rw [hb] at hb2
    injection hb2 with hb2
    injection hb2 with e1 e2
    subst e1; subst e2
    rw [hc] at hc2
    injection hc2 with e3
    subst e3
    exact heff hok

theorem quiet_history_effect (g : Genesis) (hw : g.wf = true) (bs : List Block) (hq : QuietHistory g bs) :
    ∃ first steps, run genEnv g bs = some (first, steps, RunEnd.done) ∧ EffectAll bs steps := by
  obtain ⟨u, s, c, hi, hc, _, hg⟩ := genesis_G g hw
  obtain ⟨h1, _, _⟩ := quiet_run bs s c hg (hq u s c hi hc)
  refine ⟨⟨⟨[], u⟩, s, c⟩, (runFrom genEnv s c bs).1, ?_, quiet_run_effect bs s c hg (hq u s c hi hc)⟩
  unfold run
  rw [hi]
  simp only [hc]
  rw [← h1]

end PoaVerif
