import PoaVerif.Lemmas.PreBridge
/-
  CometBFT accepts the update list of a `Pre` EndBlock: no negative power, no duplicate key, no oversized power,
  no removal of an absent key, never an empty resulting set, total within the maximum
  (types/validator_set.go: processChanges / verifyUpdates / verifyRemovals).
-/
namespace PoaVerif
namespace App

/-- the extra facts about CometBFT's set that acceptance needs -/
structure PreAccept (s : App) (c : CSet) : Prop where
  cNodup : (c.map (·.1)).Nodup
  cNonneg : ∀ e ∈ c, 0 ≤ e.2
  stays : ∃ op v, s.getVal op = some v ∧ visitedB s s.index op = true
  total : Comet.total c + idxPow s s.index ≤ maxTotalPower

theorem preAccept_of_pre (s : App) (c : CSet) (h : Pre s c = true) : PreAccept s c := by
  unfold Pre at h
  simp only [Bool.and_eq_true] at h
  obtain ⟨⟨⟨⟨⟨⟨⟨⟨⟨⟨⟨⟨⟨⟨⟨⟨⟨⟨h1, h2a⟩, h2b⟩, h3⟩, h4a⟩, h4b⟩, h4c⟩, h4d⟩, h5⟩, h6⟩, h7⟩, h8⟩, h9a⟩, h9b⟩, h11a⟩, h11b⟩, h11c⟩, h10a⟩, h10b⟩ := h
  refine ⟨(nodupNat_iff _).mp h4c, ?_, ?_, of_decide_eq_true h9b.1⟩
  · intro e he
    exact of_decide_eq_true (List.all_eq_true.mp h9b.2 e he)
  · obtain ⟨v, hvmem, hvc⟩ := List.any_eq_true.mp h9a
    have nd_ops := (nodupNat_iff _).mp h4a
    have hget : s.getVal v.op = some v := by
      unfold getVal
      cases hf : s.vals.find? (fun x => x.op == v.op) with
      | none =>
        have := List.find?_eq_none.mp hf v hvmem
        simp at this
      | some w =>
        have hw := List.mem_of_find?_eq_some hf
        have hwop : w.op = v.op := by have := List.find?_some hf; simpa using this
        have := inj_of_nodup_map (·.op) s.vals nd_ops w hw v hvmem hwop
        rw [this]
    exact ⟨v.op, v, hget, by rw [← hasCandEntry_eq_visited s v.op v hget]; exact hvc⟩

/-! ### list facts -/

theorem hasDup_false_of_nodup : ∀ l : List Nat, l.Nodup → Comet.hasDup l = false
  | [], _ => rfl
  | k :: ks, h => by
    have ⟨h1, h2⟩ := List.nodup_cons.mp h
    simp [Comet.hasDup, h1, hasDup_false_of_nodup ks h2]

/-- pigeonhole: a duplicate-free list inside a duplicate-free list that is not longer covers it -/
theorem covers_of_nodup_subset : ∀ (l m : List Nat), l.Nodup → m.Nodup → (∀ x ∈ l, x ∈ m) → m.length ≤ l.length → ∀ x ∈ m, x ∈ l
  | [], m, _, _, _, hlen, x, hx => by
    have : m = [] := List.eq_nil_of_length_eq_zero (by simpa using hlen)
    subst this; cases hx
  | a :: l, m, hl, hm, hsub, hlen, x, hx => by
    have ⟨ha, hl'⟩ := List.nodup_cons.mp hl
    have ham : a ∈ m := hsub a (by simp)
    by_cases hxa : x = a
    · subst hxa; simp
    · have hxm : x ∈ m.erase a := (List.mem_erase_of_ne hxa).mpr hx
      have hlen' : (m.erase a).length ≤ l.length := by
        rw [List.length_erase_of_mem ham]; simp at hlen; omega
      have hsub' : ∀ y ∈ l, y ∈ m.erase a := by
        intro y hy
        have hya : y ≠ a := by intro e; subst e; exact ha hy
        exact (List.mem_erase_of_ne hya).mpr (hsub y (by simp [hy]))
      have := covers_of_nodup_subset l (m.erase a) hl' (hm.sublist (List.erase_sublist)) hsub' hlen' x hxm
      simp [this]

theorem sumInts_cons (x : Int) (l : List Int) : sumInts (x :: l) = x + sumInts l := by
  unfold sumInts
  simp only [List.foldl_cons]
  have : ∀ (l : List Int) (a b : Int), List.foldl (· + ·) (a + b) l = a + List.foldl (· + ·) b l := by
    intro l
    induction l with
    | nil => intro a b; rfl
    | cons y l ih => intro a b; simp only [List.foldl_cons]; rw [Int.add_assoc]; exact ih a (b + y)
  have h := this l x 0
  simpa using h

theorem sumInts_append (a b : List Int) : sumInts (a ++ b) = sumInts a + sumInts b := by
  induction a with
  | nil => simp [sumInts]
  | cons x a ih => simp only [List.cons_append, sumInts_cons, ih]; omega

theorem sumInts_nonneg (l : List Int) (h : ∀ x ∈ l, 0 ≤ x) : 0 ≤ sumInts l := by
  induction l with
  | nil => simp [sumInts]
  | cons x l ih =>
    rw [sumInts_cons]
    have := h x (by simp)
    have := ih (fun y hy => h y (by simp [hy]))
    omega

theorem le_sumInts_of_mem (l : List Int) (h : ∀ x ∈ l, 0 ≤ x) (x : Int) (hx : x ∈ l) : x ≤ sumInts l := by
  induction l with
  | nil => cases hx
  | cons y l ih =>
    rw [sumInts_cons]
    have hy := h y (by simp)
    have hl := sumInts_nonneg l (fun z hz => h z (by simp [hz]))
    rcases List.mem_cons.mp hx with e | e
    · subst e; omega
    · have := ih (fun z hz => h z (by simp [hz])) e; omega

/-- inserting into a set with non-negative powers raises the total by at most the inserted power -/
theorem total_ainsert_le (k : Nat) (p : Int) : ∀ (set : CSet), (∀ e ∈ set, 0 ≤ e.2) →
    Comet.total (ainsert k p set) ≤ Comet.total set + p
  | [], _ => by simp [ainsert, Comet.total, sumInts]
  | (k', v') :: xs, h => by
    have hv := h (k', v') (by simp)
    unfold ainsert
    split
    · simp only [Comet.total, List.map_cons, sumInts_cons]; omega
    · split
      · simp only [Comet.total, List.map_cons, sumInts_cons]; omega
      · have ih := total_ainsert_le k p xs (fun e he => h e (by simp [he]))
        simp only [Comet.total, List.map_cons, sumInts_cons] at ih ⊢; omega

theorem nonneg_ainsert (k : Nat) (p : Int) (hp : 0 ≤ p) : ∀ (set : CSet), (∀ e ∈ set, 0 ≤ e.2) → ∀ e ∈ ainsert k p set, 0 ≤ e.2
  | [], _, e, he => by simp [ainsert] at he; subst he; exact hp
  | (k', v') :: xs, h, e, he => by
    unfold ainsert at he
    split at he
    · rcases List.mem_cons.mp he with e1 | e1
      · subst e1; exact hp
      · exact h e (by simp [e1])
    · split at he
      · rcases List.mem_cons.mp he with e1 | e1
        · subst e1; exact hp
        · exact h e e1
      · rcases List.mem_cons.mp he with e1 | e1
        · subst e1; exact h _ (by simp)
        · exact nonneg_ainsert k p hp xs (fun x hx => h x (by simp [hx])) e e1

/-- applying non-removal updates with non-negative powers raises the total by at most their sum -/
theorem total_foldl_le : ∀ (ups : List (Nat × Int)) (set : CSet), (∀ e ∈ set, 0 ≤ e.2) → (∀ u ∈ ups, 0 < u.2) →
    Comet.total (ups.foldl Comet.applyOne set) ≤ Comet.total set + sumInts (ups.map (·.2))
  | [], set, _, _ => by simp [sumInts]
  | u :: ups, set, hs, hu => by
    have hu0 := hu u (by simp)
    have hne : ¬ u.2 = 0 := by omega
    simp only [List.foldl_cons, List.map_cons, sumInts_cons]
    have h1 : Comet.applyOne set u = ainsert u.1 u.2 set := by simp [Comet.applyOne, hne]
    rw [h1]
    have := total_foldl_le ups (ainsert u.1 u.2 set) (nonneg_ainsert u.1 u.2 (by omega) set hs) (fun x hx => hu x (by simp [hx]))
    have := total_ainsert_le u.1 u.2 set hs
    omega

theorem sumInts_filter_le (l : List (Nat × Int)) (P : Nat × Int → Bool) (h : ∀ u ∈ l, 0 ≤ u.2) :
    sumInts ((l.filter P).map (·.2)) ≤ sumInts (l.map (·.2)) := by
  induction l with
  | nil => simp
  | cons x l ih =>
    have hx := h x (by simp)
    have := ih (fun u hu => h u (by simp [hu]))
    simp only [List.filter_cons]
    split
    · simp only [List.map_cons, sumInts_cons]; omega
    · simp only [List.map_cons, sumInts_cons]; omega

/-! ### the shape of a successful `ApplyAndReturnValidatorSetUpdates` -/

theorem applyUpdates_shape (s s' : App) (c : CSet) (ups : List (Nat × Int)) (hp : PreAgree s c)
    (h : s.applyUpdates = .ok (ups, s')) :
    ∃ (a : LoopAcc) (u : UnbAcc), FirstInv s s.index a ∧ SecondInv a a.last u ∧ ups = u.updates := by
  unfold applyUpdates at h
  cases hl : applyLoop s.params.maxVals s.index ⟨s, s.last, [], 0, 0, 0⟩ with
  | halt hh => simp [hl] at h
  | done a =>
    simp only [hl] at h
    unfold finishUpdates at h
    cases hu : unbondLoop a.last ⟨a.app, a.updates, 0⟩ with
    | error e => simp [hu] at h
    | ok u =>
      simp only [hu] at h
      cases hm : movePools u.app a.nb2b u.b2nb with
      | error e => simp [hm] at h
      | ok s2 =>
        simp only [hm] at h
        injection h with h
        have hups : ups = u.updates := (congrArg Prod.fst h).symm
        have hF := first_loop s hp.toPreLoop s.index [] ⟨s, s.last, [], 0, 0, 0⟩ a (by simp) hp.shadow (firstInv_init s) hl
        have hlastNd : (a.last.map (·.1)).Nodup := sublist_nodup_keys hF.lastSub hp.lastNodup
        have hS0 : SecondInv a [] ⟨a.app, a.updates, 0⟩ :=
          { ups := by simp, gone := by intro op hm; simp at hm, kept := fun _ _ => ⟨rfl, rfl⟩ }
        have hS := second_loop a a.last [] ⟨a.app, a.updates, 0⟩ u (by simpa using hlastNd) hS0 hu
        simp only [List.nil_append] at hS
        exact ⟨a, u, hF, hS, hups⟩

/-- every entry of the final update list is either the current power of a visited candidate, or the removal of a
    bonded validator that CometBFT knows -/
theorem final_ups_mem (s : App) (c : CSet) (hp : PreAgree s c) (a : LoopAcc) (u : UnbAcc)
    (hF : FirstInv s s.index a) (hS : SecondInv a a.last u) (k : Nat) (p : Int) (hm : (k, p) ∈ u.updates) :
    ((k, p) ∈ a.updates ∧ ∃ v, s.getVal v.op = some v ∧ cand v = true ∧ v.key = k ∧ p = cur v) ∨
    (p = 0 ∧ alookup k c ≠ none) := by
  rw [hS.ups, List.mem_append] at hm
  rcases hm with hm | hm
  · left
    obtain ⟨v, h1, h2, h3, h4, _⟩ := hF.upsSound k p hm
    exact ⟨hm, v, h1, h2, h3, h4⟩
  · right
    obtain ⟨e, he, hke⟩ := List.mem_map.mp hm
    injection hke with hk hp0
    refine ⟨hp0.symm, ?_⟩
    obtain ⟨hnv, hne⟩ := (mem_remaining s c hp a hF e.1).mp (List.mem_map.mpr ⟨e, he, rfl⟩)
    cases hl : alookup e.1 s.last with
    | none => exact absurd hl hne
    | some p' =>
      have ex := hp.lastEx e.1 p' hl
      cases hvo : s.getVal e.1 with
      | none => simp [hvo] at ex
      | some vo =>
        rw [keyOf_stable s a hF e.1 vo hvo] at hk
        rw [← hk]
        exact (hp.leaving e.1 vo hvo hne hnv).2

theorem cur_pos_of_cand (v : Val) (h : cand v = true) : 0 < cur v := by
  unfold cand at h
  simp only [Bool.and_eq_true, Bool.not_eq_true', decide_eq_true_eq] at h
  unfold cur; omega

/-- **CometBFT accepts the update list of a `Pre` EndBlock** -/
theorem applyUpdates_accepted (s s' : App) (c : CSet) (ups : List (Nat × Int)) (hp : PreAgree s c) (hx : PreAccept s c)
    (h : s.applyUpdates = .ok (ups, s')) : ∃ c', Comet.applyChangeSet c ups = .ok c' := by
  obtain ⟨a, u, hF, hS, hups⟩ := applyUpdates_shape s s' c ups hp h
  subst hups
  have hnd := final_ups_nodup s c hp a u hF hS
  have hmem := final_ups_mem s c hp a u hF hS
  -- element facts
  have hnonneg : ∀ x ∈ u.updates, 0 ≤ x.2 := by
    intro x hxm
    rcases hmem x.1 x.2 hxm with ⟨_, v, _, hc, _, hpv⟩ | ⟨h0, _⟩
    · rw [hpv]; have := cur_pos_of_cand v hc; omega
    · omega
  have hsumA : sumInts (a.updates.map (·.2)) ≤ idxPow s s.index := by
    have := hF.upsSum; rw [hF.tot] at this; exact this
  have hcTot : 0 ≤ Comet.total c := sumInts_nonneg _ (by
    intro x hxm
    obtain ⟨e, he, hex⟩ := List.mem_map.mp hxm
    rw [← hex]; exact hx.cNonneg e he)
  have hsumU : sumInts (u.updates.map (·.2)) = sumInts (a.updates.map (·.2)) := by
    rw [hS.ups, List.map_append, sumInts_append]
    have : sumInts ((a.last.map (fun e => (keyOf a.app e.1, (0 : Int)))).map (·.2)) = 0 := by
      generalize a.last = l
      induction l with
      | nil => simp [sumInts]
      | cons y l ih => simp only [List.map_cons, sumInts_cons, ih]; omega
    omega
  unfold Comet.applyChangeSet
  split
  · exact ⟨_, rfl⟩
  · rename_i hne
    -- negative
    have h1 : (u.updates.any (fun x => decide (x.2 < 0))) = false := by
      apply List.any_eq_false.mpr
      intro x hxm
      have := hnonneg x hxm
      simp; omega
    rw [if_neg (by rw [h1]; simp)]
    -- duplicates
    rw [if_neg (by rw [hasDup_false_of_nodup _ hnd]; simp)]
    -- oversized
    have h3 : (u.updates.any (fun x => decide (x.2 > maxTotalPower))) = false := by
      apply List.any_eq_false.mpr
      intro x hxm
      have hle : x.2 ≤ sumInts (u.updates.map (·.2)) :=
        le_sumInts_of_mem _ (by
          intro y hy
          obtain ⟨e, he, hey⟩ := List.mem_map.mp hy
          rw [← hey]; exact hnonneg e he) x.2 (List.mem_map.mpr ⟨x, hxm, rfl⟩)
      have := hx.total
      simp; omega
    rw [if_neg (by rw [h3]; simp)]
    dsimp only
    -- removal of an absent key
    have h5 : (u.updates.any (fun x => decide (x.2 = 0) && !amem x.1 c)) = false := by
      apply List.any_eq_false.mpr
      intro x hxm
      rcases hmem x.1 x.2 hxm with ⟨_, v, _, hc, _, hpv⟩ | ⟨_, hk⟩
      · have := cur_pos_of_cand v hc
        have : ¬ x.2 = 0 := by omega
        simp [this]
      · have : amem x.1 c = true := by
          unfold amem
          cases hq : alookup x.1 c with
          | none => exact absurd hq hk
          | some q => rfl
        simp [this]
    -- the resulting set is not empty
    have h4 : ¬ (((u.updates.filter (fun x => decide (x.2 ≠ 0) && !amem x.1 c)).length = 0 ∧
                  (u.updates.filter (fun x => decide (x.2 = 0))).length = c.length)) := by
      rintro ⟨hfresh, hrem⟩
      obtain ⟨op, v, hv, hvis⟩ := hx.stays
      have hvop := getVal_op s op v hv
      have hcv : cand v = true := by
        simp only [visitedB, hv, Bool.and_eq_true] at hvis; exact hvis.1
      have hpos := cur_pos_of_cand v hcv
      obtain ⟨f1, f2, _, _⟩ := final_ups s c hp a u hF hS op v hv
      -- the key of `v` is in CometBFT's set
      have hkc : v.key ∈ c.map (·.1) := by
        by_cases hem : emitted s s.index v
        · have hl := f1 hvis hem
          have hm := alookup_mem _ _ _ hl
          have hnotfresh : ¬ ((decide ((v.key, cur v).2 ≠ 0) && !amem (v.key, cur v).1 c) = true) := by
            intro hf
            have : (v.key, cur v) ∈ u.updates.filter (fun x => decide (x.2 ≠ 0) && !amem x.1 c) :=
              List.mem_filter.mpr ⟨hm, hf⟩
            rw [List.eq_nil_of_length_eq_zero hfresh] at this
            cases this
          have hne0 : (cur v ≠ 0) := by omega
          simp only [ne_eq, hne0, not_false_eq_true, decide_true, Bool.true_and, Bool.not_eq_true', Bool.not_eq_false] at hnotfresh
          unfold amem at hnotfresh
          cases hq : alookup v.key c with
          | none => rw [hq] at hnotfresh; cases hnotfresh
          | some q => exact mem_of_alookup _ _ _ hq
        · exact mem_of_alookup _ _ _ (silent_case s c hp op v hv hvis hem)
      -- every key of the set is removed
      let R := u.updates.filter (fun x => decide (x.2 = 0))
      have hRnd : (R.map (·.1)).Nodup := hnd.sublist (List.Sublist.map _ List.filter_sublist)
      have hRsub : ∀ k ∈ R.map (·.1), k ∈ c.map (·.1) := by
        intro k hk
        obtain ⟨x, hxR, hxk⟩ := List.mem_map.mp hk
        obtain ⟨hxu, hx0⟩ := List.mem_filter.mp hxR
        have hx0' : x.2 = 0 := by simpa using hx0
        rcases hmem x.1 x.2 hxu with ⟨_, v', _, hc', _, hpv'⟩ | ⟨_, hk'⟩
        · have := cur_pos_of_cand v' hc'; omega
        · rw [← hxk]
          cases hq : alookup x.1 c with
          | none => exact absurd hq hk'
          | some q => exact mem_of_alookup _ _ _ hq
      have hcover := covers_of_nodup_subset (R.map (·.1)) (c.map (·.1)) hRnd hx.cNodup hRsub (by simp [R, hrem])
      obtain ⟨x, hxR, hxk⟩ := List.mem_map.mp (hcover v.key hkc)
      obtain ⟨hxu, hx0⟩ := List.mem_filter.mp hxR
      have hx0' : x.2 = 0 := by simpa using hx0
      have hl0 : alookup v.key u.updates = some 0 := by
        have := alookup_of_mem_nodup x.1 x.2 u.updates hnd hxu
        rw [hxk, hx0'] at this; exact this
      by_cases hem : emitted s s.index v
      · rw [f1 hvis hem] at hl0; injection hl0 with hl0; omega
      · rw [f2 hvis hem] at hl0; cases hl0
    rw [if_neg (by simpa using h4)]
    rw [if_neg (by rw [h5]; simp)]
    -- total
    have h6 : ¬ Comet.total ((u.updates.filter (fun x => decide (x.2 ≠ 0))).foldl Comet.applyOne c) > maxTotalPower := by
      have hpos : ∀ x ∈ u.updates.filter (fun x => decide (x.2 ≠ 0)), 0 < x.2 := by
        intro x hxf
        obtain ⟨hxu, hxn⟩ := List.mem_filter.mp hxf
        have := hnonneg x hxu
        have : x.2 ≠ 0 := by simpa using hxn
        omega
      have hb := total_foldl_le _ c hx.cNonneg hpos
      have hf := sumInts_filter_le u.updates (fun x => decide (x.2 ≠ 0)) hnonneg
      have := hx.total
      omega
    rw [if_neg h6]
    exact ⟨_, rfl⟩

end App
end PoaVerif
