import PoaVerif.Lemmas.Basic
/-
  x/staking's EndBlocker and x/slashing's BeginBlocker never touch the PoA-owned part of the state
  (pending list, updated-validators cache, the two power caches), the staking parameters or the block context.
-/
namespace PoaVerif
namespace App

theorem SamePoa.trans {a b c : App} (h1 : SamePoa a b) (h2 : SamePoa b c) : SamePoa a c := by
  obtain ⟨a1, a2, a3, a4, a5, a6, a7⟩ := h1
  obtain ⟨b1, b2, b3, b4, b5, b6, b7⟩ := h2
  exact ⟨a1.trans b1, a2.trans b2, a3.trans b3, a4.trans b4, a5.trans b5, a6.trans b6, a7.trans b7⟩

theorem bondValidator_same (s : App) (v : Val) : SamePoa (s.bondValidator v).1 s := by
  simp [bondValidator, SamePoa]

theorem bondIfNeeded_same (s : App) (v : Val) : SamePoa (s.bondIfNeeded v).1 s := by
  unfold bondIfNeeded
  split
  · exact SamePoa.refl _
  · exact bondValidator_same s v

theorem visitVal_same (acc a : LoopAcc) (v : Val) (h : visitVal acc v = .next a) : SamePoa a.app acc.app := by
  unfold visitVal at h
  split at h
  · cases h
  · split at h
    · cases h
    · injection h with h
      rw [← h]
      dsimp only
      have := bondIfNeeded_same acc.app v
      split
      · exact SamePoa.trans (by simp [SamePoa]) this
      · exact this

theorem visit_same (acc a : LoopAcc) (op : Nat) (h : visit acc op = .next a) : SamePoa a.app acc.app := by
  unfold visit at h
  split at h
  · cases h
  · exact visitVal_same _ _ _ h

theorem applyLoop_same (maxV : Nat) :
    ∀ (idx : List (Nat × Nat)) (acc a : LoopAcc), applyLoop maxV idx acc = .done a → SamePoa a.app acc.app
  | [], acc, a, h => by simp [applyLoop] at h; subst h; exact SamePoa.refl _
  | e :: rest, acc, a, h => by
    unfold applyLoop at h
    split at h
    · cases hv : visit acc e.2 with
      | halt hh => simp [hv, loopCont] at h
      | skip => simp only [hv, loopCont] at h; exact applyLoop_same maxV rest acc a h
      | stop => simp only [hv, loopCont] at h; injection h with h; subst h; exact SamePoa.refl _
      | next a1 =>
        simp only [hv, loopCont] at h
        exact SamePoa.trans (applyLoop_same maxV rest a1 a h) (visit_same acc a1 e.2 hv)
    · injection h with h; subst h; exact SamePoa.refl _

theorem beginUnbonding_same (s : App) (v : Val) : SamePoa (s.beginUnbonding v).1 s := by
  simp [beginUnbonding, SamePoa]

theorem unbondOne_same (u u1 : UnbAcc) (op : Nat) (h : unbondOne u op = .ok u1) : SamePoa u1.app u.app := by
  unfold unbondOne at h
  split at h
  · cases h
  · split at h
    · cases h
    · injection h with h
      subst h
      simp [SamePoa, beginUnbonding]

theorem unbondLoop_same :
    ∀ (rem : List (Nat × Int)) (u u' : UnbAcc), unbondLoop rem u = .ok u' → SamePoa u'.app u.app
  | [], u, u', h => by simp [unbondLoop] at h; subst h; exact SamePoa.refl _
  | (op0, q0) :: rest, u, u', h => by
    unfold unbondLoop at h
    cases h1 : unbondOne u op0 with
    | error e => simp [h1] at h
    | ok u1 =>
      simp only [h1] at h
      exact SamePoa.trans (unbondLoop_same rest u1 u' h) (unbondOne_same u u1 op0 h1)

theorem movePools_same (s s' : App) (a b : Int) (h : s.movePools a b = .ok s') : SamePoa s' s := by
  unfold movePools at h
  split at h
  · dsimp only at h
    split at h
    · cases h
    · cases h; exact ⟨rfl, rfl, rfl, rfl, rfl, rfl, rfl⟩
  · split at h
    · dsimp only at h
      split at h
      · cases h
      · cases h; exact ⟨rfl, rfl, rfl, rfl, rfl, rfl, rfl⟩
    · cases h; exact SamePoa.refl _

theorem applyUpdates_same (s s' : App) (ups : List (Nat × Int)) (h : s.applyUpdates = .ok (ups, s')) : SamePoa s' s := by
  unfold applyUpdates at h
  cases hl : applyLoop s.params.maxVals s.index ⟨s, s.last, [], 0, 0, 0⟩ with
  | halt hh => simp [hl] at h
  | done a =>
    simp only [hl] at h
    have hA := applyLoop_same _ _ _ _ hl
    unfold finishUpdates at h
    cases hu : unbondLoop a.last ⟨a.app, a.updates, 0⟩ with
    | error e => simp [hu] at h
    | ok u =>
      simp only [hu] at h
      have hU := unbondLoop_same _ _ _ hu
      cases hm : movePools u.app a.nb2b u.b2nb with
      | error e => simp [hm] at h
      | ok s2 =>
        simp only [hm] at h
        injection h with h
        have hM := movePools_same _ _ _ _ hm
        have := congrArg Prod.snd h
        simp only at this
        rw [← this]
        refine SamePoa.trans ?_ (SamePoa.trans hM (SamePoa.trans hU hA))
        split
        · exact SamePoa.refl _
        · exact ⟨rfl, rfl, rfl, rfl, rfl, rfl, rfl⟩

theorem matureOne_same (s s' : App) (op : Nat) (h : s.matureOne op = .ok s') : SamePoa s' s := by
  unfold matureOne at h
  split at h
  · cases h
  · split at h
    · cases h
    · dsimp only at h
      split at h
      · split at h
        · cases h
        · rename_i s2 hr
          injection h with h
          subst h
          unfold removeValidatorRecord at hr
          split at hr
          · cases hr
          · injection hr with hr
            subst hr
            simp [SamePoa, delVal]
      · injection h with h
        subst h
        simp [SamePoa]

theorem matureOps_same : ∀ (ops : List Nat) (s s' : App), matureOps ops s = .ok s' → SamePoa s' s
  | [], s, s', h => by simp [matureOps] at h; subst h; exact SamePoa.refl _
  | op :: rest, s, s', h => by
    unfold matureOps at h
    cases h1 : matureOne s op with
    | error e => simp [h1] at h
    | ok s1 =>
      simp only [h1] at h
      exact SamePoa.trans (matureOps_same rest s1 s' h) (matureOne_same s s1 op h1)

theorem matureSlots_same : ∀ (slots : List ((Int × Int) × List Nat)) (s s' : App), matureSlots slots s = .ok s' → SamePoa s' s
  | [], s, s', h => by simp [matureSlots] at h; subst h; exact SamePoa.refl _
  | ((t, hh), ops) :: rest, s, s', h => by
    unfold matureSlots at h
    split at h
    · cases h1 : matureOps ops s with
      | error e => simp [h1] at h
      | ok s1 =>
        simp only [h1] at h
        exact SamePoa.trans (matureSlots_same rest s1 s' h) (matureOps_same ops s s1 h1)
    · exact matureSlots_same rest s s' h

/-- x/staking's EndBlocker leaves the PoA-owned state, the parameters and the block context alone -/
theorem stakingEndBlock_same (s s' : App) (ups : List (Nat × Int)) (h : s.stakingEndBlock = .ok (ups, s')) : SamePoa s' s := by
  unfold stakingEndBlock at h
  cases h1 : s.applyUpdates with
  | error e => simp [h1] at h
  | ok r =>
    obtain ⟨u1, s1⟩ := r
    simp only [h1] at h
    cases h2 : s1.unbondMature with
    | error e => simp [h2] at h
    | ok s2 =>
      simp only [h2] at h
      injection h with h
      injection h with _ h
      subst h
      exact SamePoa.trans (matureSlots_same _ _ _ h2) (applyUpdates_same _ _ _ h1)

/-! x/slashing BeginBlocker -/

theorem jail_same (s s' : App) (k : Nat) (h : s.jail k = some s') : SamePoa s' s := by
  unfold jail at h
  split at h
  · cases h
  · split at h
    · injection h with h; subst h; exact SamePoa.refl _
    · injection h with h; subst h; simp [SamePoa]

theorem punish_same (s s' : App) (k : Nat) (p : Int) (info i' : SignInfo) (h : s.punish k p info = .ok (s', i')) : SamePoa s' s := by
  unfold punish at h
  split at h
  · cases h
  · rename_i s1 hsl
    split at h
    · cases h
    · rename_i s2 hj
      injection h with h
      injection h with h _
      subst h
      exact SamePoa.trans (by simp [SamePoa]) (SamePoa.trans (jail_same _ _ _ hj) (slash_frame _ _ _ _ _ _ hsl))

theorem handleSig_same (s s' : App) (k : Nat) (p : Int) (a : Bool) (h : s.handleSig k p a = .ok s') : SamePoa s' s := by
  unfold handleSig at h
  split at h
  · cases h
  · unfold handleSigVal at h
    split at h
    · injection h with h; subst h; exact SamePoa.refl _
    · split at h
      · cases h
      · rename_i info _
        unfold handleSigInfo at h
        dsimp only at h
        -- the bitmap update
        generalize hq : (if (!s.bitGet k (info.idx % s.window).toNat && a) = true then
            (s.bitSet k (info.idx % s.window).toNat true, { info with idx := info.idx + 1, missed := info.missed + 1 })
          else if (s.bitGet k (info.idx % s.window).toNat && !a) = true then
            (s.bitSet k (info.idx % s.window).toNat false, { info with idx := info.idx + 1, missed := info.missed - 1 })
          else (s, { info with idx := info.idx + 1 })) = q at h
        have hq1 : SamePoa q.1 s := by
          rw [← hq]
          split
          · simp [SamePoa]
          · split
            · simp [SamePoa]
            · exact SamePoa.refl _
        split at h
        · -- punished
          split at h
          · cases h
          · rename_i s1 i1 hp
            injection h with h
            subst h
            exact SamePoa.trans (by simp [SamePoa]) (SamePoa.trans (punish_same _ _ _ _ _ _ hp) hq1)
        · injection h with h
          subst h
          exact SamePoa.trans (by simp [SamePoa]) hq1

theorem slashingBegin_same : ∀ (votes : List Vote) (s s' : App), slashingBegin votes s = .ok s' → SamePoa s' s
  | [], s, s', h => by simp [slashingBegin] at h; subst h; exact SamePoa.refl _
  | v :: rest, s, s', h => by
    unfold slashingBegin at h
    cases h1 : s.handleSig v.key v.power v.absent with
    | error e => simp [h1] at h
    | ok s1 =>
      simp only [h1] at h
      exact SamePoa.trans (slashingBegin_same rest s1 s' h) (handleSig_same _ _ _ _ _ h1)

end App
end PoaVerif
