import PoaVerif.Lemmas.PreBridge
import PoaVerif.Lemmas.EndBlock
import PoaVerif.Model.Chain
/-
  From one `ApplyAndReturnValidatorSetUpdates` to whole histories: maturity processing does not touch the
  bonded validators, so the refinement of `Refine.lean` holds for the whole x/staking EndBlocker, for a whole
  block, and — by induction over the block list — at every step of every history whose blocks enter their
  EndBlocker in a `Pre` state.
-/
namespace PoaVerif
namespace App

theorem getVal_delVal_self (s : App) (op : Nat) : (s.delVal op).getVal op = none := by
  simp only [getVal, delVal]
  apply List.find?_eq_none.mpr
  intro x hx
  have := (List.mem_filter.mp hx).2
  simpa using this

/-- maturity processing creates no bonded validator -/
theorem matureOne_rev (s s' : App) (op : Nat) (h : s.matureOne op = .ok s') :
    ∀ op2 v, s'.getVal op2 = some v → v.status = .bonded → s.getVal op2 = some v := by
  unfold matureOne at h
  cases hv : s.getVal op with
  | none => simp [hv] at h
  | some w =>
    simp only [hv] at h
    split at h
    · cases h
    · split at h
      · cases hr : removeValidatorRecord (s.setVal { w with status := .unbonded }) { w with status := .unbonded } with
        | error e => simp [hr] at h
        | ok s2 =>
          simp only [hr] at h
          injection h with h
          subst h
          unfold removeValidatorRecord at hr
          split at hr
          · cases hr
          · injection hr with hr
            subst hr
            intro op2 v h2 hb
            rw [getVal_congr _ ((s.setVal { w with status := .unbonded }).delVal w.op) (by simp)] at h2
            by_cases hne : op2 = w.op
            · subst hne; rw [getVal_delVal_self] at h2; cases h2
            · rw [getVal_delVal_ne _ _ _ hne, getVal_setVal_ne _ _ _ (by simpa using hne)] at h2
              exact h2
      · injection h with h
        subst h
        intro op2 v h2 hb
        rw [getVal_congr _ (s.setVal { w with status := .unbonded }) (by simp)] at h2
        by_cases hne : op2 = w.op
        · subst hne
          have := getVal_setVal_self s { w with status := .unbonded }
          simp only at this
          rw [this] at h2
          injection h2 with h2
          rw [← h2] at hb; cases hb
        · rw [getVal_setVal_ne _ _ _ (by simpa using hne)] at h2
          exact h2

theorem matureOps_rev :
    ∀ (ops : List Nat) (s s' : App), matureOps ops s = .ok s' →
      ∀ op2 v, s'.getVal op2 = some v → v.status = .bonded → s.getVal op2 = some v
  | [], s, s', h => by simp [matureOps] at h; subst h; exact fun _ _ h _ => h
  | op :: rest, s, s', h => by
    unfold matureOps at h
    cases h1 : matureOne s op with
    | error e => simp [h1] at h
    | ok s1 =>
      simp only [h1] at h
      exact fun op2 v h2 hb => matureOne_rev s s1 op h1 op2 v (matureOps_rev rest s1 s' h op2 v h2 hb) hb

theorem matureSlots_rev :
    ∀ (slots : List ((Int × Int) × List Nat)) (s s' : App), matureSlots slots s = .ok s' →
      ∀ op2 v, s'.getVal op2 = some v → v.status = .bonded → s.getVal op2 = some v
  | [], s, s', h => by simp [matureSlots] at h; subst h; exact fun _ _ h _ => h
  | ((t, hh), ops) :: rest, s, s', h => by
    unfold matureSlots at h
    split at h
    · cases h1 : matureOps ops s with
      | error e => simp [h1] at h
      | ok s1 =>
        simp only [h1] at h
        exact fun op2 v h2 hb => matureOps_rev ops s s1 h1 op2 v (matureSlots_rev rest s1 s' h op2 v h2 hb) hb
    · exact matureSlots_rev rest s s' h

/-- maturity processing preserves agreement with CometBFT's set -/
theorem agree_mature (c : CSet) (s s' : App) (h : s.unbondMature = .ok s') (ha : Agree c s) : Agree c s' := by
  unfold unbondMature at h
  obtain ⟨hl, hf⟩ := matureSlots_frame s.ubq s s' h
  have hr := matureSlots_rev s.ubq s s' h
  intro k p
  rw [ha k p]
  constructor
  · rintro ⟨v, h1, h2, h3, h4, h5⟩
    exact ⟨v, hf _ _ h1 h2, h2, h3, h4, by simpa [lastPower, hl] using h5⟩
  · rintro ⟨v, h1, h2, h3, h4, h5⟩
    exact ⟨v, hr _ _ h1 h2, h2, h3, h4, by simpa [lastPower, hl] using h5⟩

/-- **the whole x/staking EndBlocker refines the validator set** -/
theorem stakingEndBlock_agree (s s' : App) (c c' : CSet) (ups : List (Nat × Int)) (hp : PreAgree s c)
    (h : s.stakingEndBlock = .ok (ups, s')) (hc : Comet.applyChangeSet c ups = .ok c') : Agree c' s' := by
  unfold stakingEndBlock at h
  cases h1 : s.applyUpdates with
  | error e => simp [h1] at h
  | ok r =>
    obtain ⟨u1, s1⟩ := r
    simp only [h1] at h
    cases h2 : s1.unbondMature with
    | error e => simp [h2] at h
    | ok s2 =>
      simp only [h2] at h
      injection h with h
      injection h with hu hs
      subst hu; subst hs
      exact agree_mature c' s1 s2 h2 (applyUpdates_agree s s1 c c' u1 hp h1 hc)

end App

/-! ### histories -/

theorem initChain_agree (g : Genesis) (u : List (Nat × Int)) (s : App) (c : CSet)
    (hpre : Pre (App.genesisState g) [] = true) (h : App.initChain g = .ok (u, s))
    (hc : Comet.applyChangeSet [] u = .ok c) : App.Agree c s := by
  unfold App.initChain at h
  cases h1 : (App.genesisState g).applyUpdates with
  | error e => simp [h1] at h
  | ok r =>
    obtain ⟨u1, s1⟩ := r
    simp only [h1] at h
    split at h
    · cases h
    · injection h with h
      injection h with hu hs
      subst hu; subst hs
      have := App.applyUpdates_agree (App.genesisState g) s1 [] c u1 (App.preAgree_of_pre _ _ hpre) h1 hc
      intro k p
      rw [this k p]
      constructor
      · rintro ⟨v, a1, a2, a3, a4, a5⟩
        exact ⟨v, by rw [← a1]; exact App.getVal_congr _ _ rfl _, a2, a3, a4, a5⟩
      · rintro ⟨v, a1, a2, a3, a4, a5⟩
        exact ⟨v, by rw [← a1]; exact App.getVal_congr _ _ rfl _, a2, a3, a4, a5⟩

/-- every block of the history enters its EndBlocker in a `Pre` state (a decidable condition on the history; the
    driver evaluates it on every block of every explored history and reports it as `PRE`) -/
def preAll (env : Env) : App → CSet → List Block → Bool
  | _, _, [] => true
  | s, c, b :: bs =>
    match App.beforeEnd env s b with
    | .error _ => true
    | .ok (_, s1) =>
      Pre s1 c &&
      match App.block env s b with
      | .error _ => true
      | .ok (o, s') =>
        match Comet.applyChangeSet c o.updates with
        | .error _ => true
        | .ok c' => preAll env s' c' bs

/-- **every step of a `Pre` history agrees**: by induction over the block list, with no bound on its length -/
theorem runFrom_agree (env : Env) : ∀ (bs : List Block) (s : App) (c : CSet), preAll env s c bs = true →
    ∀ st ∈ (runFrom env s c bs).1, App.Agree st.comet st.app
  | [], s, c, _, st, hst => by simp [runFrom] at hst
  | b :: bs, s, c, hpre, st, hst => by
    unfold runFrom at hst
    unfold preAll at hpre
    cases hb : App.block env s b with
    | error e => simp [hb] at hst
    | ok r =>
      obtain ⟨o, s'⟩ := r
      simp only [hb] at hst hpre
      cases hc : Comet.applyChangeSet c o.updates with
      | error e => simp [hc] at hst
      | ok c' =>
        simp only [hc] at hst hpre
        -- unfold the block to reach the EndBlocker
        have hb' := hb
        unfold App.block at hb'
        cases hbe : App.beforeEnd env s b with
        | error e => simp [hbe] at hb'
        | ok r1 =>
          obtain ⟨txrs, s1⟩ := r1
          simp only [hbe] at hb' hpre
          cases he : s1.stakingEndBlock with
          | error e => simp [he] at hb'
          | ok r2 =>
            obtain ⟨ups, s2⟩ := r2
            simp only [he] at hb'
            injection hb' with hb'
            injection hb' with ho hs
            subst ho; subst hs
            simp only [Bool.and_eq_true] at hpre
            rcases List.mem_cons.mp hst with e | hrest
            · subst e
              exact App.stakingEndBlock_agree s1 s2 c c' ups (App.preAgree_of_pre s1 c hpre.1) he hc
            · exact runFrom_agree env bs s2 c' hpre.2 st hrest

end PoaVerif
