import PoaVerif.Lemmas.Mature
/-
  Histories inside `Pre`: no EndBlocker fails and CometBFT refuses no update list, for any number of blocks.
-/
namespace PoaVerif

/-- the BeginBlockers (x/slashing's vote handling, PoA's cache reset) of every block of the history succeed -/
def beginOk (env : Env) : App → CSet → List Block → Bool
  | _, _, [] => true
  | s, c, b :: bs =>
    match App.beforeEnd env s b with
    | .error _ => false
    | .ok _ =>
      match App.block env s b with
      | .error _ => true
      | .ok (o, s') =>
        match Comet.applyChangeSet c o.updates with
        | .error _ => true
        | .ok c' => beginOk env s' c' bs

/-- one block whose transactions leave a `Pre` state: the block succeeds and CometBFT accepts its updates -/
theorem block_pre (env : Env) (s s1 : App) (c : CSet) (b : Block) (txrs : List TxR)
    (hb : App.beforeEnd env s b = .ok (txrs, s1)) (hp : Pre s1 c = true) :
    ∃ o s' c', App.block env s b = .ok (o, s') ∧ Comet.applyChangeSet c o.updates = .ok c' ∧ App.Agree c' s' := by
  obtain ⟨ups, s2, c', h1, h2, h3⟩ := App.stakingEndBlock_pre s1 c hp
  refine ⟨⟨txrs, ups⟩, s2, c', ?_, h2, h3⟩
  unfold App.block
  rw [hb]
  simp only [h1]

/-- **no halt at an EndBlocker, no refused update list**: a history whose blocks all enter their EndBlocker inside
    `Pre` and whose BeginBlockers succeed runs to its end, one step per block -/
theorem runFrom_total (env : Env) : ∀ (bs : List Block) (s : App) (c : CSet), preAll env s c bs = true → beginOk env s c bs = true →
    (runFrom env s c bs).2 = .done ∧ (runFrom env s c bs).1.length = bs.length
  | [], _, _, _, _ => by simp [runFrom]
  | b :: bs, s, c, hpre, hbeg => by
    unfold preAll at hpre
    unfold beginOk at hbeg
    cases hbe : App.beforeEnd env s b with
    | error e => simp [hbe] at hbeg
    | ok r1 =>
      obtain ⟨txrs, s1⟩ := r1
      simp only [hbe, Bool.and_eq_true] at hpre hbeg
      obtain ⟨o, s', c', hb, hc, _⟩ := block_pre env s s1 c b txrs hbe hpre.1
      simp only [hb, hc] at hpre hbeg
      have ih := runFrom_total env bs s' c' hpre.2 hbeg
      unfold runFrom
      simp only [hb, hc]
      exact ⟨ih.1, by simp [ih.2]⟩

end PoaVerif
