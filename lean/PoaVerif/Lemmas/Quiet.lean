import PoaVerif.Lemmas.GenesisPre
import PoaVerif.Lemmas.Corollaries
import PoaVerif.Props.C14
import PoaVerif.Model.Quiet
/-
  Layer 2 for the core operation.  `M s c` is an invariant of the state *during* a block (after the BeginBlockers)
  of a chain whose validators are all bonded, un-jailed and alive — the world of power-adjustment histories: the admin
  re-weights existing validators with SetPower, nobody is jailed, created or removed.  It implies the hypotheses of the
  refinement theorems, it is preserved by every SetPower that fires none of the triggers D1, D3 (and by every failing
  transaction), it is re-established by the EndBlocker and the next BeginBlockers: so every such history, of any
  length, keeps CometBFT's set equal to the chain's and never halts.
-/
namespace PoaVerif
namespace App

/-- keys of an association list strictly ascending (what `ainsert` maintains) -/
def KSorted {α : Type} (l : List (Nat × α)) : Prop := l.Pairwise (fun a b => a.1 < b.1)

theorem ksorted_nodup {α : Type} : ∀ (l : List (Nat × α)), KSorted l → (l.map (·.1)).Nodup
  | [], _ => by simp
  | a :: l, h => by
    unfold KSorted at h
    have ⟨h1, h2⟩ := List.pairwise_cons.mp h
    simp only [List.map_cons, List.nodup_cons, List.mem_map, not_exists, not_and]
    exact ⟨fun x hx he => by have := h1 x hx; omega, ksorted_nodup l h2⟩

theorem mem_ainsert {α : Type} (k : Nat) (v : α) : ∀ (l : List (Nat × α)) (x : Nat × α), x ∈ ainsert k v l → x = (k, v) ∨ x ∈ l
  | [], x, h => by simp [ainsert] at h; exact Or.inl h
  | (k', v') :: xs, x, h => by
    unfold ainsert at h
    split at h
    · rcases List.mem_cons.mp h with e | e
      · exact Or.inl e
      · exact Or.inr (by simp [e])
    · split at h
      · rcases List.mem_cons.mp h with e | e
        · exact Or.inl e
        · exact Or.inr e
      · rcases List.mem_cons.mp h with e | e
        · exact Or.inr (by simp [e])
        · rcases mem_ainsert k v xs x e with e2 | e2
          · exact Or.inl e2
          · exact Or.inr (by simp [e2])

theorem ksorted_ainsert {α : Type} (k : Nat) (v : α) : ∀ (l : List (Nat × α)), KSorted l → KSorted (ainsert k v l)
  | [], _ => by simp [ainsert, KSorted]
  | (k', v') :: xs, h => by
    unfold KSorted at h ⊢
    have ⟨h1, h2⟩ := List.pairwise_cons.mp h
    unfold ainsert
    split
    · rename_i he
      exact List.pairwise_cons.mpr ⟨fun y hy => by have := h1 y hy; simp only at this ⊢; omega, h2⟩
    · split
      · rename_i hlt
        apply List.pairwise_cons.mpr
        refine ⟨?_, h⟩
        intro y hy
        rcases List.mem_cons.mp hy with e | e
        · rw [e]; exact hlt
        · have := h1 y e; simp only at this ⊢; omega
      · rename_i hne hnlt
        apply List.pairwise_cons.mpr
        refine ⟨?_, ksorted_ainsert k v xs h2⟩
        intro y hy
        rcases mem_ainsert k v xs y hy with e | e
        · rw [e]; simp only; omega
        · exact h1 y e

theorem ksorted_aerase {α : Type} (k : Nat) (l : List (Nat × α)) (h : KSorted l) : KSorted (aerase k l) :=
  List.Pairwise.sublist (aerase_sublist k l) h

theorem ksorted_applyOne (c : CSet) (u : Nat × Int) (h : KSorted c) : KSorted (Comet.applyOne c u) := by
  unfold Comet.applyOne
  split
  · exact ksorted_aerase _ _ h
  · exact ksorted_ainsert _ _ _ h

theorem ksorted_foldl : ∀ (ups : List (Nat × Int)) (c : CSet), KSorted c → KSorted (ups.foldl Comet.applyOne c)
  | [], _, h => h
  | u :: ups, c, h => ksorted_foldl ups _ (ksorted_applyOne c u h)


/-- the pending applications: distinct operators and keys, none of them a validator's, no tokens -/
structure PendOk (s : App) : Prop where
  ops : (s.pending.map (·.op)).Nodup
  keys : (s.pending.map (·.key)).Nodup
  fresh : ∀ p ∈ s.pending, s.getVal p.op = none ∧ (∀ v ∈ s.vals, v.key ≠ p.key) ∧ p.tokens = 0

/-- the state during a block; `s.updated` = the validators re-weighted so far in this block -/
structure M (s : App) (c : CSet) : Prop where
  sorted : SortedOps s.vals
  keys : ∀ v1 ∈ s.vals, ∀ v2 ∈ s.vals, v1.key = v2.key → v1 = v2
  live : ∀ v ∈ s.vals, v.status = .bonded ∧ v.jailed = false ∧ powerOf v.tokens > 0 ∧ v.shares ≠ 0
  nonempty : s.vals ≠ []
  ubq : s.ubq = []
  pend : PendOk s
  last : ∀ op v, s.getVal op = some v → alookup op s.last = some (cur v)
  lastOnly : ∀ op p, alookup op s.last = some p → (s.getVal op).isSome = true
  lastSorted : KSorted s.last
  cometCur : ∀ v ∈ s.vals, v.op ∉ s.updated → alookup v.key c = some (cur v)
  cometKnown : ∀ k p, alookup k c = some p → ∃ v ∈ s.vals, v.key = k
  cSorted : KSorted c
  cNonneg : ∀ e ∈ c, 0 ≤ e.2
  idxEx : ∀ e ∈ s.index, (s.getVal e.2).isSome = true
  idxNodup : s.index.Nodup
  occ1 : ∀ v ∈ s.vals, v.op ∉ s.updated → occ v.op s.index = 1
  occ2 : ∀ v ∈ s.vals, v.op ∈ s.updated → occ v.op s.index = 2
  unbond : s.params.unbond > 0
  infos : ∀ v ∈ s.vals, (s.getInfo v.key).isSome = true
  cons : ∀ v ∈ s.vals, s.valByKey v.key = some v
  updSorted : s.updated.Pairwise (· < ·)
  updCur : ∀ op ∈ s.updated, ∃ v, s.getVal op = some v ∧ (powerOf v.tokens, op) ∈ s.index

theorem sorted_op_inj : ∀ (l : List Val), SortedOps l → ∀ x ∈ l, ∀ y ∈ l, x.op = y.op → x = y
  | [], _, x, hx, _, _, _ => by cases hx
  | a :: l, hs, x, hx, y, hy, hxy => by
    unfold SortedOps at hs
    have ⟨h1, h2⟩ := List.pairwise_cons.mp hs
    rcases List.mem_cons.mp hx with ex | ex <;> rcases List.mem_cons.mp hy with ey | ey
    · rw [ex, ey]
    · subst ex; have := h1 y ey; omega
    · subst ey; have := h1 x ex; omega
    · exact sorted_op_inj l h2 x ex y ey hxy

theorem mem_vals_getVal (s : App) (hs : SortedOps s.vals) (v : Val) (hv : v ∈ s.vals) : s.getVal v.op = some v := by
  unfold getVal
  cases hf : s.vals.find? (fun x => x.op == v.op) with
  | none =>
    have := List.find?_eq_none.mp hf v hv
    simp at this
  | some w =>
    have hw := List.mem_of_find?_eq_some hf
    have hwop : w.op = v.op := by have := List.find?_some hf; simpa using this
    rw [sorted_op_inj s.vals hs w hw v hv hwop]


theorem visited_of_M (s : App) (c : CSet) (m : M s c) (v : Val) (hv : v ∈ s.vals) :
    visitedB s s.index v.op = true := by
  have hg := mem_vals_getVal s m.sorted v hv
  have hl := m.live v hv
  have hocc : occ v.op s.index > 0 := by
    by_cases hu : v.op ∈ s.updated
    · rw [m.occ2 v hv hu]; omega
    · rw [m.occ1 v hv hu]; omega
  simp [visitedB, hg, cand, hl.2.1, hl.2.2.1, hocc]

theorem sumF_nbTok_bonded : ∀ (l : List Val), (∀ v ∈ l, v.status = .bonded) → sumF nbTok l = 0
  | [], _ => rfl
  | v :: l, h => by
    simp only [sumF, nbTok, h v (by simp), ↓reduceIte, sumF_nbTok_bonded l (fun x hx => h x (by simp [hx]))]; omega

/-- the block-level side conditions at the EndBlocker (no D7: the index fits under the cap; powers within CometBFT's
    maximum) -/
structure Fits (s : App) (c : CSet) : Prop where
  cap : s.index.length ≤ s.params.maxVals
  total : Comet.total c + idxPow s s.index ≤ maxTotalPower
  lastTotal : 0 ≤ s.lastTotal ∧ s.lastTotal ≤ maxTotalPower

/-- **`M` implies the hypotheses of the refinement theorems** -/
theorem pre_of_M (s : App) (c : CSet) (m : M s c) (f : Fits s c) :
    PreAgree s c ∧ PreAccept s c ∧ QInv s := by
  have hmem : ∀ op v, s.getVal op = some v → v ∈ s.vals := fun op v h => mem_of_getVal s op v h
  have hcand : ∀ v ∈ s.vals, cand v = true := by
    intro v hv; have hl := m.live v hv; simp [cand, hl.2.1, hl.2.2.1]
  have hocc12 : ∀ v ∈ s.vals, occ v.op s.index = 1 ∨ occ v.op s.index = 2 := by
    intro v hv
    by_cases hu : v.op ∈ s.updated
    · right; exact m.occ2 v hv hu
    · left; exact m.occ1 v hv hu
  have hpl : PreLoop s := {
    exists_ := m.idxEx
    keyInj := by
      intro op1 op2 v1 v2 h1 h2 hk
      have := m.keys v1 (hmem _ _ h1) v2 (hmem _ _ h2) hk
      rw [← getVal_op _ _ _ h1, ← getVal_op _ _ _ h2, this]
    occ2 := by
      intro op v hv _
      have hvop := getVal_op _ _ _ hv
      have := hocc12 v (hmem _ _ hv)
      rw [hvop] at this
      exact ⟨by omega, fun _ => m.last op v hv⟩
    noCut := by
      have h1 : candCount s s.index ≤ s.index.length := by unfold candCount; exact List.length_filter_le _ _
      have := f.cap
      omega }
  refine ⟨{ toPreLoop := hpl, shadow := ?_, lastNodup := ksorted_nodup _ m.lastSorted, lastEx := m.lastOnly, silent := ?_, leaving := ?_, cometKnown := ?_, bondedKnown := ?_ }, ?_, ?_⟩
  · apply noShadow_of_pos
    intro e he
    have := m.idxEx e he
    cases hv : s.getVal e.2 with
    | none => simp [hv] at this
    | some v => exact ⟨v, rfl, (m.live v (hmem _ _ hv)).2.2.1⟩
  · intro op v hv _ h1 _
    have hvop := getVal_op _ _ _ hv
    have hvm := hmem _ _ hv
    apply m.cometCur v hvm
    intro hu
    have := m.occ2 v hvm hu
    rw [hvop] at this; omega
  · intro op v hv _ hvis
    have hvop := getVal_op _ _ _ hv
    have := visited_of_M s c m v (hmem _ _ hv)
    rw [hvop, hvis] at this; cases this
  · intro k p hkp
    obtain ⟨v, hv, hk⟩ := m.cometKnown k p hkp
    have hg := mem_vals_getVal s m.sorted v hv
    exact ⟨v, hg, hk, by rw [m.last v.op v hg]; simp⟩
  · intro op v hv _ _
    have hvop := getVal_op _ _ _ hv
    left; rw [← hvop]; exact visited_of_M s c m v (hmem _ _ hv)
  · refine { cNodup := ksorted_nodup _ m.cSorted, cNonneg := m.cNonneg, stays := ?_, total := f.total }
    cases hvs : s.vals with
    | nil => exact absurd hvs m.nonempty
    | cons x xs =>
      have hx : x ∈ s.vals := by rw [hvs]; simp
      exact ⟨x.op, x, mem_vals_getVal s m.sorted x hx, visited_of_M s c m x hx⟩
  · exact { sorted := (by rw [m.ubq]; exact List.Pairwise.nil)
            nodup := (by rw [m.ubq]; simp)
            recs := (by intro e he; rw [m.ubq] at he; simp at he)
            sound := (by intro op v hv; left; exact (m.live v (hmem _ _ hv)).2.2.2) }


/-- Prop-level form of `stakingEndBlock_pre` -/
theorem stakingEndBlock_preP (s : App) (c : CSet) (hp : PreAgree s c) (hx : PreAccept s c) (hq : PrePools s) (hi : QInv s) :
    ∃ ups s' c', s.stakingEndBlock = .ok (ups, s') ∧ Comet.applyChangeSet c ups = .ok c' ∧ Agree c' s' := by
  obtain ⟨ups, s1, h1⟩ := applyUpdates_total s c hp hq
  obtain ⟨c', h2⟩ := applyUpdates_accepted s s1 c ups hp hx h1
  have q1 := applyUpdates_q s s1 ups hi h1
  obtain ⟨s2, h3⟩ := unbondMature_total s1 q1
  have he : s.stakingEndBlock = .ok (ups, s2) := by
    unfold stakingEndBlock
    rw [h1]
    simp only [h3]
  exact ⟨ups, s2, c', he, h2, stakingEndBlock_agree s s2 c c' ups hp he h2⟩

/-! ### the EndBlocker when every record is already bonded: only the power table and the recorded total change -/

theorem applyLoop_bonded (s : App) (maxV : Nat) : ∀ (rest : List (Nat × Nat)) (acc a : LoopAcc),
    (∀ e ∈ rest, ∀ v, s.getVal e.2 = some v → v.status = .bonded) →
    (∃ L, acc.app = { s with last := L } ∧ KSorted L) → acc.nb2b = 0 →
    applyLoop maxV rest acc = .done a → (∃ L, a.app = { s with last := L } ∧ KSorted L) ∧ a.nb2b = 0
  | [], acc, a, _, hL, hn, h => by simp [applyLoop] at h; subst h; exact ⟨hL, hn⟩
  | e :: rest, acc, a, hb, hL, hn, h => by
    unfold applyLoop at h
    have hrest : ∀ x ∈ rest, ∀ v, s.getVal x.2 = some v → v.status = .bonded := fun x hx => hb x (by simp [hx])
    split at h
    · obtain ⟨L, hL', hLs⟩ := hL
      have hget : acc.app.getVal e.2 = s.getVal e.2 := by rw [hL']; exact getVal_congr _ _ rfl _
      cases hv : visit acc e.2 with
      | halt hh => simp [hv, loopCont] at h
      | skip => simp only [hv, loopCont] at h; exact applyLoop_bonded s maxV rest acc a hrest ⟨L, hL', hLs⟩ hn h
      | stop => simp only [hv, loopCont] at h; injection h with h; subst h; exact ⟨⟨L, hL', hLs⟩, hn⟩
      | next a1 =>
        simp only [hv, loopCont] at h
        unfold visit at hv
        cases hg : acc.app.getVal e.2 with
        | none => simp [hg] at hv
        | some w =>
          simp only [hg] at hv
          have hwb : w.status = .bonded := hb e (by simp) w (by rw [← hget]; exact hg)
          unfold visitVal at hv
          split at hv
          · cases hv
          · split at hv
            · cases hv
            · injection hv with hv
              subst hv
              have hbi : acc.app.bondIfNeeded w = (acc.app, w, 0) := by simp [bondIfNeeded, hwb]
              apply applyLoop_bonded s maxV rest _ a hrest _ _ h
              · simp only [hbi]
                split
                · exact ⟨ainsert w.op ((powerOf w.tokens : Nat) : Int) L, by rw [hL']; rfl, ksorted_ainsert _ _ _ hLs⟩
                · exact ⟨L, hL', hLs⟩
              · simp only [hbi]; omega
    · injection h with h; subst h; exact ⟨hL, hn⟩

/-- **the EndBlocker on an `M` state**: it succeeds, CometBFT accepts, the sets agree, and the state changes in the
    power table and the recorded total only -/
theorem stakingEndBlock_M (s : App) (c : CSet) (m : M s c) (f : Fits s c) :
    ∃ ups c' L T, s.stakingEndBlock = .ok (ups, { s with last := L, lastTotal := T }) ∧
      Comet.applyChangeSet c ups = .ok c' ∧ Agree c' { s with last := L, lastTotal := T } ∧
      0 ≤ T ∧ T ≤ maxTotalPower ∧ KSorted L ∧ PreAgree s c := by
  obtain ⟨hp, hx, hi⟩ := pre_of_M s c m f
  obtain ⟨a, u, hl, hu, hF, hS⟩ := loops_total s c hp
  obtain ⟨⟨L, hL, hLs⟩, hn⟩ := applyLoop_bonded s s.params.maxVals s.index _ a
    (fun e _ v hv => (m.live v (mem_of_getVal s e.2 v hv)).1) ⟨s.last, rfl, m.lastSorted⟩ rfl hl
  have hlast : a.last = [] := by
    apply List.eq_nil_iff_forall_not_mem.mpr
    intro x hx1
    obtain ⟨hnv, hne⟩ := (mem_remaining s c hp a hF x.1).mp (List.mem_map.mpr ⟨x, hx1, rfl⟩)
    cases hlq : alookup x.1 s.last with
    | none => exact hne hlq
    | some p =>
      have ex := m.lastOnly x.1 p hlq
      cases hv : s.getVal x.1 with
      | none => simp [hv] at ex
      | some v =>
        have := visited_of_M s c m v (mem_of_getVal s x.1 v hv)
        rw [getVal_op _ _ _ hv, hnv] at this; cases this
  have hu' : u = ⟨a.app, a.updates, 0⟩ := by
    rw [hlast] at hu
    simp only [unbondLoop] at hu
    injection hu with hu; exact hu.symm
  have hmv : movePools a.app a.nb2b 0 = .ok a.app := by simp [movePools, hn]
  have hnn := idxPow_nonneg s s.index
  have hct : 0 ≤ Comet.total c := sumInts_nonneg _ (by
    intro x hxm
    obtain ⟨e, he1, hex⟩ := List.mem_map.mp hxm
    rw [← hex]; exact m.cNonneg e he1)
  have htot := f.total
  -- the result of `ApplyAndReturnValidatorSetUpdates`
  have hres : ∃ T, s.applyUpdates = .ok (a.updates, { s with last := L, lastTotal := T }) ∧ 0 ≤ T ∧ T ≤ maxTotalPower := by
    unfold applyUpdates
    rw [hl]
    simp only
    unfold finishUpdates
    rw [hlast]
    simp only [unbondLoop, hmv]
    split
    · exact ⟨s.lastTotal, by rw [hL], f.lastTotal.1, f.lastTotal.2⟩
    · exact ⟨a.total, by rw [hL], by rw [hF.tot]; exact hnn, by rw [hF.tot]; omega⟩
  obtain ⟨T, h1, hT0, hT1⟩ := hres
  obtain ⟨c', hc⟩ := applyUpdates_accepted s _ c a.updates hp hx h1
  have hmat : ({ s with last := L, lastTotal := T } : App).unbondMature = .ok { s with last := L, lastTotal := T } := by
    unfold unbondMature
    simp [m.ubq, matureSlots]
  have he : s.stakingEndBlock = .ok (a.updates, { s with last := L, lastTotal := T }) := by
    unfold stakingEndBlock
    rw [h1]
    simp only [hmat]
  exact ⟨a.updates, c', L, T, he, hc, stakingEndBlock_agree s _ c c' a.updates hp he hc, hT0, hT1, hLs, hp⟩

/-- the state between blocks: `M`, with CometBFT's set current for **every** validator (the updates of the last block
    have been delivered) and the recorded total in range -/
structure G (s : App) (c : CSet) : Prop extends M s c where
  allCur : ∀ v ∈ s.vals, alookup v.key c = some (cur v)
  totalOk : 0 ≤ s.lastTotal ∧ s.lastTotal ≤ maxTotalPower

/-- **the EndBlocker takes `M` to `G`** -/
theorem endBlock_G (s : App) (c : CSet) (m : M s c) (f : Fits s c) :
    ∃ ups c' L T, s.stakingEndBlock = .ok (ups, { s with last := L, lastTotal := T }) ∧
      Comet.applyChangeSet c ups = .ok c' ∧ Agree c' { s with last := L, lastTotal := T } ∧
      G { s with last := L, lastTotal := T } c' := by
  obtain ⟨ups, c', L, T, he, hc, hag, hT0, hT1, hLs, hp⟩ := stakingEndBlock_M s c m f
  refine ⟨ups, c', L, T, he, hc, hag, ?_⟩
  have hget : ∀ op, ({ s with last := L, lastTotal := T } : App).getVal op = s.getVal op := fun op => getVal_congr _ _ rfl op
  -- the power table after the block
  have hlast : ∀ op v, s.getVal op = some v → alookup op L = some (cur v) := by
    intro op v hv
    have hvm := mem_of_getVal s op v hv
    have hvis : visitedB s s.index op = true := by rw [← getVal_op _ _ _ hv]; exact visited_of_M s c m v hvm
    obtain ⟨w, _, _, _, _, g5⟩ := (stakingEndBlock_bonded s _ c ups hp he).1 op v hv hvis
    have hpos : 0 < cur v := cur_pos_of_cand v (by have hl := m.live v hvm; simp [cand, hl.2.1, hl.2.2.1])
    simp only [lastPower] at g5
    cases hq : alookup op L with
    | none => rw [hq] at g5; simp at g5; omega
    | some q => rw [hq] at g5; simp at g5; rw [g5]
  have hallCur : ∀ v ∈ s.vals, alookup v.key c' = some (cur v) := by
    intro v hv
    have hg := mem_vals_getVal s m.sorted v hv
    have hl := m.live v hv
    apply (hag v.key (cur v)).mpr
    exact ⟨v, by rw [hget]; exact hg, hl.1, hl.2.1, rfl, by simp [lastPower, hlast v.op v hg]⟩
  have hc'eq := applyChangeSet_ok c c' ups hc
  have hcs : KSorted c' := by rw [hc'eq]; exact ksorted_foldl ups c m.cSorted
  exact {
    sorted := m.sorted, keys := m.keys, live := m.live, nonempty := m.nonempty, ubq := m.ubq, pend := ⟨m.pend.ops, m.pend.keys, m.pend.fresh⟩
    last := (by intro op v hv; rw [hget] at hv; exact hlast op v hv)
    lastOnly := (by
      intro op p hl
      obtain ⟨v, hv, _⟩ := stakingEndBlock_post s _ ups he op p hl
      rw [hv]; rfl)
    lastSorted := hLs
    cometCur := (fun v hv _ => hallCur v hv)
    cometKnown := (by
      intro k p hkp
      obtain ⟨v, hv, _, _, hk, _⟩ := (hag k p).mp hkp
      rw [hget] at hv
      exact ⟨v, mem_of_getVal s v.op v hv, hk⟩)
    cSorted := hcs
    cNonneg := (by
      intro e he1
      have hl := alookup_of_mem_nodup e.1 e.2 c' (ksorted_nodup _ hcs) he1
      obtain ⟨v, hv, _, _, _, hp2⟩ := (hag e.1 e.2).mp hl
      rw [hget] at hv
      have := hlast v.op v hv
      simp only [lastPower, this, Option.getD_some] at hp2
      rw [← hp2]; unfold cur; omega)
    idxEx := m.idxEx, idxNodup := m.idxNodup, occ1 := m.occ1, occ2 := m.occ2, unbond := m.unbond
    infos := m.infos, cons := m.cons, updSorted := m.updSorted, updCur := m.updCur
    allCur := hallCur
    totalOk := ⟨hT0, hT1⟩ }

/-! ### x/slashing's BeginBlocker when it punishes nobody -/

/-- x/slashing's BeginBlocker, run on the block's votes, changes nothing but signing infos and missed-block bitmaps (nobody
    is slashed or jailed for downtime), and every validator still has a signing info.  `s0` is the state with the new
    height and time. -/
def VotesOk (s0 : App) (votes : List Vote) : Prop :=
  ∃ I B, slashingBegin votes s0 = .ok { s0 with infos := I, bitmap := B } ∧ ∀ v ∈ s0.vals, (alookup v.key I).isSome = true

/-- `M` does not look at the signing infos beyond the missed-block counters, nor at the bitmap, height or time -/
theorem M_frame (s : App) (c : CSet) (m : M s c) (I : List (Nat × SignInfo)) (B : List (Nat × List Nat)) (h t : Int)
    (hI : ∀ v ∈ s.vals, (alookup v.key I).isSome = true) :
    M { s with infos := I, bitmap := B, height := h, time := t } c :=
  { sorted := m.sorted, keys := m.keys, live := m.live, nonempty := m.nonempty, ubq := m.ubq, pend := ⟨m.pend.ops, m.pend.keys, m.pend.fresh⟩
    last := m.last, lastOnly := m.lastOnly, lastSorted := m.lastSorted, cometCur := m.cometCur
    cometKnown := m.cometKnown, cSorted := m.cSorted, cNonneg := m.cNonneg, idxEx := m.idxEx, idxNodup := m.idxNodup
    occ1 := m.occ1, occ2 := m.occ2, unbond := m.unbond, infos := hI, cons := m.cons
    updSorted := m.updSorted, updCur := m.updCur }

/-! ### PoA's BeginBlocker: the entries written by last block's SetPowers are pruned -/

theorem occ_idxErase (e : Nat × Nat) (op : Nat) : ∀ (l : List (Nat × Nat)), l.Nodup →
    occ op (idxErase e l) = occ op l - (if e.2 = op ∧ e ∈ l then 1 else 0)
  | [], _ => by simp [idxErase, occ]
  | x :: xs, hn => by
    have ⟨hx, hxs⟩ := List.nodup_cons.mp hn
    have ih := occ_idxErase e op xs hxs
    unfold idxErase at ih ⊢
    simp only [List.filter_cons]
    by_cases hxe : x = e
    · subst hxe
      have hnot : x ∉ xs := hx
      simp only [bne_self_eq_false, Bool.false_eq_true, ↓reduceIte, List.mem_cons, true_or, and_true]
      rw [ih, occ_cons]
      simp only [hnot, and_false, ↓reduceIte]
      split <;> omega
    · have hne : (x != e) = true := by simpa using hxe
      simp only [hne, ↓reduceIte]
      rw [occ_cons, occ_cons, ih]
      have hmem : (e ∈ x :: xs) ↔ e ∈ xs := by
        simp only [List.mem_cons]
        constructor
        · rintro (h | h)
          · exact absurd h.symm hxe
          · exact h
        · exact Or.inr
      simp only [hmem]
      by_cases hc : e.2 = op ∧ e ∈ xs
      · simp only [hc, and_self, ↓reduceIte]
        have := occ_pos_of_mem e xs hc.2
        rw [hc.1] at this
        split <;> omega
      · simp only [hc, ↓reduceIte]; omega

theorem pruneUpdated_spec (s0 : App) : ∀ (ops : List Nat) (idx : List (Nat × Nat)), ops.Nodup → idx.Nodup →
    (∀ op ∈ ops, ∃ v, s0.getVal op = some v ∧ (powerOf v.tokens, op) ∈ idx) →
    ∃ idx', pruneUpdated ops { s0 with index := idx } = .ok { s0 with index := idx' } ∧ idx'.Nodup ∧ (∀ e ∈ idx', e ∈ idx) ∧
      ∀ op, occ op idx' = occ op idx - (if op ∈ ops then 1 else 0)
  | [], idx, _, hn, _ => ⟨idx, rfl, hn, fun _ h => h, by intro op; simp⟩
  | op :: rest, idx, hops, hn, hcur => by
    have ⟨hop, hrest⟩ := List.nodup_cons.mp hops
    obtain ⟨v, hv, hmem⟩ := hcur op (by simp)
    have hvop := getVal_op _ _ _ hv
    have hget : ({ s0 with index := idx } : App).getVal op = some v := by rw [← hv]; exact getVal_congr _ _ rfl _
    unfold pruneUpdated
    rw [hget]
    simp only
    have hstate : ({ s0 with index := idx } : App).delIdx v = { s0 with index := idxErase (powerOf v.tokens, op) idx } := by
      simp [delIdx, hvop]
    rw [hstate]
    have hn1 : (idxErase (powerOf v.tokens, op) idx).Nodup := by unfold idxErase; exact hn.sublist List.filter_sublist
    have hcur1 : ∀ o ∈ rest, ∃ w, s0.getVal o = some w ∧ (powerOf w.tokens, o) ∈ idxErase (powerOf v.tokens, op) idx := by
      intro o ho
      obtain ⟨w, hw, hwm⟩ := hcur o (by simp [ho])
      refine ⟨w, hw, ?_⟩
      unfold idxErase
      apply List.mem_filter.mpr
      refine ⟨hwm, ?_⟩
      have : o ≠ op := by intro e; subst e; exact hop ho
      simp [this]
    obtain ⟨idx', h1, h2, h3, h4⟩ := pruneUpdated_spec s0 rest _ hrest hn1 hcur1
    refine ⟨idx', h1, h2, ?_, ?_⟩
    · intro e he
      have := h3 e he
      unfold idxErase at this
      exact (List.mem_filter.mp this).1
    · intro x
      rw [h4 x, occ_idxErase _ x idx hn]
      simp only [hmem, and_true, List.mem_cons]
      by_cases hx : x = op
      · subst hx
        simp only [true_or, ↓reduceIte, hop]
        omega
      · have hx' : ¬ op = x := fun e => hx e.symm
        simp only [hx, false_or, hx', ↓reduceIte]
        omega

theorem sorted_nat_nodup : ∀ (l : List Nat), l.Pairwise (· < ·) → l.Nodup
  | [], _ => by simp
  | a :: l, h => by
    have ⟨h1, h2⟩ := List.pairwise_cons.mp h
    exact List.nodup_cons.mpr ⟨fun hm => by have := h1 a hm; omega, sorted_nat_nodup l h2⟩

/-- **PoA's BeginBlocker takes `G` to `G` with an empty cache**: every validator is back to one index entry -/
theorem poaBegin_G (lf : LimitFacts) (s : App) (c : CSet) (g : G s c) :
    ∃ s2, poaBegin lf s = .ok s2 ∧ G s2 c ∧ s2.updated = [] ∧ s2.vals = s.vals ∧ s2.height = s.height ∧ s2.params = s.params := by
  have m := g.toM
  obtain ⟨idx', h1, h2, h3, h4⟩ := pruneUpdated_spec s s.updated s.index (sorted_nat_nodup _ m.updSorted) m.idxNodup m.updCur
  have hocc : ∀ v ∈ s.vals, occ v.op idx' = 1 := by
    intro v hv
    rw [h4 v.op]
    by_cases hu : v.op ∈ s.updated
    · simp only [hu, ↓reduceIte]; rw [m.occ2 v hv hu]
    · simp only [hu, ↓reduceIte]; rw [m.occ1 v hv hu]
  have mk : ∀ (cch : Nat) (ab : Nat), G { s with index := idx', updated := [], cached := cch, absCh := ab } c := by
    intro cch ab
    exact {
      sorted := m.sorted, keys := m.keys, live := m.live, nonempty := m.nonempty, ubq := m.ubq, pend := ⟨m.pend.ops, m.pend.keys, m.pend.fresh⟩
      last := m.last, lastOnly := m.lastOnly, lastSorted := m.lastSorted
      cometCur := (fun v hv _ => g.allCur v hv), cometKnown := m.cometKnown, cSorted := m.cSorted, cNonneg := m.cNonneg
      idxEx := (fun e he => m.idxEx e (h3 e he)), idxNodup := h2
      occ1 := (fun v hv _ => hocc v hv), occ2 := (fun v _ hu => by cases hu)
      unbond := m.unbond, infos := m.infos, cons := m.cons
      updSorted := List.Pairwise.nil, updCur := (fun op hop => by cases hop)
      allCur := g.allCur, totalOk := g.totalOk }
  have hprune : pruneUpdated s.updated s = .ok { s with index := idx' } := h1
  unfold poaBegin
  rw [hprune]
  simp only
  split
  · have hU : ¬ ((decide (s.lastTotal < 0) || decide (s.lastTotal ≥ (U64 : Int))) = true) := by
      have := g.totalOk
      simp only [Bool.or_eq_true, decide_eq_true_eq, not_or]
      unfold maxTotalPower at this
      unfold U64
      constructor <;> omega
    rw [if_neg hU]
    exact ⟨_, rfl, mk _ _, rfl, rfl, rfl, rfl⟩
  · exact ⟨_, rfl, mk _ _, rfl, rfl, rfl, rfl⟩

theorem ubp (x : App) : ∃ B S, x.updateBondedPool = { x with bonded := B, supply := S } := by
  unfold updateBondedPool
  dsimp only
  split
  · exact ⟨_, _, rfl⟩
  · exact ⟨x.bonded, x.supply, rfl⟩

/-- the record SetPower writes -/
def reweigh (v : Val) (p : Nat) : Val := { v with tokens := p, shares := (p : Int) * E18, status := .bonded }

theorem setPower_shape (s0 s s' : App) (op p : Nat) (u : Bool) (v : Val)
    (hadm : s0.admitIfPending (some op) = s) (hv : s.getVal op = some v) (hj : v.jailed = false)
    (h : setPowerMsg genLimitFacts s0 .admin (some op) p u = .ok s') :
    1000000 ≤ p ∧ p < 9223372036854775808 ∧ ((p / PR : Nat) : Int) ≠ s.lastPower op ∧
    ∃ D LT AB B S,
      s' = { s with vals := insertVal (reweigh v p) s.vals, dels := D,
                    last := ainsert op ((p / PR : Nat) : Int) (ainsert op ((p / PR : Nat) : Int) s.last),
                    lastTotal := LT, index := idxInsert (p / PR, op) s.index, updated := sinsert op s.updated,
                    absCh := AB, bonded := B, supply := S } := by
  obtain ⟨hlo, hhi, _⟩ := Props.C14.c14_exact s0 s' op p u h
  have hf := Props.C14.facts_bounds
  have hlo' : ¬ p < 1000000 := by omega
  have hhi' : ¬ p > 9223372036854775807 := by omega
  have hvop := getVal_op _ _ _ hv
  simp only [setPowerMsg, isAdmin, validateSetPower, hf.1, hf.2, hlo', hhi'] at h
  simp only [beq_self_eq_true, Bool.not_true, Bool.false_eq_true, ↓reduceIte, Option.isNone_some,
    decide_false, Bool.and_false, setPowerCore] at h
  rw [toInt64_small p (by omega)] at h
  rw [hadm] at h
  simp only [setPOAPower, hv] at h
  cases hr : s.setPOAPowerVal v (p : Int) with
  | error e => simp [hr] at h
  | ok s2 =>
    simp only [hr] at h
    have e := limitCheck_ok genLimitFacts s2 s' u h
    unfold setPOAPowerVal at hr
    split at hr
    · cases hr
    · rename_i hne
      unfold poaBranch at hr
      have hz : ((p : Int) = 0 && decide (s.lastPower v.op > 0)) = false := by
        have hp0 : ¬ p = 0 := by omega
        simp [hp0]
      simp only [hz, Bool.false_eq_true, ↓reduceIte] at hr
      injection hr with hr
      refine ⟨hlo, hhi, ?_, ?_⟩
      · rw [← powerOfInt_nat, ← hvop]; exact hne
      · subst hr
        subst e
        have hu64 := toUInt64_nat p (by omega)
        have hpw := powerOfInt_nat p
        rw [hu64, hpw]
        obtain ⟨B2, S2, e2⟩ := ubp (((s.poaAssignBranch { v with tokens := p } ((p / PR : Nat) : Int)).bumpAbs
          (absDiff ((p / PR : Nat) : Int) (s.lastPower v.op))).updateValidatorSet (p : Int) ((p / PR : Nat) : Int) { v with tokens := p })
        rw [e2]
        unfold updateValidatorSet updateTotalPower
        dsimp only
        obtain ⟨B1, S1, e1⟩ := ubp ({ (({ ((s.poaAssignBranch { v with tokens := p } ((p / PR : Nat) : Int)).bumpAbs
            (absDiff ((p / PR : Nat) : Int) (s.lastPower v.op))) with
              dels := ainsert v.op ((p : Int) * E18) ((s.poaAssignBranch { v with tokens := p } ((p / PR : Nat) : Int)).bumpAbs
                (absDiff ((p / PR : Nat) : Int) (s.lastPower v.op))).dels } : App).setVal
              { v with tokens := toUInt64 (p : Int), shares := (p : Int) * E18, status := .bonded }).setLast v.op ((p / PR : Nat) : Int) with
            lastTotal := Int.tdiv (sumInts (((({ ((s.poaAssignBranch { v with tokens := p } ((p / PR : Nat) : Int)).bumpAbs
              (absDiff ((p / PR : Nat) : Int) (s.lastPower v.op))) with
              dels := ainsert v.op ((p : Int) * E18) ((s.poaAssignBranch { v with tokens := p } ((p / PR : Nat) : Int)).bumpAbs
                (absDiff ((p / PR : Nat) : Int) (s.lastPower v.op))).dels } : App).setVal
              { v with tokens := toUInt64 (p : Int), shares := (p : Int) * E18, status := .bonded }).setLast v.op ((p / PR : Nat) : Int)).vals.map (fun v => (v.tokens : Int)))) (PR : Int) })
        rw [e1]
        simp only [poaAssignBranch, bumpAbs, setLast, setVal, setIdx, hj, hu64, hvop, Bool.false_eq_true, ↓reduceIte, powerOf, reweigh]
        exact ⟨_, _, _, _, _, rfl⟩


/-! ### a successful SetPower that fires neither D1 nor D3 -/

theorem setPower_target (s0 s s' : App) (op p : Nat) (u : Bool) (hadm : s0.admitIfPending (some op) = s)
    (h : setPowerMsg genLimitFacts s0 .admin (some op) p u = .ok s') : ∃ v, s.getVal op = some v := by
  cases hv : s.getVal op with
  | some v => exact ⟨v, rfl⟩
  | none =>
    exfalso
    obtain ⟨hlo, hhi, _⟩ := Props.C14.c14_exact s0 s' op p u h
    have hf := Props.C14.facts_bounds
    have hlo' : ¬ p < 1000000 := by omega
    have hhi' : ¬ p > 9223372036854775807 := by omega
    simp only [setPowerMsg, isAdmin, validateSetPower, hf.1, hf.2, hlo', hhi'] at h
    simp only [beq_self_eq_true, Bool.not_true, Bool.false_eq_true, ↓reduceIte, Option.isNone_some,
      decide_false, Bool.and_false, setPowerCore] at h
    rw [hadm] at h
    simp [setPOAPower, hv] at h

theorem mem_insertVal_self (v : Val) : ∀ l : List Val, v ∈ insertVal v l
  | [] => by simp [insertVal]
  | x :: xs => by
    unfold insertVal
    split
    · simp
    · split
      · simp
      · simp [mem_insertVal_self v xs]

theorem mem_insertVal_of_ne (v x : Val) : ∀ l : List Val, x ∈ l → x.op ≠ v.op → x ∈ insertVal v l
  | [], h, _ => by cases h
  | y :: ys, h, hne => by
    unfold insertVal
    split
    · rename_i he
      rcases List.mem_cons.mp h with e | e
      · subst e; exact absurd he hne
      · simp [e]
    · split
      · simp only [List.mem_cons]; right; exact List.mem_cons.mp h
      · rcases List.mem_cons.mp h with e | e
        · simp [e]
        · simp [mem_insertVal_of_ne v x ys e hne]

theorem mem_sinsert (k : Nat) : ∀ (l : List Nat) (x : Nat), x ∈ sinsert k l ↔ x = k ∨ x ∈ l
  | [], x => by simp [sinsert]
  | y :: ys, x => by
    unfold sinsert
    split
    · rename_i he; subst he; simp only [List.mem_cons]; constructor
      · intro h; exact Or.inr h
      · rintro (h | h)
        · exact Or.inl h
        · exact h
    · split
      · simp [List.mem_cons]
      · simp only [List.mem_cons, mem_sinsert k ys x]
        constructor
        · rintro (h | h | h)
          · exact Or.inr (Or.inl h)
          · exact Or.inl h
          · exact Or.inr (Or.inr h)
        · rintro (h | h | h)
          · exact Or.inr (Or.inl h)
          · exact Or.inl h
          · exact Or.inr (Or.inr h)

theorem sorted_sinsert (k : Nat) : ∀ (l : List Nat), l.Pairwise (· < ·) → (sinsert k l).Pairwise (· < ·)
  | [], _ => by simp [sinsert]
  | y :: ys, h => by
    have ⟨h1, h2⟩ := List.pairwise_cons.mp h
    unfold sinsert
    split
    · exact h
    · split
      · rename_i hne hlt
        apply List.pairwise_cons.mpr
        refine ⟨?_, h⟩
        intro z hz
        rcases List.mem_cons.mp hz with e | e
        · rw [e]; exact hlt
        · have := h1 z e; omega
      · rename_i hne hnlt
        apply List.pairwise_cons.mpr
        refine ⟨?_, sorted_sinsert k ys h2⟩
        intro z hz
        rcases (mem_sinsert k ys z).mp hz with e | e
        · rw [e]; omega
        · exact h1 z e

theorem mem_idxInsert (e : Nat × Nat) (l : List (Nat × Nat)) (x : Nat × Nat) (he : e ∉ l) : x ∈ idxInsert e l ↔ x = e ∨ x ∈ l := by
  rw [(idxInsert_perm e l he).mem_iff]; simp

theorem occ_idxInsert (e : Nat × Nat) (l : List (Nat × Nat)) (op : Nat) (he : e ∉ l) :
    occ op (idxInsert e l) = (if e.2 = op then 1 else 0) + occ op l := by
  rw [occ_perm op (idxInsert_perm e l he), occ_cons]

/-- **a SetPower that succeeds, on a validator not yet re-weighted in this block (no D3), to a power at which it owns no
    index entry (no D1), preserves `M`** -/
theorem M_setPower_existing (s s' : App) (c : CSet) (op p : Nat) (u : Bool) (m : M s c)
    (h : setPowerMsg genLimitFacts s .admin (some op) p u = .ok s') (hf : s.pendingFind op = none)
    (hd3 : op ∉ s.updated) (hd1 : (p / PR, op) ∉ s.index) : M s' c := by
  have hadm : s.admitIfPending (some op) = s := by simp [admitIfPending, hf]
  obtain ⟨v, hv⟩ := setPower_target s s s' op p u hadm h
  have hvm := mem_of_getVal s op v hv
  have hvop := getVal_op _ _ _ hv
  have hlv := m.live v hvm
  obtain ⟨hlo, hhi, hne, D, LT, AB, B, S, hs'⟩ := setPower_shape s s s' op p u v hadm hv hlv.2.1 h
  have hvals : s'.vals = insertVal (reweigh v p) s.vals := by rw [hs']
  have hlastE : s'.last = ainsert op ((p / PR : Nat) : Int) (ainsert op ((p / PR : Nat) : Int) s.last) := by rw [hs']
  have hindex : s'.index = idxInsert (p / PR, op) s.index := by rw [hs']
  have hupd : s'.updated = sinsert op s.updated := by rw [hs']
  have hubq : s'.ubq = s.ubq := by rw [hs']
  have hpendE : s'.pending = s.pending := by rw [hs']
  have hconsE : s'.cons = s.cons := by rw [hs']
  have hinfosE : s'.infos = s.infos := by rw [hs']
  have hparamsE : s'.params = s.params := by rw [hs']
  have hwinE : s'.window = s.window ∧ s'.minSigned = s.minSigned := by rw [hs']; exact ⟨rfl, rfl⟩
  clear hs'
  have hget : ∀ o, s'.getVal o = (s.setVal (reweigh v p)).getVal o := fun o => getVal_congr _ _ (by rw [hvals]; rfl) o
  have hgself : (s.setVal (reweigh v p)).getVal op = some (reweigh v p) := by
    have := getVal_setVal_self s (reweigh v p); rw [show (reweigh v p).op = op from hvop] at this; exact this
  have hgne : ∀ o, o ≠ op → (s.setVal (reweigh v p)).getVal o = s.getVal o := fun o ho => getVal_setVal_ne s (reweigh v p) o (by rw [show (reweigh v p).op = op from hvop]; exact ho)
  have hcurw : cur (reweigh v p) = ((p / PR : Nat) : Int) := by simp [cur, reweigh, powerOf]
  have hposw : powerOf (reweigh v p).tokens > 0 := by
    simp only [reweigh, powerOf]; exact Nat.div_pos (by unfold PR; omega) (by decide)
  -- members of the new record list
  have hmemNew : ∀ x, x ∈ insertVal (reweigh v p) s.vals → x = reweigh v p ∨ (x ∈ s.vals ∧ x.op ≠ op) := by
    intro x hx
    rcases mem_insertVal (reweigh v p) s.vals x hx with e | e
    · exact Or.inl e
    · by_cases ho : x.op = op
      · left
        exact sorted_op_inj _ (sorted_insertVal (reweigh v p) s.vals m.sorted) x hx (reweigh v p) (mem_insertVal_self _ _) (by rw [ho]; exact hvop.symm)
      · exact Or.inr ⟨e, ho⟩
  have hmemOld : ∀ x ∈ s.vals, x.op ≠ op → x ∈ insertVal (reweigh v p) s.vals :=
    fun x hx ho => mem_insertVal_of_ne (reweigh v p) x s.vals hx (by rw [show (reweigh v p).op = op from hvop]; exact ho)
  exact {
    sorted := (by rw [hvals]; exact sorted_insertVal _ _ m.sorted)
    keys := (by
      intro v1 h1 v2 h2 hk
      rw [hvals] at h1 h2
      rcases hmemNew v1 h1 with e1 | ⟨o1, n1⟩ <;> rcases hmemNew v2 h2 with e2 | ⟨o2, n2⟩
      · rw [e1, e2]
      · exfalso
        have : v = v2 := m.keys v hvm v2 o2 (by rw [← hk, e1]; rfl)
        exact n2 (by rw [← this]; exact hvop)
      · exfalso
        have : v1 = v := m.keys v1 o1 v hvm (by rw [hk, e2]; rfl)
        exact n1 (by rw [this]; exact hvop)
      · exact m.keys v1 o1 v2 o2 hk)
    live := (by
      intro x hx
      rw [hvals] at hx
      rcases hmemNew x hx with e | ⟨o, _⟩
      · rw [e]
        refine ⟨rfl, hlv.2.1, hposw, ?_⟩
        simp only [reweigh]
        have : (0 : Int) < (p : Int) := by omega
        have hE : (0 : Int) < E18 := by decide
        exact Int.ne_of_gt (Int.mul_pos this hE)
      · exact m.live x o)
    nonempty := (by intro e; have := mem_insertVal_self (reweigh v p) s.vals; rw [← hvals, e] at this; cases this)
    ubq := (by rw [hubq]; exact m.ubq)
    pend := (by
      refine ⟨by rw [hpendE]; exact m.pend.ops, by rw [hpendE]; exact m.pend.keys, ?_⟩
      intro q hq
      rw [hpendE] at hq
      obtain ⟨f1, f2, f3⟩ := m.pend.fresh q hq
      have hqop : q.op ≠ op := by intro e; rw [e, hv] at f1; cases f1
      refine ⟨by rw [hget, hgne q.op hqop]; exact f1, ?_, f3⟩
      intro x hx
      rw [hvals] at hx
      rcases hmemNew x hx with e | ⟨o, _⟩
      · rw [e]; exact f2 v hvm
      · exact f2 x o)
    last := (by
      intro o x hx
      rw [hget] at hx
      by_cases ho : o = op
      · subst ho
        rw [hgself] at hx; injection hx with hx; subst hx
        rw [hcurw, hlastE]; exact alookup_ainsert_self _ _ _
      · rw [hgne o ho] at hx
        rw [hlastE, alookup_ainsert_ne _ _ _ _ ho, alookup_ainsert_ne _ _ _ _ ho]
        exact m.last o x hx)
    lastOnly := (by
      intro o q hq
      rw [hget]
      by_cases ho : o = op
      · subst ho; rw [hgself]; rfl
      · rw [hgne o ho]
        rw [hlastE, alookup_ainsert_ne _ _ _ _ ho, alookup_ainsert_ne _ _ _ _ ho] at hq
        exact m.lastOnly o q hq)
    lastSorted := (by rw [hlastE]; exact ksorted_ainsert _ _ _ (ksorted_ainsert _ _ _ m.lastSorted))
    cometCur := (by
      intro x hx hnu
      rw [hvals] at hx
      rw [hupd, mem_sinsert] at hnu
      have hnu' := hnu
      rcases hmemNew x hx with e | ⟨o, n⟩
      · exfalso; apply hnu'; left; rw [e]; exact hvop
      · exact m.cometCur x o (fun hh => hnu' (Or.inr hh)))
    cometKnown := (by
      intro k q hkq
      obtain ⟨x, hx, hxk⟩ := m.cometKnown k q hkq
      by_cases ho : x.op = op
      · have : x = v := sorted_op_inj _ m.sorted x hx v hvm (by rw [ho, hvop])
        exact ⟨reweigh v p, by rw [hvals]; exact mem_insertVal_self _ _, by rw [← hxk, this]; rfl⟩
      · exact ⟨x, by rw [hvals]; exact hmemOld x hx ho, hxk⟩)
    cSorted := m.cSorted
    cNonneg := m.cNonneg
    idxEx := (by
      intro e he
      rw [hindex, mem_idxInsert _ _ _ hd1] at he
      have he' := he
      rw [hget]
      rcases he' with e1 | e1
      · rw [e1]; show ((s.setVal (reweigh v p)).getVal op).isSome = true; rw [hgself]; rfl
      · by_cases ho : e.2 = op
        · rw [ho, hgself]; rfl
        · rw [hgne e.2 ho]; exact m.idxEx e e1)
    idxNodup := (by
      rw [hindex, (idxInsert_perm _ _ hd1).nodup_iff]
      exact List.nodup_cons.mpr ⟨hd1, m.idxNodup⟩)
    occ1 := (by
      intro x hx hnu
      rw [hvals] at hx
      rw [hupd, mem_sinsert] at hnu
      have hnu' := hnu
      rcases hmemNew x hx with e | ⟨o, n⟩
      · exfalso; apply hnu'; left; rw [e]; exact hvop
      · rw [hindex, occ_idxInsert _ _ _ hd1]
        have : ¬ op = x.op := fun e => n e.symm
        simp only [this, ↓reduceIte]
        rw [m.occ1 x o (fun hh => hnu' (Or.inr hh))])
    occ2 := (by
      intro x hx hu
      rw [hvals] at hx
      rw [hupd, mem_sinsert] at hu
      have hu' := hu
      rw [hindex, occ_idxInsert _ _ _ hd1]
      rcases hmemNew x hx with e | ⟨o, n⟩
      · have hxo : x.op = op := by rw [e]; exact hvop
        rw [hxo]
        simp only [↓reduceIte]
        have := m.occ1 v hvm (by rw [hvop]; exact hd3)
        rw [hvop] at this; omega
      · have : ¬ op = x.op := fun e => n e.symm
        simp only [this, ↓reduceIte]
        rcases hu' with hh | hh
        · exact absurd hh n
        · rw [m.occ2 x o hh])
    unbond := (by rw [hparamsE]; exact m.unbond)
    infos := (by
      intro x hx
      rw [hvals] at hx
      have hgi : ∀ k, s'.getInfo k = s.getInfo k := fun k => by simp [getInfo, hinfosE]
      rcases hmemNew x hx with e | ⟨o, _⟩
      · rw [e, hgi]; exact m.infos v hvm
      · rw [hgi]; exact m.infos x o)
    cons := (by
      intro x hx
      rw [hvals] at hx
      unfold valByKey
      rw [hconsE]
      rcases hmemNew x hx with e | ⟨o, n⟩
      · have hc := m.cons v hvm
        unfold valByKey at hc
        rw [e]
        have hkey : (reweigh v p).key = v.key := rfl
        rw [hkey]
        cases hk : alookup v.key s.cons with
        | none => rw [hk] at hc; cases hc
        | some o1 =>
          rw [hk] at hc
          simp only at hc ⊢
          have : o1 = op := by rw [← getVal_op _ _ _ hc, hvop]
          rw [this, hget, hgself]
      · have hc := m.cons x o
        unfold valByKey at hc
        cases hk : alookup x.key s.cons with
        | none => rw [hk] at hc; cases hc
        | some o1 =>
          rw [hk] at hc
          simp only at hc ⊢
          have : o1 = x.op := by rw [← getVal_op _ _ _ hc]
          rw [this, hget, hgne x.op n]
          rw [this] at hc; exact hc)
    updSorted := (by rw [hupd]; exact sorted_sinsert op s.updated m.updSorted)
    updCur := (by
      intro o ho
      rw [hupd, mem_sinsert] at ho
      rcases ho with e | e
      · subst e
        refine ⟨reweigh v p, by rw [hget]; exact hgself, ?_⟩
        rw [hindex]
        have : powerOf (reweigh v p).tokens = p / PR := rfl
        rw [this]; exact mem_idxInsert_self _ _
      · have hne2 : o ≠ op := by intro e2; subst e2; exact hd3 e
        obtain ⟨x, hx, hxm⟩ := m.updCur o e
        refine ⟨x, by rw [hget, hgne o hne2]; exact hx, ?_⟩
        rw [hindex, mem_idxInsert _ _ _ hd1]; exact Or.inr hxm) }

/-! ### admission of a pending applicant by SetPower -/

theorem insertVal_twice (v w : Val) (h : w.op = v.op) : ∀ l : List Val, insertVal w (insertVal v l) = insertVal w l
  | [] => by simp [insertVal, h]
  | x :: xs => by
    by_cases h1 : x.op = v.op
    · have h1' : x.op = w.op := by rw [h1, h]
      have ha : insertVal v (x :: xs) = v :: xs := by simp [insertVal, h1]
      have hb : insertVal w (x :: xs) = w :: xs := by simp [insertVal, h1']
      have hc : insertVal w (v :: xs) = w :: xs := by simp [insertVal, h]
      rw [ha, hb, hc]
    · have h1' : ¬ x.op = w.op := by rw [h]; exact h1
      by_cases h2 : v.op < x.op
      · have h2' : w.op < x.op := by rw [h]; exact h2
        have ha : insertVal v (x :: xs) = v :: x :: xs := by simp [insertVal, h1, h2]
        have hb : insertVal w (x :: xs) = w :: x :: xs := by simp [insertVal, h1', h2']
        have hc : insertVal w (v :: x :: xs) = w :: x :: xs := by simp [insertVal, h]
        rw [ha, hb, hc]
      · have h2' : ¬ w.op < x.op := by rw [h]; exact h2
        have ha : insertVal v (x :: xs) = x :: insertVal v xs := by simp [insertVal, h1, h2]
        have hb : insertVal w (x :: xs) = x :: insertVal w xs := by simp [insertVal, h1', h2']
        have hc : insertVal w (x :: insertVal v xs) = x :: insertVal w (insertVal v xs) := by simp [insertVal, h1', h2']
        rw [ha, hb, hc, insertVal_twice v w h xs]

theorem mem_removeFirst (op : Nat) : ∀ (l : List Pending) (q : Pending), q ∈ removeFirst op l → q ∈ l
  | [], _, h => by cases h
  | p :: ps, q, h => by
    unfold removeFirst at h
    split at h
    · simp [h]
    · rcases List.mem_cons.mp h with e | e
      · simp [e]
      · simp [mem_removeFirst op ps q e]

theorem removeFirst_sublist (op : Nat) : ∀ (l : List Pending), (removeFirst op l).Sublist l
  | [] => List.Sublist.slnil
  | p :: ps => by
    unfold removeFirst
    split
    · exact List.sublist_cons_self _ _
    · exact (removeFirst_sublist op ps).cons₂ _

theorem removeFirst_op (op : Nat) : ∀ (l : List Pending), (l.map (·.op)).Nodup → ∀ q ∈ removeFirst op l, q.op ≠ op
  | [], _, q, h => by cases h
  | p :: ps, hn, q, h => by
    have hn' : (p.op :: ps.map (·.op)).Nodup := by simpa using hn
    have ⟨h1, h2⟩ := List.nodup_cons.mp hn'
    unfold removeFirst at h
    split at h
    · rename_i he
      intro e
      apply h1
      rw [he, ← e]
      exact List.mem_map.mpr ⟨q, h, rfl⟩
    · rename_i hne
      rcases List.mem_cons.mp h with e | e
      · rw [e]; exact hne
      · exact removeFirst_op op ps h2 q e

theorem pending_key_inj : ∀ (l : List Pending), (l.map (·.key)).Nodup → ∀ x ∈ l, ∀ y ∈ l, x.key = y.key → x = y
  | [], _, x, hx, _, _, _ => by cases hx
  | a :: l, hn, x, hx, y, hy, hxy => by
    have hn' : (a.key :: l.map (·.key)).Nodup := by simpa using hn
    have ⟨h1, h2⟩ := List.nodup_cons.mp hn'
    rcases List.mem_cons.mp hx with ex | ex <;> rcases List.mem_cons.mp hy with ey | ey
    · rw [ex, ey]
    · subst ex; exact absurd (List.mem_map.mpr ⟨y, ey, hxy.symm⟩) h1
    · subst ey; exact absurd (List.mem_map.mpr ⟨x, ex, hxy⟩) h1
    · exact pending_key_inj l h2 x ex y ey hxy

/-- the record `AcceptNewValidator` creates -/
def newborn (p : Pending) : Val :=
  { op := p.op, key := p.key, jailed := false, status := .unbonded, tokens := p.tokens, shares := 0, ubTime := tEpoch, ubHeight := 0, minSelf := p.minSelf }

theorem acceptNew_fields (s : App) (p : Pending) :
    (s.acceptNew p).vals = insertVal (newborn p) s.vals ∧ (s.acceptNew p).cons = ainsert p.key p.op s.cons ∧
    (s.acceptNew p).index = idxInsert (powerOf p.tokens, p.op) s.index ∧ (s.acceptNew p).pending = removeFirst p.op s.pending ∧
    (s.acceptNew p).infos = ainsert p.key { start := s.height, idx := 0, missed := 0, jailedUntil := s.time, tomb := false } s.infos ∧
    (s.acceptNew p).last = s.last ∧ (s.acceptNew p).updated = s.updated ∧ (s.acceptNew p).ubq = s.ubq ∧
    (s.acceptNew p).params = s.params ∧ (s.acceptNew p).window = s.window ∧ (s.acceptNew p).minSigned = s.minSigned := by
  unfold acceptNew updateBondedPool
  dsimp only
  split <;> simp [setVal, setNewIdx, removePending, setInfo, newborn]

theorem occ_zero_of_no_entry (op : Nat) : ∀ (l : List (Nat × Nat)), (∀ e ∈ l, e.2 ≠ op) → occ op l = 0
  | [], _ => rfl
  | x :: xs, h => by
    rw [occ_cons, occ_zero_of_no_entry op xs (fun e he => h e (by simp [he]))]
    have := h x (by simp)
    simp [this]

/-- **admission**: a successful SetPower whose target is a pending applicant preserves `M` — no side condition: the
    applicant's operator and key are new, so neither D1 nor D3 can fire -/
theorem M_setPower_admit (s s' : App) (c : CSet) (op P : Nat) (u : Bool) (m : M s c) (p : Pending)
    (h : setPowerMsg genLimitFacts s .admin (some op) P u = .ok s') (hf : s.pendingFind op = some p) : M s' c := by
  have hpm : p ∈ s.pending := List.mem_of_find?_eq_some hf
  have hpop : p.op = op := by have := List.find?_some hf; simpa using this
  obtain ⟨fr1, fr2, fr3⟩ := m.pend.fresh p hpm
  have hadm : s.admitIfPending (some op) = s.acceptNew p := by simp [admitIfPending, hf]
  obtain ⟨a1, a2, a3, a4, a5, a6, a7, a8, a9, a10, a11⟩ := acceptNew_fields s p
  have hgA : (s.acceptNew p).getVal op = some (newborn p) := by
    rw [getVal_congr _ (s.setVal (newborn p)) (by rw [a1]; rfl)]
    have := getVal_setVal_self s (newborn p)
    rw [show (newborn p).op = op from hpop] at this; exact this
  obtain ⟨hlo, hhi, _, D, LT, AB, B, S, hs'⟩ := setPower_shape s (s.acceptNew p) s' op P u (newborn p) hadm hgA rfl h
  -- the new record and the fields of the new state
  have hwop : (reweigh (newborn p) P).op = op := hpop
  have hvals : s'.vals = insertVal (reweigh (newborn p) P) s.vals := by
    rw [hs']; simp only []; rw [a1]; exact insertVal_twice (newborn p) (reweigh (newborn p) P) rfl s.vals
  have hlastE : s'.last = ainsert op ((P / PR : Nat) : Int) (ainsert op ((P / PR : Nat) : Int) s.last) := by rw [hs']; simp only []; rw [a6]
  have hindex : s'.index = idxInsert (P / PR, op) (idxInsert (0, op) s.index) := by
    rw [hs']; simp only []; rw [a3, fr3, hpop]; rfl
  have hupd : s'.updated = sinsert op s.updated := by rw [hs']; simp only []; rw [a7]
  have hubq : s'.ubq = s.ubq := by rw [hs']; simp only []; rw [a8]
  have hpendE : s'.pending = removeFirst op s.pending := by rw [hs']; simp only []; rw [a4, hpop]
  have hconsE : s'.cons = ainsert p.key op s.cons := by rw [hs']; simp only []; rw [a2, hpop]
  have hinfosE : s'.infos = ainsert p.key { start := s.height, idx := 0, missed := 0, jailedUntil := s.time, tomb := false } s.infos := by rw [hs']; simp only []; rw [a5]
  have hparamsE : s'.params = s.params := by rw [hs']; simp only []; rw [a9]
  have hwinE : s'.window = s.window ∧ s'.minSigned = s.minSigned := by rw [hs']; simp only []; exact ⟨a10, a11⟩
  clear hs'
  have hget : ∀ o, s'.getVal o = (s.setVal (reweigh (newborn p) P)).getVal o := fun o => getVal_congr _ _ (by rw [hvals]; rfl) o
  have hgself : (s.setVal (reweigh (newborn p) P)).getVal op = some (reweigh (newborn p) P) := by
    have := getVal_setVal_self s (reweigh (newborn p) P); rw [hwop] at this; exact this
  have hgne : ∀ o, o ≠ op → (s.setVal (reweigh (newborn p) P)).getVal o = s.getVal o :=
    fun o ho => getVal_setVal_ne s (reweigh (newborn p) P) o (by rw [hwop]; exact ho)
  have hfreshOp : ∀ x ∈ s.vals, x.op ≠ op := by
    intro x hx e
    have := mem_vals_getVal s m.sorted x hx
    rw [e, ← hpop, fr1] at this; cases this
  have hnoEntry : ∀ e ∈ s.index, e.2 ≠ op := by
    intro e he eo
    have := m.idxEx e he
    rw [eo, ← hpop, fr1] at this; cases this
  have hcurw : cur (reweigh (newborn p) P) = ((P / PR : Nat) : Int) := by simp [cur, reweigh, powerOf]
  have hpos : P / PR > 0 := Nat.div_pos (by unfold PR; omega) (by decide)
  have hposw : powerOf (reweigh (newborn p) P).tokens > 0 := by simp only [reweigh, powerOf]; exact hpos
  have h0 : (0, op) ∉ s.index := fun hm => hnoEntry _ hm rfl
  have h1 : (P / PR, op) ∉ idxInsert (0, op) s.index := by
    intro hm
    rw [mem_idxInsert _ _ _ h0] at hm
    rcases hm with e | e
    · injection e with e1 _; omega
    · exact hnoEntry _ e rfl
  have hmemNew : ∀ x, x ∈ insertVal (reweigh (newborn p) P) s.vals → x = reweigh (newborn p) P ∨ (x ∈ s.vals ∧ x.op ≠ op) := by
    intro x hx
    rcases mem_insertVal _ s.vals x hx with e | e
    · exact Or.inl e
    · exact Or.inr ⟨e, hfreshOp x e⟩
  have hmemOld : ∀ x ∈ s.vals, x ∈ insertVal (reweigh (newborn p) P) s.vals :=
    fun x hx => mem_insertVal_of_ne _ x s.vals hx (by rw [hwop]; exact hfreshOp x hx)
  have hwkey : (reweigh (newborn p) P).key = p.key := rfl
  exact {
    sorted := (by rw [hvals]; exact sorted_insertVal _ _ m.sorted)
    keys := (by
      intro v1 h1' v2 h2' hk
      rw [hvals] at h1' h2'
      rcases hmemNew v1 h1' with e1 | ⟨o1, _⟩ <;> rcases hmemNew v2 h2' with e2 | ⟨o2, _⟩
      · rw [e1, e2]
      · exfalso; exact fr2 v2 o2 (by rw [← hk, e1]; rfl)
      · exfalso; exact fr2 v1 o1 (by rw [hk, e2]; rfl)
      · exact m.keys v1 o1 v2 o2 hk)
    live := (by
      intro x hx
      rw [hvals] at hx
      rcases hmemNew x hx with e | ⟨o, _⟩
      · rw [e]
        refine ⟨rfl, rfl, hposw, ?_⟩
        simp only [reweigh]
        have : (0 : Int) < (P : Int) := by omega
        exact Int.ne_of_gt (Int.mul_pos this (by decide))
      · exact m.live x o)
    nonempty := (by intro e; have := mem_insertVal_self (reweigh (newborn p) P) s.vals; rw [← hvals, e] at this; cases this)
    ubq := (by rw [hubq]; exact m.ubq)
    pend := (by
      refine ⟨?_, ?_, ?_⟩
      · rw [hpendE]; exact m.pend.ops.sublist ((removeFirst_sublist op s.pending).map _)
      · rw [hpendE]; exact m.pend.keys.sublist ((removeFirst_sublist op s.pending).map _)
      · intro q hq
        rw [hpendE] at hq
        have hqm := mem_removeFirst op s.pending q hq
        have hqop := removeFirst_op op s.pending m.pend.ops q hq
        obtain ⟨f1, f2, f3⟩ := m.pend.fresh q hqm
        refine ⟨by rw [hget, hgne q.op hqop]; exact f1, ?_, f3⟩
        intro x hx
        rw [hvals] at hx
        rcases hmemNew x hx with e | ⟨o, _⟩
        · rw [e, hwkey]
          intro ek
          -- two pending applications with the same key are the same application
          have : p = q := pending_key_inj s.pending m.pend.keys p hpm q hqm ek
          exact hqop (by rw [← this]; exact hpop)
        · exact f2 x o)
    last := (by
      intro o x hx
      rw [hget] at hx
      by_cases ho : o = op
      · subst ho
        rw [hgself] at hx; injection hx with hx; subst hx
        rw [hcurw, hlastE]; exact alookup_ainsert_self _ _ _
      · rw [hgne o ho] at hx
        rw [hlastE, alookup_ainsert_ne _ _ _ _ ho, alookup_ainsert_ne _ _ _ _ ho]
        exact m.last o x hx)
    lastOnly := (by
      intro o q hq
      rw [hget]
      by_cases ho : o = op
      · subst ho; rw [hgself]; rfl
      · rw [hgne o ho]
        rw [hlastE, alookup_ainsert_ne _ _ _ _ ho, alookup_ainsert_ne _ _ _ _ ho] at hq
        exact m.lastOnly o q hq)
    lastSorted := (by rw [hlastE]; exact ksorted_ainsert _ _ _ (ksorted_ainsert _ _ _ m.lastSorted))
    cometCur := (by
      intro x hx hnu
      rw [hvals] at hx
      rw [hupd, mem_sinsert] at hnu
      rcases hmemNew x hx with e | ⟨o, n⟩
      · exfalso; apply hnu; left; rw [e]; exact hwop
      · exact m.cometCur x o (fun hh => hnu (Or.inr hh)))
    cometKnown := (by
      intro k q hkq
      obtain ⟨x, hx, hxk⟩ := m.cometKnown k q hkq
      exact ⟨x, by rw [hvals]; exact hmemOld x hx, hxk⟩)
    cSorted := m.cSorted
    cNonneg := m.cNonneg
    idxEx := (by
      intro e he
      rw [hindex, mem_idxInsert _ _ _ h1, mem_idxInsert _ _ _ h0] at he
      rw [hget]
      rcases he with e1 | e1 | e1
      · rw [e1]; show ((s.setVal (reweigh (newborn p) P)).getVal op).isSome = true; rw [hgself]; rfl
      · rw [e1]; show ((s.setVal (reweigh (newborn p) P)).getVal op).isSome = true; rw [hgself]; rfl
      · rw [hgne e.2 (hnoEntry e e1)]; exact m.idxEx e e1)
    idxNodup := (by
      rw [hindex, (idxInsert_perm _ _ h1).nodup_iff]
      refine List.nodup_cons.mpr ⟨h1, ?_⟩
      rw [(idxInsert_perm _ _ h0).nodup_iff]
      exact List.nodup_cons.mpr ⟨h0, m.idxNodup⟩)
    occ1 := (by
      intro x hx hnu
      rw [hvals] at hx
      rw [hupd, mem_sinsert] at hnu
      rcases hmemNew x hx with e | ⟨o, n⟩
      · exfalso; apply hnu; left; rw [e]; exact hwop
      · rw [hindex, occ_idxInsert _ _ _ h1, occ_idxInsert _ _ _ h0]
        have : ¬ op = x.op := fun e => n e.symm
        simp only [this, ↓reduceIte]
        rw [m.occ1 x o (fun hh => hnu (Or.inr hh))])
    occ2 := (by
      intro x hx hu
      rw [hvals] at hx
      rw [hupd, mem_sinsert] at hu
      rw [hindex, occ_idxInsert _ _ _ h1, occ_idxInsert _ _ _ h0]
      rcases hmemNew x hx with e | ⟨o, n⟩
      · have hxo : x.op = op := by rw [e]; exact hwop
        rw [hxo]
        simp only [↓reduceIte]
        rw [occ_zero_of_no_entry op s.index hnoEntry]
      · have : ¬ op = x.op := fun e => n e.symm
        simp only [this, ↓reduceIte]
        rcases hu with hh | hh
        · exact absurd hh n
        · rw [m.occ2 x o hh])
    unbond := (by rw [hparamsE]; exact m.unbond)
    infos := (by
      intro x hx
      rw [hvals] at hx
      simp only [getInfo, hinfosE]
      rcases hmemNew x hx with e | ⟨o, _⟩
      · rw [e, hwkey, alookup_ainsert_self]; rfl
      · rw [alookup_ainsert_ne _ _ _ _ (fr2 x o)]
        exact m.infos x o)
    cons := (by
      intro x hx
      rw [hvals] at hx
      unfold valByKey
      rw [hconsE]
      rcases hmemNew x hx with e | ⟨o, n⟩
      · rw [e, hwkey, alookup_ainsert_self]
        simp only
        rw [hget, hgself]
      · rw [alookup_ainsert_ne _ _ _ _ (fr2 x o)]
        have hc := m.cons x o
        unfold valByKey at hc
        cases hk : alookup x.key s.cons with
        | none => rw [hk] at hc; cases hc
        | some o1 =>
          rw [hk] at hc
          simp only at hc ⊢
          have : o1 = x.op := by rw [← getVal_op _ _ _ hc]
          rw [this, hget, hgne x.op n]
          rw [this] at hc; exact hc)
    updSorted := (by rw [hupd]; exact sorted_sinsert op s.updated m.updSorted)
    updCur := (by
      intro o ho
      rw [hupd, mem_sinsert] at ho
      rcases ho with e | e
      · subst e
        refine ⟨reweigh (newborn p) P, by rw [hget]; exact hgself, ?_⟩
        rw [hindex]
        have : powerOf (reweigh (newborn p) P).tokens = P / PR := rfl
        rw [this]; exact mem_idxInsert_self _ _
      · obtain ⟨x, hx, hxm⟩ := m.updCur o e
        have hne2 : o ≠ op := by
          intro e2
          rw [e2, ← hpop, fr1] at hx; cases hx
        refine ⟨x, by rw [hget, hgne o hne2]; exact hx, ?_⟩
        rw [hindex, mem_idxInsert _ _ _ h1, mem_idxInsert _ _ _ h0]; exact Or.inr (Or.inr hxm)) }

/-- **SetPower preserves `M`**: on an existing validator when it fires neither D3 nor D1; on a pending applicant always -/
theorem M_setPower (s s' : App) (c : CSet) (op p : Nat) (u : Bool) (m : M s c)
    (h : setPowerMsg genLimitFacts s .admin (some op) p u = .ok s')
    (hq : s.pendingFind op = none → op ∉ s.updated ∧ (p / PR, op) ∉ s.index) : M s' c := by
  cases hf : s.pendingFind op with
  | none => exact M_setPower_existing s s' c op p u m h hf (hq hf).1 (hq hf).2
  | some q => exact M_setPower_admit s s' c op p u m q h hf

/-! ### applications: CreateValidator and RemovePending touch the pending list only -/

theorem pendingClash_none' (op key : Nat) : ∀ (l : List Pending), pendingClash op key l = none → ∀ q ∈ l, q.op ≠ op ∧ q.key ≠ key
  | [], _, q, hq => by cases hq
  | a :: l, h, q, hq => by
    unfold pendingClash at h
    split at h
    · cases h
    · split at h
      · cases h
      · rename_i h1 h2
        rcases List.mem_cons.mp hq with e | e
        · rw [e]; exact ⟨h1, h2⟩
        · exact pendingClash_none' op key l h q e

theorem ubp_eq (x s' : App) (h : x.updateBondedPool = s') : ∃ B S, s' = { x with bonded := B, supply := S } := by
  obtain ⟨B, S, e⟩ := ubp x
  exact ⟨B, S, by rw [← h, e]⟩

/-- `M` when only the pending list (and the pools, which `M` does not mention) changes -/
theorem M_pending (s s' : App) (c : CSet) (m : M s c) (P : List Pending) (B S : Int)
    (hs : s' = { s with pending := P, bonded := B, supply := S })
    (hp : (P.map (·.op)).Nodup ∧ (P.map (·.key)).Nodup ∧ ∀ q ∈ P, s.getVal q.op = none ∧ (∀ v ∈ s.vals, v.key ≠ q.key) ∧ q.tokens = 0) :
    M s' c := by
  subst hs
  exact {
    sorted := m.sorted, keys := m.keys, live := m.live, nonempty := m.nonempty, ubq := m.ubq
    pend := ⟨hp.1, hp.2.1, hp.2.2⟩
    last := m.last, lastOnly := m.lastOnly, lastSorted := m.lastSorted, cometCur := m.cometCur
    cometKnown := m.cometKnown, cSorted := m.cSorted, cNonneg := m.cNonneg, idxEx := m.idxEx, idxNodup := m.idxNodup
    occ1 := m.occ1, occ2 := m.occ2, unbond := m.unbond, infos := m.infos, cons := m.cons
    updSorted := m.updSorted, updCur := m.updCur }

/-- **a successful CreateValidator preserves `M`**: the application joins the pending list; its operator and key are
    new (the handler checked the validators and the pending list) -/
theorem M_create (s s' : App) (c : CSet) (sg : Signer) (a : CreateArgs) (m : M s c) (h : s.createMsg sg a = .ok s') : M s' c := by
  unfold createMsg at h
  split at h
  · cases h
  · split at h
    · cases h
    · split at h
      · cases h
      · split at h
        · cases h
        · rename_i hown
          split at h
          · cases h
          · rename_i key hkey
            split at h
            · cases h
            · rename_i hpk
              split at h
              · cases h
              · rename_i hclash
                split at h
                · cases h
                · split at h
                  · cases h
                  · injection h with h
                    obtain ⟨B, S, e⟩ := ubp_eq _ _ h
                    have hnone : s.getVal a.op = none := by
                      cases hg : s.getVal a.op with
                      | none => rfl
                      | some v => simp [hg] at hown
                    have hkeyfree : ∀ v ∈ s.vals, v.key ≠ key := by
                      intro v hv ek
                      have := m.cons v hv
                      rw [ek] at this
                      simp [this] at hpk
                    have hcl := pendingClash_none' a.op key s.pending hclash
                    apply M_pending s s' c m _ B S e
                    refine ⟨?_, ?_, ?_⟩
                    · rw [List.map_append, List.nodup_append]
                      refine ⟨m.pend.ops, by simp, ?_⟩
                      intro x hx y hy
                      simp at hy; subst hy
                      obtain ⟨q, hq, hqo⟩ := List.mem_map.mp hx
                      intro e2; exact (hcl q hq).1 (by rw [hqo, e2])
                    · rw [List.map_append, List.nodup_append]
                      refine ⟨m.pend.keys, by simp, ?_⟩
                      intro x hx y hy
                      simp at hy; subst hy
                      obtain ⟨q, hq, hqo⟩ := List.mem_map.mp hx
                      intro e2; exact (hcl q hq).2 (by rw [hqo, e2])
                    · intro q hq
                      rcases List.mem_append.mp hq with hq | hq
                      · exact m.pend.fresh q hq
                      · simp only [List.mem_singleton] at hq
                        subst hq
                        exact ⟨hnone, hkeyfree, rfl⟩

/-- **a successful RemovePending preserves `M`** -/
theorem M_rmPending (s s' : App) (c : CSet) (sg : Signer) (t : Option Nat) (m : M s c) (h : s.rmPendingMsg sg t = .ok s') : M s' c := by
  unfold rmPendingMsg at h
  split at h
  · cases h
  · split at h
    · injection h with h
      exact M_pending s s' c m s.pending s.bonded s.supply h.symm ⟨m.pend.ops, m.pend.keys, m.pend.fresh⟩
    · rename_i op
      injection h with h
      apply M_pending s s' c m (removeFirst op s.pending) s.bonded s.supply (by rw [← h]; rfl)
      exact ⟨m.pend.ops.sublist ((removeFirst_sublist op s.pending).map _), m.pend.keys.sublist ((removeFirst_sublist op s.pending).map _),
        fun q hq => m.pend.fresh q (mem_removeFirst op s.pending q hq)⟩

/-- **a successful UpdateStakingParams preserves `M`**: only the parameters change, and a valid parameter set has a
    positive unbonding time; whether the index still fits under the new `MaxValidators` is judged at the EndBlocker
    (`Fits.cap`) -/
theorem M_params (s s' : App) (c : CSet) (sg : Signer) (pa : ParamArgs) (m : M s c) (h : s.paramsMsg sg pa = .ok s') : M s' c := by
  unfold paramsMsg at h
  split at h
  · cases h
  · split at h
    · cases h
    · rename_i hv
      injection h with h
      subst h
      have hu : pa.unbond > 0 := by
        have hv' : paramsValid pa = true := by simpa using hv
        unfold paramsValid at hv'
        simp only [Bool.and_eq_true, decide_eq_true_eq] at hv'
        exact hv'.1.1.1.1.1.1
      exact {
        sorted := m.sorted, keys := m.keys, live := m.live, nonempty := m.nonempty, ubq := m.ubq
        pend := ⟨m.pend.ops, m.pend.keys, m.pend.fresh⟩
        last := m.last, lastOnly := m.lastOnly, lastSorted := m.lastSorted, cometCur := m.cometCur
        cometKnown := m.cometKnown, cSorted := m.cSorted, cNonneg := m.cNonneg, idxEx := m.idxEx, idxNodup := m.idxNodup
        occ1 := m.occ1, occ2 := m.occ2, unbond := hu, infos := m.infos, cons := m.cons
        updSorted := m.updSorted, updCur := m.updCur }

/-! ### transactions, blocks, histories of power adjustments -/

/-- a transaction of a power-adjustment history: either it leaves the state as it was (any rejected transaction — by
    the ante chain, the sequence check or a handler — and bank sends), or it is the admin's single SetPower of some
    validator which, **if it succeeds**, fires neither D3 (the validator was not re-weighted before in this block) nor
    D1 (it owns no index entry at the new power) -/
def QuietTx (s : App) (incs : List (Signer × Nat)) (tx : Tx) : Prop :=
  (runTx genEnv s incs tx).2.1 = s ∨
  (∃ op p u, tx.signer = .admin ∧ tx.msgs = [.setPower (some op) p u] ∧
    ((runTx genEnv s incs tx).1 = .ok → s.pendingFind op = none → op ∉ s.updated ∧ (p / PR, op) ∉ s.index)) ∨
  (∃ a, tx.msgs = [.create a]) ∨ (∃ t, tx.msgs = [.rmPending t]) ∨ (∃ pa, tx.msgs = [.params pa])

theorem runTx_M (s : App) (c : CSet) (incs : List (Signer × Nat)) (tx : Tx) (m : M s c) (q : QuietTx s incs tx) :
    M (runTx genEnv s incs tx).2.1 c := by
  rcases q with hsame | ⟨op, p, u, hsg, hmsgs, hq⟩ | ⟨a, hmsgs⟩ | ⟨tg, hmsgs⟩ | ⟨pa, hmsgs⟩
  · rw [hsame]; exact m
  rotate_left
  · -- CreateValidator
    unfold runTx
    split
    · exact m
    · cases ha : Ante.run genEnv.ante genEnv.limiter s.height tx.msgs with
      | some e => simp only; exact m
      | none =>
        simp only
        rw [hmsgs]
        simp only [handleList, handle]
        cases hr : s.createMsg tx.signer a with
        | error e => simp only [liftE]; exact m
        | ok s' => simp only [liftE]; exact M_create s s' c tx.signer a m hr
  · -- RemovePending
    unfold runTx
    split
    · exact m
    · cases ha : Ante.run genEnv.ante genEnv.limiter s.height tx.msgs with
      | some e => simp only; exact m
      | none =>
        simp only
        rw [hmsgs]
        simp only [handleList, handle]
        cases hr : s.rmPendingMsg tx.signer tg with
        | error e => simp only [liftE]; exact m
        | ok s' => simp only [liftE]; exact M_rmPending s s' c tx.signer tg m hr
  · -- UpdateStakingParams
    unfold runTx
    split
    · exact m
    · cases ha : Ante.run genEnv.ante genEnv.limiter s.height tx.msgs with
      | some e => simp only; exact m
      | none =>
        simp only
        rw [hmsgs]
        simp only [handleList, handle]
        cases hr : s.paramsMsg tx.signer pa with
        | error e => simp only [liftE]; exact m
        | ok s' => simp only [liftE]; exact M_params s s' c tx.signer pa m hr
  unfold runTx at hq ⊢
  split
  · exact m
  · rename_i hseq
    simp only [hseq, ↓reduceIte] at hq
    cases ha : Ante.run genEnv.ante genEnv.limiter s.height tx.msgs with
    | some e => simp only; exact m
    | none =>
      simp only [ha] at hq ⊢
      rw [hmsgs, hsg] at hq ⊢
      have hlim : genEnv.lim = genLimitFacts := rfl
      simp only [handleList, handle, hlim] at hq ⊢
      cases hr : setPowerMsg genLimitFacts s Signer.admin (some op) p u with
      | error e => simp only [liftE]; exact m
      | ok s' =>
        simp only [hr, liftE] at hq ⊢
        exact M_setPower s s' c op p u m hr (hq trivial)

def QuietTxs : List Tx → App → List (Signer × Nat) → Prop
  | [], _, _ => True
  | tx :: rest, s, incs => QuietTx s incs tx ∧ QuietTxs rest (runTx genEnv s incs tx).2.1 (runTx genEnv s incs tx).2.2

theorem runTxs_M (c : CSet) : ∀ (txs : List Tx) (s : App) (incs : List (Signer × Nat)) (acc : List TxR),
    M s c → QuietTxs txs s incs → M (runTxs genEnv txs s incs acc).2 c
  | [], s, _, _, m, _ => by simpa [runTxs] using m
  | tx :: rest, s, incs, acc, m, q => by
    unfold runTxs
    exact runTxs_M c rest _ _ _ (runTx_M s c incs tx m q.1) q.2

/-- `G` does not look at the signing infos beyond the missed-block counters, nor at the bitmap, height or time -/
theorem G_frame (s : App) (c : CSet) (g : G s c) (I : List (Nat × SignInfo)) (B : List (Nat × List Nat)) (h t : Int)
    (hI : ∀ v ∈ s.vals, (alookup v.key I).isSome = true) :
    G { s with infos := I, bitmap := B, height := h, time := t } c :=
  { toM := M_frame s c g.toM I B h t hI, allCur := g.allCur, totalOk := g.totalOk }

theorem beforeEnd_eq (env : Env) (s : App) (b : Block) (hg : b.gov = []) :
    beforeEnd env s b = (match beginState env s b with | .error h => .error h | .ok s2 => .ok (runTxs env b.txs s2 [] [])) := by
  unfold beforeEnd beginState
  dsimp only
  cases slashingBegin b.votes { s with height := s.height + 1, time := s.time + b.dt } with
  | error h => rfl
  | ok s1 =>
    simp only
    cases evidenceBegin b.evid s1 with
    | error h => rfl
    | ok s2 =>
      simp only
      cases poaBegin env.lim s2 with
      | error h => rfl
      | ok s3 => simp only [hg, runGov]

/-- a block of a power-adjustment history: x/slashing punishes nobody, no evidence, quiet transactions, and at the
    EndBlocker the index fits under `MaxValidators` (no D7) and the powers stay within CometBFT's maximum -/
structure QuietBlock (s : App) (c : CSet) (b : Block) : Prop where
  votes : VotesOk { s with height := s.height + 1, time := s.time + b.dt } b.votes
  noEvid : b.evid = []
  noGov : b.gov = []
  txs : ∀ s2, beginState genEnv s b = .ok s2 → QuietTxs b.txs s2 []
  fits : ∀ s2, beginState genEnv s b = .ok s2 → Fits (runTxs genEnv b.txs s2 [] []).2 c

/-- **one quiet block takes `G` to `G`**: it does not halt, CometBFT accepts its updates, the sets agree -/
theorem block_G (s : App) (c : CSet) (b : Block) (g : G s c) (q : QuietBlock s c b) :
    ∃ o s' c', block genEnv s b = .ok (o, s') ∧ Comet.applyChangeSet c o.updates = .ok c' ∧ Agree c' s' ∧ G s' c' := by
  -- BeginBlockers
  obtain ⟨I', B', hsl, hI'⟩ := q.votes
  have g1 : G { s with infos := I', bitmap := B', height := s.height + 1, time := s.time + b.dt } c :=
    G_frame s c g I' B' (s.height + 1) (s.time + b.dt) hI'
  obtain ⟨s2, hpb, g2, hupd, _, _, _⟩ := poaBegin_G genEnv.lim _ c g1
  have hbegin : beginState genEnv s b = .ok s2 := by
    unfold beginState
    have : slashingBegin b.votes { s with height := s.height + 1, time := s.time + b.dt } =
        .ok { s with infos := I', bitmap := B', height := s.height + 1, time := s.time + b.dt } := hsl
    rw [this]
    simp only [q.noEvid, evidenceBegin]
    exact hpb
  -- transactions
  have m3 := runTxs_M c b.txs s2 [] [] g2.toM (q.txs s2 hbegin)
  have f3 := q.fits s2 hbegin
  -- EndBlocker
  obtain ⟨ups, c', L, T, he, hc, hag, g4⟩ := endBlock_G _ c m3 f3
  refine ⟨⟨(runTxs genEnv b.txs s2 [] []).1, ups⟩, _, c', ?_, hc, hag, g4⟩
  unfold block
  rw [beforeEnd_eq _ _ _ q.noGov, hbegin]
  simp only [he]

/-- the blocks of a power-adjustment history, judged along the run -/
def QuietRun : List Block → App → CSet → Prop
  | [], _, _ => True
  | b :: bs, s, c => QuietBlock s c b ∧
      ∀ o s' c', block genEnv s b = .ok (o, s') → Comet.applyChangeSet c o.updates = .ok c' → QuietRun bs s' c'

/-- **every power-adjustment history, of any length**: it runs to its end, no block halts, CometBFT refuses no update
    list, and after every block CometBFT's set is the chain's own -/
theorem quiet_run (bs : List Block) : ∀ (s : App) (c : CSet), G s c → QuietRun bs s c →
    (runFrom genEnv s c bs).2 = .done ∧ (runFrom genEnv s c bs).1.length = bs.length ∧
    ∀ st ∈ (runFrom genEnv s c bs).1, Agree st.comet st.app ∧ G st.app st.comet := by
  induction bs with
  | nil => intro s c _ _; simp [runFrom]
  | cons b bs ih =>
    intro s c g q
    obtain ⟨o, s', c', hb, hc, hag, g'⟩ := block_G s c b g q.1
    have ih' := ih s' c' g' (q.2 o s' c' hb hc)
    unfold runFrom
    simp only [hb, hc]
    refine ⟨ih'.1, by simp [ih'.2.1], ?_⟩
    intro st hst
    rcases List.mem_cons.mp hst with e | e
    · rw [e]; exact ⟨hag, g'⟩
    · exact ih'.2.2 st e

/-- identities are unique across the validator records and the pending applications of a `G` state: no two of them
    share an operator address or a consensus key -/
theorem G_identities (s : App) (c : CSet) (g : G s c) :
    (∀ v1 ∈ s.vals, ∀ v2 ∈ s.vals, (v1.op = v2.op ∨ v1.key = v2.key) → v1 = v2) ∧
    (s.pending.map (·.op)).Nodup ∧ (s.pending.map (·.key)).Nodup ∧
    (∀ p ∈ s.pending, ∀ v ∈ s.vals, p.op ≠ v.op ∧ p.key ≠ v.key) := by
  refine ⟨?_, g.pend.ops, g.pend.keys, ?_⟩
  · intro v1 h1 v2 h2 h
    rcases h with h | h
    · exact sorted_op_inj s.vals g.sorted v1 h1 v2 h2 h
    · exact g.keys v1 h1 v2 h2 h
  · intro p hp v hv
    obtain ⟨f1, f2, _⟩ := g.pend.fresh p hp
    refine ⟨?_, fun e => f2 v hv e.symm⟩
    intro e
    have := mem_vals_getVal s g.sorted v hv
    rw [← e, f1] at this; cases this

/-! ### genesis: InitChain of every well-formed genesis ends in `G` -/

/-- the rest of what InitGenesis's fold maintains (beyond `GInv`) -/
structure GInv2 (g0 : Genesis) (s : App) (L : List GVal) : Prop where
  pending : s.pending = []
  updated : s.updated = []
  infos : ∀ g ∈ L, ∃ i, s.getInfo g.key = some i ∧ i.missed = 0
  cons : ∀ g ∈ L, alookup g.key s.cons = some g.op
  unbond : s.params.unbond = g0.unbond
  win : s.window = g0.window ∧ s.minSigned = g0.minSigned
  lastTotal : s.lastTotal = 0

theorem addGenesisVal_inv2 (g0 : Genesis) (s : App) (L : List GVal) (g : GVal) (h : GInv2 g0 s L) (hk : ∀ x ∈ L, x.key ≠ g.key) :
    GInv2 g0 (s.addGenesisVal g) (L ++ [g]) := by
  have hinfos : (s.addGenesisVal g).infos = ainsert g.key { start := 0, idx := 0, missed := 0, jailedUntil := tEpoch, tomb := false } s.infos := by
    simp [addGenesisVal, setInfo, setIdx, setVal]
  have hcons : (s.addGenesisVal g).cons = ainsert g.key g.op s.cons := by
    simp [addGenesisVal, setInfo, setIdx, setVal]
  exact {
    pending := (by simp [addGenesisVal, setInfo, setIdx, setVal, h.pending])
    updated := (by simp [addGenesisVal, setInfo, setIdx, setVal, h.updated])
    infos := (by
      intro x hx
      simp only [getInfo, hinfos]
      rcases List.mem_append.mp hx with hx | hx
      · obtain ⟨i, hi, hm⟩ := h.infos x hx
        exact ⟨i, by rw [alookup_ainsert_ne _ _ _ _ (hk x hx)]; exact hi, hm⟩
      · simp only [List.mem_singleton] at hx; subst hx
        exact ⟨_, alookup_ainsert_self _ _ _, rfl⟩)
    cons := (by
      intro x hx
      rw [hcons]
      rcases List.mem_append.mp hx with hx | hx
      · rw [alookup_ainsert_ne _ _ _ _ (hk x hx)]; exact h.cons x hx
      · simp only [List.mem_singleton] at hx; subst hx
        exact alookup_ainsert_self _ _ _)
    unbond := (by simp [addGenesisVal, setInfo, setIdx, setVal, h.unbond])
    win := (by simp [addGenesisVal, setInfo, setIdx, setVal, h.win])
    lastTotal := (by simp [addGenesisVal, setInfo, setIdx, setVal, h.lastTotal]) }

theorem foldl_inv2 (g0 : Genesis) : ∀ (rest L : List GVal) (s : App), GInv2 g0 s L → ((L ++ rest).map (·.key)).Nodup →
    GInv2 g0 (rest.foldl addGenesisVal s) (L ++ rest)
  | [], L, s, h, _ => by simpa using h
  | g :: rest, L, s, h, hn => by
    have hk : ∀ x ∈ L, x.key ≠ g.key := by
      intro x hx he
      simp only [List.map_append, List.map_cons] at hn
      exact (List.nodup_append.mp hn).2.2 x.key (List.mem_map.mpr ⟨x, hx, rfl⟩) g.key (by simp) he
    have := foldl_inv2 g0 rest (L ++ [g]) (s.addGenesisVal g) (addGenesisVal_inv2 g0 s L g h hk) (by simpa using hn)
    simpa using this

theorem genesis_inv2 (g : Genesis) (hn : (g.vals.map (·.key)).Nodup) : GInv2 g (genesisState g) g.vals := by
  have h0 : GInv2 g { emptyApp with
      params := { unbond := g.unbond, maxVals := g.maxVals, maxEntries := 7, hist := 10000, denom := 0, minComm := g.minComm },
      window := g.window, minSigned := g.minSigned, jailNs := g.jailNs, slashDown := g.slashDown } [] :=
    { pending := rfl, updated := rfl
      infos := (by intro x hx; cases hx)
      cons := (by intro x hx; cases hx)
      unbond := rfl, win := ⟨rfl, rfl⟩, lastTotal := rfl }
  have := foldl_inv2 g g.vals [] _ h0 (by simpa using hn)
  simp only [List.nil_append] at this
  exact this

/-- `ApplyAndReturnValidatorSetUpdates` when every record is bonded and visited: the general form of
    `stakingEndBlock_M`'s core, usable for the genesis state (where CometBFT's set is still empty) -/
theorem applyUpdates_allBonded (s : App) (c : CSet) (hp : PreAgree s c) (hx : PreAccept s c)
    (hb : ∀ v ∈ s.vals, v.status = .bonded) (hvis : ∀ v ∈ s.vals, visitedB s s.index v.op = true)
    (hlo : ∀ op p, alookup op s.last = some p → (s.getVal op).isSome = true) (hls : KSorted s.last)
    (hT : 0 ≤ s.lastTotal ∧ s.lastTotal ≤ maxTotalPower) :
    ∃ ups c' L T, s.applyUpdates = .ok (ups, { s with last := L, lastTotal := T }) ∧
      Comet.applyChangeSet c ups = .ok c' ∧ Agree c' { s with last := L, lastTotal := T } ∧
      0 ≤ T ∧ T ≤ maxTotalPower ∧ KSorted L ∧ (∀ op v, s.getVal op = some v → alookup op L = some (cur v)) := by
  obtain ⟨a, u, hl, hu, hF, hS⟩ := loops_total s c hp
  obtain ⟨⟨L, hL, hLs⟩, hn⟩ := applyLoop_bonded s s.params.maxVals s.index _ a
    (fun e _ v hv => hb v (mem_of_getVal s e.2 v hv)) ⟨s.last, rfl, hls⟩ rfl hl
  have hlast : a.last = [] := by
    apply List.eq_nil_iff_forall_not_mem.mpr
    intro x hx1
    obtain ⟨hnv, hne⟩ := (mem_remaining s c hp a hF x.1).mp (List.mem_map.mpr ⟨x, hx1, rfl⟩)
    cases hlq : alookup x.1 s.last with
    | none => exact hne hlq
    | some p =>
      have ex := hlo x.1 p hlq
      cases hv : s.getVal x.1 with
      | none => simp [hv] at ex
      | some v =>
        have := hvis v (mem_of_getVal s x.1 v hv)
        rw [getVal_op _ _ _ hv, hnv] at this; cases this
  have hmv : movePools a.app a.nb2b 0 = .ok a.app := by simp [movePools, hn]
  have hnn := idxPow_nonneg s s.index
  have hct : 0 ≤ Comet.total c := sumInts_nonneg _ (by
    intro x hxm
    obtain ⟨e, he1, hex⟩ := List.mem_map.mp hxm
    rw [← hex]; exact hx.cNonneg e he1)
  have htot := hx.total
  have hres : ∃ T, s.applyUpdates = .ok (a.updates, { s with last := L, lastTotal := T }) ∧ 0 ≤ T ∧ T ≤ maxTotalPower := by
    unfold applyUpdates
    rw [hl]
    simp only
    unfold finishUpdates
    rw [hlast]
    simp only [unbondLoop, hmv]
    split
    · exact ⟨s.lastTotal, by rw [hL], hT.1, hT.2⟩
    · exact ⟨a.total, by rw [hL], by rw [hF.tot]; exact hnn, by rw [hF.tot]; omega⟩
  obtain ⟨T, h1, hT0, hT1⟩ := hres
  obtain ⟨c', hc⟩ := applyUpdates_accepted s _ c a.updates hp hx h1
  refine ⟨a.updates, c', L, T, h1, hc, applyUpdates_agree s _ c c' a.updates hp h1 hc, hT0, hT1, hLs, ?_⟩
  intro op v hv
  obtain ⟨r1, _, _⟩ := applyUpdates_records s _ c a.updates hp h1
  obtain ⟨w, _, _, _, _, g5, _, _⟩ := r1 op v hv
  have := hvis v (mem_of_getVal s op v hv)
  rw [getVal_op _ _ _ hv] at this
  exact (g5 this).2

theorem gEntry_inj : ∀ (L : List GVal), (L.map (·.op)).Nodup → (L.map gEntry).Nodup
  | [], _ => by simp
  | g :: L, hn => by
    have hn' : (g.op :: L.map (·.op)).Nodup := by simpa using hn
    have ⟨h1, h2⟩ := List.nodup_cons.mp hn'
    simp only [List.map_cons, List.nodup_cons, List.mem_map, not_exists, not_and]
    refine ⟨?_, gEntry_inj L h2⟩
    intro x hx he
    apply h1
    have : x.op = g.op := by simp only [gEntry, Prod.mk.injEq] at he; exact he.2
    exact List.mem_map.mpr ⟨x, hx, this⟩

/-- **InitChain of every well-formed genesis ends in `G`** -/
theorem genesis_G (g : Genesis) (hw : g.wf = true) :
    ∃ u s c, App.initChain g = .ok (u, s) ∧ Comet.applyChangeSet [] u = .ok c ∧ Agree c s ∧ G s c := by
  have ok := genesisOk_of_wf g hw
  have inv := genesis_inv g ok.ops
  have inv2 := genesis_inv2 g ok.keys
  obtain ⟨hp, hx, _⟩ := genesis_pre g ok
  -- facts about the records
  have hmemRec : ∀ v ∈ (genesisState g).vals, ∃ x ∈ g.vals, v = mkVal x := by
    intro v hv
    have hg := mem_vals_getVal _ inv.sorted v hv
    exact inv.only v.op v hg
  have hb : ∀ v ∈ (genesisState g).vals, v.status = .bonded := by
    intro v hv; obtain ⟨x, _, e⟩ := hmemRec v hv; rw [e]; rfl
  have hocc : ∀ x ∈ g.vals, occ x.op (genesisState g).index = 1 := by
    intro x hx
    rw [occ_perm x.op inv.idx, occ_map_entry g.vals x.op ok.ops]
    simp [List.mem_map.mpr ⟨x, hx, rfl⟩]
  have hvis : ∀ v ∈ (genesisState g).vals, visitedB (genesisState g) (genesisState g).index v.op = true := by
    intro v hv
    obtain ⟨x, hx, e⟩ := hmemRec v hv
    have hg := mem_vals_getVal _ inv.sorted v hv
    have hc : cand v = true := by rw [e]; exact cand_mkVal x (ok.tokens x hx)
    have hvx : v.op = x.op := by rw [e]; rfl
    have hg' : (genesisState g).getVal x.op = some v := by rw [← hvx]; exact hg
    simp [visitedB, hvx, hg', hc, hocc x hx]
  obtain ⟨ups, c, L, T, h1, hc, hag, hT0, hT1, hLs, hlast⟩ := applyUpdates_allBonded (genesisState g) [] hp hx hb hvis
    (by intro op p hl; rw [inv.last] at hl; cases hl) (by rw [inv.last]; exact List.Pairwise.nil)
    (by rw [inv2.lastTotal]; unfold maxTotalPower; omega)
  have hnotneg : ¬ (({ genesisState g with last := L, lastTotal := T } : App).lastTotal < 0) := by simp only; omega
  refine ⟨ups, { ({ genesisState g with last := L, lastTotal := T } : App) with cached := T.toNat, absCh := 0 }, c, ?_, hc, ?_, ?_⟩
  · unfold initChain
    rw [h1]
    simp only [hnotneg, ↓reduceIte]
  · intro k p
    rw [hag k p]
    constructor
    · rintro ⟨v, a1, a2, a3, a4, a5⟩
      exact ⟨v, by rw [← a1]; exact getVal_congr _ _ rfl _, a2, a3, a4, a5⟩
    · rintro ⟨v, a1, a2, a3, a4, a5⟩
      exact ⟨v, by rw [← a1]; exact getVal_congr _ _ rfl _, a2, a3, a4, a5⟩
  · -- the fields of `G`
    have hgetE : ∀ op, ({ ({ genesisState g with last := L, lastTotal := T } : App) with cached := T.toNat, absCh := 0 } : App).getVal op = (genesisState g).getVal op :=
      fun op => getVal_congr _ _ rfl op
    have hallCur : ∀ v ∈ (genesisState g).vals, alookup v.key c = some (cur v) := by
      intro v hv
      have hg := mem_vals_getVal _ inv.sorted v hv
      obtain ⟨x, hx, e⟩ := hmemRec v hv
      apply (hag v.key (cur v)).mpr
      exact ⟨v, by rw [← hg]; exact getVal_congr _ _ rfl _, hb v hv, by rw [e]; rfl, rfl, by simp [lastPower, hlast v.op v hg]⟩
    have hc'eq := applyChangeSet_ok [] c ups hc
    have hcs : KSorted c := by rw [hc'eq]; exact ksorted_foldl ups [] List.Pairwise.nil
    have hwf := hw
    unfold Genesis.wf at hwf
    simp only [Bool.and_eq_true, decide_eq_true_eq] at hwf
    exact {
      sorted := inv.sorted
      keys := (by
        intro v1 h1' v2 h2' hk
        obtain ⟨x1, hx1, e1⟩ := hmemRec v1 h1'
        obtain ⟨x2, hx2, e2⟩ := hmemRec v2 h2'
        have : x1 = x2 := key_inj_of_nodup g.vals ok.keys x1 hx1 x2 hx2 (by rw [e1, e2] at hk; exact hk)
        rw [e1, e2, this])
      live := (by
        intro v hv
        obtain ⟨x, hx, e⟩ := hmemRec v hv
        rw [e]
        refine ⟨rfl, rfl, Nat.div_pos (ok.tokens x hx) (by decide), ?_⟩
        simp only [mkVal]
        have : (0 : Int) < (x.tokens : Int) := by have := ok.tokens x hx; unfold PR at this; omega
        exact Int.ne_of_gt (Int.mul_pos this (by decide)))
      nonempty := (by
        intro e
        cases hv : g.vals with
        | nil => exact ok.nonempty hv
        | cons x xs =>
          have := mem_of_getVal _ _ _ (inv.recs x (by rw [hv]; simp))
          rw [e] at this; cases this)
      ubq := inv.ubq
      pend := (by
        have hp0 : (genesisState g).pending = [] := inv2.pending
        exact ⟨by show ((genesisState g).pending.map (·.op)).Nodup; rw [hp0]; simp,
               by show ((genesisState g).pending.map (·.key)).Nodup; rw [hp0]; simp,
               by intro q hq; have : q ∈ (genesisState g).pending := hq; rw [hp0] at this; cases this⟩)
      last := (by intro op v hv; rw [hgetE] at hv; exact hlast op v hv)
      lastOnly := (by
        intro op p hl
        obtain ⟨v, hv, _⟩ := applyUpdates_post (genesisState g) _ ups h1 op p hl
        have hv' : (genesisState g).getVal op = some v := by rw [← hv]; exact (getVal_congr _ _ rfl _).symm
        rw [hgetE, hv']; rfl)
      lastSorted := hLs
      cometCur := (fun v hv _ => hallCur v hv)
      cometKnown := (by
        intro k p hkp
        obtain ⟨v, hv, _, _, hk, _⟩ := (hag k p).mp hkp
        exact ⟨v, mem_of_getVal (genesisState g) v.op v (by rw [← hv]; exact (getVal_congr _ _ rfl _).symm), hk⟩)
      cSorted := hcs
      cNonneg := (by
        intro e he1
        have hl := alookup_of_mem_nodup e.1 e.2 c (ksorted_nodup _ hcs) he1
        obtain ⟨v, hv, _, _, _, hp2⟩ := (hag e.1 e.2).mp hl
        have hv' : (genesisState g).getVal v.op = some v := by rw [← hv]; exact (getVal_congr _ _ rfl _).symm
        have := hlast v.op v hv'
        simp only [lastPower, this, Option.getD_some] at hp2
        rw [← hp2]; unfold cur; omega)
      idxEx := (by
        intro e he
        have he' : e ∈ (genesisState g).index := he
        obtain ⟨x, hx, hxe⟩ := List.mem_map.mp ((inv.idx.mem_iff).mp he')
        rw [hgetE, ← hxe]; simp [gEntry, inv.recs x hx])
      idxNodup := (by
        show (genesisState g).index.Nodup
        rw [inv.idx.nodup_iff]; exact gEntry_inj g.vals ok.ops)
      occ1 := (by
        intro v hv _
        obtain ⟨x, hx, e⟩ := hmemRec v hv
        have : v.op = x.op := by rw [e]; rfl
        show occ v.op (genesisState g).index = 1
        rw [this]; exact hocc x hx)
      occ2 := (by intro v _ hu; have : v.op ∈ (genesisState g).updated := hu; rw [inv2.updated] at this; cases this)
      unbond := (by show (genesisState g).params.unbond > 0; rw [inv2.unbond]; exact hwf.1.1.1.1.1.1.1.1.1.2)
      infos := (by
        intro v hv
        obtain ⟨x, hx, e⟩ := hmemRec v hv
        obtain ⟨i, hi, _⟩ := inv2.infos x hx
        show ((genesisState g).getInfo v.key).isSome = true
        rw [e]; show ((genesisState g).getInfo x.key).isSome = true
        rw [hi]; rfl)
      cons := (by
        intro v hv
        obtain ⟨x, hx, e⟩ := hmemRec v hv
        show (match alookup v.key (genesisState g).cons with | none => none | some o => _) = some v
        have hk : alookup v.key (genesisState g).cons = some x.op := by rw [e]; exact inv2.cons x hx
        rw [hk]
        simp only
        rw [hgetE, e]; exact inv.recs x hx)
      updSorted := (by show (genesisState g).updated.Pairwise (· < ·); rw [inv2.updated]; exact List.Pairwise.nil)
      updCur := (by intro op hop; have : op ∈ (genesisState g).updated := hop; rw [inv2.updated] at this; cases this)
      allCur := hallCur
      totalOk := ⟨hT0, hT1⟩ }

/-! ### the whole statement, and its decidable form -/

/-- a power-adjustment history from genesis `g` -/
def QuietHistory (g : Genesis) (bs : List Block) : Prop :=
  ∀ u s c, App.initChain g = .ok (u, s) → Comet.applyChangeSet [] u = .ok c → QuietRun bs s c

/-- **the envelope theorem for power adjustments**: every well-formed genesis, every number of blocks whose
    transactions are the admin's SetPowers of existing validators firing neither D1 nor D3, with the index within
    `MaxValidators` (no D7) and the powers within CometBFT's maximum, every validator voting: the run reaches its end,
    no block halts, CometBFT refuses nothing, and CometBFT's set equals the chain's own after InitChain and after
    every block -/
theorem quiet_history (g : Genesis) (hw : g.wf = true) (bs : List Block) (hq : QuietHistory g bs) :
    ∃ first steps, run genEnv g bs = some (first, steps, RunEnd.done) ∧ steps.length = bs.length ∧
      Agree first.comet first.app ∧ G first.app first.comet ∧ ∀ st ∈ steps, Agree st.comet st.app ∧ G st.app st.comet := by
  obtain ⟨u, s, c, hi, hc, hag, hg⟩ := genesis_G g hw
  obtain ⟨h1, h2, h3⟩ := quiet_run bs s c hg (hq u s c hi hc)
  refine ⟨⟨⟨[], u⟩, s, c⟩, (runFrom genEnv s c bs).1, ?_, h2, hag, hg, h3⟩
  unfold run
  rw [hi]
  simp only [hc]
  rw [← h1]

theorem fits_of_fitsB (s : App) (c : CSet) (h : fitsB s c = true) : Fits s c := by
  unfold fitsB at h
  simp only [Bool.and_eq_true, decide_eq_true_eq] at h
  exact ⟨h.1.1.1, h.1.1.2, h.1.2, h.2⟩

theorem quietTx_of_B (s : App) (incs : List (Signer × Nat)) (tx : Tx) (h : quietTxB s incs tx = true) : QuietTx s incs tx := by
  unfold quietTxB at h
  simp only [Bool.or_eq_true, decide_eq_true_eq] at h
  rcases h with h | h
  · exact Or.inl h
  right
  split at h
  · rename_i op p u hs hm
    left
    refine ⟨op, p, u, hs, hm, ?_⟩
    intro hok hnone
    simp only [hok, bne_self_eq_false, hnone, Option.isSome_none, Bool.false_or, Bool.and_eq_true, Bool.not_eq_true'] at h
    constructor
    · intro hm2; have := h.1; simp [hm2] at this
    · intro hm2; have := h.2; simp [hm2] at this
  · rename_i a hm
    right; left; exact ⟨a, hm⟩
  · rename_i tg hm
    right; right; left; exact ⟨tg, hm⟩
  · rename_i pa hm
    right; right; right; exact ⟨pa, hm⟩
  · cases h

theorem quietTxs_of_B : ∀ (txs : List Tx) (s : App) (incs : List (Signer × Nat)), quietTxsB txs s incs = true → QuietTxs txs s incs
  | [], _, _, _ => trivial
  | tx :: rest, s, incs, h => by
    simp only [quietTxsB, Bool.and_eq_true] at h
    exact ⟨quietTx_of_B s incs tx h.1, quietTxs_of_B rest _ _ h.2⟩

theorem quietBlock_of_B (s : App) (c : CSet) (b : Block) (h : quietBlockB s c b = true) : QuietBlock s c b := by
  unfold quietBlockB at h
  simp only [Bool.and_eq_true] at h
  obtain ⟨⟨⟨hv, he⟩, hgv⟩, hm⟩ := h
  refine ⟨?_, by simpa using he, by simpa using hgv, ?_, ?_⟩
  · cases hsl : slashingBegin b.votes { s with height := s.height + 1, time := s.time + b.dt } with
    | error e => rw [hsl] at hv; cases hv
    | ok s1 =>
      rw [hsl] at hv
      simp only [Bool.and_eq_true, decide_eq_true_eq] at hv
      refine ⟨s1.infos, s1.bitmap, ?_, ?_⟩
      · rw [hsl]; exact congrArg Except.ok hv.1
      · intro v hvm; exact List.all_eq_true.mp hv.2 v hvm
  · intro s2 hs2
    rw [hs2] at hm
    simp only [Bool.and_eq_true] at hm
    exact quietTxs_of_B _ _ _ hm.1
  · intro s2 hs2
    rw [hs2] at hm
    simp only [Bool.and_eq_true] at hm
    exact fits_of_fitsB _ _ hm.2

theorem quietRun_of_B : ∀ (bs : List Block) (s : App) (c : CSet), quietRunB bs s c = true → QuietRun bs s c
  | [], _, _, _ => trivial
  | b :: bs, s, c, h => by
    simp only [quietRunB, Bool.and_eq_true] at h
    refine ⟨quietBlock_of_B s c b h.1, ?_⟩
    intro o s' c' hb hc
    have := h.2
    rw [hb] at this
    simp only [hc] at this
    exact quietRun_of_B bs s' c' this

end App
end PoaVerif
