import PoaVerif.Model.Staking
/-
  The unbonding-validator queue as a list of slots: what `InsertUnbondingValidatorQueue` and `DeleteValidatorQueue`
  do to its entries, to the distinctness of the queued operators and to the order of the slot keys.
-/
namespace PoaVerif
namespace App

abbrev Ubq := List ((Int × Int) × List Nat)

/-- the queue as a flat list of (slot key, operator) entries -/
def qEntries (q : Ubq) : List ((Int × Int) × Nat) := q.flatMap (fun s => s.2.map (fun op => (s.1, op)))

def kLt (a b : Int × Int) : Prop := a.1 < b.1 ∨ (a.1 = b.1 ∧ a.2 < b.2)

instance (a b : Int × Int) : Decidable (kLt a b) := by unfold kLt; exact inferInstance

/-- slot keys strictly ascending (time, then height) -/
def qSorted (q : Ubq) : Prop := q.Pairwise (fun a b => kLt a.1 b.1)

theorem kLt_trans {a b c : Int × Int} (h1 : kLt a b) (h2 : kLt b c) : kLt a c := by
  unfold kLt at *; omega

theorem kLt_irrefl (a : Int × Int) : ¬ kLt a a := by unfold kLt; omega

theorem kLt_tri (a b : Int × Int) (h1 : ¬ a = b) (h2 : ¬ kLt b a) : kLt a b := by
  unfold kLt at *
  have : ¬ (a.1 = b.1 ∧ a.2 = b.2) := fun h => h1 (Prod.ext h.1 h.2)
  omega

@[simp] theorem qEntries_nil : qEntries [] = [] := rfl
@[simp] theorem qEntries_cons (s : (Int × Int) × List Nat) (q : Ubq) :
    qEntries (s :: q) = s.2.map (fun op => (s.1, op)) ++ qEntries q := by simp [qEntries]

/-! ### insertion -/

theorem entries_insert_perm (k : Int × Int) (op : Nat) : ∀ q : Ubq, (qEntries (ubqInsertSlot k op q)).Perm ((k, op) :: qEntries q)
  | [] => by simp [ubqInsertSlot]
  | (k', l) :: xs => by
    unfold ubqInsertSlot
    split
    · rename_i he
      subst he
      simp only [qEntries_cons, List.map_append, List.map_cons, List.map_nil, List.append_assoc, List.singleton_append]
      exact List.perm_middle
    · split
      · simp
      · simp only [qEntries_cons]
        exact (List.Perm.append_left _ (entries_insert_perm k op xs)).trans List.perm_middle

theorem mem_entries_insert (k : Int × Int) (op : Nat) (q : Ubq) (e : (Int × Int) × Nat) :
    e ∈ qEntries (ubqInsertSlot k op q) ↔ e = (k, op) ∨ e ∈ qEntries q := by
  rw [(entries_insert_perm k op q).mem_iff]; simp

theorem nodup_entries_insert (k : Int × Int) (op : Nat) (q : Ubq) (h : ((qEntries q).map (·.2)).Nodup)
    (hn : op ∉ (qEntries q).map (·.2)) : ((qEntries (ubqInsertSlot k op q)).map (·.2)).Nodup := by
  rw [((entries_insert_perm k op q).map _).nodup_iff]
  simp only [List.map_cons, List.nodup_cons]
  exact ⟨hn, h⟩

theorem mem_insert_slot (k : Int × Int) (op : Nat) : ∀ (q : Ubq) (s : (Int × Int) × List Nat),
    s ∈ ubqInsertSlot k op q → s.1 = k ∨ s ∈ q
  | [], s, h => by simp [ubqInsertSlot] at h; left; rw [h]
  | (k', l) :: xs, s, h => by
    unfold ubqInsertSlot at h
    split at h
    · rename_i he
      rcases List.mem_cons.mp h with e | e
      · left; rw [e]; exact he
      · right; simp [e]
    · split at h
      · rcases List.mem_cons.mp h with e | e
        · left; rw [e]
        · right; exact e
      · rcases List.mem_cons.mp h with e | e
        · right; simp [e]
        · rcases mem_insert_slot k op xs s e with e2 | e2
          · left; exact e2
          · right; simp [e2]

theorem sorted_insert (k : Int × Int) (op : Nat) : ∀ q : Ubq, qSorted q → qSorted (ubqInsertSlot k op q)
  | [], _ => by simp [ubqInsertSlot, qSorted]
  | (k', l) :: xs, h => by
    unfold qSorted at h ⊢
    have ⟨h1, h2⟩ := List.pairwise_cons.mp h
    unfold ubqInsertSlot
    split
    · exact List.pairwise_cons.mpr ⟨h1, h2⟩
    · rename_i hne
      split
      · rename_i hlt
        have hlt' : kLt k k' := by
          unfold kLt
          simp only [Bool.or_eq_true, decide_eq_true_eq, Bool.and_eq_true, beq_iff_eq] at hlt
          exact hlt
        apply List.pairwise_cons.mpr
        refine ⟨?_, h⟩
        intro s hs
        rcases List.mem_cons.mp hs with e | e
        · rw [e]; exact hlt'
        · exact kLt_trans hlt' (h1 s e)
      · rename_i hnlt
        have hnlt' : ¬ kLt k k' := by
          unfold kLt
          simp only [Bool.or_eq_true, decide_eq_true_eq, Bool.and_eq_true, beq_iff_eq] at hnlt
          exact hnlt
        have hgt : kLt k' k := kLt_tri k' k hne hnlt'
        apply List.pairwise_cons.mpr
        refine ⟨?_, sorted_insert k op xs h2⟩
        intro s hs
        rcases mem_insert_slot k op xs s hs with e | e
        · rw [e]; exact hgt
        · exact h1 s e

/-! ### deletion -/

theorem entries_delete_sublist (k : Int × Int) (op : Nat) : ∀ q : Ubq, (qEntries (ubqDeleteSlot k op q)).Sublist (qEntries q)
  | [] => by simp [ubqDeleteSlot]
  | (k', l) :: xs => by
    unfold ubqDeleteSlot
    split
    · dsimp only
      split
      · simp only [qEntries_cons]
        exact List.sublist_append_right _ _
      · simp only [qEntries_cons]
        exact List.Sublist.append (List.Sublist.map _ List.filter_sublist) (List.Sublist.refl _)
    · simp only [qEntries_cons]
      exact List.Sublist.append (List.Sublist.refl _) (entries_delete_sublist k op xs)

theorem mem_delete_slot (k : Int × Int) (op : Nat) : ∀ (q : Ubq) (s : (Int × Int) × List Nat),
    s ∈ ubqDeleteSlot k op q → ∃ s' ∈ q, s.1 = s'.1
  | [], s, h => by simp [ubqDeleteSlot] at h
  | (k', l) :: xs, s, h => by
    unfold ubqDeleteSlot at h
    split at h
    · dsimp only at h
      split at h
      · exact ⟨s, by simp [h], rfl⟩
      · rcases List.mem_cons.mp h with e | e
        · exact ⟨(k', l), by simp, by rw [e]⟩
        · exact ⟨s, by simp [e], rfl⟩
    · rcases List.mem_cons.mp h with e | e
      · exact ⟨(k', l), by simp, by rw [e]⟩
      · obtain ⟨s', hs', he⟩ := mem_delete_slot k op xs s e
        exact ⟨s', by simp [hs'], he⟩

theorem sorted_delete (k : Int × Int) (op : Nat) : ∀ q : Ubq, qSorted q → qSorted (ubqDeleteSlot k op q)
  | [], _ => by simp [ubqDeleteSlot, qSorted]
  | (k', l) :: xs, h => by
    unfold qSorted at h ⊢
    have ⟨h1, h2⟩ := List.pairwise_cons.mp h
    unfold ubqDeleteSlot
    split
    · dsimp only
      split
      · exact h2
      · exact List.pairwise_cons.mpr ⟨h1, h2⟩
    · apply List.pairwise_cons.mpr
      refine ⟨?_, sorted_delete k op xs h2⟩
      intro s hs
      obtain ⟨s', hs', he⟩ := mem_delete_slot k op xs s hs
      rw [he]; exact h1 s' hs'

/-- with ascending slot keys the deleted entry is gone -/
theorem entries_delete_gone (k : Int × Int) (op : Nat) : ∀ q : Ubq, qSorted q → (k, op) ∉ qEntries (ubqDeleteSlot k op q)
  | [], _ => by simp [ubqDeleteSlot]
  | (k', l) :: xs, h => by
    unfold qSorted at h
    have ⟨h1, h2⟩ := List.pairwise_cons.mp h
    have hxs : ∀ l' : List Nat, k' = k → ∀ e ∈ qEntries xs, e ≠ (k, op) := by
      intro _ hk e he heq
      subst heq
      simp only [qEntries, List.mem_flatMap, List.mem_map] at he
      obtain ⟨s, hs, o, _, hso⟩ := he
      have := h1 s hs
      injection hso with hsk _
      rw [hsk, hk] at this
      exact kLt_irrefl _ this
    unfold ubqDeleteSlot
    split
    · rename_i hk
      dsimp only
      split
      · intro hm; exact hxs [] hk _ hm rfl
      · simp only [qEntries_cons, List.mem_append, List.mem_map, List.mem_filter]
        rintro (⟨o, ⟨_, ho⟩, heq⟩ | hm)
        · injection heq with _ h2'
          simp [h2'] at ho
        · exact hxs [] hk _ hm rfl
    · rename_i hk
      simp only [qEntries_cons, List.mem_append, List.mem_map]
      rintro (⟨o, _, heq⟩ | hm)
      · injection heq with h1' _
        exact hk h1'
      · exact entries_delete_gone k op xs h2 hm

/-- entries of other operators stay -/
theorem entries_delete_other (k : Int × Int) (op : Nat) : ∀ (q : Ubq) (e : (Int × Int) × Nat),
    e ∈ qEntries q → e.2 ≠ op → e ∈ qEntries (ubqDeleteSlot k op q)
  | [], e, h, _ => by simp at h
  | (k', l) :: xs, e, h, hne => by
    simp only [qEntries_cons, List.mem_append, List.mem_map] at h
    unfold ubqDeleteSlot
    split
    · dsimp only
      split
      · rename_i hemp
        rcases h with ⟨o, ho, heq⟩ | h
        · have : o ∈ l.filter (fun o => o != op) := List.mem_filter.mpr ⟨ho, by rw [← heq] at hne; simpa using hne⟩
          rw [List.isEmpty_iff.mp hemp] at this
          cases this
        · exact h
      · simp only [qEntries_cons, List.mem_append, List.mem_map, List.mem_filter]
        rcases h with ⟨o, ho, heq⟩ | h
        · left; exact ⟨o, ⟨ho, by rw [← heq] at hne; simpa using hne⟩, heq⟩
        · right; exact h
    · simp only [qEntries_cons, List.mem_append, List.mem_map]
      rcases h with ⟨o, ho, heq⟩ | h
      · left; exact ⟨o, ho, heq⟩
      · right; exact entries_delete_other k op xs e h hne

end App
end PoaVerif
