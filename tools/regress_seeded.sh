#!/bin/bash
# usage: regress_seeded.sh [dir ...]  — every stored seeded change against the checks that are recorded as reporting it
cd /verif
dirs="$@"; [ -z "$dirs" ] && dirs=$(ls -d seeded/*/)
for d in $dirs; do
  d=${d%/}
  m=$d/meta.json
  props=$(python3 -c "
import json,re,sys
m=json.load(open('$m'))
p=m.get('checks_reporting') or m.get('property')
print(' '.join(re.findall(r'C\d\d', p)))")
  rev=""
  case $d in seeded/revert-*) rev="-R";; esac
  patch=/verif/$d/patch.diff
  out=$(tools/try_mutation.sh $rev $patch $props 2>&1)
  n=$(echo "$out" | grep -c "^VIOLATION")
  np=$(echo $props | wc -w)
  echo "$d props=[$props] violations=$n/$np $(echo "$out" | grep '^VIOLATION' | sed 's/replay=.*replays\///' | tr '\n' ';')"
done
