#!/usr/bin/env python3
import sys
sys.path.insert(0, __import__('os').path.dirname(__import__('os').path.abspath(__file__)))
from cmpobs import split_ops, split_histories
ops=split_ops(sys.argv[1]); mod=split_histories(sys.argv[2],keep_trig=True)
i=int(sys.argv[3]); lo=int(sys.argv[4]) if len(sys.argv)>4 else 0
tags=set((sys.argv[5] if len(sys.argv)>5 else 'H,TXR,TRIG,HALT,UPD,COMET,IDX,VAL,UBQ,PEND,TOT,POOL').split(','))
o,m=ops[i],mod[i]
print(o[0]); print(' '.join(l for l in o if l.startswith('GVAL')))
h=0
for l in o:
    if l.startswith('BLOCK'): h+=1; print(h,l, ' '.join(x[5:] for x in o[o.index(l):] if False))
    elif l.startswith('VOTE'):
        if l.endswith(' 1'): print(h,l)
    elif l.startswith(('M ','TX','RESTART')): print(h,l)
cur=0
for l in m:
    if l.startswith('H '): cur=int(l.split()[1])
    if cur>=lo and l.split()[0] in tags: print(l)
