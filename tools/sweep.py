#!/usr/bin/env python3
"""Exploratory: run every oracle on implementation and model streams and tabulate violations by the
triggers that preceded them (used to validate the completeness of the trigger table)."""
import sys, collections
sys.path.insert(0, __import__('os').path.dirname(__import__('os').path.abspath(__file__)))
import poalib

ops = poalib.parse_ops(sys.argv[1]); impl = poalib.parse_obs(sys.argv[2]); model = poalib.parse_obs(sys.argv[3])
show = sys.argv[4] if len(sys.argv) > 4 else None
tab = collections.Counter(); ex = {}
for prop, orc in poalib.ORACLES.items():
    for hi, (o, a, m) in enumerate(zip(ops, impl, model)):
        va = orc(hi, o, a); vm = orc(hi, o, m)
        for v in va:
            trig = poalib.history_trigs(m, v.height)
            same = any(w.height == v.height and w.kind == v.kind and w.detail == v.detail for w in vm)
            key = (prop, v.kind, tuple(sorted(trig - {'D8'})) if prop != 'C05' else tuple(sorted(trig)), 'model-too' if same else 'IMPL-ONLY')
            tab[key] += 1; ex.setdefault(key, (hi, v.height, v.detail))
for k, c in sorted(tab.items()):
    print(c, k, 'e.g.', ex[k])
